(** * Invariant of the BasketQueue model and its preservation by every kind of step.

    All linked nodes form one list [GG = dpre ++ bnd :: live] in chain order: the pointer parts of the next
    fields link consecutive nodes and the last one is null; the pointers LEAVING the nodes of [dpre] are
    marked (the nodes they lead to are logically deleted), those leaving [bnd] and the nodes of [live] are not;
    so [live] holds exactly the undeleted items, in chain order, and [dpre ++ [bnd]] is the deleted prefix
    (first dummy included).  [head] is a node of the deleted prefix, at index [hidx] that never decreases;
    [tail] is some linked node.  New nodes enter after a node whose outgoing pointer is unmarked, i.e. at an
    index > length dpre, so the index of a deleted node never changes - which is what lets a thread keep
    facts "node x sits at index i of the deleted prefix" across steps of other threads. *)
From Coq Require Import ZArith List String Bool Lia PeanoNat.
From LV Require Import Base.Conc Base.Events Base.Lin Spec.Specs Proofs.LinProofs Model.Basket
  Proofs.MSQueueBase Proofs.BasketBase.
Import ListNotations.
Local Open Scope list_scope.

(** ** lists *)
Lemma linked_nth nx (l : list nat) : forall i n x,
  linked nx l -> nth_error l i = Some n -> nx n = Some x -> nth_error l (S i) = Some x.
Proof.
  induction l as [|a r IH]; intros [|i] n x Hl Hn Hx; cbn in *; try discriminate.
  - injection Hn as ->. destruct Hl as [H _]. rewrite Hx in H. destruct r; cbn in *; congruence.
  - destruct Hl as [_ Hl]. eapply IH; eauto.
Qed.

Lemma linked_insert nx nx' (l1 l2 : list nat) t s n :
  NoDup (l1 ++ t :: s :: l2) ->
  linked nx (l1 ++ t :: s :: l2) -> ~ In n (l1 ++ t :: s :: l2) ->
  (forall y, y <> t -> y <> n -> nx' y = nx y) -> nx' t = Some n -> nx' n = Some s ->
  linked nx' (l1 ++ t :: n :: s :: l2).
Proof.
  intros Hnd Hl Hn Hag Ht Hnn. induction l1 as [|a l1 IH]; cbn [app linked] in *.
  - destruct Hl as (H1 & H2 & H3). inversion Hnd as [|? ? Hts Hnd']; subst.
    inversion Hnd' as [|? ? Hs _]; subst.
    split; [exact Ht|]. split; [exact Hnn|]. split.
    + rewrite Hag; [exact H2| |].
      * intros ->. apply Hts. now left.
      * intros ->. apply Hn. right. now left.
    + eapply linked_ext; [|exact H3]. intros x Hx. apply Hag.
      * intros ->. apply Hts. now right.
      * intros ->. apply Hn. right. now right.
  - destruct Hl as (H1 & H2). inversion Hnd as [|? ? Ha Hnd']; subst. split.
    + rewrite Hag.
      * destruct l1; cbn in *; exact H1.
      * intros ->. apply Ha. apply in_or_app. right. now left.
      * intros ->. apply Hn. now left.
    + apply IH; auto. intros H. apply Hn. now right.
Qed.

(** ** auxiliary state *)
Record tview := mkTV {
  tv_st : pst;
  tv_priv : option nat;           (* my allocated, not yet linked node ... *)
  tv_pnx : mptr;                  (* ... and the value of its next field *)
  tv_inG : list nat;              (* nodes I know to be linked *)
  tv_idx : list (nat * nat);      (* (x, i): x sits at index i of the chain and i <= length dpre (deleted prefix) *)
  tv_hlow : nat                   (* a lower bound of head's index *)
}.

Record Aux := mkAux { dpre : list nat; bnd : nat; live : list nat; hidx : nat; views : nat -> tview }.
Definition view (a : Aux) (t : nat) : tview := views a t.
Definition updv (vs : nat -> tview) (t : nat) (v : tview) : nat -> tview :=
  fun x => if Nat.eqb x t then v else vs x.
Definition auxv (a : Aux) (t : nat) (v : tview) : Aux := mkAux (dpre a) (bnd a) (live a) (hidx a) (updv (views a) t v).
Definition GG (a : Aux) : list nat := dpre a ++ bnd a :: live a.
Definition nptr (g : G) (x : nat) : option nat := fst (nxt g x).

Definition tv_ok (g : G) (a : Aux) (v : tview) : Prop :=
  (forall n, tv_priv v = Some n ->
     (n < nalloc g)%nat /\ ~ In n (GG a) /\ nxt g n = tv_pnx v /\ tv_st v = PPend (Enq (val g n))) /\
  (forall m, In m (tv_inG v) -> In m (GG a)) /\
  (forall x i, In (x, i) (tv_idx v) -> nth_error (GG a) i = Some x /\ (i <= List.length (dpre a))%nat) /\
  (tv_hlow v <= hidx a)%nat.

Record Inv (g : G) (a : Aux) (tr : list (nat * ev)) : Prop := mkInv {
  I_nodup : NoDup (GG a);
  I_linked : linked (nptr g) (GG a);
  I_mpre : forall x, In x (dpre a) -> snd (nxt g x) = true;
  I_mpost : forall x, In x (bnd a :: live a) -> snd (nxt g x) = false;
  I_lt : forall n, In n (GG a) -> (n < nalloc g)%nat;
  I_head : nth_error (GG a) (hidx a) = Some (head g) /\ (hidx a <= List.length (dpre a))%nat;
  I_tail : In (tail g) (GG a);
  I_views : forall t, tv_ok g a (views a t);
  I_privs : forall t t' n, t <> t' -> tv_priv (views a t) = Some n -> tv_priv (views a t') <> Some n;
  I_pool : PoolInv (map (val g) (live a)) (fun t => tv_st (views a t)) (hist tr)
}.

Lemma updv_same vs t v : updv vs t v t = v.
Proof. unfold updv. now rewrite Nat.eqb_refl. Qed.
Lemma updv_other vs t v x : x <> t -> updv vs t v x = vs x.
Proof. unfold updv. intros H. destruct (Nat.eqb_spec x t); congruence. Qed.

Ltac others x t Hne :=
  destruct (Nat.eq_dec x t) as [->|Hne]; [rewrite updv_same|rewrite updv_other by exact Hne].

Ltac facts_nil :=
  repeat split; cbn in *; try (intros; discriminate); try contradiction;
  try (intros ? ? []); try (intros ? []); try lia.

Lemma privs_upd (vs : nat -> tview) t v' :
  (forall x x' n, x <> x' -> tv_priv (vs x) = Some n -> tv_priv (vs x') <> Some n) ->
  (forall n, tv_priv v' = Some n -> forall x, x <> t -> tv_priv (vs x) <> Some n) ->
  forall x x' n, x <> x' -> tv_priv (updv vs t v' x) = Some n -> tv_priv (updv vs t v' x') <> Some n.
Proof.
  intros H Hv x x' n Hne. destruct (Nat.eq_dec x t) as [->|N1]; destruct (Nat.eq_dec x' t) as [->|N2];
    try congruence; rewrite ?updv_same, ?updv_other by assumption.
  - intros E. apply Hv; auto.
  - intros E E'. apply (Hv n E' x N1). exact E.
  - apply H. exact Hne.
Qed.

Lemma pool_upd q (vs : nat -> tview) h t v' :
  PoolInv q (fun x => tv_st (vs x)) h -> tv_st v' = tv_st (vs t) ->
  PoolInv q (fun x => tv_st (updv vs t v' x)) h.
Proof.
  intros H E. eapply pool_ext; [|exact H]. intros x. cbn. others x t Hne; auto.
Qed.

(** the views of the other threads survive a step that only grows what can be known *)
Lemma tv_ok_mono g a g' a' v :
  tv_ok g a v ->
  (forall n, tv_priv v = Some n -> (n < nalloc g)%nat -> ~ In n (GG a) ->
     (n < nalloc g')%nat /\ ~ In n (GG a') /\ nxt g' n = nxt g n /\ val g' n = val g n) ->
  (forall m, In m (GG a) -> In m (GG a')) ->
  (forall x i, nth_error (GG a) i = Some x -> (i <= List.length (dpre a))%nat ->
     nth_error (GG a') i = Some x /\ (i <= List.length (dpre a'))%nat) ->
  (hidx a <= hidx a')%nat ->
  tv_ok g' a' v.
Proof.
  intros (P1 & P2 & P3 & P4) Hp Hl Hi Hh. split; [|split; [|split]].
  - intros n E. destruct (P1 n E) as (A & B & C & D). destruct (Hp n E A B) as (A' & B' & C' & D').
    repeat split; auto; congruence.
  - intros m E. auto.
  - intros x i E. destruct (P3 x i E). auto.
  - lia.
Qed.

(** ** steps that do not touch the chain or the pool status *)
Lemma Inv_acc g a tr t k o b : Inv g a tr -> Inv g a (tr ++ Conc.tag t [EvAcc k o b]).
Proof.
  intros [H1 H2 H3 H4 H5 H6 H7 H8 H9 H10]. constructor; auto.
  rewrite hist_app, hist_acc, app_nil_r. exact H10.
Qed.

Lemma Inv_cli_other g a tr t name args :
  hev_of t (EvCli name args) = [] -> Inv g a tr -> Inv g a (tr ++ Conc.tag t [EvCli name args]).
Proof.
  intros He [H1 H2 H3 H4 H5 H6 H7 H8 H9 H10]. constructor; auto.
  rewrite hist_snoc, He, app_nil_r. exact H10.
Qed.

(** the thread replaces the facts it remembers *)
Lemma Inv_setv g a tr t v' :
  Inv g a tr ->
  tv_st v' = tv_st (views a t) -> tv_priv v' = tv_priv (views a t) -> tv_pnx v' = tv_pnx (views a t) ->
  (forall m, In m (tv_inG v') -> In m (GG a)) ->
  (forall x i, In (x, i) (tv_idx v') -> nth_error (GG a) i = Some x /\ (i <= List.length (dpre a))%nat) ->
  (tv_hlow v' <= hidx a)%nat ->
  Inv g (auxv a t v') tr.
Proof.
  intros [H1 H2 H3 H4 H5 H6 H7 H8 H9 H10] Es Ep Ex Hg Hi Hh.
  constructor; auto; unfold auxv, GG in *; cbn [dpre bnd live hidx views] in *.
  - intros x. others x t Hne; [|apply H8].
    destruct (H8 t) as (P1 & _). split; [|auto].
    intros n E. rewrite Ep in E. rewrite Es, Ex. apply (P1 n E).
  - apply privs_upd; [exact H9|]. intros n E x Hx. rewrite Ep in E. apply (H9 t x n); auto.
  - apply pool_upd; auto.
Qed.

Lemma Inv_cnt g a tr c : Inv g a tr -> Inv (set_cnt g c) a tr.
Proof. intros [H1 H2 H3 H4 H5 H6 H7 H8 H9 H10]. constructor; auto. Qed.

Lemma Inv_tail g a tr x : Inv g a tr -> In x (GG a) -> Inv (set_tail g x) a tr.
Proof. intros [H1 H2 H3 H4 H5 H6 H7 H8 H9 H10] Hx. constructor; auto. Qed.

(** ** invoke / response / "empty" decision *)
Lemma Inv_pev g a tr t (e : pev) es s' :
  Inv g a tr ->
  tv_priv (views a t) = None ->
  (forall f : pmap, f t = tv_st (views a t) ->
     pstep (map (val g) (live a), f) e = Some (map (val g) (live a), pupd f t s')) ->
  hist (Conc.tag t es) = perase [e] ->
  Inv g (auxv a t (mkTV s' None mnull [] [] 0)) (tr ++ Conc.tag t es).
Proof.
  intros [H1 H2 H3 H4 H5 H6 H7 H8 H9 H10] Hp Hstep He.
  constructor; auto; unfold auxv, GG in *; cbn [dpre bnd live hidx views] in *.
  - intros x. others x t Hne; [|apply H8]. facts_nil.
  - apply privs_upd; [exact H9|]. cbn. discriminate.
  - rewrite hist_app, He.
    eapply pool_ext; [|eapply pool_event; [exact H10|exact Hstep]].
    intros x. cbn. unfold pupd. destruct (Nat.eqb_spec x t) as [->|Hne];
      [now rewrite updv_same|now rewrite updv_other].
Qed.

(** ** node construction *)
Lemma Inv_alloc g a tr t v :
  Inv g a tr ->
  views a t = mkTV (PPend (Enq v)) None mnull [] [] 0 ->
  Inv (fst (fst (a_alloc v g))) (auxv a t (mkTV (PPend (Enq v)) (Some (nalloc g)) mnull [] [] 0)) tr.
Proof.
  intros [H1 H2 H3 H4 H5 H6 H7 H8 H9 H10] Hv. cbn [a_alloc fst].
  set (n := nalloc g).
  assert (HnL : ~ In n (GG a)) by (intros Hin; apply H5 in Hin; unfold n in Hin; lia).
  assert (Hagree : forall x, In x (GG a) -> upd (nxt g) n mnull x = nxt g x).
  { intros x Hx. unfold upd. destruct (Nat.eqb_spec x n) as [->|]; [contradiction|reflexivity]. }
  constructor; unfold auxv, GG in *; cbn [dpre bnd live hidx views head tail nxt val nalloc]; auto.
  - eapply linked_ext; [|exact H2]. intros x Hx. unfold nptr. cbn. now rewrite Hagree.
  - intros x Hx. cbn. rewrite Hagree; auto. apply in_or_app. now left.
  - intros x Hx. cbn. rewrite Hagree; auto. apply in_or_app. now right.
  - intros x Hx. apply H5 in Hx. lia.
  - intros x. others x t Hne.
    + split; [|facts_nil].
      cbn. intros m E. injection E as <-. fold n. unfold upd. rewrite !Nat.eqb_refl. auto.
    + eapply tv_ok_mono; [apply H8| | | |]; unfold GG; cbn [dpre bnd live hidx views head tail nxt val nalloc]; auto.
      intros m _ Hm Hm1. fold n. unfold upd. destruct (Nat.eqb_spec m n) as [->|]; [unfold n in Hm; lia|].
      repeat split; auto.
  - apply privs_upd; [exact H9|]. cbn. intros m E x Hx E'. injection E as <-.
    destruct (H8 x) as (P1 & _). destruct (P1 _ E') as (A & _). unfold n in A. lia.
  - assert (Em : map (fun x => if Nat.eqb x n then v else val g x) (live a) = map (val g) (live a)).
    { apply map_ext_in. intros x Hx. destruct (Nat.eqb_spec x n) as [->|]; [|reflexivity].
      exfalso. apply HnL. apply in_or_app. right. now right. }
    rewrite Em. apply pool_upd; auto. now rewrite Hv.
Qed.

(** pNew->m_pNext.store( .. ): the node is still private *)
Lemma Inv_st_next_priv g a tr t v n pnx p inG idx hl :
  Inv g a tr ->
  views a t = mkTV (PPend (Enq v)) (Some n) pnx inG idx hl ->
  Inv (set_next g n p) (auxv a t (mkTV (PPend (Enq v)) (Some n) p inG idx hl)) tr.
Proof.
  intros [H1 H2 H3 H4 H5 H6 H7 H8 H9 H10] Hv.
  destruct (H8 t) as (P1 & P2 & P3 & P4). rewrite Hv in P1, P2, P3, P4. cbn in P1, P2, P3, P4.
  destruct (P1 n eq_refl) as (A & B & C & D).
  assert (Hagree : forall x, In x (GG a) -> upd (nxt g) n p x = nxt g x).
  { intros x Hx. unfold upd. destruct (Nat.eqb_spec x n) as [->|]; [contradiction|reflexivity]. }
  constructor; unfold auxv, GG in *; cbn [set_next dpre bnd live hidx views head tail nxt val nalloc]; auto.
  - eapply linked_ext; [|exact H2]. intros x Hx. unfold nptr. cbn. now rewrite Hagree.
  - intros x Hx. rewrite Hagree; auto. apply in_or_app. now left.
  - intros x Hx. rewrite Hagree; auto. apply in_or_app. now right.
  - intros x. others x t Hne.
    + split; [|split; [exact P2|split; [exact P3|exact P4]]].
      cbn. intros m E. injection E as <-. unfold upd. rewrite Nat.eqb_refl. auto.
    + eapply tv_ok_mono; [apply H8| | | |]; unfold GG; cbn [set_next dpre bnd live hidx views head tail nxt val nalloc]; auto.
      intros m Em Hm Hm1. repeat split; auto. unfold upd. destruct (Nat.eqb_spec m n) as [->|]; [|reflexivity].
      exfalso. apply (H9 x t n Hne Em). now rewrite Hv.
  - apply privs_upd; [exact H9|]. cbn. intros m E x Hx. injection E as <-. apply (H9 t x n); auto. now rewrite Hv.
  - apply pool_upd; auto. now rewrite Hv.
Qed.

(** ** more list facts *)
Lemma last_in_suffix {A} (pre : list A) b r l' h : pre ++ b :: r = l' ++ [h] -> In h (b :: r).
Proof.
  intros El.
  assert (Hr : rev (pre ++ b :: r) = rev (l' ++ [h])) by (now rewrite El).
  rewrite !rev_app_distr in Hr. cbn [rev app] in Hr.
  destruct (rev r ++ [b]) as [|z zs] eqn:Ez.
  - destruct (rev r); discriminate.
  - cbn in Hr. injection Hr as Hz _. subst z. apply in_rev. cbn [rev]. rewrite Ez. now left.
Qed.

Lemma split_at {A} (P : list A) x R :
  firstn (S (List.length P)) (P ++ x :: R) = P ++ [x] /\ skipn (S (List.length P)) (P ++ x :: R) = R.
Proof.
  induction P as [|y P IH]; cbn [List.length app].
  - cbn. auto.
  - destruct IH as [I1 I2]. split.
    + change (firstn (S (S (List.length P))) (y :: P ++ x :: R)) with (y :: firstn (S (List.length P)) (P ++ x :: R)).
      now rewrite I1.
    + change (skipn (S (S (List.length P))) (y :: P ++ x :: R)) with (skipn (S (List.length P)) (P ++ x :: R)).
      exact I2.
Qed.

Lemma NoDup_insert {A} (P Q : list A) n : NoDup (P ++ Q) -> ~ In n (P ++ Q) -> NoDup (P ++ n :: Q).
Proof. intros H Hn. apply (NoDup_Add (Add_app n P Q)). auto. Qed.

Lemma in_insert {A} (P Q : list A) n x : In x (P ++ Q) -> In x (P ++ n :: Q).
Proof. intros H. apply in_app_or in H. apply in_or_app. destruct H; [now left|right; now right]. Qed.

Lemma in_insert_inv {A} (P Q : list A) n x : In x (P ++ n :: Q) -> x = n \/ In x (P ++ Q).
Proof.
  intros H. apply in_app_or in H. destruct H as [H|[H|H]]; auto; right; apply in_or_app; auto.
Qed.

Lemma nth_error_low {A} (P Q Q' : list A) i : (i < List.length P)%nat -> nth_error (P ++ Q) i = nth_error (P ++ Q') i.
Proof. intros H. now rewrite !nth_error_app1. Qed.

Definition auxset (a : Aux) (d : list nat) (b : nat) (l : list nat) (hi : nat) (t : nat) (v : tview) : Aux :=
  mkAux d b l hi (updv (views a) t v).

Lemma nodup_disj {A} (P Q : list A) x : NoDup (P ++ Q) -> In x P -> In x Q -> False.
Proof.
  induction P as [|y P IH]; cbn; intros Hnd HP HQ; [contradiction|].
  inversion Hnd as [|? ? Hy Hnd']; subst. destruct HP as [->|HP]; [|eauto].
  apply Hy. apply in_or_app. now right.
Qed.

(** ** enqueue takes effect: the new node becomes the last one *)
Lemma Inv_link_end g a tr t v n inG idx hl tl b :
  Inv g a tr ->
  views a t = mkTV (PPend (Enq v)) (Some n) mnull inG idx hl -> In tl inG ->
  nxt g tl = (None, b) ->
  Inv (set_next g tl (Some n, false))
      (auxset a (dpre a) (bnd a) (live a ++ [n]) (hidx a) t (mkTV (PLin (RBool true)) None mnull [n] [] 0)) tr.
Proof.
  intros [H1 H2 H3 H4 H5 H6 H7 H8 H9 H10] Hv Hin Hnx.
  destruct (H8 t) as (P1 & P2 & _). rewrite Hv in P1, P2. cbn in P1, P2.
  destruct (P1 n eq_refl) as (A & B & C & D). injection D as D.
  pose proof (P2 tl Hin) as Htl.
  assert (Hnp : nptr g tl = None) by (unfold nptr; now rewrite Hnx).
  destruct (linked_last _ _ _ H2 Htl Hnp) as (l' & El).
  assert (Htlpost : In tl (bnd a :: live a)) by (unfold GG in El; eapply last_in_suffix; eauto).
  assert (Hne : n <> tl) by (intros ->; contradiction).
  assert (EGG : dpre a ++ bnd a :: live a ++ [n] = GG a ++ [n]).
  { unfold GG. rewrite <- app_assoc. reflexivity. }
  assert (Hlen : forall i x, nth_error (GG a) i = Some x -> nth_error (GG a ++ [n]) i = Some x).
  { intros i x E. rewrite nth_error_app1; auto. apply nth_error_Some. congruence. }
  assert (Hpre : forall x, In x (dpre a) -> x <> tl).
  { intros x Hx ->. eapply nodup_disj; eauto. }
  constructor; unfold auxset, GG; cbn [set_next dpre bnd live hidx views head tail nxt val nalloc]; rewrite ?EGG; fold (GG a).
  - apply NoDup_snoc; auto.
  - rewrite El in *. apply NoDup_remove_2 in H1. rewrite app_nil_r in H1.
    eapply linked_snoc; eauto.
    + intros Hx. apply B. apply in_or_app. now left.
    + intros y Hy. unfold nptr. cbn. unfold upd. destruct (Nat.eqb_spec y tl); congruence.
    + unfold nptr. cbn. unfold upd. now rewrite Nat.eqb_refl.
    + unfold nptr. now rewrite C.
  - intros x Hx. unfold upd. destruct (Nat.eqb_spec x tl) as [->|]; [exfalso; eapply Hpre; eauto|auto].
  - intros x Hx. unfold upd. destruct (Nat.eqb_spec x tl) as [->|]; [reflexivity|].
    rewrite app_comm_cons in Hx. apply in_app_or in Hx. destruct Hx as [Hx|[<-|[]]]; [auto|now rewrite C].
  - intros x Hx. apply in_app_or in Hx. destruct Hx as [Hx|[<-|[]]]; auto.
  - destruct H6 as (E1 & E2). split; [apply Hlen; exact E1|exact E2].
  - apply in_or_app. now left.
  - intros x. others x t Hne2.
    + split; [cbn; intros; discriminate|]. split; [|facts_nil].
      cbn. intros m [<-|[]]. unfold GG. cbn. rewrite EGG. apply in_or_app. right. now left.
    + eapply tv_ok_mono; [apply H8| | | |]; cbn [set_next dpre bnd live hidx views head tail nxt val nalloc]; auto.
      * intros m Em Hm Hm1. repeat split; auto.
        -- unfold GG. cbn. rewrite EGG. intros Hi. apply in_app_or in Hi. destruct Hi as [Hi|[<-|[]]]; [contradiction|].
           apply (H9 x t n Hne2 Em). now rewrite Hv.
        -- unfold upd. destruct (Nat.eqb_spec m tl) as [->|]; [contradiction|reflexivity].
      * intros m Hm. unfold GG. cbn. rewrite EGG. apply in_or_app. now left.
      * intros x0 i E Hi. unfold GG. cbn. rewrite EGG. split; auto.
  - apply privs_upd; [exact H9|]. cbn. discriminate.
  - rewrite map_app. cbn [map]. rewrite <- D. rewrite <- (app_nil_r (hist tr)).
    change (@nil (hev Fifo)) with (perase [PEnq t (List.length (live a))]).
    eapply pool_ext; [|eapply pool_event with (t := t) (s' := PLin (RBool true)); [exact H10|]].
    + intros x. cbn. unfold pupd. destruct (Nat.eqb_spec x t) as [->|Hne2];
        [rewrite updv_same; reflexivity|now rewrite updv_other].
    + intros f Hf. cbn beta in Hf. rewrite Hv in Hf. cbn in Hf. cbn [pstep]. rewrite Hf.
      unfold insert_at. rewrite firstn_all2, skipn_all2 by (rewrite map_length; lia). reflexivity.
Qed.

(** ** enqueue takes effect: the new node enters the basket, right after [tl] *)
Lemma Inv_link_basket g a tr t v n s inG idx hl tl :
  Inv g a tr ->
  views a t = mkTV (PPend (Enq v)) (Some n) (Some s, false) inG idx hl -> In tl inG ->
  nxt g tl = (Some s, false) ->
  exists k,
  Inv (set_next g tl (Some n, false))
      (auxset a (dpre a) (bnd a) (firstn k (live a) ++ n :: skipn k (live a)) (hidx a) t
         (mkTV (PLin (RBool true)) None mnull [n] [] 0)) tr.
Proof.
  intros [H1 H2 H3 H4 H5 H6 H7 H8 H9 H10] Hv Hin Hnx.
  destruct (H8 t) as (P1 & P2 & _). rewrite Hv in P1, P2. cbn in P1, P2.
  destruct (P1 n eq_refl) as (A & B & C & D). injection D as D.
  pose proof (P2 tl Hin) as Htl.
  assert (Htlpost : In tl (bnd a :: live a)).
  { unfold GG in Htl. apply in_app_or in Htl. destruct Htl as [Hd|Hp]; [|exact Hp].
    apply H3 in Hd. rewrite Hnx in Hd. discriminate. }
  apply in_split in Htlpost. destruct Htlpost as (PA & PB & Epost).
  assert (EG0 : GG a = (dpre a ++ PA) ++ tl :: PB) by (unfold GG; rewrite Epost, <- app_assoc; reflexivity).
  assert (EPB : exists PB', PB = s :: PB').
  { rewrite EG0 in H2. pose proof (linked_mid _ _ _ _ H2) as Hm. unfold nptr in Hm. rewrite Hnx in Hm. cbn in Hm.
    destruct PB as [|b PB']; [discriminate|]. injection Hm as <-. eauto. }
  destruct EPB as (PB' & ->).
  exists (List.length PA).
  assert (Elive : bnd a :: (firstn (List.length PA) (live a) ++ n :: skipn (List.length PA) (live a))
                  = PA ++ tl :: n :: s :: PB').
  { destruct PA as [|b0 PA']; cbn [List.length app] in *.
    - injection Epost as -> ->. reflexivity.
    - injection Epost as -> ->. destruct (split_at PA' tl (s :: PB')) as [E1 E2]. rewrite E1, E2.
      rewrite <- app_assoc. reflexivity. }
  set (lv' := firstn (List.length PA) (live a) ++ n :: skipn (List.length PA) (live a)) in *.
  assert (EGG : dpre a ++ bnd a :: lv' = (dpre a ++ PA) ++ tl :: n :: s :: PB').
  { rewrite Elive, <- app_assoc. reflexivity. }
  assert (EG1 : GG a = ((dpre a ++ PA) ++ [tl]) ++ s :: PB') by (rewrite EG0, <- (app_assoc (dpre a ++ PA) [tl] (s :: PB')); reflexivity).
  assert (EG2 : dpre a ++ bnd a :: lv' = ((dpre a ++ PA) ++ [tl]) ++ n :: s :: PB').
  { rewrite EGG, <- (app_assoc (dpre a ++ PA) [tl] (n :: s :: PB')). reflexivity. }
  assert (Hne : n <> tl) by (intros ->; contradiction).
  assert (Hpre : forall x, In x (dpre a) -> x <> tl).
  { intros x Hx ->. eapply nodup_disj; [exact H1|exact Hx|]. rewrite Epost. apply in_or_app. right. now left. }
  assert (Hinc : forall x, In x (GG a) -> In x (dpre a ++ bnd a :: lv')).
  { intros x Hx. rewrite EG2. rewrite EG1 in Hx. apply in_insert. exact Hx. }
  assert (Hidx : forall x i, nth_error (GG a) i = Some x -> (i <= List.length (dpre a))%nat ->
                             nth_error (dpre a ++ bnd a :: lv') i = Some x).
  { intros x i E Hi. rewrite EG2. rewrite EG1 in E. rewrite <- E. apply nth_error_low.
    rewrite !app_length. cbn. lia. }
  constructor; unfold auxset, GG; cbn [set_next dpre bnd live hidx views head tail nxt val nalloc]; fold lv'; fold (GG a).
  - rewrite EG2. apply NoDup_insert; [rewrite <- EG1; exact H1|rewrite <- EG1; exact B].
  - rewrite EGG. eapply linked_insert with (nx := nptr g).
    + rewrite <- EG0. exact H1.
    + rewrite <- EG0. exact H2.
    + rewrite <- EG0. exact B.
    + intros y Hy1 Hy2. unfold nptr. cbn. unfold upd. destruct (Nat.eqb_spec y tl); congruence.
    + unfold nptr. cbn. unfold upd. now rewrite Nat.eqb_refl.
    + unfold nptr. cbn. unfold upd. destruct (Nat.eqb_spec n tl); [contradiction|]. now rewrite C.
  - intros x Hx. unfold upd. destruct (Nat.eqb_spec x tl) as [->|]; [exfalso; eapply Hpre; eauto|auto].
  - intros x Hx. unfold upd. destruct (Nat.eqb_spec x tl) as [->|]; [reflexivity|].
    rewrite Elive in Hx. assert (Hx' : x = n \/ In x (bnd a :: live a)).
    { rewrite Epost. apply in_app_or in Hx. destruct Hx as [Hx|[Hx|[Hx|Hx]]].
      - right. apply in_or_app. now left.
      - congruence.
      - left. congruence.
      - right. apply in_or_app. right. right. exact Hx. }
    destruct Hx' as [->|Hx']; [now rewrite C|auto].
  - intros x Hx. rewrite EG2 in Hx. apply in_insert_inv in Hx. destruct Hx as [->|Hx]; [exact A|].
    apply H5. rewrite EG1. exact Hx.
  - destruct H6 as (E1 & E2). split; [apply Hidx; auto|exact E2].
  - apply Hinc. exact H7.
  - intros x. others x t Hne2.
    + split; [cbn; intros; discriminate|]. split; [|facts_nil].
      cbn. intros m [<-|[]]. unfold GG. cbn. fold lv'. rewrite EG2. apply in_or_app. right. now left.
    + eapply tv_ok_mono; [apply H8| | | |]; cbn [set_next dpre bnd live hidx views head tail nxt val nalloc]; auto.
      * intros m Em Hm Hm1. repeat split; auto.
        -- unfold GG. cbn. fold lv'. rewrite EG2. intros Hi. apply in_insert_inv in Hi. destruct Hi as [->|Hi].
           ++ apply (H9 x t n Hne2 Em). now rewrite Hv.
           ++ apply Hm1. rewrite EG1. exact Hi.
        -- unfold upd. destruct (Nat.eqb_spec m tl) as [->|]; [contradiction|reflexivity].
  - apply privs_upd; [exact H9|]. cbn. discriminate.
  - unfold lv'. rewrite map_app. cbn [map]. rewrite <- firstn_map, <- skipn_map, <- D.
    rewrite <- (app_nil_r (hist tr)).
    change (@nil (hev Fifo)) with (perase [PEnq t (List.length PA)]).
    eapply pool_ext; [|eapply pool_event with (t := t) (s' := PLin (RBool true)); [exact H10|]].
    + intros x. cbn. unfold pupd. destruct (Nat.eqb_spec x t) as [->|Hne2];
        [rewrite updv_same; reflexivity|now rewrite updv_other].
    + intros f Hf. cbn beta in Hf. rewrite Hv in Hf. cbn in Hf. cbn [pstep]. rewrite Hf. reflexivity.
Qed.

(** ** dequeue takes effect: the pointer leaving the boundary node gets its mark *)
Lemma Inv_mark g a tr t inG idx hl iter j x :
  Inv g a tr ->
  views a t = mkTV (PPend Deq) None mnull inG idx hl -> In (iter, j) idx ->
  nxt g iter = (Some x, false) ->
  Inv (set_next g iter (Some x, true))
      (auxset a (dpre a ++ [bnd a]) x (List.tl (live a)) (hidx a) t
         (mkTV (PLin (RVal (Some (val g x)))) None mnull [] ((x, S j) :: idx) hl)) tr.
Proof.
  intros [H1 H2 H3 H4 H5 H6 H7 H8 H9 H10] Hv Hin Hnx.
  destruct (H8 t) as (_ & _ & P3 & P4). rewrite Hv in P3, P4. cbn in P3, P4.
  destruct (P3 iter j Hin) as (Ej & Hj).
  assert (Ejm : j = List.length (dpre a)).
  { destruct (Nat.eq_dec j (List.length (dpre a))) as [|Hne]; [assumption|exfalso].
    unfold GG in Ej. rewrite nth_error_app1 in Ej by lia. apply nth_error_In in Ej.
    apply H3 in Ej. rewrite Hnx in Ej. discriminate. }
  assert (Eb : iter = bnd a).
  { unfold GG in Ej. rewrite Ejm, nth_error_app2, Nat.sub_diag in Ej by lia. cbn in Ej. congruence. }
  subst iter.
  assert (Er : exists r', live a = x :: r').
  { pose proof (linked_mid _ _ _ _ H2) as Hm. unfold nptr in Hm. rewrite Hnx in Hm. cbn in Hm.
    destruct (live a) as [|b r']; [discriminate|]. injection Hm as <-. eauto. }
  destruct Er as (r' & Er).
  assert (EGG : (dpre a ++ [bnd a]) ++ x :: r' = GG a).
  { unfold GG. rewrite Er, <- app_assoc. reflexivity. }
  assert (Hbx : forall y, In y (dpre a) \/ In y (x :: r') -> y <> bnd a).
  { intros y Hy ->. unfold GG in H1. rewrite Er in H1. apply NoDup_remove_2 in H1. apply H1.
    apply in_or_app. exact Hy. }
  constructor; unfold auxset, GG; cbn [set_next dpre bnd live hidx views head tail nxt val nalloc];
    rewrite ?Er; cbn [List.tl]; rewrite ?EGG; auto.
  - eapply linked_ext; [|exact H2]. intros y Hy. unfold nptr. cbn. unfold upd.
    destruct (Nat.eqb_spec y (bnd a)) as [->|]; [now rewrite Hnx|reflexivity].
  - intros y Hy. unfold upd. destruct (Nat.eqb_spec y (bnd a)) as [->|Hne]; [reflexivity|].
    apply in_app_or in Hy. destruct Hy as [Hy|[Hy|[]]]; [auto|congruence].
  - intros y Hy. unfold upd. destruct (Nat.eqb_spec y (bnd a)) as [->|Hne].
    + exfalso. eapply Hbx; eauto.
    + apply H4. rewrite Er. now right.
  - destruct H6 as (E1 & E2). split; [exact E1|]. rewrite app_length. cbn. lia.
  - intros y. others y t Hny.
    + split; [cbn; intros; discriminate|]. split; [cbn; intros ? []|]. split; [|cbn; exact P4].
      cbn. intros y i [E|Hi].
      * injection E as <- <-. unfold GG. cbn. rewrite EGG. split; [|rewrite app_length; cbn; lia].
        eapply linked_nth; [exact H2|exact Ej|]. unfold nptr. now rewrite Hnx.
      * destruct (P3 y i Hi) as (A1 & A2). unfold GG. cbn. rewrite EGG. split; [exact A1|].
        rewrite app_length. cbn. lia.
    + eapply tv_ok_mono; [apply H8| | | |]; cbn [set_next dpre bnd live hidx views head tail nxt val nalloc]; auto.
      * intros m Em Hm Hm1. repeat split; auto.
        -- unfold GG. cbn. rewrite EGG. exact Hm1.
        -- unfold upd. destruct (Nat.eqb_spec m (bnd a)) as [->|]; [|reflexivity].
           exfalso. apply Hm1. unfold GG. apply in_or_app. right. now left.
      * intros m Hm. unfold GG. cbn. rewrite EGG. exact Hm.
      * intros y0 i E Hi. unfold GG. cbn. rewrite EGG. split; [exact E|]. rewrite app_length. cbn. lia.
  - apply privs_upd; [exact H9|]. cbn. discriminate.
  - rewrite Er in H10. cbn [map] in H10. rewrite <- (app_nil_r (hist tr)).
    change (@nil (hev Fifo)) with (perase [PDeq t]).
    eapply pool_ext; [|eapply pool_event with (t := t) (s' := PLin (RVal (Some (val g x)))); [exact H10|]].
    + intros y. cbn. unfold pupd. destruct (Nat.eqb_spec y t) as [->|Hny];
        [rewrite updv_same; reflexivity|now rewrite updv_other].
    + intros f Hf. cbn beta in Hf. rewrite Hv in Hf. cbn in Hf. cbn [pstep]. rewrite Hf. reflexivity.
Qed.

(** ** free_chain moves head forward inside the deleted prefix *)
Lemma Inv_headcas g a tr t h i nh j :
  Inv g a tr ->
  In (h, i) (tv_idx (views a t)) -> In (nh, j) (tv_idx (views a t)) -> (i < j)%nat ->
  head g = h ->
  Inv (set_head g nh) (auxset a (dpre a) (bnd a) (live a) j t (views a t)) tr.
Proof.
  intros [H1 H2 H3 H4 H5 H6 H7 H8 H9 H10] Hi Hj Hlt Hh.
  destruct (H8 t) as (P1 & P2 & P3 & P4).
  destruct (P3 h i Hi) as (Ei & Li). destruct (P3 nh j Hj) as (Ej & Lj).
  destruct H6 as (E1 & E2).
  assert (Ehi : hidx a = i).
  { apply (proj1 (NoDup_nth_error (GG a)) H1).
    - apply nth_error_Some. congruence.
    - rewrite E1, Ei. congruence. }
  constructor; unfold auxset, GG in *; cbn [set_head dpre bnd live hidx views head tail nxt val nalloc]; auto.
  - intros y. others y t Hny.
    + split; [exact P1|]. split; [exact P2|]. split; [exact P3|]. cbn. lia.
    + eapply tv_ok_mono; [apply H8| | | |]; unfold GG; cbn [set_head dpre bnd live hidx views head tail nxt val nalloc]; auto.
      lia.
  - apply privs_upd; [exact H9|]. intros n E y Hy. apply (H9 t y n); auto.
  - apply pool_upd; auto.
Qed.

(** ** initial state *)
Definition v_idle : tview := mkTV PIdle None mnull [] [] 0.
Definition aux0 : Aux := mkAux [] 0 [] 0 (fun _ => v_idle).

Lemma Inv_init : Inv init aux0 [].
Proof.
  constructor; unfold GG; cbn.
  - constructor; [intros []|constructor].
  - auto.
  - intros x [].
  - intros x [<-|[]]. reflexivity.
  - intros n [<-|[]]. lia.
  - split; [reflexivity|lia].
  - now left.
  - intros t. facts_nil.
  - intros; discriminate.
  - apply pool_init.
Qed.
