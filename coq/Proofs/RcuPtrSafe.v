(** * RcuPtr: every client program (strict client contract) is safe for the custody invariant; the theorems for every
      schedule. *)
From Coq Require Import ZArith List String Bool Lia PeanoNat.
From LV Require Import Base.Conc Base.Events Model.RcuGp Model.RcuPtr Proofs.RcuGpInv Proofs.RcuGpSafe Proofs.RcuPtrInv
  Proofs.RcuPtrSteps Proofs.RcuPtrBase.
Import ListNotations.
Local Open Scope string_scope.
Local Open Scope list_scope.
Local Open Scope Z_scope.

Notation safe2 := (@Conc.safe PG V ev Aux2 L2 view2 Inv2).

Lemma safe2_bind {A B} t (p : pprog A) (q : A -> pprog B) Q l :
  safe2 t p l (fun r l' => safe2 t (q r) l' Q) -> safe2 t (pbind p q) l Q.
Proof. apply Conc.safe_bind. Qed.

Lemma safe2_weaken {R} t (p : pprog R) (Q Q' : R -> L2 -> Prop) l :
  (forall r l', Q r l' -> Q' r l') -> safe2 t p l Q -> safe2 t p l Q'.
Proof. intros H. apply Conc.safe_weaken. exact H. Qed.

Ltac rwv a t Hv := first [rewrite Hv | (change (view2 a t) with (a_loc a t); rewrite Hv)].

Lemma frame2_refl a t : Conc.frame view2 t a a.
Proof. intros ? ?; reflexivity. Qed.

Lemma view2_upd a t l g o : view2 (mkA2 (updL (a_loc a) t l) g o) t = l.
Proof. unfold view2. cbn. apply updL_same. Qed.
Lemma view2_upd_loc a t l : view2 (upd_loc a t l) t = l.
Proof. apply view2_upd. Qed.

Lemma frame2_upd a t l g o : Conc.frame view2 t a (mkA2 (updL (a_loc a) t l) g o).
Proof. intros t' Ht. unfold view2. cbn. apply updL_other. exact Ht. Qed.

(** a step with inert events that changes nothing of the container *)
Lemma safe2_act_inert {R} t (f : pact) (k : V -> pprog R) l Q :
  (forall g, pg_head (fst (fst (f g))) = pg_head g /\ pg_mark (fst (fst (f g))) = pg_mark g /\
             pg_next (fst (fst (f g))) = pg_next g /\ inert (snd (f g))) ->
  (forall v, safe2 t (k v) l Q) -> safe2 t (Act f k) l Q.
Proof.
  intros Hf Hk. cbn [Conc.safe]. intros g a tr HI Hv. destruct (Hf g) as (E1 & E2 & E3 & Hes). exists a. split.
  - apply step_inert with (g := g); assumption.
  - split; [apply frame2_refl|]. rwv a t Hv. apply Hk.
Qed.

Lemma safe2_emit_inert {R} t n args (k : pprog R) l Q :
  inert (cli n args) -> safe2 t k l Q -> safe2 t (Emit (cli n args) k) l Q.
Proof.
  intros Hes Hk. cbn [Conc.safe]. intros g a tr HI Hv. exists a. split.
  - apply step_inert with (g := g); auto.
  - split; [apply frame2_refl|]. rwv a t Hv. exact Hk.
Qed.

Ltac inr := apply inert_cli; try reflexivity; intros; reflexivity.

(** ** programs of the RCU core that emit only access events *)
Fixpoint bquiet {R} (p : prog R) : Prop :=
  match p with
  | Ret _ => True
  | Emit _ _ => False
  | Act f k => (forall g, exists kd o ok, snd (f g) = [EvAcc kd o ok]) /\ forall v, bquiet (k v)
  end.

Lemma bquiet_bind {A B} (p : prog A) (q : A -> prog B) : bquiet p -> (forall r, bquiet (q r)) -> bquiet (bind p q).
Proof.
  induction p as [r|es k IH|f k IH]; intros H Hq; cbn [bind Conc.bind bquiet] in *.
  - apply Hq.
  - contradiction.
  - destruct H as (H1 & H2). split; [exact H1|]. intros v. apply IH; auto.
Qed.

Ltac bq1 := split; [intros g0; eexists; eexists; eexists; reflexivity|].

Lemma bquiet_access_lock m : bquiet (access_lock m).
Proof.
  unfold access_lock. cbn [bquiet]. bq1. intros v. destruct (nest (vz v) =? 0); cbn [bquiet].
  - bq1. intros g1. bq1. intros _. exact I.
  - bq1. intros _. exact I.
Qed.

Lemma bquiet_access_unlock m : bquiet (access_unlock m).
Proof. unfold access_unlock. cbn [bquiet]. bq1. intros v. bq1. intros _. exact I. Qed.

Lemma bquiet_lock fuel : bquiet (lock_outer fuel) /\ bquiet (lock_inner fuel).
Proof.
  induction fuel as [|f (IH1 & IH2)]; split; cbn [lock_outer lock_inner bquiet]; auto.
  - split.
    + intros g0. unfold a_lock_xchg. eexists; eexists; eexists; reflexivity.
    + intros v. destruct (vz v =? 0); [exact I|exact IH2].
  - bq1. intros v. destruct (vz v =? 0); assumption.
Qed.

Lemma bquiet_wait_rec fuel m : bquiet (wait_rec fuel m).
Proof.
  induction fuel as [|f IH]; cbn [wait_rec bquiet]; [exact I|]. bq1. intros x.
  destruct (vz x =? 0); [exact I|]. cbn [bquiet]. bq1. intros v. destruct (nest (vz v) =? 0); [exact I|]. cbn [bquiet]. bq1.
  intros g1. destruct (phase_differs (vz v) (vz g1)); [exact IH|exact I].
Qed.

Lemma bquiet_scan fuel l : bquiet (scan fuel l).
Proof.
  induction l as [|m r IH]; cbn [scan]; [exact I|]. apply bquiet_bind; [apply bquiet_wait_rec|].
  intros [|]; [exact IH|exact I].
Qed.

Lemma bquiet_flip fuel : bquiet (flip_and_wait fuel).
Proof.
  unfold flip_and_wait. cbn [bquiet]. split.
  - intros g0. unfold a_ctl_fxor. eexists; eexists; eexists; reflexivity.
  - intros _. bq1. intros v. apply bquiet_scan.
Qed.

Lemma bquiet_synchronize fuel : bquiet (gpi_synchronize 2 fuel).
Proof.
  unfold gpi_synchronize. apply bquiet_bind; [apply bquiet_lock|]. intros [|]; [|exact I].
  apply bquiet_bind.
  - cbn [flips_and_wait]. apply bquiet_bind; [apply bquiet_flip|]. intros [|]; [|exact I].
    apply bquiet_bind; [apply bquiet_flip|]. intros [|]; exact I.
  - intros [|]; [|exact I]. apply bquiet_bind; [|intros _; exact I]. unfold unlock. cbn [bquiet]. bq1. intros _. exact I.
Qed.

Lemma bquiet_alloc_reuse me l : bquiet (alloc_reuse me l).
Proof.
  induction l as [|m r IH]; cbn [alloc_reuse bquiet]; [exact I|]. split.
  - intros g0. unfold a_tid_cas. destruct (g_tid g0 m =? 0); eexists; eexists; eexists; reflexivity.
  - intros v. destruct (vz v =? 1); [exact I|exact IH].
Qed.

Lemma bquiet_alloc_push fuel : forall m old, bquiet (alloc_push fuel m old).
Proof.
  induction fuel as [|f IH]; intros m old; cbn [alloc_push bquiet]; [exact I|]. split.
  - intros g0. unfold a_head_cas. destruct (Nat.eqb (hd_id (g_list g0)) (hd_id old)); eexists; eexists; eexists; reflexivity.
  - intros v. destruct v; try exact I. apply IH.
Qed.

Lemma bquiet_attach fuel t : bquiet (attach fuel t).
Proof.
  unfold attach. cbn [bquiet]. bq1. intros _. bq1. intros v. apply bquiet_bind; [apply bquiet_alloc_reuse|].
  intros [m|]; [exact I|]. cbn [bquiet]. bq1. intros v'. destruct (vl v') as [|m old]; [exact I|apply bquiet_alloc_push].
Qed.

Lemma bquiet_detach m : bquiet (detach m).
Proof. unfold detach. cbn [bquiet]. bq1. intros _. exact I. Qed.

Lemma safe2_lift_quiet {R} t (p : prog R) : forall l, bquiet p -> safe2 t (lift p) l (fun _ l' => l' = l).
Proof.
  induction p as [r|es k IH|f k IH]; intros l H; cbn [lift Conc.safe bquiet] in *.
  - reflexivity.
  - contradiction.
  - destruct H as (H1 & H2). intros g a tr HI Hv. exists a. split.
    + unfold lift_act. cbn [fst snd]. destruct (H1 (pg_base g)) as (kd & o & ok & ->).
      apply step_inert with (g := g); auto. apply inert_acc.
    + split; [apply frame2_refl|]. rwv a t Hv. apply IH. apply H2.
Qed.

Lemma safe2_lift_bind {A B} t (p : prog A) (q : A -> prog B) Q : forall l,
  safe2 t (lift p) l (fun r l' => safe2 t (lift (q r)) l' Q) -> safe2 t (lift (bind p q)) l Q.
Proof.
  induction p as [r|es k IH|f k IH]; intros l H; cbn [bind Conc.bind lift Conc.safe] in *.
  - exact H.
  - intros g a tr Hi Hv. destruct (H g a tr Hi Hv) as (a' & H1 & H2 & H3). exists a'. split; [exact H1|]. split; [exact H2|]. apply IH; exact H3.
  - intros g a tr Hi Hv. destruct (H g a tr Hi Hv) as (a' & H1 & H2 & H3). exists a'. split; [exact H1|]. split; [exact H2|]. apply IH; exact H3.
Qed.

Lemma safe2_lift_quiet_then {A B} t (p : prog A) (q : A -> pprog B) l Q :
  bquiet p -> (forall r, safe2 t (q r) l Q) -> safe2 t (pbind (lift p) q) l Q.
Proof.
  intros Hp Hq. apply safe2_bind. eapply safe2_weaken; [|apply safe2_lift_quiet; exact Hp]. intros r l' ->. apply Hq.
Qed.

(** ** rlock / runlock *)
Lemma safe2_rlock t m d l (Q : unit -> L2 -> Prop) :
  (d = O <-> v_cs l = None) ->
  (forall l', (d = O -> exists i, l' = set_cs l (Some i)) -> ((0 < d)%nat -> l' = l) -> Q tt l') ->
  safe2 t (p_rlock m d) l Q.
Proof.
  intros Hd HQ. unfold p_rlock, do_rlock. apply safe2_lift_bind.
  eapply safe2_weaken; [|apply safe2_lift_quiet; apply bquiet_access_lock]. intros w l' ->.
  cbn [lift Conc.safe]. intros g a tr HI Hv. unfold view2 in Hv. destruct d as [|d].
  - exists (upd_loc a t (set_cs (a_loc a t) (Some (List.length tr)))). split.
    + apply step_rlock1; auto; try reflexivity. rewrite Hv. apply Hd. reflexivity.
    + split; [apply frame2_upd|]. rewrite ?view2_upd, ?view2_upd_loc. apply HQ; [|lia]. intros _. rewrite Hv. eauto.
  - exists a. split.
    + apply step_inert with (g := g); auto. apply inert_cli; try reflexivity.
      unfold is_rlock1, cli_is. cbn [String.eqb Ascii.eqb Bool.eqb andb]. change 1 with (Z.of_nat 1). rewrite zn_eqb_succ. reflexivity.
    + split; [apply frame2_refl|]. rwv a t Hv. apply HQ; [discriminate|reflexivity].
Qed.

Lemma safe2_runlock t m d l (Q : unit -> L2 -> Prop) :
  v_cs l <> None ->
  (forall l', (d = O -> l' = set_seen (set_cs l None) None) -> ((0 < d)%nat -> l' = l) -> Q tt l') ->
  safe2 t (p_runlock m (S d)) l Q.
Proof.
  intros Hc HQ. unfold p_runlock, do_runlock. cbn [pred lift].
  assert (K : forall l1, Q tt l1 ->
            safe2 t (lift (bind (access_unlock m) (fun w => Emit (cli "runlocked" [nest w]) (Ret tt)))) l1 Q).
  { intros l1 H1. apply safe2_lift_bind. eapply safe2_weaken; [|apply safe2_lift_quiet; apply bquiet_access_unlock].
    intros w l' ->. cbn [lift]. apply safe2_emit_inert; [inr|exact H1]. }
  cbn [Conc.safe]. intros g a tr HI Hv. unfold view2 in Hv. destruct d as [|d].
  - destruct (v_cs l) as [s|] eqn:Ecs; [|congruence].
    exists (upd_loc a t (set_seen (set_cs (a_loc a t) None) None)). split.
    + apply step_runlock0 with (s := s); auto; try reflexivity. rewrite Hv. exact Ecs.
    + split; [apply frame2_upd|]. rewrite ?view2_upd, ?view2_upd_loc. apply K. apply HQ; [|lia]. intros _. rewrite Hv. reflexivity.
  - exists a. split.
    + apply step_inert with (g := g); auto. apply inert_cli; reflexivity.
    + split; [apply frame2_refl|]. rwv a t Hv. apply K. apply HQ; [discriminate|reflexivity].
Qed.

(** ** the container *)
Definition Held (ps : list Z) (l : L2) : Prop := forall p, In p ps -> exists u, In (p, u) (v_live l).
Definition ext (l l' : L2) : Prop := v_cs l' = v_cs l /\ incl (v_live l) (v_live l').
Definition xkeep (l l' : L2) : Prop := forall p u, v_x l = Some (p, u, true) -> v_x l' = Some (p, u, true).

Lemma ext_refl l : ext l l.
Proof. split; [reflexivity|apply incl_refl]. Qed.
Lemma ext_step l0 l l' : ext l0 l -> v_cs l' = v_cs l -> incl (v_live l) (v_live l') -> ext l0 l'.
Proof. intros (H1 & H2) E I. split; [congruence|eapply incl_tran; eauto]. Qed.
Lemma xkeep_refl l : xkeep l l.
Proof. intros p u H; exact H. Qed.
Lemma xkeep_step l0 l l' : xkeep l0 l -> xkeep l l' -> xkeep l0 l'.
Proof. intros H1 H2 p u H. apply H2. apply H1. exact H. Qed.
Lemma Held_ext ps l l' : Held ps l -> incl (v_live l) (v_live l') -> Held ps l'.
Proof. intros H I p Hp. destruct (H p Hp) as (u & Hu). exists u. apply I. exact Hu. Qed.

Lemma inert2 kd o ok n (c : Z) :
  n = "unlinked" \/ n = "marked" \/ n = "linked" -> inert [EvAcc kd o ok; EvCli n [c]].
Proof. intros [-> | [-> | ->]]; apply inert_acc_cli; try reflexivity; intros; reflexivity. Qed.

Lemma safe2_search t fuel : forall ch l l0 (Q : option (Z * list Z) -> L2 -> Prop),
  ext l0 l -> xkeep l0 l -> v_cs l <> None -> Held ch l ->
  (forall found ch' l', ext l0 l' -> xkeep l0 l' -> Held ch' l' -> (found <> 0 -> v_seen l' = Some found) ->
     Q (Some (found, ch')) l') ->
  (forall l', Q None l') ->
  safe2 t (search fuel ch) l Q.
Proof.
  induction fuel as [|f IH]; intros ch l l0 Q He Hx Hc Hh HS HN; cbn [search]; [apply HN|].
  cbn [Conc.safe]. intros g a tr HI Hv. unfold view2 in Hv. unfold a_ph_ld. cbn [fst snd vz].
  destruct (Z.eqb_spec (pg_head g) 0) as [E0|E0].
  { exists a. split; [apply step_inert with (g := g); auto; apply inert_acc|]. split; [apply frame2_refl|].
    rwv a t Hv. cbn. apply HS; auto. intros X; congruence. }
  remember (pg_head g) as cur eqn:Ecur.
  exists (upd_loc a t (set_seen l (Some cur))). split.
  { apply step_view with (g := g); auto; try (rewrite Hv; reflexivity).
    - apply inert_acc.
    - intros p m H. left. rewrite Hv. exact H.
    - cbn. intros p H. inversion H; subst p. right. split; [symmetry; exact Ecur|]. split; [exact E0|]. rewrite Hv. exact Hc.
    - cbn. intros p u b H. exists b. rewrite Hv. split; [exact H|auto]. }
  split; [apply frame2_upd|]. rewrite ?view2_upd, ?view2_upd_loc.
  set (l1 := set_seen l (Some cur)).
  cbn [Conc.safe]. clear g a tr HI Hv Ecur. intros g a tr HI Hv. unfold view2 in Hv. unfold a_pm_ld. cbn [fst snd vz].
  destruct (Z.eqb_spec (pg_mark g cur) 0) as [Em|Em].
  { exists a. split; [apply step_inert with (g := g); auto; apply inert_acc|]. split; [apply frame2_refl|].
    rwv a t Hv. cbn. apply HS.
    - eapply ext_step; [exact He|reflexivity|apply incl_refl].
    - eapply xkeep_step; [exact Hx|]. intros p u H; exact H.
    - exact Hh.
    - intros _. reflexivity. }
  remember (pg_mark g cur) as m eqn:Em'.
  exists (upd_loc a t (set_mk l1 (Some (cur, m)))). split.
  { apply step_view with (g := g); auto; try (rewrite Hv; reflexivity).
    - apply inert_acc.
    - cbn. intros p m0 H. inversion H; subst p m0. right. split; [symmetry; exact Em'|exact Em].
    - cbn. intros p H. left. rewrite Hv. exact H.
    - cbn. intros p u b H. exists b. rewrite Hv. split; [exact H|auto]. }
  split; [apply frame2_upd|]. rewrite ?view2_upd, ?view2_upd_loc.
  set (l2 := set_mk l1 (Some (cur, m))).
  cbn [Conc.safe]. clear g a tr HI Hv Em'. intros g a tr HI Hv. unfold view2 in Hv. unfold a_unlink.
  destruct (Z.eqb_spec (pg_head g) cur) as [Eh|Eh]; cbn [fst snd vz].
  - destruct (Z.eqb_spec m 1) as [E1|E1].
    + eexists. split; [apply step_unlink_hold; [exact HI|exact Eh|rewrite Hv; cbn; rewrite E1; reflexivity]|].
      split; [apply frame2_upd|]. rewrite ?view2_upd, ?view2_upd_loc, ?Hv. cbn [Z.eqb andb Pos.eqb].
      apply IH with (l0 := l0); [| |exact Hc| |exact HS|exact HN].
      * eapply ext_step; [exact He|reflexivity|]. cbn. intros x Hx0. right. exact Hx0.
      * eapply xkeep_step; [exact Hx|]. intros p u H; exact H.
      * intros p [<-|Hp]; [eexists; left; reflexivity|]. destruct (Hh p Hp) as (u & Hu). exists u. right. exact Hu.
    + eexists. split; [apply step_unlink_other with (m := m); [exact HI|exact Eh|rewrite Hv; reflexivity|exact E1]|].
      split; [apply frame2_upd|]. rewrite ?view2_upd, ?view2_upd_loc, ?Hv.
      replace ((1 =? 1) && (m =? 1)) with false by (destruct (Z.eqb_spec m 1); [congruence|reflexivity]).
      apply IH with (l0 := l0); [| |exact Hc|exact Hh|exact HS|exact HN].
      * eapply ext_step; [exact He|reflexivity|apply incl_refl].
      * eapply xkeep_step; [exact Hx|]. intros p u H. unfold flag_x, l2, l1. cbn. cbn in H. rewrite H. reflexivity.
  - exists a. split; [apply step_inert with (g := g); auto; apply inert_acc|]. split; [apply frame2_refl|].
    rwv a t Hv. cbn [Z.eqb andb]. apply IH with (l0 := l0); [| |exact Hc|exact Hh|exact HS|exact HN].
    + eapply ext_step; [exact He|reflexivity|apply incl_refl].
    + eapply xkeep_step; [exact Hx|]. intros p u H; exact H.
Qed.

(** unlink_node *)
Lemma safe2_unlink_node t fuel cur mask ch l l0 (Q : option (bool * list Z) -> L2 -> Prop) :
  ext l0 l -> v_cs l <> None -> Held ch l -> v_seen l = Some cur -> mask = 1 \/ mask = 3 ->
  (mask = 1 -> xkeep l0 l) ->
  (forall ch' l', ext l0 l' -> Held ch' l' -> (mask = 1 -> xkeep l0 l') -> Q (Some (false, ch')) l') ->
  (forall ch' l', ext l0 l' -> Held ch' l' -> (mask = 1 -> xkeep l0 l') -> (mask = 3 -> exists u, v_x l' = Some (cur, u, true)) ->
     Q (Some (true, ch')) l') ->
  (forall l', Q None l') ->
  safe2 t (unlink_node fuel cur mask ch) l Q.
Proof.
  intros He Hc Hh Hs Hmask Hx HF HT HN. unfold unlink_node.
  cbn [Conc.safe]. intros g a tr HI Hv. unfold view2 in Hv. unfold a_mark.
  destruct (Z.eqb_spec (pg_mark g cur) 0) as [Em|Em]; cbn [fst snd vz].
  2:{ exists a. split; [apply step_inert with (g := g); auto; apply inert_acc|]. split; [apply frame2_refl|].
      rwv a t Hv. cbn. apply HF; auto. }
  assert (Rg : 0 < cur < pg_next g).
  { destruct HI as (IS & _). apply (VR _ _ IS t). rewrite Hv. exact Hs. }
  destruct Hmask as [-> | ->].
  - (* erase_mask *)
    eexists. split; [apply step_mark_erase; [exact HI|exact Em|exact Rg]|].
    split; [apply frame2_upd|]. rewrite ?view2_upd, ?view2_upd_loc, ?Hv. cbn [Z.eqb Pos.eqb].
    set (l1 := set_mk l (Some (cur, 1))).
    cbn [Conc.safe]. clear g a tr HI Hv Em Rg. intros g a tr HI Hv. unfold view2 in Hv. unfold a_unlink.
    destruct (Z.eqb_spec (pg_head g) cur) as [Eh|Eh]; cbn [fst snd vz Z.eqb Pos.eqb].
    + eexists. split; [apply step_unlink_hold; [exact HI|exact Eh|rewrite Hv; reflexivity]|].
      split; [apply frame2_upd|]. rewrite ?view2_upd, ?view2_upd_loc, ?Hv. cbn. apply HT.
      * eapply ext_step; [exact He|reflexivity|]. cbn. intros x Hx0. right. exact Hx0.
      * intros p [<-|Hp]; [eexists; left; reflexivity|]. destruct (Hh p Hp) as (u & Hu). exists u. right. exact Hu.
      * intros _. eapply xkeep_step; [apply Hx; reflexivity|]. intros p u H; exact H.
      * discriminate.
    + exists a. split; [apply step_inert with (g := g); auto; apply inert_acc|]. split; [apply frame2_refl|].
      rwv a t Hv. apply safe2_bind. apply safe2_search with (l0 := l0); [| |exact Hc|exact Hh| |].
      * eapply ext_step; [exact He|reflexivity|apply incl_refl].
      * eapply xkeep_step; [apply Hx; reflexivity|]. intros p u H; exact H.
      * intros found ch' l' H1 H2 H3 _. cbn. apply HT; auto. discriminate.
      * intros l'. cbn. apply HN.
  - (* extract_mask *)
    eexists. split; [apply step_mark_hold; [exact HI|exact Em|exact Rg]|].
    split; [apply frame2_upd|]. rewrite ?view2_upd, ?view2_upd_loc, ?Hv. cbn [Z.eqb Pos.eqb].
    remember (S (List.length tr)) as u0 eqn:Eu0. clear Eu0.
    set (l1 := set_mk (set_x l (Some (cur, u0, false))) (Some (cur, 3))).
    cbn [Conc.safe]. clear g a tr HI Hv Em Rg. intros g a tr HI Hv. unfold view2 in Hv. unfold a_unlink.
    destruct (Z.eqb_spec (pg_head g) cur) as [Eh|Eh]; cbn [fst snd vz Z.eqb Pos.eqb].
    + eexists. split; [apply step_unlink_other with (m := 3); [exact HI|exact Eh|rewrite Hv; reflexivity|discriminate]|].
      split; [apply frame2_upd|]. rewrite ?view2_upd, ?view2_upd_loc, ?Hv. cbn. apply HT.
      * eapply ext_step; [exact He|reflexivity|apply incl_refl].
      * exact Hh.
      * discriminate.
      * intros _. exists u0. unfold flag_x, l1. cbn. rewrite ?Z.eqb_refl. reflexivity.
    + (* the failed CAS shows that the node has been unlinked by somebody else *)
      exists (upd_loc a t (set_x l1 (Some (cur, u0, true)))). split.
      { apply step_view with (g := g); auto; try (rewrite Hv; reflexivity).
        - apply inert_acc.
        - cbn. intros p m0 H. left. rewrite Hv. exact H.
        - cbn. intros p H. left. rewrite Hv. exact H.
        - cbn. intros p u b H. inversion H; subst p u b. exists false. rewrite Hv. split; [reflexivity|]. intros _. right.
          destruct HI as (IS & _). destruct (K1 _ _ IS t cur 3) as (Mk & _); [rewrite Hv; reflexivity|].
          destruct (a_gone a cur) eqn:G; [reflexivity|]. exfalso. apply Eh. apply (S3 _ _ IS); [|exact G].
          apply (S5 _ _ IS). rewrite Mk. discriminate. }
      split; [apply frame2_upd|]. rewrite ?view2_upd, ?view2_upd_loc.
      apply safe2_bind. apply safe2_search with (l0 := set_x l1 (Some (cur, u0, true))); [apply ext_refl|apply xkeep_refl|exact Hc|exact Hh| |].
      * intros found ch' l' (H1a & H1b) H2 H3 _. cbn. apply HT; auto.
        -- eapply ext_step; [exact He|exact H1a|exact H1b].
        -- discriminate.
        -- intros _. exists u0. apply H2. reflexivity.
      * intros l'. cbn. apply HN.
Qed.

Lemma ext_trans l0 l l' : ext l0 l -> ext l l' -> ext l0 l'.
Proof. intros H (E & I). eapply ext_step; eauto. Qed.

Lemma safe2_remove_try t fuel mask ch l l0 (Q : rres -> L2 -> Prop) :
  ext l0 l -> v_cs l <> None -> Held ch l -> mask = 1 \/ mask = 3 -> (mask = 1 -> xkeep l0 l) ->
  (forall ch' l', ext l0 l' -> Held ch' l' -> (mask = 1 -> xkeep l0 l') -> Q (RNotFound ch') l') ->
  (forall ch' l', ext l0 l' -> Held ch' l' -> (mask = 1 -> xkeep l0 l') -> Q (RRetry ch') l') ->
  (forall p ch' l', ext l0 l' -> Held ch' l' -> (mask = 1 -> xkeep l0 l') -> (mask = 3 -> exists u, v_x l' = Some (p, u, true)) ->
     Q (RDone p ch') l') ->
  (forall l', Q RFuel l') ->
  safe2 t (remove_try fuel mask ch) l Q.
Proof.
  intros He Hc Hh Hmask Hx HNF HR HD HN. unfold remove_try. apply safe2_bind.
  apply safe2_search with (l0 := l); [apply ext_refl|apply xkeep_refl|exact Hc|exact Hh| |intros l'; cbn; apply HN].
  intros found ch1 l1 H1 H2 H3 H4.
  assert (He1 : ext l0 l1) by (eapply ext_trans; eauto).
  assert (Hx1 : mask = 1 -> xkeep l0 l1) by (intros M; eapply xkeep_step; [apply Hx; exact M|exact H2]).
  destruct (Z.eqb_spec found 0) as [E|E].
  - cbn. apply HNF; auto.
  - apply safe2_bind. apply safe2_unlink_node with (l0 := l0); [exact He1| |exact H3|apply H4; exact E|exact Hmask|exact Hx1| | |].
    + destruct H1 as (X & _). rewrite X. exact Hc.
    + intros ch' l' A1 A2 A3. cbn. apply HR; auto.
    + intros ch' l' A1 A2 A3 A4. cbn. apply HD; auto.
    + intros l'. cbn. apply HN.
Qed.

Lemma safe2_extract_loop t fuel n : forall ch l l0 (Q : option (Z * list Z) -> L2 -> Prop),
  ext l0 l -> v_cs l <> None -> Held ch l ->
  (forall p ch' l', ext l0 l' -> Held ch' l' -> (p <> 0 -> exists u, v_x l' = Some (p, u, true)) -> Q (Some (p, ch')) l') ->
  (forall l', Q None l') ->
  safe2 t (extract_loop n fuel ch) l Q.
Proof.
  induction n as [|n IH]; intros ch l l0 Q He Hc Hh HS HN; cbn [extract_loop]; [apply HN|].
  apply safe2_bind. apply safe2_remove_try with (l0 := l0); [exact He|exact Hc|exact Hh|right; reflexivity|discriminate| | | |].
  - intros ch' l' A1 A2 _. cbn. apply HS; auto. intros X; congruence.
  - intros ch' l' A1 A2 _. apply IH with (l0 := l0); auto. destruct A1 as (X & _), He as (Y & _). congruence.
  - intros p ch' l' A1 A2 _ A4. cbn. apply HS; auto.
  - intros l'. cbn. apply HN.
Qed.

Lemma safe2_insert_loop t fuel n : forall ch l l0 (Q : option (Z * list Z) -> L2 -> Prop),
  ext l0 l -> xkeep l0 l -> v_cs l <> None -> Held ch l ->
  (forall p ch' l', ext l0 l' -> xkeep l0 l' -> Held ch' l' -> Q (Some (p, ch')) l') ->
  (forall l', Q None l') ->
  safe2 t (insert_loop n fuel ch) l Q.
Proof.
  induction n as [|n IH]; intros ch l l0 Q He Hx Hc Hh HS HN; cbn [insert_loop]; [apply HN|].
  apply safe2_bind. apply safe2_search with (l0 := l0); [exact He|exact Hx|exact Hc|exact Hh| |intros l'; cbn; apply HN].
  intros found ch1 l1 H1 H2 H3 _.
  assert (Hc1 : v_cs l1 <> None) by (destruct H1 as (X & _), He as (Y & _); congruence).
  destruct (found =? 0); [|cbn; apply HS; auto].
  cbn [Conc.safe]. intros g a tr HI Hv. unfold a_link.
  destruct (Z.eqb_spec (pg_head g) 0) as [Eh|Eh]; cbn [fst snd vz].
  - exists a. split; [apply step_link; assumption|]. split; [apply frame2_refl|]. rewrite Hv.
    destruct (Z.eqb_spec (pg_next g) 0) as [E0|E0].
    + apply IH with (l0 := l0); auto.
    + cbn. apply HS; auto.
  - exists a. split; [apply step_inert with (g := g); auto; apply inert_acc|]. split; [apply frame2_refl|]. rewrite Hv.
    cbn [Z.eqb]. apply IH with (l0 := l0); auto.
Qed.

(** ** release *)
Lemma moved_exists ps l :
  (forall p, In p ps -> (exists u, In (p, u) (v_live l)) \/ (exists u, v_x l = Some (p, u, true))) ->
  exists moved : list (Z * nat),
    (forall p u, In (p, u) moved -> In p ps /\ (In (p, u) (v_live l) \/ v_x l = Some (p, u, true))) /\
    forall p, In p ps -> exists u, In (p, u) moved.
Proof.
  induction ps as [|q r IH]; intros H.
  - exists []. split; [intros p u []|intros p []].
  - destruct IH as (mv & M1 & M2); [intros p Hp; apply H; right; exact Hp|].
    assert (Hq : exists u, In (q, u) (v_live l) \/ v_x l = Some (q, u, true)).
    { destruct (H q (or_introl eq_refl)) as [(u & X)|(u & X)]; exists u; auto. }
    destruct Hq as (u & Hu). exists ((q, u) :: mv). split.
    + intros p u' [E|Hin]; [inversion E; subst p u'; split; [left; reflexivity|exact Hu]|].
      destruct (M1 p u' Hin) as (A & B). split; [right; exact A|exact B].
    + intros p [<-|Hp]; [exists u; left; reflexivity|]. destruct (M2 p Hp) as (u' & X). exists u'. right; exact X.
Qed.

Lemma safe2_retires {R} t ps : forall l (k : pprog R) Q,
  v_cs l = None -> (forall p, In p ps -> exists u r, In (p, u, r) (v_batch l)) -> safe2 t k l Q ->
  safe2 t (emit_all "retire" ps k) l Q.
Proof.
  induction ps as [|p r IH]; intros l k Q Hc Hb Hk; cbn [emit_all]; [exact Hk|].
  cbn [Conc.safe]. intros g a tr HI Hv. unfold view2 in Hv. destruct (Hb p (or_introl eq_refl)) as (u & r0 & Hin).
  exists a. split; [apply step_retire with (u := u) (r := r0); [exact HI|rewrite Hv; exact Hc|rewrite Hv; exact Hin]|].
  split; [apply frame2_refl|]. rwv a t Hv. apply IH; auto. intros q Hq. apply Hb. right; exact Hq.
Qed.

Lemma safe2_disposes {R} t ps : forall l (k : pprog R) Q, safe2 t k l Q -> safe2 t (emit_all "dispose" ps k) l Q.
Proof.
  induction ps as [|p r IH]; intros l k Q Hk; cbn [emit_all]; [exact Hk|]. apply safe2_emit_inert; [inr|]. apply IH; exact Hk.
Qed.

Lemma safe2_do_release t fuel ps l (Q : bool -> L2 -> Prop) :
  v_cs l = None ->
  (forall p, In p ps -> (exists u, In (p, u) (v_live l)) \/ (exists u, v_x l = Some (p, u, true))) ->
  (forall l', v_cs l' = None -> v_live l' = v_live l -> v_x l' = v_x l -> v_seen l' = v_seen l -> Q true l') ->
  (forall l', Q false l') ->
  safe2 t (do_release fuel ps) l Q.
Proof.
  intros Hc Hp HT HF. unfold do_release. destruct ps as [|p0 ps0]; [cbn; apply HT; auto|].
  destruct (moved_exists _ _ Hp) as (mv & M1 & M2).
  cbn [Conc.safe]. intros g a tr HI Hv. unfold view2 in Hv.
  eexists. split; [apply step_release with (moved := mv); [exact HI|rewrite Hv; exact Hc|rewrite Hv; exact M1]|].
  split; [apply frame2_upd|]. rewrite ?view2_upd, ?view2_upd_loc, ?Hv.
  set (l1 := set_batch l _). unfold do_batch.
  apply safe2_retires; [exact Hc| |].
  - intros p Hin. destruct (M2 p Hin) as (u & Hu). exists u, (List.length tr). unfold l1. cbn. apply in_or_app. left.
    apply in_map_iff. exists (p, u). split; [reflexivity|exact Hu].
  - apply safe2_lift_quiet_then; [apply bquiet_synchronize|]. intros [|]; [|cbn; apply HF].
    apply safe2_disposes. cbn. apply HT; auto.
Qed.

(** ** the client state and the thread's view *)
Definition RelS (s : pst) (l : L2) : Prop :=
  (s_depth s = O <-> v_cs l = None) /\ Held (s_rpc s) l /\ (s_xp s <> 0 -> exists u, v_x l = Some (s_xp s, u, true)) /\
  (s_rpp s <> 0 -> v_seen l = Some (s_rpp s)) /\ (s_depth s = O -> s_rpp s = 0) /\ (s_rec s = None -> s_depth s = O).

Definition QOp2 : option pst -> L2 -> Prop := fun r l' => match r with Some s' => RelS s' l' | None => True end.

Lemma safe2_release_ret t fuel ch s' l :
  v_cs l = None -> Held ch l -> RelS s' l ->
  safe2 t (pbind (do_release fuel ch) (fun ok => if ok then Ret (Some s') else Ret None)) l QOp2.
Proof.
  intros Hc Hh (R1 & R2 & R3 & R4 & R5 & R6). apply safe2_bind. apply safe2_do_release; auto; [|intros l'; exact I].
  intros l' E1 E2 E3 E4. cbn. unfold RelS, Held. rewrite E2, E3, E4. split; [rewrite E1; rewrite Hc in R1; exact R1|]. repeat split; assumption.
Qed.

(** the view after an operation body that ran inside its own section at depth 0 and left it *)
Lemma RelS_closed s l i l2 :
  RelS s l -> s_depth s = O -> ext (set_cs l (Some i)) l2 -> xkeep (set_cs l (Some i)) l2 ->
  RelS s (set_seen (set_cs l2 None) None).
Proof.
  intros (R1 & R2 & R3 & R4 & R5 & R6) Hd (E1 & E2) Hx. unfold RelS. cbn. repeat split; auto.
  - eapply Held_ext; [exact R2|]. cbn. exact E2.
  - intros X. destruct (R3 X) as (u & Hu). exists u. apply Hx. cbn. exact Hu.
  - intros X. exfalso. apply X. apply R5. exact Hd.
Qed.

Ltac relfin R1 R5 :=
  repeat split; auto; try discriminate; try congruence;
  try (let X := fresh "X" in intros X; exfalso;
       first [apply X; apply R5; reflexivity
             |(let R := fresh "R" in destruct R1 as (_ & R); specialize (R X); discriminate)
             |congruence|lia]).

Section Ops2.
  Variables (fuel : nat) (t : nat).

  Lemma safe2_erase_loop n m : forall ch l (Q : option (Z * list Z) -> L2 -> Prop),
    v_cs l = None -> Held ch l ->
    (forall r ch' l', v_cs l' = None -> incl (v_live l) (v_live l') -> xkeep l l' -> v_seen l' = None -> Held ch' l' ->
       Q (Some (r, ch')) l') ->
    (forall l', Q None l') ->
    safe2 t (erase_loop n fuel m ch) l Q.
  Proof.
    induction n as [|n IH]; intros ch l Q Hc Hh HS HN; cbn [erase_loop]; [apply HN|].
    apply safe2_bind. apply safe2_rlock; [split; auto|]. intros l1 Hl1 _. destruct (Hl1 eq_refl) as (i & ->).
    apply safe2_bind. apply safe2_remove_try with (l0 := set_cs l (Some i));
      [apply ext_refl|cbn; discriminate|exact Hh|left; reflexivity|intros _; apply xkeep_refl| | | |].
    - intros ch' l' (A1 & A1') A2 A3. cbn in A1, A1'. apply safe2_bind. apply safe2_runlock; [rewrite A1; discriminate|].
      intros l3 Hl3 _. rewrite (Hl3 eq_refl). cbn. apply HS; auto; intros p u H; cbn; apply (A3 eq_refl); exact H.
    - intros ch' l' (A1 & A1') A2 A3. cbn in A1, A1'. apply safe2_bind. apply safe2_runlock; [rewrite A1; discriminate|].
      intros l3 Hl3 _. rewrite (Hl3 eq_refl). apply IH; auto.
      intros r ch'' l'' B1 B2 B3 B4 B5. apply HS; auto.
      + eapply incl_tran; [exact A1'|exact B2].
      + intros p u H. apply B3. cbn. apply (A3 eq_refl). exact H.
    - intros p ch' l' (A1 & A1') A2 A3 _. cbn in A1, A1'. apply safe2_bind. apply safe2_runlock; [rewrite A1; discriminate|].
      intros l3 Hl3 _. rewrite (Hl3 eq_refl). cbn. apply HS; auto; intros q u H; cbn; apply (A3 eq_refl); exact H.
    - intros l'. cbn. apply HN.
  Qed.

  Lemma run_pop_safe2 s o l : RelS s l -> safe2 t (run_pop true fuel t s o) l QOp2.
  Proof.
    intros HR. pose proof HR as (R1 & R2 & R3 & R4 & R5 & R6). destruct s as [rec d rpp rpc xp]. cbn [s_rec s_depth s_rpp s_rpc s_xp] in *.
    destruct o; cbn [run_pop s_rec s_depth s_rpp s_rpc s_xp]; unfold outside; cbn [s_rec s_depth s_rpp s_rpc s_xp negb]; rewrite ?orb_false_r.
    - (* attach *) destruct rec as [m|]; [exact HR|]. assert (Ed : d = O) by (apply R6; reflexivity). subst d.
      apply safe2_lift_quiet_then; [apply bquiet_attach|].
      intros [m|]; [|exact I]. apply safe2_emit_inert; [inr|]. cbn. unfold RelS. cbn [s_rec s_depth s_rpp s_rpc s_xp].
      repeat split; auto; try apply R1; discriminate.
    - (* detach *) destruct rec as [m|]; [|exact HR]. destruct d as [|d]; [|exact HR].
      apply safe2_lift_quiet_then; [apply bquiet_detach|]. intros _. apply safe2_emit_inert; [inr|]. cbn. unfold RelS. cbn [s_rec s_depth s_rpp s_rpc s_xp].
      repeat split; auto; apply R1.
    - (* rlock *) destruct rec as [m|]; [|exact HR]. destruct (depth_ok d); [|exact HR].
      apply safe2_bind. apply safe2_rlock; [exact R1|]. intros l' H0 H1. cbn. unfold RelS. cbn [s_depth s_rpc s_xp s_rpp].
      destruct d as [|d].
      + destruct (H0 eq_refl) as (i & ->). cbn. relfin R1 R5.
      + rewrite (H1 ltac:(lia)). relfin R1 R5.
    - (* runlock *) destruct rec as [m|]; [|exact HR]. destruct d as [|d]; [exact HR|].
      apply safe2_bind. apply safe2_runlock; [intros X; destruct R1 as (_ & R1); specialize (R1 X); discriminate|].
      intros l' H0 H1. cbn. unfold RelS. cbn [s_depth s_rpc s_xp s_rpp]. destruct d as [|d].
      + rewrite (H0 eq_refl). cbn. relfin R1 R5.
      + rewrite (H1 ltac:(lia)). relfin R1 R5.
    - (* insert *) destruct rec as [m|]; [|exact HR]. destruct d as [|d]; cbn [Nat.eqb]; [|exact HR].
      assert (Hc : v_cs l = None) by (apply R1; reflexivity).
      unfold op_insert. apply safe2_bind. apply safe2_rlock; [split; auto|]. intros l1 Hl1 _. destruct (Hl1 eq_refl) as (i & ->).
      apply safe2_bind. apply safe2_insert_loop with (l0 := set_cs l (Some i)); [apply ext_refl|apply xkeep_refl|cbn; discriminate|intros p []| |intros l'; exact I].
      intros p ch l2 A1 A2 A3. apply safe2_bind. apply safe2_runlock; [destruct A1 as (X & _); rewrite X; discriminate|].
      intros l3 Hl3 _. rewrite (Hl3 eq_refl). apply safe2_emit_inert; [inr|].
      apply safe2_release_ret; [reflexivity|exact A3|]. eapply RelS_closed; eauto.
    - (* find *) destruct rec as [m|]; [|exact HR]. destruct d as [|d]; cbn [Nat.eqb]; [|exact HR].
      assert (Hc : v_cs l = None) by (apply R1; reflexivity).
      unfold op_find. apply safe2_bind. apply safe2_rlock; [split; auto|]. intros l1 Hl1 _. destruct (Hl1 eq_refl) as (i & ->).
      apply safe2_bind. apply safe2_search with (l0 := set_cs l (Some i)); [apply ext_refl|apply xkeep_refl|cbn; discriminate|intros p []| |intros l'; exact I].
      intros p ch l2 A1 A2 A3 A4.
      assert (K : safe2 t (pbind (p_runlock m 1) (fun _ => pbind (do_release fuel ch) (fun ok => if ok then Ret (Some (mkP (Some m) O rpp rpc xp)) else Ret None))) l2 QOp2).
      { apply safe2_bind. apply safe2_runlock; [destruct A1 as (X & _); rewrite X; discriminate|].
        intros l3 Hl3 _. rewrite (Hl3 eq_refl). apply safe2_release_ret; [reflexivity|exact A3|]. eapply RelS_closed; eauto. }
      apply safe2_bind. destruct (Z.eqb_spec p 0) as [E|E]; [cbn; exact K|].
      apply safe2_act_inert; [intros g; repeat split; apply inert_acc|]. intros _.
      cbn [Conc.safe]. intros g a tr HI Hv. unfold view2 in Hv. exists a. split; [apply step_touch; [exact HI|rewrite Hv; apply A4; exact E]|].
      split; [apply frame2_refl|]. rwv a t Hv. cbn. exact K.
    - (* get *) destruct (Nat.eqb_spec d 0) as [Ed|Ed]; [exact HR|]. unfold op_get. cbn [s_rec s_depth s_rpc s_xp].
      assert (Hc : v_cs l <> None) by (intros X; apply Ed; apply R1; exact X).
      apply safe2_bind. apply safe2_search with (l0 := l); [apply ext_refl|apply xkeep_refl|exact Hc|intros p []| |intros l'; exact I].
      intros p ch l2 (A1 & A1') A2 A3 A4. apply safe2_emit_inert; [inr|]. cbn. unfold RelS. cbn [s_rec s_depth s_rpc s_xp s_rpp]. rewrite A1.
      split; [exact R1|]. split.
      { intros q Hq. apply in_app_or in Hq. destruct Hq as [Hq|Hq]; [apply A3; exact Hq|]. eapply Held_ext; [exact R2|exact A1'|exact Hq]. }
      split; [intros X; destruct (R3 X) as (u & Hu); exists u; apply A2; exact Hu|].
      split; [exact A4|]. split; [intros X; contradiction|exact R6].
    - (* deref *) destruct (Nat.eqb_spec d 0) as [Ed|Ed]; cbn [orb]; [exact HR|]. destruct (Z.eqb_spec rpp 0) as [Er|Er]; [exact HR|].
      unfold op_deref. cbn [s_rpp]. apply safe2_act_inert; [intros g; repeat split; apply inert_acc|]. intros _.
      cbn [Conc.safe]. intros g a tr HI Hv. unfold view2 in Hv. exists a. split; [apply step_touch; [exact HI|rewrite Hv; apply R4; exact Er]|].
      split; [apply frame2_refl|]. rwv a t Hv. exact HR.
    - (* rp_release *) destruct (Nat.eqb_spec d 0) as [Ed|Ed]; [|exact HR]. unfold op_rp_release. cbn [s_rec s_depth s_rpc s_xp].
      assert (Hc : v_cs l = None) by (apply R1; exact Ed).
      apply safe2_release_ret; [exact Hc|exact R2|]. unfold RelS. cbn [s_rec s_depth s_rpc s_xp s_rpp].
      split; [exact R1|]. split; [intros p []|]. split; [exact R3|]. split; [intros X; congruence|]. split; [reflexivity|exact R6].
    - (* erase *) destruct rec as [m|]; [|exact HR]. destruct d as [|d]; cbn [Nat.eqb]; [|exact HR].
      assert (Hc : v_cs l = None) by (apply R1; reflexivity).
      unfold op_erase. apply safe2_bind. apply safe2_erase_loop; [exact Hc|intros p []| |intros l'; exact I].
      intros r ch l' B1 B2 B3 B4 B5. apply safe2_emit_inert; [inr|]. apply safe2_release_ret; [exact B1|exact B5|].
      unfold RelS. cbn [s_rec s_depth s_rpc s_xp s_rpp].
      split; [tauto|]. split; [eapply Held_ext; eauto|].
      split; [intros X; destruct (R3 X) as (u & Hu); exists u; apply B3; exact Hu|].
      split; [intros X; exfalso; apply X; apply R5; reflexivity|]. split; [exact R5|exact R6].
    - (* extract *) destruct rec as [m|]; [|exact HR]. destruct d as [|d]; cbn [Nat.eqb andb]; [|exact HR].
      destruct (Z.eqb_spec xp 0) as [Ex|Ex]; [|exact HR].
      assert (Hc : v_cs l = None) by (apply R1; reflexivity).
      unfold op_extract. cbn [s_rec s_depth s_rpc s_xp s_rpp].
      apply safe2_bind. apply safe2_rlock; [split; auto|]. intros l1 Hl1 _. destruct (Hl1 eq_refl) as (i & ->).
      apply safe2_bind. apply safe2_extract_loop with (l0 := set_cs l (Some i)); [apply ext_refl|cbn; discriminate|intros p []| |intros l'; exact I].
      intros p ch l2 (A1 & A1') A3 A4. cbn in A1, A1'. apply safe2_bind. apply safe2_runlock; [rewrite A1; discriminate|].
      intros l3 Hl3 _. rewrite (Hl3 eq_refl). apply safe2_emit_inert; [inr|].
      apply safe2_release_ret; [reflexivity|exact A3|]. unfold RelS. cbn.
      split; [tauto|]. split; [eapply Held_ext; [exact R2|exact A1']|]. split; [exact A4|].
      split; [intros X; exfalso; apply X; apply R5; reflexivity|]. split; [exact R5|exact R6].
    - (* xderef *) destruct (Z.eqb_spec xp 0) as [Ex|Ex]; [exact HR|]. unfold op_xderef. cbn [s_xp].
      apply safe2_act_inert; [intros g; repeat split; apply inert_acc|]. intros _. apply safe2_emit_inert; [inr|]. exact HR.
    - (* xp_release *) destruct (Z.eqb_spec xp 0) as [Ex|Ex]; [exact HR|]. destruct (Nat.eqb_spec d 0) as [Ed|Ed]; [|exact HR].
      unfold op_xp_release. cbn [s_rec s_depth s_rpc s_xp s_rpp].
      assert (Hc : v_cs l = None) by (apply R1; exact Ed).
      apply safe2_bind. apply safe2_do_release; [exact Hc| | |intros l'; exact I].
      + intros p [<-|[]]. right. apply R3. exact Ex.
      + intros l' E1 E2 E3 E4. cbn. unfold RelS, Held. cbn [s_rec s_depth s_rpc s_xp s_rpp]. rewrite E2, E4.
        split; [rewrite E1; rewrite Hc in R1; exact R1|]. split; [exact R2|]. split; [intros X; congruence|].
        split; [exact R4|]. split; [exact R5|exact R6].
  Qed.

  Lemma p_leave_all_safe2 m d : forall l (Q : unit -> L2 -> Prop),
    (d = O <-> v_cs l = None) ->
    (forall l', v_cs l' = None -> v_live l' = v_live l -> v_x l' = v_x l -> Q tt l') ->
    safe2 t (p_leave_all m d) l Q.
  Proof.
    induction d as [|d IH]; intros l Q Hd HQ; cbn [p_leave_all].
    - apply HQ; auto. apply Hd; reflexivity.
    - apply safe2_bind. apply safe2_runlock; [intros X; destruct Hd as (_ & Hd); specialize (Hd X); discriminate|].
      intros l' H0 H1. destruct d as [|d].
      + rewrite (H0 eq_refl). cbn. apply HQ; reflexivity.
      + rewrite (H1 ltac:(lia)). apply IH; auto. split; [discriminate|]. intros X. destruct Hd as (_ & Hd). specialize (Hd X). discriminate.
  Qed.

  Lemma p_finish_safe2 s l : RelS s l -> safe2 t (p_finish fuel s) l (@Conc.QTrue L2).
  Proof.
    intros (R1 & R2 & R3 & R4 & R5 & R6). destruct s as [rec d rpp rpc xp]. cbn [s_rec s_depth s_rpp s_rpc s_xp] in *. unfold p_finish.
    cbn [s_rec s_depth s_rpp s_rpc s_xp].
    assert (K : forall l1, v_cs l1 = None -> v_live l1 = v_live l -> v_x l1 = v_x l ->
      safe2 t (pbind (do_release fuel rpc) (fun ok =>
        if ok then
          pbind (if xp =? 0 then Ret true else do_release fuel [xp]) (fun ok' =>
            if ok' then
              match rec with
              | Some m => pbind (lift (detach m)) (fun _ => Emit (cli "detach" []) (Ret tt))
              | None => Ret tt
              end
            else Emit (cli "outoffuel" []) (Ret tt))
        else Emit (cli "outoffuel" []) (Ret tt))) l1 (@Conc.QTrue L2)).
    { intros l1 Hc El Ex. apply safe2_bind. apply safe2_do_release; [exact Hc| | |].
      - intros p Hp. left. rewrite El. apply R2. exact Hp.
      - intros l2 E1 E2 E3 _.
        assert (X : forall l3, safe2 t (match rec with
                           | Some m => pbind (lift (detach m)) (fun _ => Emit (cli "detach" []) (Ret tt))
                           | None => Ret tt end) l3 (@Conc.QTrue L2)).
        { intros l3. destruct rec as [m|]; [|exact I]. apply safe2_lift_quiet_then; [apply bquiet_detach|]. intros _.
          apply safe2_emit_inert; [inr|exact I]. }
        apply safe2_bind. destruct (Z.eqb_spec xp 0) as [E0|E0]; [cbn; apply X|].
        apply safe2_do_release; [exact E1| | |].
        + intros p [<-|[]]. right. rewrite E3, Ex. apply R3. exact E0.
        + intros l3 _ _ _ _. apply X.
        + intros l3. apply safe2_emit_inert; [inr|exact I].
      - intros l2. apply safe2_emit_inert; [inr|exact I]. }
    apply safe2_bind. destruct rec as [m|].
    - apply p_leave_all_safe2; [exact R1|]. intros l' A1 A2 A3. apply K; assumption.
    - cbn. apply K; auto. apply R1. apply R6. reflexivity.
  Qed.
End Ops2.
