(** * DhpSlotA: a store to a hazard cell — by any thread, to any cell — preserves the C02 invariant. *)
From Coq Require Import ZArith NArith List String Bool Lia PeanoNat.
From LV Require Import Base.Conc Base.Events Model.DhpLang Model.Dhp Proofs.DhpBase Proofs.DhpHist
  Proofs.DhpLangProofs Proofs.DhpInvA Proofs.DhpStepsA.
Import ListNotations.

Lemma piA_slot_set g s v : piA g (slot_set g s v).
Proof.
  destruct s as [r i|b i]; cbn [slot_set].
  - apply piA_upd_rec. intros x. cbn. rewrite upd_nth_length. auto.
  - apply piA_upd_gb. intros y. cbn. rewrite upd_nth_length. auto.
Qed.

Lemma slot_get_set g s v s' : slot_valid g s = true ->
  slot_get (slot_set g s v) s' = if gref_eqb s' s then v else slot_get g s'.
Proof.
  intros Hv. destruct s as [r i|b i], s' as [r' i'|b' i']; cbn [slot_get slot_set gref_eqb slot_valid] in *;
    apply andb_true_iff in Hv; destruct Hv as (H1 & H2); apply Nat.ltb_lt in H1, H2.
  - rewrite grec_upd_rec_any. destruct (Nat.eqb_spec r' r) as [->|N]; cbn [andb].
    + replace (Nat.ltb r (List.length (recs g))) with true by (symmetry; now apply Nat.ltb_lt). cbn [r_slots rs_slots].
      destruct (Nat.eqb_spec i' i) as [->|N'].
      * now apply nth_upd_nth_same.
      * apply nth_upd_nth_other. congruence.
    + reflexivity.
  - reflexivity.
  - reflexivity.
  - rewrite ggb_upd_gb_any. destruct (Nat.eqb_spec b' b) as [->|N]; cbn [andb].
    + replace (Nat.ltb b (List.length (gbs g))) with true by (symmetry; now apply Nat.ltb_lt). cbn [gb_slots gs_slots].
      destruct (Nat.eqb_spec i' i) as [->|N'].
      * now apply nth_upd_nth_same.
      * apply nth_upd_nth_other. congruence.
    + reflexivity.
Qed.

Lemma slot_set_invalid g s v : slot_valid g s = false -> same_slots g (slot_set g s v).
Proof.
  intros Hv s'. destruct s as [r i|b i], s' as [r' i'|b' i']; cbn [slot_get slot_set slot_valid] in *; try reflexivity.
  - rewrite grec_upd_rec_any. destruct (Nat.eqb r' r && Nat.ltb r (List.length (recs g))) eqn:E; auto.
    apply andb_true_iff in E. destruct E as (E1 & E2). apply Nat.eqb_eq in E1. subst r'. rewrite E2 in Hv. cbn in Hv.
    apply Nat.ltb_ge in Hv. cbn. now rewrite upd_nth_oob.
  - rewrite ggb_upd_gb_any. destruct (Nat.eqb b' b && Nat.ltb b (List.length (gbs g))) eqn:E; auto.
    apply andb_true_iff in E. destruct E as (E1 & E2). apply Nat.eqb_eq in E1. subst b'. rewrite E2 in Hv. cbn in Hv.
    apply Nat.ltb_ge in Hv. cbn. now rewrite upd_nth_oob.
Qed.

Section Slot.
  Variable c : cfg.
  Notation dsafeA := (@dsafe G ev AuxA VA viewA (InvA c)).

  Lemma InvA_st_slot g a tr t s v : InvA c g a tr ->
    InvA c (fst (fst (a_st_slot s v g))) a (tr ++ Conc.tag t (snd (a_st_slot s v g))).
  Proof.
    intros Hi. unfold a_st_slot. cbn [fst snd]. destruct (slot_valid g s) eqn:Hv.
    - intros Hfl.
      assert (Hfl0 : flbad (hist tr) = false).
      { destruct (flbad (hist tr)) eqn:E; auto. rewrite (flbad_mono tr _ E) in Hfl. discriminate. }
      destruct (Hi Hfl0) as (J & ND). split.
      + rewrite hist_app. cbn [Conc.tag map app fold_left acc]. rewrite hstep_acc, hstep_slot. cbn [hlen slotv lastw att linked scan freeh flbad].
        eapply JA_quiet; [apply piA_slot_set| | | | |exact J]; [|intros; reflexivity|reflexivity|].
        * unfold hA. cbn. split; [|repeat split; auto].
          intros s'. destruct (gref_eqb s' s) eqn:E.
          -- right. exists (S (hlen (hist tr))). split; [unfold fupd; now rewrite E|lia].
          -- left. now rewrite !fupd_other by exact E.
        * intros s'. cbn. rewrite slot_get_set by exact Hv. unfold fupd. destruct (gref_eqb s' s); auto. apply (ja_slot _ _ _ _ J).
      + apply ndwg_app; auto. apply not_dispose_tag. intros e He p. cbn in He.
        destruct He as [<-|[<-|[]]]; [discriminate|]. intros E. apply (f_equal classify) in E. rewrite classify_slot, classify_dispose in E. discriminate.
    - rewrite app_nil_r. eapply InvA_quiet; eauto.
      + split; [apply piA_slot_set|now apply slot_set_invalid].
      + repeat constructor.
  Qed.

  Lemma dsafe_st_slot {R} t s v (k : unit -> @dprog G ev R) l Q :
    dsafeA t (k tt) l Q -> dsafeA t (DAct (a_st_slot s v) k) l Q.
  Proof.
    intros Hk. cbn [dsafe]. intros g a tr Hi Hv. exists a. split; [now apply InvA_st_slot|].
    split; [apply frame_refl|]. rewrite Hv. destruct (snd (fst (a_st_slot s v g))). exact Hk.
  Qed.
End Slot.
