(** * CachedFreeList over FreeList / TaggedFreeList: "no loss" including the sequential drain. *)
From Coq Require Import ZArith List String Bool Lia PeanoNat.
From LV Require Import Base.Conc Base.Events Model.FreeList Model.FreeListTagged Model.FreeListCached
  Proofs.FreeListBase Proofs.FreeListInv Proofs.FreeListSteps Proofs.FreeListSafe Proofs.FreeListThm
  Proofs.FreeListTaggedInv Proofs.FreeListTaggedSafe Proofs.FreeListTaggedThm
  Proofs.FreeListCachedTagged Proofs.FreeListCachedTaggedThm Proofs.FreeListCachedFL Proofs.FreeListCachedFLThm
  Proofs.FreeListCachedDrain.
Import ListNotations.
Local Open Scope Z_scope.
Local Open Scope string_scope.

Lemma solo_gsolo R (p : prog R) g : solo p g = gsolo p g.
Proof. revert g. induction p as [r|es k IH|f k IH]; intros g; cbn; auto. destruct (f g) as [[g' v] es]. apply IH. Qed.
Lemma tsolo_gsolo R (p : tprog R) g : tsolo p g = gsolo p g.
Proof. revert g. induction p as [r|es k IH|f k IH]; intros g; cbn; auto. destruct (f g) as [[g' v] es]. apply IH. Qed.

Lemma chain_nz nx : forall l h, chain nx h l -> ~ In O l.
Proof. induction l as [|n r IH]; intros h H; cbn in *; [tauto|]. destruct H as (_ & Hn & Hc). intros [E|E]; [congruence|]. eapply IH; eauto. Qed.

Lemma chain_unique nx : forall l1 l2 h, chain nx h l1 -> chain nx h l2 -> l1 = l2.
Proof.
  induction l1 as [|x r IH]; intros [|y r2] h C1 C2; cbn in *; try reflexivity.
  - destruct C2 as (E & Hn & _). congruence.
  - destruct C1 as (E & Hn & _). congruence.
  - destruct C1 as (E1 & _ & C1), C2 as (E2 & _ & C2). subst. f_equal. eapply IH; eauto.
Qed.

Lemma nz_le G0 (g : CG G0) : (nz G0 g <= CACHE_SIZE)%nat.
Proof.
  unfold nz, CACHE_SIZE. cbn [seq filter].
  repeat match goal with |- context [Nat.eqb (cache G0 g ?x) 0] => destruct (Nat.eqb (cache G0 g x) 0) end; cbn; lia.
Qed.

Section Full.
  Variable fuel k : nat.
  Variable ths : list (list op * list nat * nat).
  Hypothesis Hwf : cwf_init k ths.
  Let NR := List.length ths.

  (** FreeList behind the cache *)
  Theorem cached_fl_no_loss_full :
    Z.of_nat (List.length ths + CACHE_SIZE) + 1 < FLAG ->
    forall c, Conc.reach (cinit_cfg G put get init_range fuel k ths) c -> quiescent (Conc.trace c) ->
    let g := Conc.shared c in
    exists own l,
      mon_run (own_init (cths ths)) (Conc.trace c) = Some own /\
      seq_ok (back G g) l /\
      (forall n, (In n l \/ (n <> O /\ exists i, (i < CACHE_SIZE)%nat /\ cache G g i = n))
                 <-> valid_init k (cths ths) n = true /\ own n = None) /\
      forall s f cn, (s < CACHE_SIZE)%nat -> (List.length l + CACHE_SIZE < cn)%nat ->
        NoDup (cdrain G get (S f) s cn g) /\
        forall n, In n (cdrain G get (S f) s cn g) <-> valid_init k (cths ths) n = true /\ own n = None.
  Proof.
    intros HN c Hr Hq g.
    destruct (cached_fl_unique_holder fuel k ths Hwf HN c Hr) as (own & l & M & Hc & Hnd & H1 & H2 & H3).
    destruct (cached_fl_no_loss fuel k ths Hwf HN c Hr Hq) as (own' & l' & M' & Hc' & Hnd' & Hset).
    fold g in Hc, H2, H3, Hc', Hset.
    assert (own' = own) by congruence. subst own'.
    (* refs = 1 on the list: from the invariant, nobody holds a reference *)
    destruct (freach_Inv fuel k ths Hwf HN c Hr) as (a & HS & HT & HL). pose proof HT as (T1 & T2 & T3).
    assert (Hidle : forall t, ph a t = Idle).
    { intros t. pose proof (T3 t) as E. rewrite (Hq t) in E. destruct (ph a t); cbn in E; try lia. reflexivity. }
    assert (Hcnt : forall n, cnt (NR + CACHE_SIZE) a n = O).
    { intros n. apply count_all_false. intros t _. rewrite Hidle. reflexivity. }
    assert (Hl : forall n, In n (lst a) <-> In n l').
    { intros n. split; intros Hin.
      - assert (A : valid_init k (cths ths) n = true /\ own n = None).
        { apply (S_lin HS) in Hin. split.
          - destruct (valid_init k (cths ths) n) eqn:E; [reflexivity|]. apply (S_valid HS) in E. congruence.
          - assert (Eo : FreeListInv.own a = own) by (rewrite M in T1; congruence).
            destruct (own n) as [t|] eqn:E; [|reflexivity]. rewrite <- Eo in E.
            apply T2 in E. destruct E as [_ E]. apply (S_held HS) in E. congruence. }
        apply Hset in A. destruct A as [A|[Hnz (i & Hi & E)]]; [exact A|]. exfalso.
        destruct (HL i Hi) as [_ E2]. fold g in E2. rewrite E in E2. destruct (Nat.eqb_spec n 0); [contradiction|].
        assert (st a n = Held (NR + i)) by (apply (S_held HS); unfold NR; rewrite E2; left; reflexivity).
        apply (S_lin HS) in Hin. congruence.
      - (* l' is the unique chain from head: both lists are chains from the same head *)
        rewrite (chain_unique _ _ _ _ (S_chain HS) Hc'). exact Hin. }
    assert (Hseq : seq_ok (back G g) l').
    { split; [exact Hc'|split; [exact Hnd'|]]. intros n Hin. apply Hl in Hin. apply (S_lin HS) in Hin.
      unfold g. rewrite (S_refs HS n), Hin. unfold NR in Hcnt. rewrite Hcnt. reflexivity. }
    exists own, l'. split; [exact M|]. split; [exact Hseq|]. split; [exact Hset|].
    intros s f cn Hs Hcn.
    assert (Hwfc : wfc G g l').
    { intros i Hi Hnz. destruct (H2 i Hi Hnz) as (_ & _ & Hnin & Hinj). split; [|exact Hinj].
      intros Hin. apply Hnin.
      assert (E : l = l') by (eapply chain_unique; eauto).
      rewrite E. exact Hin. }
    pose proof (nz_le G g) as Hnz.
    destruct (cdrain_spec G get seq_ok
                (fun f0 g0 Hk => eq_trans (eq_sym (solo_gsolo _ _ _)) (solo_get_nil f0 g0 Hk))
                (fun f0 g0 n r Hk => match solo_get_cons f0 g0 n r Hk with
                                     | ex_intro _ g0' (conj E1 E2) => ex_intro _ g0' (conj (eq_trans (eq_sym (solo_gsolo _ _ _)) E1) E2) end)
                (fun g0 l0 Hk => conj (proj1 (proj2 Hk)) (chain_nz _ _ _ (proj1 Hk)))
                f s Hs (List.length l' + nz G g)%nat g l' cn eq_refl Hseq Hwfc ltac:(lia)) as [D1 D2].
    split; [exact D1|]. intros n. rewrite D2. apply Hset.
  Qed.

  (** TaggedFreeList behind the cache *)
  Theorem cached_tagged_no_loss_full :
    forall c, Conc.reach (cinit_cfg TG tput tget tinit_range fuel k ths) c -> nowrap (ctag0 k) (Conc.trace c) ->
    quiescent (Conc.trace c) ->
    let g := Conc.shared c in
    exists own l,
      mon_run (own_init (cths ths)) (Conc.trace c) = Some own /\
      tseq_ok (back TG g) l /\
      (forall n, (In n l \/ (n <> O /\ exists i, (i < CACHE_SIZE)%nat /\ cache TG g i = n))
                 <-> valid_init k (cths ths) n = true /\ own n = None) /\
      forall s f cn, (s < CACHE_SIZE)%nat -> (List.length l + CACHE_SIZE < cn)%nat ->
        NoDup (cdrain TG tget (S f) s cn g) /\
        forall n, In n (cdrain TG tget (S f) s cn g) <-> valid_init k (cths ths) n = true /\ own n = None.
  Proof.
    intros c Hr Hnw Hq g.
    destruct (cached_tagged_unique_holder fuel k ths Hwf c Hr Hnw) as (own & l & M & Hc & Hnd & H1 & H2 & H3).
    destruct (cached_tagged_no_loss fuel k ths Hwf c Hr Hnw Hq) as (own' & l' & M' & [Hc' Hnd'] & Hset).
    fold g in Hc, H2, H3, Hc', Hset.
    assert (own' = own) by congruence. subst own'.
    assert (E : l = l') by (eapply chain_unique; eauto).
    subst l'.
    exists own, l. split; [exact M|]. split; [split; assumption|]. split; [exact Hset|].
    intros s f cn Hs Hcn.
    assert (Hwfc : wfc TG g l).
    { intros i Hi Hnz. destruct (H2 i Hi Hnz) as (_ & _ & Hnin & Hinj). split; assumption. }
    pose proof (nz_le TG g) as Hnz.
    destruct (cdrain_spec TG tget tseq_ok
                (fun f0 g0 Hk => eq_trans (eq_sym (tsolo_gsolo _ _ _)) (tsolo_get_nil f0 g0 Hk))
                (fun f0 g0 n r Hk => match tsolo_get_cons f0 g0 n r Hk with
                                     | ex_intro _ g0' (conj E1 E2) => ex_intro _ g0' (conj (eq_trans (eq_sym (tsolo_gsolo _ _ _)) E1) E2) end)
                (fun g0 l0 Hk => conj (proj2 Hk) (chain_nz _ _ _ (proj1 Hk)))
                f s Hs (List.length l + nz TG g)%nat g l cn eq_refl (conj Hc' Hnd') Hwfc ltac:(lia)) as [D1 D2].
    split; [exact D1|]. intros n. rewrite D2. apply Hset.
  Qed.
End Full.
