(** DhpConsRulesB: copy of LV.Proofs.DhpRulesB over the two-directional pointer invariant of LV.Proofs.DhpConsInv (conservation);
    the text differs from the original where the JW part of a goal is proved. *)
(** * DhpRulesB: proof rules for steps that change the ghost state of the C03 invariant; view setters. *)
From Coq Require Import ZArith NArith List String Bool Lia PeanoNat.
From LV Require Import Base.Conc Base.Events Model.DhpLang Model.Dhp Proofs.DhpBase Proofs.DhpSeq Proofs.DhpSeqThm Proofs.DhpHist
  Proofs.DhpLangProofs Proofs.DhpInvB Proofs.DhpConsInv Proofs.DhpConsQuietB Proofs.DhpConsQuietB2.
Import ListNotations.

Definition set_own (v : VB) x := mkVB x (vb_node v) (vb_new v) (vb_blk v) (vb_limbo v) (vb_pend v) (vb_freed v) (vb_full v) (vb_move v) (vb_cur v) (vb_dead v) (vb_arr v) (vb_mine v) (vb_s0 v).
Definition set_node (v : VB) x := mkVB (vb_own v) x (vb_new v) (vb_blk v) (vb_limbo v) (vb_pend v) (vb_freed v) (vb_full v) (vb_move v) (vb_cur v) (vb_dead v) (vb_arr v) (vb_mine v) (vb_s0 v).
Definition set_new (v : VB) x := mkVB (vb_own v) (vb_node v) x (vb_blk v) (vb_limbo v) (vb_pend v) (vb_freed v) (vb_full v) (vb_move v) (vb_cur v) (vb_dead v) (vb_arr v) (vb_mine v) (vb_s0 v).
Definition set_blk (v : VB) x := mkVB (vb_own v) (vb_node v) (vb_new v) x (vb_limbo v) (vb_pend v) (vb_freed v) (vb_full v) (vb_move v) (vb_cur v) (vb_dead v) (vb_arr v) (vb_mine v) (vb_s0 v).
Definition set_limbo (v : VB) x := mkVB (vb_own v) (vb_node v) (vb_new v) (vb_blk v) x (vb_pend v) (vb_freed v) (vb_full v) (vb_move v) (vb_cur v) (vb_dead v) (vb_arr v) (vb_mine v) (vb_s0 v).
Definition set_pend (v : VB) x := mkVB (vb_own v) (vb_node v) (vb_new v) (vb_blk v) (vb_limbo v) x (vb_freed v) (vb_full v) (vb_move v) (vb_cur v) (vb_dead v) (vb_arr v) (vb_mine v) (vb_s0 v).
Definition set_freed (v : VB) x := mkVB (vb_own v) (vb_node v) (vb_new v) (vb_blk v) (vb_limbo v) (vb_pend v) x (vb_full v) (vb_move v) (vb_cur v) (vb_dead v) (vb_arr v) (vb_mine v) (vb_s0 v).
Definition set_full (v : VB) x := mkVB (vb_own v) (vb_node v) (vb_new v) (vb_blk v) (vb_limbo v) (vb_pend v) (vb_freed v) x (vb_move v) (vb_cur v) (vb_dead v) (vb_arr v) (vb_mine v) (vb_s0 v).
Definition set_move (v : VB) x := mkVB (vb_own v) (vb_node v) (vb_new v) (vb_blk v) (vb_limbo v) (vb_pend v) (vb_freed v) (vb_full v) x (vb_cur v) (vb_dead v) (vb_arr v) (vb_mine v) (vb_s0 v).
Definition set_cur (v : VB) x := mkVB (vb_own v) (vb_node v) (vb_new v) (vb_blk v) (vb_limbo v) (vb_pend v) (vb_freed v) (vb_full v) (vb_move v) x (vb_dead v) (vb_arr v) (vb_mine v) (vb_s0 v).
Definition set_dead (v : VB) x := mkVB (vb_own v) (vb_node v) (vb_new v) (vb_blk v) (vb_limbo v) (vb_pend v) (vb_freed v) (vb_full v) (vb_move v) (vb_cur v) x (vb_arr v) (vb_mine v) (vb_s0 v).
Definition set_arr (v : VB) x := mkVB (vb_own v) (vb_node v) (vb_new v) (vb_blk v) (vb_limbo v) (vb_pend v) (vb_freed v) (vb_full v) (vb_move v) (vb_cur v) (vb_dead v) x (vb_mine v) (vb_s0 v).
Definition set_mine (v : VB) x := mkVB (vb_own v) (vb_node v) (vb_new v) (vb_blk v) (vb_limbo v) (vb_pend v) (vb_freed v) (vb_full v) (vb_move v) (vb_cur v) (vb_dead v) (vb_arr v) x (vb_s0 v).
Definition set_s0 (v : VB) x := mkVB (vb_own v) (vb_node v) (vb_new v) (vb_blk v) (vb_limbo v) (vb_pend v) (vb_freed v) (vb_full v) (vb_move v) (vb_cur v) (vb_dead v) (vb_arr v) (vb_mine v) x.

Definition setv (a : AuxB) (t : nat) (v : VB) : AuxB := mkAuxB (fn (bvs a) t v) (rbown a) (wh a) (rch a) (rw a) (moved a) (dead a) (tl a).

Lemma frame_bvs a a' t v : bvs a' = fn (bvs a) t v -> Conc.frame viewB t a a'.
Proof. intros E t' Ht. unfold viewB. rewrite E. now apply fn_other. Qed.

(** goals [forall t', F (bvs a' t') = F (bvs a t')] where [bvs a'] is [fn (bvs a) t v] and [F v = F (bvs a t)] by computation *)
Ltac vw t :=
  let t' := fresh "t'" in
  intros t'; cbn [bvs setv]; unfold fn; destruct (Nat.eqb_spec t' t) as [->|]; cbn; repeat split; reflexivity.

Section RulesB.
  Variable c : cfg.

  Lemma InvB_step g g' a a' tr es :
    InvB c g a tr ->
    (flbad (hist (tr ++ es)) = false -> NoDup (retired_tr (tr ++ es)) -> JB c g a tr -> JB c g' a' (tr ++ es)) ->
    InvB c g' a' (tr ++ es).
  Proof. intros Hi H Hfl Hnd. apply H; auto. apply Hi; [eapply flbad_prefixB|eapply nodup_retired_prefix]; eauto. Qed.

  Lemma dsafeB_act_J {X R} t (f : A X) (k : X -> @dprog G ev R) l Q :
    (forall g a tr, viewB a t = l -> exists a', Conc.frame viewB t a a' /\
        (flbad (hist (tr ++ Conc.tag t (snd (f g)))) = false -> NoDup (retired_tr (tr ++ Conc.tag t (snd (f g)))) -> JB c g a tr ->
         JB c (fst (fst (f g))) a' (tr ++ Conc.tag t (snd (f g)))) /\
        dsafeB c t (k (snd (fst (f g)))) (viewB a' t) Q) ->
    dsafeB c t (DAct f k) l Q.
  Proof.
    intros Hs. cbn [dsafe]. intros g a tr Hi Hv. destruct (Hs g a tr Hv) as (a' & F & Hj & Hk).
    exists a'. split; [eapply InvB_step; eauto|]. split; auto.
  Qed.

  Lemma dsafeB_emit_J {R} t es (k : @dprog G ev R) l Q :
    (forall g a tr, viewB a t = l -> exists a', Conc.frame viewB t a a' /\
        (flbad (hist (tr ++ Conc.tag t es)) = false -> NoDup (retired_tr (tr ++ Conc.tag t es)) -> JB c g a tr ->
         JB c g a' (tr ++ Conc.tag t es)) /\
        dsafeB c t k (viewB a' t) Q) ->
    dsafeB c t (DEmit es k) l Q.
  Proof.
    intros Hs. cbn [dsafe]. intros g a tr Hi Hv. destruct (Hs g a tr Hv) as (a' & F & Hj & Hk).
    exists a'. split; [eapply InvB_step; eauto|]. split; auto.
  Qed.

  Lemma dsafeB_loc_J {X R} t (f : G -> G * X) (k : X -> @dprog G ev R) l Q :
    (forall g a tr, viewB a t = l -> exists a', Conc.frame viewB t a a' /\
        (JB c g a tr -> JB c (fst (f g)) a' tr) /\
        dsafeB c t (k (snd (f g))) (viewB a' t) Q) ->
    dsafeB c t (DLoc f k) l Q.
  Proof.
    intros Hs. cbn [dsafe]. intros g a tr Hi Hv. destruct (Hs g a tr Hv) as (a' & F & Hj & Hk).
    exists a'. split; [|split; auto]. intros Hfl Hnd. apply Hj. apply Hi; auto.
  Qed.

  (** the same rules for [act]/[loc]/[emit] followed by a continuation under [xbind] *)
  Lemma dsafeB_xact {X Y} t (f : A X) (q : X -> P Y) l (Q : option Y -> VB -> Prop) :
    (forall g a tr, viewB a t = l -> exists a', Conc.frame viewB t a a' /\
        (flbad (hist (tr ++ Conc.tag t (snd (f g)))) = false -> NoDup (retired_tr (tr ++ Conc.tag t (snd (f g)))) -> JB c g a tr ->
         JB c (fst (fst (f g))) a' (tr ++ Conc.tag t (snd (f g)))) /\
        dsafeB c t (q (snd (fst (f g)))) (viewB a' t) Q) ->
    dsafeB c t (xbind (act f) q) l Q.
  Proof. intros H. unfold xbind, act. cbn [dbind]. apply dsafeB_act_J. exact H. Qed.

  Lemma dsafeB_xloc {X Y} t (f : G -> G * X) (q : X -> P Y) l (Q : option Y -> VB -> Prop) :
    (forall g a tr, viewB a t = l -> exists a', Conc.frame viewB t a a' /\
        (JB c g a tr -> JB c (fst (f g)) a' tr) /\
        dsafeB c t (q (snd (f g))) (viewB a' t) Q) ->
    dsafeB c t (xbind (loc f) q) l Q.
  Proof. intros H. unfold xbind, loc. cbn [dbind]. apply dsafeB_loc_J. exact H. Qed.

  Lemma dsafeB_xemit {Y} t es (q : unit -> P Y) l (Q : option Y -> VB -> Prop) :
    (forall g a tr, viewB a t = l -> exists a', Conc.frame viewB t a a' /\
        (flbad (hist (tr ++ Conc.tag t es)) = false -> NoDup (retired_tr (tr ++ Conc.tag t es)) -> JB c g a tr ->
         JB c g a' (tr ++ Conc.tag t es)) /\
        dsafeB c t (q tt) (viewB a' t) Q) ->
    dsafeB c t (xbind (emit es) q) l Q.
  Proof. intros H. unfold xbind, emit. cbn [dbind]. apply dsafeB_emit_J. exact H. Qed.

  (** quiet act / loc under xbind, keeping the view *)
  Lemma dsafeB_xact_q {X Y} t (f : A X) (q : X -> P Y) l (Q : option Y -> VB -> Prop) :
    QA f -> (forall x, dsafeB c t (q x) l Q) -> dsafeB c t (xbind (act f) q) l Q.
  Proof. intros H Hk. unfold xbind, act. cbn [dbind]. apply dsafeB_act_quiet; auto. Qed.
  Lemma dsafeB_xloc_q {X Y} t (f : G -> G * X) (q : X -> P Y) l (Q : option Y -> VB -> Prop) :
    (forall g, piB g (fst (f g))) -> (forall x, dsafeB c t (q x) l Q) -> dsafeB c t (xbind (loc f) q) l Q.
  Proof. intros H Hk. unfold xbind, loc. cbn [dbind]. apply dsafeB_loc_quiet; auto. Qed.
  Lemma dsafeB_xemit_q {Y} t es (q : unit -> P Y) l (Q : option Y -> VB -> Prop) :
    Forall qevB es -> dsafeB c t (q tt) l Q -> dsafeB c t (xbind (emit es) q) l Q.
  Proof. intros H Hk. unfold xbind, emit. cbn [dbind]. apply dsafeB_emit_quiet; auto. Qed.
  Lemma dsafeB_ret {X} t (x : X) l (Q : option X -> VB -> Prop) : Q (Some x) l -> dsafeB c t (ret x) l Q.
  Proof. intros H. exact H. Qed.
  Lemma dsafeB_xret {X Y} t (x : X) (q : X -> P Y) l (Q : option Y -> VB -> Prop) : dsafeB c t (q x) l Q -> dsafeB c t (xbind (ret x) q) l Q.
  Proof. intros H. exact H. Qed.
End RulesB.
