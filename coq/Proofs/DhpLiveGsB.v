(** * DhpLiveGsB: C02, second sentence for DHP -- "a scan frees only what was retired before it began".
      Part B: the trace hypothesis [TO] of LV.Proofs.DhpLiveGsC holds for every reachable trace of the model:
      "op" events and the non-load accesses to thread_id_ are made by a thread only when it is not between its
      "_scanb" and "_scane" events.

    smr::scan emits "_scanb", then makes loads, non-atomic code, disposer calls and retired_.extend() only, then emits
    "_scane"; when a loop inside runs out of fuel the whole thread program ends.  The proof is an independent
    invariant in the style of DhpLiveB/C/D: the auxiliary state is the summary [hist tr] itself, a thread sees its own
    [scan] field, the invariant does not look at the shared state at all. *)
From Coq Require Import ZArith NArith List String Bool Lia PeanoNat.
From LV Require Import Base.Conc Base.Events Model.DhpLang Model.Dhp Proofs.DhpBase Proofs.DhpHist
  Proofs.DhpLangProofs Proofs.DhpProofsC02 Proofs.DhpLiveA Proofs.DhpLiveGsC.
Import ListNotations.
Local Open Scope string_scope.
Local Open Scope list_scope.

(** ** events: [keepb] leave every [scan] field as it is; [neutralb] are moreover not guarded *)
Definition keepb (e : ev) : bool := match classify e with HScanb _ | HScane _ => false | _ => true end.
Definition neutralb (e : ev) : bool := keepb e && negb (guardedb e).

(** an event a thread may emit when its scan field is [l] *)
Definition okev (l : option nat) (e : ev) : Prop := keepb e = true /\ (guardedb e = true -> l = None).

Lemma neutral_okev l e : neutralb e = true -> okev l e.
Proof.
  unfold neutralb, okev. intros K. apply andb_true_iff in K. destruct K as (K1 & K2). split; [exact K1|].
  intros K3. rewrite K3 in K2. discriminate.
Qed.

Lemma nth_tagO t (es : list ev) i u e : nth_error (Conc.tag t es) i = Some (u, e) -> u = t /\ nth_error es i = Some e.
Proof.
  unfold Conc.tag. rewrite nth_error_map. destruct (nth_error es i); cbn; intros K; inversion K; auto.
Qed.
Lemma firstn_tagO t (es : list ev) i : firstn i (Conc.tag t es) = Conc.tag t (firstn i es).
Proof. unfold Conc.tag. apply firstn_map. Qed.
Lemma Forall_firstnO {X} (Pp : X -> Prop) (l : list X) : Forall Pp l -> forall i, Forall Pp (firstn i l).
Proof.
  induction 1 as [|x l Hx Hl IH]; intros [|i]; cbn; constructor; auto.
Qed.

Lemma scan_hstep_keep h te u : keepb (snd te) = true -> scan (hstep h te) u = scan h u.
Proof. intros K. rewrite scan_hstep. unfold keepb in K. destruct (classify (snd te)); try discriminate; reflexivity. Qed.
Lemma scan_fold_keep t es : Forall (fun e => keepb e = true) es ->
  forall h u, scan (fold_left hstep (Conc.tag t es) h) u = scan h u.
Proof.
  induction es as [|e es IH]; intros Hq h u; [reflexivity|]. inversion Hq; subst.
  change (Conc.tag t (e :: es)) with ((t, e) :: Conc.tag t es). cbn [fold_left]. rewrite IH by assumption.
  apply scan_hstep_keep. assumption.
Qed.
Lemma scan_fold_other t es u : u <> t -> forall h, scan (fold_left hstep (Conc.tag t es) h) u = scan h u.
Proof.
  intros N. induction es as [|e es IH]; intros h; [reflexivity|].
  change (Conc.tag t (e :: es)) with ((t, e) :: Conc.tag t es). cbn [fold_left]. rewrite IH, scan_hstep. cbn [fst snd].
  destruct (classify e); try reflexivity; destruct (Nat.eqb_spec u t); try contradiction; reflexivity.
Qed.

(** ** the trace property, extended by the events of one step *)
Lemma TO_ext tr t es : TO tr ->
  (forall i e, nth_error es i = Some e -> guardedb e = true ->
     scan (fold_left hstep (Conc.tag t (firstn i es)) (hist tr)) t = None) ->
  TO (tr ++ Conc.tag t es).
Proof.
  intros H1 H2 v u e Hn Hg. destruct (Nat.lt_ge_cases v (List.length tr)) as [L|L].
  - rewrite nth_error_app1 in Hn by exact L. rewrite firstn_app_le' by lia. eapply H1; eauto.
  - rewrite nth_error_app2 in Hn by exact L. apply nth_tagO in Hn. destruct Hn as (-> & Hn).
    rewrite firstn_app, (firstn_all2 tr) by exact L. rewrite firstn_tagO, hist_app. eapply H2; eauto.
Qed.

(** ** the invariant *)
Definition viewO (a : H) (t : nat) : option nat := scan a t.
Definition InvO (g : G) (a : H) (tr : list (nat * ev)) : Prop := a = hist tr /\ TO tr.

Notation dsafeO := (@dsafe G ev H (option nat) viewO InvO).

Lemma frame_foldO t es a : Conc.frame viewO t a (fold_left hstep (Conc.tag t es) a).
Proof. intros t' N. unfold viewO. now apply scan_fold_other. Qed.

Lemma InvO_ok g g' a tr t es : InvO g a tr -> Forall (okev (scan a t)) es ->
  InvO g' (fold_left hstep (Conc.tag t es) a) (tr ++ Conc.tag t es) /\
  scan (fold_left hstep (Conc.tag t es) a) t = scan a t.
Proof.
  intros (E & Ht) Hq.
  assert (Hk : Forall (fun e => keepb e = true) es) by (eapply Forall_impl; [|exact Hq]; intros e (K & _); exact K).
  split; [split|].
  - subst a. now rewrite hist_app.
  - apply TO_ext; [exact Ht|]. intros i e Hn Hg. rewrite <- E. rewrite scan_fold_keep by (now apply Forall_firstnO).
    rewrite Forall_forall in Hq. apply (Hq e); [eapply nth_error_In; eauto|exact Hg].
  - now apply scan_fold_keep.
Qed.

Lemma InvO_ung g g' a tr t es : InvO g a tr -> Forall (fun e => guardedb e = false) es ->
  InvO g' (fold_left hstep (Conc.tag t es) a) (tr ++ Conc.tag t es).
Proof.
  intros (E & Ht) Hq. split; [subst a; now rewrite hist_app|].
  apply TO_ext; [exact Ht|]. intros i e Hn Hg. rewrite Forall_forall in Hq. rewrite (Hq e) in Hg; [discriminate|].
  eapply nth_error_In; eauto.
Qed.

(** ** node rules: the new auxiliary state is forced, the frame condition is free *)
Lemma dsafeO_act {X R} t (f : A X) (k : X -> @dprog G ev R) l Q :
  (forall g a tr, InvO g a tr -> viewO a t = l ->
     InvO (fst (fst (f g))) (fold_left hstep (Conc.tag t (snd (f g))) a) (tr ++ Conc.tag t (snd (f g))) /\
     dsafeO t (k (snd (fst (f g)))) (viewO (fold_left hstep (Conc.tag t (snd (f g))) a) t) Q) ->
  dsafeO t (DAct f k) l Q.
Proof.
  intros K. cbn [dsafe]. intros g a tr Hi Hv. destruct (K g a tr Hi Hv) as (K1 & K2).
  exists (fold_left hstep (Conc.tag t (snd (f g))) a). split; [exact K1|]. split; [apply frame_foldO|exact K2].
Qed.
Lemma dsafeO_emit {R} t es (k : @dprog G ev R) l Q :
  (forall g a tr, InvO g a tr -> viewO a t = l ->
     InvO g (fold_left hstep (Conc.tag t es) a) (tr ++ Conc.tag t es) /\
     dsafeO t k (viewO (fold_left hstep (Conc.tag t es) a) t) Q) ->
  dsafeO t (DEmit es k) l Q.
Proof.
  intros K. cbn [dsafe]. intros g a tr Hi Hv. destruct (K g a tr Hi Hv) as (K1 & K2).
  exists (fold_left hstep (Conc.tag t es) a). split; [exact K1|]. split; [apply frame_foldO|exact K2].
Qed.
Lemma dsafeO_loc {X R} t (f : G -> G * X) (k : X -> @dprog G ev R) l Q :
  (forall x, dsafeO t (k x) l Q) -> dsafeO t (DLoc f k) l Q.
Proof.
  intros Hk. cbn [dsafe]. intros g a tr Hi Hv. exists a. split; [exact Hi|]. split; [apply frame_refl|rewrite Hv; apply Hk].
Qed.

(** ** programs that keep the thread's scan field (or end the thread's program), from a scan field allowed by [Pre] *)
Definition LibG (Pre : option nat -> Prop) {R} (p : P R) : Prop :=
  forall t l, Pre l -> dsafeO t p l (fun r l' => r = None \/ l' = l).

Definition PT : option nat -> Prop := fun _ => True.      (* usable inside smr::scan *)
Definition PN : option nat -> Prop := fun l => l = None.  (* may contain guarded events and whole scans *)

Lemma LibG_mono (Pre Pre' : option nat -> Prop) {R} (p : P R) : (forall l, Pre' l -> Pre l) -> LibG Pre p -> LibG Pre' p.
Proof. intros Hi Hp t l Hl. apply Hp. auto. Qed.

Lemma LibG_ret Pre {X} (x : X) : LibG Pre (ret x).
Proof. intros t l _. cbn. right. reflexivity. Qed.
Lemma LibG_xbind Pre {X Y} (p : P X) (q : X -> P Y) : LibG Pre p -> (forall x, LibG Pre (q x)) -> LibG Pre (xbind p q).
Proof.
  intros Hp Hq t l Hl. unfold xbind. apply dsafe_bind. eapply dsafe_weaken; [|apply Hp; exact Hl].
  intros [x|] l' [K|K]; try discriminate; cbn beta iota.
  - subst l'. apply Hq. exact Hl.
  - cbn. left. reflexivity.
  - cbn. left. reflexivity.
Qed.
Definition neutA {X} (f : A X) : Prop := forall g, Forall (fun e => neutralb e = true) (snd (f g)).
Definition okA (Pre : option nat -> Prop) {X} (f : A X) : Prop := forall g l, Pre l -> Forall (okev l) (snd (f g)).

Lemma LibG_act (Pre : option nat -> Prop) {X} (f : A X) : okA Pre f -> LibG Pre (act f).
Proof.
  intros Hf t l Hl. unfold act. apply dsafeO_act. intros g a tr Hi Hv. unfold viewO in *. subst l.
  destruct (InvO_ok g (fst (fst (f g))) a tr t (snd (f g)) Hi (Hf g _ Hl)) as (K1 & K2).
  split; [exact K1|]. cbn. right. exact K2.
Qed.
Lemma LibG_emit_ok (Pre : option nat -> Prop) es : (forall l, Pre l -> Forall (okev l) es) -> LibG Pre (emit es).
Proof.
  intros Hf t l Hl. unfold emit. apply dsafeO_emit. intros g a tr Hi Hv. unfold viewO in *. subst l.
  destruct (InvO_ok g g a tr t es Hi (Hf _ Hl)) as (K1 & K2).
  split; [exact K1|]. cbn. right. exact K2.
Qed.
Lemma LibG_emit Pre es : Forall (fun e => neutralb e = true) es -> LibG Pre (emit es).
Proof.
  intros Hq. apply LibG_emit_ok. intros l _. eapply Forall_impl; [|exact Hq]. intros e. apply neutral_okev.
Qed.
Lemma LibG_loc Pre {X} (f : G -> G * X) : LibG Pre (loc f).
Proof. intros t l _. unfold loc. apply dsafeO_loc. intros x. cbn. right. reflexivity. Qed.
Lemma LibG_fuel_out Pre {X} : LibG Pre (@fuel_out X).
Proof.
  intros t l _. unfold fuel_out. apply dsafeO_emit. intros g a tr Hi Hv.
  split; [eapply InvO_ung; [exact Hi|repeat constructor]|]. cbn. left. reflexivity.
Qed.

(** ** the atomic accesses *)

Lemma neutA_okA (Pre : option nat -> Prop) {X} (f : A X) : neutA f -> okA Pre f.
Proof. intros Hf g l _. eapply Forall_impl; [|apply Hf]. intros e. apply neutral_okev. Qed.

Ltac nacc := intros g; cbn;
  repeat match goal with |- context [if ?b then _ else _] => destruct b; cbn end; repeat constructor.

Lemma n_begin : neutA a_begin. Proof. nacc. Qed.
Lemma n_ld_tlist : neutA a_ld_tlist. Proof. nacc. Qed.
Lemma n_st_tlist v : neutA (a_st_tlist v). Proof. nacc. Qed.
Lemma n_cas_tlist e n : neutA (a_cas_tlist e n). Proof. intros g. unfold a_cas_tlist. destruct (oeqb _ _); cbn; repeat constructor. Qed.
Lemma n_ld_tid r : neutA (a_ld_tid r). Proof. nacc. Qed.
Lemma n_ld_free r : neutA (a_ld_free r). Proof. nacc. Qed.
Lemma n_st_free r v : neutA (a_st_free r v). Proof. nacc. Qed.
Lemma n_faa_sync r : neutA (a_faa_sync r). Proof. nacc. Qed.
Lemma n_ld_ext r : neutA (a_ld_ext r). Proof. nacc. Qed.
Lemma n_st_ext r v : neutA (a_st_ext r v). Proof. nacc. Qed.
Lemma n_ld_slot s : neutA (a_ld_slot s). Proof. intros g. destruct s; cbn; repeat constructor. Qed.
Lemma n_ld_src k : neutA (a_ld_src k). Proof. nacc. Qed.
Lemma n_st_src k v : neutA (a_st_src k v). Proof. nacc. Qed.
Lemma n_ld_head f : neutA (a_ld_head f). Proof. intros g. destruct f; cbn; repeat constructor. Qed.
Lemma n_cas_head f e n : neutA (a_cas_head f e n).
Proof. intros g. unfold a_cas_head. destruct (oeqb _ _); destruct f; cbn; repeat constructor. Qed.
Lemma n_ld_refs f n : neutA (a_ld_refs f n). Proof. intros g. destruct f; cbn; repeat constructor. Qed.
Lemma n_st_refs f n v : neutA (a_st_refs f n v). Proof. intros g. destruct f; cbn; repeat constructor. Qed.
Lemma n_cas_refs f n e v : neutA (a_cas_refs f n e v).
Proof. intros g. unfold a_cas_refs. destruct (N.eqb _ _); destruct f; cbn; repeat constructor. Qed.
Lemma n_faa_refs f n d : neutA (a_faa_refs f n d). Proof. intros g. destruct f; cbn; repeat constructor. Qed.
Lemma n_fas_refs f n d : neutA (a_fas_refs f n d). Proof. intros g. destruct f; cbn; repeat constructor. Qed.
Lemma n_ld_flnext f n : neutA (a_ld_flnext f n). Proof. intros g. destruct f; cbn; repeat constructor. Qed.
Lemma n_st_flnext f n v : neutA (a_st_flnext f n v). Proof. intros g. destruct f; cbn; repeat constructor. Qed.

Lemma neutral_slot s v : neutralb (ev_slot s v) = true.
Proof. unfold neutralb, keepb. rewrite classify_slot. reflexivity. Qed.
Lemma neutral_acc_slot s : neutralb (EvAcc KSt (obj_slot s) true) = true.
Proof. destruct s; reflexivity. Qed.
Lemma n_st_slot s v : neutA (a_st_slot s v).
Proof.
  intros g. unfold a_st_slot. cbn [fst snd]. unfold acc. cbn [app]. constructor; [apply neutral_acc_slot|].
  destruct (slot_valid g s); [constructor; [apply neutral_slot|constructor]|constructor].
Qed.
Lemma n_st_ext_g r v b : neutA (a_st_ext_g r v [ev_link r b]).
Proof. intros g. cbn. repeat constructor. Qed.

(** the two guarded accesses *)
Lemma k_st_tid r v : okA PN (a_st_tid r v).
Proof. intros g l Hl. cbn. constructor; [|constructor]. split; [reflexivity|intros _; exact Hl]. Qed.
Lemma k_cas_tid r e n : okA PN (a_cas_tid r e n).
Proof.
  intros g l Hl. unfold a_cas_tid. destruct (Nat.eqb _ _); cbn; (constructor; [|constructor]); (split; [reflexivity|intros _; exact Hl]).
Qed.

Lemma neutral_alloc f b : neutralb (ev_alloc f b) = true. Proof. destruct f; reflexivity. Qed.
Lemma neutral_new f b : neutralb (ev_new f b) = true. Proof. destruct f; reflexivity. Qed.
Lemma neutral_free f b : neutralb (ev_free f b) = true. Proof. destruct f; reflexivity. Qed.
Lemma neutral_own s : neutralb (ev_own s) = true. Proof. destruct s; reflexivity. Qed.
Lemma neutral_rel s : neutralb (ev_rel s) = true. Proof. destruct s; reflexivity. Qed.
Lemma neutral_relall : neutralb ev_relall = true. Proof. reflexivity. Qed.
Lemma neutral_att r : neutralb (ev_att r) = true. Proof. reflexivity. Qed.
Lemma neutral_det r : neutralb (ev_det r) = true. Proof. reflexivity. Qed.
Lemma neutral_skip : neutralb (EvCli "skip" []) = true. Proof. reflexivity. Qed.
Lemma neutral_err : neutralb (EvCli "modelerror" []) = true. Proof. reflexivity. Qed.
Lemma neutral_ret v : neutralb (EvCli "ret" [zn v]) = true. Proof. reflexivity. Qed.

Create HintDb odb.
Create HintDb pdb.
#[local] Hint Resolve neutA_okA k_st_tid k_cas_tid : odb.
#[local] Hint Resolve n_begin n_ld_tlist n_st_tlist n_cas_tlist n_ld_tid n_ld_free n_st_free n_faa_sync n_ld_ext n_st_ext
  n_ld_slot n_ld_src n_st_src n_ld_head n_cas_head n_ld_refs n_st_refs n_cas_refs n_faa_refs n_fas_refs n_ld_flnext n_st_flnext
  n_st_slot n_st_ext_g : odb.
#[local] Hint Resolve neutral_alloc neutral_new neutral_free neutral_own neutral_rel neutral_relall neutral_att neutral_det
  neutral_skip neutral_err neutral_ret neutral_slot : odb.

Ltac lp :=
  repeat match goal with
    | |- LibG _ (ret _) => apply LibG_ret
    | |- LibG _ fuel_out => apply LibG_fuel_out
    | |- LibG _ (xbind _ _) => apply LibG_xbind; [|intros]
    | |- LibG _ (act _) => apply LibG_act; solve [auto with odb]
    | |- LibG _ (emit _) => apply LibG_emit; solve [repeat constructor; auto with odb]
    | |- LibG _ (loc _) => apply LibG_loc
    | |- LibG _ (if ?b then _ else _) => destruct b
    | |- LibG _ (match ?o with Some _ => _ | None => _ end) => destruct o
    | |- LibG _ _ => solve [auto with pdb]
    end.

(** ** the library programs that contain no guarded event and no scan: from any scan field *)
Section Generic.
  Variable Pre : option nat -> Prop.
  Notation LibP := (LibG Pre).

  (** free lists *)
  Lemma L_add_knowing sp : forall f n head, LibP (add_knowing sp f n head).
  Proof. induction sp as [|sp IH]; intros f n head; cbn [add_knowing]; lp. Qed.
  Hint Resolve L_add_knowing : pdb.
  Lemma L_fl_add sp f n : LibP (fl_add sp f n).
  Proof. unfold fl_add. lp. Qed.
  Hint Resolve L_fl_add : pdb.
  Lemma L_fl_put sp f n : LibP (fl_put sp f n).
  Proof. unfold fl_put. lp. Qed.
  Hint Resolve L_fl_put : pdb.
  Lemma L_fl_get_loop sp : forall f head, LibP (fl_get_loop sp f head).
  Proof. induction sp as [|sp IH]; intros f head; destruct head as [h|]; cbn [fl_get_loop]; lp. Qed.
  Hint Resolve L_fl_get_loop : pdb.
  Lemma L_fl_get sp f : LibP (fl_get sp f).
  Proof. unfold fl_get. lp. Qed.
  Hint Resolve L_fl_get : pdb.

  (** allocators *)
  Lemma L_link_guards b : forall n i, LibP (link_guards b i n).
  Proof. induction n as [|n IH]; intros i; cbn [link_guards]; lp. Qed.
  Hint Resolve L_link_guards : pdb.
  Lemma L_hp_alloc c : LibP (hp_alloc c).
  Proof. unfold hp_alloc. lp. Qed.
  Hint Resolve L_hp_alloc : pdb.
  Lemma L_hp_free c b : LibP (hp_free c b).
  Proof. unfold hp_free. lp. Qed.
  Hint Resolve L_hp_free : pdb.
  Lemma L_rt_alloc c : LibP (rt_alloc c).
  Proof. unfold rt_alloc. lp. Qed.
  Hint Resolve L_rt_alloc : pdb.
  Lemma L_rt_free c b : LibP (rt_free c b).
  Proof. unfold rt_free. lp. Qed.
  Hint Resolve L_rt_free : pdb.

  (** thread_hp_storage *)
  Lemma L_hp_extend c r : LibP (hp_extend c r).
  Proof. unfold hp_extend. lp. Qed.
  Hint Resolve L_hp_extend : pdb.
  Lemma L_hp_galloc c r : LibP (hp_galloc c r).
  Proof. unfold hp_galloc. lp. Qed.
  Lemma L_hp_gfree r s : LibP (hp_gfree r s).
  Proof. unfold hp_gfree. lp. Qed.
  Lemma L_clear_slots r : forall n i, LibP (clear_slots r i n).
  Proof. induction n as [|n IH]; intros i; cbn [clear_slots]; lp. Qed.
  Hint Resolve L_clear_slots : pdb.
  Lemma L_free_gblocks c : forall fuel p, LibP (free_gblocks c fuel p).
  Proof. induction fuel as [|f IH]; intros [b|]; cbn [free_gblocks]; lp. Qed.
  Hint Resolve L_free_gblocks : pdb.
  Lemma L_hp_clear c r det : Forall (fun e => neutralb e = true) det -> LibP (hp_clear c r det).
  Proof. intros Hd. unfold hp_clear. lp. Qed.

  (** retired_array *)
  Lemma L_rt_init c r : LibP (rt_init c r).
  Proof. unfold rt_init. lp. Qed.
  Lemma L_free_rblocks c : forall fuel p, LibP (free_rblocks c fuel p).
  Proof. induction fuel as [|f IH]; intros [b|]; cbn [free_rblocks]; lp. Qed.
  Hint Resolve L_free_rblocks : pdb.
  Lemma L_rt_fini c r : LibP (rt_fini c r).
  Proof. unfold rt_fini. lp. Qed.
  Lemma L_rt_extend c r : LibP (rt_extend c r).
  Proof. unfold rt_extend. lp. Qed.

  (** stage 1 of scan *)
  Lemma L_copy_hazards mk : forall n i pl, LibP (copy_hazards mk i n pl).
  Proof. induction n as [|n IH]; intros i pl; cbn [copy_hazards]; lp. Qed.
  Hint Resolve L_copy_hazards : pdb.
  Lemma L_scan_blocks c : forall fuel b pl, LibP (scan_blocks c fuel b pl).
  Proof. induction fuel as [|f IH]; intros [b|] pl; cbn [scan_blocks]; lp. Qed.
  Hint Resolve L_scan_blocks : pdb.
  Lemma L_scan_recs c : forall fuel node pl, LibP (scan_recs c fuel node pl).
  Proof. induction fuel as [|f IH]; intros [n|] pl; cbn [scan_recs]; lp. Qed.

  (** the loops of alloc_thread_data and of the client that contain no guarded event *)
  Lemma L_push_rec r : forall fuel old, LibP (push_rec fuel r old).
  Proof. induction fuel as [|f IH]; intros old; cbn [push_rec]; lp. Qed.
  Lemma L_protect_loop r s k : forall fuel pcur, LibP (protect_loop fuel r s k pcur).
  Proof. induction fuel as [|f IH]; intros pcur; cbn [protect_loop]; lp. Qed.
  Lemma L_wait_loop k v : forall fuel, LibP (wait_loop fuel k v).
  Proof. induction fuel as [|f IH]; cbn [wait_loop]; lp. Qed.

  Lemma L_ftd_go c r : forall fuel p,
    LibP ((fix go (fuel : nat) (p : option nat) : P unit :=
          match p with
          | None => ret tt
          | Some b =>
              match fuel with
              | O => fuel_out
              | Datatypes.S f =>
                  nx <- loc (fun g => (g, rb_next (grb g b))) ;;
                  rt_free c b ;;;
                  loc (fun g => (upd_rec g r (fun x => rs_ret (r_cb x) (r_cc x) (r_head x) (r_tail x) (pred (r_bcount x)) x), tt)) ;;;
                  go f nx
              end
          end) fuel p).
  Proof. induction fuel as [|f IH]; intros [b|]; lp. Qed.

  Lemma L_rsp v : LibP (rsp v).
  Proof. unfold rsp. lp. Qed.
  Lemma L_skip : LibP skip.
  Proof. unfold skip. lp. Qed.
End Generic.

#[local] Hint Resolve L_add_knowing L_fl_add L_fl_put L_fl_get_loop L_fl_get L_link_guards L_hp_alloc L_hp_free L_rt_alloc L_rt_free
  L_hp_extend L_hp_galloc L_hp_gfree L_clear_slots L_free_gblocks L_hp_clear L_rt_init L_free_rblocks L_rt_fini L_rt_extend
  L_copy_hazards L_scan_blocks L_scan_recs L_push_rec L_protect_loop L_wait_loop L_ftd_go L_rsp L_skip : pdb.

(** ** smr::scan: from any scan field; afterwards the thread is outside scan, or its program has ended *)
Definition QN {Y} : option Y -> option nat -> Prop := fun r l' => r = None \/ l' = None.

Lemma seqO {X Y} t (p : P X) (q : X -> P Y) l :
  LibG PT p -> (forall x, dsafeO t (q x) l QN) -> dsafeO t (xbind p q) l QN.
Proof.
  intros Hp Hq. unfold xbind. apply dsafe_bind. eapply dsafe_weaken; [|apply Hp; exact I].
  intros [x|] l' [K|K]; try discriminate; cbn beta iota.
  - subst l'. apply Hq.
  - cbn. left. reflexivity.
  - cbn. left. reflexivity.
Qed.
Lemma seq_emitU {Y} t es (q : unit -> P Y) l :
  Forall (fun e => guardedb e = false) es -> (forall l', dsafeO t (q tt) l' QN) -> dsafeO t (xbind (emit es) q) l QN.
Proof.
  intros Hq Hk. unfold xbind, emit. cbn [dbind]. apply dsafeO_emit. intros g a tr Hi Hv.
  split; [eapply InvO_ung; eauto|apply Hk].
Qed.

Lemma ung_dispose ps : Forall (fun e => guardedb e = false) (map ev_dispose ps).
Proof. induction ps; constructor; auto. Qed.

Lemma scan_QN c r t l : dsafeO t (Dhp.scan c r) l QN.
Proof.
  unfold Dhp.scan.
  apply seqO; [lp|intros _].
  apply seq_emitU; [repeat constructor|intros l1].
  apply seqO; [lp|intros h].
  apply seqO; [apply L_scan_recs|intros pl].
  apply seqO; [lp|intros x].
  apply seq_emitU; [apply ung_dispose|intros l2].
  apply seqO; [destruct (snd x); lp|intros _].
  unfold emit. apply dsafeO_emit. intros g a tr Hi Hv.
  split; [eapply InvO_ung; [exact Hi|repeat constructor]|].
  cbn [dsafe]. right. unfold viewO. cbn [Conc.tag map fold_left]. rewrite scan_hstep. cbn [fst snd]. rewrite classify_scane.
  now rewrite Nat.eqb_refl.
Qed.

Lemma L_scan c r : LibG PN (Dhp.scan c r).
Proof.
  intros t l Hl. unfold PN in Hl. subst l. eapply dsafe_weaken; [|apply scan_QN]. intros x l' K. exact K.
Qed.
#[local] Hint Resolve L_scan : pdb.

(** ** the programs that call scan or touch thread_id_: from outside scan *)
Notation LibN := (LibG PN).

Lemma L_move_cells c me b : forall n i, LibN (move_cells c me b i n).
Proof. induction n as [|n IH]; intros i; cbn [move_cells]; lp. Qed.
#[local] Hint Resolve L_move_cells : pdb.
Lemma L_move_blocks c me src : forall fuel block, LibN (move_blocks c fuel me src block).
Proof. induction fuel as [|f IH]; intros [b|]; cbn [move_blocks]; lp. Qed.
#[local] Hint Resolve L_move_blocks : pdb.
Lemma L_help_recs c me mytid : forall fuel node, LibN (help_recs c fuel me mytid node).
Proof. induction fuel as [|f IH]; intros [h|]; cbn [help_recs]; lp. Qed.
#[local] Hint Resolve L_help_recs : pdb.
Lemma L_help_scan c me mytid : LibN (help_scan c me mytid).
Proof. unfold help_scan. lp. Qed.
#[local] Hint Resolve L_help_scan : pdb.
Lemma L_reuse_recs mytid : forall fuel node, LibN (reuse_recs fuel mytid node).
Proof. induction fuel as [|f IH]; intros [h|]; cbn [reuse_recs]; lp. Qed.
#[local] Hint Resolve L_reuse_recs : pdb.
Lemma L_alloc_thread_data c mytid : LibN (alloc_thread_data c mytid).
Proof. unfold alloc_thread_data. lp. Qed.
#[local] Hint Resolve L_alloc_thread_data : pdb.
Lemma L_free_thread_data c r mytid help det : Forall (fun e => neutralb e = true) det -> LibN (free_thread_data c r mytid help det).
Proof. intros Hd. unfold free_thread_data. lp. Qed.

(** ** the client operations and whole threads *)
Lemma L_inv code args : LibN (inv code args).
Proof.
  unfold inv. apply LibG_emit_ok. intros l Hl. constructor; [|constructor]. split; [reflexivity|intros _; exact Hl].
Qed.
#[local] Hint Resolve L_inv : pdb.

Lemma L_run_op c t L o : LibN (run_op c t L o).
Proof.
  destruct o as [| |j|j|j p|j|j k|k p|p| |k v]; cbn [run_op]; lp;
    try (apply L_free_thread_data; repeat constructor).
Qed.
#[local] Hint Resolve L_run_op : pdb.

Lemma L_run_ops c t : forall os L, LibN (run_ops c t L os).
Proof. induction os as [|o os IH]; intros L; cbn [run_ops]; lp. Qed.

Lemma spec_threadO c t os : dsafeO t (thread_src c t os) None (fun _ _ => True).
Proof.
  unfold thread_src. apply dsafeO_act. intros g a tr Hi Hv.
  assert (Hq : Forall (okev (scan a t)) (snd (a_begin g))) by (eapply Forall_impl; [|apply n_begin]; intros e; apply neutral_okev).
  destruct (InvO_ok g (fst (fst (a_begin g))) a tr t (snd (a_begin g)) Hi Hq) as (K1 & K2).
  split; [exact K1|]. unfold viewO in *. rewrite K2, Hv. cbn [a_begin fst snd]. unfold to_unit.
  apply dsafe_bind. eapply dsafe_weaken; [|apply (L_run_ops c t os (mkL None []) t None); reflexivity].
  intros r l' _. exact I.
Qed.

Lemma cfg_ok_initO fuel c ths : Conc.cfg_ok viewO InvO (init_cfg fuel c ths).
Proof.
  exists h0. split.
  - cbn. split; [reflexivity|]. intros v t e Hn. destruct v; discriminate.
  - intros t p Hp. unfold init_cfg in Hp. cbn [Conc.threads] in Hp. rewrite nth_error_map in Hp.
    destruct (nth_error (combine (seq 0 (List.length ths)) ths) t) as [[t' os]|] eqn:E; [|discriminate].
    cbn in Hp. inversion Hp; subst p. apply nth_error_combine_seq in E. cbn in E. subst t'.
    apply compile_safe. apply spec_threadO.
Qed.

(** ** what holds in every reachable configuration *)
Theorem dhp_TO : forall fuel c ths conf, Conc.reach (init_cfg fuel c ths) conf -> TO (Conc.trace conf).
Proof.
  intros fuel c ths conf Hr. destruct (Conc.reach_Inv (cfg_ok_initO fuel c ths) Hr) as (a & _ & Ht). exact Ht.
Qed.
