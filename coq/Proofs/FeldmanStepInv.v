(** * Invariant of the step-grain Feldman model (LV.Model.Feldman): every item sits on the path of its hash.

    Ghost state: [pfx a = Some (o, pre)]: array node [a] is linked into the tree, indexing into it consumes the hash bits
    [o .. o + bits_of a), and every hash stored below it has [pre] as its low [o] bits.  A thread that won the
    first CAS of expand_slot owns a pending (unlinked) array node.  This file: arithmetic of [cut], the invariant,
    and one preservation lemma per kind of shared-memory access. *)
From Coq Require Import ZArith NArith List Bool Arith PeanoNat Lia.
From LV Require Import Base.Conc Base.Events Model.Feldman.
Import ListNotations.

Set Implicit Arguments.

(** ** arithmetic of number_splitter::cut *)
Lemma pow2_pos n : (0 < 2 ^ n)%N.
Proof. apply N.neq_0_lt_0. apply N.pow_nonzero. discriminate. Qed.

Lemma pow2_add (a b : nat) : (2 ^ N.of_nat (a + b) = 2 ^ N.of_nat a * 2 ^ N.of_nat b)%N.
Proof. rewrite Nat2N.inj_add. apply N.pow_add_r. Qed.

Lemma mod_extend (h : N) (o b : nat) :
  (h mod 2 ^ N.of_nat (o + b) = h mod 2 ^ N.of_nat o + ((h / 2 ^ N.of_nat o) mod 2 ^ N.of_nat b) * 2 ^ N.of_nat o)%N.
Proof.
  rewrite pow2_add. rewrite N.mod_mul_r; try (apply N.pow_nonzero; discriminate). lia.
Qed.

Lemma decompose (pre pre' i i' m : N) :
  (pre < m)%N -> (pre' < m)%N -> (pre + i * m = pre' + i' * m)%N -> pre = pre' /\ i = i'.
Proof.
  intros H1 H2 E.
  assert (Hm : m <> 0%N) by lia.
  assert (E1 : ((pre + i * m) mod m = pre)%N) by (rewrite N.mod_add by exact Hm; apply N.mod_small; exact H1).
  assert (E2 : ((pre' + i' * m) mod m = pre')%N) by (rewrite N.mod_add by exact Hm; apply N.mod_small; exact H2).
  assert (D1 : ((pre + i * m) / m = i)%N) by (rewrite N.div_add by exact Hm; rewrite N.div_small by exact H1; lia).
  assert (D2 : ((pre' + i' * m) / m = i')%N) by (rewrite N.div_add by exact Hm; rewrite N.div_small by exact H2; lia).
  rewrite E in E1, D1. split; congruence.
Qed.

Section Inv.
  Variables (hbits abits W : nat) (hs : list N).
  Hypothesis Hh : 0 < hbits.
  Hypothesis Ha : 0 < abits.

  Notation hash := (Feldman.hash hs).
  Notation cut := Feldman.cut.
  Notation bits_of := (Feldman.bits_of hbits abits).

  Lemma cut_N h o b : N.of_nat (cut h o b) = ((h / 2 ^ N.of_nat o) mod 2 ^ N.of_nat b)%N.
  Proof. unfold Feldman.cut. apply N2Nat.id. Qed.

  Lemma cut_lt h o b : (N.of_nat (cut h o b) < 2 ^ N.of_nat b)%N.
  Proof. rewrite cut_N. apply N.mod_lt. apply N.pow_nonzero. discriminate. Qed.

  Lemma bits_pos a : 0 < bits_of a.
  Proof. unfold Feldman.bits_of. destruct (Nat.eqb a 0); assumption. Qed.

  (** the prefix of a child array *)
  Definition child (o : nat) (pre : N) (b i : nat) : nat * N := (o + b, (pre + N.of_nat i * 2 ^ N.of_nat o)%N).

  Lemma child_fits h o b :
    child o (h mod 2 ^ N.of_nat o)%N b (cut h o b) = (o + b, (h mod 2 ^ N.of_nat (o + b))%N).
  Proof. unfold child. f_equal. rewrite mod_extend, cut_N. reflexivity. Qed.

  (** ** ghost state *)
  Inductive phase := PIdle | PConv (a i p n : nat) | PStored (a i p n : nat).

  (** what a thread knows: its expand phase, the prefix of one linked array, the key of one item it saw in a slot
      ([kit] = 0: nothing), the key of the item it created itself ([kid] = 0: none), and the prefixes of further linked
      arrays ([kstk]: the array nodes on the descent stack of an iterator, LV.Model.FeldmanIter; unused by the set operations) *)
  Record L := mkL { ph : phase; ka : nat; ko : nat; kpre : N; kit : nat; kkey : nat; kid : nat; kidk : nat; kstk : list (nat * (nat * N)) }.
  Definition set_ph (l : L) (x : phase) : L := mkL x (ka l) (ko l) (kpre l) (kit l) (kkey l) (kid l) (kidk l) (kstk l).

  Record Aux := mkAux { pfx : nat -> option (nat * N); views : nat -> L }.

  Definition view (A : Aux) (t : nat) : L := views A t.

  Definition pending (l : L) (a i p n : nat) : Prop := ph l = PConv a i p n \/ ph l = PStored a i p n.

  (** item [p] of state [g] fits slot [i] of an array with prefix [(o, pre)] *)
  Definition fits (g : G) (a o : nat) (pre : N) (i p : nat) : Prop :=
    (hash (ikey g p) mod 2 ^ N.of_nat o)%N = pre /\ i = cut (hash (ikey g p)) o (bits_of a).

  Record Inv (g : G) (A : Aux) (tr : list (nat * ev)) : Prop := {
    i_head : pfx A 0 = Some (0, 0%N) /\ 1 <= narr g;
    i_lim : forall a o pre, pfx A a = Some (o, pre) ->
              a < narr g /\ (pre < 2 ^ N.of_nat o)%N /\ (a = 0 -> o = 0) /\ (a <> 0 -> hbits <= o);
    i_parent : forall a o pre, pfx A a = Some (o, pre) -> a <> 0 ->
              exists pa i po ppre, pfx A pa = Some (po, ppre) /\ arr g pa i = mkSlot a 2 /\
                                   (N.of_nat i < 2 ^ N.of_nat (bits_of pa))%N /\ (o, pre) = child po ppre (bits_of pa) i;
    i_child : forall pa po ppre i c, pfx A pa = Some (po, ppre) -> arr g pa i = mkSlot c 2 ->
              pfx A c = Some (child po ppre (bits_of pa) i) /\ (N.of_nat i < 2 ^ N.of_nat (bits_of pa))%N /\ c <> 0;
    i_data : forall a o pre i p b, pfx A a = Some (o, pre) -> arr g a i = mkSlot p b -> b <> 2 -> p <> 0 ->
              fits g a o pre i p /\ p <= nitem g /\ b <= 1;
    i_inj : forall a a' x, pfx A a = Some x -> pfx A a' = Some x -> a = a';
    i_arrslot : forall a i c b, arr g a i = mkSlot c b -> 2 <= b -> b = 2 /\ pfx A a <> None;
    i_pend : forall t a i p n, pending (views A t) a i p n ->
              arr g a i = mkSlot p 1 /\ pfx A n = None /\ n < narr g /\ n <> 0 /\ p <> 0 /\ pfx A a <> None;
    i_pend_conv : forall t a i p n, ph (views A t) = PConv a i p n -> forall j, arr g n j = snull;
    i_pend_stored : forall t a i p n, ph (views A t) = PStored a i p n ->
              exists o pre, pfx A a = Some (o, pre) /\
                forall j, arr g n j = if Nat.eqb j (cut (hash (ikey g p)) (o + bits_of a) abits) then mkSlot p 0 else snull;
    i_pend_uniq : forall t t' a i p n a' i' p' n', t <> t' -> pending (views A t) a i p n -> pending (views A t') a' i' p' n' ->
              n <> n' /\ (a, i) <> (a', i');
    i_unlinked : forall n, pfx A n = None -> (forall t a i p, ~ pending (views A t) a i p n) -> forall j, arr g n j = snull;
    i_known : forall t, pfx A (ka (views A t)) = Some (ko (views A t), kpre (views A t));
    i_items : forall t, (kit (views A t) <> 0 -> kit (views A t) <= nitem g /\ ikey g (kit (views A t)) = kkey (views A t)) /\
                        (kid (views A t) <> 0 -> kid (views A t) <= nitem g /\ ikey g (kid (views A t)) = kidk (views A t));
    i_stk : forall t n x, In (n, x) (kstk (views A t)) -> pfx A n = Some x
  }.

  (** ** updating ghost state *)
  Definition set_view (A : Aux) (t : nat) (l : L) : Aux :=
    mkAux (pfx A) (fun u => if Nat.eqb u t then l else views A u).
  Definition set_pfx (A : Aux) (n : nat) (x : nat * N) : Aux :=
    mkAux (fun a => if Nat.eqb a n then Some x else pfx A a) (views A).

  Lemma view_set_same A t l : view (set_view A t l) t = l.
  Proof. unfold view, set_view; cbn. now rewrite Nat.eqb_refl. Qed.
  Lemma view_set_other A t l u : u <> t -> view (set_view A t l) u = view A u.
  Proof. unfold view, set_view; cbn. intros H. destruct (Nat.eqb_spec u t); congruence. Qed.
  Lemma frame_set_view A t l : Conc.frame view t A (set_view A t l).
  Proof. intros u H. now apply view_set_other. Qed.
  Lemma frame_refl A t : Conc.frame view t A A.
  Proof. intros u H. reflexivity. Qed.
  Lemma frame_trans A B C t : Conc.frame view t A B -> Conc.frame view t B C -> Conc.frame view t A C.
  Proof. intros H1 H2 u Hu. rewrite (H2 u Hu). apply H1; exact Hu. Qed.

  Lemma slot_eqb_eq a b : slot_eqb a b = true <-> a = b.
  Proof.
    unfold slot_eqb. destruct a as [p1 b1], b as [p2 b2]; cbn. rewrite andb_true_iff, !Nat.eqb_eq.
    split; [intros [-> ->]; reflexivity | intros H; inversion H; auto].
  Qed.

  Lemma set_slot_same f a i s : set_slot f a i s a i = s.
  Proof. unfold set_slot. now rewrite !Nat.eqb_refl. Qed.
  Lemma set_slot_other f a i s a' i' : (a', i') <> (a, i) -> set_slot f a i s a' i' = f a' i'.
  Proof.
    unfold set_slot. intros H. destruct (Nat.eqb_spec a' a); destruct (Nat.eqb_spec i' i); cbn; auto. subst. congruence.
  Qed.
  Lemma set_slot_cases f a i s a' i' :
    ((a', i') = (a, i) /\ set_slot f a i s a' i' = s) \/ ((a', i') <> (a, i) /\ set_slot f a i s a' i' = f a' i').
  Proof.
    destruct (Nat.eq_dec a' a) as [->|N1]; [destruct (Nat.eq_dec i' i) as [->|N2]|].
    - left. split; [reflexivity|apply set_slot_same].
    - right. split; [congruence|apply set_slot_other; congruence].
    - right. split; [congruence|apply set_slot_other; congruence].
  Qed.

  (** the trace is irrelevant for this invariant *)
  Lemma Inv_trace g A tr tr' : Inv g A tr -> Inv g A tr'.
  Proof. intros []; constructor; assumption. Qed.

  Definition with_arr (g : G) (f : nat -> nat -> slot) : G := mkG f (narr g) (nitem g) (ikey g) (count g).

  (** accesses that do not touch slots: guards, sync counter, retired array, item counter *)
  Lemma Inv_count g A tr d : Inv g A tr -> Inv (mkG (arr g) (narr g) (nitem g) (ikey g) (count g + d)%Z) A tr.
  Proof. intros []; constructor; assumption. Qed.

  (** a new item identity (guards.assign( 1, &val )) *)
  Lemma Inv_new_item g A tr k :
    Inv g A tr ->
    Inv (mkG (arr g) (narr g) (S (nitem g)) (fun x => if Nat.eqb x (S (nitem g)) then k else ikey g x) (count g)) A tr.
  Proof.
    intros I. destruct I. constructor; cbn [arr narr nitem ikey]; auto.
    - intros a o pre i p b Hp Hs Hb Hn. destruct (i_data0 a o pre i p b Hp Hs Hb Hn) as (F & Hle & Hb1).
      split; [|split; [lia|exact Hb1]]. unfold fits in *; cbn [ikey].
      destruct (Nat.eqb_spec p (S (nitem g))); [lia|exact F].
    - intros t a i p n Hph. destruct (i_pend_stored0 t a i p n Hph) as (o & pre & Hp & Hj).
      exists o, pre. split; [exact Hp|]. intros j. rewrite Hj.
      assert (Hpl : p <= nitem g).
      { destruct (i_pend0 t a i p n (or_intror Hph)) as (Hs & _ & _ & _ & Hp0 & _).
        destruct (i_data0 a o pre i p 1 Hp Hs ltac:(discriminate) Hp0) as (_ & Hle & _). exact Hle. }
      destruct (Nat.eqb_spec p (S (nitem g))); [lia|reflexivity].
    - intros t. destruct (i_items0 t) as [H1 H2]. split; intros H; [destruct (H1 H) as [K1 K2]|destruct (H2 H) as [K1 K2]];
        (split; [lia|]); match goal with |- (if ?c then _ else _) = _ => destruct c eqn:E end; try exact K2;
        apply Nat.eqb_eq in E; lia.
  Qed.

  (** changing only what a thread knows (which linked array it is looking at) *)
  Definition know (l : L) (a o : nat) (pre : N) : L := mkL (ph l) a o pre (kit l) (kkey l) (kid l) (kidk l) (kstk l).

  Lemma pending_know l a o pre a' i p n : pending (know l a o pre) a' i p n <-> pending l a' i p n.
  Proof. unfold pending, know; cbn. tauto. Qed.

  Lemma Inv_know g A tr t a o pre :
    Inv g A tr -> pfx A a = Some (o, pre) -> Inv g (set_view A t (know (views A t) a o pre)) tr.
  Proof.
    intros I Hp. destruct I.
    assert (PV : forall u a' i p n, pending (views (set_view A t (know (views A t) a o pre)) u) a' i p n -> pending (views A u) a' i p n).
    { intros u a' i p n. cbn. destruct (Nat.eqb_spec u t) as [->|]; [apply pending_know|auto]. }
    assert (PH : forall u, ph (views (set_view A t (know (views A t) a o pre)) u) = ph (views A u)).
    { intros u. cbn. destruct (Nat.eqb_spec u t) as [->|]; reflexivity. }
    constructor; cbn [pfx set_view]; auto.
    - intros u a' i p n H. apply (i_pend0 u); apply PV; exact H.
    - intros u a' i p n H. apply (i_pend_conv0 u a' i p). rewrite <- PH. exact H.
    - intros u a' i p n H. apply (i_pend_stored0 u a' i p). rewrite <- PH. exact H.
    - intros u u' a1 i1 p1 n1 a2 i2 p2 n2 Hne H1 H2. eapply (i_pend_uniq0 u u'); [exact Hne|apply PV; exact H1|apply PV; exact H2].
    - intros n Hn Hnp. apply i_unlinked0; [exact Hn|]. intros u a' i p Hpd. apply (Hnp u a' i p).
      cbn. destruct (Nat.eqb_spec u t) as [->|]; [apply pending_know|]; exact Hpd.
    - intros u. cbn. destruct (Nat.eqb_spec u t) as [->|]; [cbn; exact Hp|apply i_known0].
    - intros u. cbn. destruct (Nat.eqb_spec u t) as [->|]; [cbn|]; apply i_items0.
    - intros u m x Hm. cbn in Hm. destruct (Nat.eqb_spec u t) as [->|]; [cbn in Hm|]; eapply i_stk0; exact Hm.
  Qed.

  (** a CAS that changes a data slot of a linked array: insert (null -> q), replace (p -> q, same hash), erase (p -> null) *)
  Lemma Inv_data_cas g A tr a i p q o pre :
    Inv g A tr -> arr g a i = mkSlot p 0 -> pfx A a = Some (o, pre) ->
    (q = 0 \/ (fits g a o pre i q /\ q <= nitem g)) ->
    Inv (with_arr g (set_slot (arr g) a i (mkSlot q 0))) A tr.
  Proof.
    intros I Hs Hp Hq. destruct I.
    assert (NP : forall n, pfx A n = None -> n <> a) by (intros n Hn ->; congruence).
    constructor; cbn [arr narr nitem ikey with_arr]; auto.
    - intros a0 o0 pre0 H0 Hn0. destruct (i_parent0 a0 o0 pre0 H0 Hn0) as (pa & i' & po & ppre & H1 & H2 & H3 & H4).
      exists pa, i', po, ppre. repeat split; auto. rewrite set_slot_other; [exact H2|]. intros E; inversion E; subst. congruence.
    - intros pa po ppre i' c H1 H2. destruct (set_slot_cases (arr g) a i (mkSlot q 0) pa i') as [[E Hv]|[E Hv]]; rewrite Hv in H2.
      + discriminate.
      + eapply i_child0; eauto.
    - intros a0 o0 pre0 i0 p0 b0 H1 H2 Hb Hn. destruct (set_slot_cases (arr g) a i (mkSlot q 0) a0 i0) as [[E Hv]|[E Hv]]; rewrite Hv in H2.
      + inversion E; subst a0 i0. inversion H2; subst p0 b0. rewrite Hp in H1; inversion H1; subst o0 pre0.
        destruct Hq as [->|[F Hle]]; [congruence|]. repeat split; auto; apply F.
      + eapply i_data0; eauto.
    - intros a0 i0 c b H1 Hb. destruct (set_slot_cases (arr g) a i (mkSlot q 0) a0 i0) as [[E Hv]|[E Hv]]; rewrite Hv in H1.
      + inversion H1; subst. lia.
      + eapply i_arrslot0; eauto.
    - intros t a0 i0 p0 n H. destruct (i_pend0 t a0 i0 p0 n H) as (H1 & H2 & H3 & H4 & H5 & H6). repeat split; auto.
      rewrite set_slot_other; [exact H1|]. intros E; inversion E; subst. congruence.
    - intros t a0 i0 p0 n H j. destruct (i_pend0 t a0 i0 p0 n (or_introl H)) as (_ & H2 & _).
      rewrite set_slot_other; [eapply i_pend_conv0; eauto|]. intros E; inversion E; subst. eapply NP; eauto.
    - intros t a0 i0 p0 n H. destruct (i_pend_stored0 t a0 i0 p0 n H) as (o0 & pre0 & H1 & H2).
      destruct (i_pend0 t a0 i0 p0 n (or_intror H)) as (_ & H3 & _).
      exists o0, pre0. split; [exact H1|]. intros j. rewrite set_slot_other; [apply H2|]. intros E; inversion E; subst. eapply NP; eauto.
    - intros n Hn Hnp j. rewrite set_slot_other; [eapply i_unlinked0; eauto|]. intros E; inversion E; subst. eapply NP; eauto.
  Qed.

  (** first CAS of expand_slot won by thread [t]: data -> converting; the array node [narr g] becomes [t]'s pending node *)
  Lemma Inv_conv g A tr t a i p o pre :
    Inv g A tr -> arr g a i = mkSlot p 0 -> p <> 0 -> pfx A a = Some (o, pre) -> ph (views A t) = PIdle ->
    Inv (mkG (set_slot (arr g) a i (mkSlot p 1)) (S (narr g)) (nitem g) (ikey g) (count g))
        (set_view A t (set_ph (views A t) (PConv a i p (narr g)))) tr.
  Proof.
    intros I Hs Hp0 Hp Hidle. destruct I.
    set (n := narr g). set (A' := set_view A t _).
    assert (NP : forall m, pfx A m = None -> m <> a) by (intros m Hm ->; congruence).
    assert (Hn_none : pfx A n = None).
    { destruct (pfx A n) as [[o1 pre1]|] eqn:E; [|reflexivity]. destruct (i_lim0 n o1 pre1 E) as (Hlt & _). unfold n in Hlt. lia. }
    assert (PO : forall u a0 i0 p0 n0, u <> t -> pending (views A' u) a0 i0 p0 n0 -> pending (views A u) a0 i0 p0 n0).
    { intros u a0 i0 p0 n0 Hu. unfold A'; cbn. destruct (Nat.eqb_spec u t); [congruence|auto]. }
    assert (PT : forall a0 i0 p0 n0, pending (views A' t) a0 i0 p0 n0 -> (a0, i0, p0, n0) = (a, i, p, n)).
    { intros a0 i0 p0 n0. unfold A', pending; cbn. rewrite Nat.eqb_refl; cbn. intros [H|H]; inversion H; reflexivity. }
    assert (OLD : forall u a0 i0 p0 n0, pending (views A u) a0 i0 p0 n0 -> u <> t /\ n0 < n /\ (a0, i0) <> (a, i)).
    { intros u a0 i0 p0 n0 H. destruct (i_pend0 u a0 i0 p0 n0 H) as (H1 & _ & H3 & _). repeat split; auto.
      - intros ->. unfold pending in H. rewrite Hidle in H. destruct H; discriminate.
      - intros E; inversion E; subst. congruence. }
    constructor; cbn [arr narr nitem ikey pfx]; auto.
    - destruct i_head0; split; auto.
    - intros a0 o0 pre0 H. destruct (i_lim0 a0 o0 pre0 H) as (H1 & H2). split; [lia|exact H2].
    - intros a0 o0 pre0 H0 Hn0. destruct (i_parent0 a0 o0 pre0 H0 Hn0) as (pa & i' & po & ppre & H1 & H2 & H3 & H4).
      exists pa, i', po, ppre. repeat split; auto. rewrite set_slot_other; [exact H2|]. intros E; inversion E; subst. congruence.
    - intros pa po ppre i' c H1 H2. destruct (set_slot_cases (arr g) a i (mkSlot p 1) pa i') as [[E Hv]|[E Hv]]; rewrite Hv in H2.
      + discriminate.
      + eapply i_child0; eauto.
    - intros a0 o0 pre0 i0 p0 b0 H1 H2 Hb Hn. destruct (set_slot_cases (arr g) a i (mkSlot p 1) a0 i0) as [[E Hv]|[E Hv]]; rewrite Hv in H2.
      + inversion E; subst a0 i0. inversion H2; subst p0 b0.
        destruct (i_data0 a o0 pre0 i p 0 H1 Hs ltac:(discriminate) Hp0) as (F & Hle & _). repeat split; auto; apply F.
      + eapply i_data0; eauto.
    - intros a0 i0 c b H1 Hb. destruct (set_slot_cases (arr g) a i (mkSlot p 1) a0 i0) as [[E Hv]|[E Hv]]; rewrite Hv in H1.
      + inversion H1; subst. lia.
      + eapply i_arrslot0; eauto.
    - intros u a0 i0 p0 n0 H. destruct (Nat.eq_dec u t) as [->|Hu].
      + apply PT in H. inversion H; subst a0 i0 p0 n0. rewrite set_slot_same.
        destruct i_head0 as [_ Hn1]. repeat split; auto; try (unfold n; lia); try congruence; try (unfold A'; cbn; congruence).
      + apply PO in H; [|exact Hu]. destruct (OLD _ _ _ _ _ H) as (_ & Hlt & Hne).
        destruct (i_pend0 u a0 i0 p0 n0 H) as (H1 & H2 & H3 & H4 & H5 & H6). repeat split; auto.
        rewrite set_slot_other; [exact H1|exact Hne].
    - intros u a0 i0 p0 n0 H j. destruct (Nat.eq_dec u t) as [->|Hu].
      + assert (Hpd : pending (views A' t) a0 i0 p0 n0) by (left; exact H). apply PT in Hpd. inversion Hpd; subst a0 i0 p0 n0.
        rewrite set_slot_other; [|intros E; inversion E; subst; eapply NP; eauto].
        apply i_unlinked0; [exact Hn_none|]. intros u a1 i1 p1 Hpd1. destruct (OLD _ _ _ _ _ Hpd1) as (_ & Hlt & _). lia.
      + assert (Hph : ph (views A u) = PConv a0 i0 p0 n0).
        { revert H. unfold A'; cbn. destruct (Nat.eqb_spec u t); [congruence|auto]. }
        destruct (i_pend0 u a0 i0 p0 n0 (or_introl Hph)) as (_ & H2 & _).
        rewrite set_slot_other; [eapply i_pend_conv0; eauto|]. intros E; inversion E; subst. eapply NP; eauto.
    - intros u a0 i0 p0 n0 H. destruct (Nat.eq_dec u t) as [->|Hu].
      + exfalso. revert H. unfold A'; cbn. rewrite Nat.eqb_refl; cbn. discriminate.
      + assert (Hph : ph (views A u) = PStored a0 i0 p0 n0).
        { revert H. unfold A'; cbn. destruct (Nat.eqb_spec u t); [congruence|auto]. }
        destruct (i_pend_stored0 u a0 i0 p0 n0 Hph) as (o0 & pre0 & H1 & H2).
        destruct (i_pend0 u a0 i0 p0 n0 (or_intror Hph)) as (_ & H3 & _).
        exists o0, pre0. split; [exact H1|]. intros j. rewrite set_slot_other; [apply H2|]. intros E; inversion E; subst. eapply NP; eauto.
    - intros u u' a1 i1 p1 n1 a2 i2 p2 n2 Hne H1 H2.
      destruct (Nat.eq_dec u t) as [->|Hu]; destruct (Nat.eq_dec u' t) as [->|Hu']; try congruence.
      + apply PT in H1. inversion H1; subst. apply PO in H2; [|exact Hu']. destruct (OLD _ _ _ _ _ H2) as (_ & Hlt & Hn2).
        split; [unfold n in *; lia|congruence].
      + apply PT in H2. inversion H2; subst. apply PO in H1; [|exact Hu]. destruct (OLD _ _ _ _ _ H1) as (_ & Hlt & Hn1).
        split; [unfold n in *; lia|exact Hn1].
      + apply PO in H1; [|exact Hu]. apply PO in H2; [|exact Hu']. eapply (i_pend_uniq0 u u'); eauto.
    - intros n0 Hn0 Hnp j.
      assert (n0 <> n).
      { intros ->. apply (Hnp t a i p). left. unfold A'; cbn. rewrite Nat.eqb_refl. reflexivity. }
      rewrite set_slot_other; [|intros E; inversion E; subst; eapply NP; eauto].
      apply i_unlinked0; [exact Hn0|]. intros u a1 i1 p1 Hpd. destruct (OLD _ _ _ _ _ Hpd) as (Hu & _).
      apply (Hnp u a1 i1 p1). unfold A'; cbn. destruct (Nat.eqb_spec u t); [congruence|exact Hpd].
    - intros u. unfold A'; cbn. destruct (Nat.eqb_spec u t) as [->|]; [cbn|]; apply i_known0.
    - intros u. unfold A'; cbn [views set_view set_pfx]. destruct (Nat.eqb_spec u t) as [->|]; [cbn|]; apply i_items0.
    - intros u m x Hm. unfold A' in Hm; cbn in Hm. destruct (Nat.eqb_spec u t) as [->|]; [cbn in Hm|]; eapply i_stk0; exact Hm.
  Qed.

  (** the store of the moved item into the pending array node *)
  Lemma Inv_store g A tr t a i p n o pre :
    Inv g A tr -> ph (views A t) = PConv a i p n -> pfx A a = Some (o, pre) ->
    Inv (with_arr g (set_slot (arr g) n (cut (hash (ikey g p)) (o + bits_of a) abits) (mkSlot p 0)))
        (set_view A t (set_ph (views A t) (PStored a i p n))) tr.
  Proof.
    intros I Hph Hp. destruct I.
    set (idx := cut (hash (ikey g p)) (o + bits_of a) abits). set (A' := set_view A t _).
    destruct (i_pend0 t a i p n (or_introl Hph)) as (Hs & Hn_none & Hn_lt & Hn0 & Hp0 & _).
    assert (NL : forall m, pfx A m <> None -> m <> n) by (intros m Hm ->; congruence).
    assert (PO : forall u a0 i0 p0 n0, u <> t -> pending (views A' u) a0 i0 p0 n0 -> pending (views A u) a0 i0 p0 n0).
    { intros u a0 i0 p0 n0 Hu. unfold A'; cbn. destruct (Nat.eqb_spec u t); [congruence|auto]. }
    assert (PT : forall a0 i0 p0 n0, pending (views A' t) a0 i0 p0 n0 -> (a0, i0, p0, n0) = (a, i, p, n)).
    { intros a0 i0 p0 n0. unfold A', pending; cbn. rewrite Nat.eqb_refl; cbn. intros [H|H]; inversion H; reflexivity. }
    assert (PA : forall u a0 i0 p0 n0, pending (views A' u) a0 i0 p0 n0 -> pending (views A u) a0 i0 p0 n0).
    { intros u a0 i0 p0 n0 H. destruct (Nat.eq_dec u t) as [->|Hu]; [|apply PO; auto].
      apply PT in H. inversion H; subst. left; exact Hph. }
    assert (OTH : forall a0 i0, pfx A a0 <> None -> set_slot (arr g) n idx (mkSlot p 0) a0 i0 = arr g a0 i0).
    { intros a0 i0 H. apply set_slot_other. intros E; inversion E; subst. eapply NL; eauto. }
    constructor; change (pfx A') with (pfx A); cbn [arr narr nitem ikey pfx with_arr]; auto.
    - intros a0 o0 pre0 H0 Hn00. destruct (i_parent0 a0 o0 pre0 H0 Hn00) as (pa & i' & po & ppre & H1 & H2 & H3 & H4).
      exists pa, i', po, ppre. repeat split; auto. rewrite OTH; [exact H2|congruence].
    - intros pa po ppre i' c H1 H2. rewrite OTH in H2 by congruence. eapply i_child0; eauto.
    - intros a0 o0 pre0 i0 p0 b0 H1 H2 Hb Hn. rewrite OTH in H2 by congruence. eapply i_data0; eauto.
    - intros a0 i0 c b H1 Hb. destruct (set_slot_cases (arr g) n idx (mkSlot p 0) a0 i0) as [[E Hv]|[E Hv]]; rewrite Hv in H1.
      + inversion H1; subst. lia.
      + eapply i_arrslot0; eauto.
    - intros u a0 i0 p0 n0 H. apply PA in H. destruct (i_pend0 u a0 i0 p0 n0 H) as (H1 & H2 & H3 & H4 & H5 & H6).
      repeat split; auto. rewrite OTH; auto.
    - intros u a0 i0 p0 n0 H j. destruct (Nat.eq_dec u t) as [->|Hu].
      + exfalso. revert H. unfold A'; cbn. rewrite Nat.eqb_refl; cbn. discriminate.
      + assert (Hph' : ph (views A u) = PConv a0 i0 p0 n0).
        { revert H. unfold A'; cbn. destruct (Nat.eqb_spec u t); [congruence|auto]. }
        destruct (i_pend_uniq0 u t a0 i0 p0 n0 a i p n Hu (or_introl Hph') (or_introl Hph)) as (Hnn & _).
        rewrite set_slot_other; [eapply i_pend_conv0; eauto|]. intros E; inversion E; subst. congruence.
    - intros u a0 i0 p0 n0 H. destruct (Nat.eq_dec u t) as [->|Hu].
      + assert (Hpd : pending (views A' t) a0 i0 p0 n0) by (right; exact H). apply PT in Hpd. inversion Hpd; subst a0 i0 p0 n0.
        exists o, pre. split; [exact Hp|]. intros j. fold idx.
        destruct (Nat.eqb_spec j idx) as [->|Hj].
        * apply set_slot_same.
        * rewrite set_slot_other; [eapply i_pend_conv0; eauto|]. intros E; inversion E; subst. congruence.
      + assert (Hph' : ph (views A u) = PStored a0 i0 p0 n0).
        { revert H. unfold A'; cbn. destruct (Nat.eqb_spec u t); [congruence|auto]. }
        destruct (i_pend_uniq0 u t a0 i0 p0 n0 a i p n Hu (or_intror Hph') (or_introl Hph)) as (Hnn & _).
        destruct (i_pend_stored0 u a0 i0 p0 n0 Hph') as (o0 & pre0 & H1 & H2).
        exists o0, pre0. split; [exact H1|]. intros j. rewrite set_slot_other; [apply H2|]. intros E; inversion E; subst. congruence.
    - intros u u' a1 i1 p1 n1 a2 i2 p2 n2 Hne H1 H2. apply PA in H1. apply PA in H2. eapply (i_pend_uniq0 u u'); eauto.
    - intros n0 Hn00 Hnp j.
      assert (n0 <> n).
      { intros ->. apply (Hnp t a i p). right. unfold A'; cbn. rewrite Nat.eqb_refl. reflexivity. }
      rewrite set_slot_other; [|intros E; inversion E; subst; congruence].
      apply i_unlinked0; [exact Hn00|]. intros u a1 i1 p1 Hpd.
      destruct (Nat.eq_dec u t) as [->|Hu].
      + unfold pending in Hpd. rewrite Hph in Hpd. destruct Hpd as [E|E]; inversion E; subst. congruence.
      + apply (Hnp u a1 i1 p1). unfold A'; cbn. destruct (Nat.eqb_spec u t); [congruence|exact Hpd].
    - intros u. unfold A'; cbn. destruct (Nat.eqb_spec u t) as [->|]; [cbn|]; apply i_known0.
    - intros u. unfold A'; cbn [views set_view set_pfx]. destruct (Nat.eqb_spec u t) as [->|]; [cbn|]; apply i_items0.
    - intros u m x Hm. unfold A' in Hm; cbn in Hm. destruct (Nat.eqb_spec u t) as [->|]; [cbn in Hm|]; eapply i_stk0; exact Hm.
  Qed.

  (** the second CAS of expand_slot: converting -> array node; the pending node becomes linked *)
  Lemma Inv_link g A tr t a i p n o pre :
    Inv g A tr -> ph (views A t) = PStored a i p n -> pfx A a = Some (o, pre) ->
    Inv (with_arr g (set_slot (arr g) a i (mkSlot n 2)))
        (set_view (set_pfx A n (child o pre (bits_of a) i)) t (set_ph (views A t) PIdle)) tr.
  Proof.
    intros I Hph Hp. destruct I.
    set (A' := set_view _ t _).
    destruct (i_pend0 t a i p n (or_intror Hph)) as (Hs & Hn_none & Hn_lt & Hn0 & Hp0 & _).
    destruct (i_data0 a o pre i p 1 Hp Hs ltac:(discriminate) Hp0) as ((F1 & F2) & Hple & _).
    destruct (i_lim0 a o pre Hp) as (Ha_lt & Hpre_lt & Ha0 & Han0).
    assert (Hi_lt : (N.of_nat i < 2 ^ N.of_nat (bits_of a))%N) by (rewrite F2; apply cut_lt).
    destruct (i_pend_stored0 t a i p n Hph) as (o' & pre' & Hp' & Hcont). rewrite Hp in Hp'. inversion Hp'; subst o' pre'. clear Hp'.
    assert (Hna : n <> a) by (intros ->; congruence).
    assert (PFX : forall m, pfx A' m = if Nat.eqb m n then Some (child o pre (bits_of a) i) else pfx A m) by reflexivity.
    assert (PFXo : forall m, m <> n -> pfx A' m = pfx A m).
    { intros m Hm. rewrite PFX. destruct (Nat.eqb_spec m n); congruence. }
    assert (PFXs : forall m x, pfx A m = Some x -> pfx A' m = Some x).
    { intros m x Hm. rewrite PFXo; [exact Hm|]. intros ->. congruence. }
    assert (PO : forall u a0 i0 p0 n0, pending (views A' u) a0 i0 p0 n0 -> u <> t /\ pending (views A u) a0 i0 p0 n0).
    { intros u a0 i0 p0 n0. unfold A', pending; cbn. destruct (Nat.eqb_spec u t) as [->|Hu]; cbn; [intros [H|H]; discriminate|auto]. }
    assert (OTH : forall u a0 i0 p0 n0, u <> t -> pending (views A u) a0 i0 p0 n0 -> n0 <> n /\ (a0, i0) <> (a, i)).
    { intros u a0 i0 p0 n0 Hu H. eapply (i_pend_uniq0 u t); eauto. right; exact Hph. }
    assert (NSL : forall j c, arr g n j <> mkSlot c 2).
    { intros j c. rewrite Hcont. destruct (Nat.eqb j _); discriminate. }
    assert (CH_lt : (snd (child o pre (bits_of a) i) < 2 ^ N.of_nat (fst (child o pre (bits_of a) i)))%N).
    { unfold child; cbn [fst snd]. rewrite pow2_add. nia. }
    constructor; cbn [arr narr nitem ikey with_arr]; auto.
    - destruct i_head0 as [H0 H1]. split; [apply PFXs; exact H0|exact H1].
    - intros a0 o0 pre0 H. rewrite PFX in H. destruct (Nat.eqb_spec a0 n) as [->|Hne].
      + inversion H; subst o0 pre0. split; [exact Hn_lt|]. split; [exact CH_lt|]. split; [congruence|].
        intros _. destruct (Nat.eq_dec a 0) as [->|Hz].
        * rewrite (Ha0 eq_refl). unfold Feldman.bits_of; cbn. lia.
        * specialize (Han0 Hz). lia.
      + apply i_lim0; exact H.
    - intros a0 o0 pre0 H Hz. rewrite PFX in H. destruct (Nat.eqb_spec a0 n) as [->|Hne].
      + inversion H; subst o0 pre0. exists a, i, o, pre. repeat split; auto. rewrite set_slot_same. reflexivity.
      + destruct (i_parent0 a0 o0 pre0 H Hz) as (pa & i' & po & ppre & H1 & H2 & H3 & H4).
        exists pa, i', po, ppre. repeat split; auto. rewrite set_slot_other; [exact H2|]. intros E; inversion E; subst. congruence.
    - intros pa po ppre i' c H1 H2. rewrite PFX in H1. destruct (Nat.eqb_spec pa n) as [->|Hne].
      + exfalso. rewrite set_slot_other in H2 by (intros E; inversion E; congruence). eapply NSL; eauto.
      + destruct (set_slot_cases (arr g) a i (mkSlot n 2) pa i') as [[E Hv]|[E Hv]]; rewrite Hv in H2.
        * inversion E; subst pa i'. inversion H2; subst c. rewrite Hp in H1. inversion H1; subst po ppre.
          rewrite PFX, Nat.eqb_refl. repeat split; auto.
        * destruct (i_child0 pa po ppre i' c H1 H2) as (K1 & K2 & K3). repeat split; auto.
    - intros a0 o0 pre0 i0 p0 b0 H1 H2 Hb Hn. rewrite PFX in H1. destruct (Nat.eqb_spec a0 n) as [->|Hne].
      + inversion H1; subst o0 pre0. rewrite set_slot_other in H2 by (intros E; inversion E; congruence).
        rewrite Hcont in H2. destruct (Nat.eqb_spec i0 (cut (hash (ikey g p)) (o + bits_of a) abits)) as [->|Hj]; [|inversion H2; congruence].
        inversion H2; subst p0 b0. split; [|split; [exact Hple|lia]]. unfold fits. split.
        * cbn [ikey with_arr]. rewrite mod_extend. rewrite F1. rewrite <- cut_N. rewrite <- F2. reflexivity.
        * unfold Feldman.bits_of. destruct (Nat.eqb_spec n 0); [congruence|reflexivity].
      + destruct (set_slot_cases (arr g) a i (mkSlot n 2) a0 i0) as [[E Hv]|[E Hv]]; rewrite Hv in H2.
        * inversion H2; congruence.
        * eapply i_data0; eauto.
    - (* injectivity *)
      intros a1 a2 x H1 H2. rewrite PFX in H1, H2.
      assert (KEY : forall a', pfx A a' = Some (child o pre (bits_of a) i) -> False).
      { intros a' Ha'. destruct (i_lim0 a' _ _ Ha') as (_ & _ & Hz & _).
        assert (a' <> 0). { intros ->. specialize (Hz eq_refl). pose proof (bits_pos a). lia. }
        destruct (i_parent0 a' _ _ Ha' H) as (pa & i' & po & ppre & K1 & K2 & K3 & K4).
        destruct (i_lim0 pa po ppre K1) as (_ & Kpre & Kz & Knz).
        unfold child in K4. inversion K4 as [[E1 E2]].
        assert (po = o /\ bits_of pa = bits_of a) as [-> Eb].
        { unfold Feldman.bits_of in *. destruct (Nat.eqb_spec pa 0) as [->|P0]; destruct (Nat.eqb_spec a 0) as [->|A0].
          - rewrite (Kz eq_refl), (Ha0 eq_refl). auto.
          - specialize (Kz eq_refl). specialize (Han0 A0). lia.
          - specialize (Ha0 eq_refl). specialize (Knz P0). lia.
          - lia. }
        destruct (decompose (N.of_nat i) (N.of_nat i') Hpre_lt Kpre E2) as [-> Ei]. apply Nat2N.inj in Ei. subst i'.
        assert (pa = a) by (eapply i_inj0; eauto). subst pa. congruence. }
      destruct (Nat.eqb_spec a1 n) as [->|N1]; destruct (Nat.eqb_spec a2 n) as [->|N2]; auto.
      + inversion H1; subst x. exfalso; eapply KEY; eauto.
      + inversion H2; subst x. exfalso; eapply KEY; eauto.
      + eapply i_inj0; eauto.
    - intros a0 i0 c b H1 Hb. destruct (set_slot_cases (arr g) a i (mkSlot n 2) a0 i0) as [[E Hv]|[E Hv]]; rewrite Hv in H1.
      + inversion E; subst. inversion H1; subst. split; [reflexivity|]. rewrite PFXo by auto. congruence.
      + destruct (i_arrslot0 a0 i0 c b H1 Hb) as (K1 & K2). split; [exact K1|]. rewrite PFX. destruct (Nat.eqb a0 n); [discriminate|exact K2].
    - intros u a0 i0 p0 n0 H. apply PO in H. destruct H as (Hu & H). destruct (OTH u a0 i0 p0 n0 Hu H) as (Hnn & Hai).
      destruct (i_pend0 u a0 i0 p0 n0 H) as (H1 & H2 & H3 & H4 & H5 & H6). repeat split; auto.
      + rewrite set_slot_other; auto.
      + rewrite PFXo; auto.
      + rewrite PFX. destruct (Nat.eqb a0 n); [discriminate|exact H6].
    - intros u a0 i0 p0 n0 H j.
      assert (Hpd : pending (views A' u) a0 i0 p0 n0) by (left; exact H). apply PO in Hpd. destruct Hpd as (Hu & Hpd).
      assert (Hph' : ph (views A u) = PConv a0 i0 p0 n0).
      { revert H. unfold A'; cbn. destruct (Nat.eqb_spec u t); [congruence|auto]. }
      destruct (i_pend0 u a0 i0 p0 n0 Hpd) as (_ & H2 & _).
      rewrite set_slot_other; [eapply i_pend_conv0; eauto|]. intros E; inversion E; subst. congruence.
    - intros u a0 i0 p0 n0 H.
      assert (Hpd : pending (views A' u) a0 i0 p0 n0) by (right; exact H). apply PO in Hpd. destruct Hpd as (Hu & Hpd).
      assert (Hph' : ph (views A u) = PStored a0 i0 p0 n0).
      { revert H. unfold A'; cbn. destruct (Nat.eqb_spec u t); [congruence|auto]. }
      destruct (i_pend_stored0 u a0 i0 p0 n0 Hph') as (o0 & pre0 & H1 & H2).
      destruct (i_pend0 u a0 i0 p0 n0 Hpd) as (_ & H3 & _).
      exists o0, pre0. split; [apply PFXs; exact H1|]. intros j. rewrite set_slot_other; [apply H2|]. intros E; inversion E; subst. congruence.
    - intros u u' a1 i1 p1 n1 a2 i2 p2 n2 Hne H1 H2. apply PO in H1. apply PO in H2. destruct H1, H2. eapply (i_pend_uniq0 u u'); eauto.
    - intros n0 Hn00 Hnp j. rewrite PFX in Hn00. destruct (Nat.eqb_spec n0 n) as [E0|Hne]; [discriminate|].
      rewrite set_slot_other; [|intros E; inversion E; subst; congruence].
      apply i_unlinked0; [exact Hn00|]. intros u a1 i1 p1 Hpd.
      destruct (Nat.eq_dec u t) as [->|Hu].
      + unfold pending in Hpd. rewrite Hph in Hpd. destruct Hpd as [E|E]; inversion E; subst. congruence.
      + apply (Hnp u a1 i1 p1). unfold A'; cbn. destruct (Nat.eqb_spec u t); [congruence|exact Hpd].
    - intros u. assert (K := i_known0 u). unfold A'; cbn [views set_view set_pfx]. destruct (Nat.eqb_spec u t) as [->|]; cbn [ka ko kpre].
      + apply PFXs. exact (i_known0 t).
      + apply PFXs. exact K.
    - intros u. unfold A'; cbn [views set_view set_pfx]. destruct (Nat.eqb_spec u t) as [->|]; [cbn|]; apply i_items0.
    - intros u m x Hm. apply PFXs. unfold A' in Hm; cbn in Hm. destruct (Nat.eqb_spec u t) as [->|]; [cbn in Hm|]; eapply i_stk0; exact Hm.
  Qed.

  (** remembering the key of an item seen in a slot of a linked array / of the item the thread created *)
  Definition know_item (l : L) (p k : nat) : L := mkL (ph l) (ka l) (ko l) (kpre l) p k (kid l) (kidk l) (kstk l).
  Definition know_id (l : L) (p k : nat) : L := mkL (ph l) (ka l) (ko l) (kpre l) (kit l) (kkey l) p k (kstk l).
  Definition push_stk (l : L) (n : nat) (x : nat * N) : L := mkL (ph l) (ka l) (ko l) (kpre l) (kit l) (kkey l) (kid l) (kidk l) ((n, x) :: kstk l).

  Lemma Inv_view_gen g A tr t l :
    Inv g A tr -> ph l = ph (views A t) -> ka l = ka (views A t) -> ko l = ko (views A t) -> kpre l = kpre (views A t) ->
    (forall n x, In (n, x) (kstk l) -> pfx A n = Some x) ->
    ((kit l <> 0 -> kit l <= nitem g /\ ikey g (kit l) = kkey l) /\ (kid l <> 0 -> kid l <= nitem g /\ ikey g (kid l) = kidk l)) ->
    Inv g (set_view A t l) tr.
  Proof.
    intros I E1 E2 E3 E4 E5 Hit. destruct I.
    assert (PV : forall u a' i p n, pending (views (set_view A t l) u) a' i p n <-> pending (views A u) a' i p n).
    { intros u a' i p n. cbn. destruct (Nat.eqb_spec u t) as [->|]; [unfold pending; rewrite E1|]; tauto. }
    assert (PH : forall u, ph (views (set_view A t l) u) = ph (views A u)).
    { intros u. cbn. destruct (Nat.eqb_spec u t) as [->|]; [exact E1|reflexivity]. }
    constructor; cbn [pfx set_view]; auto.
    - intros u a' i p n H. apply (i_pend0 u); apply PV; exact H.
    - intros u a' i p n H. apply (i_pend_conv0 u a' i p). rewrite <- PH. exact H.
    - intros u a' i p n H. apply (i_pend_stored0 u a' i p). rewrite <- PH. exact H.
    - intros u u' a1 i1 p1 n1 a2 i2 p2 n2 Hne H1 H2. eapply (i_pend_uniq0 u u'); [exact Hne|apply PV; exact H1|apply PV; exact H2].
    - intros n Hn Hnp. apply i_unlinked0; [exact Hn|]. intros u a' i p Hpd. apply (Hnp u a' i p). apply PV. exact Hpd.
    - intros u. cbn. destruct (Nat.eqb_spec u t) as [->|]; [rewrite E2, E3, E4|]; apply i_known0.
    - intros u. cbn. destruct (Nat.eqb_spec u t) as [->|]; [exact Hit|apply i_items0].
    - intros u m x Hm. cbn in Hm. destruct (Nat.eqb_spec u t) as [->|]; [apply E5; exact Hm|eapply i_stk0; exact Hm].
  Qed.

  Lemma Inv_view_fields g A tr t l :
    Inv g A tr -> ph l = ph (views A t) -> ka l = ka (views A t) -> ko l = ko (views A t) -> kpre l = kpre (views A t) ->
    kstk l = kstk (views A t) ->
    ((kit l <> 0 -> kit l <= nitem g /\ ikey g (kit l) = kkey l) /\ (kid l <> 0 -> kid l <= nitem g /\ ikey g (kid l) = kidk l)) ->
    Inv g (set_view A t l) tr.
  Proof.
    intros I E1 E2 E3 E4 E5 Hit. apply Inv_view_gen; auto. intros n x Hn. rewrite E5 in Hn. eapply (i_stk I); exact Hn.
  Qed.

  (** an iterator remembers one more linked array node *)
  Lemma Inv_push g A tr t n x :
    Inv g A tr -> pfx A n = Some x -> Inv g (set_view A t (push_stk (views A t) n x)) tr.
  Proof.
    intros I Hp. apply Inv_view_gen; auto; try reflexivity.
    - intros m y [E|Hm]; [inversion E; subst; exact Hp|eapply (i_stk I); exact Hm].
    - apply (i_items I).
  Qed.
End Inv.
