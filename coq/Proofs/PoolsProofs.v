(** * C24: the ownership discipline of the pools as an extension of the Vyukov queue invariant.

    Tokens = objects.  At every instant an object is in exactly one place: in the queue (abstract queue =
    cells of [posDeq, posEnq)), in the hand of a thread that is inside allocate / deallocate (popped and not
    yet returned, or about to be pushed), held by a client thread, or nowhere (never allocated / returned to the
    heap).  The extension [PoolExt] says these places are pairwise disjoint and duplicate-free, ties the
    per-thread held lists and the set of available objects to the trace, and records that heap object numbers
    already in use are older than the next one each thread will make. *)
From Coq Require Import ZArith List Bool Lia PeanoNat.
From Coq Require String.
Import String.StringSyntax.
Local Open Scope string_scope.
Local Open Scope Z_scope.
From LV Require Import Base.Conc Base.Events Base.CInt Base.Lin Spec.Specs Model.Vyukov Model.Pools
                       Proofs.VyukovSpec Proofs.VyukovArith Proofs.VyukovCore.
Import ListNotations.
Local Open Scope Z_scope.

(** ** lists: removing the first occurrence *)
Fixpoint rem1 (p : Z) (l : list Z) : list Z :=
  match l with
  | [] => []
  | y :: r => if Z.eqb p y then r else y :: rem1 p r
  end.

Lemma In_rem1 p q l : In q (rem1 p l) -> In q l.
Proof.
  induction l as [|y r IH]; cbn; auto. destruct (Z.eqb_spec p y); cbn; intros H; auto.
  destruct H; auto.
Qed.

Lemma NoDup_rem1 p l : NoDup l -> NoDup (rem1 p l).
Proof.
  induction 1 as [|y r Hn Hd IH]; cbn; [constructor|]. destruct (Z.eqb_spec p y); auto.
  constructor; auto. intros H. apply Hn. eapply In_rem1; eauto.
Qed.

Lemma In_rem1_iff p q l : NoDup l -> (In q (rem1 p l) <-> In q l /\ q <> p).
Proof.
  induction 1 as [|y r Hn Hd IH]; cbn; [tauto|]. destruct (Z.eqb_spec p y) as [->|N]; cbn.
  - split; [intros H; split; auto; intros ->; contradiction|intros [[H|H] H']; congruence].
  - rewrite IH. split; [intros [->|[H1 H2]]; auto|intros [[->|H1] H2]; auto].
Qed.

Lemma rem1_notin p l : ~ In p l -> rem1 p l = l.
Proof.
  induction l as [|y r IH]; cbn; auto. intros H. destruct (Z.eqb_spec p y) as [->|N]; [tauto|].
  f_equal. apply IH. tauto.
Qed.

Lemma rem1_app_last p l : ~ In p l -> rem1 p (l ++ [p]) = l.
Proof.
  induction l as [|y r IH]; cbn; intros H.
  - now rewrite Z.eqb_refl.
  - destruct (Z.eqb_spec p y) as [->|N]; [tauto|]. f_equal. apply IH. tauto.
Qed.

Lemma remove_nth_rem1 l : forall n p, NoDup l -> nth_error l n = Some p -> remove_nth n l = rem1 p l.
Proof.
  induction l as [|y r IH]; intros [|n] p Hd Hn; cbn in *; try discriminate.
  - inversion Hn; subst. now rewrite Z.eqb_refl.
  - inversion Hd; subst. destruct (Z.eqb_spec p y) as [->|N].
    + exfalso. apply H1. eapply nth_error_In; eauto.
    + unfold remove_nth in *. cbn. f_equal. apply IH; auto.
Qed.

Lemma NoDup_app_last (l : list Z) v : NoDup l -> ~ In v l -> NoDup (l ++ [v]).
Proof.
  induction 1 as [|y r Hn Hd IH]; cbn; intros H; [constructor; [intros []|constructor]|].
  constructor.
  - intros K. apply in_app_or in K. destruct K as [K|[K|[]]]; [contradiction|subst; apply H; left; reflexivity].
  - apply IH. intros K. apply H. right. exact K.
Qed.

(** ** what the trace says: objects held by a thread, objects available in the pool, threads inside a call *)
Definition ev_is (name : String.string) (e : ev) : option (list Z) :=
  match e with EvCli n args => if String.eqb n name then Some args else None | _ => None end.

Definition heldby_step (u : nat) (l : list Z) (te : nat * ev) : list Z :=
  if Nat.eqb (fst te) u then
    match ev_is "ret_alloc" (snd te), ev_is "inv_dealloc" (snd te) with
    | Some [p], _ => if Z.eqb p 0 then l else l ++ [p]
    | _, Some [p] => rem1 p l
    | _, _ => l
    end
  else l.

Definition heldby (tr : list (nat * ev)) (u : nat) : list Z := fold_left (heldby_step u) tr [].

Definition avail_step (l : list Z) (te : nat * ev) : list Z :=
  match ev_is "ret_alloc" (snd te), ev_is "inv_dealloc" (snd te), ev_is "free" (snd te) with
  | Some [p], _, _ => rem1 p l
  | _, Some [p], _ => l ++ [p]
  | _, _, Some [p] => rem1 p l
  | _, _, _ => l
  end.

Definition avail (a0 : list Z) (tr : list (nat * ev)) : list Z := fold_left avail_step tr a0.

Definition busy_step (u : nat) (b : bool) (te : nat * ev) : bool :=
  if Nat.eqb (fst te) u then
    match ev_is "inv_alloc" (snd te), ev_is "inv_dealloc" (snd te), ev_is "ret_alloc" (snd te), ev_is "ret_dealloc" (snd te) with
    | Some _, _, _, _ => true
    | _, Some _, _, _ => true
    | _, _, Some _, _ => false
    | _, _, _, Some _ => false
    | _, _, _, _ => b
    end
  else b.

Definition busy (tr : list (nat * ev)) (u : nat) : bool := fold_left (busy_step u) tr false.

Lemma heldby_app tr es u : heldby (tr ++ es) u = fold_left (heldby_step u) es (heldby tr u).
Proof. unfold heldby. apply fold_left_app. Qed.
Lemma avail_app a0 tr es : avail a0 (tr ++ es) = fold_left avail_step es (avail a0 tr).
Proof. unfold avail. apply fold_left_app. Qed.
Lemma busy_app tr es u : busy (tr ++ es) u = fold_left (busy_step u) es (busy tr u).
Proof. unfold busy. apply fold_left_app. Qed.

Lemma heldby_other u t es l : t <> u -> fold_left (heldby_step u) (Conc.tag t es) l = l.
Proof.
  intros N. revert l. induction es as [|e r IH]; intros l; cbn; auto.
  unfold heldby_step at 2. cbn [fst]. destruct (Nat.eqb_spec t u); [contradiction|]. apply IH.
Qed.
Lemma busy_other u t es b : t <> u -> fold_left (busy_step u) (Conc.tag t es) b = b.
Proof.
  intros N. revert b. induction es as [|e r IH]; intros b; cbn; auto.
  unfold busy_step at 2. cbn [fst]. destruct (Nat.eqb_spec t u); [contradiction|]. apply IH.
Qed.

Section PoolInst.
  Variable k : nat.
  Hypothesis Hk : (1 <= k)%nat.
  Variable c : pcfg.
  Hypothesis Hcap : pcap c = 2 ^ Z.of_nat k.

  Notation capn := (2 ^ k)%nat.
  Notation St := (status (VQ capn)).
  Notation cap := (pcap c).
  Notation N := (pthreads c).

  (** the object a thread has in its hand inside a pool call *)
  Definition hand (s : St) : list Z :=
    match s with
    | Pending (VEnq v) => [v]
    | Linearized (VEnq v) (RBool false) => [v]
    | Linearized VDeq (RVal (Some v)) => [v]
    | _ => []
    end.

  Definition okstat (s : St) : Prop :=
    match s with
    | Pending VFront | Pending VPopFront | Linearized VFront _ | Linearized VPopFront _ => False
    | _ => True
    end.

  (** per-thread client state: the objects held, and a lower bound of the index of its next operation *)
  Notation X := (nat -> list Z * nat).

  Definition own (S : nat -> St) (x : X) (t : nat) : list Z := hand (S t) ++ fst (x t).

  Definition oldid (x : X) (p : Z) : Prop :=
    1 <= p <= cap \/ exists t i, p = hid c t i /\ (i < snd (x t))%nat /\ (t < N)%nat.

  Definition avail0 : list Z := if Z.eqb (pkind c) 1 then [] else map Z.of_nat (seq 1 capn).

  Record PoolExt (qs : list Z) (S : nat -> St) (x : X) (tr : list (nat * ev)) : Prop := mkPE {
    pe_ok : forall t, okstat (S t);
    pe_q : NoDup qs;
    pe_own : forall t, NoDup (own S x t);
    pe_ownq : forall t p, In p (own S x t) -> ~ In p qs;
    pe_disj : forall t t' p, t <> t' -> In p (own S x t) -> ~ In p (own S x t');
    pe_held : forall t, heldby tr t = fst (x t);
    pe_old : forall p, (In p qs \/ exists t, In p (own S x t)) -> oldid x p;
    pe_avail : forall p, In p (avail avail0 tr) <-> (In p qs \/ exists t, In p (hand (S t)));
    pe_availnd : NoDup (avail avail0 tr);
    pe_busy : forall t, busy tr t = false -> S t = @Idle (VQ capn)
  }.

  Definition xview24 (x : X) (t : nat) : list Z * nat := x t.
  Definition xlin24 (t : nat) (x : X) : X := x.

  Lemma acc_heldby kk o ok rd wr t u l : fold_left (heldby_step u) (Conc.tag t (acc kk o ok rd wr)) l = l.
  Proof. cbn. unfold heldby_step. cbn. destruct (Nat.eqb t u); reflexivity. Qed.
  Lemma acc_avail kk o ok rd wr t l : fold_left avail_step (Conc.tag t (acc kk o ok rd wr)) l = l.
  Proof. reflexivity. Qed.
  Lemma acc_busy kk o ok rd wr t u b : fold_left (busy_step u) (Conc.tag t (acc kk o ok rd wr)) b = b.
  Proof. cbn. unfold busy_step. cbn. destruct (Nat.eqb t u); reflexivity. Qed.

  Lemma PoolExt_acc qs S x tr t kk o ok rd wr :
    PoolExt qs S x tr -> PoolExt qs S x (tr ++ Conc.tag t (acc kk o ok rd wr)).
  Proof.
    intros [E0 E1 E2 E3 E4 E5 E6 E7 E8 E9]. constructor; auto.
    - intros u. rewrite heldby_app, acc_heldby. apply E5.
    - intros p. rewrite avail_app, acc_avail. apply E7.
    - rewrite avail_app, acc_avail. exact E8.
    - intros u. rewrite busy_app, acc_busy. apply E9.
  Qed.

  Lemma own_ext (S S' : nat -> St) x t : (forall u, S' u = S u) -> own S' x t = own S x t.
  Proof. intros H. unfold own. now rewrite H. Qed.

  Lemma PoolExt_ext qs (S S' : nat -> St) x tr :
    (forall t, S' t = S t) -> PoolExt qs S x tr -> PoolExt qs S' x tr.
  Proof.
    intros HS [E0 E1 E2 E3 E4 E5 E6 E7 E8 E9]. constructor; auto.
    - intros t. rewrite HS. apply E0.
    - intros t. rewrite (own_ext S S' x t HS). apply E2.
    - intros t p. rewrite (own_ext S S' x t HS). apply E3.
    - intros t t' p. rewrite (own_ext S S' x t HS), (own_ext S S' x t' HS). apply E4.
    - intros p [H|[t H]]; apply E6; auto. right. exists t. now rewrite <- (own_ext S S' x t HS).
    - intros p. rewrite E7. split; intros [H|[t H]]; auto; right; exists t; [rewrite HS|rewrite <- HS]; auto.
    - intros t Hb. rewrite HS. apply E9; auto.
  Qed.

  (** a thread's status changes; its hand changes from [h] to [h'] *)
  Lemma own_upd_same (S : nat -> St) x t s : own (Lin.upd S t s) x t = hand s ++ fst (x t).
  Proof. unfold own. now rewrite upd_same. Qed.
  Lemma own_upd_other (S : nat -> St) x t s u : u <> t -> own (Lin.upd S t s) x u = own S x u.
  Proof. intros H. unfold own. now rewrite upd_other. Qed.

  (** a status change that moves no object *)
  Lemma PoolExt_same_hand qs (S S' : nat -> St) x tr :
    (forall t, hand (S' t) = hand (S t)) -> (forall t, okstat (S' t)) ->
    (forall t, busy tr t = false -> S' t = @Idle (VQ capn)) ->
    PoolExt qs S x tr -> PoolExt qs S' x tr.
  Proof.
    intros Hh Hok Hb [E0 E1 E2 E3 E4 E5 E6 E7 E8 E9].
    assert (Hown : forall w, own S' x w = own S x w) by (intros w; unfold own; now rewrite Hh).
    constructor.
    - exact Hok.
    - exact E1.
    - intros u. rewrite Hown. apply E2.
    - intros u p. rewrite Hown. apply E3.
    - intros u u' p. rewrite !Hown. apply E4.
    - exact E5.
    - intros p [Hp|[u Hp]]; apply E6; auto. right. exists u. now rewrite <- Hown.
    - intros p. rewrite E7. split; intros [Hp|[u Hp]]; auto; right; exists u; [rewrite Hh|rewrite <- Hh]; auto.
    - exact E8.
    - exact Hb.
  Qed.

  Lemma PoolExt_lin qs (S : nat -> St) x tr t o :
    PoolExt qs S x tr -> S t = sPend k o ->
    PoolExt (fst (vq_step capn qs o)) (Lin.upd S t (sLin k o (snd (vq_step capn qs o)))) (xlin24 t x) tr.
  Proof.
    intros [E0 E1 E2 E3 E4 E5 E6 E7 E8 E9] Hs. unfold xlin24, sPend, sLin in *.
    assert (Hbusy : busy tr t = true).
    { destruct (busy tr t) eqn:B; auto. rewrite (E9 t B) in Hs. discriminate. }
    pose proof (E0 t) as Ok. rewrite Hs in Ok.
    destruct o as [v| | |]; cbn [okstat] in Ok; try contradiction; cbn [vq_step bfifo_step fifo_step].
    - (* push *)
      assert (Hh : hand (S t) = [v]) by (rewrite Hs; reflexivity).
      assert (Hv : In v (own S x t)) by (unfold own; rewrite Hh; left; reflexivity).
      destruct (length qs <? capn)%nat; cbn [fst snd].
      + (* the object enters the queue *)
        constructor.
        * intros u. unfold Lin.upd. destruct (u =? t)%nat; [exact I|apply E0].
        * apply NoDup_app_last; auto. eapply E3; eauto.
        * intros u. destruct (Nat.eq_dec u t) as [->|Nu].
          -- rewrite own_upd_same. cbn [hand app]. specialize (E2 t). unfold own in E2. rewrite Hh in E2.
             inversion E2; auto.
          -- rewrite own_upd_other by auto. apply E2.
        * intros u p Hp Hq. apply in_app_or in Hq. destruct (Nat.eq_dec u t) as [->|Nu].
          -- rewrite own_upd_same in Hp. cbn [hand app] in Hp.
             destruct Hq as [Hq|[<-|[]]].
             ++ eapply E3; [|exact Hq]. unfold own. apply in_or_app. right. exact Hp.
             ++ specialize (E2 t). unfold own in E2. rewrite Hh in E2. inversion E2; auto.
          -- rewrite own_upd_other in Hp by auto. destruct Hq as [Hq|[<-|[]]].
             ++ eapply E3; eauto.
             ++ eapply (E4 t u v); eauto.
        * intros u u' p Nu Hp Hp'.
          assert (K : forall w, In p (own (Lin.upd S t (@Linearized (VQ capn) (VEnq v) (RBool true))) x w) -> In p (own S x w)).
          { intros w Hw. destruct (Nat.eq_dec w t) as [->|Nw].
            - rewrite own_upd_same in Hw. unfold own. apply in_or_app. right. exact Hw.
            - now rewrite own_upd_other in Hw. }
          eapply E4; eauto.
        * exact E5.
        * intros p [Hp|[u Hp]].
          -- apply in_app_or in Hp. destruct Hp as [Hp|[<-|[]]]; apply E6; auto. right. exists t. exact Hv.
          -- apply E6. right. exists u. destruct (Nat.eq_dec u t) as [->|Nu].
             ++ rewrite own_upd_same in Hp. unfold own. apply in_or_app. right. exact Hp.
             ++ now rewrite own_upd_other in Hp.
        * intros p. rewrite E7. split.
          -- intros [Hp|[u Hp]]; [left; apply in_or_app; auto|].
             destruct (Nat.eq_dec u t) as [->|Nu].
             ++ rewrite Hh in Hp. destruct Hp as [<-|[]]. left. apply in_or_app. right. left. reflexivity.
             ++ right. exists u. now rewrite upd_other.
          -- intros [Hp|[u Hp]].
             ++ apply in_app_or in Hp. destruct Hp as [Hp|[<-|[]]]; auto. right. exists t. rewrite Hh. left; reflexivity.
             ++ destruct (Nat.eq_dec u t) as [->|Nu]; [rewrite upd_same in Hp; destruct Hp|].
                rewrite upd_other in Hp by auto. right. exists u. exact Hp.
        * exact E8.
        * intros u Hb. destruct (Nat.eq_dec u t) as [->|Nu]; [congruence|]. rewrite upd_other by auto. apply E9; auto.
      + (* full: the object stays in the hand *)
        apply PoolExt_same_hand with (S := S); [| | |constructor; auto].
        * intros u. destruct (Nat.eq_dec u t) as [->|Nu]; [rewrite upd_same; now rewrite Hh|now rewrite upd_other].
        * intros u. unfold Lin.upd. destruct (u =? t)%nat; [exact I|apply E0].
        * intros u Hb. destruct (Nat.eq_dec u t) as [->|Nu]; [congruence|]. rewrite upd_other by auto. apply E9; auto.
    - (* pop *)
      assert (Hh : hand (S t) = []) by (rewrite Hs; reflexivity).
      destruct qs as [|v r]; cbn [fst snd].
      + apply PoolExt_same_hand with (S := S); [| | |constructor; auto].
        * intros u. destruct (Nat.eq_dec u t) as [->|Nu]; [rewrite upd_same; now rewrite Hh|now rewrite upd_other].
        * intros u. unfold Lin.upd. destruct (u =? t)%nat; [exact I|apply E0].
        * intros u Hb. destruct (Nat.eq_dec u t) as [->|Nu]; [congruence|]. rewrite upd_other by auto. apply E9; auto.
      + (* the oldest object moves into the hand *)
        inversion E1 as [|? ? Hnv Hnr]; subst.
        assert (Hvo : forall w, ~ In v (own S x w)).
        { intros w Hw. eapply E3; eauto. left; reflexivity. }
        constructor.
        * intros u. unfold Lin.upd. destruct (u =? t)%nat; [exact I|apply E0].
        * exact Hnr.
        * intros u. destruct (Nat.eq_dec u t) as [->|Nu].
          -- rewrite own_upd_same. cbn [hand app]. constructor.
             ++ intros Hv. apply (Hvo t). unfold own. apply in_or_app. right. exact Hv.
             ++ specialize (E2 t). unfold own in E2. now rewrite Hh in E2.
          -- rewrite own_upd_other by auto. apply E2.
        * intros u p Hp Hq. destruct (Nat.eq_dec u t) as [->|Nu].
          -- rewrite own_upd_same in Hp. cbn [hand app] in Hp. destruct Hp as [<-|Hp]; [contradiction|].
             eapply E3; [|right; exact Hq]. unfold own. apply in_or_app. right. exact Hp.
          -- rewrite own_upd_other in Hp by auto. eapply E3; [exact Hp|right; exact Hq].
        * intros u u' p Nu Hp Hp'.
          destruct (Nat.eq_dec u t) as [->|N1]; destruct (Nat.eq_dec u' t) as [->|N2]; try contradiction.
          -- rewrite own_upd_same in Hp. rewrite own_upd_other in Hp' by auto. cbn [hand app] in Hp.
             destruct Hp as [<-|Hp]; [eapply Hvo; eauto|].
             eapply (E4 t u' p); eauto. unfold own. apply in_or_app. right. exact Hp.
          -- rewrite own_upd_same in Hp'. rewrite own_upd_other in Hp by auto. cbn [hand app] in Hp'.
             destruct Hp' as [<-|Hp']; [eapply Hvo; eauto|].
             eapply (E4 u t p); eauto. unfold own. apply in_or_app. right. exact Hp'.
          -- rewrite own_upd_other in Hp, Hp' by auto. exact (E4 u u' p Nu Hp Hp').
        * exact E5.
        * intros p [Hp|[u Hp]].
          -- apply E6. left. right. exact Hp.
          -- destruct (Nat.eq_dec u t) as [->|Nu].
             ++ rewrite own_upd_same in Hp. cbn [hand app] in Hp. destruct Hp as [<-|Hp].
                ** apply E6. left. left. reflexivity.
                ** apply E6. right. exists t. unfold own. apply in_or_app. right. exact Hp.
             ++ rewrite own_upd_other in Hp by auto. apply E6. right. exists u. exact Hp.
        * intros p. rewrite E7. split.
          -- intros [[<-|Hp]|[u Hp]]; auto.
             ++ right. exists t. rewrite upd_same. left; reflexivity.
             ++ right. exists u. destruct (Nat.eq_dec u t) as [->|Nu]; [now rewrite Hh in Hp|now rewrite upd_other].
          -- intros [Hp|[u Hp]]; [left; right; exact Hp|].
             destruct (Nat.eq_dec u t) as [->|Nu].
             ++ rewrite upd_same in Hp. destruct Hp as [<-|[]]. left. left. reflexivity.
             ++ rewrite upd_other in Hp by auto. right. exists u. exact Hp.
        * exact E8.
        * intros u Hb. destruct (Nat.eq_dec u t) as [->|Nu]; [congruence|]. rewrite upd_other by auto. apply E9; auto.
  Qed.

  Lemma xview24_lin t (x : X) u : xview24 (xlin24 t x) u = xview24 x u.
  Proof. reflexivity. Qed.


  Definition updx (x : X) (t : nat) (v : list Z * nat) : X := fun u => if Nat.eqb u t then v else x u.
  Lemma updx_same x t v : updx x t v t = v.
  Proof. unfold updx. now rewrite Nat.eqb_refl. Qed.
  Lemma updx_other x t v u : u <> t -> updx x t v u = x u.
  Proof. unfold updx. intros H. destruct (Nat.eqb_spec u t); congruence. Qed.

  Lemma oldid_mono (x x' : X) p : (forall u, (snd (x u) <= snd (x' u))%nat) -> oldid x p -> oldid x' p.
  Proof.
    intros H [Hp|(t & i & E & L & Ht)]; [left; auto|right]. exists t, i. repeat split; auto.
    specialize (H t). lia.
  Qed.

  (** events and status changes that move no object *)
  Lemma PoolExt_move qs (S S' : nat -> St) (x x' : X) tr tr' :
    PoolExt qs S x tr ->
    (forall u, hand (S' u) = hand (S u)) -> (forall u, okstat (S' u)) ->
    (forall u, fst (x' u) = fst (x u)) -> (forall u, (snd (x u) <= snd (x' u))%nat) ->
    (forall u, heldby tr' u = heldby tr u) -> avail avail0 tr' = avail avail0 tr ->
    (forall u, busy tr' u = false -> S' u = @Idle (VQ capn)) ->
    PoolExt qs S' x' tr'.
  Proof.
    intros [E0 E1 E2 E3 E4 E5 E6 E7 E8 E9] Hh Hok Hx1 Hx2 Hheld Hav Hb.
    assert (Hown : forall w, own S' x' w = own S x w) by (intros w; unfold own; now rewrite Hh, Hx1).
    constructor.
    - exact Hok.
    - exact E1.
    - intros u. rewrite Hown. apply E2.
    - intros u p. rewrite Hown. apply E3.
    - intros u u' p. rewrite !Hown. apply E4.
    - intros u. rewrite Hheld, Hx1. apply E5.
    - intros p Hp. apply (oldid_mono x x' p Hx2). apply E6.
      destruct Hp as [Hp|[u Hp]]; auto. right. exists u. now rewrite <- Hown.
    - intros p. rewrite Hav, E7. split; intros [Hp|[u Hp]]; auto; right; exists u; [rewrite Hh|rewrite <- Hh]; auto.
    - rewrite Hav. exact E8.
    - exact Hb.
  Qed.

  (** computing the trace functions on the client events *)
  Lemma held_ret_alloc t p l :
    fold_left (heldby_step t) (Conc.tag t [EvCli "ret_alloc" [p]]) l = if Z.eqb p 0 then l else l ++ [p].
  Proof. cbn. unfold heldby_step. cbn. now rewrite Nat.eqb_refl. Qed.
  Lemma held_inv_dealloc t p l :
    fold_left (heldby_step t) (Conc.tag t [EvCli "inv_dealloc" [p]]) l = rem1 p l.
  Proof. cbn. unfold heldby_step. cbn. now rewrite Nat.eqb_refl. Qed.
  Lemma held_dealloc_heap t p l :
    fold_left (heldby_step t) (Conc.tag t [EvCli "inv_dealloc" [p]; EvCli "free" [p]; EvCli "ret_dealloc" []]) l = rem1 p l.
  Proof. cbn. unfold heldby_step. cbn. now rewrite Nat.eqb_refl. Qed.
  Lemma held_neutral t name l :
    (name = "inv_alloc" \/ name = "ret_dealloc" \/ name = "outoffuel" \/ name = "ub") ->
    fold_left (heldby_step t) (Conc.tag t [EvCli name []]) l = l.
  Proof. intros [-> | [-> | [-> | ->]]]; cbn; unfold heldby_step; cbn; now rewrite Nat.eqb_refl. Qed.
  Lemma held_free_ret t p l :
    fold_left (heldby_step t) (Conc.tag t [EvCli "free" [p]; EvCli "ret_dealloc" []]) l = l.
  Proof. cbn. unfold heldby_step. cbn. now rewrite Nat.eqb_refl. Qed.

  Lemma busy_set t es b v :
    (exists name args r, es = r ++ [EvCli name args] /\
       ((v = true /\ (name = "inv_alloc" \/ name = "inv_dealloc")) \/
        (v = false /\ (name = "ret_alloc" \/ name = "ret_dealloc")))) ->
    fold_left (busy_step t) (Conc.tag t es) b = v.
  Proof.
    intros (name & args & r & -> & H). unfold Conc.tag. rewrite map_app, fold_left_app. cbn.
    unfold busy_step at 1. cbn [fst snd]. rewrite Nat.eqb_refl.
    destruct H as [[-> [-> | ->]] | [-> [-> | ->]]]; reflexivity.
  Qed.

  Lemma busy_keep t name b :
    (name = "outoffuel" \/ name = "ub") -> fold_left (busy_step t) (Conc.tag t [EvCli name []]) b = b.
  Proof. intros [-> | ->]; cbn; unfold busy_step; cbn; now rewrite Nat.eqb_refl. Qed.

  Lemma heldby_tag tr t es u :
    heldby (tr ++ Conc.tag t es) u = if Nat.eqb u t then fold_left (heldby_step t) (Conc.tag t es) (heldby tr t) else heldby tr u.
  Proof.
    rewrite heldby_app. destruct (Nat.eqb_spec u t) as [->|Nu]; auto. apply heldby_other. auto.
  Qed.
  Lemma busy_tag tr t es u :
    busy (tr ++ Conc.tag t es) u = if Nat.eqb u t then fold_left (busy_step t) (Conc.tag t es) (busy tr t) else busy tr u.
  Proof.
    rewrite busy_app. destruct (Nat.eqb_spec u t) as [->|Nu]; auto. apply busy_other. auto.
  Qed.

  Lemma tokens_pos qs (S : nat -> St) x tr p :
    PoolExt qs S x tr -> (In p qs \/ exists t, In p (own S x t)) -> 1 <= p.
  Proof.
    intros E Hp. destruct (pe_old _ _ _ _ E p Hp) as [H|(t & i & -> & _ & _)]; [lia|].
    unfold hid. pose proof (cap_ge2 k Hk). rewrite Hcap. nia.
  Qed.

  Lemma hid_inj t i t' i' : (t < N)%nat -> (t' < N)%nat -> hid c t i = hid c t' i' -> t = t' /\ i = i'.
  Proof. unfold hid. intros H1 H2 E. assert (Z.of_nat i = Z.of_nat i') by nia. split; lia. Qed.

  (** a fresh heap object number is nowhere *)
  Lemma fresh_hid qs (S : nat -> St) x tr t idx :
    PoolExt qs S x tr -> (snd (x t) <= idx)%nat -> (t < N)%nat ->
    ~ In (hid c t idx) qs /\ (forall u, ~ In (hid c t idx) (own S x u)) /\ ~ In (hid c t idx) (avail avail0 tr).
  Proof.
    intros E Hi Ht.
    assert (K : ~ oldid x (hid c t idx)).
    { intros [H|(t' & i' & E' & L & Ht')].
      - unfold hid in H. nia.
      - destruct (hid_inj t idx t' i' Ht Ht' E') as [-> ->]. lia. }
    split; [|split].
    - intros H. apply K. apply (pe_old _ _ _ _ E). auto.
    - intros u H. apply K. apply (pe_old _ _ _ _ E). right. eauto.
    - intros H. apply K. apply (pe_old _ _ _ _ E). apply (pe_avail _ _ _ _ E) in H.
      destruct H as [H|[u H]]; auto. right. exists u. unfold own. apply in_or_app. auto.
  Qed.

  (** allocate returns: the popped object (in the hand) becomes held by the client *)
  Lemma pe_ret_alloc_pool qs (S : nat -> St) x tr t p held j j' :
    PoolExt qs S x tr -> S t = @Linearized (VQ capn) VDeq (RVal (Some p)) -> x t = (held, j) -> (j <= j')%nat ->
    PoolExt qs (Lin.upd S t (@Idle (VQ capn))) (updx x t (held ++ [p], j')) (tr ++ Conc.tag t [EvCli "ret_alloc" [p]]).
  Proof.
    intros E Hs Hx Hj. pose proof E as [E0 E1 E2 E3 E4 E5 E6 E7 E8 E9].
    assert (Hh : hand (S t) = [p]) by (rewrite Hs; reflexivity).
    assert (Hown : own S x t = p :: held) by (unfold own; rewrite Hh, Hx; reflexivity).
    assert (Hp1 : 1 <= p).
    { apply (tokens_pos qs S x tr p E). right. exists t. rewrite Hown. left; reflexivity. }
    assert (Hperm : forall q0, In q0 (held ++ [p]) <-> In q0 (p :: held)).
    { intros q0. rewrite in_app_iff. cbn. tauto. }
    assert (HownT : forall q0, In q0 (own (Lin.upd S t (@Idle (VQ capn))) (updx x t (held ++ [p], j')) t) <-> In q0 (own S x t)).
    { intros q0. rewrite Hown. unfold own. rewrite upd_same, updx_same. cbn [hand app fst]. apply Hperm. }
    assert (HownO : forall u, u <> t -> own (Lin.upd S t (@Idle (VQ capn))) (updx x t (held ++ [p], j')) u = own S x u).
    { intros u Nu. unfold own. now rewrite upd_other, updx_other. }
    constructor.
    - intros u. unfold Lin.upd. destruct (u =? t)%nat; [exact I|apply E0].
    - exact E1.
    - intros u. destruct (Nat.eq_dec u t) as [->|Nu]; [|rewrite HownO by auto; apply E2].
      unfold own. rewrite upd_same, updx_same. cbn [hand app fst].
      specialize (E2 t). rewrite Hown in E2. inversion E2; subst. apply NoDup_app_last; auto.
    - intros u q0 Hq. destruct (Nat.eq_dec u t) as [->|Nu]; [apply HownT in Hq|rewrite HownO in Hq by auto]; eapply E3; eauto.
    - intros u u' q0 Nu Hq Hq'.
      destruct (Nat.eq_dec u t) as [->|N1]; destruct (Nat.eq_dec u' t) as [->|N2]; try contradiction.
      + apply HownT in Hq. rewrite HownO in Hq' by auto. exact (E4 t u' q0 Nu Hq Hq').
      + apply HownT in Hq'. rewrite HownO in Hq by auto. exact (E4 u t q0 Nu Hq Hq').
      + rewrite HownO in Hq, Hq' by auto. exact (E4 u u' q0 Nu Hq Hq').
    - intros u. rewrite heldby_tag. destruct (Nat.eqb_spec u t) as [->|Nu].
      + rewrite held_ret_alloc, updx_same, E5, Hx. cbn [fst]. destruct (Z.eqb_spec p 0); [lia|reflexivity].
      + rewrite updx_other by auto. apply E5.
    - intros q0 Hq. apply (oldid_mono x).
      + intros u. destruct (Nat.eq_dec u t) as [->|Nu]; [rewrite updx_same, Hx; cbn; lia|rewrite updx_other by auto; lia].
      + apply E6. destruct Hq as [Hq|[u Hq]]; auto. right. exists u.
        destruct (Nat.eq_dec u t) as [->|Nu]; [now apply HownT|now rewrite <- HownO].
    - intros q0. rewrite avail_app. cbn [fold_left Conc.tag map]. change (avail_step (avail avail0 tr) (t, EvCli "ret_alloc" [p])) with (rem1 p (avail avail0 tr)).
      rewrite In_rem1_iff by auto. rewrite E7. split.
      + intros [[Hq|[u Hq]] Hne]; auto. right. exists u. destruct (Nat.eq_dec u t) as [->|Nu].
        * rewrite Hh in Hq. destruct Hq as [<-|[]]. congruence.
        * now rewrite upd_other.
      + intros [Hq|[u Hq]].
        * split; auto. intros ->. eapply (E3 t p); eauto. rewrite Hown. left; reflexivity.
        * destruct (Nat.eq_dec u t) as [->|Nu]; [rewrite upd_same in Hq; destruct Hq|].
          rewrite upd_other in Hq by auto. split; [right; eauto|]. intros ->.
          eapply (E4 t u p); eauto; [rewrite Hown; left; reflexivity|unfold own; apply in_or_app; auto].
    - rewrite avail_app. cbn [fold_left Conc.tag map]. change (avail_step (avail avail0 tr) (t, EvCli "ret_alloc" [p])) with (rem1 p (avail avail0 tr)).
      apply NoDup_rem1; auto.
    - intros u. rewrite busy_tag. destruct (Nat.eqb_spec u t) as [->|Nu].
      + intros _. now rewrite upd_same.
      + intros Hb. rewrite upd_other by auto. apply E9; auto.
  Qed.

  (** allocate falls back to the heap: a brand-new object becomes held by the client *)
  Lemma pe_ret_alloc_heap qs (S : nat -> St) x tr t held j idx :
    PoolExt qs S x tr -> S t = @Linearized (VQ capn) VDeq (RVal None) -> x t = (held, j) -> (j <= idx)%nat -> (t < N)%nat ->
    PoolExt qs (Lin.upd S t (@Idle (VQ capn))) (updx x t (held ++ [hid c t idx], Datatypes.S idx))
            (tr ++ Conc.tag t [EvCli "ret_alloc" [hid c t idx]]).
  Proof.
    intros E Hs Hx Hj Ht. pose proof E as [E0 E1 E2 E3 E4 E5 E6 E7 E8 E9].
    set (h := hid c t idx).
    assert (Hh : hand (S t) = []) by (rewrite Hs; reflexivity).
    assert (Hown : own S x t = held) by (unfold own; rewrite Hh, Hx; reflexivity).
    destruct (fresh_hid qs S x tr t idx E ltac:(rewrite Hx; cbn; lia) Ht) as (F1 & F2 & F3). fold h in F1, F2, F3.
    assert (Hh1 : 1 <= h) by (unfold h, hid; pose proof (cap_ge2 k Hk); rewrite Hcap; nia).
    assert (HownT : own (Lin.upd S t (@Idle (VQ capn))) (updx x t (held ++ [h], Datatypes.S idx)) t = held ++ [h]).
    { unfold own. rewrite upd_same, updx_same. reflexivity. }
    assert (HownO : forall u, u <> t -> own (Lin.upd S t (@Idle (VQ capn))) (updx x t (held ++ [h], Datatypes.S idx)) u = own S x u).
    { intros u Nu. unfold own. now rewrite upd_other, updx_other. }
    constructor.
    - intros u. unfold Lin.upd. destruct (u =? t)%nat; [exact I|apply E0].
    - exact E1.
    - intros u. destruct (Nat.eq_dec u t) as [->|Nu]; [|rewrite HownO by auto; apply E2].
      rewrite HownT. apply NoDup_app_last; [rewrite <- Hown; apply E2|rewrite <- Hown; apply F2].
    - intros u q0 Hq. destruct (Nat.eq_dec u t) as [->|Nu]; [|rewrite HownO in Hq by auto; eapply E3; eauto].
      rewrite HownT in Hq. apply in_app_or in Hq. destruct Hq as [Hq|[<-|[]]]; auto. eapply E3; rewrite ?Hown; eauto.
    - intros u u' q0 Nu Hq Hq'.
      destruct (Nat.eq_dec u t) as [->|N1]; destruct (Nat.eq_dec u' t) as [->|N2]; try contradiction.
      + rewrite HownT in Hq. rewrite HownO in Hq' by auto. apply in_app_or in Hq. destruct Hq as [Hq|[<-|[]]].
        * eapply (E4 t u' q0); eauto. now rewrite Hown.
        * eapply F2; eauto.
      + rewrite HownT in Hq'. rewrite HownO in Hq by auto. apply in_app_or in Hq'. destruct Hq' as [Hq'|[<-|[]]].
        * eapply (E4 u t q0); eauto. now rewrite Hown.
        * eapply F2; eauto.
      + rewrite HownO in Hq, Hq' by auto. exact (E4 u u' q0 Nu Hq Hq').
    - intros u. rewrite heldby_tag. destruct (Nat.eqb_spec u t) as [->|Nu].
      + rewrite held_ret_alloc, updx_same, E5, Hx. cbn [fst]. fold h. destruct (Z.eqb_spec h 0); [lia|reflexivity].
      + rewrite updx_other by auto. apply E5.
    - intros q0 Hq.
      assert (Hm : forall u, (snd (x u) <= snd (updx x t (held ++ [h], Datatypes.S idx) u))%nat).
      { intros u. destruct (Nat.eq_dec u t) as [->|Nu]; [rewrite updx_same, Hx; cbn; lia|rewrite updx_other by auto; lia]. }
      assert (Hnew : oldid (updx x t (held ++ [h], Datatypes.S idx)) h).
      { right. exists t, idx. rewrite updx_same. cbn. repeat split; auto. }
      destruct Hq as [Hq|[u Hq]].
      + apply (oldid_mono x _ _ Hm). apply E6; auto.
      + destruct (Nat.eq_dec u t) as [->|Nu].
        * rewrite HownT in Hq. apply in_app_or in Hq. destruct Hq as [Hq|[<-|[]]]; auto.
          apply (oldid_mono x _ _ Hm). apply E6. right. exists t. now rewrite Hown.
        * rewrite HownO in Hq by auto. apply (oldid_mono x _ _ Hm). apply E6. right. eauto.
    - intros q0. rewrite avail_app. cbn [fold_left Conc.tag map]. change (avail_step (avail avail0 tr) (t, EvCli "ret_alloc" [h])) with (rem1 h (avail avail0 tr)).
      rewrite rem1_notin by auto. rewrite E7. split; intros [Hq|[u Hq]]; auto; right; exists u.
      + destruct (Nat.eq_dec u t) as [->|Nu]; [now rewrite Hh in Hq|now rewrite upd_other].
      + destruct (Nat.eq_dec u t) as [->|Nu]; [rewrite upd_same in Hq; destruct Hq|now rewrite upd_other in Hq].
    - rewrite avail_app. cbn [fold_left Conc.tag map]. change (avail_step (avail avail0 tr) (t, EvCli "ret_alloc" [h])) with (rem1 h (avail avail0 tr)).
      apply NoDup_rem1; auto.
    - intros u. rewrite busy_tag. destruct (Nat.eqb_spec u t) as [->|Nu].
      + intros _. now rewrite upd_same.
      + intros Hb. rewrite upd_other by auto. apply E9; auto.
  Qed.

  (** deallocate begins: the client hands an object it holds to the pool *)
  Lemma pe_inv_dealloc qs (S : nat -> St) x tr t p held j :
    PoolExt qs S x tr -> S t = @Idle (VQ capn) -> x t = (held, j) -> In p held ->
    PoolExt qs (Lin.upd S t (@Pending (VQ capn) (VEnq p))) (updx x t (rem1 p held, j)) (tr ++ Conc.tag t [EvCli "inv_dealloc" [p]]).
  Proof.
    intros E Hs Hx Hin. pose proof E as [E0 E1 E2 E3 E4 E5 E6 E7 E8 E9].
    assert (Hh : hand (S t) = []) by (rewrite Hs; reflexivity).
    assert (Hown : own S x t = held) by (unfold own; rewrite Hh, Hx; reflexivity).
    assert (Hnd : NoDup held) by (rewrite <- Hown; apply E2).
    assert (HownT : forall q0, In q0 (own (Lin.upd S t (@Pending (VQ capn) (VEnq p))) (updx x t (rem1 p held, j)) t) <-> In q0 held).
    { intros q0. unfold own. rewrite upd_same, updx_same. cbn [hand app fst In]. rewrite In_rem1_iff by auto.
      split; [intros [<-|[H _]]; auto|intros H; destruct (Z.eq_dec p q0); auto]. }
    assert (HownO : forall u, u <> t -> own (Lin.upd S t (@Pending (VQ capn) (VEnq p))) (updx x t (rem1 p held, j)) u = own S x u).
    { intros u Nu. unfold own. now rewrite upd_other, updx_other. }
    assert (Hpav : ~ In p (avail avail0 tr)).
    { intros H. apply E7 in H. destruct H as [H|[u H]].
      - eapply (E3 t p); eauto. now rewrite Hown.
      - destruct (Nat.eq_dec u t) as [->|Nu]; [now rewrite Hh in H|].
        eapply (E4 t u p); eauto; [now rewrite Hown|unfold own; apply in_or_app; auto]. }
    constructor.
    - intros u. unfold Lin.upd. destruct (u =? t)%nat; [exact I|apply E0].
    - exact E1.
    - intros u. destruct (Nat.eq_dec u t) as [->|Nu]; [|rewrite HownO by auto; apply E2].
      unfold own. rewrite upd_same, updx_same. cbn [hand app fst]. constructor.
      + rewrite In_rem1_iff by auto. tauto.
      + apply NoDup_rem1; auto.
    - intros u q0 Hq. destruct (Nat.eq_dec u t) as [->|Nu].
      + apply HownT in Hq. eapply E3; rewrite ?Hown; eauto.
      + rewrite HownO in Hq by auto. eapply E3; eauto.
    - intros u u' q0 Nu Hq Hq'.
      destruct (Nat.eq_dec u t) as [->|N1]; destruct (Nat.eq_dec u' t) as [->|N2]; try contradiction.
      + apply HownT in Hq. rewrite HownO in Hq' by auto. eapply (E4 t u' q0); eauto. now rewrite Hown.
      + apply HownT in Hq'. rewrite HownO in Hq by auto. eapply (E4 u t q0); eauto. now rewrite Hown.
      + rewrite HownO in Hq, Hq' by auto. exact (E4 u u' q0 Nu Hq Hq').
    - intros u. rewrite heldby_tag. destruct (Nat.eqb_spec u t) as [->|Nu].
      + rewrite held_inv_dealloc, updx_same, E5, Hx. reflexivity.
      + rewrite updx_other by auto. apply E5.
    - intros q0 Hq. apply (oldid_mono x).
      + intros u. destruct (Nat.eq_dec u t) as [->|Nu]; [rewrite updx_same, Hx; cbn; lia|rewrite updx_other by auto; lia].
      + apply E6. destruct Hq as [Hq|[u Hq]]; auto. right. exists u.
        destruct (Nat.eq_dec u t) as [->|Nu]; [apply HownT in Hq; now rewrite Hown|now rewrite <- HownO].
    - intros q0. rewrite avail_app. cbn [fold_left Conc.tag map]. change (avail_step (avail avail0 tr) (t, EvCli "inv_dealloc" [p])) with (avail avail0 tr ++ [p]).
      rewrite in_app_iff, E7. cbn [In]. split.
      + intros [[Hq|[u Hq]]|[<-|[]]]; auto.
        * right. exists u. destruct (Nat.eq_dec u t) as [->|Nu]; [now rewrite Hh in Hq|now rewrite upd_other].
        * right. exists t. rewrite upd_same. left; reflexivity.
      + intros [Hq|[u Hq]]; auto. destruct (Nat.eq_dec u t) as [->|Nu].
        * rewrite upd_same in Hq. destruct Hq as [<-|[]]. auto.
        * rewrite upd_other in Hq by auto. left. right. eauto.
    - rewrite avail_app. cbn [fold_left Conc.tag map]. change (avail_step (avail avail0 tr) (t, EvCli "inv_dealloc" [p])) with (avail avail0 tr ++ [p]).
      apply NoDup_app_last; auto.
    - intros u. rewrite busy_tag. destruct (Nat.eqb_spec u t) as [->|Nu].
      + rewrite (busy_set t _ _ true); [discriminate|]. exists "inv_dealloc", [p], []. split; auto.
      + intros Hb. rewrite upd_other by auto. apply E9; auto.
  Qed.

  (** an object leaves the system: lazy pool full ([free p; ret_dealloc], the object is in the hand) *)
  Lemma pe_free_hand qs (S : nat -> St) x tr t p held j j' :
    PoolExt qs S x tr -> S t = @Linearized (VQ capn) (VEnq p) (RBool false) -> x t = (held, j) -> (j <= j')%nat ->
    PoolExt qs (Lin.upd S t (@Idle (VQ capn))) (updx x t (held, j'))
            (tr ++ Conc.tag t [EvCli "free" [p]; EvCli "ret_dealloc" []]).
  Proof.
    intros E Hs Hx Hj. pose proof E as [E0 E1 E2 E3 E4 E5 E6 E7 E8 E9].
    assert (Hh : hand (S t) = [p]) by (rewrite Hs; reflexivity).
    assert (Hown : own S x t = p :: held) by (unfold own; rewrite Hh, Hx; reflexivity).
    assert (HownT : own (Lin.upd S t (@Idle (VQ capn))) (updx x t (held, j')) t = held).
    { unfold own. rewrite upd_same, updx_same. reflexivity. }
    assert (HownO : forall u, u <> t -> own (Lin.upd S t (@Idle (VQ capn))) (updx x t (held, j')) u = own S x u).
    { intros u Nu. unfold own. now rewrite upd_other, updx_other. }
    assert (Hsub : forall u q0, In q0 (own (Lin.upd S t (@Idle (VQ capn))) (updx x t (held, j')) u) -> In q0 (own S x u)).
    { intros u q0 H. destruct (Nat.eq_dec u t) as [->|Nu]; [rewrite HownT in H; rewrite Hown; right; auto|now rewrite HownO in H]. }
    constructor.
    - intros u. unfold Lin.upd. destruct (u =? t)%nat; [exact I|apply E0].
    - exact E1.
    - intros u. destruct (Nat.eq_dec u t) as [->|Nu]; [|rewrite HownO by auto; apply E2].
      rewrite HownT. specialize (E2 t). rewrite Hown in E2. now inversion E2.
    - intros u q0 Hq. eapply E3; eauto.
    - intros u u' q0 Nu Hq Hq'. eapply E4; eauto.
    - intros u. rewrite heldby_tag. destruct (Nat.eqb_spec u t) as [->|Nu].
      + rewrite held_free_ret, updx_same, E5, Hx. reflexivity.
      + rewrite updx_other by auto. apply E5.
    - intros q0 Hq. apply (oldid_mono x).
      + intros u. destruct (Nat.eq_dec u t) as [->|Nu]; [rewrite updx_same, Hx; cbn; lia|rewrite updx_other by auto; lia].
      + apply E6. destruct Hq as [Hq|[u Hq]]; auto. right. eauto.
    - intros q0. rewrite avail_app. cbn [fold_left Conc.tag map].
      change (avail_step (avail_step (avail avail0 tr) (t, EvCli "free" [p])) (t, EvCli "ret_dealloc" [])) with (rem1 p (avail avail0 tr)).
      rewrite In_rem1_iff by auto. rewrite E7. split.
      + intros [[Hq|[u Hq]] Hne]; auto. right. exists u. destruct (Nat.eq_dec u t) as [->|Nu].
        * rewrite Hh in Hq. destruct Hq as [<-|[]]. congruence.
        * now rewrite upd_other.
      + intros [Hq|[u Hq]].
        * split; auto. intros ->. eapply (E3 t p); eauto. rewrite Hown. left; reflexivity.
        * destruct (Nat.eq_dec u t) as [->|Nu]; [rewrite upd_same in Hq; destruct Hq|].
          rewrite upd_other in Hq by auto. split; [right; eauto|]. intros ->.
          eapply (E4 t u p); eauto; [rewrite Hown; left; reflexivity|unfold own; apply in_or_app; auto].
    - rewrite avail_app. cbn [fold_left Conc.tag map].
      change (avail_step (avail_step (avail avail0 tr) (t, EvCli "free" [p])) (t, EvCli "ret_dealloc" [])) with (rem1 p (avail avail0 tr)).
      apply NoDup_rem1; auto.
    - intros u. rewrite busy_tag. destruct (Nat.eqb_spec u t) as [->|Nu].
      + intros _. now rewrite upd_same.
      + intros Hb. rewrite upd_other by auto. apply E9; auto.
  Qed.

  (** vyukov_queue_pool: a heap object goes straight back to the heap *)
  Lemma pe_dealloc_heap qs (S : nat -> St) x tr t p held j j' :
    PoolExt qs S x tr -> S t = @Idle (VQ capn) -> x t = (held, j) -> In p held -> (j <= j')%nat ->
    PoolExt qs S (updx x t (rem1 p held, j'))
            (tr ++ Conc.tag t [EvCli "inv_dealloc" [p]; EvCli "free" [p]; EvCli "ret_dealloc" []]).
  Proof.
    intros E Hs Hx Hin Hj. pose proof E as [E0 E1 E2 E3 E4 E5 E6 E7 E8 E9].
    assert (Hh : hand (S t) = []) by (rewrite Hs; reflexivity).
    assert (Hown : own S x t = held) by (unfold own; rewrite Hh, Hx; reflexivity).
    assert (Hnd : NoDup held) by (rewrite <- Hown; apply E2).
    assert (HownT : own S (updx x t (rem1 p held, j')) t = rem1 p held).
    { unfold own. rewrite updx_same, Hh. reflexivity. }
    assert (HownO : forall u, u <> t -> own S (updx x t (rem1 p held, j')) u = own S x u).
    { intros u Nu. unfold own. now rewrite updx_other. }
    assert (Hsub : forall u q0, In q0 (own S (updx x t (rem1 p held, j')) u) -> In q0 (own S x u)).
    { intros u q0 H. destruct (Nat.eq_dec u t) as [->|Nu]; [rewrite HownT in H; rewrite Hown; eapply In_rem1; eauto|now rewrite HownO in H]. }
    assert (Hpav : ~ In p (avail avail0 tr)).
    { intros H. apply E7 in H. destruct H as [H|[u H]].
      - eapply (E3 t p); eauto. now rewrite Hown.
      - destruct (Nat.eq_dec u t) as [->|Nu]; [now rewrite Hh in H|].
        eapply (E4 t u p); eauto; [now rewrite Hown|unfold own; apply in_or_app; auto]. }
    assert (Hav : fold_left avail_step (Conc.tag t [EvCli "inv_dealloc" [p]; EvCli "free" [p]; EvCli "ret_dealloc" []]) (avail avail0 tr) = avail avail0 tr).
    { cbn [fold_left Conc.tag map].
      change (avail_step (avail_step (avail_step (avail avail0 tr) (t, EvCli "inv_dealloc" [p])) (t, EvCli "free" [p])) (t, EvCli "ret_dealloc" []))
        with (rem1 p (avail avail0 tr ++ [p])).
      apply rem1_app_last; auto. }
    constructor.
    - exact E0.
    - exact E1.
    - intros u. destruct (Nat.eq_dec u t) as [->|Nu]; [|rewrite HownO by auto; apply E2].
      rewrite HownT. apply NoDup_rem1; auto.
    - intros u q0 Hq. eapply E3; eauto.
    - intros u u' q0 Nu Hq Hq'. eapply E4; eauto.
    - intros u. rewrite heldby_tag. destruct (Nat.eqb_spec u t) as [->|Nu].
      + rewrite held_dealloc_heap, updx_same, E5, Hx. reflexivity.
      + rewrite updx_other by auto. apply E5.
    - intros q0 Hq. apply (oldid_mono x).
      + intros u. destruct (Nat.eq_dec u t) as [->|Nu]; [rewrite updx_same, Hx; cbn; lia|rewrite updx_other by auto; lia].
      + apply E6. destruct Hq as [Hq|[u Hq]]; auto. right. eauto.
    - intros q0. rewrite avail_app, Hav. apply E7.
    - rewrite avail_app, Hav. exact E8.
    - intros u. rewrite busy_tag. destruct (Nat.eqb_spec u t) as [->|Nu].
      + intros _. exact Hs.
      + intros Hb. apply E9; auto.
  Qed.

End PoolInst.
