(** * Sorted association lists vs [MapSpec], and the invariants of the sequential skip list (all operation
      sequences).  Plain stdlib + lia. *)
From Coq Require Import ZArith List Bool Lia.
From LV Require Import Base.Lin Spec.Specs Model.SkipSeq.
Import ListNotations.
Local Open Scope Z_scope.

(** ** strictly increasing key lists *)
Fixpoint inc (l : list Z) : Prop :=
  match l with
  | [] => True
  | x :: r => Forall (Z.lt x) r /\ inc r
  end.

Definition ksorted (l : list (Z * Z)) : Prop := inc (map fst l).

Lemma inc_NoDup l : inc l -> NoDup l.
Proof.
  induction l as [|x r IH]; cbn; intros H; constructor.
  - destruct H as [H _]. intros Hin. rewrite Forall_forall in H. specialize (H _ Hin). lia.
  - apply IH, H.
Qed.

Lemma Forall_lt_trans x y l : x < y -> Forall (Z.lt y) l -> Forall (Z.lt x) l.
Proof. intros H F. eapply Forall_impl; [|exact F]. intros; cbn in *; lia. Qed.

(** *** lookups *)
Lemma sl_find_none_above k l : ksorted l -> (forall x, In x (map fst l) -> k < x) -> sl_find k l = None.
Proof.
  induction l as [|[k' v'] r IH]; cbn; intros S H; [reflexivity|].
  destruct (Z.eqb_spec k k') as [->|N].
  - specialize (H k' (or_introl eq_refl)). lia.
  - apply IH; [apply S|]. intros x Hx. apply H. now right.
Qed.

Lemma sl_put_keys ow k v l x : In x (map fst (sl_put ow k v l)) -> x = k \/ In x (map fst l).
Proof.
  induction l as [|[k' v'] r IH]; cbn [sl_put map fst].
  - cbn. intros [H|[]]; auto.
  - destruct (k <? k'); [cbn; intros [H|H]; auto|].
    destruct (k =? k'); [destruct ow; cbn; intros [H|H]; auto|].
    cbn. intros [H|H]; auto. destruct (IH H); auto.
Qed.

Lemma sl_put_sorted ow k v l : ksorted l -> ksorted (sl_put ow k v l).
Proof.
  unfold ksorted. induction l as [|[k' v'] r IH]; cbn [sl_put map fst inc]; intros S.
  - cbn. split; [constructor|exact I].
  - destruct S as [F S]. destruct (Z.ltb_spec k k') as [L|L].
    + cbn. split; [constructor; [exact L|eapply Forall_lt_trans; eauto]|]. split; auto.
    + destruct (Z.eqb_spec k k') as [->|N].
      * destruct ow; cbn; split; auto.
      * cbn. split; [|apply IH; exact S].
        rewrite Forall_forall in *. intros x Hx. destruct (sl_put_keys _ _ _ _ _ Hx) as [->|H]; [lia|auto].
Qed.

Lemma sl_put_find ow k v l : ksorted l -> forall j,
  sl_find j (sl_put ow k v l) =
  if j =? k then (match sl_find k l with Some v0 => if ow then Some v else Some v0 | None => Some v end)
  else sl_find j l.
Proof.
  unfold ksorted. induction l as [|[k' v'] r IH]; cbn [sl_put sl_find map fst inc]; intros S j.
  - cbn. destruct (j =? k); reflexivity.
  - destruct S as [F S]. destruct (Z.ltb_spec k k') as [L|L].
    + cbn [sl_find]. destruct (Z.eqb_spec j k) as [->|N]; [|reflexivity].
      destruct (Z.eqb_spec k k') as [->|_]; [lia|].
      rewrite sl_find_none_above; [reflexivity|exact S|].
      intros x Hx. rewrite Forall_forall in F. specialize (F _ Hx). lia.
    + destruct (Z.eqb_spec k k') as [->|N].
      * destruct ow; cbn [sl_find]; destruct (Z.eqb_spec j k') as [->|_]; try reflexivity;
          try (now rewrite Z.eqb_refl).
      * cbn [sl_find]. rewrite (IH S j). destruct (Z.eqb_spec j k') as [->|_].
        -- destruct (Z.eqb_spec k' k) as [->|_]; [congruence|reflexivity].
        -- reflexivity.
Qed.

Lemma sl_upd_sorted k v l : ksorted l -> ksorted (sl_upd k v l).
Proof.
  unfold ksorted. induction l as [|[k' v'] r IH]; cbn [sl_upd map fst inc]; intros S; [exact I|].
  destruct S as [F S]. destruct (Z.eqb_spec k k') as [->|N]; cbn; [split; auto|].
  split; [|apply IH; exact S].
  assert (E : map fst (sl_upd k v r) = map fst r).
  { clear. induction r as [|[a b] r IHr]; cbn; [reflexivity|]. destruct (Z.eqb_spec k a) as [->|_]; cbn; congruence. }
  now rewrite E.
Qed.

Lemma sl_upd_find k v l : forall j,
  sl_find j (sl_upd k v l) = if j =? k then (match sl_find k l with Some _ => Some v | None => None end) else sl_find j l.
Proof.
  induction l as [|[k' v'] r IH]; cbn [sl_upd sl_find]; intros j.
  - destruct (j =? k); reflexivity.
  - destruct (Z.eqb_spec k k') as [->|N]; cbn [sl_find].
    + destruct (Z.eqb_spec j k') as [->|_]; reflexivity.
    + rewrite IH. destruct (Z.eqb_spec j k') as [->|_]; [|reflexivity].
      destruct (Z.eqb_spec k' k) as [->|_]; [congruence|reflexivity].
Qed.

Lemma sl_del_keys_incl k l x : In x (map fst (sl_del k l)) -> In x (map fst l).
Proof.
  induction l as [|[k' v'] r IH]; cbn; [tauto|]. destruct (k =? k'); cbn; [tauto|]. intros [H|H]; auto.
Qed.

Lemma sl_del_sorted k l : ksorted l -> ksorted (sl_del k l).
Proof.
  unfold ksorted. induction l as [|[k' v'] r IH]; cbn [sl_del map fst inc]; intros S; [exact I|].
  destruct S as [F S]. destruct (k =? k'); [exact S|]. cbn. split; [|apply IH; exact S].
  rewrite Forall_forall in *. intros x Hx. apply F. eapply sl_del_keys_incl; eauto.
Qed.

Lemma sl_del_find k l : ksorted l -> forall j, sl_find j (sl_del k l) = if j =? k then None else sl_find j l.
Proof.
  unfold ksorted. induction l as [|[k' v'] r IH]; cbn [sl_del sl_find map fst inc]; intros S j.
  - destruct (j =? k); reflexivity.
  - destruct S as [F S]. destruct (Z.eqb_spec k k') as [->|N].
    + destruct (Z.eqb_spec j k') as [->|_]; [|reflexivity].
      apply sl_find_none_above; [exact S|]. intros x Hx. rewrite Forall_forall in F. apply F; exact Hx.
    + cbn [sl_find]. rewrite (IH S j). destruct (Z.eqb_spec j k') as [->|_]; [|reflexivity].
      destruct (Z.eqb_spec k' k) as [->|_]; [congruence|reflexivity].
Qed.

Lemma inc_app_inv l1 l2 : inc (l1 ++ l2) -> inc l1 /\ inc l2 /\ (forall x y, In x l1 -> In y l2 -> x < y).
Proof.
  induction l1 as [|a l1 IH]; cbn; intros H.
  - repeat split; auto. intros x y [].
  - destruct H as [F H]. destruct (IH H) as (I1 & I2 & I3). apply Forall_app in F. destruct F as [F1 F2].
    repeat split; auto. intros x y [<-|Hx] Hy; [rewrite Forall_forall in F2; apply F2; exact Hy|auto].
Qed.

Lemma removelast_sorted l : ksorted l -> ksorted (removelast l).
Proof.
  unfold ksorted. destruct l as [|x r] using rev_ind; [intros; exact I|].
  rewrite removelast_last, map_app. intros S. apply inc_app_inv in S. apply S.
Qed.

(** ** agreement with [Spec.Specs.MapSpec] *)
Definition min_key (m : list (Z * Z)) : option Z :=
  match map fst m with [] => None | x :: l => Some (zmin x l) end.
Definition max_key (m : list (Z * Z)) : option Z :=
  match map fst m with [] => None | x :: l => Some (zmax x l) end.

(** the specification of one operation on the [MapSpec] state; extract_min / extract_max erase the smallest /
    largest key of the state (the strict sequential meaning) *)
Definition spec_step (m : list (Z * Z)) (o : sop) : list (Z * Z) :=
  match o with
  | Ins k v => fst (map_step m (MInsert k v))
  | Ups k v => fst (map_step m (MUpdate k v true))
  | Upd k v => fst (map_step m (MUpdate k v false))
  | Del k => fst (map_step m (MErase k))
  | ExtMin => match min_key m with Some k => fst (map_step m (MErase k)) | None => m end
  | ExtMax => match max_key m with Some k => fst (map_step m (MErase k)) | None => m end
  end.
Definition spec_run (os : list sop) : list (Z * Z) := fold_left spec_step os [].

Definition agree (l m : list (Z * Z)) : Prop := forall j, sl_find j l = mfind j m.

Lemma mfind_cons j k v m : mfind j ((k, v) :: m) = if j =? k then Some v else mfind j m.
Proof. reflexivity. Qed.

Lemma mfind_mdel j k m : mfind j (mdel k m) = if j =? k then None else mfind j m.
Proof.
  unfold mdel. induction m as [|[k' v'] m IH]; cbn [filter mfind fst].
  - destruct (j =? k); reflexivity.
  - destruct (Z.eqb_spec k k') as [->|N]; cbn [negb mfind].
    + rewrite IH. destruct (Z.eqb_spec j k') as [->|_]; reflexivity.
    + rewrite IH. destruct (Z.eqb_spec j k') as [->|_]; [|reflexivity].
      destruct (Z.eqb_spec k' k) as [->|_]; [congruence|reflexivity].
Qed.

Lemma mhas_find k m : mhas k m = match mfind k m with Some _ => true | None => false end.
Proof. reflexivity. Qed.

Lemma mfind_in k m : In k (map fst m) <-> mfind k m <> None.
Proof.
  induction m as [|[k' v'] m IH]; cbn [map fst mfind In].
  - split; [intros []|congruence].
  - destruct (Z.eqb_spec k k') as [->|N]; split; intros H; try congruence; auto.
    + destruct H as [H|H]; [congruence|]. now apply IH.
    + right. now apply IH.
Qed.

Lemma sl_find_in k l : In k (map fst l) <-> sl_find k l <> None.
Proof.
  induction l as [|[k' v'] l IH]; cbn [map fst sl_find In].
  - split; [intros []|congruence].
  - destruct (Z.eqb_spec k k') as [->|N]; split; intros H; try congruence; auto.
    + destruct H as [H|H]; [congruence|]. now apply IH.
    + right. now apply IH.
Qed.

Lemma agree_keys l m : agree l m -> forall k, In k (map fst l) <-> In k (map fst m).
Proof. intros A k. rewrite sl_find_in, mfind_in, A. tauto. Qed.

Lemma fold_min_le' l : forall x, fold_left Z.min l x <= x /\ (forall y, In y l -> fold_left Z.min l x <= y).
Proof.
  induction l as [|a l IH]; intros x; cbn [fold_left]; [split; [lia|intros y []]|].
  destruct (IH (Z.min x a)) as [H1 H2]. split; [lia|]. intros y [->|Hy]; [lia|auto].
Qed.
Lemma fold_min_In' l : forall x, In (fold_left Z.min l x) (x :: l).
Proof.
  induction l as [|a l IH]; intros x; cbn [fold_left]; [now left|].
  destruct (IH (Z.min x a)) as [H|H].
  - rewrite <- H. destruct (Z.min_spec x a) as [[_ ->]|[_ ->]]; [now left|right; now left].
  - right; now right.
Qed.
Lemma fold_max_ge' l : forall x, x <= fold_left Z.max l x /\ (forall y, In y l -> y <= fold_left Z.max l x).
Proof.
  induction l as [|a l IH]; intros x; cbn [fold_left]; [split; [lia|intros y []]|].
  destruct (IH (Z.max x a)) as [H1 H2]. split; [lia|]. intros y [->|Hy]; [lia|auto].
Qed.
Lemma fold_max_In' l : forall x, In (fold_left Z.max l x) (x :: l).
Proof.
  induction l as [|a l IH]; intros x; cbn [fold_left]; [now left|].
  destruct (IH (Z.max x a)) as [H|H].
  - rewrite <- H. destruct (Z.max_spec x a) as [[_ ->]|[_ ->]]; [right; now left|now left].
  - right; now right.
Qed.

Lemma min_key_agree k0 v0 r m : ksorted ((k0, v0) :: r) -> agree ((k0, v0) :: r) m -> min_key m = Some k0.
Proof.
  intros S A. pose proof (agree_keys _ _ A) as K. unfold min_key.
  assert (Hk0 : In k0 (map fst m)) by (apply K; now left).
  destruct (map fst m) as [|x xs] eqn:E; [destruct Hk0|]. f_equal. unfold zmin.
  destruct (fold_min_le' xs x) as [L1 L2]. pose proof (fold_min_In' xs x) as Hin.
  assert (Hlow : forall y, In y (x :: xs) -> k0 <= y).
  { intros y Hy. apply K in Hy. cbn [map fst In] in Hy. destruct Hy as [<-|Hy]; [lia|].
    unfold ksorted in S. cbn [map fst inc] in S. destruct S as [F _]. rewrite Forall_forall in F. specialize (F _ Hy). lia. }
  specialize (Hlow _ Hin). destruct Hk0 as [<-|Hk0]; [lia|]. specialize (L2 _ Hk0). lia.
Qed.

Lemma max_key_agree l k1 v1 m : ksorted (l ++ [(k1, v1)]) -> agree (l ++ [(k1, v1)]) m -> max_key m = Some k1.
Proof.
  intros S A. pose proof (agree_keys _ _ A) as K. unfold max_key.
  assert (Hk1 : In k1 (map fst m)).
  { apply K. rewrite map_app. apply in_or_app. right. now left. }
  destruct (map fst m) as [|x xs] eqn:E; [destruct Hk1|]. f_equal. unfold zmax.
  destruct (fold_max_ge' xs x) as [L1 L2]. pose proof (fold_max_In' xs x) as Hin.
  assert (Hup : forall y, In y (x :: xs) -> y <= k1).
  { intros y Hy. apply K in Hy. rewrite map_app in Hy. apply in_app_or in Hy. destruct Hy as [Hy|[<-|[]]]; [|cbn; lia].
    unfold ksorted in S. rewrite map_app in S. apply inc_app_inv in S. destruct S as (_ & _ & S).
    specialize (S y k1 Hy (or_introl eq_refl)). lia. }
  specialize (Hup _ Hin). destruct Hk1 as [<-|Hk1]; [lia|]. specialize (L2 _ Hk1). lia.
Qed.

Lemma agree_nil_r m : agree [] m -> m = [].
Proof.
  intros A. destruct m as [|[k v] m]; [reflexivity|]. specialize (A k). cbn in A. rewrite Z.eqb_refl in A. discriminate.
Qed.

Lemma sl_del_last l k v : ksorted (l ++ [(k, v)]) -> sl_del k (l ++ [(k, v)]) = l.
Proof.
  unfold ksorted. induction l as [|[k' v'] l IH]; cbn [app sl_del map fst inc]; intros S.
  - now rewrite Z.eqb_refl.
  - destruct S as [F S]. destruct (Z.eqb_spec k k') as [->|N].
    + exfalso. rewrite Forall_forall in F. specialize (F k'). rewrite map_app in F.
      assert (k' < k') by (apply F; apply in_or_app; right; now left). lia.
    + f_equal. apply IH, S.
Qed.

Lemma agree_del l m k : ksorted l -> agree l m -> agree (sl_del k l) (fst (map_step m (MErase k))).
Proof.
  intros S A j. rewrite (sl_del_find k l S j). cbn [map_step]. rewrite mhas_find, <- A.
  destruct (sl_find k l) eqn:E; cbn [fst].
  - rewrite mfind_mdel, <- A. reflexivity.
  - rewrite <- A. destruct (Z.eqb_spec j k) as [->|_]; [now rewrite E|reflexivity].
Qed.

Theorem sl_step_agree l m o : ksorted l -> agree l m -> ksorted (sl_step l o) /\ agree (sl_step l o) (spec_step m o).
Proof.
  intros S A. destruct o as [k v|k v|k v|k| |]; cbn [sl_step spec_step].
  - split; [now apply sl_put_sorted|]. intros j. rewrite (sl_put_find false k v l S j). cbn [map_step].
    rewrite mhas_find, <- A. destruct (sl_find k l) eqn:E; cbn [fst].
    + rewrite <- A. destruct (Z.eqb_spec j k) as [->|_]; [now rewrite E|reflexivity].
    + rewrite mfind_cons, <- A. reflexivity.
  - split; [now apply sl_put_sorted|]. intros j. rewrite (sl_put_find true k v l S j). cbn [map_step].
    rewrite mhas_find, <- A. destruct (sl_find k l) eqn:E; cbn [fst].
    + rewrite mfind_cons, mfind_mdel, <- A. destruct (j =? k); reflexivity.
    + rewrite mfind_cons, <- A. reflexivity.
  - split; [now apply sl_upd_sorted|]. intros j. rewrite (sl_upd_find k v l j). cbn [map_step].
    rewrite mhas_find, <- A. destruct (sl_find k l) eqn:E; cbn [fst].
    + rewrite mfind_cons, mfind_mdel, <- A. destruct (j =? k); reflexivity.
    + rewrite <- A. destruct (Z.eqb_spec j k) as [->|_]; [now rewrite E|reflexivity].
  - split; [now apply sl_del_sorted|now apply agree_del].
  - destruct l as [|[k0 v0] r].
    + cbn [tl]. split; [exact I|]. rewrite (agree_nil_r _ A). intros j; reflexivity.
    + rewrite (min_key_agree _ _ _ _ S A). cbn [tl]. split; [apply S|].
      replace r with (sl_del k0 ((k0, v0) :: r)) at 1 by (cbn; now rewrite Z.eqb_refl).
      now apply agree_del.
  - destruct l as [|x r] using rev_ind.
    + cbn [removelast]. split; [exact I|]. rewrite (agree_nil_r _ A). intros j; reflexivity.
    + destruct x as [k1 v1]. rewrite (max_key_agree _ _ _ _ S A). rewrite removelast_last.
      split; [pose proof (removelast_sorted _ S) as R; now rewrite removelast_last in R|].
      rewrite <- (sl_del_last _ _ _ S). now apply agree_del.
Qed.

Lemma fold_agree os : forall l m, ksorted l -> agree l m ->
  ksorted (fold_left sl_step os l) /\ agree (fold_left sl_step os l) (fold_left spec_step os m).
Proof.
  induction os as [|o os IH]; intros l m S A; cbn [fold_left]; [split; assumption|].
  destruct (sl_step_agree _ _ o S A) as [S' A']. now apply IH.
Qed.

(** every sequence of operations: the sorted list stays strictly sorted and binds exactly what MapSpec binds *)
Theorem sl_run_spec os : ksorted (sl_run os) /\ forall k, sl_find k (sl_run os) = mfind k (spec_run os).
Proof. apply fold_agree; [exact I|intros j; reflexivity]. Qed.

(** ** the sequential skip list *)
Inductive sub {A} : list A -> list A -> Prop :=
| sub_nil l : sub [] l
| sub_skip x l1 l2 : sub l1 l2 -> sub l1 (x :: l2)
| sub_keep x l1 l2 : sub l1 l2 -> sub (x :: l1) (x :: l2).

Lemma sub_refl {A} (l : list A) : sub l l.
Proof. induction l; [apply sub_nil|apply sub_keep; auto]. Qed.

Lemma sub_In {A} (l1 l2 : list A) x : sub l1 l2 -> In x l1 -> In x l2.
Proof. induction 1; cbn; [tauto| |]; intros H'; [right; auto|destruct H'; [left|right]; auto]. Qed.

Lemma sub_map {A B} (f : A -> B) l1 l2 : sub l1 l2 -> sub (map f l1) (map f l2).
Proof. induction 1; cbn; [apply sub_nil|apply sub_skip; auto|apply sub_keep; auto]. Qed.

Lemma sub_filter {A} (p : A -> bool) l1 l2 : sub l1 l2 -> sub (filter p l1) (filter p l2).
Proof. induction 1; cbn; [apply sub_nil| |]; destruct (p x); auto; [apply sub_skip; auto|apply sub_keep; auto]. Qed.

Definition kv (n : snode) : Z * Z := (nkey n, nval n).
Definition inc_nodes (l : list snode) : Prop := inc (map nkey l).

Fixpoint chain (ls : list (list snode)) : Prop :=
  match ls with
  | l0 :: r => match r with l1 :: _ => sub l1 l0 | [] => True end /\ chain r
  | [] => True
  end.

(** the invariant of the sequential skip list: MAXH levels, every level strictly sorted by key (no key twice),
    every level a sub-list of the level below *)
Definition skinv (ls : list (list snode)) : Prop :=
  length ls = MAXH /\ Forall inc_nodes ls /\ chain ls.

Lemma lv_has_In k l : lv_has k l = true <-> In k (map nkey l).
Proof.
  induction l as [|n r IH]; cbn; [split; [discriminate|tauto]|].
  rewrite orb_true_iff, IH, Z.eqb_eq. split; intros [H|H]; auto.
Qed.

Lemma lv_link_keys n l x : In x (map nkey (lv_link n l)) <-> x = nkey n \/ In x (map nkey l).
Proof.
  induction l as [|m r IH]; cbn [lv_link map In]; [intuition congruence|].
  destruct (nkey n <? nkey m); cbn [map In]; [intuition congruence|]. rewrite IH. intuition congruence.
Qed.

Lemma lv_link_sorted n l : inc_nodes l -> ~ In (nkey n) (map nkey l) -> inc_nodes (lv_link n l).
Proof.
  unfold inc_nodes. induction l as [|m r IH]; cbn [lv_link map inc In]; intros S N.
  - split; [constructor|exact I].
  - destruct S as [F S]. destruct (Z.ltb_spec (nkey n) (nkey m)) as [L|L]; cbn [map inc].
    + split; [constructor; [exact L|eapply Forall_lt_trans; eauto]|split; auto].
    + split; [|apply IH; tauto]. rewrite Forall_forall in *. intros x Hx. apply lv_link_keys in Hx.
      destruct Hx as [->|Hx]; [|auto]. assert (nkey m <> nkey n) by tauto. lia.
Qed.

Lemma lv_link_head n l : inc_nodes l -> (forall x, In x (map nkey l) -> nkey n < x) -> lv_link n l = n :: l.
Proof.
  destruct l as [|m r]; cbn [lv_link]; [reflexivity|]. intros _ H.
  assert (nkey n < nkey m) by (apply H; now left). destruct (Z.ltb_spec (nkey n) (nkey m)); [reflexivity|lia].
Qed.

Lemma sub_link_both n l1 l0 : sub l1 l0 -> inc_nodes l0 -> sub (lv_link n l1) (lv_link n l0).
Proof.
  induction 1 as [l|x l1 l2 Hs IH|x l1 l2 Hs IH]; intros S.
  - cbn [lv_link]. induction l as [|m r IHr]; cbn [lv_link]; [apply sub_refl|].
    destruct (nkey n <? nkey m); [apply sub_keep, sub_nil|]. apply sub_skip, IHr.
    unfold inc_nodes in *. cbn in S. apply S.
  - unfold inc_nodes in S. cbn [map inc] in S. destruct S as [F S]. cbn [lv_link].
    destruct (Z.ltb_spec (nkey n) (nkey x)) as [L|L].
    + rewrite lv_link_head.
      * apply sub_keep, sub_skip, Hs.
      * unfold inc_nodes. clear -Hs S. revert S. induction Hs; cbn; intros S; auto; try tauto.
        destruct S as [F S]. split; [|auto]. rewrite Forall_forall in *. intros y Hy. apply F.
        eapply sub_In; [apply sub_map; exact Hs|exact Hy].
      * intros y Hy. rewrite Forall_forall in F. assert (nkey x < y); [|lia]. apply F.
        eapply sub_In; [apply sub_map; exact Hs|exact Hy].
    + apply sub_skip, IH, S.
  - unfold inc_nodes in S. cbn [map inc] in S. destruct S as [F S]. cbn [lv_link].
    destruct (nkey n <? nkey x); [apply sub_keep, sub_keep, Hs|apply sub_keep, IH, S].
Qed.

Lemma sub_link_lower n l1 l0 : sub l1 l0 -> sub l1 (lv_link n l0).
Proof.
  induction 1 as [l|x l1 l2 Hs IH|x l1 l2 Hs IH]; [apply sub_nil| |]; cbn [lv_link];
    destruct (nkey n <? nkey x).
  - apply sub_skip, sub_skip, Hs.
  - apply sub_skip, IH.
  - apply sub_skip, sub_keep, Hs.
  - apply sub_keep, IH.
Qed.

Lemma sub_trans {A} (l1 l2 l3 : list A) : sub l1 l2 -> sub l2 l3 -> sub l1 l3.
Proof.
  intros H12 H23. revert l1 H12. induction H23 as [l|x l2 l3 H IH|x l2 l3 H IH]; intros l1 H12.
  - inversion H12; constructor.
  - apply sub_skip, IH, H12.
  - inversion H12; subst; [constructor|apply sub_skip; auto|apply sub_keep; auto].
Qed.

Lemma chain_sub_level0 ls : chain ls -> forall l, In l ls -> sub l (level0 ls).
Proof.
  induction ls as [|l0 r IH]; cbn [chain In level0 hd]; intros C l Hin; [destruct Hin|].
  destruct Hin as [<-|Hin]; [apply sub_refl|]. destruct C as [C0 C]. destruct r as [|l1 r']; [destruct Hin|].
  eapply sub_trans; [apply IH; [exact C|exact Hin]|exact C0].
Qed.

Lemma map_below_length f h ls : length (map_below f h ls) = length ls.
Proof. revert h; induction ls as [|l r IH]; intros [|h]; cbn; auto. Qed.

Lemma map_below_inv n : forall h ls,
  Forall inc_nodes ls -> chain ls -> (forall l, In l ls -> ~ In (nkey n) (map nkey l)) ->
  Forall inc_nodes (map_below (lv_link n) h ls) /\ chain (map_below (lv_link n) h ls).
Proof.
  induction h as [|h IH]; intros ls F C N.
  - destruct ls; cbn; auto.
  - destruct ls as [|l0 r]; cbn [map_below]; [auto|].
    inversion F as [|? ? F0 Fr]; subst. cbn [chain] in C. destruct C as [C0 C].
    destruct (IH r Fr C (fun l Hl => N l (or_intror Hl))) as [F' C'].
    split; [constructor; [apply lv_link_sorted; [exact F0|apply N; now left]|exact F']|].
    cbn [chain]. split; [|exact C'].
    destruct r as [|l1 r']; [destruct h; cbn; exact I|].
    destruct h as [|h']; cbn [map_below].
    + now apply sub_link_lower.
    + now apply sub_link_both.
Qed.

Lemma sk_insert_inv k v h ls : skinv ls -> skinv (sk_insert k v h ls).
Proof.
  intros (L & F & C). unfold sk_insert. destruct (lv_has k (level0 ls)) eqn:E; [repeat split; auto|].
  assert (N : forall l, In l ls -> ~ In (nkey (k, v, clamp h)) (map nkey l)).
  { intros l Hl Hin. cbn in Hin. assert (In k (map nkey (level0 ls))).
    { eapply sub_In; [apply sub_map, chain_sub_level0; eauto|exact Hin]. }
    apply lv_has_In in H. congruence. }
  destruct (map_below_inv (k, v, clamp h) (clamp h) ls F C N) as [F' C'].
  repeat split; auto. now rewrite map_below_length.
Qed.

Lemma chain_map f : (forall l1 l0, sub l1 l0 -> sub (f l1) (f l0)) -> forall ls, chain ls -> chain (map f ls).
Proof.
  intros Hf. induction ls as [|l0 r IH]; cbn [map chain]; [auto|]. intros [C0 C]. split; [|auto].
  destruct r as [|l1 r']; cbn [map]; auto.
Qed.

Lemma lv_setval_keys k v l : map nkey (lv_setval k v l) = map nkey l.
Proof.
  unfold lv_setval. rewrite map_map. apply map_ext_in. intros m _.
  destruct (Z.eqb_spec k (nkey m)) as [->|_]; reflexivity.
Qed.

Lemma sk_update_inv k v ls : skinv ls -> skinv (sk_update k v ls).
Proof.
  intros (L & F & C). unfold sk_update. repeat split.
  - now rewrite map_length.
  - rewrite Forall_forall in *. intros l Hl. apply in_map_iff in Hl. destruct Hl as (l' & <- & Hl').
    unfold inc_nodes. rewrite lv_setval_keys. now apply F.
  - apply chain_map; [|exact C]. intros. now apply sub_map.
Qed.

Lemma inc_filter (p : Z -> bool) l : inc l -> inc (filter p l).
Proof.
  induction l as [|x r IH]; cbn; [auto|]. intros [F S]. destruct (p x); cbn; [|auto]. split; [|auto].
  rewrite Forall_forall in *. intros y Hy. apply F. apply filter_In in Hy. tauto.
Qed.

Lemma lv_unlink_keys k l : map nkey (lv_unlink k l) = filter (fun x => negb (k =? x)) (map nkey l).
Proof. unfold lv_unlink. induction l as [|m r IH]; cbn; [reflexivity|]. destruct (k =? nkey m); cbn; congruence. Qed.

Lemma sk_erase_inv k ls : skinv ls -> skinv (sk_erase k ls).
Proof.
  intros (L & F & C). unfold sk_erase. repeat split.
  - now rewrite map_length.
  - rewrite Forall_forall in *. intros l Hl. apply in_map_iff in Hl. destruct Hl as (l' & <- & Hl').
    unfold inc_nodes. rewrite lv_unlink_keys. apply inc_filter. now apply F.
  - apply chain_map; [|exact C]. intros. now apply sub_filter.
Qed.

Theorem sk_step_inv ls oh : skinv ls -> skinv (sk_step ls oh).
Proof.
  intros H. destruct oh as [o h]. destruct o; cbn [sk_step].
  - now apply sk_insert_inv.
  - destruct (lv_has k (level0 ls)); [now apply sk_update_inv|now apply sk_insert_inv].
  - now apply sk_update_inv.
  - now apply sk_erase_inv.
  - destruct (level0 ls); [exact H|now apply sk_erase_inv].
  - destruct (rev (level0 ls)); [exact H|now apply sk_erase_inv].
Qed.

Lemma sk_init_inv : skinv sk_init.
Proof.
  unfold sk_init, skinv. rewrite repeat_length. split; [reflexivity|]. split.
  - apply Forall_forall. intros l Hl. apply repeat_spec in Hl. subst. exact I.
  - cbn. repeat split; constructor.
Qed.

Theorem sk_run_inv os : skinv (sk_run os).
Proof.
  unfold sk_run. generalize sk_init_inv. generalize sk_init. induction os as [|o os IH]; intros ls H; cbn [fold_left]; [exact H|].
  apply IH. now apply sk_step_inv.
Qed.

(** *** the level-0 traversal of the skip list is the sorted association list of the same operations *)
Lemma map_kv_keys l : map fst (map kv l) = map nkey l.
Proof. rewrite map_map. reflexivity. Qed.

Lemma level0_map_below f h ls : ls <> [] -> (1 <= h)%nat -> level0 (map_below f h ls) = f (level0 ls).
Proof. destruct ls as [|l r]; [congruence|]. destruct h; [lia|]. reflexivity. Qed.

Lemma clamp_pos h : (1 <= clamp h)%nat.
Proof. unfold clamp. destruct (Nat.ltb_spec h 1); [lia|]. destruct (Nat.ltb_spec MAXH h); unfold MAXH in *; lia. Qed.

Lemma kv_link n l : ~ In (nkey n) (map nkey l) -> map kv (lv_link n l) = sl_put false (nkey n) (nval n) (map kv l).
Proof.
  induction l as [|m r IH]; cbn [lv_link map sl_put In]; intros N; [reflexivity|].
  unfold kv at 2. destruct (nkey n <? nkey m) eqn:E; [reflexivity|].
  destruct (Z.eqb_spec (nkey n) (nkey m)) as [Eq|_]; [exfalso; apply N; now left|].
  cbn [map]. f_equal. apply IH. tauto.
Qed.

Lemma sl_put_present k v l : ksorted l -> In k (map fst l) -> sl_put false k v l = l.
Proof.
  unfold ksorted. induction l as [|[k' v'] r IH]; cbn [sl_put map fst inc In]; intros S H; [destruct H|].
  destruct S as [F S]. destruct (Z.ltb_spec k k') as [L|L].
  - exfalso. destruct H as [H|H]; [lia|]. rewrite Forall_forall in F. specialize (F _ H). lia.
  - destruct (Z.eqb_spec k k') as [_|N]; [reflexivity|]. f_equal. apply IH; [exact S|]. destruct H; [congruence|assumption].
Qed.

Lemma sl_put_upd k v l : ksorted l -> In k (map fst l) -> sl_put true k v l = sl_upd k v l.
Proof.
  unfold ksorted. induction l as [|[k' v'] r IH]; cbn [sl_put sl_upd map fst inc In]; intros S H; [destruct H|].
  destruct S as [F S]. destruct (Z.ltb_spec k k') as [L|L].
  - exfalso. destruct H as [H|H]; [lia|]. rewrite Forall_forall in F. specialize (F _ H). lia.
  - destruct (Z.eqb_spec k k') as [_|N]; [reflexivity|]. f_equal. apply IH; [exact S|]. destruct H; [congruence|assumption].
Qed.

Lemma kv_setval k v l : inc_nodes l -> map kv (lv_setval k v l) = sl_upd k v (map kv l).
Proof.
  unfold inc_nodes, lv_setval. induction l as [|m r IH]; cbn [map sl_upd inc]; intros S; [reflexivity|].
  destruct S as [F S]. unfold kv at 3. destruct (Z.eqb_spec k (nkey m)) as [E|N].
  - unfold kv at 1. cbn [nkey nval fst snd]. f_equal. rewrite map_map. apply map_ext_in. intros a Ha.
    destruct (Z.eqb_spec k (nkey a)) as [E'|_]; [|reflexivity].
    exfalso. rewrite Forall_forall in F. specialize (F (nkey a) (in_map nkey _ _ Ha)). lia.
  - fold (kv m). f_equal. apply IH, S.
Qed.

Lemma filter_all {A} (p : A -> bool) l : (forall a, In a l -> p a = true) -> filter p l = l.
Proof.
  induction l as [|a r IH]; cbn; intros H; [reflexivity|]. rewrite (H a (or_introl eq_refl)). f_equal. apply IH. auto.
Qed.

Lemma kv_unlink k l : inc_nodes l -> map kv (lv_unlink k l) = sl_del k (map kv l).
Proof.
  unfold inc_nodes, lv_unlink. induction l as [|m r IH]; cbn [map filter sl_del inc]; intros S; [reflexivity|].
  destruct S as [F S]. unfold kv at 2. destruct (Z.eqb_spec k (nkey m)) as [E|N]; cbn [negb].
  - rewrite filter_all; [reflexivity|]. intros a Ha. rewrite Forall_forall in F.
    specialize (F (nkey a) (in_map nkey _ _ Ha)). destruct (Z.eqb_spec k (nkey a)); [lia|reflexivity].
  - cbn [map]. fold (kv m). f_equal. apply IH, S.
Qed.

Lemma unlink_last l n : inc_nodes (l ++ [n]) -> lv_unlink (nkey n) (l ++ [n]) = l.
Proof.
  unfold inc_nodes, lv_unlink. rewrite map_app. intros S. apply inc_app_inv in S. destruct S as (_ & _ & S).
  rewrite filter_app. cbn. rewrite Z.eqb_refl. cbn. rewrite app_nil_r.
  assert (H : forall a, In a l -> nkey a < nkey n) by (intros a Ha; apply S; [now apply in_map|now left]).
  clear S. induction l as [|a r IH]; cbn; [reflexivity|].
  destruct (Z.eqb_spec (nkey n) (nkey a)) as [E|_]; [specialize (H a (or_introl eq_refl)); lia|].
  cbn. f_equal. apply IH. intros b Hb. apply H. now right.
Qed.

Theorem sk_step_traverse ls o h : skinv ls -> sk_traverse (sk_step ls (o, h)) = sl_step (sk_traverse ls) o.
Proof.
  intros (L & F & C). unfold sk_traverse. change (fun n : snode => (nkey n, nval n)) with kv.
  assert (NE : ls <> []) by (intros ->; discriminate L).
  assert (S0 : inc_nodes (level0 ls)).
  { destruct ls as [|l0 r]; [congruence|]. inversion F; subst. assumption. }
  assert (KS : ksorted (map kv (level0 ls))) by (unfold ksorted; now rewrite map_kv_keys).
  assert (L0 : forall f, level0 (map f ls) = f (level0 ls)) by (intros f; destruct ls; [congruence|reflexivity]).
  assert (INS : forall k v, map kv (level0 (sk_insert k v h ls)) = sl_put false k v (map kv (level0 ls))).
  { intros k v. unfold sk_insert. destruct (lv_has k (level0 ls)) eqn:E.
    - symmetry. apply sl_put_present; [exact KS|]. rewrite map_kv_keys. now apply lv_has_In.
    - rewrite level0_map_below by (auto using clamp_pos). rewrite kv_link; [reflexivity|].
      cbn. intros Hin. apply lv_has_In in Hin. congruence. }
  destruct o as [k v|k v|k v|k| |]; cbn [sk_step sl_step].
  - apply INS.
  - destruct (lv_has k (level0 ls)) eqn:E.
    + unfold sk_update. rewrite L0, kv_setval by exact S0. symmetry. apply sl_put_upd; [exact KS|].
      rewrite map_kv_keys. now apply lv_has_In.
    + rewrite INS. clear INS. assert (N : ~ In k (map fst (map kv (level0 ls)))).
      { rewrite map_kv_keys. intros Hin. apply lv_has_In in Hin. congruence. }
      clear -N KS. revert KS N. generalize (map kv (level0 ls)) as l. unfold ksorted.
      induction l as [|[k' v'] r IH]; cbn [sl_put map fst inc In]; intros S N; [reflexivity|].
      destruct (k <? k'); [reflexivity|]. destruct (Z.eqb_spec k k') as [->|_]; [tauto|]. f_equal. apply IH; tauto.
  - unfold sk_update. now rewrite L0, kv_setval.
  - unfold sk_erase. now rewrite L0, kv_unlink.
  - destruct (level0 ls) as [|n r] eqn:E0.
    + rewrite ?E0. reflexivity.
    + unfold sk_erase. rewrite L0. rewrite kv_unlink by (first [exact S0|rewrite E0; exact S0|rewrite <- E0; exact S0]). rewrite ?E0.
      cbn [map sl_del tl]. unfold kv at 1. cbn [fst]. now rewrite Z.eqb_refl.
  - destruct (rev (level0 ls)) as [|n r'] eqn:E0.
    + assert (E1 : level0 ls = []) by (rewrite <- (rev_involutive (level0 ls)), E0; reflexivity).
      rewrite E1. reflexivity.
    + assert (E1 : level0 ls = rev r' ++ [n]) by (rewrite <- (rev_involutive (level0 ls)), E0; reflexivity).
      unfold sk_erase. rewrite L0, E1. rewrite unlink_last by (rewrite <- E1; exact S0).
      rewrite map_app. cbn [map]. now rewrite removelast_last.
Qed.

Theorem sk_run_traverse os : sk_traverse (sk_run os) = sl_run (map fst os).
Proof.
  unfold sk_run, sl_run. assert (H : sk_traverse sk_init = []) by reflexivity. rewrite <- H.
  generalize sk_init_inv. generalize sk_init. induction os as [|[o h] os IH]; intros ls I; cbn [fold_left map fst]; [reflexivity|].
  rewrite <- (sk_step_traverse _ o h I). apply IH. now apply sk_step_inv.
Qed.
