(** * general_buffered: grace-period safety.  Product of the gp invariant (LV.Proofs.RcuGpInv) and the epoch
      invariant (LV.Proofs.RcuBufEpoch); the programs of the gp core are lifted, the programs of gpb.h are
      proved against the product. *)
From Coq Require Import ZArith List String Bool Lia PeanoNat.
From LV Require Import Base.Conc Base.Events Model.RcuGp Model.RcuBuf Proofs.RcuBits Proofs.RcuGpInv Proofs.RcuGpSteps
  Proofs.RcuGpWriter Proofs.RcuGpExtra Proofs.RcuGpSafe Proofs.RcuBufInv Proofs.RcuBufEpoch Proofs.RcuBufSafe.
Import ListNotations.
Local Open Scope string_scope.
Local Open Scope list_scope.
Local Open Scope Z_scope.

Definition Aux12 := (Aux * AuxE)%type.
Definition L12 := (L * LE)%type.
Definition view12 (a : Aux12) (t : nat) : L12 := (view (fst a) t, viewE (snd a) t).
Definition Inv12 (g : G) (a : Aux12) (tr : trace) : Prop := Inv g (fst a) tr /\ InvE g (snd a) tr.

Notation safe1 := (@Conc.safe G V ev Aux L view Inv).
Notation safe12 := (@Conc.safe G V ev Aux12 L12 view12 Inv12).

Lemma frame12 t a1 a1' aE aE' :
  Conc.frame view t a1 a1' -> Conc.frame viewE t aE aE' -> Conc.frame view12 t (a1, aE) (a1', aE').
Proof. intros F1 F2 t' H. unfold view12. cbn [fst snd]. rewrite (F1 t' H), (F2 t' H). reflexivity. Qed.

Lemma frameE_refl t a : Conc.frame viewE t a a.
Proof. intros ? ?; reflexivity. Qed.

Lemma safe12_bind {A B} t (p : prog A) (q : A -> prog B) Q l :
  safe12 t p l (fun r l' => safe12 t (q r) l' Q) -> safe12 t (bind p q) l Q.
Proof. apply Conc.safe_bind. Qed.

(** ** lifting the programs of the gp core *)
Lemma safe_lift {R} t (p : prog R) : core p -> forall l1 lE (Q1 : R -> L -> Prop),
  safe1 t p l1 Q1 -> safe12 t p (l1, lE) (fun r l' => Q1 r (fst l') /\ snd l' = lE).
Proof.
  induction p as [r|es k IH|f k IH]; intros Hc l1 lE Q1 Hs; cbn [Conc.safe core] in *.
  - split; [exact Hs|reflexivity].
  - destruct Hc as ((e & -> & Hp) & Hk). intros g [a1 aE] tr (HI & HE) Hv. unfold view12 in Hv. cbn [fst snd] in *.
    injection Hv as Hv1 HvE.
    destruct (Hs g a1 tr HI Hv1) as (a1' & H1 & H2 & H3).
    exists (a1', aE). split; [split; [exact H1|apply InvE_keep with (g := g); auto]|].
    split; [apply frame12; [exact H2|apply frameE_refl]|].
    unfold view12. cbn [fst snd]. rewrite HvE. apply IH; assumption.
  - destruct Hc as (Hf & Hk). intros g [a1 aE] tr (HI & HE) Hv. unfold view12 in Hv. cbn [fst snd] in *.
    injection Hv as Hv1 HvE.
    destruct (Hs g a1 tr HI Hv1) as (a1' & H1 & H2 & H3). destruct (Hf g) as ((Eb & Ee) & _).
    exists (a1', aE). split; [split; [exact H1|apply InvE_keep with (g := g); auto]|].
    split; [apply frame12; [exact H2|apply frameE_refl]|].
    unfold view12. cbn [fst snd]. rewrite HvE. apply IH; auto.
Qed.

(** an access of gpb.h that touches neither the gp state nor buffer / epoch, without change of ghost state *)
Lemma safe12_act_plain {R} t (f : act) (k : V -> prog R) l Q :
  (forall g, g_list (fst (fst (f g))) = g_list g /\ g_nrec (fst (fst (f g))) = g_nrec g /\ g_tid (fst (fst (f g))) = g_tid g /\
             g_acc (fst (fst (f g))) = g_acc g /\ g_lock (fst (fst (f g))) = g_lock g /\ g_ctl (fst (fst (f g))) = g_ctl g /\
             g_buf (fst (fst (f g))) = g_buf g /\ g_epoch (fst (fst (f g))) = g_epoch g /\
             exists k0 o ok, snd (f g) = [EvAcc k0 o ok]) ->
  (forall v, safe12 t (k v) l Q) -> safe12 t (Act f k) l Q.
Proof.
  intros Hf Hk. cbn [Conc.safe]. intros g [a1 aE] tr (HI & HE) Hv.
  destruct (Hf g) as (F1 & F2 & F3 & F4 & F5 & F6 & F7 & F8 & k0 & o & ok & Ee).
  exists (a1, aE). rewrite Ee. split; [split; cbn [fst snd]; [rewrite tag1; apply Inv_acc with (g := g); auto|apply InvE_keep with (g := g); auto]|].
  split; [intros ? ?; reflexivity|]. rewrite Hv. apply Hk.
Qed.

Ltac plain12 :=
  let g := fresh "g" in
  intros g; cbv beta delta [a_epoch_ld a_buf_size a_begin acc]; cbn; repeat (split; [reflexivity|]); eexists _, _, _; reflexivity.

(** a neutral client event *)
Lemma safe12_emit_neutral {R} t name args (k : prog R) l Q :
  neutral (EvCli name args) -> safe12 t k l Q -> safe12 t (Emit (cli name args) k) l Q.
Proof.
  intros N H. cbn [Conc.safe]. intros g [a1 aE] tr (HI & HE) Hv. exists (a1, aE).
  split; [split; cbn [fst snd]; [unfold cli; rewrite tag1; apply Inv_cli_neutral; assumption|apply InvE_keep with (g := g); auto]|].
  split; [intros ? ?; reflexivity|]. rewrite Hv. exact H.
Qed.

Definition HsBelow (i : nat) (hs : list hent) : Prop := forall p oe k, In (p, oe, k) hs -> (k < i)%nat.
Definition SmB (l : L) (i : nat) : Prop := forall j, l_sm l = Some j -> (j <= i)%nat.

Lemma HsBelow_mono i i' hs : (i <= i')%nat -> HsBelow i hs -> HsBelow i' hs.
Proof. intros H B p oe k Hin. specialize (B p oe k Hin). lia. Qed.
Lemma SmB_mono l i i' : (i <= i')%nat -> SmB l i -> SmB l i'.
Proof. intros H B j Hj. specialize (B j Hj). lia. Qed.

Section Gpb.
  Variables (sfuel : nat) (cap : Z) (cnt : bool).
  Variable t : nat.

  (** "dispose p" of my first entry, retired before the start [i] of my completed grace period *)
  Lemma safe12_dispose {R} p oe k hs es i l1 (k0 : prog R) Q :
    l_w l1 = WFin i -> (k < i)%nat -> safe12 t k0 (l1, (hs, es)) Q ->
    safe12 t (Emit (cli "dispose" [p]) k0) (l1, ((p, oe, k) :: hs, es)) Q.
  Proof.
    intros Hw Hki Hk. cbn [Conc.safe]. intros g [a1 aE] tr (HI & HE) Hv. unfold view12, view, viewE in Hv. cbn [fst snd] in *.
    injection Hv as Hv1 Hm Hs.
    assert (Hin : In (t, (p, oe, k)) (e_h aE)) by (apply gmine_in; rewrite Hm; left; reflexivity).
    destruct (hand_retired _ _ _ _ _ _ _ HE Hin) as (_ & w' & Hat).
    exists (a1, mkE (e_buf aE) (grmf t (e_h aE)) (e_s aE)). split; [split; cbn [fst snd]|].
    - unfold cli. rewrite tag1. eapply step_ev_dispose_keep with (i := i); eauto; [rewrite Hv1; exact Hw|lia].
    - apply InvE_drop; exact HE.
    - split; [apply frame12; [apply frame_refl|apply frameE_rmf]|].
      unfold view12, view, viewE. cbn [fst snd e_h e_s]. rewrite (gmine_grmf_head _ _ _ _ Hm), Hv1, Hs. exact Hk.
  Qed.

  Definition PPushE (rf : nat) : Prop := forall p e k hs es l1 (Q : bool -> L12 -> Prop),
    ~ holder (l_w l1) ->
    (forall w' es', ~ holder w' -> (forall i, l_w l1 = WFin i -> exists i', w' = WFin i' /\ (i <= i')%nat) ->
       Q true (set_w l1 w', (hs, es'))) ->
    (forall l', Q false l') ->
    safe12 t (push_buffer 2 sfuel cap cnt rf p e) (l1, ((p, Some e, k) :: hs, es)) Q.

  Definition PSyncE (rf : nat) : Prop := forall hs es l1 (Q : bool -> L12 -> Prop),
    ~ holder (l_w l1) ->
    (forall i' es', HsBelow i' hs -> SmB l1 i' -> (forall i, l_w l1 = WFin i -> (i <= i')%nat) ->
       Q true (set_w l1 (WFin i'), (hs, es'))) ->
    (forall l', Q false l') ->
    safe12 t (synchronize 2 sfuel cap cnt rf) (l1, (hs, es)) Q.

  Definition PClearE (rf : nat) : Prop := forall n i hs l1 (Q : bool -> L12 -> Prop),
    l_w l1 = WFin i ->
    (forall i' es', (i <= i')%nat -> Q true (set_w l1 (WFin i'), (hs, es'))) ->
    (forall l', Q false l') ->
    safe12 t (clear_buffer 2 sfuel cap cnt rf n) (l1, (hs, EIn i n)) Q.

  Lemma set_w_same l : set_w l (l_w l) = l.
  Proof. destruct l; reflexivity. Qed.

  Lemma safe12_size_reached {R} (k : bool -> prog R) l Q :
    (forall b, safe12 t (k b) l Q) -> safe12 t (size_reached cap cnt k) l Q.
  Proof.
    intros H. unfold size_reached. destruct cnt; [|apply H].
    apply safe12_act_plain; [plain12|]. intros v. apply H.
  Qed.

  Lemma safe_gpbE rf : PPushE rf /\ PSyncE rf /\ PClearE rf.
  Proof.
    induction rf as [|f (IHp & IHs & IHc)]; unfold PPushE, PSyncE, PClearE in *.
    { split; [|split].
      - intros p e k hs es l1 Q _ HT HF. cbn [push_buffer Conc.safe]. apply HF.
      - intros hs es l1 Q _ HT HF. cbn [synchronize Conc.safe]. apply HF.
      - intros n i hs l1 Q _ HT HF. cbn [clear_buffer Conc.safe]. apply HF. }
    (* clear_buffer *)
    assert (HC : forall n i hs l1 (Q : bool -> L12 -> Prop),
      l_w l1 = WFin i ->
      (forall i' es', (i <= i')%nat -> Q true (set_w l1 (WFin i'), (hs, es'))) -> (forall l', Q false l') ->
      safe12 t (clear_buffer 2 sfuel cap cnt (S f) n) (l1, (hs, EIn i n)) Q).
    { intros n i hs l1 Q Hw HT HF. cbn [clear_buffer Conc.safe]. intros g [a1 aE] tr (HI & HE) Hv.
      unfold view12, view, viewE in Hv. cbn [fst snd] in *. injection Hv as Hv1 Hm Hs. unfold a_buf_pop.
      destruct (g_buf g) as [|[p e] r] eqn:Eb; cbn [fst snd vp].
      - exists (a1, aE). split; [split; cbn [fst snd]; [unfold acc; rewrite tag1; apply Inv_acc with (g := g); auto|apply InvE_keep with (g := g); auto]|].
        split; [intros ? ?; reflexivity|]. unfold view12, view, viewE. cbn [fst snd]. rewrite Hv1, Hm, Hs. cbn.
        rewrite <- (set_w_same l1) at 1. rewrite Hw. apply HT. lia.
      - destruct (InvE_pop g aE tr t p e r [(t, EvAcc KCas obj_bpop true)] Eb HE) as (k & rest & Ebuf & HE').
        exists (a1, mkE rest ((t, (p, Some e, k)) :: e_h aE) (e_s aE)). split; [split; cbn [fst snd]|].
        + unfold acc. rewrite tag1. apply Inv_acc with (g := g); auto.
        + unfold acc. rewrite tag1. exact HE'.
        + split; [apply frame12; [apply frame_refl|apply frameE_cons]|].
          unfold view12, view, viewE. cbn [fst snd e_h e_s]. rewrite gmine_cons_same, Hv1, Hm, Hs.
          destruct (e <=? n) eqn:Ele.
          * apply Z.leb_le in Ele.
            assert (Hki : (k < i)%nat).
            { assert (X : In (t, (p, Some e, k)) (e_h (mkE rest ((t, (p, Some e, k)) :: e_h aE) (e_s aE)))) by (left; reflexivity).
              destruct (epoch_lemma _ _ _ _ _ _ _ i n HE' X) as (Y & _); auto. }
            eapply safe12_dispose; [exact Hw|exact Hki|]. apply IHc; auto.
          * apply IHp; [rewrite Hw; intros []| |exact HF].
            intros w' es' Hn Hlv. destruct (Hlv i Hw) as (i' & -> & Hii). apply HT; exact Hii. }
    (* synchronize *)
    assert (HS : forall hs es l1 (Q : bool -> L12 -> Prop),
      ~ holder (l_w l1) ->
      (forall i' es', HsBelow i' hs -> SmB l1 i' -> (forall i, l_w l1 = WFin i -> (i <= i')%nat) ->
         Q true (set_w l1 (WFin i'), (hs, es'))) -> (forall l', Q false l') ->
      safe12 t (synchronize 2 sfuel cap cnt (S f)) (l1, (hs, es)) Q).
    { intros hs es l1 Q Hn HT HF. cbn [synchronize Conc.safe]. intros g [a1 aE] tr (HI & HE) Hv.
      unfold view12, view, viewE in Hv. cbn [fst snd] in *. injection Hv as Hv1 Hm Hs. unfold a_epoch_ld. cbn [fst snd].
      (* the epoch load: choose the start marker *)
      remember (List.length tr) as m eqn:Em.
      assert (Hlv : forall i, l_w l1 = WFin i -> (i <= m)%nat).
      { intros i Hw. rewrite Em. destruct HI as (_ & _ & I3 & _). apply (WB _ _ I3 t i). rewrite Hv1, Hw. reflexivity. }
      exists (updA a1 t (set_w (a1 t) (WStart m)), aE). split; [split; cbn [fst snd]|].
      - unfold acc. rewrite tag1, Em. apply step_mark with (g := g); auto. rewrite Hv1; exact Hn.
      - apply InvE_keep with (g := g); auto.
      - split; [apply frame12; [apply frame_updA|apply frameE_refl]|].
        unfold view12, view, viewE. cbn [fst snd]. rewrite updA_same, Hv1, Hm, Hs.
        apply safe12_bind.
        eapply Conc.safe_weaken; [|apply safe_lift; [apply core_lock_loops|
          refine (proj1 (safe_lock_loops t sfuel m (set_w l1 (WStart m)) (fun ok l' => if ok then l' = set_w l1 (WHeld0 m) else True) eq_refl _ _)); [reflexivity|intros; exact I]]].
        intros [|] [l1' lE'] (HQ1 & HQ2); cbn [fst snd] in *; [|apply HF]. subst l1' lE'.
        (* the fetch_add: the grace period starts here *)
        cbv beta iota. clear g a1 aE tr HI HE Hv1 Hm Hs Em. cbn [Conc.safe]. intros g [a1 aE] tr (HI & HE) Hv.
        unfold view12, view, viewE in Hv. cbn [fst snd] in *. injection Hv as Hv1 Hm Hs. unfold a_epoch_faa. cbn [fst snd vz].
        set (i' := List.length tr).
        assert (Hmi : (m <= i')%nat).
        { destruct HI as (_ & _ & I3 & _). apply (WB _ _ I3 t m). rewrite Hv1. reflexivity. }
        assert (Hsm : SmB l1 i').
        { intros j Hj. assert (X : l_sm (a1 t) = Some j) by (rewrite Hv1; exact Hj). pose proof (sm_below _ _ _ _ _ HI X). unfold i'. lia. }
        assert (Hbel : HsBelow i' hs).
        { intros p oe k Hin. assert (X : In (t, (p, oe, k)) (e_h aE)) by (apply gmine_in; rewrite Hm; exact Hin).
          destruct (hand_retired _ _ _ _ _ _ _ HE X) as (Y & _). exact Y. }
        exists (updA a1 t (set_w (a1 t) (WHeld0 i')),
                mkE (e_buf aE) (e_h aE) (fun w => if Nat.eqb w t then EIn i' (g_epoch g) else e_s aE w)).
        split; [split; cbn [fst snd]|].
        + unfold acc. rewrite tag1. eapply step_remark with (g := g); auto. rewrite Hv1; reflexivity.
        + unfold acc. rewrite tag1. apply InvE_faa; exact HE.
        + split; [apply frame12; [apply frame_updA|apply frameE_sync]|].
          unfold view12, view, viewE. cbn [fst snd e_h e_s]. rewrite updA_same, Hv1, Hm, Nat.eqb_refl. cbn [set_w].
          apply safe12_bind.
          eapply Conc.safe_weaken; [|apply safe_lift; [apply core_flips|
            apply (safe_flips2 t sfuel i' _ (fun ok l' => if ok then exists gph done, l' = set_w l1 (WPhase i' true gph (PScan done [] L0)) else True));
              [reflexivity|intros gph done; exists gph, done; reflexivity|intros; exact I]]].
          intros [|] [l1' lE'] (HQ1 & HQ2); cbn [fst snd] in *; [|apply HF]. destruct HQ1 as (gph & done & ->). subst lE'.
          cbv beta iota. apply safe12_bind.
          eapply Conc.safe_weaken; [|apply safe_lift; [apply core_unlock|
            apply (safe_unlock t i' gph done _ (fun _ l' => l' = set_w l1 (WFin i'))); reflexivity]].
          intros [] [l1' lE'] (HQ1 & HQ2); cbn [fst snd] in *. subst l1' lE'.
          replace (set_w l1 (WFin i')) with (set_w (set_w l1 (WFin i')) (WFin i')) by reflexivity.
          apply IHc; [reflexivity| |exact HF].
          intros i'' es' Hii. cbn [set_w]. apply HT.
          * eapply HsBelow_mono; eauto.
          * eapply SmB_mono; eauto.
          * intros i Hw. specialize (Hlv i Hw). lia. }
    split; [|split; assumption].
    (* push_buffer *)
    intros p e k hs es l1 Q Hn HT HF. cbn [push_buffer Conc.safe]. intros g [a1 aE] tr (HI & HE) Hv.
    unfold view12, view, viewE in Hv. cbn [fst snd] in *. injection Hv as Hv1 Hm Hs. unfold a_buf_push.
    destruct (Nat.ltb (List.length (g_buf g)) (g_bcap g)); cbn [fst snd vz].
    - exists (a1, mkE (e_buf aE ++ [(p, e, k)]) (grmf t (e_h aE)) (e_s aE)). split; [split; cbn [fst snd]|].
      + unfold acc. rewrite tag1. apply Inv_acc with (g := g); auto.
      + eapply InvE_push; eauto.
      + split; [apply frame12; [apply frame_refl|apply frameE_rmf]|].
        unfold view12, view, viewE. cbn [fst snd e_h e_s]. rewrite (gmine_grmf_head _ _ _ _ Hm), Hv1, Hs. cbn [Z.eqb Pos.eqb].
        apply safe12_size_reached. intros [|].
        * apply IHs; [exact Hn| |exact HF]. intros i' es' _ _ Hlv. apply HT; [intros []|].
          intros i Hw. exists i'. split; [reflexivity|apply Hlv; exact Hw].
        * cbn. rewrite <- (set_w_same l1) at 1. apply HT; [exact Hn|]. intros i Hw. exists i. split; [exact Hw|lia].
    - exists (a1, aE). split; [split; cbn [fst snd]; [unfold acc; rewrite tag1; apply Inv_acc with (g := g); auto|apply InvE_keep with (g := g); auto]|].
      split; [intros ? ?; reflexivity|]. unfold view12, view, viewE. cbn [fst snd]. rewrite Hv1, Hm, Hs. cbn [Z.eqb].
      apply safe12_bind. apply IHs; [exact Hn| |intros l'; cbv beta iota; apply HF].
      intros i' es' Hbel _ Hlv. cbv beta iota.
      eapply safe12_dispose; [reflexivity|apply (Hbel p (Some e) k); left; reflexivity|].
      cbn. apply HT; [intros []|]. intros i Hw. exists i'. split; [reflexivity|apply Hlv; exact Hw].
  Qed.
End Gpb.
