(** * general_buffered: grace-period safety.  Product of the gp invariant (LV.Proofs.RcuGpInv) and the epoch
      invariant (LV.Proofs.RcuBufEpoch); the programs of the gp core are lifted, the programs of gpb.h are
      proved against the product. *)
From Coq Require Import ZArith List String Bool Lia PeanoNat.
From LV Require Import Base.Conc Base.Events Model.RcuGp Model.RcuBuf Proofs.RcuBits Proofs.RcuGpInv Proofs.RcuGpSteps
  Proofs.RcuGpWriter Proofs.RcuGpExtra Proofs.RcuGpSafe Proofs.RcuBufInv Proofs.RcuBufEpoch Proofs.RcuBufSafe.
Import ListNotations.
Local Open Scope string_scope.
Local Open Scope list_scope.
Local Open Scope Z_scope.

Definition Aux12 := (Aux * AuxE)%type.
Definition L12 := (L * LE)%type.
Definition view12 (a : Aux12) (t : nat) : L12 := (view (fst a) t, viewE (snd a) t).
Definition Inv12 (g : G) (a : Aux12) (tr : trace) : Prop := Inv g (fst a) tr /\ InvE g (snd a) tr.

Notation safe1 := (@Conc.safe G V ev Aux L view Inv).
Notation safe12 := (@Conc.safe G V ev Aux12 L12 view12 Inv12).

Lemma frame12 t a1 a1' aE aE' :
  Conc.frame view t a1 a1' -> Conc.frame viewE t aE aE' -> Conc.frame view12 t (a1, aE) (a1', aE').
Proof. intros F1 F2 t' H. unfold view12. cbn [fst snd]. rewrite (F1 t' H), (F2 t' H). reflexivity. Qed.

Lemma frameE_refl t a : Conc.frame viewE t a a.
Proof. intros ? ?; reflexivity. Qed.

Lemma safe12_bind {A B} t (p : prog A) (q : A -> prog B) Q l :
  safe12 t p l (fun r l' => safe12 t (q r) l' Q) -> safe12 t (bind p q) l Q.
Proof. apply Conc.safe_bind. Qed.

(** ** lifting the programs of the gp core *)
Lemma safe_lift {R} t (p : prog R) : core p -> forall l1 lE (Q1 : R -> L -> Prop),
  safe1 t p l1 Q1 -> safe12 t p (l1, lE) (fun r l' => Q1 r (fst l') /\ snd l' = lE).
Proof.
  induction p as [r|es k IH|f k IH]; intros Hc l1 lE Q1 Hs; cbn [Conc.safe core] in *.
  - split; [exact Hs|reflexivity].
  - destruct Hc as ((e & -> & Hp & _) & Hk). intros g [a1 aE] tr (HI & HE) Hv. unfold view12 in Hv. cbn [fst snd] in *.
    injection Hv as Hv1 HvE.
    destruct (Hs g a1 tr HI Hv1) as (a1' & H1 & H2 & H3).
    exists (a1', aE). split; [split; [exact H1|apply InvE_keep with (g := g); auto]|].
    split; [apply frame12; [exact H2|apply frameE_refl]|].
    unfold view12. cbn [fst snd]. rewrite HvE. apply IH; assumption.
  - destruct Hc as (Hf & Hk). intros g [a1 aE] tr (HI & HE) Hv. unfold view12 in Hv. cbn [fst snd] in *.
    injection Hv as Hv1 HvE.
    destruct (Hs g a1 tr HI Hv1) as (a1' & H1 & H2 & H3). destruct (Hf g) as ((Eb & Ee & _) & _).
    exists (a1', aE). split; [split; [exact H1|apply InvE_keep with (g := g); auto]|].
    split; [apply frame12; [exact H2|apply frameE_refl]|].
    unfold view12. cbn [fst snd]. rewrite HvE. apply IH; auto.
Qed.

(** an access of gpb.h that touches neither the gp state nor buffer / epoch, without change of ghost state *)
Lemma safe12_act_plain {R} t (f : act) (k : V -> prog R) l Q :
  (forall g, g_list (fst (fst (f g))) = g_list g /\ g_nrec (fst (fst (f g))) = g_nrec g /\ g_tid (fst (fst (f g))) = g_tid g /\
             g_acc (fst (fst (f g))) = g_acc g /\ g_lock (fst (fst (f g))) = g_lock g /\ g_ctl (fst (fst (f g))) = g_ctl g /\
             g_buf (fst (fst (f g))) = g_buf g /\ g_epoch (fst (fst (f g))) = g_epoch g /\
             exists k0 o ok, snd (f g) = [EvAcc k0 o ok]) ->
  (forall v, safe12 t (k v) l Q) -> safe12 t (Act f k) l Q.
Proof.
  intros Hf Hk. cbn [Conc.safe]. intros g [a1 aE] tr (HI & HE) Hv.
  destruct (Hf g) as (F1 & F2 & F3 & F4 & F5 & F6 & F7 & F8 & k0 & o & ok & Ee).
  exists (a1, aE). rewrite Ee. split; [split; cbn [fst snd]; [rewrite tag1; apply Inv_acc with (g := g); auto|apply InvE_keep with (g := g); auto]|].
  split; [intros ? ?; reflexivity|]. rewrite Hv. apply Hk.
Qed.

Ltac plain12 :=
  let g := fresh "g" in
  intros g; cbv beta delta [a_epoch_ld a_buf_size a_begin acc]; cbn; repeat (split; [reflexivity|]); eexists _, _, _; reflexivity.

(** a neutral client event *)
Lemma safe12_emit_neutral {R} t name args (k : prog R) l Q :
  neutral (EvCli name args) -> safe12 t k l Q -> safe12 t (Emit (cli name args) k) l Q.
Proof.
  intros N H. cbn [Conc.safe]. intros g [a1 aE] tr (HI & HE) Hv. exists (a1, aE).
  split; [split; cbn [fst snd]; [unfold cli; rewrite tag1; apply Inv_cli_neutral; assumption|apply InvE_keep with (g := g); auto]|].
  split; [intros ? ?; reflexivity|]. rewrite Hv. exact H.
Qed.

Definition HsBelow (i : nat) (hs : list hent) : Prop := forall p oe k, In (p, oe, k) hs -> (k < i)%nat.
Definition SmB (l : L) (i : nat) : Prop := forall j, l_sm l = Some j -> (j <= i)%nat.

Lemma HsBelow_mono i i' hs : (i <= i')%nat -> HsBelow i hs -> HsBelow i' hs.
Proof. intros H B p oe k Hin. specialize (B p oe k Hin). lia. Qed.
Lemma SmB_mono l i i' : (i <= i')%nat -> SmB l i -> SmB l i'.
Proof. intros H B j Hj. specialize (B j Hj). lia. Qed.

Section Gpb.
  Variables (sfuel : nat) (cap : Z) (cnt : bool) (mb : prog bool).
  Hypothesis Hmbc : core mb.
  Hypothesis Hmbn : gpn mb.
  Variable t : nat.

  (** "dispose p" of my first entry, retired before the start [i] of my completed grace period *)
  Lemma safe12_dispose {R} p oe k hs es i l1 (k0 : prog R) Q :
    l_w l1 = WFin i -> (k < i)%nat -> safe12 t k0 (l1, (hs, es)) Q ->
    safe12 t (Emit (cli "dispose" [p]) k0) (l1, ((p, oe, k) :: hs, es)) Q.
  Proof.
    intros Hw Hki Hk. cbn [Conc.safe]. intros g [a1 aE] tr (HI & HE) Hv. unfold view12, view, viewE in Hv. cbn [fst snd] in *.
    injection Hv as Hv1 Hm Hs.
    assert (Hin : In (t, (p, oe, k)) (e_h aE)) by (apply gmine_in; rewrite Hm; left; reflexivity).
    destruct (hand_retired _ _ _ _ _ _ _ HE Hin) as (_ & w' & Hat).
    exists (a1, mkE (e_buf aE) (grmf t (e_h aE)) (e_s aE)). split; [split; cbn [fst snd]|].
    - unfold cli. rewrite tag1. eapply step_ev_dispose_keep with (i := i); eauto; [rewrite Hv1; exact Hw|lia].
    - apply InvE_drop; exact HE.
    - split; [apply frame12; [apply frame_refl|apply frameE_rmf]|].
      unfold view12, view, viewE. cbn [fst snd e_h e_s]. rewrite (gmine_grmf_head _ _ _ _ Hm), Hv1, Hs. exact Hk.
  Qed.

  Definition PPushE (rf : nat) : Prop := forall p e k hs es l1 (Q : bool -> L12 -> Prop),
    ~ holder (l_w l1) ->
    (forall w' es', ~ holder w' -> (forall i, l_w l1 = WFin i -> exists i', w' = WFin i' /\ (i <= i')%nat) ->
       Q true (set_w l1 w', (hs, es'))) ->
    (forall l', Q false l') ->
    safe12 t (push_buffer 2 sfuel cap cnt mb rf p e) (l1, ((p, Some e, k) :: hs, es)) Q.

  Definition PSyncE (rf : nat) : Prop := forall hs es l1 (Q : bool -> L12 -> Prop),
    ~ holder (l_w l1) ->
    (forall i' es', HsBelow i' hs -> SmB l1 i' -> (forall i, l_w l1 = WFin i -> (i <= i')%nat) ->
       Q true (set_w l1 (WFin i'), (hs, es'))) ->
    (forall l', Q false l') ->
    safe12 t (synchronize 2 sfuel cap cnt mb rf) (l1, (hs, es)) Q.

  Definition PClearE (rf : nat) : Prop := forall n i hs l1 (Q : bool -> L12 -> Prop),
    l_w l1 = WFin i ->
    (forall i' es', (i <= i')%nat -> Q true (set_w l1 (WFin i'), (hs, es'))) ->
    (forall l', Q false l') ->
    safe12 t (clear_buffer 2 sfuel cap cnt mb rf n) (l1, (hs, EIn i n)) Q.

  Lemma set_w_same l : set_w l (l_w l) = l.
  Proof. destruct l; reflexivity. Qed.

  Lemma safe12_size_reached {R} (k : bool -> prog R) l Q :
    (forall b, safe12 t (k b) l Q) -> safe12 t (size_reached cap cnt k) l Q.
  Proof.
    intros H. unfold size_reached. destruct cnt; [|apply H].
    apply safe12_act_plain; [plain12|]. intros v. apply H.
  Qed.

  Lemma safe_gpbE rf : PPushE rf /\ PSyncE rf /\ PClearE rf.
  Proof.
    induction rf as [|f (IHp & IHs & IHc)]; unfold PPushE, PSyncE, PClearE in *.
    { split; [|split].
      - intros p e k hs es l1 Q _ HT HF. cbn [push_buffer Conc.safe]. apply HF.
      - intros hs es l1 Q _ HT HF. cbn [synchronize Conc.safe]. apply HF.
      - intros n i hs l1 Q _ HT HF. cbn [clear_buffer Conc.safe]. apply HF. }
    (* clear_buffer *)
    assert (HC : forall n i hs l1 (Q : bool -> L12 -> Prop),
      l_w l1 = WFin i ->
      (forall i' es', (i <= i')%nat -> Q true (set_w l1 (WFin i'), (hs, es'))) -> (forall l', Q false l') ->
      safe12 t (clear_buffer 2 sfuel cap cnt mb (S f) n) (l1, (hs, EIn i n)) Q).
    { intros n i hs l1 Q Hw HT HF. cbn [clear_buffer Conc.safe]. intros g [a1 aE] tr (HI & HE) Hv.
      unfold view12, view, viewE in Hv. cbn [fst snd] in *. injection Hv as Hv1 Hm Hs. unfold a_buf_pop.
      destruct (g_buf g) as [|[p e] r] eqn:Eb; cbn [fst snd vp].
      - exists (a1, aE). split; [split; cbn [fst snd]; [unfold acc; rewrite tag1; apply Inv_acc with (g := g); auto|apply InvE_keep with (g := g); auto]|].
        split; [intros ? ?; reflexivity|]. unfold view12, view, viewE. cbn [fst snd]. rewrite Hv1, Hm, Hs. cbn.
        rewrite <- (set_w_same l1) at 1. rewrite Hw. apply HT. lia.
      - destruct (InvE_pop g aE tr t p e r [(t, EvAcc KCas obj_bpop true)] Eb HE) as (k & rest & Ebuf & HE').
        exists (a1, mkE rest ((t, (p, Some e, k)) :: e_h aE) (e_s aE)). split; [split; cbn [fst snd]|].
        + unfold acc. rewrite tag1. apply Inv_acc with (g := g); auto.
        + unfold acc. rewrite tag1. exact HE'.
        + split; [apply frame12; [apply frame_refl|apply frameE_cons]|].
          unfold view12, view, viewE. cbn [fst snd e_h e_s]. rewrite gmine_cons_same, Hv1, Hm, Hs.
          destruct (e <=? n) eqn:Ele.
          * apply Z.leb_le in Ele.
            assert (Hki : (k < i)%nat).
            { assert (X : In (t, (p, Some e, k)) (e_h (mkE rest ((t, (p, Some e, k)) :: e_h aE) (e_s aE)))) by (left; reflexivity).
              destruct (epoch_lemma _ _ _ _ _ _ _ i n HE' X) as (Y & _); auto. }
            eapply safe12_dispose; [exact Hw|exact Hki|]. apply IHc; auto.
          * apply IHp; [rewrite Hw; intros []| |exact HF].
            intros w' es' Hn Hlv. destruct (Hlv i Hw) as (i' & -> & Hii). apply HT; exact Hii. }
    (* synchronize *)
    assert (HS : forall hs es l1 (Q : bool -> L12 -> Prop),
      ~ holder (l_w l1) ->
      (forall i' es', HsBelow i' hs -> SmB l1 i' -> (forall i, l_w l1 = WFin i -> (i <= i')%nat) ->
         Q true (set_w l1 (WFin i'), (hs, es'))) -> (forall l', Q false l') ->
      safe12 t (synchronize 2 sfuel cap cnt mb (S f)) (l1, (hs, es)) Q).
    { intros hs es l1 Q Hn HT HF. cbn [synchronize Conc.safe]. intros g [a1 aE] tr (HI & HE) Hv.
      unfold view12, view, viewE in Hv. cbn [fst snd] in *. injection Hv as Hv1 Hm Hs. unfold a_epoch_ld. cbn [fst snd].
      (* the epoch load: choose the start marker *)
      remember (List.length tr) as m eqn:Em.
      assert (Hlv : forall i, l_w l1 = WFin i -> (i <= m)%nat).
      { intros i Hw. rewrite Em. destruct HI as (_ & _ & I3 & _). apply (WB _ _ I3 t i). rewrite Hv1, Hw. reflexivity. }
      exists (updA a1 t (set_w (a1 t) (WStart m)), aE). split; [split; cbn [fst snd]|].
      - unfold acc. rewrite tag1, Em. apply step_mark with (g := g); auto. rewrite Hv1; exact Hn.
      - apply InvE_keep with (g := g); auto.
      - split; [apply frame12; [apply frame_updA|apply frameE_refl]|].
        unfold view12, view, viewE. cbn [fst snd]. rewrite updA_same, Hv1, Hm, Hs.
        apply safe12_bind.
        eapply Conc.safe_weaken; [|apply safe_lift; [apply core_lock_loops|
          refine (proj1 (safe_lock_loops t sfuel m (set_w l1 (WStart m)) (fun ok l' => if ok then l' = set_w l1 (WHeld0 m) else True) eq_refl _ _)); [reflexivity|intros; exact I]]].
        intros [|] [l1' lE'] (HQ1 & HQ2); cbn [fst snd] in *; [|apply HF]. subst l1' lE'.
        (* the fetch_add: the grace period starts here *)
        cbv beta iota. clear g a1 aE tr HI HE Hv1 Hm Hs Em. cbn [Conc.safe]. intros g [a1 aE] tr (HI & HE) Hv.
        unfold view12, view, viewE in Hv. cbn [fst snd] in *. injection Hv as Hv1 Hm Hs. unfold a_epoch_faa. cbn [fst snd vz].
        set (i' := List.length tr).
        assert (Hmi : (m <= i')%nat).
        { destruct HI as (_ & _ & I3 & _). apply (WB _ _ I3 t m). rewrite Hv1. reflexivity. }
        assert (Hsm : SmB l1 i').
        { intros j Hj. assert (X : l_sm (a1 t) = Some j) by (rewrite Hv1; exact Hj). pose proof (sm_below _ _ _ _ _ HI X). unfold i'. lia. }
        assert (Hbel : HsBelow i' hs).
        { intros p oe k Hin. assert (X : In (t, (p, oe, k)) (e_h aE)) by (apply gmine_in; rewrite Hm; exact Hin).
          destruct (hand_retired _ _ _ _ _ _ _ HE X) as (Y & _). exact Y. }
        exists (updA a1 t (set_w (a1 t) (WHeld0 i')),
                mkE (e_buf aE) (e_h aE) (fun w => if Nat.eqb w t then EIn i' (g_epoch g) else e_s aE w)).
        split; [split; cbn [fst snd]|].
        + unfold acc. rewrite tag1. eapply step_remark with (g := g); auto. rewrite Hv1; reflexivity.
        + unfold acc. rewrite tag1. apply InvE_faa; exact HE.
        + split; [apply frame12; [apply frame_updA|apply frameE_sync]|].
          unfold view12, view, viewE. cbn [fst snd e_h e_s]. rewrite updA_same, Hv1, Hm, Nat.eqb_refl. cbn [set_w].
          apply safe12_bind.
          eapply Conc.safe_weaken; [|apply safe_lift; [exact Hmbc|
            apply (safe1_gpn t mb Hmbn _ (fun _ l' => l' = set_w l1 (WHeld0 i'))); reflexivity]].
          intros [|] [l1' lE'] (HQ1 & HQ2); cbn [fst snd] in *; [|apply HF]. subst l1' lE'.
          cbv beta iota. apply safe12_bind.
          eapply Conc.safe_weaken; [|apply safe_lift; [apply core_flips|
            apply (safe_flips2 t sfuel i' _ (fun ok l' => if ok then exists gph done, l' = set_w l1 (WPhase i' true gph (PScan done [] L0)) else True));
              [reflexivity|intros gph done; exists gph, done; reflexivity|intros; exact I]]].
          intros [|] [l1' lE'] (HQ1 & HQ2); cbn [fst snd] in *; [|apply HF]. destruct HQ1 as (gph & done & ->). subst lE'.
          cbv beta iota. apply safe12_bind.
          eapply Conc.safe_weaken; [|apply safe_lift; [exact Hmbc|
            apply (safe1_gpn t mb Hmbn _ (fun _ l' => l' = set_w l1 (WPhase i' true gph (PScan done [] L0)))); reflexivity]].
          intros [|] [l1' lE'] (HQ1 & HQ2); cbn [fst snd] in *; [|apply HF]. subst l1' lE'.
          cbv beta iota. apply safe12_bind.
          eapply Conc.safe_weaken; [|apply safe_lift; [apply core_unlock|
            apply (safe_unlock t i' gph done _ (fun _ l' => l' = set_w l1 (WFin i'))); reflexivity]].
          intros [] [l1' lE'] (HQ1 & HQ2); cbn [fst snd] in *. subst l1' lE'.
          replace (set_w l1 (WFin i')) with (set_w (set_w l1 (WFin i')) (WFin i')) by reflexivity.
          apply IHc; [reflexivity| |exact HF].
          intros i'' es' Hii. cbn [set_w]. apply HT.
          * eapply HsBelow_mono; eauto.
          * eapply SmB_mono; eauto.
          * intros i Hw. specialize (Hlv i Hw). lia. }
    split; [|split; assumption].
    (* push_buffer *)
    intros p e k hs es l1 Q Hn HT HF. cbn [push_buffer Conc.safe]. intros g [a1 aE] tr (HI & HE) Hv.
    unfold view12, view, viewE in Hv. cbn [fst snd] in *. injection Hv as Hv1 Hm Hs. unfold a_buf_push.
    destruct (Nat.ltb (List.length (g_buf g)) (g_bcap g)); cbn [fst snd vz].
    - exists (a1, mkE (e_buf aE ++ [(p, e, k)]) (grmf t (e_h aE)) (e_s aE)). split; [split; cbn [fst snd]|].
      + unfold acc. rewrite tag1. apply Inv_acc with (g := g); auto.
      + eapply InvE_push; eauto.
      + split; [apply frame12; [apply frame_refl|apply frameE_rmf]|].
        unfold view12, view, viewE. cbn [fst snd e_h e_s]. rewrite (gmine_grmf_head _ _ _ _ Hm), Hv1, Hs. cbn [Z.eqb Pos.eqb].
        apply safe12_size_reached. intros [|].
        * apply IHs; [exact Hn| |exact HF]. intros i' es' _ _ Hlv. apply HT; [intros []|].
          intros i Hw. exists i'. split; [reflexivity|apply Hlv; exact Hw].
        * cbn. rewrite <- (set_w_same l1) at 1. apply HT; [exact Hn|]. intros i Hw. exists i. split; [exact Hw|lia].
    - exists (a1, aE). split; [split; cbn [fst snd]; [unfold acc; rewrite tag1; apply Inv_acc with (g := g); auto|apply InvE_keep with (g := g); auto]|].
      split; [intros ? ?; reflexivity|]. unfold view12, view, viewE. cbn [fst snd]. rewrite Hv1, Hm, Hs. cbn [Z.eqb].
      apply safe12_bind. apply IHs; [exact Hn| |intros l'; cbv beta iota; apply HF].
      intros i' es' Hbel _ Hlv. cbv beta iota.
      eapply safe12_dispose; [reflexivity|apply (Hbel p (Some e) k); left; reflexivity|].
      cbn. apply HT; [intros []|]. intros i Hw. exists i'. split; [reflexivity|apply Hlv; exact Hw].
  Qed.
End Gpb.

Section Ops.
  Variables (sfuel : nat) (cap : Z) (cnt : bool) (mb : prog bool) (rf : nat).
  Hypothesis Hmbc : core mb.
  Hypothesis Hmbn : gpn mb.
  Variable t : nat.

  Lemma safe12_retire_ev {R} p hs es l1 (k : prog R) Q :
    (forall k0, safe12 t k (l1, (hs ++ [(p, None, k0)], es)) Q) ->
    safe12 t (Emit (cli "retire" [p]) k) (l1, (hs, es)) Q.
  Proof.
    intros Hk. cbn [Conc.safe]. intros g [a1 aE] tr (HI & HE) Hv. unfold view12, view, viewE in Hv. cbn [fst snd] in *.
    injection Hv as Hv1 Hm Hs.
    exists (a1, mkE (e_buf aE) (e_h aE ++ [(t, (p, None, List.length tr))]) (e_s aE)). split; [split; cbn [fst snd]|].
    - unfold cli. rewrite tag1. apply Inv_cli_neutral; [repeat split|exact HI].
    - unfold cli. rewrite tag1. apply InvE_retire; exact HE.
    - split; [apply frame12; [apply frame_refl|apply frameE_snoc]|].
      unfold view12, view, viewE. cbn [fst snd e_h e_s]. rewrite gmine_app, gmine_cons_same, Hm, Hv1, Hs. cbn. apply Hk.
  Qed.

  Definition fresh_ent (x : Z * nat) : hent := (fst x, None, snd x).
  Definition loaded_ent (e : Z) (x : Z * nat) : hent := (fst x, Some e, snd x).

  Lemma safe12_emit_retires {R} ps : forall ents es l1 (k : prog R) Q,
    (forall ents', map fst ents' = ps -> safe12 t k (l1, (map fresh_ent (ents ++ ents'), es)) Q) ->
    safe12 t (emit_retires ps k) (l1, (map fresh_ent ents, es)) Q.
  Proof.
    induction ps as [|p r IH]; intros ents es l1 k Q Hk; cbn [emit_retires].
    - specialize (Hk [] eq_refl). rewrite app_nil_r in Hk. exact Hk.
    - apply safe12_retire_ev. intros k0.
      change (safe12 t (emit_retires r k) (l1, (map fresh_ent ents ++ map fresh_ent [(p, k0)], es)) Q).
      rewrite <- map_app. apply IH. intros ents' E. rewrite <- app_assoc. apply Hk. cbn. rewrite E. reflexivity.
  Qed.

  Lemma map_set_ep e ents : map (set_ep e) (map fresh_ent ents) = map (loaded_ent e) ents.
  Proof. induction ents as [|x r IH]; [reflexivity|]. cbn. rewrite IH. reflexivity. Qed.

  Lemma safe12_push_all e ents : forall es l1 (Q : bool -> L12 -> Prop),
    ~ holder (l_w l1) ->
    (forall w' es', ~ holder w' -> Q true (set_w l1 w', ([], es'))) -> (forall l', Q false l') ->
    safe12 t (push_all 2 sfuel cap cnt mb rf e (map fst ents)) (l1, (map (loaded_ent e) ents, es)) Q.
  Proof.
    induction ents as [|[p k] r IH]; intros es l1 Q Hn HT HF; cbn [push_all map fst].
    - cbn. rewrite <- (set_w_same l1). apply HT. exact Hn.
    - apply safe12_bind. cbn [loaded_ent fst snd].
      apply (proj1 (safe_gpbE sfuel cap cnt mb Hmbc Hmbn t rf)); [exact Hn| |intros l'; cbv beta iota; apply HF].
      intros w' es' Hn' _. cbv beta iota. apply IH; [exact Hn'| |exact HF].
      intros w'' es'' Hn''. cbn [set_w]. apply HT. exact Hn''.
  Qed.

  Definition Between (s : lst) (l : L12) : Prop := IdleS s (fst l) /\ exists es, snd l = ([], es).

  Lemma IdleS_set_w s l : IdleS s l -> IdleS s (set_w l WIdle).
  Proof. intros ((H1 & H2 & H3 & H4 & H5) & H6). split; [repeat split; cbn; auto|exact H6]. Qed.

  Lemma safe12_gpb_retire s ps tail l (Q : bool -> L12 -> Prop) :
    (tail = [] \/ exists name, tail = cli name [] /\ neutral (EvCli name [])) ->
    Between s l -> (forall l', Between s l' -> Q true l') -> (forall l', Q false l') ->
    safe12 t (gpb_retire 2 sfuel cap cnt mb rf ps tail) l Q.
  Proof.
    intros Htail (HI & es & Hl) HT HF. destruct l as [l1 lE]. cbn [fst snd] in *. subst lE. unfold gpb_retire.
    change (@nil hent) with (map fresh_ent []). apply safe12_emit_retires. intros ents Eps. cbn [app].
    cbn [Conc.safe]. intros g [a1 aE] tr (HInv & HE) Hv. unfold view12, view, viewE in Hv. cbn [fst snd] in *.
    injection Hv as Hv1 Hm Hs. unfold a_epoch_ld. cbn [fst snd vz].
    exists (a1, mkE (e_buf aE) (gset t (g_epoch g) (e_h aE)) (e_s aE)). split; [split; cbn [fst snd]|].
    - unfold acc. rewrite tag1. apply Inv_acc with (g := g); auto.
    - apply InvE_load; exact HE.
    - split; [apply frame12; [apply frame_refl|apply frameE_set]|].
      unfold view12, view, viewE. cbn [fst snd e_h e_s]. rewrite gmine_gset_same, Hm, map_set_ep, Hv1, Hs.
      apply safe12_bind. rewrite <- Eps.
      assert (Hnh : ~ holder (l_w l1)) by (destruct HI as ((_ & _ & _ & _ & ->) & _); intros []).
      apply safe12_push_all; [exact Hnh| |intros l'; cbv beta iota; apply HF].
      intros w' es' Hn'. cbv beta iota.
      (* the final Emit: back to the idle state *)
      cbn [Conc.safe]. intros g2 [a2 aE2] tr2 (HInv2 & HE2) Hv2. unfold view12, view, viewE in Hv2. cbn [fst snd] in *.
      injection Hv2 as Hv21 Hm2 Hs2.
      exists (updA a2 t (set_w (a2 t) WIdle), aE2).
      assert (Hres : Inv g2 (updA a2 t (set_w (a2 t) WIdle)) tr2) by (apply step_reset; [exact HInv2|rewrite Hv21; exact Hn']).
      split; [split; cbn [fst snd]|].
      + destruct Htail as [->|(name & -> & Hneu)].
        * cbn. rewrite app_nil_r. exact Hres.
        * unfold cli. rewrite tag1. apply Inv_cli_neutral; assumption.
      + apply InvE_keep with (g := g2); auto.
      + split; [apply frame12; [apply frame_updA|apply frameE_refl]|].
        unfold view12, view, viewE. cbn [fst snd]. rewrite updA_same, Hv21, Hm2, Hs2. cbn [Conc.safe set_w].
        apply HT. split; [cbn [fst]; apply (IdleS_set_w s l1); exact HI|exists es'; reflexivity].
  Qed.

  Lemma safe12_gpb_sync s l (Q : bool -> L12 -> Prop) :
    Between s l -> (forall l', Between s l' -> Q true l') -> (forall l', Q false l') ->
    safe12 t (gpb_sync 2 sfuel cap cnt mb rf) l Q.
  Proof.
    intros (HI & es & Hl) HT HF. destruct l as [l1 lE]. cbn [fst snd] in *. subst lE. unfold gpb_sync.
    cbn [Conc.safe]. intros g [a1 aE] tr (HInv & HE) Hv. unfold view12, view, viewE in Hv. cbn [fst snd] in *.
    injection Hv as Hv1 Hm Hs.
    assert (Hw : l_w l1 = WIdle) by (destruct HI as ((_ & _ & _ & _ & X) & _); exact X).
    set (n := List.length tr).
    exists (updA a1 t (set_w (set_sm l1 (Some n)) (WStart n)), aE). split; [split; cbn [fst snd]|].
    - unfold cli. rewrite tag1. eapply step_ev_begin; eauto; try reflexivity.
      + rewrite Hv1, Hw; intros [].
      + rewrite Hv1; reflexivity.
      + left. rewrite Hv1. repeat split.
    - apply InvE_keep with (g := g); auto.
    - split; [apply frame12; [apply frame_updA|apply frameE_refl]|].
      unfold view12, view, viewE. cbn [fst snd]. rewrite updA_same, Hm, Hs.
      apply safe12_bind. apply (proj1 (proj2 (safe_gpbE sfuel cap cnt mb Hmbc Hmbn t rf))); [intros []| |intros l'; cbv beta iota; apply HF].
      intros i' es' _ Hsm _. cbv beta iota. cbn [set_w].
      assert (Hni : (n <= i')%nat) by (apply Hsm; reflexivity).
      clearbody n. clear g a1 aE tr HInv HE Hv1 Hm Hs.
      cbn [Conc.safe]. intros g [a1 aE] tr (HInv & HE) Hv. unfold view12, view, viewE in Hv. cbn [fst snd] in *.
      injection Hv as Hv1 Hm Hs.
      exists (updA a1 t (set_w (a1 t) WIdle), aE). split; [split; cbn [fst snd]|].
      + unfold cli. rewrite tag1. eapply step_ev_sync_end with (i := n) (i' := i'); eauto; rewrite Hv1; reflexivity.
      + apply InvE_keep with (g := g); auto.
      + split; [apply frame12; [apply frame_updA|apply frameE_refl]|].
        unfold view12, view, viewE. cbn [fst snd]. rewrite updA_same, Hv1, Hm, Hs. cbn [Conc.safe set_w].
        apply HT. split; [|exists es'; reflexivity]. cbn [fst].
        destruct HI as ((H1 & H2 & H3 & H4 & H5) & H6). split; [repeat split; cbn; auto|exact H6].
  Qed.

  Definition QB12 (s0 : lst) : option lst -> L12 -> Prop :=
    fun r l' => match r with Some s' => Between s' l' | None => True end.

  Lemma safe12_run_bop s o l : Between s l -> safe12 t (run_bop 2 sfuel cap cnt mb rf t s o) l (QB12 s).
  Proof.
    intros HB. destruct o as [o|ps]; cbn [run_bop].
    - assert (Hcore : core_op o = true ->
                      safe12 t (run_op 2 sfuel t s o) l (QB12 s)).
      { intros Hc. destruct l as [l1 lE]. destruct HB as (HI & es & Hl). cbn [fst snd] in *. subst lE.
        eapply Conc.safe_weaken; [|apply safe_lift; [apply core_run_op; exact Hc|apply safe_run_op; exact HI]].
        intros [s'|] [l1' lE'] (HQ1 & HQ2); cbn [fst snd QB12] in *; [|exact I]. split; [exact HQ1|exists es; exact HQ2]. }
      destruct o; try (apply Hcore; reflexivity).
      + destruct (my_depth s) eqn:Ed; [|cbn; exact HB].
        apply safe12_bind. apply safe12_gpb_sync with (s := s); [exact HB| |intros; exact I]. intros l' HB'. cbn. exact HB'.
      + destruct (my_depth s) eqn:Ed; [|cbn; exact HB].
        apply safe12_bind. apply safe12_gpb_retire with (s := s); [left; reflexivity|exact HB| |intros; exact I]. intros l' HB'. cbn. exact HB'.
    - destruct (my_depth s) eqn:Ed; [|cbn; exact HB]. destruct ps as [|p r]; [cbn; exact HB|].
      apply safe12_bind. apply safe12_gpb_retire with (s := s); [right; exists "batch_end"; split; [reflexivity|repeat split]|exact HB| |intros; exact I].
      intros l' HB'. cbn. exact HB'.
  Qed.

  Lemma safe12_run_bops os : forall s l, Between s l -> safe12 t (run_bops 2 sfuel cap cnt mb rf t s os) l (@Conc.QTrue L12).
  Proof.
    induction os as [|o r IH]; intros s l HB; cbn [run_bops].
    - apply safe12_bind. destruct l as [l1 lE]. destruct HB as (HI & es & Hl). cbn [fst snd] in *. subst lE.
      eapply Conc.safe_weaken; [|apply safe_lift; [apply core_finish|apply safe_finish; exact HI]].
      intros [] l' _. apply safe12_emit_neutral; [repeat split|exact I].
    - apply safe12_bind. eapply Conc.safe_weaken; [|apply safe12_run_bop; exact HB].
      intros [s'|] l' HQ; cbn [QB12] in HQ.
      + apply IH; exact HQ.
      + apply safe12_emit_neutral; [repeat split|exact I].
  Qed.

  Lemma safe12_thread os : safe12 t (bthread_prog 2 sfuel cap cnt mb rf t os) (l0, ([], ENone)) (@Conc.QTrue L12).
  Proof.
    unfold bthread_prog. apply safe12_act_plain; [plain12|]. intros _. apply safe12_run_bops.
    split; [cbn; split; [repeat split|reflexivity]|exists ENone; reflexivity].
  Qed.
End Ops.

Lemma xinit12_ok sfuel rf cap cnt mb extra ths :
  core mb -> gpn mb -> Forall (fun p => core p /\ gpn p) extra ->
  Conc.cfg_ok view12 Inv12 (xinit_cfg 2 sfuel rf cap cnt mb extra ths).
Proof.
  intros Hmbc Hmbn Hex. exists (fun _ => l0, mkE [] [] (fun _ => ENone)). split.
  - cbn [xinit_cfg Conc.shared Conc.trace]. split; cbn [fst snd].
    + split; [|split; [|split]].
      * constructor; cbn; try discriminate; try contradiction; auto.
        -- intros m _. exists false. reflexivity.
        -- intros r. repeat split; auto.
      * constructor; cbn; try contradiction; try (intros w w' []).
        exists false. split; [reflexivity|discriminate].
      * constructor; cbn; [discriminate|intros; exact I].
      * constructor; cbn; try discriminate.
        -- intros r s (e & H & _). destruct s; discriminate.
        -- intros w i j (e & H & _). destruct i; discriminate.
        -- intros w p d (e & H & _). destruct d; discriminate.
    + constructor; cbn; try contradiction; try discriminate. reflexivity.
  - intros t p Hp. cbn [xinit_cfg Conc.threads] in Hp.
    destruct (Nat.lt_ge_cases t (List.length ths)) as [Hlt|Hge].
    + rewrite nth_error_app1 in Hp by (rewrite map_length, number_length; exact Hlt). rewrite nth_error_map in Hp.
      destruct (nth_error (number O ths) t) as [x|] eqn:E; [|discriminate]. inversion Hp; subst p.
      apply nth_error_number in E. cbn in E. rewrite E. unfold view12, view, viewE. cbn. apply safe12_thread; assumption.
    + rewrite nth_error_app2 in Hp by (rewrite map_length, number_length; exact Hge).
      apply nth_error_In in Hp. rewrite Forall_forall in Hex. destruct (Hex p Hp) as (Hc & Hn).
      unfold view12, view, viewE. cbn.
      eapply Conc.safe_weaken; [|apply safe_lift; [exact Hc|apply (safe1_gpn t p Hn l0 (fun _ _ => True)); intros; exact I]].
      intros; exact I.
Qed.

(** ** theorems for every schedule: the buffered flavours with the two flips of the real code *)
Section Thms12.
  Variables (sfuel rf : nat) (cap : Z) (cnt : bool) (mb : prog bool) (extra : list (Conc.thread G V ev)) (ths : list (list bop)).
  Hypothesis Hmbc : core mb.
  Hypothesis Hmbn : gpn mb.
  Hypothesis Hex : Forall (fun p => core p /\ gpn p) extra.
  Variable c : Conc.config G V ev.
  Hypothesis Hr : Conc.reach (xinit_cfg 2 sfuel rf cap cnt mb extra ths) c.

  Theorem x_dispose_safe : dispose_safe (Conc.trace c).
  Proof.
    destruct (Conc.reach_Inv (xinit12_ok sfuel rf cap cnt mb extra ths Hmbc Hmbn Hex) Hr) as (a & (_ & _ & _ & I4) & _). apply (DS _ _ I4).
  Qed.

  Theorem x_sync_waits : sync_waits (Conc.trace c).
  Proof.
    destruct (Conc.reach_Inv (xinit12_ok sfuel rf cap cnt mb extra ths Hmbc Hmbn Hex) Hr) as (a & (_ & _ & _ & I4) & _). apply (SW _ _ I4).
  Qed.
End Thms12.

Theorem gpb_dispose_safe_all sfuel rf cap cnt ths c :
  Conc.reach (binit_cfg 2 sfuel rf cap cnt ths) c -> dispose_safe (Conc.trace c).
Proof. intros Hr. eapply x_dispose_safe; [| | |exact Hr]; [exact I|exact I|constructor]. Qed.

Theorem gpb_synchronize_waits_all sfuel rf cap cnt ths c :
  Conc.reach (binit_cfg 2 sfuel rf cap cnt ths) c -> sync_waits (Conc.trace c).
Proof. intros Hr. eapply x_sync_waits; [| | |exact Hr]; [exact I|exact I|constructor]. Qed.
