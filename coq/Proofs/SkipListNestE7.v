(** * SkipListNestE7: the nested-levels invariant through try_remove_at, erase, extract_min / extract_max, contains, insert. *)
From Coq Require Import ZArith List String Bool Lia PeanoNat.
From LV Require Import Base.Conc Base.Events Model.SkipList Proofs.SkipListProofs Proofs.SkipListSub Proofs.SkipListNest Proofs.SkipListNestProg
  Proofs.SkipListNestE Proofs.SkipListNestE2 Proofs.SkipListNestE3 Proofs.SkipListNestE4 Proofs.SkipListNestE5 Proofs.SkipListNestE6.
Import ListNotations.

Definition mkd (K : list fact) (q : ptr) (l : nat) : Prop := exists x, In (FZ q l x) K.
Lemma mkd_incl K K' q l : incl K K' -> mkd K q l -> mkd K' q l.
Proof. intros I (x & H). exists x. auto. Qed.

Section Progs.
Context {R : Type}.
Variables (t n : nat).

Lemma Q_tr_mark_one O W fuel : forall del l cur (k : prog R) kf K,
  snd cur = false -> ekn1 K del ->
  (forall K', incl K K' -> mkd K' del l -> EF t n K' O W k) -> (forall K', incl K K' -> EF t n K' O W kf) ->
  EF t n K O W (tr_mark_one fuel del l cur k kf).
Proof.
  induction fuel as [|f IH]; intros del l cur k kf K Hc Hd Hk Hf; cbn [tr_mark_one]; [apply Hf, incl_refl|].
  apply EF_mark; [exact Hc|exact Hd| |].
  - intros K' I' Z. cbn [vok]. apply Hk; auto. now exists (fst cur).
  - intros c K' I' Z. cbn [vok vp]. destruct (snd c) eqn:Mc.
    + apply Hk; auto. exists (fst c). now apply Z.
    + apply IH; auto; [eapply ekn1_incl; eauto| |].
      * intros K'' I'' M. apply Hk; [einc|exact M].
      * intros K'' I''. apply Hf. einc.
Qed.

Lemma Q_tr_mark_upper O W fuel h del : forall m (k : prog R) kf K,
  m < h -> ekn1 K del -> (forall l, m < l < h -> mkd K del l) ->
  (forall K', incl K K' -> (forall l, 1 <= l < h -> mkd K' del l) -> EF t n K' O W k) -> (forall K', incl K K' -> EF t n K' O W kf) ->
  EF t n K O W (tr_mark_upper fuel del m k kf).
Proof.
  induction m as [|m IH]; intros k kf K Hm Hd Hmk Hk Hf; cbn [tr_mark_upper].
  - apply Hk; [apply incl_refl|]. intros l Hl. apply Hmk. lia.
  - apply EF_ld. intros x K1 I1 _ Z1 _. cbn [vp].
    assert (Hrec : forall K2, incl K1 K2 -> mkd K2 del (S m) -> EF t n K2 O W (tr_mark_upper fuel del m k kf)).
    { intros K2 I2 M. apply IH; [lia|exact (ekn1_incl K K2 del ltac:(einc) Hd)| | |].
      - intros l Hl. destruct (Nat.eq_dec l (S m)) as [->|N]; [exact M|]. eapply mkd_incl; [|apply Hmk; lia]. einc.
      - intros K3 I3. apply Hk. einc.
      - intros K3 I3. apply Hf. einc. }
    destruct (snd x) eqn:Mx.
    + apply Hrec; [apply incl_refl|]. exists (fst x). now apply Z1.
    + apply Q_tr_mark_one; [exact Mx|eapply ekn1_incl; eauto| |].
      * intros K2 I2 M. now apply Hrec.
      * intros K2 I2. apply Hf. einc.
Qed.

Definition eany' (O : eown) (k : prog R) : Prop := forall K, EF t n K O None k.

Lemma Q_tr_unlink O fuel key del ps : forall m s (k : TL -> prog R) kf K,
  tlk t n s -> m <= MAXH -> del <> null -> eposk K ps -> (forall l, l < m -> mkd K del l) -> (m = 0 \/ In (FB del m) K) ->
  (forall s', tlk t n s' -> eany' O (k s')) -> eany' O kf ->
  EF t n K O None (tr_unlink fuel s key del m ps k kf).
Proof.
  induction m as [|l IH]; intros s k kf K Ht Hm Hd Hp Hmk Hb Hk Hf; cbn [tr_unlink].
  - apply EF_retire. now apply Hk.
  - destruct (Hmk l (le_n _)) as [x0 Hx0]. destruct Hb as [Hb|Hb]; [discriminate|].
    apply EF_ld. intros x K1 I1 Hz _ _. rewrite (Hz x0 Hx0). cbn [vp fst].
    apply EF_cas_unlink; [lia|exact Hd|eapply ekn_incl; [exact I1|apply Hp; lia]|now apply I1|now apply I1| |].
    + intros c K2 I2 B2. cbn [vok]. apply EF_fas_owed. intros _. apply IH; [exact Ht|lia|exact Hd| | | |exact Hk|exact Hf].
      * eapply eposk_incl; [|exact Hp]. einc.
      * intros l' Hl'. eapply mkd_incl; [|apply Hmk; lia]. einc.
      * right. exact B2.
    + intros c. cbn [vok]. apply Q_find_position; [exact Ht|intros; now apply Hk|intros; apply Hf].
Qed.

Lemma Q_tr_lp O fuel h key del ps : forall s p (k : TL -> bool -> prog R) kf K,
  tlk t n s -> 1 <= h <= MAXH -> del <> null -> snd p = false -> ekn1 K del -> eposk K ps ->
  (forall l, 1 <= l < h -> mkd K del l) -> In (FB del h) K ->
  (forall s' b, tlk t n s' -> eany' O (k s' b)) -> eany' O kf ->
  EF t n K O None (tr_lp fuel s key del h p ps k kf).
Proof.
  induction fuel as [|f IH]; intros s p k kf K Ht Hh Hd Hp0 Kd Hp Hmk Hb Hk Hf; cbn [tr_lp]; [apply Hf|].
  apply EF_mark; [exact Hp0|exact Kd| |].
  - intros K' I' Z. cbn [vok]. apply Q_tr_unlink; [exact Ht|lia|exact Hd|eapply eposk_incl; eauto| | |intros; now apply Hk|exact Hf].
    + intros l Hl. destruct l as [|l]; [now exists (fst p)|]. eapply mkd_incl; [exact I'|apply Hmk; lia].
    + right. now apply I'.
  - intros c K' I' Z. cbn [vok vp]. destruct (snd c) eqn:Mc; [now apply Hk|].
    apply IH; [exact Ht|exact Hh|exact Hd|exact Mc|eapply ekn1_incl; eauto|eapply eposk_incl; eauto| |now apply I'|exact Hk|exact Hf].
    intros l Hl. eapply mkd_incl; [exact I'|now apply Hmk].
Qed.

Lemma Q_try_remove_at O fuel s del h ps (k : TL -> bool -> prog R) kf K :
  tlk t n s -> 1 <= h <= MAXH -> del <> null -> ekn1 K del -> eposk K ps -> In (FB del h) K ->
  (forall s' b, tlk t n s' -> eany' O (k s' b)) -> eany' O kf ->
  EF t n K O None (try_remove_at fuel s del h ps k kf).
Proof.
  intros Ht Hh Hd Kd Hp Hb Hk Hf. unfold try_remove_at.
  apply (Q_tr_mark_upper O None fuel h del); [lia|exact Kd|intros l Hl; lia| |intros; apply Hf].
  intros K1 I1 Hmk. apply EF_ld. intros v K2 I2 _ _ _. cbn [vp].
  apply (Q_tr_lp O fuel h); [exact Ht|exact Hh|exact Hd|reflexivity|exact (ekn1_incl K K2 del ltac:(einc) Kd)|exact (eposk_incl 0 K K2 ps ltac:(einc) Hp)| | |exact Hk|exact Hf].
  - intros l Hl. eapply mkd_incl; [exact I2|now apply Hmk].
  - apply I2, I1, Hb.
Qed.

(** *** find_min_position / find_max_position *)
Lemma Q_fmin_levels O fuel : forall m s ps (retry : TL -> prog R) k kf K,
  tlk t n s -> m <= MAXH -> (forall L, m <= L < MAXH -> pprev ps L = head) -> (m < MAXH -> curk K (pcur ps)) ->
  (forall s', tlk t n s' -> eany' O (retry s')) -> eany' O kf ->
  (forall s' ps' K', tlk t n s' -> eposk K' ps' -> curk K' (pcur ps') -> EF t n K' O None (k s' ps')) ->
  EF t n K O None (fmin_levels fuel m s ps retry k kf).
Proof.
  induction m as [|lvl IH]; intros s ps retry k kf K Ht Hm Hp Hc Hr Hf Hk; cbn [fmin_levels].
  - apply Hk; auto; [|apply Hc; unfold MAXH; lia]. intros L HL. rewrite (Hp L HL). now left.
  - apply EF_assign. apply Q_ga_protect; [intros; apply Hf|]. intros cur K1 I1 _.
    assert (Hnext : forall s' K2, tlk t n s' -> curk K2 (fst cur) -> EF t n K2 O None (fmin_levels fuel lvl s'
              (mkPos (set_lvl (pprev ps) lvl head) (set_lvl (psucc ps) lvl (fst cur)) (fst cur) (pg ps)) retry k kf)).
    { intros s' K2 Hs Hc2. apply IH; auto; [lia|].
      intros L HL. cbn [pprev]. destruct (Nat.eq_dec L lvl) as [->|NL]; [now rewrite set_lvl_same|].
      rewrite set_lvl_other by exact NL. apply Hp. lia. }
    cbv zeta. destruct (Nat.eqb (fst cur) null) eqn:En; [apply Hnext; [exact Ht|left; now apply Nat.eqb_eq]|].
    assert (Nc : fst cur <> null) by now apply eqb_nnull.
    apply EF_ld. intros xs K2 I2 _ _ _. apply EF_ld. intros xr K3 I3 _ _ F3. cbn [vp].
    destruct (mp_eqb xr (fst cur, false)) eqn:Er; cbn [negb]; [|now apply Hr].
    apply mp_eqb_eq in Er. subst xr. cbn [fst snd] in F3.
    assert (Fc : In (FK (fst cur) lvl) K3) by (apply F3; [reflexivity|now left|lia]).
    assert (Kc1 : ekn1 K3 (fst cur)) by (split; [exact Nc|now exists lvl]).
    destruct (snd xs).
    + apply Q_help_remove; [exact Ht|lia|exact Nc|now left|exact Kc1|]. intros [s'|] K4 I4 Hs; [now apply Hr|apply Hf].
    + apply Hnext; [exact Ht|now right].
Qed.

Lemma Q_find_min_position O fuel : forall s ps (k : TL -> pos -> prog R) kf K,
  tlk t n s -> eany' O kf ->
  (forall s' ps' K', tlk t n s' -> eposk K' ps' -> curk K' (pcur ps') -> EF t n K' O None (k s' ps')) ->
  EF t n K O None (find_min_position fuel s ps k kf).
Proof.
  induction fuel as [|f IH]; intros s ps k kf K Ht Hf Hk; cbn [find_min_position]; [apply Hf|].
  apply Q_fmin_levels; auto; [intros L HL; lia|intros HL; lia|]. intros s' Hs K'. now apply IH.
Qed.

Lemma Q_fmax_level O fuel : forall s lvl pred ps (retry : TL -> prog R) k kf K,
  tlk t n s -> lvl < MAXH -> ekn K pred lvl ->
  (forall s', tlk t n s' -> eany' O (retry s')) -> eany' O kf ->
  (forall s' pred' cur K', tlk t n s' -> incl K K' -> ekn K' pred' lvl -> curk K' (fst cur) -> EF t n K' O None (k s' pred' cur)) ->
  EF t n K O None (fmax_level fuel s lvl pred ps retry k kf).
Proof.
  induction fuel as [|f IH]; intros s lvl pred ps retry k kf K Ht Hl Kp Hr Hf Hk; cbn [fmax_level]; [apply Hf|].
  apply Q_ga_protect; [intros; apply Hf|]. intros cur K1 I1 [Z1 F1]. destruct (snd cur) eqn:Mc; [now apply Hr|].
  assert (Kp1 : ekn K1 pred lvl) by (eapply ekn_incl; eauto).
  destruct (Nat.eqb (fst cur) null) eqn:En; [apply Hk; auto; left; now apply Nat.eqb_eq|].
  assert (Nc : fst cur <> null) by now apply eqb_nnull.
  assert (Fc : In (FK (fst cur) lvl) K1) by now apply F1.
  assert (Kc : ekn K1 (fst cur) lvl) by (right; split; [exact Nc|exists lvl; split; [lia|exact Fc]]).
  assert (Kc1 : ekn1 K1 (fst cur)) by (split; [exact Nc|now exists lvl]).
  apply EF_ld. intros xs K2 I2 _ _ _. apply EF_ld. intros xr K3 I3 _ _ _. cbn [vp].
  assert (I13 : incl K1 K3) by einc. assert (I03 : incl K K3) by einc.
  destruct (negb (mp_eqb xr (fst cur, false))); [now apply Hr|].
  destruct (snd xs).
  - apply Q_help_remove; [exact Ht|exact Hl|exact Nc|exact (ekn_incl K1 K3 pred lvl I13 Kp1)|exact (ekn1_incl K1 K3 (fst cur) I13 Kc1)|].
    intros [s'|] K4 I4 Hs; [now apply Hr|apply Hf].
  - destruct (Nat.eqb (fst xs) null).
    + apply Hk; [exact Ht|exact I03|exact (ekn_incl K1 K3 pred lvl I13 Kp1)|right; exact (ekn1_incl K1 K3 (fst cur) I13 Kc1)].
    + apply EF_copy. apply IH; [exact Ht|exact Hl|exact (ekn_incl K1 K3 (fst cur) lvl I13 Kc)|exact Hr|exact Hf|].
      intros s' pred' cur' K' Hs I'. apply Hk; auto. einc.
Qed.

Lemma Q_fmax_levels O fuel : forall m s pred ps (retry : TL -> prog R) k kf K,
  tlk t n s -> m <= MAXH -> (forall L, L < m -> ekn K pred L) -> eposk_above m K ps -> (m < MAXH -> curk K (pcur ps)) ->
  (forall s', tlk t n s' -> eany' O (retry s')) -> eany' O kf ->
  (forall s' ps' K', tlk t n s' -> eposk K' ps' -> curk K' (pcur ps') -> EF t n K' O None (k s' ps')) ->
  EF t n K O None (fmax_levels fuel m s pred ps retry k kf).
Proof.
  induction m as [|lvl IH]; intros s pred ps retry k kf K Ht Hm Kp Hp Hc Hr Hf Hk; cbn [fmax_levels].
  - destruct (Nat.eqb (pcur ps) null && negb (Nat.eqb pred head)); [now apply Hr|]. apply Hk; auto. apply Hc. unfold MAXH. lia.
  - apply EF_assign. apply Q_fmax_level; auto.
    intros s' pred' cur K' Hs I' Kp' Kc'. apply IH; [exact Hs|lia| | | |exact Hr|exact Hf|exact Hk].
    + intros L HL. eapply ekn_down; [|exact Kp']. lia.
    + intros L HL. cbn [pprev]. destruct (Nat.eq_dec L lvl) as [->|NL]; [rewrite set_lvl_same; exact Kp'|].
      rewrite set_lvl_other by exact NL. eapply ekn_incl; [exact I'|]. apply Hp. lia.
    + intros _. cbn [pcur]. exact Kc'.
Qed.

Lemma Q_find_max_position O fuel : forall s ps (k : TL -> pos -> prog R) kf K,
  tlk t n s -> eany' O kf ->
  (forall s' ps' K', tlk t n s' -> eposk K' ps' -> curk K' (pcur ps') -> EF t n K' O None (k s' ps')) ->
  EF t n K O None (find_max_position fuel s ps k kf).
Proof.
  induction fuel as [|f IH]; intros s ps k kf K Ht Hf Hk; cbn [find_max_position]; [apply Hf|].
  apply Q_fmax_levels; auto; [intros L HL; now left|intros L HL; lia|intros HL; lia|]. intros s' Hs K'. now apply IH.
Qed.

End Progs.
