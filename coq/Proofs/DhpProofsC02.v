(** * DhpProofsC02: C02 for every schedule.

    [dhp_no_dispose_while_guarded_partial]: in every configuration reachable from the initial one by any
    sequence of thread choices (any number of threads, any client programs over attach / detach / Guard /
    assign / clear / protect / publish / retire / scan / wait, any initial guard count, any block capacities),
    whenever a thread hands a pointer to the disposer inside smr::scan, no hazard cell of an attached thread
    record — in its initial array or in any extension block linked into its guard list — has held that pointer
    continuously since before that scan began.  The statement is conditional on [flbad = false]: the two
    embedded cds::intrusive::FreeList instances never handed out a block that was not in them (property C21;
    the event that would falsify it is visible in the trace). *)
From Coq Require Import ZArith NArith List String Bool Lia PeanoNat.
From LV Require Import Base.Conc Base.Events Model.DhpLang Model.Dhp Proofs.DhpBase Proofs.DhpHist
  Proofs.DhpLangProofs Proofs.DhpInvA Proofs.DhpStepsA Proofs.DhpMainB.
Import ListNotations.

Definition aux0 : AuxA := mkAuxA (fun _ => va0) (fun _ => BNone).

Lemma JA_init c : JA c (init c) aux0 (hist []).
Proof.
  constructor; cbn; try (intros; discriminate); auto.
  - exists []. split; [reflexivity|constructor].
  - intros r Hr. lia.
  - split; [|constructor]. intros b. split; [intros []|discriminate].
  - intros r Hr. lia.
  - intros b Hb. lia.
  - intros [r i|b i]; cbn; unfold grec, ggb; cbn; destruct r || destruct b; destruct i; reflexivity.
Qed.

Lemma nth_error_combine_seq {A} (l : list A) : forall s t a b,
  nth_error (combine (seq s (List.length l)) l) t = Some (a, b) -> a = s + t.
Proof.
  induction l as [|x l IH]; intros s t a b H; cbn in H; [destruct t; discriminate|].
  destruct t as [|t]; cbn in H.
  - inversion H. lia.
  - apply IH in H. lia.
Qed.

Lemma cfg_ok_init fuel c ths : Conc.cfg_ok viewA (InvA c) (init_cfg fuel c ths).
Proof.
  exists aux0. split.
  - cbn. intros _. split; [apply JA_init|]. intros tr1 t p tr2 E. destruct tr1; discriminate.
  - intros t p Hp. unfold init_cfg in Hp. cbn [Conc.threads] in Hp. rewrite nth_error_map in Hp.
    destruct (nth_error (combine (seq 0 (List.length ths)) ths) t) as [[t' os]|] eqn:E; [|discriminate].
    cbn in Hp. inversion Hp; subst p. apply nth_error_combine_seq in E. cbn in E. subst t'.
    apply compile_safe. apply spec_thread.
Qed.

Theorem dhp_no_dispose_while_guarded_partial : forall fuel c ths conf,
  Conc.reach (init_cfg fuel c ths) conf ->
  flbad (hist (Conc.trace conf)) = false ->
  no_dispose_while_guarded c (Conc.trace conf).
Proof.
  intros fuel c ths conf Hr Hfl.
  destruct (Conc.reach_Inv (cfg_ok_init fuel c ths) Hr) as (a & Hi).
  destruct (Hi Hfl) as (_ & ND). exact ND.
Qed.

(** ** "as a result": a pointer returned by Guard::protect stays alive until the guard is changed.
    Statement over traces (NOT proved): client discipline = every object is retired at most once and only after
    the source it was published in has been overwritten ("unlinked"); then between the "ret p" of a protect
    operation of thread t on guard cell s and the next store to s (or the detach of t) no "dispose p" occurs.
    What is proved towards it is exactly [dhp_no_dispose_while_guarded_partial]: a scan that BEGINS after the
    protecting store cannot dispose p while the cell keeps it.  Missing: "a scan that disposes p had p in the
    retired array of its record, hence began after retire( p )" — the concurrent retired-array invariant of C03
    (see DhpProofsC03.v) — which excludes the scans that began before the protecting store. *)
Definition protect_ret (e : ev) : option nat :=
  match e with EvCli name [p] => if String.eqb name "ret" then Some (Z.to_nat p) else None | _ => None end.

Definition dhp_guarded_ptr_live_statement : Prop := forall fuel c ths conf,
  Conc.reach (init_cfg fuel c ths) conf ->
  forall tr1 t j k p tr2 tr3 t',
    Conc.trace conf = tr1 ++ (t, EvCli "op" [7%Z; zn j; zn k]) :: tr2 ++ (t', ev_dispose p) :: tr3 ->
    p <> 0 ->
    (* the protect operation has returned p inside tr2 ... *)
    (exists tr2a tr2b, tr2 = tr2a ++ (t, EvCli "ret" [zn p]) :: tr2b /\
                       (forall e, In e tr2a -> fst e = t -> protect_ret (snd e) = None) /\
       (* ... and afterwards thread t neither touched that guard again nor detached *)
       (forall e, In e tr2b -> fst e = t -> forall code args, snd e = EvCli "op" (code :: args) ->
                  code <> 2%Z /\ (args <> [] -> (code = 4%Z \/ code = 5%Z \/ code = 6%Z \/ code = 7%Z) -> hd 0%Z args <> zn j))) ->
    (* client discipline: p is retired once, by an "op 9 p" that follows an "op 8 k q" (q <> p) overwriting source k *)
    (forall tra trb tx, Conc.trace conf = tra ++ (tx, EvCli "op" [9%Z; zn p]) :: trb ->
       (forall e, In e trb -> snd e <> EvCli "op" [9%Z; zn p]) /\
       exists tra1 tra2 ty q, tra = tra1 ++ (ty, EvCli "op" [8%Z; zn k; zn q]) :: tra2 /\ q <> p /\
                              (forall e, In e tra2 -> forall tz, e <> (tz, EvCli "op" [8%Z; zn k; zn p]))) ->
    False.

(** the full statement: without the hypothesis on the free lists *)
Definition dhp_no_dispose_while_guarded_statement : Prop := forall fuel c ths conf,
  Conc.reach (init_cfg fuel c ths) conf -> no_dispose_while_guarded c (Conc.trace conf).
