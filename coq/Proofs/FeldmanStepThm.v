(** * Consequences of the Feldman invariant: no hash is present twice; expand_slot changes no key's presence. *)
From Coq Require Import ZArith NArith List Bool Arith PeanoNat Lia Wf_nat.
From LV Require Import Base.Conc Base.Events Model.Feldman Proofs.FeldmanStepInv Proofs.FeldmanStepSafe.
Import ListNotations.

Set Implicit Arguments.

Section Thm.
  Variables (hbits abits W : nat) (hs : list N).
  Hypothesis Hh : 0 < hbits.
  Hypothesis Ha : 0 < abits.

  Notation hash := (Feldman.hash hs).
  Notation cut := Feldman.cut.
  Notation bits_of := (Feldman.bits_of hbits abits).
  Notation Inv := (@FeldmanStepInv.Inv hbits abits hs).

  (** array nodes reachable from the head through array-node slots *)
  Inductive reach_arr (g : G) : nat -> Prop :=
  | ra_head : reach_arr g 0
  | ra_child a i c : reach_arr g a -> arr g a i = mkSlot c 2 -> reach_arr g c.

  (** item [p] is in slot [i] of the reachable array node [a] (a slot being converted still holds its item) *)
  Definition data_at (g : G) (a i p : nat) : Prop :=
    reach_arr g a /\ exists b, arr g a i = mkSlot p b /\ b <> 2 /\ p <> 0.

  Definition present (g : G) (h : N) : Prop := exists a i p, data_at g a i p /\ hash (ikey g p) = h.

  Lemma reach_pfx g A tr a : Inv g A tr -> reach_arr g a -> exists o pre, pfx A a = Some (o, pre).
  Proof.
    intros HI Hr. induction Hr as [|a i c Hr IH Hs].
    - exists 0, 0%N. apply (i_head HI).
    - destruct IH as (o & pre & Hp). destruct (i_child HI _ _ Hp Hs) as (C1 & _). eauto.
  Qed.

  (** offsets of linked array nodes: 0 for the head, hbits + m * abits below *)
  Lemma valid_off g A tr : Inv g A tr -> forall n a o pre, o <= n -> pfx A a = Some (o, pre) ->
    (a = 0 /\ o = 0) \/ (a <> 0 /\ exists m, o = hbits + m * abits).
  Proof.
    intros HI. induction n as [|n IH]; intros a o pre Hle Hp.
    - destruct (i_lim HI _ Hp) as (_ & _ & Hz & Hnz). destruct (Nat.eq_dec a 0) as [->|Hne]; [left; auto|].
      specialize (Hnz Hne). lia.
    - destruct (Nat.eq_dec a 0) as [->|Hne].
      + left. split; [reflexivity|]. destruct (i_lim HI _ Hp) as (_ & _ & Hz & _). auto.
      + right. split; [exact Hne|].
        destruct (i_parent HI Hp Hne) as (pa & i & po & ppre & H1 & H2 & H3 & H4).
        unfold child in H4. inversion H4; subst o pre. pose proof (bits_pos Hh Ha pa) as Hb.
        destruct (IH pa po ppre ltac:(lia) H1) as [[-> ->]|[Hpa [m ->]]].
        * exists 0. unfold Feldman.bits_of; cbn. lia.
        * exists (S m). unfold Feldman.bits_of. destruct (Nat.eqb_spec pa 0); [congruence|]. lia.
  Qed.

  (** if two linked array nodes lie on the path of the same hash, the shallower one has an array-node slot there *)
  Lemma on_path g A tr h a o : Inv g A tr -> pfx A a = Some (o, (h mod 2 ^ N.of_nat o)%N) ->
    forall n a' o', o' <= n -> pfx A a' = Some (o', (h mod 2 ^ N.of_nat o')%N) -> o < o' ->
    exists c, arr g a (cut h o (bits_of a)) = mkSlot c 2.
  Proof.
    intros HI Hp. induction n as [|n IH]; intros a' o' Hle Hp' Hlt; [lia|].
    assert (Hne : a' <> 0).
    { intros ->. destruct (i_lim HI _ Hp') as (_ & _ & Hz & _). specialize (Hz eq_refl). lia. }
    destruct (i_parent HI Hp' Hne) as (pa & i' & po & ppre & H1 & H2 & H3 & H4).
    unfold child in H4. injection H4 as E1 E2.
    destruct (i_lim HI _ H1) as (_ & Hppre & _ & _).
    pose proof (bits_pos Hh Ha pa) as Hb.
    rewrite E1 in E2. rewrite mod_extend in E2.
    assert (Hm : (h mod 2 ^ N.of_nat po < 2 ^ N.of_nat po)%N) by (apply N.mod_lt; apply N.pow_nonzero; discriminate).
    destruct (decompose _ _ Hm Hppre E2) as [Epre Ei].
    rewrite <- Epre in H1.
    destruct (lt_eq_lt_dec po o) as [[Hpo|Hpo]|Hpo].
    - (* misaligned offsets: impossible *)
      exfalso.
      destruct (valid_off HI pa (le_n po) H1) as [[-> ->]|[Hpa [m ->]]];
        destruct (valid_off HI a (le_n o) Hp) as [[-> ->]|[Hna [m' ->]]]; try lia.
      + unfold Feldman.bits_of in E1; cbn in E1. lia.
      + unfold Feldman.bits_of in E1. destruct (Nat.eqb_spec pa 0); [congruence|].
        assert (m' <= m \/ S m <= m') as [K|K] by lia; nia.
    - subst po. assert (pa = a) by (eapply (i_inj HI); eauto). subst pa.
      exists a'. rewrite <- H2. f_equal. apply Nat2N.inj. rewrite cut_N. exact Ei.
    - apply (IH pa po); [lia|exact H1|exact Hpo].
  Qed.

  (** ** no hash is present twice *)
  Theorem nodup_inv g A tr a i p a' i' p' :
    Inv g A tr -> data_at g a i p -> data_at g a' i' p' -> hash (ikey g p) = hash (ikey g p') ->
    a = a' /\ i = i' /\ p = p'.
  Proof.
    intros HI (Hr & b & Hs & Hb & Hp0) (Hr' & b' & Hs' & Hb' & Hp0') Eh.
    destruct (reach_pfx HI Hr) as (o & pre & Hp). destruct (reach_pfx HI Hr') as (o' & pre' & Hp').
    destruct (i_data HI _ _ Hp Hs Hb Hp0) as ((F1 & F2) & _). destruct (i_data HI _ _ Hp' Hs' Hb' Hp0') as ((F1' & F2') & _).
    set (h := hash (ikey g p)) in *. rewrite <- Eh in F1', F2'. rewrite <- F1 in Hp. rewrite <- F1' in Hp'.
    destruct (lt_eq_lt_dec o o') as [[Hlt|Heq]|Hlt].
    - exfalso. destruct (@on_path g A tr h a o HI Hp o' a' o' (le_n o') Hp' Hlt) as (c & Hc). rewrite <- F2 in Hc. rewrite Hs in Hc. inversion Hc; congruence.
    - subst o'. assert (a = a') by (eapply (i_inj HI); eauto). subst a'.
      assert (Ei : i = i') by congruence. rewrite <- Ei in Hs'. rewrite Hs in Hs'. inversion Hs'. auto.
    - exfalso. destruct (@on_path g A tr h a' o' HI Hp' o a o (le_n o) Hp Hlt) as (c & Hc). rewrite <- F2' in Hc. rewrite Hs' in Hc. inversion Hc; congruence.
  Qed.

  (** for every schedule: in every reachable configuration two slots never hold items with the same hash *)
  Theorem feldman_nodup_reach fuel ths c :
    Conc.reach (init_cfg hbits abits W hs fuel ths) c ->
    forall a i p a' i' p', data_at (Conc.shared c) a i p -> data_at (Conc.shared c) a' i' p' ->
      hash (ikey (Conc.shared c) p) = hash (ikey (Conc.shared c) p') -> a = a' /\ i = i' /\ p = p'.
  Proof.
    intros Hr a i p a' i' p' H1 H2 H3. destruct (feldman_inv_reach Hh Ha Hr) as (A & HI). eapply nodup_inv; eauto.
  Qed.

  (** ** expand_slot changes no key's presence *)
  Lemma reach_arr_ext g g' :
    (forall x j c, arr g' x j = mkSlot c 2 <-> arr g x j = mkSlot c 2) -> forall x, reach_arr g' x <-> reach_arr g x.
  Proof.
    intros H x. split; intros Hr; induction Hr as [|a i c Hr IH Hs]; try constructor.
    - eapply ra_child; [exact IH|apply H; exact Hs].
    - eapply ra_child; [exact IH|apply H; exact Hs].
  Qed.

  Definition conv_state (g : G) (a i p : nat) : G :=
    mkG (set_slot (arr g) a i (mkSlot p 1)) (S (narr g)) (nitem g) (ikey g) (count g).

  (** first CAS: data -> converting *)
  Lemma conv_preserves g a i p : arr g a i = mkSlot p 0 -> forall h, present (conv_state g a i p) h <-> present g h.
  Proof.
    intros Hs h.
    assert (EXT : forall x j c, arr (conv_state g a i p) x j = mkSlot c 2 <-> arr g x j = mkSlot c 2).
    { intros x j c. cbn. destruct (set_slot_cases (arr g) a i (mkSlot p 1) x j) as [[E Hv]|[E Hv]]; rewrite Hv; [|tauto].
      inversion E; subst. rewrite Hs. split; discriminate. }
    pose proof (reach_arr_ext _ _ EXT) as RE.
    split; intros (x & j & q & (Hr & b & Hq & Hb & Hq0) & Hh').
    - exists x, j, q. split; [|exact Hh']. split; [apply RE; exact Hr|]. cbn in Hq.
      destruct (set_slot_cases (arr g) a i (mkSlot p 1) x j) as [[E Hv]|[E Hv]]; rewrite Hv in Hq.
      + inversion E; subst. inversion Hq; subst. exists 0. repeat split; auto.
      + exists b. auto.
    - exists x, j, q. split; [|exact Hh']. split; [apply RE; exact Hr|]. cbn.
      destruct (set_slot_cases (arr g) a i (mkSlot p 1) x j) as [[E Hv]|[E Hv]]; rewrite Hv.
      + inversion E; subst. rewrite Hs in Hq. inversion Hq; subst. exists 1. repeat split; auto.
      + exists b. auto.
  Qed.

  (** the store into the pending (unlinked) array node *)
  Lemma store_preserves g A tr t a i p n idx :
    Inv g A tr -> ph (views A t) = PConv a i p n ->
    forall h, present (with_arr g (set_slot (arr g) n idx (mkSlot p 0))) h <-> present g h.
  Proof.
    intros HI Hph h. destruct (i_pend HI t (or_introl Hph)) as (_ & Hn & _).
    pose proof (i_pend_conv HI t Hph) as Hnull.
    set (g' := with_arr g _).
    assert (EXT : forall x j c, arr g' x j = mkSlot c 2 <-> arr g x j = mkSlot c 2).
    { intros x j c. cbn. destruct (set_slot_cases (arr g) n idx (mkSlot p 0) x j) as [[E Hv]|[E Hv]]; rewrite Hv; [|tauto].
      inversion E; subst. rewrite Hnull. split; discriminate. }
    pose proof (reach_arr_ext _ _ EXT) as RE.
    assert (NR : ~ reach_arr g n). { intros Hr. destruct (reach_pfx HI Hr) as (o & pre & Hp). congruence. }
    split; intros (x & j & q & (Hr & b & Hq & Hb & Hq0) & Hh'); exists x, j, q; (split; [|exact Hh']); (split; [apply RE; exact Hr|]);
      exists b; (split; [|auto]); cbn in *.
    - rewrite set_slot_other in Hq; [exact Hq|]. intros E; inversion E; subst. apply NR. apply RE. exact Hr.
    - rewrite set_slot_other; [exact Hq|]. intros E; inversion E; subst. apply NR. exact Hr.
  Qed.

  (** second CAS: converting -> array node *)
  Lemma link_preserves g A tr t a i p n :
    Inv g A tr -> ph (views A t) = PStored a i p n ->
    forall h, present (with_arr g (set_slot (arr g) a i (mkSlot n 2))) h <-> present g h.
  Proof.
    intros HI Hph h. destruct (i_pend HI t (or_intror Hph)) as (Hs & Hn & _ & _ & Hp0 & Hpa).
    destruct (i_pend_stored HI t Hph) as (o & pre & Hp & Hcont).
    set (idx := cut (hash (ikey g p)) (o + bits_of a) abits) in *.
    set (g' := with_arr g _).
    assert (Hna : n <> a) by (intros ->; congruence).
    assert (NR : ~ reach_arr g n). { intros Hr. destruct (reach_pfx HI Hr) as (o1 & pre1 & Hp1). congruence. }
    assert (R1 : forall x, reach_arr g x -> reach_arr g' x).
    { intros x Hr. induction Hr as [|y j c Hr IH Hc]; [constructor|]. eapply ra_child; [exact IH|]. cbn.
      rewrite set_slot_other; [exact Hc|]. intros E; inversion E; subst. congruence. }
    assert (R2 : forall x, reach_arr g' x -> reach_arr g x \/ (x = n /\ reach_arr g a)).
    { intros x Hr. induction Hr as [|y j c Hr IH Hc]; [left; constructor|]. cbn in Hc.
      destruct IH as [IH|[-> IH]].
      - destruct (set_slot_cases (arr g) a i (mkSlot n 2) y j) as [[E Hv]|[E Hv]]; rewrite Hv in Hc.
        + inversion E; subst. inversion Hc; subst. right. auto.
        + left. eapply ra_child; eauto.
      - exfalso. rewrite set_slot_other in Hc by (intros E; inversion E; congruence). rewrite Hcont in Hc.
        destruct (Nat.eqb j idx); discriminate. }
    split; intros (x & j & q & (Hr & b & Hq & Hb & Hq0) & Hh').
    - cbn in Hq. destruct (R2 x Hr) as [Hx|[-> Hra]].
      + destruct (set_slot_cases (arr g) a i (mkSlot n 2) x j) as [[E Hv]|[E Hv]]; rewrite Hv in Hq.
        * inversion Hq; congruence.
        * exists x, j, q. split; [|exact Hh']. split; [exact Hx|]. exists b. auto.
      + rewrite set_slot_other in Hq by (intros E; inversion E; congruence). rewrite Hcont in Hq.
        destruct (Nat.eqb j idx); [|inversion Hq; congruence]. inversion Hq; subst q b.
        exists a, i, p. split; [|exact Hh']. split; [exact Hra|]. exists 1. repeat split; auto.
    - destruct (Nat.eq_dec x a) as [->|Hxa]; [destruct (Nat.eq_dec j i) as [->|Hji]|].
      + rewrite Hs in Hq. inversion Hq; subst q b.
        exists n, idx, p. split; [|exact Hh']. split.
        * eapply ra_child; [apply R1; exact Hr|]. cbn. apply set_slot_same.
        * exists 0. cbn. rewrite set_slot_other by (intros E; inversion E; congruence). rewrite Hcont. rewrite Nat.eqb_refl. repeat split; auto.
      + exists a, j, q. split; [|exact Hh']. split; [apply R1; exact Hr|]. exists b. cbn.
        rewrite set_slot_other by (intros E; inversion E; congruence). auto.
      + exists x, j, q. split; [|exact Hh']. split; [apply R1; exact Hr|]. exists b. cbn.
        rewrite set_slot_other by (intros E; inversion E; congruence). auto.
  Qed.

  (** a slot that holds an array node never changes again; a converting slot can only become an array node:
      every access of the model other than the linking CAS leaves such slots alone (the CASes of insert / update / erase
      expect flag bits 0, see [Inv_data_cas]; the linking CAS is [Inv_link]) *)
  Lemma data_cas_keeps_flags g a i p q x j :
    arr g a i = mkSlot p 0 -> sbits (arr g x j) <> 0 -> set_slot (arr g) a i (mkSlot q 0) x j = arr g x j.
  Proof.
    intros Hs Hb. apply set_slot_other. intros E; inversion E; subst. rewrite Hs in Hb. cbn in Hb. congruence.
  Qed.
End Thm.
