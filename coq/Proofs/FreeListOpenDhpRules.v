(** * FreeListOpenDhpRules: [dsafe] rules (LV.Proofs.DhpLangProofs) for the free-list programs of LV.Model.Dhp
      ([fl_put], [fl_get], allocator events) over the open-world invariant of ONE instance [f], and the frame
      rule for everything else (including the programs of the OTHER instance).  README: at the end of LV.Proofs.FreeListOpenDhpThm. *)
From Coq Require Import ZArith NArith List String Bool Lia PeanoNat.
From LV Require Import Base.Conc Base.Events Model.FreeList Model.DhpLang Model.Dhp Proofs.DhpBase Proofs.DhpHist
  Proofs.DhpLangProofs Proofs.FreeListBase Proofs.FreeListInv Proofs.FreeListSteps Proofs.FreeListOpen
  Proofs.FreeListOpenRules Proofs.FreeListOpenDhp.
Import ListNotations.

(** what an event of Dhp.v means for instance [f]: allocator ghost events of [f], and the store to
    m_freeListNext of a node of [f] (node constructor of a fresh block / add_knowing_refcount_is_zero) *)
Definition node_tag (f : fl) : Z := match f with FHp => 8%Z | FRt => 9%Z end.
Definition clsf (f : fl) (e : ev) : fev :=
  match e with
  | EvAcc KSt [k; n; fld] _ => if (Z.eqb k (node_tag f) && Z.eqb fld 1)%bool then FInit (S (Z.to_nat n)) else FNone
  | EvAcc _ _ _ => FNone
  | _ => match classify e with
         | HAlloc f' b => if fl_eqb f' f then FAlloc (S b) else FNone
         | HNew f' b => if fl_eqb f' f then FNew (S b) else FNone
         | HFree f' b => if fl_eqb f' f then FFree (S b) else FNone
         | _ => FNone
         end
  end.

Definition mzero : mst := mkM (fun _ => false) (fun _ => false) (fun _ => false) false false.

(** [dfresh d t = Some (nb, announced)]: thread t has just created block nb (and emitted its "_new" event) and has
    not yet run the node constructor's store to m_freeListNext *)
Record DAux := mkD { da : Aux; dfresh : nat -> option (nat * bool) }.
Notation VF := (phase * option (nat * bool))%type.
Definition dview (d : DAux) (t : nat) : VF := (ph (da d) t, dfresh d t).

Section DRules.
  Variable NR : nat.
  Hypothesis HN2 : (Z.of_nat (S NR) + 2 < FLAG)%Z.
  Variable f : fl.

  Lemma HN : (Z.of_nat (S NR) + 1 < FLAG)%Z.
  Proof. lia. Qed.

  Notation mrunf := (mrun (clsf f) mzero).
  Notation OJf := (OJ NR Dhp.G (projf f)).

  (** the invariant of instance [f] inside Dhp.G *)
  Definition DInv (g : Dhp.G) (d : DAux) (tr : list (nat * ev)) : Prop :=
    (forall t nb b, dfresh d t = Some (nb, b) -> nb < flen g f) /\
    (m_cbad (mrunf tr) = false ->
       OJf g (da d) (mrunf tr) /\ m_abad (mrunf tr) = false /\
       (forall n, m_ex (mrunf tr) (S n) = true -> n < flen g f) /\
       (forall t nb, dfresh d t = Some (nb, true) -> m_pd (mrunf tr) (S nb) = true) /\
       (forall t t' nb, dfresh d t = Some (nb, true) -> dfresh d t' = Some (nb, true) -> t = t')).

  Notation dsafeF := (@dsafe Dhp.G ev DAux VF dview DInv).

  Theorem DInv_no_bad_alloc g d tr : DInv g d tr -> m_cbad (mrunf tr) = false -> m_abad (mrunf tr) = false.
  Proof. intros [_ H] Hc. apply H. exact Hc. Qed.

  Lemma dsafeF_xbind {X Y} t (p : P X) (q : X -> P Y) l (Q : option Y -> VF -> Prop) :
    dsafeF t p l (fun o l' => match o with Some x => dsafeF t (q x) l' Q | None => Q None l' end) ->
    dsafeF t (xbind p q) l Q.
  Proof.
    intros H. unfold xbind. apply dsafe_bind. eapply dsafe_weaken; [|exact H]. intros [x|] l' K; cbn; auto.
  Qed.

  Lemma dframe d a' t : (forall t', t' <> t -> ph a' t' = ph (da d) t') -> Conc.frame dview t d (mkD a' (dfresh d)).
  Proof. intros H t' Hne. unfold dview. cbn. rewrite H by exact Hne. reflexivity. Qed.

  (** *** frame: a node of a program that leaves instance [f] alone *)
  Definition quietG (g g' : Dhp.G) : Prop := Geq (projf f g) (projf f g') /\ flen g f <= flen g' f.
  Definition quietE (es : list ev) : Prop := quiet_es (clsf f) es.

  Lemma DInv_quiet g g' d tr t es : DInv g d tr -> quietG g g' -> quietE es -> DInv g' d (tr ++ Conc.tag t es).
  Proof.
    intros [H1 H2] [Hg Hl] Hq. split.
    - intros t' nb b E. specialize (H1 t' nb b E). lia.
    - intros Hc. pose proof (cbad_prefix _ _ _ _ Hc) as Hc0. destruct (H2 Hc0) as (HJ & Ha & He & Hpd & Hinj).
      rewrite mrun_app, (quiet_fold (clsf f) t es Hq). split; [eapply OJ_Geq; eauto|]. split; [exact Ha|].
      split; [|split; assumption]. intros n En. specialize (He n En). lia.
  Qed.

  Fixpoint fquiet {R} (p : @dprog Dhp.G ev R) : Prop :=
    match p with
    | DRet _ => True
    | DEmit es k => quietE es /\ fquiet k
    | DLoc fn k => (forall g, quietG g (fst (fn g))) /\ forall x, fquiet (k x)
    | DAct fn k => (forall g, quietG g (fst (fst (fn g))) /\ quietE (snd (fn g))) /\ forall x, fquiet (k x)
    end.

  (** RULE (frame, program level): a program none of whose nodes touches instance [f] keeps the invariant
      and the view *)
  Theorem fquiet_dsafe {R} t (p : @dprog Dhp.G ev R) l (Q : R -> VF -> Prop) :
    fquiet p -> (forall r, Q r l) -> dsafeF t p l Q.
  Proof.
    intros Hp HQ. induction p as [r|es k IH|X fn k IH|X fn k IH]; cbn [fquiet] in Hp; cbn [dsafe].
    - apply HQ.
    - destruct Hp as [He Hk]. intros g d tr HI Hv. exists d. split; [eapply DInv_quiet; eauto; split; [apply Geq_refl|lia]|].
      split; [apply frame_refl|rewrite Hv; apply IH; exact Hk].
    - destruct Hp as [Hg Hk]. intros g d tr HI Hv. exists d. split.
      + pose proof (DInv_quiet g (fst (fn g)) d tr t [] HI (Hg g)) as K. cbn in K. rewrite app_nil_r in K. apply K. intros e [].
      + split; [apply frame_refl|rewrite Hv; apply IH; apply Hk].
    - destruct Hp as [Hg Hk]. intros g d tr HI Hv. destruct (Hg g) as [G1 G2]. exists d.
      split; [eapply DInv_quiet; eauto|]. split; [apply frame_refl|rewrite Hv; apply IH; apply Hk].
  Qed.

  (** *** an access of the free-list algorithm on instance [f] *)
  Lemma dact_algo {X R} t (fa : Dhp.A X) (k : X -> @dprog Dhp.G ev R) p fr Q (a'f : Dhp.G -> Aux -> Aux) :
    (forall g, flen (fst (fst (fa g))) f = flen g f) ->
    (forall g a t', t' <> t -> ph (a'f g a) t' = ph a t') ->
    (forall g a m, ph a t = p -> OJf g a m -> (forall n, m_ex m (S n) = true -> n < flen g f) ->
                   algo_es (clsf f) a (snd (fa g)) /\ OJf (fst (fst (fa g))) (a'f g a) m) ->
    (forall g a, ph a t = p -> dsafeF t (k (snd (fst (fa g)))) (ph (a'f g a) t, fr) Q) ->
    dsafeF t (DAct fa k) (p, fr) Q.
  Proof.
    intros Hlen Hfr Hstep Hk. cbn [dsafe]. intros g d tr [H1 H2] Hv. unfold dview in Hv. injection Hv as Hp Hf.
    exists (mkD (a'f g (da d)) (dfresh d)). split; [|split].
    - split.
      + intros t' nb b E. rewrite Hlen. apply (H1 t' nb b E).
      + intros Hc. pose proof (cbad_prefix _ _ _ _ Hc) as Hc0. destruct (H2 Hc0) as (HJ & Ha & He & Hpd & Hinj).
        destruct (Hstep g (da d) _ Hp HJ He) as [Hal HJ'].
        rewrite mrun_app, (algo_fold NR (clsf f) (da d) _ t _ (proj2 HJ) Hal). cbn [da dfresh].
        split; [exact HJ'|]. split; [exact Ha|]. split; [|split; assumption]. intros n En. rewrite Hlen. apply He; exact En.
    - apply dframe. intros t' Hne. apply Hfr; exact Hne.
    - unfold dview. cbn [da dfresh]. rewrite Hf. apply Hk. exact Hp.
  Qed.

  Lemma flen_set_refs g f' n v : flen (fl_set_refs g f' n v) f = flen g f.
  Proof. destruct f, f'; cbn; unfold upd_gb, upd_rb; cbn; rewrite ?upd_nth_length; reflexivity. Qed.
  Lemma flen_set_next g f' n v : flen (fl_set_next g f' n v) f = flen g f.
  Proof. destruct f, f'; cbn; unfold upd_gb, upd_rb; cbn; rewrite ?upd_nth_length; reflexivity. Qed.
  Lemma flen_set_head g f' v : flen (fl_set_head g f' v) f = flen g f.
  Proof. destruct f, f'; reflexivity. Qed.

  Lemma algo_none a k o ok : (forall n, o <> [node_tag f; n; 1%Z]) -> algo_es (clsf f) a (acc k o ok).
  Proof.
    intros Ho e [<-|[]]. left. cbn. destruct k; try reflexivity. destruct o as [|x [|y [|z [|? ?]]]]; try reflexivity.
    destruct (Z.eqb_spec x (node_tag f)); [|reflexivity]. destruct (Z.eqb_spec z 1); [|reflexivity]. subst. exfalso. eapply Ho; reflexivity.
  Qed.
  Lemma algo_head a k ok : algo_es (clsf f) a (acc k (obj_head f) ok).
  Proof. apply algo_none. intros n. destruct f; discriminate. Qed.
  Lemma algo_refs a k n ok : algo_es (clsf f) a (acc k (obj_node f n 0) ok).
  Proof. apply algo_none. intros x. destruct f; cbn; intros E; injection E as _ E; discriminate. Qed.
  Lemma algo_next_ld a n ok : algo_es (clsf f) a (acc KLd (obj_node f n 1) ok).
  Proof. intros e [<-|[]]. left. destruct f; reflexivity. Qed.
  Lemma algo_next_st a n ok : st a (S n) <> Nil -> algo_es (clsf f) a (acc KSt (obj_node f n 1) ok).
  Proof.
    intros Hn e [<-|[]]. right. exists (S n). split; [|exact Hn].
    destruct f; cbn; unfold zn; rewrite Nat2Z.id; reflexivity.
  Qed.

  (** existence of the node an access works on *)
  Lemma node_exists g a m n : OJf g a m -> (forall k, m_ex m (S k) = true -> k < flen g f) -> st a (S n) <> Nil -> n < flen g f.
  Proof.
    intros (_ & (_ & C2 & _)) He Hn. apply He. rewrite C2. destruct (st a (S n)); cbn; try reflexivity. congruence.
  Qed.

  Lemma refs_nonzero_notnil g a m n : OJf g a m -> refs (projf f g) n <> 0%Z -> st a n <> Nil.
  Proof.
    intros ((v0 & Hv & HS) & _) Hr E. apply Hr. rewrite (S_refs HS n), E. cbn [flag_of base_of].
    pose proof (S_st HS n) as Ho. unfold st_ok in Ho. rewrite E in Ho. rewrite Ho. reflexivity.
  Qed.


  Lemma active_lt_real g a m t p : OJf g a m -> ph a t = p -> p <> Idle -> t < NR.
  Proof.
    intros ((v0 & Hv & HS) & (_ & _ & _ & _ & C5)) Hp Hni.
    assert (t < S NR) by (eapply active_lt; eauto; congruence).
    destruct (Nat.eq_dec t NR) as [->|]; [congruence|lia].
  Qed.

  Notation st_notnil_of := (fun (a : Aux) (n : nat) (s : nstate) (E : st a n = s) (H : s <> Nil) => eq_ind_r (fun x => x <> Nil) H E).

  (** *** add_knowing_refcount_is_zero *)
  Definition QdoneD (fr : option (nat * bool)) : option unit -> VF -> Prop :=
    fun o l => match o with Some _ => l = (Busy, fr) | None => True end.

  Lemma d_fuel_out {R} t l (Q : option R -> VF -> Prop) : Q None l -> dsafeF t (@fuel_out R) l Q.
  Proof.
    intros HQ. unfold fuel_out. cbn [dsafe]. intros g d tr HI Hv. exists d.
    split; [eapply DInv_quiet; eauto; [split; [apply Geq_refl|lia]|intros e [<-|[]]; reflexivity]|].
    split; [apply frame_refl|rewrite Hv; exact HQ].
  Qed.

  Lemma d_add_knowing sp : forall t n head fr,
    dsafeF t (add_knowing sp f n head) (AStart (S n), fr) (QdoneD fr).
  Proof.
    induction sp as [|sp IH]; intros t n head fr; cbn [add_knowing].
    - apply d_fuel_out. exact I.
    - unfold xbind at 1. cbn [act dbind].
      (* m_freeListNext.store( head ) *)
      apply dact_algo with (a'f := fun g a => aux_set a (S n) (st a (S n)) t (ANxt (S n) (enc_o head))).
      { intros g. apply flen_set_next. }
      { intros g a t' Hne. apply ph_set_other; exact Hne. }
      { intros g a m Hp HJ He. pose proof HJ as ((v0 & Hv & HS) & HC).
        pose proof (S_ph HS t) as Hx. rewrite Hp in Hx. cbn in Hx.
        assert (Hnn : st a (S n) <> Nil) by (rewrite Hx; discriminate).
        split; [apply algo_next_st; exact Hnn|]. cbn [a_st_flnext fst snd].
        eapply (O_st_next NR HN); [exact HJ|eapply active_lt_real; [exact HJ|exact Hp|discriminate]|exact Hp|]. apply proj_set_next. eapply node_exists; [exact HJ|exact He|exact Hnn]. }
      intros g a Hp. rewrite ph_set_same. cbn [a_st_flnext fst snd].
      unfold xbind at 1. cbn [act dbind].
      (* m_freeListRefs.store( 1 ) *)
      apply dact_algo with (a'f := fun g a => aux_set a (S n) (Publ t) t (APub (S n) (enc_o head))).
      { intros g0. apply flen_set_refs. }
      { intros g0 a0 t' Hne. apply ph_set_other; exact Hne. }
      { intros g0 a0 m Hp0 HJ He. pose proof HJ as ((v0 & Hv & HS) & HC).
        pose proof (S_ph HS t) as Hx. rewrite Hp0 in Hx. cbn in Hx. destruct Hx as [Hx _].
        assert (Hnn : st a0 (S n) <> Nil) by (rewrite Hx; discriminate).
        split; [apply algo_refs|]. cbn [a_st_refs fst snd].
        eapply (O_st_refs NR HN); [exact HJ|eapply active_lt_real; [exact HJ|exact Hp0|discriminate]|exact Hp0|]. apply (proj_set_refs g0 f n 1%N). eapply node_exists; [exact HJ|exact He|exact Hnn]. }
      intros g0 a0 Hp0. rewrite ph_set_same. cbn [a_st_refs fst snd].
      unfold xbind at 1. cbn [act dbind].
      (* m_Head.compare_exchange_strong( head, pNode ) *)
      apply dact_algo with (a'f := fun g a => if oeqb (fl_head g f) head
                                              then step_aux a (S n) OnList (S n :: lst a) t Busy (hl a t) (own a)
                                              else aux_set a (S n) (st a (S n)) t (AFail (S n))).
      { intros g1. unfold a_cas_head. destruct (oeqb (fl_head g1 f) head); cbn [fst]; [apply flen_set_head|reflexivity]. }
      { intros g1 a1 t' Hne. destruct (oeqb (fl_head g1 f) head); [cbn; apply upd_other; exact Hne|apply ph_set_other; exact Hne]. }
      { intros g1 a1 m Hp1 HJ He. unfold a_cas_head. destruct (oeqb (fl_head g1 f) head) eqn:E; cbn [fst snd].
        - split; [apply algo_head|]. apply oeqb_eq in E.
          eapply (O_cas_head_add_ok NR HN); [exact HJ|eapply active_lt_real; [exact HJ|exact Hp1|discriminate]|exact Hp1|cbn; rewrite E; reflexivity|].
          apply (proj_set_head g1 f (Some n)).
        - split; [apply algo_head|]. eapply (O_cas_head_add_fail NR HN); [exact HJ|eapply active_lt_real; [exact HJ|exact Hp1|discriminate]|exact Hp1]. }
      intros g1 a1 Hp1. unfold a_cas_head. destruct (oeqb (fl_head g1 f) head) eqn:E; cbn [fst snd].
      + cbn [step_aux ph]. rewrite upd_same. cbn. reflexivity.
      + rewrite ph_set_same. unfold xbind at 1. cbn [act dbind].
        (* m_freeListRefs.fetch_add( c_ShouldBeOnFreeList - 1 ) *)
        apply dact_algo with (a'f := fun g a => if N.eqb (fl_refs g f n) 1
                                                then aux_set a (S n) (Adding t) t (AStart (S n))
                                                else aux_set a (S n) Pending t Busy).
        { intros g2. apply flen_set_refs. }
        { intros g2 a2 t' Hne. destruct (N.eqb (fl_refs g2 f n) 1); apply ph_set_other; exact Hne. }
        { intros g2 a2 m Hp2 HJ He. pose proof HJ as ((v0 & Hv & HS) & HC).
          pose proof (S_ph HS t) as Hx. rewrite Hp2 in Hx. cbn in Hx.
          assert (Hnn : st a2 (S n) <> Nil) by (rewrite Hx; discriminate).
          assert (Hex : n < flen g2 f) by (eapply node_exists; [exact HJ|exact He|exact Hnn]).
          split; [apply algo_refs|]. cbn [a_faa_refs fst snd].
          assert (Hg : Geq (set_refs (projf f g2) (S n) (u32 (refs (projf f g2) (S n) + (FLAG - 1))))
                           (projf f (fl_set_refs g2 f n (w32 (fl_refs g2 f n + (SB - 1)))))).
          { cbn [refs projf]. rewrite <- zn_SBm1, <- zn_faa. apply proj_set_refs. exact Hex. }
          destruct (N.eqb_spec (fl_refs g2 f n) 1) as [E1|E1].
          - eapply (O_add_faa_retry NR HN); [exact HJ|eapply active_lt_real; [exact HJ|exact Hp2|discriminate]|exact Hp2| |exact Hg]. cbn [refs projf]. rewrite E1. reflexivity.
          - eapply (O_add_faa_pending NR HN); [exact HJ|eapply active_lt_real; [exact HJ|exact Hp2|discriminate]|exact Hp2| |exact Hg]. cbn [refs projf]. lia. }
        intros g2 a2 Hp2. cbn [a_faa_refs fst snd]. destruct (N.eqb (fl_refs g2 f n) 1).
        * rewrite ph_set_same. apply IH.
        * rewrite ph_set_same. cbn. reflexivity.
  Qed.

  Lemma d_ld_head {R} t (k : option nat -> @dprog Dhp.G ev R) p fr Q :
    (forall v, dsafeF t (k v) (p, fr) Q) -> dsafeF t (DAct (a_ld_head f) k) (p, fr) Q.
  Proof.
    intros Hk. apply dact_algo with (a'f := fun _ a => a); auto.
    - intros g a m Hp HJ He. split; [apply algo_head|exact HJ].
    - intros g a Hp. rewrite Hp. apply Hk.
  Qed.

  Lemma d_fl_add sp t n fr : dsafeF t (fl_add sp f n) (AStart (S n), fr) (QdoneD fr).
  Proof. unfold fl_add, xbind. cbn [act dbind]. apply d_ld_head. intros v. apply d_add_knowing. Qed.

  (** *** put( node n ): RULE.  Precondition: the "_free" event of n was emitted by this thread (phase PPut) *)
  Theorem d_fl_put sp t n fr : dsafeF t (fl_put sp f n) (PPut (S n), fr) (QdoneD fr).
  Proof.
    unfold fl_put, xbind. cbn [act dbind].
    apply dact_algo with (a'f := fun g a => if N.eqb (fl_refs g f n) 0
                                            then aux_set a (S n) (Adding t) t (AStart (S n))
                                            else aux_set a (S n) Pending t Busy).
    { intros g. apply flen_set_refs. }
    { intros g a t' Hne. destruct (N.eqb (fl_refs g f n) 0); apply ph_set_other; exact Hne. }
    { intros g a m Hp HJ He. pose proof HJ as ((v0 & Hv & HS) & HC).
      pose proof (S_ph HS t) as Hx. rewrite Hp in Hx. cbn in Hx. destruct Hx as [Hx _].
      assert (Hnn : st a (S n) <> Nil) by (rewrite Hx; discriminate).
      assert (Hex : n < flen g f) by (eapply node_exists; [exact HJ|exact He|exact Hnn]).
      split; [apply algo_refs|]. cbn [a_faa_refs fst snd].
      assert (Hg : Geq (set_refs (projf f g) (S n) (u32 (refs (projf f g) (S n) + FLAG)))
                       (projf f (fl_set_refs g f n (w32 (fl_refs g f n + SB))))).
      { cbn [refs projf]. rewrite <- zn_SB, <- zn_faa. apply proj_set_refs. exact Hex. }
      destruct (N.eqb_spec (fl_refs g f n) 0) as [E1|E1].
      - eapply (O_put_add NR HN); [exact HJ|eapply active_lt_real; [exact HJ|exact Hp|discriminate]|exact Hp| |exact Hg]. cbn [refs projf]. rewrite E1. reflexivity.
      - eapply (O_put_pending NR HN); [exact HJ|eapply active_lt_real; [exact HJ|exact Hp|discriminate]|exact Hp| |exact Hg]. cbn [refs projf]. lia. }
    intros g a Hp. cbn [a_faa_refs fst snd]. destruct (N.eqb (fl_refs g f n) 0).
    - rewrite ph_set_same. cbn [dbind]. apply d_fl_add.
    - rewrite ph_set_same. cbn. reflexivity.
  Qed.

  (** *** get(): RULE.  Postcondition: [Some (Some h)]: the thread is about to take over node h (phase PRet: the
          "_alloc" event is due); [Some None]: nullptr; [None]: out of fuel *)
  Definition QgetD (fr : option (nat * bool)) : option (option nat) -> VF -> Prop :=
    fun o l => match o with
               | None => True
               | Some None => l = (Busy, fr)
               | Some (Some h) => l = (PRet (S h), fr)
               end.

  Lemma refs_bound g a m n : OJf g a m -> (refs (projf f g) n + 1 < 4294967296)%Z.
  Proof.
    intros ((v0 & Hv & HS) & _). rewrite (S_refs HS n). pose proof (cnt_le (S NR) a n) as Hc.
    unfold enc, FLAG in *. destruct (flag_of (st a n)); destruct (st a n); cbn [base_of]; lia.
  Qed.

  Lemma d_fl_get_loop sp : forall t head fr, dsafeF t (fl_get_loop sp f head) (Busy, fr) (QgetD fr).
  Proof.
    induction sp as [|sp IH]; intros t head fr; destruct head as [h|]; cbn [fl_get_loop]; try (cbn; reflexivity).
    - apply d_fuel_out. exact I.
    - unfold xbind at 1. cbn [act dbind].
      (* refs = head->m_freeListRefs.load() *)
      apply dact_algo with (a'f := fun _ a => a); auto.
      { intros g a m Hp HJ He. split; [apply algo_refs|exact HJ]. }
      intros g a Hp. rewrite Hp. cbn [a_ld_refs fst snd]. set (r := fl_refs g f h). clearbody r. clear g a Hp.
      destruct (N.eqb (N.land r RMASK) 0) eqn:Em.
      + unfold xbind. cbn [act dbind]. apply d_ld_head. intros v. apply IH.
      + unfold xbind at 1. cbn [act dbind].
        (* compare_exchange_strong( refs, refs + 1 ) *)
        apply dact_algo with (a'f := fun g a => if N.eqb (fl_refs g f h) r then aux_set a (S h) (st a (S h)) t (GRef (S h)) else a).
        { intros g. unfold a_cas_refs. destruct (N.eqb (fl_refs g f h) r); cbn [fst]; [apply flen_set_refs|reflexivity]. }
        { intros g a t' Hne. destruct (N.eqb (fl_refs g f h) r); [apply ph_set_other; exact Hne|reflexivity]. }
        { intros g a m Hp HJ He. unfold a_cas_refs. destruct (N.eqb_spec (fl_refs g f h) r) as [E|E]; cbn [fst snd].
          - split; [apply algo_refs|].
            assert (Hm : (Z.of_N r mod FLAG <> 0)%Z).
            { rewrite zn_mask in Em. destruct (Z.eqb_spec (Z.of_N r mod FLAG) 0); [discriminate|assumption]. }
            assert (Hr : refs (projf f g) (S h) = Z.of_N r) by (cbn [refs projf]; rewrite E; reflexivity).
            assert (Hnn : st a (S h) <> Nil).
            { eapply refs_nonzero_notnil; [exact HJ|]. rewrite Hr. intros E0. rewrite E0 in Hm. apply Hm. reflexivity. }
            pose proof (refs_bound g a m (S h) HJ) as Hb. rewrite Hr in Hb.
            eapply (O_cas_refs NR HN); [exact HJ|eapply active_lt_real; [exact HJ|exact Hp|discriminate]|exact Hp|exact Hr|exact Hm|].
            rewrite <- zn_succ by exact Hb. apply proj_set_refs. eapply node_exists; [exact HJ|exact He|exact Hnn].
          - split; [apply algo_refs|exact HJ]. }
        intros g a Hp. unfold a_cas_refs. destruct (N.eqb (fl_refs g f h) r); cbn [fst snd negb].
        * rewrite ph_set_same. unfold xbind at 1. cbn [act dbind].
          (* next = head->m_freeListNext.load() *)
          apply dact_algo with (a'f := fun g a => aux_set a (S h) (st a (S h)) t (GNext (S h) (enc_o (fl_next g f h)))).
          { intros g0. reflexivity. }
          { intros g0 a0 t' Hne. apply ph_set_other; exact Hne. }
          { intros g0 a0 m Hp0 HJ He. split; [apply algo_next_ld|]. cbn [a_ld_flnext fst snd].
            apply (O_ld_next NR HN Dhp.G (projf f) g0 a0 m t (S h)); [exact HJ|eapply active_lt_real; [exact HJ|exact Hp0|discriminate]|exact Hp0]. }
          intros g0 a0 Hp0. rewrite ph_set_same. cbn [a_ld_flnext fst snd]. set (nx := fl_next g0 f h). clearbody nx. clear g0 a0 Hp0.
          unfold xbind at 1. cbn [act dbind].
          (* m_Head.compare_exchange_strong( head, next ) *)
          apply dact_algo with (a'f := fun g a => if oeqb (fl_head g f) (Some h)
                                                  then step_aux a (S h) (Taking t) (tl (lst a)) t (GTook (S h)) (hl a t) (own a)
                                                  else aux_set a (S h) (st a (S h)) t (GFail (S h))).
          { intros g1. unfold a_cas_head. destruct (oeqb (fl_head g1 f) (Some h)); cbn [fst]; [apply flen_set_head|reflexivity]. }
          { intros g1 a1 t' Hne. destruct (oeqb (fl_head g1 f) (Some h)); [cbn; apply upd_other; exact Hne|apply ph_set_other; exact Hne]. }
          { intros g1 a1 m Hp1 HJ He. unfold a_cas_head. destruct (oeqb (fl_head g1 f) (Some h)) eqn:E; cbn [fst snd].
            - split; [apply algo_head|]. apply oeqb_eq in E.
              eapply (O_cas_head_get_ok NR HN); [exact HJ|eapply active_lt_real; [exact HJ|exact Hp1|discriminate]|exact Hp1|cbn; rewrite E; reflexivity|discriminate|].
              apply (proj_set_head g1 f nx).
            - split; [apply algo_head|]. eapply (O_cas_head_get_fail NR HN); [exact HJ|eapply active_lt_real; [exact HJ|exact Hp1|discriminate]|exact Hp1]. }
          intros g1 a1 Hp1. unfold a_cas_head. destruct (oeqb (fl_head g1 f) (Some h)) eqn:E; cbn [fst snd].
          -- cbn [step_aux ph]. rewrite upd_same. unfold xbind. cbn [act dbind ret].
             (* fetch_sub( 2 ) *)
             apply dact_algo with (a'f := fun g a => aux_set a (S h) (Held t) t (PRet (S h))).
             { intros g2. apply flen_set_refs. }
             { intros g2 a2 t' Hne. apply ph_set_other; exact Hne. }
             { intros g2 a2 m Hp2 HJ He. pose proof HJ as ((v0 & Hv & HS) & HC).
               pose proof (S_ph HS t) as Hx. rewrite Hp2 in Hx. cbn in Hx.
               assert (Hnn : st a2 (S h) <> Nil) by (rewrite Hx; discriminate).
               split; [apply algo_refs|]. cbn [a_fas_refs fst snd].
               eapply (O_fas2 NR HN); [exact HJ|eapply active_lt_real; [exact HJ|exact Hp2|discriminate]|exact Hp2|].
               cbn [refs projf]. change 2%Z with (Z.of_N 2). rewrite <- zn_fas by (unfold W32; lia).
               apply proj_set_refs. eapply node_exists; [exact HJ|exact He|exact Hnn]. }
             intros g2 a2 Hp2. rewrite ph_set_same. cbn. reflexivity.
          -- rewrite ph_set_same. unfold xbind at 1. cbn [act dbind].
             (* refs = fetch_sub( 1 ) *)
             apply dact_algo with (a'f := fun g a => if N.eqb (fl_refs g f h) (SB + 1)
                                                     then aux_set a (S h) (Adding t) t (AStart (S h))
                                                     else aux_set a (S h) (st a (S h)) t Busy).
             { intros g2. apply flen_set_refs. }
             { intros g2 a2 t' Hne. destruct (N.eqb (fl_refs g2 f h) (SB + 1)); apply ph_set_other; exact Hne. }
             { intros g2 a2 m Hp2 HJ He. pose proof HJ as ((v0 & Hv & HS) & HC).
               assert (Hlt : t < NR) by (eapply active_lt_real; [exact HJ|exact Hp2|discriminate]).
               assert (Hpos : (1 <= cnt (S NR) a2 (S h))%nat).
               { eapply (ref_cnt_pos (S NR) v0 (projf f g2) a2 t (S h)); [exact HS|]. rewrite Hp2. unfold has_ref. cbn. apply Nat.eqb_refl. }
               assert (Hnn : st a2 (S h) <> Nil).
               { intros E0. pose proof (S_st HS (S h)) as Ho. unfold st_ok in Ho. rewrite E0 in Ho. lia. }
               assert (Hex : h < flen g2 f) by (eapply node_exists; [exact HJ|exact He|exact Hnn]).
               split; [apply algo_refs|]. cbn [a_fas_refs fst snd].
               assert (Hg : Geq (set_refs (projf f g2) (S h) (u32 (refs (projf f g2) (S h) - 1)))
                                (projf f (fl_set_refs g2 f h (w32 (fl_refs g2 f h + W32 - 1))))).
               { cbn [refs projf]. change 1%Z with (Z.of_N 1). rewrite <- zn_fas by (unfold W32; lia). apply proj_set_refs. exact Hex. }
               destruct (N.eqb_spec (fl_refs g2 f h) (SB + 1)) as [E1|E1].
               - eapply (O_fas1_readd NR HN); [exact HJ|exact Hlt|exact Hp2| |exact Hg]. cbn [refs projf]. rewrite E1. reflexivity.
               - eapply (O_fas1_release NR HN); [exact HJ|exact Hlt|exact Hp2| |exact Hg]. cbn [refs projf]. rewrite <- zn_SBp1. lia. }
             intros g2 a2 Hp2. cbn [a_fas_refs fst snd]. destruct (N.eqb (fl_refs g2 f h) (SB + 1)).
             ++ rewrite ph_set_same. apply dsafeF_xbind. eapply dsafe_weaken; [|apply d_fl_add].
                intros [[]|] l Hl; cbn in Hl; [subst l; apply IH|exact I].
             ++ rewrite ph_set_same. unfold xbind at 1. cbn [ret dbind]. apply IH.
        * rewrite Hp. unfold xbind. cbn [act dbind]. apply d_ld_head. intros v. apply IH.
  Qed.

  Theorem d_fl_get sp t fr : dsafeF t (fl_get sp f) (Busy, fr) (QgetD fr).
  Proof. unfold fl_get, xbind. cbn [act dbind]. apply d_ld_head. intros v. apply d_fl_get_loop. Qed.

  (** *** the allocator events of instance [f] *)
  Lemma fl_eqb_refl x : fl_eqb x x = true.
  Proof. destruct x; reflexivity. Qed.
  Lemma cls_free b : clsf f (ev_free f b) = FFree (S b).
  Proof. unfold clsf. change (ev_free f b) with (EvCli "_free" [fl_z f; zn b]). fold (ev_free f b). rewrite classify_free, fl_eqb_refl. reflexivity. Qed.
  Lemma cls_alloc b : clsf f (ev_alloc f b) = FAlloc (S b).
  Proof. unfold clsf. change (ev_alloc f b) with (EvCli "_alloc" [fl_z f; zn b]). fold (ev_alloc f b). rewrite classify_alloc, fl_eqb_refl. reflexivity. Qed.
  Lemma cls_new b : clsf f (ev_new f b) = FNew (S b).
  Proof. unfold clsf. change (ev_new f b) with (EvCli "_new" [fl_z f; zn b]). fold (ev_new f b). rewrite classify_new, fl_eqb_refl. reflexivity. Qed.

  Lemma mrun_snoc tr t e : mrunf (tr ++ Conc.tag t [e]) = mstep_ev (mrunf tr) (clsf f e).
  Proof. rewrite mrun_app. reflexivity. Qed.

  (** RULE: "_free f b" (the client gives block b back; precedes put).  Busy -> PPut *)
  Theorem d_emit_free {R} t b (k : @dprog Dhp.G ev R) fr Q :
    dsafeF t k (PPut (S b), fr) Q -> dsafeF t (DEmit [ev_free f b] k) (Busy, fr) Q.
  Proof.
    intros Hk. cbn [dsafe]. intros g d tr [H1 H2] Hv. unfold dview in Hv. injection Hv as Hp Hf.
    exists (mkD (aux_free NR (da d) t (S b)) (dfresh d)). split; [|split].
    - split; [exact H1|]. intros Hc. pose proof (cbad_prefix _ _ _ _ Hc) as Hc0.
      destruct (H2 Hc0) as (HJ & Ha & He & Hpd & Hinj).
      rewrite mrun_snoc, cls_free in *. cbn [mstep_ev] in *.
      destruct (m_ex (mrunf tr) (S b) && negb (m_fr (mrunf tr) (S b)) && negb (m_pd (mrunf tr) (S b)))%bool eqn:E; [|cbn in Hc; discriminate].
      apply andb_prop in E. destruct E as [E E3]. apply andb_prop in E. destruct E as [E1 E2]. apply negb_true_iff in E2, E3.
      assert (Hlt : t < NR) by (eapply active_lt_real; [exact HJ|exact Hp|discriminate]).
      cbn [m_abad m_ex m_pd da dfresh]. split; [apply (O_free NR HN); auto|]. split; [exact Ha|]. split; [exact He|]. split; assumption.
    - apply dframe. intros t' Hne. cbn. apply upd_other; exact Hne.
    - unfold dview. cbn [da dfresh aux_free ph]. rewrite upd_same, Hf. exact Hk.
  Qed.

  (** RULE: "_alloc f b" (the client takes over the block get() returned).  PRet -> Busy *)
  Theorem d_emit_alloc {R} t b (k : @dprog Dhp.G ev R) fr Q :
    dsafeF t k (Busy, fr) Q -> dsafeF t (DEmit [ev_alloc f b] k) (PRet (S b), fr) Q.
  Proof.
    intros Hk. cbn [dsafe]. intros g d tr [H1 H2] Hv. unfold dview in Hv. injection Hv as Hp Hf.
    exists (mkD (aux_alloc NR (da d) t (S b)) (dfresh d)). split; [|split].
    - split; [exact H1|]. intros Hc. pose proof (cbad_prefix _ _ _ _ Hc) as Hc0.
      destruct (H2 Hc0) as (HJ & Ha & He & Hpd & Hinj).
      assert (Hlt : t < NR) by (eapply active_lt_real; [exact HJ|exact Hp|discriminate]).
      destruct (O_alloc NR HN Dhp.G (projf f) g (da d) _ t (S b) HJ Hlt Hp) as [Hfr HJ'].
      rewrite mrun_snoc, cls_alloc. cbn [mstep_ev]. rewrite Hfr.
      cbn [m_abad m_ex m_pd da dfresh]. split; [exact HJ'|]. split; [exact Ha|]. split; [exact He|]. split; assumption.
    - apply dframe. intros t' Hne. cbn. apply upd_other; exact Hne.
    - unfold dview. cbn [da dfresh aux_alloc ph]. rewrite upd_same, Hf. exact Hk.
  Qed.

  (** RULE: creation of a block (non-atomic code [fn] that appends a default block and returns its index) *)
  Theorem d_loc_fresh {R} t (fn : Dhp.G -> Dhp.G * nat) (k : nat -> @dprog Dhp.G ev R) p fr Q :
    (forall g, quietG g (fst (fn g)) /\ snd (fn g) < flen (fst (fn g)) f) ->
    (forall nb, dsafeF t (k nb) (p, Some (nb, false)) Q) ->
    dsafeF t (DLoc fn k) (p, fr) Q.
  Proof.
    intros Hfn Hk. cbn [dsafe]. intros g d tr HI Hv. unfold dview in Hv. injection Hv as Hp Hf.
    destruct (Hfn g) as [Hq Hlt].
    pose proof (DInv_quiet g (fst (fn g)) d tr t [] HI Hq (fun e (H : In e []) => match H with end)) as K.
    cbn in K. rewrite app_nil_r in K. destruct K as [K1 K2].
    exists (mkD (da d) (upd (dfresh d) t (Some (snd (fn g), false)))). split; [|split].
    - split.
      + intros t' nb b E. cbn in E. unfold upd in E. destruct (Nat.eqb_spec t' t) as [->|_]; [injection E as <- <-; exact Hlt|eapply K1; eauto].
      + intros Hc. destruct (K2 Hc) as (HJ & Ha & He & Hpd & Hinj). cbn [da dfresh]. split; [exact HJ|]. split; [exact Ha|]. split; [exact He|]. split.
        * intros t' nb E. unfold upd in E. destruct (Nat.eqb_spec t' t) as [->|_]; [discriminate|eapply Hpd; eauto].
        * intros t1 t2 nb E1 E2. unfold upd in E1, E2.
          destruct (Nat.eqb_spec t1 t) as [->|_]; [discriminate|]. destruct (Nat.eqb_spec t2 t) as [->|_]; [discriminate|]. eapply Hinj; eauto.
    - intros t' Hne. unfold dview. cbn. rewrite upd_other by exact Hne. reflexivity.
    - unfold dview. cbn [da dfresh]. rewrite upd_same, Hp. apply Hk.
  Qed.

  (** RULE: "_new f nb" right after the creation *)
  Theorem d_emit_new {R} t nb (k : @dprog Dhp.G ev R) p Q :
    dsafeF t k (p, Some (nb, true)) Q -> dsafeF t (DEmit [ev_new f nb] k) (p, Some (nb, false)) Q.
  Proof.
    intros Hk. cbn [dsafe]. intros g d tr [H1 H2] Hv. unfold dview in Hv. injection Hv as Hp Hf.
    exists (mkD (da d) (upd (dfresh d) t (Some (nb, true)))). split; [|split].
    - split.
      + intros t' n b E. cbn in E. unfold upd in E. destruct (Nat.eqb_spec t' t) as [->|_]; [injection E as <- <-; eapply H1; eauto|eapply H1; eauto].
      + intros Hc. pose proof (cbad_prefix _ _ _ _ Hc) as Hc0. destruct (H2 Hc0) as (HJ & Ha & He & Hpd & Hinj).
        rewrite mrun_snoc, cls_new in *. cbn [mstep_ev Nat.eqb orb] in *.
        destruct (m_ex (mrunf tr) (S nb)) eqn:E; [cbn in Hc; discriminate|].
        cbn [m_abad m_ex m_pd da dfresh]. split; [apply (O_new NR); auto|]. split; [exact Ha|]. split; [|split].
        * intros n En. unfold bset in En. destruct (Nat.eqb_spec (S n) (S nb)) as [E0|_]; [injection E0 as ->; eapply H1; eauto|apply He; exact En].
        * intros t' n En. unfold upd in En. unfold bset. destruct (Nat.eqb_spec t' t) as [->|_].
          -- injection En as <-. now rewrite Nat.eqb_refl.
          -- destruct (Nat.eqb_spec (S n) (S nb)); [reflexivity|eapply Hpd; eauto].
        * intros t1 t2 n E1 E2. unfold upd in E1, E2.
          assert (Hold : forall t', dfresh d t' = Some (n, true) -> n <> nb).
          { intros t' Et' ->. pose proof (Hpd t' nb Et') as Ep. destruct HJ as (_ & (_ & C2 & _)). rewrite C2, Ep in E. rewrite orb_true_r in E. discriminate. }
          destruct (Nat.eqb_spec t1 t) as [->|N1]; destruct (Nat.eqb_spec t2 t) as [->|N2]; auto.
          -- injection E1 as <-. exfalso. eapply Hold; eauto.
          -- injection E2 as <-. exfalso. eapply Hold; eauto.
          -- eapply Hinj; eauto.
    - intros t' Hne. unfold dview. cbn. rewrite upd_other by exact Hne. reflexivity.
    - unfold dview. cbn [da dfresh]. rewrite upd_same, Hp. exact Hk.
  Qed.

  (** RULE: the node constructor's store to m_freeListNext of the announced block: the node now exists (out) *)
  Theorem d_act_init {R} t nb v (k : unit -> @dprog Dhp.G ev R) p Q :
    p <> Idle ->
    dsafeF t (k tt) (p, None) Q -> dsafeF t (DAct (a_st_flnext f nb v) k) (p, Some (nb, true)) Q.
  Proof.
    intros Hni Hk. cbn [dsafe]. intros g d tr [H1 H2] Hv. unfold dview in Hv. injection Hv as Hp Hf.
    cbn [a_st_flnext fst snd].
    exists (mkD (aux_init NR (da d) (S nb)) (upd (dfresh d) t None)). split; [|split].
    - split.
      + intros t' n b E. cbn in E. unfold upd in E. rewrite flen_set_next. destruct (Nat.eqb_spec t' t) as [->|_]; [discriminate|eapply H1; eauto].
      + intros Hc. pose proof (cbad_prefix _ _ _ _ Hc) as Hc0. destruct (H2 Hc0) as (HJ & Ha & He & Hpd & Hinj).
        pose proof (Hpd t nb Hf) as Ep.
        assert (Ecls : clsf f (EvAcc KSt (obj_node f nb 1) true) = FInit (S nb)).
        { destruct f; cbn; unfold zn; rewrite Nat2Z.id; reflexivity. }
        unfold acc. rewrite mrun_snoc, Ecls. cbn [mstep_ev]. rewrite Ep. cbn [m_abad m_ex m_pd da dfresh].
        split; [|split; [exact Ha|split; [|split]]].
        * eapply (O_init NR); [exact HJ|exact Ep|]. apply proj_set_next. eapply H1; eauto.
        * intros n En. rewrite flen_set_next. apply He; exact En.
        * intros t' n En. unfold upd in En. destruct (Nat.eqb_spec t' t) as [->|Hne]; [discriminate|].
          unfold bset. destruct (Nat.eqb_spec (S n) (S nb)) as [E0|_]; [|eapply Hpd; eauto].
          injection E0 as ->. exfalso. apply Hne. eapply Hinj; eauto.
        * intros t1 t2 n E1 E2. unfold upd in E1, E2.
          destruct (Nat.eqb_spec t1 t) as [->|_]; [discriminate|]. destruct (Nat.eqb_spec t2 t) as [->|_]; [discriminate|]. eapply Hinj; eauto.
    - intros t' Hne. unfold dview. cbn. rewrite upd_other by exact Hne. reflexivity.
    - unfold dview. cbn [da dfresh aux_init ph]. rewrite upd_same, Hp. exact Hk.
  Qed.
End DRules.
