(** * SplitListLinProj: projecting an LP-annotated trace of the set specification onto its client threads.

    Thread ids are "virtual": id [v] belongs to class [v mod 3].  Class 0 = client threads (the real thread
    is [v / 3]); classes 1 and 2 = internal helper threads, which only ever insert keys of a reserved class
    [ak k = true] ("anchor keys").  Clients only use keys with [ak k = false].

    [cproj] / [cproj_a] keep the events of class-0 ids (renamed [v / 3]) and drop the others.
    [cproj_valid]: the projection of a valid LP-annotated trace of [SetSpec] is a valid LP-annotated trace of
    [SetSpec] (the abstract set of the projected trace is the full one minus its anchor keys).

    Pure lemma about [Base.Lin] / [Spec.Specs]: no model is involved.  Plain stdlib. *)
From Coq Require Import ZArith List Bool Arith PeanoNat Lia.
From LV Require Import Base.Lin Spec.Specs Proofs.LinProofs Proofs.MichaelListFullInv.
Import ListNotations.

Section Proj.
  Variable ak : Z -> bool.

  Definition client_op (o : set_op) : Prop :=
    exists k, (o = SInsert k \/ o = SErase k \/ o = SContains k) /\ ak k = false.
  Definition anchor_op (o : set_op) : Prop := exists k, o = SInsert k /\ ak k = true.

  Definition class_ok (e : hev SetSpec) : Prop :=
    match e with
    | HInv v o => (v mod 3 = 0 -> client_op o) /\ (v mod 3 <> 0 -> anchor_op o)
    | HRes _ _ => True
    end.

  Fixpoint cproj (h : history SetSpec) : history SetSpec :=
    match h with
    | [] => []
    | HInv v o :: r => if Nat.eqb (v mod 3) 0 then @HInv SetSpec (v / 3) o :: cproj r else cproj r
    | HRes v x :: r => if Nat.eqb (v mod 3) 0 then @HRes SetSpec (v / 3) x :: cproj r else cproj r
    end.

  Fixpoint cproj_a (atr : list (aev SetSpec)) : list (aev SetSpec) :=
    match atr with
    | [] => []
    | AInv v o :: r => if Nat.eqb (v mod 3) 0 then @AInv SetSpec (v / 3) o :: cproj_a r else cproj_a r
    | ALin v :: r => if Nat.eqb (v mod 3) 0 then @ALin SetSpec (v / 3) :: cproj_a r else cproj_a r
    | ARes v x :: r => if Nat.eqb (v mod 3) 0 then @ARes SetSpec (v / 3) x :: cproj_a r else cproj_a r
    end.

  Lemma cproj_app h1 h2 : cproj (h1 ++ h2) = cproj h1 ++ cproj h2.
  Proof.
    induction h1 as [|e h1 IH]; [reflexivity|].
    destruct e as [v o|v x]; cbn [app cproj]; destruct (Nat.eqb (v mod 3) 0); cbn [app]; now rewrite IH.
  Qed.

  Lemma cproj_a_app a1 a2 : cproj_a (a1 ++ a2) = cproj_a a1 ++ cproj_a a2.
  Proof.
    induction a1 as [|e a1 IH]; [reflexivity|].
    destruct e as [v o|v|v x]; cbn [app cproj_a]; destruct (Nat.eqb (v mod 3) 0); cbn [app]; now rewrite IH.
  Qed.

  Lemma erase_cproj atr : erase (cproj_a atr) = cproj (erase atr).
  Proof.
    induction atr as [|e atr IH]; [reflexivity|].
    destruct e as [v o|v|v x]; cbn [cproj_a erase cproj]; destruct (Nat.eqb (v mod 3) 0);
      cbn [erase]; now rewrite ?IH.
  Qed.

  (** ** the abstract set minus its anchor keys *)
  Definition filt (S : list Z) : list Z := filter (fun k => negb (ak k)) S.

  Lemma zmem_filt k S : ak k = false -> zmem k (filt S) = zmem k S.
  Proof.
    intros Hk. unfold zmem, filt. induction S as [|a S IH]; [reflexivity|].
    cbn [filter existsb]. destruct (ak a) eqn:Ea; cbn [negb existsb].
    - destruct (Z.eqb k a) eqn:E.
      + apply Z.eqb_eq in E. subst a. congruence.
      + cbn [orb]. exact IH.
    - now rewrite IH.
  Qed.

  Lemma filt_zdel k S : filt (zdel k S) = zdel k (filt S).
  Proof.
    unfold filt, zdel. induction S as [|a S IH]; [reflexivity|].
    cbn [filter]. destruct (negb (Z.eqb k a)) eqn:E1, (negb (ak a)) eqn:E2;
      cbn [filter]; rewrite ?E1, ?E2, IH; reflexivity.
  Qed.

  Lemma filt_cons_client k S : ak k = false -> filt (k :: S) = k :: filt S.
  Proof. intros H. unfold filt. cbn [filter]. now rewrite H. Qed.

  Lemma filt_cons_anchor k S : ak k = true -> filt (k :: S) = filt S.
  Proof. intros H. unfold filt. cbn [filter]. now rewrite H. Qed.

  Lemma set_step_client S o :
    client_op o -> set_step (filt S) o = (filt (fst (set_step S o)), snd (set_step S o)).
  Proof.
    intros (k & Ho & Hk). destruct Ho as [->|[->| ->]]; cbn [set_step]; rewrite (zmem_filt k S Hk).
    - destruct (zmem k S); cbn [fst snd]; [reflexivity|]. now rewrite (filt_cons_client k S Hk).
    - destruct (zmem k S); cbn [fst snd]; [|reflexivity]. now rewrite filt_zdel.
    - reflexivity.
  Qed.

  Lemma set_step_anchor S o : anchor_op o -> filt (fst (set_step S o)) = filt S.
  Proof.
    intros (k & -> & Hk). cbn [set_step]. destruct (zmem k S); cbn [fst]; [reflexivity|].
    apply filt_cons_anchor, Hk.
  Qed.

  (** ** arithmetic of virtual ids *)
  Lemma class0_id v : v mod 3 = 0 -> 3 * (v / 3) = v.
  Proof. intros H. pose proof (Nat.div_mod v 3 ltac:(lia)). lia. Qed.

  Lemma class0_mul t : (3 * t) mod 3 = 0.
  Proof. rewrite Nat.mul_comm. apply Nat.mod_mul. lia. Qed.

  Lemma upd_class0 (st st' : nat -> status SetSpec) v x :
    v mod 3 = 0 -> (forall t, st' t = st (3 * t)) ->
    forall t, upd st' (v / 3) x t = upd st v x (3 * t).
  Proof.
    intros Hv Hst t. unfold upd. pose proof (class0_id v Hv) as Hid.
    destruct (Nat.eqb_spec t (v / 3)) as [E1|E1], (Nat.eqb_spec (3 * t) v) as [E2|E2];
      try reflexivity; try apply Hst; exfalso; lia.
  Qed.

  Lemma upd_other (st st' : nat -> status SetSpec) v x :
    v mod 3 <> 0 -> (forall t, st' t = st (3 * t)) ->
    forall t, st' t = upd st v x (3 * t).
  Proof.
    intros Hv Hst t. unfold upd. destruct (Nat.eqb (3 * t) v) eqn:E.
    - apply Nat.eqb_eq in E. subst v. exfalso. apply Hv, class0_mul.
    - apply Hst.
  Qed.

  (** ** the status of every id holds an operation of its class *)
  Definition stat_ok (u : nat) (x : status SetSpec) : Prop :=
    match x with
    | Idle => True
    | Pending o | Linearized o _ => (u mod 3 = 0 -> client_op o) /\ (u mod 3 <> 0 -> anchor_op o)
    end.

  Lemma stat_ok_upd (st : nat -> status SetSpec) v x :
    (forall u, stat_ok u (st u)) -> stat_ok v x -> forall u, stat_ok u (upd st v x u).
  Proof.
    intros H Hx u. unfold upd. destruct (Nat.eqb u v) eqn:E.
    - apply Nat.eqb_eq in E. subst u. exact Hx.
    - apply H.
  Qed.

  (** ** runs from related configurations *)
  Definition related (c c' : config SetSpec) : Prop :=
    fst c' = filt (fst c) /\
    (forall t, snd c' t = snd c (3 * t)) /\
    (forall u, stat_ok u (snd c u)).

  Lemma cproj_run atr : forall c c' d,
    related c c' -> Forall class_ok (erase atr) -> lp_run c atr = Some d ->
    exists d', lp_run c' (cproj_a atr) = Some d' /\ related d d'.
  Proof.
    induction atr as [|e atr IH]; intros [S st] [S' st'] d Hrel Hcl Hrun.
    - cbn [lp_run] in Hrun. inversion Hrun; subst d. exists (S', st'). split; [reflexivity|exact Hrel].
    - destruct Hrel as (HS & Hst & Hok). cbn [fst snd] in HS, Hst, Hok. subst S'.
      destruct e as [v o|v|v x].
      + (* invocation *)
        cbn [erase] in Hcl. inversion Hcl as [|? ? Hc Hcl']; subst.
        cbn [lp_run lp_step] in Hrun. destruct (st v) eqn:Ev; try discriminate.
        cbn [cproj_a]. destruct (Nat.eqb (v mod 3) 0) eqn:Em.
        * apply Nat.eqb_eq in Em. cbn [lp_run lp_step].
          rewrite Hst, (class0_id v Em), Ev.
          eapply IH; [|exact Hcl'|exact Hrun].
          split; [reflexivity|]. cbn [fst snd]. split.
          -- apply upd_class0; assumption.
          -- apply stat_ok_upd; [assumption|exact Hc].
        * apply Nat.eqb_neq in Em.
          eapply IH; [|exact Hcl'|exact Hrun].
          split; [reflexivity|]. cbn [fst snd]. split.
          -- apply upd_other; assumption.
          -- apply stat_ok_upd; [assumption|exact Hc].
      + (* linearization point *)
        cbn [erase] in Hcl.
        cbn [lp_run lp_step] in Hrun. destruct (st v) as [|o|o r] eqn:Ev; try discriminate.
        pose proof (Hok v) as Hov. rewrite Ev in Hov. cbn [stat_ok] in Hov.
        cbn [cproj_a]. destruct (Nat.eqb (v mod 3) 0) eqn:Em.
        * apply Nat.eqb_eq in Em. cbn [lp_run lp_step].
          rewrite Hst, (class0_id v Em), Ev.
          eapply IH; [|exact Hcl|exact Hrun].
          change (sstep SetSpec) with set_step.
          rewrite (set_step_client S o (proj1 Hov Em)). cbn [fst snd].
          split; [reflexivity|]. cbn [fst snd]. split.
          -- apply upd_class0; assumption.
          -- apply stat_ok_upd; [assumption|exact Hov].
        * apply Nat.eqb_neq in Em.
          eapply IH; [|exact Hcl|exact Hrun].
          change (sstep SetSpec) with set_step.
          split; cbn [fst snd]; [symmetry; apply set_step_anchor, (proj2 Hov Em)|]. split.
          -- apply upd_other; assumption.
          -- apply stat_ok_upd; [assumption|exact Hov].
      + (* response *)
        cbn [erase] in Hcl. inversion Hcl as [|? ? Hc Hcl']; subst.
        cbn [lp_run lp_step] in Hrun. destruct (st v) as [|o|o r] eqn:Ev; try discriminate.
        destruct (res_eqb SetSpec x r) eqn:Er; try discriminate.
        cbn [cproj_a]. destruct (Nat.eqb (v mod 3) 0) eqn:Em.
        * apply Nat.eqb_eq in Em. cbn [lp_run lp_step].
          rewrite Hst, (class0_id v Em), Ev, Er.
          eapply IH; [|exact Hcl'|exact Hrun].
          split; [reflexivity|]. cbn [fst snd]. split.
          -- apply upd_class0; assumption.
          -- apply stat_ok_upd; [assumption|exact I].
        * apply Nat.eqb_neq in Em.
          eapply IH; [|exact Hcl'|exact Hrun].
          split; [reflexivity|]. cbn [fst snd]. split.
          -- apply upd_other; assumption.
          -- apply stat_ok_upd; [assumption|exact I].
  Qed.

  Lemma related_init : related (@lp_init SetSpec) (@lp_init SetSpec).
  Proof.
    split; [reflexivity|]. split; [reflexivity|]. intros u. exact I.
  Qed.

  Theorem cproj_valid atr :
    lp_valid SetSpec atr -> Forall class_ok (erase atr) -> lp_valid SetSpec (cproj_a atr).
  Proof.
    intros [d Hd] Hcl.
    destruct (cproj_run atr _ _ _ related_init Hcl Hd) as (d' & Hd' & _).
    exists d'. exact Hd'.
  Qed.

End Proj.
