(** DhpConsStepsB5: copy of LV.Proofs.DhpStepsB5 over the two-directional pointer invariant of LV.Proofs.DhpConsInv (conservation);
    the text differs from the original where the JW part of a goal is proved. *)
(** * DhpStepsB5: extend() of a retired array. *)
From Coq Require Import ZArith NArith List String Bool Lia PeanoNat.
From LV Require Import Base.Conc Base.Events Model.DhpLang Model.Dhp Proofs.DhpBase Proofs.DhpSeq Proofs.DhpSeqThm Proofs.DhpHist
  Proofs.DhpLangProofs Proofs.DhpAllocA Proofs.DhpInvB Proofs.DhpConsInv Proofs.DhpConsQuietB Proofs.DhpConsQuietB2 Proofs.DhpConsRulesB Proofs.DhpConsStepsB1 Proofs.DhpConsStepsB3
  Proofs.DhpConsStepsB4.
Import ListNotations.

Section StepsB5.
  Variable c : cfg.
  Notation RB := (c_RB c).
  Hypothesis HRB : 1 <= RB.
  Hypothesis Hold : c_old c = false.

  Ltac vwt t := let t' := fresh "t'" in intros t'; cbn; unfold fn; destruct (Nat.eqb_spec t' t) as [->|]; cbn; auto.

  Lemma do_extend_frame g r b chain w : Rinv c g r chain w ->
    let g' := fst (rt_do_extend c r b g) in
    List.length (recs g') = List.length (recs g) /\ List.length (rbs g') = List.length (rbs g) /\ tlist g' = tlist g /\
    (forall r', r' <> r -> grec g' r' = grec g r') /\ r_tid (grec g' r) = r_tid (grec g r) /\ r_next (grec g' r) = r_next (grec g r) /\
    (forall b', ~ In b' chain -> grb g' b' = grb g b') /\ (forall b', rb_cells (grb g' b') = rb_cells (grb g b')).
  Proof.
    intros [Ir Ich Ind Ine Itl Iw Icur]. unfold rt_do_extend.
    assert (Hg1 : exists g1, (match r_tail (grec g r) with Some tl => upd_rb g tl (bs_next (Some b)) | None => g end) = g1 /\
              recs g1 = recs g /\ List.length (rbs g1) = List.length (rbs g) /\ tlist g1 = tlist g /\
              (forall b', ~ In b' chain -> grb g1 b' = grb g b') /\ (forall b', rb_cells (grb g1 b') = rb_cells (grb g b'))).
    { destruct (r_tail (grec g r)) as [tlb|] eqn:Et; [|exists g; repeat split; auto].
      exists (upd_rb g tlb (bs_next (Some b))). split; auto. split; [reflexivity|]. split; [unfold upd_rb; cbn; apply upd_nth_length|]. split; [reflexivity|].
      assert (Hin : In tlb chain) by (symmetry in Itl; eapply nth_error_In; eauto).
      split.
      - intros b' H. rewrite grb_upd_rb_other; auto. intros ->. contradiction.
      - intros b'. destruct (Nat.eq_dec b' tlb) as [->|N]; [|rewrite grb_upd_rb_other; auto].
        destruct (Nat.lt_ge_cases tlb (List.length (rbs g))) as [L|L].
        + rewrite grb_upd_rb_same by exact L. destruct (grb g tlb); reflexivity.
        + unfold grb, upd_rb. cbn. now rewrite upd_nth_oob by exact L. }
    destruct Hg1 as (g1 & -> & E1 & E2 & E3 & E4 & E5).
    assert (Hlt1 : r < List.length (recs g1)) by (rewrite E1; exact Ir).
    assert (Eg1 : forall r', grec g1 r' = grec g r') by (intros r'; unfold grec; now rewrite E1).
    destruct (c_old c || _); cbn [fst].
    all: split; [unfold upd_rec; cbn; rewrite upd_nth_length; now rewrite E1|].
    all: split; [exact E2|]. all: split; [exact E3|].
    all: split; [intros r' N; rewrite grec_upd_rec_other by congruence; apply Eg1|].
    all: rewrite grec_upd_rec_same by exact Hlt1; rewrite Eg1.
    all: split; [destruct (grec g r); reflexivity|]. all: split; [destruct (grec g r); reflexivity|].
    all: split; [intros b' H; rewrite grb_upd_rec; auto|intros b'; rewrite grb_upd_rec; auto].
  Qed.

  Definition aux_ext (a : AuxB) (t r b : nat) : AuxB :=
    mkAuxB (fn (bvs a) t (set_full (set_blk (bvs a t) None) None)) (fn (rbown a) b (RRec r)) (wh a)
           (fn (rch a) r (rch a r ++ [b])) (rw a) (moved a) (dead a) (tl a).

  Lemma S_extend g a tr t r b :
    In r (vb_own (bvs a t)) -> vb_blk (bvs a t) = Some (b, true) -> rch a r <> [] ->
    (forall ob, vb_move (bvs a t) <> Some (r, ob)) -> (vb_full (bvs a t) = None \/ vb_full (bvs a t) = Some r) ->
    JB c g a tr -> JB c (fst (rt_do_extend c r b g)) (aux_ext a t r b) tr.
  Proof.
    intros Hr Hb Hne Hnm Hfu J.
    destruct (JB_rec2 c g a tr t r J Hr Hne) as (Hlt & Hal & I & Hrb & Hmw & _).
    destruct J as [O1 K0 R0 W1]. pose proof K0 as [K1 K2 K3 K4 K5]. pose proof R0 as [R1 R2 R3 R4 R5 R6].
    destruct (K4 t b true Hb) as (Hown & Hnx & Hnl). specialize (Hnx eq_refl).
    assert (Hblt : b < List.length (rbs g)) by (eapply JK_lt; eauto; congruence).
    assert (Hnin : ~ In b (rch a r)) by (intros H; rewrite (Hrb b H) in Hown; congruence).
    destruct (extend_spec c HRB g r (rch a r) (rw a r) b Hold I Hnin Hblt (K2 b Hblt) Hnx) as (I' & Ec' & Eoob).
    destruct (do_extend_frame g r b _ _ I) as (El & Elb & Etl & Eo & Etid & Enx & Eb & Ecl).
    remember (fst (rt_do_extend c r b g)) as g' eqn:Eg'.
    assert (Hexcl : forall t' r0 ob, vb_move (bvs a t') = Some (r0, ob) -> r0 <> r).
    { intros t' r0 ob H ->. destruct (R3 t' r ob H) as (Z & _). assert (t = t') by (eapply JO_excl; eauto). subst t'. eapply Hnm; eauto. }
    assert (Hdisj : forall r' b', r' <> r -> r' < List.length (recs g) -> In b' (rch a r') -> ~ In b' (rch a r) /\ b' <> b).
    { intros r' b' N L Hb'. destruct (JR_rch c g a r' b' R0 L Hb') as (Y & _). split; [intros H; rewrite (Hrb b' H) in Y; congruence|intros ->; congruence]. }
    constructor.
    - apply JO_frame with (g := g) (a := a); auto.
      + intros r'. destruct (Nat.eq_dec r' r) as [->|N]; [auto|rewrite Eo by exact N; auto].
      + vwt t.
    - constructor; cbn [aux_ext bvs rbown].
      + intros b' L. rewrite Elb in L. rewrite fn_other by lia. auto.
      + intros b' L. rewrite Elb in L. rewrite Ecl. auto.
      + split; [|apply K3]. intros b'. destruct (Nat.eq_dec b' b) as [->|N]; [rewrite fn_same; split; [intros H; apply K3 in H; congruence|discriminate]|].
        rewrite fn_other by exact N. apply K3.
      + intros t' b' fl'. unfold fn at 1 3. destruct (Nat.eqb_spec t' t) as [->|Nt]; cbn; [discriminate|].
        intros E. destruct (K4 t' b' fl' E) as (Y1 & Y2 & Y3). assert (N : b' <> b) by (intros ->; congruence). rewrite fn_other by exact N.
        rewrite Eb; auto. intros H. rewrite (Hrb b' H) in Y1. congruence.
      + intros t' o lb Hl. assert (Hl' : vb_limbo (bvs a t') = Some (o, lb)) by (revert Hl; unfold fn; destruct (Nat.eqb_spec t' t) as [->|]; cbn; auto).
        destruct (K5 t' o lb Hl') as (Y1 & Y2 & Y3). split; [|split; auto].
        * apply is_chain_frame with (g := g); [lia| |exact Y1]. intros b' H. rewrite Eb; auto. intros H'. specialize (Y3 b' H). rewrite (Hrb b' H') in Y3. congruence.
        * intros b' H. assert (N : b' <> b). { intros ->. destruct (Nat.eq_dec t' t) as [->|Nt]; [eapply Hnl; eauto|]. rewrite (Y3 b H) in Hown. congruence. }
          rewrite fn_other by exact N. auto.
    - constructor; cbn [aux_ext bvs rbown rch rw moved dead].
      + intros r' Hr'. rewrite El in Hr'. destruct (Nat.eq_dec r' r) as [->|N].
        * right. rewrite !fn_same. split; auto. split; auto. split; [|split; [auto|left; rewrite app_length; cbn; destruct I as [_ _ _ _ _ Iw _]; lia]].
          intros b' H. apply in_app_or in H. destruct H as [H|[<-|[]]]; [|now rewrite fn_same].
          rewrite fn_other; auto. intros ->. contradiction.
        * rewrite (fn_other (rch a) _ _ _ N). rewrite Eo by exact N.
          destruct (R1 r' Hr') as [K|(Q0 & Q2 & Q3 & Q4 & Q5)]; [left; exact K|right].
          split; auto. split; [|split; [|split; auto]].
          -- apply Rinv_frame with (g := g); auto; try lia; [rewrite Eo by exact N; auto|].
             intros b' H. rewrite Eb; auto. eapply Hdisj; eauto.
          -- intros b' H. rewrite fn_other; auto. eapply Hdisj; eauto.
          -- destruct Q5 as [Q5|(t' & Q5)]; [left; exact Q5|right; exists t']. destruct (Nat.eq_dec t' t) as [->|Nt]; [|rewrite fn_other by exact Nt; exact Q5].
             exfalso. destruct Hfu as [Hfu|Hfu]; congruence.
      + intros r' Hm. destruct (R2 r' Hm) as (t' & ob & K). exists t', ob. unfold fn. destruct (Nat.eqb_spec t' t) as [->|]; auto.
      + intros t' r' ob Hm. assert (Hm' : vb_move (bvs a t') = Some (r', ob)) by (revert Hm; unfold fn; destruct (Nat.eqb_spec t' t) as [->|]; auto).
        destruct (R3 t' r' ob Hm') as (Y1 & Y2). assert (N : r' <> r) by (eapply Hexcl; eauto). rewrite (fn_other (rch a) _ _ _ N). split.
        * unfold fn. destruct (Nat.eqb_spec t' t) as [->|]; auto.
        * intros b' Eb' Hc. apply Y2; auto. revert Hc. unfold fn. destruct (Nat.eqb_spec t' t) as [->|]; auto.
      + intros t' b' i n Hc. assert (Hc' : vb_cur (bvs a t') = Some (b', i, n)) by (revert Hc; unfold fn; destruct (Nat.eqb_spec t' t) as [->|]; auto).
        destruct (R4 t' b' i n Hc') as (r0 & ob & j & Y0 & Y). assert (N : r0 <> r) by (eapply Hexcl; eauto).
        exists r0, ob, j. split; [unfold fn; destruct (Nat.eqb_spec t' t) as [->|]; auto|].
        rewrite (fn_other (rch a) _ _ _ N). rewrite Eo by exact N. exact Y.
      + split.
        * intros t' r' Hdd. assert (Hd' : vb_dead (bvs a t') = Some r') by (revert Hdd; unfold fn; destruct (Nat.eqb_spec t' t) as [->|]; auto).
          destruct (proj1 R5 t' r' Hd') as (Y1 & Y2). split; auto. unfold fn. destruct (Nat.eqb_spec t' t) as [->|]; auto.
        * intros r' Hdd. destruct (proj2 R5 r' Hdd) as (t' & K). exists t'. unfold fn. destruct (Nat.eqb_spec t' t) as [->|]; auto.
      + intros t' r' Hf. unfold fn at 1 in Hf. unfold fn at 1. destruct (Nat.eqb_spec t' t) as [->|]; [cbn in Hf; discriminate|].
        destruct (R6 t' r' Hf) as (Y1 & Y2). split; auto.
        destruct (Nat.eq_dec r' r) as [->|N]; [rewrite fn_same; intros H; apply app_eq_nil in H; destruct H; discriminate|rewrite fn_other by exact N; exact Y2].
    - apply JW_frame with (g := g) (a := a) (rt := retired_tr tr) (tr := tr); [exact El| |reflexivity|vwt t|auto|auto| | |apply incl_refl|exact Eoob|auto|exact W1].
      + intros r' Hr'. destruct (Nat.eq_dec r' r) as [->|N].
        * unfold ec; cbn [moved rch rw aux_ext]; rewrite fn_same; now rewrite Ec'.
        * apply ec_ext; cbn [aux_ext rch rw moved]; auto; rewrite fn_other by exact N; reflexivity.
      + intros r'. cbn [aux_ext moved rw rch]. split; auto. split; auto. unfold fn. destruct (Nat.eqb_spec r' r) as [->|]; auto. intros E; contradiction.
      + intros r'. cbn [aux_ext rch]. unfold fn. destruct (Nat.eqb_spec r' r) as [->|]; auto. intros H; apply app_eq_nil in H; destruct H; discriminate.
  Qed.
End StepsB5.
