(** * FreeListOpenDhpThm: the two instances together — the programs of one instance are framed by the invariant
      of the other one; and every update of Dhp.G that keeps m_freeListRefs / m_freeListNext of the blocks is
      framed by both. *)
From Coq Require Import ZArith NArith List String Bool Lia PeanoNat.
From LV Require Import Base.Conc Base.Events Model.FreeList Model.DhpLang Model.Dhp Proofs.DhpBase Proofs.DhpHist
  Proofs.DhpLangProofs Proofs.FreeListBase Proofs.FreeListInv Proofs.FreeListOpen
  Proofs.FreeListOpenRules Proofs.FreeListOpenDhp Proofs.FreeListOpenDhpRules.
Import ListNotations.

Section Two.
  Variable f f' : fl.
  Hypothesis Hff : f <> f'.

  (** events of instance f mean nothing to instance f' *)
  Lemma quietE_acc_other k o ok : (forall n, o <> [node_tag f'; n; 1%Z]) -> quietE f' (acc k o ok).
  Proof.
    intros Ho e [<-|[]]. cbn. destruct k; try reflexivity. destruct o as [|x [|y [|z [|? ?]]]]; try reflexivity.
    destruct (Z.eqb_spec x (node_tag f')); [|reflexivity]. destruct (Z.eqb_spec z 1); [|reflexivity]. subst. exfalso. eapply Ho; reflexivity.
  Qed.
  Lemma quietE_head k ok : quietE f' (acc k (obj_head f) ok).
  Proof. apply quietE_acc_other. intros n. destruct f, f'; discriminate. Qed.
  Lemma quietE_node k n fld ok : quietE f' (acc k (obj_node f n fld) ok).
  Proof.
    apply quietE_acc_other. intros x. destruct (fl_other f f' Hff) as [[-> ->]|[-> ->]]; cbn; discriminate.
  Qed.

  Lemma quietG_refs g n v : quietG f' g (fl_set_refs g f n v).
  Proof. split; [apply proj_other_refs; exact Hff|rewrite flen_set_refs; lia]. Qed.
  Lemma quietG_next g n v : quietG f' g (fl_set_next g f n v).
  Proof. split; [apply proj_other_next; exact Hff|rewrite flen_set_next; lia]. Qed.
  Lemma quietG_head g v : quietG f' g (fl_set_head g f v).
  Proof. split; [apply proj_other_head; exact Hff|rewrite flen_set_head; lia]. Qed.
  Lemma quietG_refl g : quietG f' g g.
  Proof. split; [apply Geq_refl|lia]. Qed.

  Ltac qf :=
    repeat match goal with
      | |- fquiet _ (xbind _ _) => unfold xbind
      | |- fquiet _ (dbind (act _) _) => cbn [act dbind]
      | |- fquiet _ (dbind (ret _) _) => cbn [ret dbind]
      | |- fquiet _ (DRet _) => exact I
      | |- fquiet _ (ret _) => exact I
      | |- fquiet _ fuel_out => split; [intros e [<-|[]]; reflexivity|exact I]
      | |- fquiet _ (if ?b then _ else _) => destruct b
      end.

  Lemma fq_add_knowing sp : forall n head, fquiet f' (add_knowing sp f n head).
  Proof.
    induction sp as [|sp IH]; intros n head; cbn [add_knowing]; [split; [intros e [<-|[]]; reflexivity|exact I]|].
    unfold xbind. cbn [act dbind fquiet]. split; [intros g; split; [apply quietG_next|apply quietE_node]|]. intros _.
    split; [intros g; split; [apply quietG_refs|apply quietE_node]|]. intros _.
    split.
    { intros g. unfold a_cas_head. destruct (oeqb (fl_head g f) head); cbn [fst snd]; (split; [first [apply quietG_head|apply quietG_refl]|apply quietE_head]). }
    intros [b hd]. cbn [fst snd]. destruct b; [exact I|]. cbn [fquiet].
    split; [intros g; split; [apply quietG_refs|apply quietE_node]|]. intros old.
    destruct (N.eqb old 1); [apply IH|exact I].
  Qed.

  Lemma fq_fl_add sp n : fquiet f' (fl_add sp f n).
  Proof.
    unfold fl_add, xbind. cbn [act dbind fquiet]. split; [intros g; split; [apply quietG_refl|apply quietE_head]|].
    intros hd. apply fq_add_knowing.
  Qed.

  (** WORKED INSTANTIATION (two instances in one state): put / get of instance f keep the invariant of f' *)
  Theorem fq_fl_put sp n : fquiet f' (fl_put sp f n).
  Proof.
    unfold fl_put, xbind. cbn [act dbind fquiet]. split; [intros g; split; [apply quietG_refs|apply quietE_node]|].
    intros old. destruct (N.eqb old 0); [apply fq_fl_add|exact I].
  Qed.

  Lemma fq_dbind {A B} (p : @dprog Dhp.G ev A) (q : A -> @dprog Dhp.G ev B) :
    fquiet f' p -> (forall x, fquiet f' (q x)) -> fquiet f' (dbind p q).
  Proof.
    induction p as [r|es k IH|X fn k IH|X fn k IH]; intros Hp Hq; cbn [dbind fquiet] in *; auto.
    - destruct Hp; split; auto.
    - destruct Hp; split; auto.
    - destruct Hp; split; auto.
  Qed.

  Lemma fq_fl_get_loop sp : forall head, fquiet f' (fl_get_loop sp f head).
  Proof.
    induction sp as [|sp IH]; intros [h|]; cbn [fl_get_loop]; try exact I; [split; [intros e [<-|[]]; reflexivity|exact I]|].
    unfold xbind at 1. cbn [act dbind fquiet]. split; [intros g; split; [apply quietG_refl|apply quietE_node]|]. intros r.
    destruct (N.eqb (N.land r RMASK) 0).
    { unfold xbind. cbn [act dbind fquiet]. split; [intros g; split; [apply quietG_refl|apply quietE_head]|]. intros hd. apply IH. }
    unfold xbind at 1. cbn [act dbind fquiet]. split.
    { intros g. unfold a_cas_refs. destruct (N.eqb (fl_refs g f h) r); cbn [fst snd]; (split; [first [apply quietG_refs|apply quietG_refl]|apply quietE_node]). }
    intros c. destruct c; cbn [negb].
    - unfold xbind at 1. cbn [act dbind fquiet]. split; [intros g; split; [apply quietG_refl|apply quietE_node]|]. intros nx.
      unfold xbind at 1. cbn [act dbind fquiet]. split.
      { intros g. unfold a_cas_head. destruct (oeqb (fl_head g f) (Some h)); cbn [fst snd]; (split; [first [apply quietG_head|apply quietG_refl]|apply quietE_head]). }
      intros [b hd]. cbn [fst snd]. destruct b.
      + unfold xbind. cbn [act dbind ret fquiet]. split; [intros g; split; [apply quietG_refs|apply quietE_node]|]. intros _. exact I.
      + unfold xbind at 1. cbn [act dbind fquiet]. split; [intros g; split; [apply quietG_refs|apply quietE_node]|]. intros old.
        unfold xbind. apply fq_dbind.
        * destruct (N.eqb old (SB + 1)); [apply fq_fl_add|exact I].
        * intros [x|]; [apply IH|exact I].
    - unfold xbind. cbn [act dbind fquiet]. split; [intros g; split; [apply quietG_refl|apply quietE_head]|]. intros hd. apply IH.
  Qed.

  Theorem fq_fl_get sp : fquiet f' (fl_get sp f).
  Proof.
    unfold fl_get, xbind. cbn [act dbind fquiet]. split; [intros g; split; [apply quietG_refl|apply quietE_head]|].
    intros hd. apply fq_fl_get_loop.
  Qed.
End Two.

(** ** updates of Dhp.G that leave both instances alone *)
Lemma quietG_upd_gb f g b F :
  (forall x, gb_refs (F x) = gb_refs x) -> (forall x, gb_flnext (F x) = gb_flnext x) -> quietG f g (upd_gb g b F).
Proof.
  intros H1 H2.
  assert (E : forall k, gb_refs (ggb (upd_gb g b F) k) = gb_refs (ggb g k) /\ gb_flnext (ggb (upd_gb g b F) k) = gb_flnext (ggb g k)).
  { intros k. unfold ggb, upd_gb. cbn [gbs set_gbs]. destruct (Nat.eq_dec b k) as [->|Hk]; [|rewrite nth_upd_nth_other by exact Hk; auto].
    destruct (Nat.lt_ge_cases k (List.length (gbs g))); [rewrite nth_upd_nth_same by assumption; auto|rewrite upd_nth_oob by assumption; auto]. }
  split.
  - split; [|split]; destruct f; cbn; try reflexivity; intros [|k]; try reflexivity; destruct (E k) as [E1 E2]; congruence.
  - destruct f; cbn [flen]; unfold upd_gb; cbn [gbs rbs set_gbs]; rewrite ?upd_nth_length; lia.
Qed.

Lemma quietG_upd_rb f g b F :
  (forall x, rb_refs (F x) = rb_refs x) -> (forall x, rb_flnext (F x) = rb_flnext x) -> quietG f g (upd_rb g b F).
Proof.
  intros H1 H2.
  assert (E : forall k, rb_refs (grb (upd_rb g b F) k) = rb_refs (grb g k) /\ rb_flnext (grb (upd_rb g b F) k) = rb_flnext (grb g k)).
  { intros k. unfold grb, upd_rb. cbn [rbs set_rbs]. destruct (Nat.eq_dec b k) as [->|Hk]; [|rewrite nth_upd_nth_other by exact Hk; auto].
    destruct (Nat.lt_ge_cases k (List.length (rbs g))); [rewrite nth_upd_nth_same by assumption; auto|rewrite upd_nth_oob by assumption; auto]. }
  split.
  - split; [|split]; destruct f; cbn; try reflexivity; intros [|k]; try reflexivity; destruct (E k) as [E1 E2]; congruence.
  - destruct f; cbn [flen]; unfold upd_rb; cbn [gbs rbs set_rbs]; rewrite ?upd_nth_length; lia.
Qed.

Lemma quietG_upd_rec f g r F : quietG f g (upd_rec g r F).
Proof. split; [split; [|split]; destruct f; cbn; try reflexivity; intros [|k]; reflexivity|destruct f; cbn [flen]; unfold upd_rec; cbn; lia]. Qed.
Lemma quietG_set_tlist f g v : quietG f g (set_tlist g v).
Proof. split; [split; [|split]; destruct f; cbn; try reflexivity; intros [|k]; reflexivity|destruct f; cbn [flen]; unfold upd_rec; cbn; lia]. Qed.
Lemma quietG_set_srcs f g v : quietG f g (set_srcs g v).
Proof. split; [split; [|split]; destruct f; cbn; try reflexivity; intros [|k]; reflexivity|destruct f; cbn [flen]; unfold upd_rec; cbn; lia]. Qed.
Lemma quietG_set_oob f g v : quietG f g (set_oob g v).
Proof. split; [split; [|split]; destruct f; cbn; try reflexivity; intros [|k]; reflexivity|destruct f; cbn [flen]; unfold upd_rec; cbn; lia]. Qed.

(** creation of a block: quiet for both instances, and the new index exists in its own instance *)
Lemma new_gblock_fresh c g f : quietG f g (fst (new_gblock c g)) /\ (f = FHp -> snd (new_gblock c g) < flen (fst (new_gblock c g)) f).
Proof.
  split; [split; [apply proj_new_gblock|destruct f; cbn [flen new_gblock new_rblock fst gbs rbs set_gbs set_rbs]; rewrite ?app_length; cbn [List.length]; lia]|].
  intros ->. cbn [flen new_gblock new_rblock fst snd gbs rbs set_gbs set_rbs]. rewrite app_length. cbn [List.length]. lia.
Qed.
Lemma new_rblock_fresh c g f : quietG f g (fst (new_rblock c g)) /\ (f = FRt -> snd (new_rblock c g) < flen (fst (new_rblock c g)) f).
Proof.
  split; [split; [apply proj_new_rblock|destruct f; cbn [flen new_gblock new_rblock fst gbs rbs set_gbs set_rbs]; rewrite ?app_length; cbn [List.length]; lia]|].
  intros ->. cbn [flen new_gblock new_rblock fst snd gbs rbs set_gbs set_rbs]. rewrite app_length. cbn [List.length]. lia.
Qed.

(** ** the product rule: two invariants that were proved separately for the same program hold together *)
Section Prod.
  Context {GG E : Type}.
  Variables (A1 L1 A2 L2 : Type).
  Variable v1 : A1 -> nat -> L1.
  Variable I1 : GG -> A1 -> list (nat * E) -> Prop.
  Variable v2 : A2 -> nat -> L2.
  Variable I2 : GG -> A2 -> list (nat * E) -> Prop.

  Definition vprod (a : A1 * A2) (t : nat) : L1 * L2 := (v1 (fst a) t, v2 (snd a) t).
  Definition Iprod (g : GG) (a : A1 * A2) (tr : list (nat * E)) : Prop := I1 g (fst a) tr /\ I2 g (snd a) tr.

  Theorem dsafe_prod {R} t (p : @dprog GG E R) : forall l1 l2 (Q1 : R -> L1 -> Prop) (Q2 : R -> L2 -> Prop),
    dsafe v1 I1 t p l1 Q1 -> dsafe v2 I2 t p l2 Q2 ->
    dsafe vprod Iprod t p (l1, l2) (fun r l => Q1 r (fst l) /\ Q2 r (snd l)).
  Proof.
    induction p as [r|es k IH|X fn k IH|X fn k IH]; intros l1 l2 Q1 Q2 H1 H2; cbn [dsafe] in *.
    - split; assumption.
    - intros g [a1 a2] tr [J1 J2] Hv. unfold vprod in Hv. cbn [fst snd] in *. injection Hv as E1 E2.
      destruct (H1 g a1 tr J1 E1) as (a1' & K1 & F1 & S1). destruct (H2 g a2 tr J2 E2) as (a2' & K2 & F2 & S2).
      exists (a1', a2'). split; [split; assumption|]. split.
      + intros t' Hne. unfold vprod. cbn [fst snd]. rewrite (F1 t' Hne), (F2 t' Hne). reflexivity.
      + apply IH; assumption.
    - intros g [a1 a2] tr [J1 J2] Hv. unfold vprod in Hv. cbn [fst snd] in *. injection Hv as E1 E2.
      destruct (H1 g a1 tr J1 E1) as (a1' & K1 & F1 & S1). destruct (H2 g a2 tr J2 E2) as (a2' & K2 & F2 & S2).
      exists (a1', a2'). split; [split; assumption|]. split.
      + intros t' Hne. unfold vprod. cbn [fst snd]. rewrite (F1 t' Hne), (F2 t' Hne). reflexivity.
      + apply IH; assumption.
    - intros g [a1 a2] tr [J1 J2] Hv. unfold vprod in Hv. cbn [fst snd] in *. injection Hv as E1 E2.
      destruct (H1 g a1 tr J1 E1) as (a1' & K1 & F1 & S1). destruct (H2 g a2 tr J2 E2) as (a2' & K2 & F2 & S2).
      exists (a1', a2'). split; [split; assumption|]. split.
      + intros t' Hne. unfold vprod. cbn [fst snd]. rewrite (F1 t' Hne), (F2 t' Hne). reflexivity.
      + apply IH; assumption.
  Qed.
End Prod.

(** * README — how to discharge [flbad (hist (Conc.trace conf)) = false] in the DHP proofs

    Files: FreeListOpen.v (state lemmas: InvS_Geq, transfer2, create), FreeListOpenRules.v (generic open-world
    rules for ANY state type with a projection onto one instance: monitor [mst]/[mstep_ev], invariant [OInv],
    frame [OInv_frame], accesses [O_cas_refs ... O_add_faa_pending] + [OInv_access], client events [OInv_free],
    [OInv_alloc], [OInv_new], [OInv_init], conclusion [OInv_no_bad_alloc]), FreeListOpenDhp.v (projection
    [projf f] of Dhp.G, N/w32 vs Z/u32: [zn_faa zn_fas zn_mask zn_succ ...], what each free-list access does to
    the projections of its own and of the other instance), FreeListOpenDhpRules.v (the [dsafe] rules, below),
    FreeListOpenDhpThm.v (two-instance frame, product rule, this README), FreeListOpenDhpBridge.v
    ([flbad_from_monitors]).

    The four axes:
    (1) data-dependent clients: everything is a [dsafe] triple over [DInv NR f] with view [dview] =
        (phase of the thread on instance f, freshly created block); no fixed operation lists anywhere.
          d_fl_put  : dsafe (fl_put sp f n)  (PPut (S n), fr)  (fun o l => o = Some _ -> l = (Busy, fr))
          d_fl_get  : dsafe (fl_get sp f)    (Busy, fr)        (Some (Some h) -> (PRet (S h), fr) | Some None -> (Busy, fr))
          d_emit_free  : "_free f b"   (Busy, fr)      -> (PPut (S b), fr)       (so: emit _free; fl_put  is Busy -> Busy)
          d_emit_alloc : "_alloc f b"  (PRet (S b), fr) -> (Busy, fr)            (so: fl_get; emit _alloc is Busy -> Busy)
        Every thread starts in phase Busy (NOT Idle: Idle is the place holder NR that owns the pool of
        allocated blocks); NR = number of threads; hypothesis Z.of_nat (S NR) + 2 < FLAG.
    (2) node creation:  d_loc_fresh (the DLoc new_gblock / new_rblock: side conditions by [new_gblock_fresh] /
        [new_rblock_fresh]), d_emit_new ("_new f nb"), d_act_init (act (a_st_flnext f nb None)): view goes
        (p, fr) -> (p, Some (nb,false)) -> (p, Some (nb,true)) -> (p, None).  In the monitor the block exists from
        "_new" on and is usable by "_free" after the initialising store.
    (3) two instances: instantiate everything twice (f := FHp, f := FRt).  A program of instance f is framed by
        the invariant of the other one: [fq_fl_put], [fq_fl_get] (Section Two) + [fquiet_dsafe].  All other code
        of Dhp.v is framed by both: prove [fquiet NR f p] for it (syntactic, like quietP): each DLoc/DAct needs
        [quietG f g g'] — use [quietG_upd_rec], [quietG_upd_gb] / [quietG_upd_rb] (the update keeps gb_refs and
        gb_flnext: gs_slots, gs_snext, gs_nextb, bs_next, bs_cells do), [quietG_set_tlist/srcs/oob] — and each
        event list needs [quietE f es] (every event that is not "_alloc/_new/_free" of f nor a KSt on
        obj_node f _ 1 is FNone: [cbn]).  For hp_alloc / rt_alloc / hp_free / rt_free compose the rules of (1),(2)
        with [dsafeF_xbind] and [fquiet_dsafe] for the tails (link_guards ...), and use the OTHER instance's
        [fquiet_dsafe] on the whole allocator program.
    (4) arithmetic: done inside the rules (zn_* lemmas); the only bound is the thread count above; [c_spin] is
        loop fuel (out of fuel = DRet None, post-condition True).

    Assembly (suggested):
      a. Aux := AuxA * (DAux * DAux), view := vprod viewA (vprod dview dview),
         Inv := Iprod (InvA c) (Iprod (DInv NR FHp) (DInv NR FRt));  for every thread program p:
         dsafe_prod (your dsafeA proof of p) (dsafe_prod (dsafeF FHp proof of p) (dsafeF FRt proof of p)).
         Initial DAux: da = mkA (fun _ => Nil) [] (fun t => if t <? NR then Busy else Idle) (fun _ => []) (fun _ => None),
         dfresh = fun _ => None; OJ holds with v0 := fun _ => false when both heads are None and all refs are 0
         (InvS of the empty list; Cpl with mzero).
      b. The hypothesis of [DInv] is [m_cbad = false] ("the client behaved": every "_free f b" names a block that
         exists, is initialised and is not currently free; every "_new f b" names a block that did not exist).
         Your JA knows that (a freed block is linked in the record of the freeing thread).  Tie the knot on the
         trace: strengthen the reach-invariant to  Inv /\ flbad (hist tr) = false /\ m_cbad (mrun .. FHp tr) = false
         /\ m_cbad (mrun .. FRt tr) = false.  At a step: Inv(tr') gives  (flbad tr' = false -> JA)  and
         (m_cbad_f tr' = false -> m_abad_f tr' = false); an event list of one program node never contains both an
         "_alloc" and a "_free"/"_new" (they are singleton emits), so either m_cbad is unchanged by the node (then
         m_abad_f tr' = false, then [flbad_from_monitors] gives flbad tr' = false) or flbad is unchanged by it (then
         JA(tr') holds and yields the legitimacy of the "_free"/"_new", i.e. m_cbad_f tr' = false).
         [flbad_from_monitors] is the only lemma about [hist] you need from here.
    DONE SINCE (read these instead of redoing it): (i) every DHP thread keeps [DInv NR f]: the certificate
    LV.Proofs.DhpCert / DhpCertProgs and LV.Proofs.DhpCertDInvSp.dsafeF_thread; (ii) [m_cbad = false] from JA / JB
    (block not currently free) and from the knowledge invariant LV.Proofs.DhpFlX / DhpFlXSp (block exists, initialised;
    a new block did not exist), tied node by node in LV.Proofs.DhpFlKnot.Good_step (syntactic condition:
    LV.Proofs.DhpFlNok); (iii) initial state + assembly: LV.Proofs.DhpFlThm ([dhp_flbad_false]).
    STILL NOT DONE: "no loss" (quiescent => every freed block is obtainable) is not generalised — only the safety
    half (no double hand-out / unique holder) is. *)
