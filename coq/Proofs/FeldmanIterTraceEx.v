(** * Executable helpers for the non-vacuity examples of Properties_C19_Trace.v: an execution with its list of
      configurations ([exec]), and a boolean test that a hash is present in the head array or one level below. *)
From Coq Require Import ZArith NArith List Bool Arith PeanoNat Lia String.
From LV Require Import Base.Conc Base.Events Model.Feldman Model.FeldmanIter.
From LV Require Import Proofs.FeldmanStepThm Proofs.FeldmanIterTraceThm.
Import ListNotations.

Set Implicit Arguments.

Section Exec.
  Variables (G V E : Type).
  Notation config := (Conc.config G V E).

  (** run the threads named by [sched] one step each (a thread that cannot step is skipped) *)
  Fixpoint exec (sched : list nat) (c : config) (acc : list config) : list config * config :=
    match sched with
    | [] => (acc, c)
    | t :: r => match Conc.step_cfg c t with
                | Some c' => exec r c' (acc ++ [c'])
                | None => exec r c acc
                end
    end.

  Lemma exec_steps c0 : forall sched c acc, steps c0 acc c -> steps c0 (fst (exec sched c acc)) (snd (exec sched c acc)).
  Proof.
    induction sched as [|t r IH]; intros c acc H; cbn [exec]; [exact H|].
    destruct (Conc.step_cfg c t) as [c'|] eqn:Es; [|apply IH; exact H].
    apply IH. econstructor; eauto.
  Qed.
End Exec.

Section Presentb.
  Variables (hbits abits : nat) (hs : list N).
  Notation hash := (Feldman.hash hs).
  Notation present := (FeldmanStepThm.present hs).

  Definition holds (g : G) (s : slot) (h : N) : bool :=
    negb (Nat.eqb (sbits s) 2) && negb (Nat.eqb (sptr s) 0) && N.eqb (hash (ikey g (sptr s))) h.

  Definition presentb (g : G) (h : N) : bool :=
    existsb (fun i => let s := arr g 0 i in
                      holds g s h ||
                      (Nat.eqb (sbits s) 2 && existsb (fun j => holds g (arr g (sptr s) j) h) (seq 0 (2 ^ abits))))
            (seq 0 (2 ^ hbits)).

  Lemma holds_data g a i h : reach_arr g a -> holds g (arr g a i) h = true -> present g h.
  Proof.
    intros Hr H. unfold holds in H. apply andb_true_iff in H. destruct H as [H H3]. apply andb_true_iff in H. destruct H as [H1 H2].
    apply negb_true_iff in H1, H2. apply Nat.eqb_neq in H1, H2. apply N.eqb_eq in H3.
    exists a, i, (sptr (arr g a i)). split; [|exact H3]. split; [exact Hr|]. exists (sbits (arr g a i)).
    destruct (arr g a i); cbn in *. auto.
  Qed.

  Lemma presentb_sound g h : presentb g h = true -> present g h.
  Proof.
    unfold presentb. rewrite existsb_exists. intros (i & _ & H). apply orb_true_iff in H. destruct H as [H|H].
    - eapply holds_data; [constructor|exact H].
    - apply andb_true_iff in H. destruct H as [H1 H2]. apply Nat.eqb_eq in H1. rewrite existsb_exists in H2.
      destruct H2 as (j & _ & H2). eapply holds_data; [|exact H2].
      eapply ra_child; [constructor|]. destruct (arr g 0 i) as [p b] eqn:E. cbn in *. subst b. exact E.
  Qed.
End Presentb.

(** lifting the boolean tests of the examples *)
Lemma mid_plain_b t (mid : list (nat * ev)) :
  forallb (fun te => negb (Nat.eqb (fst te) t) || (negb (is_cli "inv" (snd te)) && negb (is_cli "ret" (snd te)))) mid = true ->
  forall e, In (t, e) mid -> is_cli "inv" e = false /\ is_cli "ret" e = false.
Proof.
  intros H e He. rewrite forallb_forall in H. specialize (H _ He). cbn [fst snd] in H. rewrite Nat.eqb_refl in H. cbn in H.
  apply andb_true_iff in H. destruct H as [H1 H2]. apply negb_true_iff in H1, H2. auto.
Qed.

Lemma present_all_b hbits abits hs (cs : list (Conc.config G V ev)) n h :
  forallb (fun c' => negb (Nat.ltb n (List.length (Conc.trace c'))) || presentb hbits abits hs (Conc.shared c') h) cs = true ->
  forall c', In c' cs -> n < List.length (Conc.trace c') -> FeldmanStepThm.present hs (Conc.shared c') h.
Proof.
  intros H c' Hc Hn. rewrite forallb_forall in H. specialize (H _ Hc). apply Nat.ltb_lt in Hn. rewrite Hn in H. cbn in H.
  eapply presentb_sound; eauto.
Qed.
