(** * A second invariant on top of an established one (generic, used by HpLiveCopyInv).

    [Conc.safe] proves an invariant [Inv1] (auxiliary state [Aux1], views [L1]) for every program of a model.
    To prove a FURTHER invariant [Inv2] (own auxiliary state and views) without touching the first proof, it is
    enough to show, for every program, [rsafe]: each step preserves [Inv2], where the step may assume that [Inv1]
    holds (for some hidden auxiliary state) before and after it.  [safe_pair] combines a [Conc.safe] proof of the
    first invariant with an [rsafe] proof of the second into a [Conc.safe] proof of their conjunction, so
    [Conc.reach_Inv] gives both in every reachable configuration. *)
From Coq Require Import List Arith Lia Bool PeanoNat.
From LV Require Import Base.Conc.
Import ListNotations.

Section Rel.
  Variables (G V E : Type).
  Variables (Aux1 L1 : Type) (view1 : Aux1 -> nat -> L1) (Inv1 : G -> Aux1 -> list (nat * E) -> Prop).
  Variables (Aux2 L2 : Type) (view2 : Aux2 -> nat -> L2) (Inv2 : G -> Aux2 -> list (nat * E) -> Prop).

  Definition I1 (g : G) (tr : list (nat * E)) : Prop := exists a1, Inv1 g a1 tr.

  Fixpoint rsafe {R} (t : nat) (p : Conc.prog G V E R) (l : L2) (Q : R -> L2 -> Prop) : Prop :=
    match p with
    | Ret r => Q r l
    | Emit es k =>
        forall g a tr, Inv2 g a tr -> view2 a t = l -> I1 g tr -> I1 g (tr ++ Conc.tag t es) ->
          exists a', Inv2 g a' (tr ++ Conc.tag t es) /\ Conc.frame view2 t a a' /\ rsafe t k (view2 a' t) Q
    | Act f k =>
        forall g a tr, Inv2 g a tr -> view2 a t = l -> I1 g tr ->
          I1 (fst (fst (f g))) (tr ++ Conc.tag t (snd (f g))) ->
          exists a', Inv2 (fst (fst (f g))) a' (tr ++ Conc.tag t (snd (f g))) /\ Conc.frame view2 t a a' /\
                     rsafe t (k (snd (fst (f g)))) (view2 a' t) Q
    end.

  Lemma rsafe_bind {A B} t (p : Conc.prog G V E A) (q : A -> Conc.prog G V E B) Q : forall l,
    rsafe t p l (fun r l' => rsafe t (q r) l' Q) -> rsafe t (Conc.bind p q) l Q.
  Proof.
    induction p as [r|es k IH|f k IH]; intros l H; cbn [Conc.bind rsafe] in *.
    - exact H.
    - intros g a tr Hi Hv Hb Ha. destruct (H g a tr Hi Hv Hb Ha) as (a' & H1 & H2 & H3). exists a'. repeat split; auto.
    - intros g a tr Hi Hv Hb Ha. destruct (H g a tr Hi Hv Hb Ha) as (a' & H1 & H2 & H3). exists a'. repeat split; auto.
  Qed.

  Lemma rsafe_weaken {R} t (p : Conc.prog G V E R) (Q Q' : R -> L2 -> Prop) :
    (forall r l, Q r l -> Q' r l) -> forall l, rsafe t p l Q -> rsafe t p l Q'.
  Proof.
    intros HQ. induction p as [r|es k IH|f k IH]; intros l H; cbn [rsafe] in *.
    - auto.
    - intros g a tr Hi Hv Hb Ha. destruct (H g a tr Hi Hv Hb Ha) as (a' & H1 & H2 & H3). exists a'; auto.
    - intros g a tr Hi Hv Hb Ha. destruct (H g a tr Hi Hv Hb Ha) as (a' & H1 & H2 & H3). exists a'; auto.
  Qed.

  (** the product rule *)
  Definition view12 (a : Aux1 * Aux2) (t : nat) : L1 * L2 := (view1 (fst a) t, view2 (snd a) t).
  Definition Inv12 (g : G) (a : Aux1 * Aux2) (tr : list (nat * E)) : Prop := Inv1 g (fst a) tr /\ Inv2 g (snd a) tr.

  Lemma safe_pair {R} t (p : Conc.prog G V E R) (Q1 : R -> L1 -> Prop) (Q2 : R -> L2 -> Prop) : forall l1 l2,
    Conc.safe view1 Inv1 t p l1 Q1 -> rsafe t p l2 Q2 ->
    Conc.safe view12 Inv12 t p (l1, l2) (fun r l => Q1 r (fst l) /\ Q2 r (snd l)).
  Proof.
    induction p as [r|es k IH|f k IH]; intros l1 l2 H1 H2; cbn [Conc.safe rsafe] in *.
    - split; assumption.
    - intros g [a1 a2] tr [Hi1 Hi2] Hv. unfold view12 in Hv. cbn [fst snd] in *. inversion Hv as [[Hv1 Hv2]].
      destruct (H1 g a1 tr Hi1 Hv1) as (a1' & K1 & K2 & K3).
      destruct (H2 g a2 tr Hi2 Hv2 (ex_intro _ a1 Hi1) (ex_intro _ a1' K1)) as (a2' & M1 & M2 & M3).
      exists (a1', a2'). split; [split; assumption|]. split.
      + intros t' Ht. unfold view12; cbn [fst snd]. now rewrite (K2 t' Ht), (M2 t' Ht).
      + unfold view12 at 1; cbn [fst snd]. apply IH; assumption.
    - intros g [a1 a2] tr [Hi1 Hi2] Hv. unfold view12 in Hv. cbn [fst snd] in *. inversion Hv as [[Hv1 Hv2]].
      destruct (H1 g a1 tr Hi1 Hv1) as (a1' & K1 & K2 & K3).
      destruct (H2 g a2 tr Hi2 Hv2 (ex_intro _ a1 Hi1) (ex_intro _ a1' K1)) as (a2' & M1 & M2 & M3).
      exists (a1', a2'). split; [split; assumption|]. split.
      + intros t' Ht. unfold view12; cbn [fst snd]. now rewrite (K2 t' Ht), (M2 t' Ht).
      + unfold view12 at 1; cbn [fst snd]. apply IH; assumption.
  Qed.

  Lemma cfg_ok_pair (c0 : Conc.config G V E) (a1 : Aux1) (a2 : Aux2) :
    Inv1 (Conc.shared c0) a1 (Conc.trace c0) -> Inv2 (Conc.shared c0) a2 (Conc.trace c0) ->
    (forall t p, nth_error (Conc.threads c0) t = Some p ->
       Conc.safe view1 Inv1 t p (view1 a1 t) (@Conc.QTrue L1) /\ rsafe t p (view2 a2 t) (fun _ _ => True)) ->
    Conc.cfg_ok view12 Inv12 c0.
  Proof.
    intros H1 H2 Hth. exists (a1, a2). split; [split; assumption|].
    intros t p Hp. destruct (Hth t p Hp) as (S1 & S2).
    eapply Conc.safe_weaken; [|apply (safe_pair t p _ _ _ _ S1 S2)]. intros; exact I.
  Qed.
End Rel.
