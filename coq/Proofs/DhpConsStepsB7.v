(** DhpConsStepsB7: copy of LV.Proofs.DhpStepsB7 over the two-directional pointer invariant of LV.Proofs.DhpConsInv (conservation);
    the text differs from the original where the JW part of a goal is proved. *)
(** * DhpStepsB7: scan stage 2 and the call of the disposer. *)
From Coq Require Import ZArith NArith List String Bool Lia PeanoNat.
From LV Require Import Base.Conc Base.Events Model.DhpLang Model.Dhp Proofs.DhpBase Proofs.DhpSeq Proofs.DhpSeqThm Proofs.DhpHist
  Proofs.DhpLangProofs Proofs.DhpAllocA Proofs.DhpInvB Proofs.DhpConsInv Proofs.DhpConsQuietB Proofs.DhpConsQuietB2 Proofs.DhpConsRulesB Proofs.DhpConsStepsB1 Proofs.DhpConsStepsB3
  Proofs.DhpConsStepsB4 Proofs.DhpConsStepsB6.
Import ListNotations.

Section StepsB7.
  Variable c : cfg.
  Notation RB := (c_RB c).
  Hypothesis HRB : 4 <= RB.
  Let HRB1 : 1 <= RB. Proof. lia. Qed.

  Ltac vwt t := let t' := fresh "t'" in intros t'; cbn; unfold fn; destruct (Nat.eqb_spec t' t) as [->|]; cbn; auto.

  Definition aux_st2 (a : AuxB) (t r : nat) (freed : list nat) (ext : bool) : AuxB :=
    aux_arr a t r (set_full (set_freed (bvs a t) freed) (if ext then Some r else None))
            (fun q => if memb q freed then LFly t else wh a q) (rw a r - List.length freed).

  Lemma S_stage2 g a tr t r pl :
    In r (vb_own (bvs a t)) -> vb_dead (bvs a t) <> Some r -> (forall ob, vb_move (bvs a t) <> Some (r, ob)) ->
    (vb_full (bvs a t) = None \/ vb_full (bvs a t) = Some r) -> vb_freed (bvs a t) = [] -> vb_s0 (bvs a t) = None ->
    JB c g a tr ->
    JB c (fst (stage2 c r pl g)) (aux_st2 a t r (fst (snd (stage2 c r pl g))) (snd (snd (stage2 c r pl g)))) tr.
  Proof.
    intros Hr Hd Hnm Hfu Hfr Hs0 J.
    assert (Hcase : rch a r = [] \/ rch a r <> []) by (destruct (rch a r); [left|right]; congruence).
    destruct Hcase as [Ech|Hne].
    - (* no array *)
      destruct (JB_rec1 c g a tr t r J Hr Hd Ech) as (Hh & Hc & _ & _).
      assert (Hfu0 : vb_full (bvs a t) = None).
      { destruct Hfu as [X|X]; auto. destruct J as [_ _ [_ _ _ _ _ R6] _]. destruct (R6 t r X) as (_ & Y). contradiction. }
      assert (Est : stage2 c r pl g = (upd_rec g r (rs_cur None 0), ([], false))).
      { unfold stage2. rewrite Hh. cbn. reflexivity. }
      rewrite Est. cbn [fst snd]. unfold aux_st2. cbn [List.length]. rewrite Nat.sub_0_r.
      pose proof (JB_cur_none c HRB g a tr t r 0 Hr Ech Hd Hnm J) as [O1 K1 R1 W1]. constructor.
      + eapply JO_frame with (a := a); eauto. vwt t.
      + eapply JK_frame with (a := a); eauto. vwt t.
      + eapply JR_frame with (a := a); eauto.
        all: try solve [intros r'; cbn; unfold fn; destruct (Nat.eqb_spec r' r) as [->|]; auto].
        all: try solve [intros t'; cbn; unfold fn; destruct (Nat.eqb_spec t' t) as [->|]; cbn; auto; rewrite Hfu0; auto].
        all: try solve [vwt t].
      + eapply JW_frame with (a := a); eauto.
        * intros r' _. apply ec_ext; cbn [aux_arr rch rw moved]; auto. unfold fn. destruct (Nat.eqb_spec r' r) as [->|]; auto.
        * intros t'. cbn. unfold fn. destruct (Nat.eqb_spec t' t) as [->|]; cbn; auto.
        * intros r'. cbn [aux_arr moved rw rch]. split; auto. split; auto. unfold fn. destruct (Nat.eqb_spec r' r) as [->|]; auto.
    - destruct (JB_rec2 c g a tr t r J Hr Hne) as (Hlt & Hal & I & Hrb & Hmw & _).
      pose proof (JB_unmoved c g a tr t r J Hr Hnm) as Hmv.
      pose proof (stage2_spec c pl g r (rch a r) (rw a r) HRB1 I) as S.
      destruct (stage2 c r pl g) as [g' [freed ext]] eqn:Est. cbn [fst snd].
      destruct S as (w' & I' & Ec' & Efr & Ew & _ & Hext & Eoob & F).
      assert (Ew' : rw a r - List.length freed = w') by lia. unfold aux_st2. rewrite Ew'.
      set (v' := set_full (set_freed (bvs a t) freed) (if ext then Some r else None)).
      assert (Hlen : 1 <= List.length (rch a r)) by (destruct (rch a r); [contradiction|cbn; lia]).
      assert (Hw' : w' < List.length (rch a r) * RB \/ vb_full v' = Some r).
      { unfold v'. destruct ext; [right; reflexivity|left]. destruct I as [_ _ _ _ _ Iw _].
        destruct (Nat.eq_dec (rw a r) (List.length (rch a r) * RB)) as [E|N]; [|lia].
        assert (Hq : 1 <= (List.length (rch a r) * RB) / 4) by (apply Nat.div_str_pos; nia).
        destruct (Nat.lt_ge_cases (List.length freed) ((List.length (rch a r) * RB) / 4)) as [L|L]; [discriminate (Hext E L)|lia]. }
      assert (Hfu' : forall r0, vb_full v' = Some r0 -> r0 = r) by (unfold v'; destruct ext; cbn; congruence).
      destruct (arr_op c HRB1 g g' a tr t r v' (fun q => if memb q freed then LFly t else wh a q) w' J Hr Hne Hmv Hnm Hfu F I' Hw' Hfu'
                  eq_refl eq_refl eq_refl eq_refl eq_refl eq_refl eq_refl eq_refl) as (JO' & JK' & JR' & Eec).
      destruct J as [O1 K1 R1 [W1 W2 W3 W4 W5 W6 W7 W8 W9]].
      constructor; auto.
      assert (El : List.length (recs g') = List.length (recs g)) by (destruct F as (X & _); exact X).
      assert (EC : ec g a r = content g (rch a r) (rw a r)) by (unfold ec; rewrite Hmv; reflexivity).
      assert (Ecr : ec g' (aux_arr a t r v' (fun q => if memb q freed then LFly t else wh a q) w') r = filter (keepf pl) (ec g a r)).
      { unfold ec at 1. cbn [aux_arr moved rch rw]. rewrite fn_same, Hmv. cbn [skipn]. rewrite Ec'. now rewrite EC. }
      assert (Hfin : forall q, In q freed -> In q (ec g a r) /\ freef pl q = true) by (intros q Hq; rewrite Efr, <- EC in Hq; apply filter_In in Hq; exact Hq).
      assert (Hfwh : forall q, In q freed -> wh a q = LRec r) by (intros q Hq; apply (proj2 (W1 r Hlt)); apply Hfin; exact Hq).
      assert (Hnf : forall q, wh a q <> LRec r -> memb q freed = false) by (intros q H; apply memb_nIn; intros K; apply H; now apply Hfwh).
      constructor; cbn [aux_arr bvs wh].
      + intros r' Hr'. rewrite El in Hr'. destruct (Nat.eq_dec r' r) as [->|N].
        * rewrite Ecr. split; [apply NoDup_filter; apply W1; auto|]. intros q Hq. apply filter_In in Hq. destruct Hq as (Hq1 & Hq2).
          assert (Hm : memb q freed = false). { apply memb_nIn. intros K. destruct (Hfin q K) as (_ & X). unfold freef, keepf in *. rewrite Hq2 in X. discriminate. }
          rewrite Hm. now apply W1.
        * rewrite Eec by auto. split; [apply W1; auto|]. intros q Hq. pose proof (proj2 (W1 r' Hr') q Hq) as Y.
          rewrite Hnf; auto. rewrite Y. congruence.
      + intros t' q Hq. assert (Hq' : vb_pend (bvs a t') = Some q) by (revert Hq; unfold fn; destruct (Nat.eqb_spec t' t) as [->|]; cbn; auto).
        destruct (W2 t' q Hq') as (Y1 & Y2). assert (Hm : memb q freed = false) by (apply Hnf; rewrite Y1; discriminate). rewrite Hm. split; auto.
        unfold fn. destruct (Nat.eqb_spec t' t) as [->|]; cbn; auto. now apply memb_nIn.
      + intros t'. unfold fn at 1 2. destruct (Nat.eqb_spec t' t) as [->|Nt]; cbn [v' vb_freed set_full set_freed].
        * split; [rewrite Efr; apply NoDup_filter; rewrite <- EC; apply W1; auto|]. intros q Hq. apply memb_In in Hq. now rewrite Hq.
        * split; [apply W3|]. intros q Hq. pose proof (proj2 (W3 t') q Hq) as Y. rewrite Hnf; auto. rewrite Y. discriminate.
      + split; [apply W4|]. intros q Hq. pose proof (proj2 W4 q Hq) as Y. rewrite Hnf; auto. rewrite Y. discriminate.
      + intros q. destruct (memb q freed) eqn:Hm; [intros _; apply W5; apply memb_In in Hm; rewrite (Hfwh q Hm); discriminate|apply W5].
      + intros t' r'. cbn [aux_arr bvs moved rw]. intros Hm Hc'.
        assert (Hm' : vb_move (bvs a t') = Some (r', None)) by (revert Hm; unfold fn; destruct (Nat.eqb_spec t' t) as [->|]; cbn; auto).
        assert (Hc'' : vb_cur (bvs a t') = None) by (revert Hc'; unfold fn; destruct (Nat.eqb_spec t' t) as [->|]; cbn; auto).
        assert (N : r' <> r).
        { intros ->. pose proof R1 as [_ _ R3 _ _ _]. destruct (R3 t' r None Hm') as (Z & _).
          assert (t = t') by (eapply (JO_excl g a t t' r); eauto). subst t'. eapply Hnm; eauto. }
        rewrite fn_other by exact N. apply (W6 t' r'); auto.
      + rewrite Eoob. intros Hoob. destruct (W7 Hoob) as [C1 C2 C3 C4 C5 C6 C7]. constructor; cbn [aux_arr bvs wh tl rch].
        * intros q Hq. destruct (memb q freed); [discriminate|now apply C1].
        * intros q r'. rewrite El. destruct (memb q freed) eqn:Hm; [discriminate|]. intros H. destruct (C2 q r' H) as (X1 & X2). split; auto.
          destruct (Nat.eq_dec r' r) as [->|Nr]; [|rewrite Eec by auto; exact X2].
          rewrite Ecr. apply filter_In. split; auto. unfold keepf. destruct (memb q pl) eqn:Hk; auto. exfalso.
          apply memb_nIn in Hm. apply Hm. rewrite Efr, <- EC. apply filter_In. split; auto. unfold freef. now rewrite Hk.
        * intros q t'. destruct (memb q freed) eqn:Hm.
          -- intros E. inversion E; subst t'. rewrite fn_same. cbn [v' vb_pend vb_freed vb_own set_full set_freed]. split; [right; now apply memb_In|].
             intros E0. rewrite E0 in Hr. contradiction.
          -- intros H. destruct (C3 q t' H) as (X1 & X2). unfold fn. destruct (Nat.eqb_spec t' t) as [->|]; cbn [v' vb_pend vb_freed vb_own set_full set_freed]; auto.
             split; auto. destruct X1 as [X1|X1]; [now left|rewrite Hfr in X1; contradiction].
        * intros q. destruct (memb q freed); [discriminate|apply C4].
        * intros r' Hr'. rewrite El in Hr'. destruct (C5 r' Hr') as [X|(t' & nx & X)]; [now left|right; exists t', nx].
          unfold fn. destruct (Nat.eqb_spec t' t) as [->|]; cbn; auto.
        * intros t' r' nx H. apply (C6 t' r' nx). revert H. unfold fn. destruct (Nat.eqb_spec t' t) as [->|]; cbn; auto.
        * intros t' r' H. assert (H' : vb_arr (bvs a t') = Some r') by (revert H; unfold fn; destruct (Nat.eqb_spec t' t) as [->|]; cbn; auto).
          destruct (C7 t' r' H') as (X1 & X2). split; [unfold fn; destruct (Nat.eqb_spec t' t) as [->|]; cbn; auto|exact X2].
      + rewrite Eoob. exact W8.
      + destruct W9 as [H1 H2 H3]. constructor; cbn [aux_arr bvs wh].
        * intros t' r' E. assert (E' : vb_mine (bvs a t') = Some r') by (revert E; unfold fn, v'; destruct (Nat.eqb_spec t' t) as [->|]; cbn; auto).
          destruct (H1 t' r' E') as (X1 & X2 & X3). split; [unfold fn, v'; destruct (Nat.eqb_spec t' t) as [->|]; cbn; auto|]. split; auto.
          intros q Hq. destruct (memb q freed) eqn:Hm; [|auto].
          apply memb_In in Hm. pose proof (Hfwh q Hm) as Y. destruct (X3 q Hq) as [Z|[Z|Z]]; try congruence.
          rewrite Y in Z. inversion Z; subst r'. assert (t = t') by (eapply (JO_excl g a t t' r); eauto). subst t'. auto.
        * intros t' r' E. specialize (H2 t' r' E). revert H2. unfold fn, v'. destruct (Nat.eqb_spec t' t) as [->|]; cbn; auto.
        * intros t' r'. unfold fn, v'. destruct (Nat.eqb_spec t' t) as [->|]; cbn; [|apply H3]. intros E. rewrite Hs0 in E. discriminate.
  Qed.

  (** the disposer is called on the pointers stage 2 freed *)
  Definition aux_disp (a : AuxB) (t : nat) (freed : list nat) : AuxB :=
    mkAuxB (fn (bvs a) t (set_freed (bvs a t) [])) (rbown a) (fun q => if memb q freed then LDisp else wh a q)
           (rch a) (rw a) (moved a) (dead a) (tl a).

  Lemma S_dispose g a tr t :
    JB c g a tr -> JB c g (aux_disp a t (vb_freed (bvs a t))) (tr ++ Conc.tag t (map ev_dispose (vb_freed (bvs a t)))).
  Proof.
    intros [O1 K1 R1 [W1 W2 W3 W4 W5 W6 W7 W8 W9]]. set (freed := vb_freed (bvs a t)).
    assert (Hfwh : forall q, In q freed -> wh a q = LFly t) by (intros q Hq; now apply W3).
    assert (Hnf : forall q, wh a q <> LFly t -> memb q freed = false) by (intros q H; apply memb_nIn; intros K; apply H; now apply Hfwh).
    constructor.
    - eapply JO_frame with (g := g) (a := a); eauto. vwt t.
    - rewrite hist_app, freeh_dispose. eapply JK_frame with (g := g) (a := a); eauto. vwt t.
    - eapply JR_frame with (g := g) (a := a); eauto; vwt t.
    - rewrite disposed_tr_app, disposed_tr_dispose, retired_tr_app, retired_tr_dispose, app_nil_r.
      constructor; cbn [aux_disp bvs wh].
      + intros r Hr. change (ec g (aux_disp a t freed) r) with (ec g a r). split; [apply W1; auto|]. intros q Hq.
        pose proof (proj2 (W1 r Hr) q Hq) as Y. rewrite Hnf; auto. rewrite Y. discriminate.
      + intros t' q Hq. assert (Hq' : vb_pend (bvs a t') = Some q) by (revert Hq; unfold fn; destruct (Nat.eqb_spec t' t) as [->|]; cbn; auto).
        destruct (W2 t' q Hq') as (Y1 & Y2).
        assert (Hm : memb q freed = false). { apply memb_nIn. intros K. pose proof (Hfwh q K) as Z. rewrite Y1 in Z. inversion Z; subst t'. contradiction. }
        rewrite Hm. split; auto. unfold fn. destruct (Nat.eqb_spec t' t) as [->|]; cbn; auto.
      + intros t'. unfold fn at 1 2. destruct (Nat.eqb_spec t' t) as [->|Nt]; cbn [vb_freed set_freed].
        * split; [constructor|intros q []].
        * split; [apply W3|]. intros q Hq. pose proof (proj2 (W3 t') q Hq) as Y. rewrite Hnf; auto. rewrite Y. congruence.
      + split.
        * apply NoDup_app_intro; [apply W4|apply W3|]. intros q Hq K. pose proof (proj2 W4 q Hq) as Y. rewrite (Hfwh q K) in Y. discriminate.
        * intros q Hq. destruct (memb q freed) eqn:Hm; auto. apply in_app_or in Hq. destruct Hq as [Hq|Hq]; [now apply W4|]. apply memb_In in Hq. congruence.
      + intros q. destruct (memb q freed) eqn:Hm; [intros _; apply W5; apply memb_In in Hm; rewrite (Hfwh q Hm); discriminate|apply W5].
      + intros t' r'. cbn [aux_disp bvs moved rw]. intros Hm Hc'. apply (W6 t' r').
        * revert Hm. unfold fn. destruct (Nat.eqb_spec t' t) as [->|]; cbn; auto.
        * revert Hc'. unfold fn. destruct (Nat.eqb_spec t' t) as [->|]; cbn; auto.
      + intros Hoob. destruct (W7 Hoob) as [C1 C2 C3 C4 C5 C6 C7]. constructor; cbn [aux_disp bvs wh tl rch].
        * intros q Hq. destruct (memb q freed); [discriminate|now apply C1].
        * intros q r'. destruct (memb q freed); [discriminate|]. change (ec g (aux_disp a t freed) r') with (ec g a r'). apply C2.
        * intros q t'. destruct (memb q freed) eqn:Hm; [discriminate|]. intros H. destruct (C3 q t' H) as (X1 & X2).
          unfold fn. destruct (Nat.eqb_spec t' t) as [->|]; cbn; auto. split; auto.
          destruct X1 as [X1|X1]; [now left|]. exfalso. apply memb_nIn in Hm. contradiction.
        * intros q. destruct (memb q freed) eqn:Hm; intros H; apply in_or_app; [right; now apply memb_In|left; now apply C4].
        * intros r' Hr'. destruct (C5 r' Hr') as [X|(t' & nx & X)]; [now left|right; exists t', nx].
          unfold fn. destruct (Nat.eqb_spec t' t) as [->|]; cbn; auto.
        * intros t' r' nx H. apply (C6 t' r' nx). revert H. unfold fn. destruct (Nat.eqb_spec t' t) as [->|]; cbn; auto.
        * intros t' r' H. assert (H' : vb_arr (bvs a t') = Some r') by (revert H; unfold fn; destruct (Nat.eqb_spec t' t) as [->|]; cbn; auto).
          destruct (C7 t' r' H') as (X1 & X2). split; [unfold fn; destruct (Nat.eqb_spec t' t) as [->|]; cbn; auto|exact X2].
      + exact W8.
      + destruct W9 as [H1 H2 H3].
        assert (Hs : DhpConsSTrace.HSame tr (tr ++ Conc.tag t (map ev_dispose freed))).
        { apply DhpConsSTrace.HSame_hq. apply Forall_forall. intros e He. apply in_map_iff in He. destruct He as (q & <- & _). split; [reflexivity|]. now rewrite classify_dispose. }
        constructor; cbn [aux_disp bvs wh].
        * intros t' r' E. assert (E' : vb_mine (bvs a t') = Some r') by (revert E; unfold fn; destruct (Nat.eqb_spec t' t) as [->|]; cbn; auto).
          destruct (H1 t' r' E') as (X1 & X2 & X3). split; [unfold fn; destruct (Nat.eqb_spec t' t) as [->|]; cbn; auto|].
          destruct (Hs t') as (-> & -> & _). split; auto. intros q Hq. destruct (memb q freed); auto.
        * intros t' r' E. apply (Hs t') in E. specialize (H2 t' r' E). revert H2. unfold fn. destruct (Nat.eqb_spec t' t) as [->|]; cbn; auto.
        * intros t' r'. unfold fn. destruct (Nat.eqb_spec t' t) as [->|]; cbn; [|apply H3]. intros E. destruct (H3 t r' E) as (Y1 & Y2 & Y3). auto.
  Qed.
End StepsB7.
