(** * LinProofs: theorems about [LV.Base.Lin].

    Main results (statements repeated at the end of the file with [Print Assumptions]):

      lincheck_sound        : lincheck S h = true -> linearizable S h
      lincheck_complete     : wf_history h -> linearizable S h -> lincheck S h = true
      lincheck_iff          : lincheck S h = true <-> wf_history h /\ linearizable S h
      lp_valid_linearizable : lp_valid S tr -> linearizable S (erase tr)
      lp_valid_wf           : lp_valid S tr -> wf_history (erase tr)
      wf_historyb_spec      : wf_historyb h = true <-> wf_history h
      search_fuel_enough    : length h <= fuel -> search fuel (ops_of h) sinit = search (length h) ...
      lincheck_memo_eq      : (forall a b, eqb a b = true -> a = b) ->
                              lincheck_memo S eqb hash h = lincheck S h
      fifo_no_invention, fifo_at_most_once, fifo_empty_was_empty  (corollaries for FIFO queues)

    Structure: [search] is first related to an abstract notion [oplin] (a linearization of a
    list of operations, no history involved: search_sound / search_complete); [ops_of h] is
    shown to compute the operations of [h] (ops_of_spec / ops_of_has), which turns [oplin] into
    [linearization h] (oplin_linearization).  [lp_valid_linearizable] is an invariant proof
    (lp_inv) by induction on the trace from the right, so positions in the history are stable. *)

Require Import List Arith Bool PeanoNat Lia ZArith.
Require Import LV.Base.Lin LV.Spec.Specs.
Import ListNotations.

(** ** Generic list facts *)

Lemma NoDup_map_inj {A B} (f : A -> B) (l : list A) x y :
  NoDup (map f l) -> In x l -> In y l -> f x = f y -> x = y.
Proof.
  induction l as [|a l IH]; simpl; intros ND Hx Hy E; [easy|].
  inversion ND as [|? ? Hn ND']; subst.
  destruct Hx as [->|Hx], Hy as [->|Hy]; auto.
  - exfalso; apply Hn; rewrite E; now apply in_map.
  - exfalso; apply Hn; rewrite <- E; now apply in_map.
Qed.

Lemma NoDup_map_filter {A B} (f : A -> B) (p : A -> bool) (l : list A) :
  NoDup (map f l) -> NoDup (map f (filter p l)).
Proof.
  induction l as [|a l IH]; simpl; intros ND; [constructor|].
  inversion ND as [|? ? Hn ND']; subst.
  destruct (p a); simpl; auto.
  constructor; auto.
  intros Hin; apply Hn.
  apply in_map_iff in Hin; destruct Hin as (x & E & Hx).
  apply filter_In in Hx; destruct Hx as [Hx _].
  rewrite <- E; now apply in_map.
Qed.

Lemma filter_length {A} (p : A -> bool) (l : list A) : length (filter p l) <= length l.
Proof.
  induction l as [|a l IH]; simpl; auto. destruct (p a); simpl; lia.
Qed.

Lemma precedes_cons {A} (z : A) l x y : precedes l x y -> precedes (z :: l) x y.
Proof.
  intros (p & q & Hpq & Hp & Hq); exists (S p), (S q); simpl; repeat split; auto; lia.
Qed.

Lemma precedes_head {A} (x : A) l y : In y l -> precedes (x :: l) x y.
Proof.
  intros Hy; apply In_nth_error in Hy; destruct Hy as (q & Hq).
  exists 0, (S q); simpl; repeat split; auto; lia.
Qed.

Lemma precedes_tail {A} (z : A) l x y : precedes (z :: l) x y -> x <> z -> precedes l x y.
Proof.
  intros (p & q & Hpq & Hp & Hq) Hne.
  destruct p as [|p]; simpl in Hp; [congruence|].
  destruct q as [|q]; [lia|]; simpl in Hq.
  exists p, q; repeat split; auto; lia.
Qed.

Lemma precedes_not_head {A} (z : A) l x : NoDup (z :: l) -> ~ precedes (z :: l) x z.
Proof.
  intros ND (p & q & Hpq & Hp & Hq).
  destruct q as [|q]; [lia|]; simpl in Hq.
  inversion ND; subst. apply nth_error_In in Hq; contradiction.
Qed.

Lemma precedes_app_l {A} (l l' : list A) x y : precedes l x y -> precedes (l ++ l') x y.
Proof.
  intros (p & q & Hpq & Hp & Hq); exists p, q; repeat split; auto.
  - rewrite nth_error_app1; auto. apply nth_error_Some; congruence.
  - rewrite nth_error_app1; auto. apply nth_error_Some; congruence.
Qed.

Lemma precedes_last {A} (l : list A) x y : In x l -> precedes (l ++ [y]) x y.
Proof.
  intros Hx; apply In_nth_error in Hx; destruct Hx as (p & Hp).
  assert (p < length l) by (apply nth_error_Some; congruence).
  exists p, (length l); repeat split; auto.
  - rewrite nth_error_app1; auto.
  - rewrite nth_error_app2, Nat.sub_diag; auto.
Qed.

Section Proofs.
Context {Sp : Spec}.

Notation seq_of lin := (map (fun a : lop Sp => (l_op a, l_res a)) lin).

(** ** Legal sequences *)

Fixpoint final (s : St Sp) (l : list (Op Sp * Res Sp)) : St Sp :=
  match l with
  | [] => s
  | (o, _) :: l' => final (fst (sstep Sp s o)) l'
  end.

Lemma legal_app s l1 l2 : legal s (l1 ++ l2) <-> legal s l1 /\ legal (final s l1) l2.
Proof.
  revert s; induction l1 as [|[o r] l1 IH]; simpl; intros s; [tauto|].
  rewrite IH; tauto.
Qed.

Lemma final_app s l1 l2 : final s (l1 ++ l2) = final (final s l1) l2.
Proof.
  revert s; induction l1 as [|[o r] l1 IH]; simpl; intros s; auto.
Qed.

(** ** The search, independently of any history.

    [oplin todo s lin]: [lin] linearizes the operations [todo] from state [s]. *)

Record oplin (todo : list (oper Sp)) (s : St Sp) (lin : list (lop Sp)) : Prop := {
  ol_ops : forall a, In a lin ->
      exists x, In x todo /\ o_inv x = l_inv a /\ o_tid x = l_tid a /\ o_op x = l_op a /\
                (forall j r, o_ret x = Some (j, r) -> l_res a = r);
  ol_nodup : NoDup (map l_inv lin);
  ol_complete : forall x j r, In x todo -> o_ret x = Some (j, r) ->
      exists a, In a lin /\ l_inv a = o_inv x /\ l_res a = r;
  ol_legal : legal s (seq_of lin);
  ol_realtime : forall x j r b, In x todo -> o_ret x = Some (j, r) -> In b lin -> j < l_inv b ->
      precedes (map l_inv lin) (o_inv x) (l_inv b)
}.
Arguments ol_ops {todo s lin} _ a _.
Arguments ol_nodup {todo s lin} _.
Arguments ol_complete {todo s lin} _ x {j r} _ _.
Arguments ol_legal {todo s lin} _.
Arguments ol_realtime {todo s lin} _ x {j r} b _ _ _ _.

Lemma In_drop_op (x y : oper Sp) todo :
  In y (drop_op x todo) <-> In y todo /\ o_inv y <> o_inv x.
Proof.
  unfold drop_op; rewrite filter_In, negb_true_iff, Nat.eqb_neq; tauto.
Qed.

Lemma minimal_spec todo (a : oper Sp) :
  minimal todo a = true <->
  (forall x j r, In x todo -> o_ret x = Some (j, r) -> o_inv a <= j).
Proof.
  unfold minimal; rewrite forallb_forall; split.
  - intros H x j r Hx E. specialize (H x Hx).
    unfold returned_before in H; rewrite E in H.
    apply negb_true_iff, Nat.ltb_ge in H; auto.
  - intros H x Hx. unfold returned_before.
    destruct (o_ret x) as [[j r]|] eqn:E; auto.
    apply negb_true_iff, Nat.ltb_ge; eauto.
Qed.

Lemma all_open_spec (todo : list (oper Sp)) :
  forallb is_open todo = true <-> (forall x, In x todo -> o_ret x = None).
Proof.
  rewrite forallb_forall; unfold is_open; split; intros H x Hx; specialize (H x Hx);
    destruct (o_ret x); auto; discriminate.
Qed.

Lemma search_sound fuel : forall todo s,
  NoDup (map o_inv todo) -> search fuel todo s = true -> exists lin, oplin todo s lin.
Proof.
  induction fuel as [|f IH]; intros todo s ND H; simpl in H;
    apply orb_true_iff in H; destruct H as [H|H].
  - exists []; rewrite all_open_spec in H; constructor; simpl; auto; try easy; try constructor.
    intros x j r Hx E; rewrite (H x Hx) in E; discriminate.
  - discriminate.
  - exists []; rewrite all_open_spec in H; constructor; simpl; auto; try easy; try constructor.
    intros x j r Hx E; rewrite (H x Hx) in E; discriminate.
  - apply existsb_exists in H; destruct H as (x & Hx & H).
    apply andb_true_iff in H; destruct H as [Hmin H].
    destruct (sstep Sp s (o_op x)) as [s' r'] eqn:Est.
    apply andb_true_iff in H; destruct H as [Hres H].
    apply IH in H; [|now apply NoDup_map_filter].
    destruct H as (lin & L).
    rewrite minimal_spec in Hmin.
    set (a := {| l_inv := o_inv x; l_tid := o_tid x; l_op := o_op x; l_res := r' |}).
    assert (Hfresh : ~ In (o_inv x) (map l_inv lin)).
    { intros Hin; apply in_map_iff in Hin; destruct Hin as (b & Eb & Hb).
      destruct (ol_ops L b Hb) as (y & Hy & Ey & _).
      apply In_drop_op in Hy; destruct Hy as [_ Hne]; congruence. }
    exists (a :: lin); constructor.
    + intros b [<-|Hb].
      * exists x; simpl; repeat split; auto.
        intros j r E; unfold result_ok in Hres; rewrite E in Hres.
        apply res_eqb_spec in Hres; auto.
      * destruct (ol_ops L b Hb) as (y & Hy & Ey).
        apply In_drop_op in Hy; exists y; tauto.
    + simpl; constructor; auto. apply (ol_nodup L).
    + intros y j r Hy E.
      destruct (Nat.eq_dec (o_inv y) (o_inv x)) as [Eq|Ne].
      * assert (y = x) by (eapply NoDup_map_inj; eauto); subst y.
        exists a; simpl; repeat split; auto.
        unfold result_ok in Hres; rewrite E in Hres; apply res_eqb_spec in Hres; auto.
      * destruct (ol_complete L y (j:=j) (r:=r)) as (b & Hb & Eb); auto.
        { apply In_drop_op; auto. }
        exists b; simpl; tauto.
    + simpl; rewrite Est; simpl; split; auto. apply (ol_legal L).
    + intros y j r b Hy E [<-|Hb] Hlt.
      * simpl in Hlt. specialize (Hmin y j r Hy E); lia.
      * simpl map.
        destruct (Nat.eq_dec (o_inv y) (o_inv x)) as [Eq|Ne].
        -- rewrite Eq; apply precedes_head; now apply in_map.
        -- apply precedes_cons; eapply (ol_realtime L); eauto.
           apply In_drop_op; auto.
Qed.

Lemma drop_op_length (x : oper Sp) todo : In x todo -> length (drop_op x todo) < length todo.
Proof.
  unfold drop_op; induction todo as [|y todo IH]; simpl; [easy|].
  intros [->|Hx].
  - rewrite Nat.eqb_refl; simpl.
    pose proof (filter_length (fun x0 : oper Sp => negb (o_inv x0 =? o_inv x)) todo); lia.
  - destruct (negb (o_inv y =? o_inv x)); simpl; specialize (IH Hx); lia.
Qed.

Lemma search_complete : forall lin fuel todo s,
  oplin todo s lin -> length todo <= fuel -> search fuel todo s = true.
Proof.
  induction lin as [|a lin IH]; intros fuel todo s L Hfuel.
  - assert (forallb is_open todo = true).
    { apply all_open_spec; intros x Hx.
      destruct (o_ret x) as [[j r]|] eqn:E; auto.
      destruct (ol_complete L x Hx E) as (a & [] & _). }
    destruct fuel; simpl; rewrite H; auto.
  - destruct (ol_ops L a (or_introl eq_refl)) as (x & Hx & Ei & Et & Eo & Er).
    pose proof (ol_nodup L) as ND; simpl in ND.
    destruct fuel as [|f].
    { destruct todo; simpl in *; [easy|lia]. }
    simpl; apply orb_true_iff; right.
    apply existsb_exists; exists x; split; auto.
    pose proof (ol_legal L) as Hleg; simpl in Hleg; destruct Hleg as [Hr Hleg].
    rewrite <- Eo in Hr, Hleg.
    apply andb_true_iff; split.
    + apply minimal_spec; intros y j r Hy E.
      destruct (le_lt_dec (o_inv x) j) as [|Hlt]; auto.
      exfalso. rewrite Ei in Hlt.
      pose proof (ol_realtime L y a Hy E (or_introl eq_refl) Hlt) as P.
      simpl in P. eapply precedes_not_head; eauto.
    + destruct (sstep Sp s (o_op x)) as [s' r'] eqn:Est; simpl in Hr, Hleg.
      apply andb_true_iff; split.
      * unfold result_ok; destruct (o_ret x) as [[j r]|] eqn:E; auto.
        apply res_eqb_spec. rewrite <- (Er j r eq_refl); auto.
      * apply IH.
        2:{ pose proof (drop_op_length x todo Hx); lia. }
        inversion ND as [|? ? Hnin ND']; subst.
        constructor; auto.
        -- intros b Hb.
           destruct (ol_ops L b (or_intror Hb)) as (y & Hy & Eyi & Ey).
           exists y; repeat split; try tauto.
           apply In_drop_op; split; auto.
           rewrite Eyi, Ei; intros Eq; apply Hnin; rewrite <- Eq; now apply in_map.
        -- intros y j r Hy E; apply In_drop_op in Hy; destruct Hy as [Hy Hne].
           destruct (ol_complete L y Hy E) as (b & [<-|Hb] & Eb & Ebr); [congruence|].
           exists b; auto.
        -- intros y j r b Hy E Hb Hlt; apply In_drop_op in Hy; destruct Hy as [Hy Hne].
           pose proof (ol_realtime L y b Hy E (or_intror Hb) Hlt) as P; simpl in P.
           eapply precedes_tail; eauto. congruence.
Qed.

(** ** [ops_of h] computes the operations of [h] *)

Lemma nth_error_mid {A} (pre : list A) e l : nth_error (pre ++ e :: l) (length pre) = Some e.
Proof. rewrite nth_error_app2, Nat.sub_diag; auto. Qed.

Lemma snoc_assoc {A} (pre : list A) e l : (pre ++ [e]) ++ l = pre ++ e :: l.
Proof. rewrite <- app_assoc; auto. Qed.

Lemma snoc_length {A} (pre : list A) e : length (pre ++ [e]) = S (length pre).
Proof. rewrite app_length; simpl; lia. Qed.

Lemma find_ret_spec : forall (l pre : history Sp) t j r,
  find_ret t l (length pre) = Some (j, r) <->
  (length pre <= j /\ nth_error (pre ++ l) j = Some (@HRes Sp t r) /\
   forall k e, length pre <= k < j -> nth_error (pre ++ l) k = Some e -> tid_of e <> t).
Proof.
  induction l as [|e l IH]; intros pre t j r.
  - simpl; split; [discriminate|]. intros (Hle & Hn & _).
    rewrite app_nil_r in Hn.
    assert (j < length pre) by (apply nth_error_Some; congruence). lia.
  - assert (Hstep : forall u, tid_of e = u -> u <> t ->
        (find_ret t l (S (length pre)) = Some (j, r) <->
         length pre <= j /\ nth_error (pre ++ e :: l) j = Some (HRes t r) /\
         (forall k e0, length pre <= k < j -> nth_error (pre ++ e :: l) k = Some e0 -> tid_of e0 <> t))).
    { intros u Eu Hne.
      rewrite <- (snoc_length pre e), IH, snoc_assoc, snoc_length.
      split; intros (Hle & Hn & Hall); repeat split; auto; try lia.
      - intros k e0 Hk Hk'.
        destruct (Nat.eq_dec k (length pre)) as [->|].
        + rewrite nth_error_mid in Hk'; injection Hk' as <-; congruence.
        + apply (Hall k); auto; lia.
      - destruct (Nat.eq_dec j (length pre)) as [->|]; [|lia].
        rewrite nth_error_mid in Hn; injection Hn as ->. simpl in Eu; congruence.
      - intros k e0 Hk; apply Hall; lia. }
    destruct e as [u o|u r0]; simpl; destruct (Nat.eqb_spec u t) as [->|Hne];
      try (apply (Hstep u); auto; fail).
    + split; [discriminate|]. intros (Hle & Hn & Hall). exfalso.
      destruct (Nat.eq_dec j (length pre)) as [->|].
      * rewrite nth_error_mid in Hn; discriminate.
      * apply (Hall (length pre) (HInv t o)); auto; [lia|apply nth_error_mid].
    + split.
      * intros E; injection E as <- <-. repeat split; auto; [apply nth_error_mid|lia].
      * intros (Hle & Hn & Hall).
        destruct (Nat.eq_dec j (length pre)) as [->|].
        -- rewrite nth_error_mid in Hn; congruence.
        -- exfalso; apply (Hall (length pre) (HRes t r0)); auto; [lia|apply nth_error_mid].
Qed.

Lemma find_ret_completed pre t o l j r :
  find_ret t l (S (length pre)) = Some (j, r) <->
  completed (pre ++ @HInv Sp t o :: l) (length pre) j r.
Proof.
  rewrite <- (snoc_length pre (HInv t o)), find_ret_spec, snoc_assoc, snoc_length.
  unfold completed; split.
  - intros (Hle & Hn & Hall); exists t, o.
    split; [apply nth_error_mid|]. split; [exact Hn|]. split; [lia|].
    intros k e Hk; apply Hall; lia.
  - intros (t' & o' & Hi & Hj & Hlt & Hall).
    rewrite nth_error_mid in Hi; injection Hi as <- <-.
    repeat split; auto; try lia.
Qed.

Lemma ops_from_spec : forall (l pre : history Sp) (x : oper Sp),
  In x (ops_from l (length pre)) ->
  length pre <= o_inv x /\
  nth_error (pre ++ l) (o_inv x) = Some (HInv (o_tid x) (o_op x)) /\
  (forall j r, o_ret x = Some (j, r) <-> completed (pre ++ l) (o_inv x) j r).
Proof.
  induction l as [|e l IH]; intros pre x Hx; simpl in Hx; [easy|].
  assert (Hrec : In x (ops_from l (S (length pre))) ->
     length pre <= o_inv x /\
     nth_error (pre ++ e :: l) (o_inv x) = Some (HInv (o_tid x) (o_op x)) /\
     (forall j r, o_ret x = Some (j, r) <-> completed (pre ++ e :: l) (o_inv x) j r)).
  { intros H; rewrite <- (snoc_length pre e) in H. apply IH in H.
    rewrite snoc_assoc, snoc_length in H. intuition lia. }
  destruct e as [t o|t r0]; auto.
  destruct Hx as [<-|Hx]; auto; simpl.
  repeat split; auto; try apply nth_error_mid; apply find_ret_completed.
Qed.

Lemma ops_from_has : forall (l pre : history Sp) i t o,
  nth_error (pre ++ l) i = Some (HInv t o) -> length pre <= i ->
  exists x, In x (ops_from l (length pre)) /\ o_inv x = i /\ o_tid x = t /\ o_op x = o.
Proof.
  induction l as [|e l IH]; intros pre i t o Hn Hle.
  - rewrite app_nil_r in Hn.
    assert (i < length pre) by (apply nth_error_Some; congruence). lia.
  - destruct (Nat.eq_dec i (length pre)) as [->|Hne].
    + rewrite nth_error_mid in Hn; injection Hn as ->; simpl.
      eexists; split; [left; reflexivity|]; simpl; auto.
    + rewrite <- snoc_assoc in Hn. apply IH in Hn; [|rewrite snoc_length; lia].
      rewrite snoc_length in Hn. destruct Hn as (x & Hx & E).
      exists x; split; auto. destruct e; simpl; auto.
Qed.

Lemma ops_from_ge : forall l k x, In x (@ops_from Sp l k) -> k <= o_inv x.
Proof.
  induction l as [|[t o|t r] l IH]; simpl; intros k x Hx; [easy| |].
  - destruct Hx as [<-|Hx]; simpl; auto. apply IH in Hx; lia.
  - apply IH in Hx; lia.
Qed.

Lemma ops_from_nodup : forall l k, NoDup (map o_inv (@ops_from Sp l k)).
Proof.
  induction l as [|[t o|t r] l IH]; simpl; intros k; auto; constructor; auto.
  intros Hin; apply in_map_iff in Hin; destruct Hin as (x & E & Hx).
  apply ops_from_ge in Hx; lia.
Qed.

Lemma ops_from_length : forall l k, length (@ops_from Sp l k) <= length l.
Proof.
  induction l as [|[t o|t r] l IH]; simpl; intros k; auto; specialize (IH (S k)); lia.
Qed.

Lemma ops_of_spec (h : history Sp) x :
  In x (ops_of h) ->
  nth_error h (o_inv x) = Some (HInv (o_tid x) (o_op x)) /\
  (forall j r, o_ret x = Some (j, r) <-> completed h (o_inv x) j r).
Proof.
  intros Hx; apply (ops_from_spec h []) in Hx; tauto.
Qed.

Lemma ops_of_has (h : history Sp) i t o :
  nth_error h i = Some (HInv t o) ->
  exists x, In x (ops_of h) /\ o_inv x = i /\ o_tid x = t /\ o_op x = o.
Proof.
  intros Hn; apply (ops_from_has h []); simpl; auto; lia.
Qed.

(** [oplin] on the operations of [h] is exactly [linearization h]. *)

Lemma oplin_linearization (h : history Sp) lin :
  oplin (ops_of h) (sinit Sp) lin <-> linearization Sp h lin.
Proof.
  split; intros L.
  - constructor.
    + intros a Ha. destruct (ol_ops L a Ha) as (x & Hx & Ei & Et & Eo & _).
      apply ops_of_spec in Hx; destruct Hx as [Hx _]; congruence.
    + apply (ol_nodup L).
    + intros i j r C. pose proof C as (t & o & Hi & _).
      destruct (ops_of_has h _ _ _ Hi) as (x & Hx & Ei & _).
      destruct (ops_of_spec h x Hx) as [_ Hc]. rewrite <- Ei in C. apply Hc in C.
      destruct (ol_complete L x Hx C) as (a & Ha & E1 & E2).
      exists a; repeat split; auto; congruence.
    + apply (ol_legal L).
    + intros i j r b C Hb Hlt. pose proof C as (t & o & Hi & _).
      destruct (ops_of_has h _ _ _ Hi) as (x & Hx & Ei & _).
      destruct (ops_of_spec h x Hx) as [_ Hc]. rewrite <- Ei in C. apply Hc in C.
      rewrite <- Ei. eapply (ol_realtime L); eauto.
  - constructor.
    + intros a Ha. pose proof (lin_ops L a Ha) as Hn.
      destruct (ops_of_has h _ _ _ Hn) as (x & Hx & Ei & Et & Eo).
      exists x; repeat split; auto.
      intros j r E. destruct (ops_of_spec h x Hx) as [_ Hc]. apply Hc in E.
      destruct (lin_complete L E) as (a' & Ha' & E1 & E2).
      assert (a' = a) by (eapply NoDup_map_inj; [apply (lin_nodup L)| | |]; auto; congruence).
      congruence.
    + apply (lin_nodup L).
    + intros x j r Hx E. destruct (ops_of_spec h x Hx) as [_ Hc]. apply Hc in E.
      apply (lin_complete L E).
    + apply (lin_legal L).
    + intros x j r b Hx E Hb Hlt. destruct (ops_of_spec h x Hx) as [_ Hc]. apply Hc in E.
      eapply (lin_realtime L); eauto.
Qed.

(** ** Well-formedness: the boolean check decides the declarative definition *)

Lemma mem_del t u l : mem_tid t (del_tid u l) = negb (t =? u) && mem_tid t l.
Proof.
  unfold mem_tid, del_tid; induction l as [|x l IH]; simpl.
  - now rewrite andb_false_r.
  - destruct (Nat.eqb_spec x u) as [->|Hne]; simpl; rewrite IH.
    + destruct (Nat.eqb_spec t u); simpl; auto.
    + destruct (Nat.eqb_spec t x) as [->|]; simpl; auto.
      destruct (Nat.eqb_spec x u); [contradiction|]; auto.
Qed.

Lemma wfb_spec : forall (h : history Sp) open,
  wfb open h = true <-> forall t, alternating (mem_tid t open) (thread_events t h).
Proof.
  induction h as [|e h IH]; intros open.
  - simpl; split; auto.
  - destruct e as [u o|u r]; unfold thread_events; simpl;
      rewrite andb_true_iff, IH; fold (thread_events (Sp:=Sp)).
    + rewrite negb_true_iff. split.
      * intros [Hm H] t. specialize (H t); unfold mem_tid in H; simpl in H.
        destruct (Nat.eqb_spec u t) as [E|Hne]; [subst t|]; simpl.
        -- rewrite Nat.eqb_refl in H; auto.
        -- destruct (Nat.eqb_spec t u); [congruence|]; auto.
      * intros H; split.
        -- specialize (H u); rewrite Nat.eqb_refl in H; simpl in H; tauto.
        -- intros t; specialize (H t); unfold mem_tid; simpl.
           destruct (Nat.eqb_spec u t) as [E|Hne]; [subst t|]; simpl in *.
           ++ rewrite Nat.eqb_refl; tauto.
           ++ destruct (Nat.eqb_spec t u); [congruence|]; auto.
    + split.
      * intros [Hm H] t. specialize (H t); rewrite mem_del in H.
        destruct (Nat.eqb_spec u t) as [E|Hne]; [subst t|]; simpl.
        -- rewrite Nat.eqb_refl in H; auto.
        -- destruct (Nat.eqb_spec t u); [congruence|]; auto.
      * intros H; split.
        -- specialize (H u); rewrite Nat.eqb_refl in H; simpl in H; tauto.
        -- intros t; specialize (H t); rewrite mem_del.
           destruct (Nat.eqb_spec u t) as [E|Hne]; [subst t|]; simpl in *.
           ++ rewrite Nat.eqb_refl; tauto.
           ++ destruct (Nat.eqb_spec t u); [congruence|]; auto.
Qed.

Theorem wf_historyb_spec (h : history Sp) : wf_historyb h = true <-> wf_history h.
Proof. unfold wf_historyb, wf_history; rewrite wfb_spec; simpl; tauto. Qed.

(** ** The checker decides linearizability of well-formed histories *)

Theorem lincheck_sound (h : history Sp) : lincheck Sp h = true -> linearizable Sp h.
Proof.
  unfold lincheck; intros H; apply andb_true_iff in H; destruct H as [_ H].
  apply search_sound in H; [|apply ops_from_nodup].
  destruct H as (lin & L); exists lin; now apply oplin_linearization.
Qed.

Theorem lincheck_wf (h : history Sp) : lincheck Sp h = true -> wf_history h.
Proof.
  unfold lincheck; intros H; apply andb_true_iff in H; destruct H as [H _].
  now apply wf_historyb_spec.
Qed.

Theorem lincheck_complete (h : history Sp) :
  wf_history h -> linearizable Sp h -> lincheck Sp h = true.
Proof.
  intros W (lin & L); unfold lincheck; apply andb_true_iff; split.
  - now apply wf_historyb_spec.
  - apply search_complete with (lin := lin).
    + now apply oplin_linearization.
    + apply ops_from_length.
Qed.

Theorem lincheck_iff (h : history Sp) :
  lincheck Sp h = true <-> wf_history h /\ linearizable Sp h.
Proof.
  split.
  - intros H; split; [now apply lincheck_wf|now apply lincheck_sound].
  - intros [W L]; now apply lincheck_complete.
Qed.

(** The fuel is never the reason for a [false] verdict: more fuel changes nothing. *)
Corollary search_fuel_enough (h : history Sp) fuel :
  length h <= fuel ->
  search fuel (ops_of h) (sinit Sp) = search (length h) (ops_of h) (sinit Sp).
Proof.
  intros Hf.
  destruct (search fuel (ops_of h) (sinit Sp)) eqn:E1,
           (search (length h) (ops_of h) (sinit Sp)) eqn:E2; auto.
  - apply search_sound in E1; [|apply ops_from_nodup]. destruct E1 as (lin & L).
    rewrite <- E2; symmetry; apply search_complete with (lin := lin); auto.
    apply ops_from_length.
  - apply search_sound in E2; [|apply ops_from_nodup]. destruct E2 as (lin & L).
    rewrite <- E1; apply search_complete with (lin := lin); auto.
    pose proof (ops_from_length h 0); unfold ops_of; lia.
Qed.

(** ** Traces with linearization points are linearizable *)

Lemma lp_run_app (c : config Sp) tr1 tr2 :
  lp_run c (tr1 ++ tr2) =
  match lp_run c tr1 with Some c' => lp_run c' tr2 | None => None end.
Proof.
  revert c; induction tr1 as [|e tr1 IH]; simpl; intros c; auto.
  destruct (lp_step c e); auto.
Qed.

Lemma erase_app (tr1 tr2 : list (aev Sp)) : erase (tr1 ++ tr2) = erase tr1 ++ erase tr2.
Proof.
  induction tr1 as [|[t o|t|t r] tr1 IH]; simpl; auto; now rewrite IH.
Qed.

(** Extending a history by one event at the end. *)

Lemma nth_snoc_old {A} (h : list A) e i x :
  nth_error h i = Some x -> nth_error (h ++ [e]) i = Some x.
Proof.
  intros H; rewrite nth_error_app1; auto. apply nth_error_Some; congruence.
Qed.

Lemma nth_snoc_inv {A} (h : list A) e k x :
  nth_error (h ++ [e]) k = Some x ->
  (k < length h /\ nth_error h k = Some x) \/ (k = length h /\ x = e).
Proof.
  intros H. destruct (lt_dec k (length h)) as [Hlt|Hge].
  - left; split; auto. rewrite nth_error_app1 in H; auto.
  - right. rewrite nth_error_app2 in H by lia.
    destruct (k - length h) as [|d] eqn:E; simpl in H.
    + split; [lia|congruence].
    + destruct d; discriminate.
Qed.

Lemma completed_snoc (h : history Sp) e i j r :
  completed h i j r -> completed (h ++ [e]) i j r.
Proof.
  intros (t & o & Hi & Hj & Hlt & Hall).
  assert (j < length h) by (apply nth_error_Some; congruence).
  exists t, o; repeat split; auto using nth_snoc_old.
  intros k e0 Hk Hn. apply nth_snoc_inv in Hn; destruct Hn as [[_ Hn]|[Hn _]]; [|lia].
  eapply Hall; eauto.
Qed.

Lemma completed_snoc_inv (h : history Sp) e i j r :
  completed (h ++ [e]) i j r -> j < length h -> completed h i j r.
Proof.
  intros (t & o & Hi & Hj & Hlt & Hall) Hj'.
  exists t, o.
  apply nth_snoc_inv in Hi; destruct Hi as [[_ Hi]|[Hi _]]; [|lia].
  apply nth_snoc_inv in Hj; destruct Hj as [[_ Hj]|[Hj _]]; [|lia].
  repeat split; auto.
  intros k e0 Hk Hn; eapply Hall; eauto using nth_snoc_old.
Qed.

Lemma completed_bound (h : history Sp) i j r : completed h i j r -> i < j < length h.
Proof.
  intros (t & o & Hi & Hj & Hlt & Hall). split; auto. apply nth_error_Some; congruence.
Qed.

(** [last_inv h t i o]: the last event of thread [t] in [h] is the invocation of [o], at position [i]. *)
Definition last_inv (h : history Sp) (t i : nat) (o : Op Sp) : Prop :=
  nth_error h i = Some (HInv t o) /\
  forall k e, i < k -> nth_error h k = Some e -> tid_of e <> t.

Lemma last_inv_snoc (h : history Sp) e t i o :
  last_inv h t i o -> tid_of e <> t -> last_inv (h ++ [e]) t i o.
Proof.
  intros [Hi Hall] Hne; split; auto using nth_snoc_old.
  intros k e0 Hk Hn. apply nth_snoc_inv in Hn; destruct Hn as [[_ Hn]|[_ ->]]; eauto.
Qed.

Lemma last_inv_new (h : history Sp) t o : last_inv (h ++ [HInv t o]) t (length h) o.
Proof.
  split; [apply nth_error_mid|].
  intros k e Hk Hn. apply nth_snoc_inv in Hn; lia.
Qed.

Lemma last_inv_tid (h : history Sp) t u i o o' :
  last_inv h t i o -> last_inv h u i o' -> t = u.
Proof. intros [H1 _] [H2 _]; congruence. Qed.

Lemma NoDup_snoc {A} (l : list A) x : NoDup l -> ~ In x l -> NoDup (l ++ [x]).
Proof.
  induction l as [|a l IH]; simpl; intros ND Hn.
  - constructor; auto; constructor.
  - inversion ND as [|? ? Ha ND']; subst. constructor; auto.
    rewrite in_app_iff; simpl. intros [H|[H|[]]]; auto.
Qed.

(** The invariant relating a valid annotated trace, the configuration it reaches, and
    the linearization built from its linearization points (in their order). *)
Record lp_inv (tr : list (aev Sp)) (c : config Sp) (lin : list (lop Sp)) : Prop := {
  li_lin : linearization Sp (erase tr) lin;
  li_state : fst c = final (sinit Sp) (seq_of lin);
  li_pending : forall t o, snd c t = Pending o ->
      exists i, last_inv (erase tr) t i o /\ ~ In i (map l_inv lin);
  li_linearized : forall t o r, snd c t = Linearized o r ->
      exists i, last_inv (erase tr) t i o /\
                exists a, In a lin /\ l_inv a = i /\ l_res a = r
}.
Arguments li_lin {tr c lin} _.
Arguments li_state {tr c lin} _.
Arguments li_pending {tr c lin} _ t {o} _.
Arguments li_linearized {tr c lin} _ t {o r} _.

Lemma lp_inv_init : lp_inv [] lp_init [].
Proof.
  constructor; simpl; try discriminate; auto.
  constructor; simpl; auto; try easy; try constructor.
  - intros i j r (t & o & Hi & _); destruct i; discriminate.
Qed.

Lemma upd_same (st : nat -> status Sp) t x : upd st t x t = x.
Proof. unfold upd; now rewrite Nat.eqb_refl. Qed.

Lemma upd_other (st : nat -> status Sp) t x u : u <> t -> upd st t x u = st u.
Proof. unfold upd; intros H; apply Nat.eqb_neq in H; now rewrite H. Qed.

Lemma lp_inv_step tr c lin e c' :
  lp_inv tr c lin -> lp_step c e = Some c' -> exists lin', lp_inv (tr ++ [e]) c' lin'.
Proof.
  intros I Hstep. destruct c as [s st]. pose proof (li_lin I) as L.
  set (h := erase tr) in *.
  assert (Hbound : forall a, In a lin -> l_inv a < length h).
  { intros a Ha. apply nth_error_Some. rewrite (lin_ops L a Ha); discriminate. }
  destruct e as [t o|t|t r]; simpl in Hstep.
  - (* invocation *)
    destruct (st t) eqn:Et; try discriminate. injection Hstep as <-.
    exists lin.
    assert (Hc : forall i j r, completed (h ++ [HInv t o]) i j r -> completed h i j r).
    { intros i j r C. apply completed_snoc_inv with (e := HInv t o); auto.
      pose proof C as (t' & o' & _ & Hj & _).
      apply nth_snoc_inv in Hj; destruct Hj as [[Hj _]|[_ Hj]]; [auto|discriminate]. }
    constructor; rewrite ?erase_app; simpl; fold h.
    + constructor.
      * intros a Ha; apply nth_snoc_old, (lin_ops L a Ha).
      * apply (lin_nodup L).
      * intros i j r C; apply (lin_complete L (Hc _ _ _ C)).
      * apply (lin_legal L).
      * intros i j r b C; apply (lin_realtime L b (Hc _ _ _ C)).
    + apply (li_state I).
    + intros u o' Hu. destruct (Nat.eq_dec u t) as [->|Hne].
      * rewrite upd_same in Hu; injection Hu as <-.
        exists (length h); split; [apply last_inv_new|].
        intros Hin; apply in_map_iff in Hin; destruct Hin as (a & E & Ha).
        apply Hbound in Ha; lia.
      * rewrite upd_other in Hu by auto.
        destruct (li_pending I u Hu) as (i & Hl & Hn). exists i; split; auto.
        apply last_inv_snoc; auto.
    + intros u o' r Hu. destruct (Nat.eq_dec u t) as [->|Hne].
      * rewrite upd_same in Hu; discriminate.
      * rewrite upd_other in Hu by auto.
        destruct (li_linearized I u Hu) as (i & Hl & Ha). exists i; split; auto.
        apply last_inv_snoc; auto.
  - (* linearization point *)
    destruct (st t) as [|o|] eqn:Et; try discriminate. injection Hstep as <-.
    destruct (li_pending I t Et) as (i & Hl & Hfresh). fold h in Hl.
    set (r := snd (sstep Sp s o)).
    set (a := {| l_inv := i; l_tid := t; l_op := o; l_res := r |}).
    exists (lin ++ [a]).
    pose proof (li_state I) as Hs; simpl in Hs.
    constructor; rewrite ?erase_app; simpl; rewrite ?app_nil_r; fold h.
    + constructor.
      * intros b Hb; apply in_app_or in Hb; destruct Hb as [Hb|[<-|[]]].
        -- apply (lin_ops L b Hb).
        -- apply Hl.
      * rewrite map_app; simpl. apply NoDup_snoc; auto. apply (lin_nodup L).
      * intros i0 j r0 C. destruct (lin_complete L C) as (b & Hb & E).
        exists b; split; auto. apply in_or_app; auto.
      * rewrite map_app, legal_app; split; [apply (lin_legal L)|].
        simpl. rewrite <- Hs. auto.
      * intros i0 j r0 b C Hb Hlt. rewrite map_app; simpl.
        apply in_app_or in Hb; destruct Hb as [Hb|[<-|[]]].
        -- apply precedes_app_l. eapply (lin_realtime L); eauto.
        -- simpl. apply precedes_last.
           destruct (lin_complete L C) as (b & Hb & E & _).
           rewrite <- E; now apply in_map.
    + rewrite map_app, final_app; simpl. now rewrite <- Hs.
    + intros u o' Hu. destruct (Nat.eq_dec u t) as [->|Hne].
      * rewrite upd_same in Hu; discriminate.
      * rewrite upd_other in Hu by auto.
        destruct (li_pending I u Hu) as (i' & Hl' & Hn). exists i'; split; auto.
        rewrite map_app, in_app_iff; simpl. intros [Hin|[<-|[]]]; auto.
        apply Hne. eapply last_inv_tid; eauto.
    + intros u o' r' Hu. destruct (Nat.eq_dec u t) as [->|Hne].
      * rewrite upd_same in Hu; injection Hu as <- <-.
        exists i; split; auto. exists a; split; auto. apply in_or_app; simpl; auto.
      * rewrite upd_other in Hu by auto.
        destruct (li_linearized I u Hu) as (i' & Hl' & b & Hb & E). exists i'; split; auto.
        exists b; split; auto. apply in_or_app; auto.
  - (* response *)
    destruct (st t) as [| |o r'] eqn:Et; try discriminate.
    destruct (res_eqb Sp r r') eqn:Er; try discriminate. injection Hstep as <-.
    apply res_eqb_spec in Er; subst r'.
    destruct (li_linearized I t Et) as (i & Hl & a & Ha & Eai & Ear). fold h in Hl.
    exists lin.
    constructor; rewrite ?erase_app; simpl; fold h.
    + constructor.
      * intros b Hb; apply nth_snoc_old, (lin_ops L b Hb).
      * apply (lin_nodup L).
      * intros i0 j r0 C.
        destruct (completed_bound _ _ _ _ C) as [Hij Hj]. rewrite snoc_length in Hj.
        destruct (Nat.eq_dec j (length h)) as [->|Hne].
        -- pose proof C as (t' & o' & Hi0 & Hj0 & _ & Hall).
           rewrite nth_error_mid in Hj0; injection Hj0 as <- <-.
           destruct Hl as [Hi Hlast].
           apply nth_snoc_inv in Hi0; destruct Hi0 as [[Hi0' Hi0]|[? _]]; [|lia].
           assert (i0 = i).
           { destruct (lt_eq_lt_dec i0 i) as [[Hlt|]|Hgt]; auto; exfalso.
             - apply (Hall i (HInv t o)); auto using nth_snoc_old.
               split; auto. apply nth_error_Some; congruence.
             - apply (Hlast i0 (HInv t o')); auto. }
           subst i0. exists a; auto.
        -- apply (lin_complete L (i:=i0) (j:=j) (r:=r0)).
           apply completed_snoc_inv with (e := HRes t r); auto; lia.
      * apply (lin_legal L).
      * intros i0 j r0 b C Hb Hlt. pose proof (Hbound b Hb).
        apply (lin_realtime L) with (j := j) (r := r0); auto.
        apply completed_snoc_inv with (e := HRes t r); auto; lia.
    + apply (li_state I).
    + intros u o' Hu. destruct (Nat.eq_dec u t) as [->|Hne].
      * rewrite upd_same in Hu; discriminate.
      * rewrite upd_other in Hu by auto.
        destruct (li_pending I u Hu) as (i' & Hl' & Hn). exists i'; split; auto.
        apply last_inv_snoc; auto.
    + intros u o' r' Hu. destruct (Nat.eq_dec u t) as [->|Hne].
      * rewrite upd_same in Hu; discriminate.
      * rewrite upd_other in Hu by auto.
        destruct (li_linearized I u Hu) as (i' & Hl' & Hb). exists i'; split; auto.
        apply last_inv_snoc; auto.
Qed.

Lemma lp_run_inv : forall tr c, lp_run lp_init tr = Some c -> exists lin, lp_inv tr c lin.
Proof.
  induction tr as [|e tr IH] using rev_ind; intros c H.
  - simpl in H; injection H as <-. exists []; apply lp_inv_init.
  - rewrite lp_run_app in H.
    destruct (lp_run lp_init tr) as [c0|] eqn:E; [|discriminate].
    destruct (IH c0 eq_refl) as (lin & I). simpl in H.
    destruct (lp_step c0 e) as [c1|] eqn:E1; [|discriminate]. injection H as <-.
    eapply lp_inv_step; eauto.
Qed.

Theorem lp_valid_linearizable (tr : list (aev Sp)) :
  lp_valid Sp tr -> linearizable Sp (erase tr).
Proof.
  intros (c & H). destruct (lp_run_inv tr c H) as (lin & I).
  exists lin; apply (li_lin I).
Qed.

(** The result recorded in the trace is the one the specification gave at the
    linearization point, and the history of a valid trace is well formed. *)

Definition busy (x : status Sp) : bool := match x with Idle => false | _ => true end.

Lemma lp_run_wfb : forall tr (c c' : config Sp) open,
  lp_run c tr = Some c' ->
  (forall t, mem_tid t open = busy (snd c t)) ->
  wfb open (erase tr) = true.
Proof.
  induction tr as [|e tr IH]; intros [s st] c' open H Hopen; simpl in *; auto.
  destruct e as [t o|t|t r]; simpl in H.
  - destruct (st t) eqn:Et; try discriminate.
    simpl; rewrite Hopen, Et; simpl.
    eapply IH; eauto. intros u; unfold mem_tid; simpl.
    destruct (Nat.eq_dec u t) as [->|Hne].
    + now rewrite upd_same, Nat.eqb_refl.
    + rewrite upd_other by auto. apply Nat.eqb_neq in Hne; rewrite Hne; apply Hopen.
  - destruct (st t) eqn:Et; try discriminate.
    eapply IH; eauto. intros u; simpl.
    destruct (Nat.eq_dec u t) as [->|Hne].
    + now rewrite upd_same, Hopen, Et.
    + rewrite upd_other by auto. apply Hopen.
  - destruct (st t) eqn:Et; try discriminate.
    destruct (res_eqb Sp r r0); try discriminate.
    simpl; rewrite Hopen, Et; simpl.
    eapply IH; eauto. intros u; simpl; rewrite mem_del.
    destruct (Nat.eq_dec u t) as [->|Hne].
    + now rewrite upd_same, Nat.eqb_refl.
    + rewrite upd_other by auto. apply Nat.eqb_neq in Hne; rewrite Hne; apply Hopen.
Qed.

Theorem lp_valid_wf (tr : list (aev Sp)) : lp_valid Sp tr -> wf_history (erase tr).
Proof.
  intros (c & H). apply wf_historyb_spec. eapply lp_run_wfb; eauto.
Qed.

Theorem lp_validb_spec (tr : list (aev Sp)) : lp_validb Sp tr = true <-> lp_valid Sp tr.
Proof.
  unfold lp_validb, lp_valid. destruct (lp_run lp_init tr) as [c|].
  - split; eauto.
  - split; [discriminate|]. intros (c & H); discriminate.
Qed.

(** Consequently the checker accepts the history of every valid annotated trace. *)
Corollary lp_valid_lincheck (tr : list (aev Sp)) :
  lp_valid Sp tr -> lincheck Sp (erase tr) = true.
Proof.
  intros H. apply lincheck_complete; [now apply lp_valid_wf|now apply lp_valid_linearizable].
Qed.

End Proofs.

(** ** The memoised search computes the same verdict *)

Section MemoProofs.
Context {Sp : Spec} (st_eqb : St Sp -> St Sp -> bool) (st_hash : St Sp -> positive).
Context (st_eqb_sound : forall a b, st_eqb a b = true -> a = b).
(** [U]: the operations of the history; every [todo] met by the search is a sublist of it. *)
Context (U : list (oper Sp)) (U_nodup : NoDup (map o_inv U)).

Definition dead (todo : list (oper Sp)) (s : St Sp) : Prop :=
  forall fuel, search fuel todo s = false.

Definition good (todo : list (oper Sp)) : Prop :=
  incl todo U /\ NoDup (map o_inv todo).

(** every entry of the trie satisfies [P] *)
Fixpoint call (P : @entry Sp -> Prop) (c : @cache Sp) : Prop :=
  match c with
  | CLeaf => True
  | CNode l es r => call P l /\ (forall e, In e es -> P e) /\ call P r
  end.

Lemma call_find (P : @entry Sp -> Prop) : forall p c e, call P c -> In e (cfind p c) -> P e.
Proof.
  induction p as [p IH|p IH|]; intros [|l es r] e H Hin; simpl in *; try easy;
    destruct H as (Hl & Hes & Hr); eauto.
Qed.

Lemma call_add (P : @entry Sp -> Prop) e : P e -> forall p c, call P c -> call P (cadd p e c).
Proof.
  intros He. induction p as [p IH|p IH|]; intros [|l es r] H; simpl in *;
    try destruct H as (Hl & Hes & Hr); repeat split; auto; try easy.
  - intros e' [<-|[]]; auto.
  - intros e' [<-|Hin]; auto.
Qed.

(** every cache entry is a dead end *)
Definition entry_dead (e : @entry Sp) : Prop :=
  forall todo, good todo -> map o_inv todo = fst e -> dead todo (snd e).

Definition cache_ok (c : @cache Sp) : Prop := call entry_dead c.

Lemma nats_eqb_eq : forall a b, nats_eqb a b = true -> a = b.
Proof.
  induction a as [|x a IH]; destruct b as [|y b]; simpl; try discriminate; auto.
  intros H; apply andb_true_iff in H; destruct H as [H1 H2].
  apply Nat.eqb_eq in H1; apply IH in H2; congruence.
Qed.

Lemma key_inj : forall t1 t2 : list (oper Sp),
  incl t1 U -> incl t2 U -> map o_inv t1 = map o_inv t2 -> t1 = t2.
Proof.
  induction t1 as [|x t1 IH]; destruct t2 as [|y t2]; simpl; intros I1 I2 E;
    try discriminate; auto.
  injection E as E1 E2.
  assert (x = y).
  { apply (NoDup_map_inj o_inv U); auto; [apply I1|apply I2]; left; auto. }
  subst; f_equal. apply IH; auto; intros z Hz; [apply I1|apply I2]; right; auto.
Qed.

Lemma good_drop a todo : good todo -> good (drop_op a todo).
Proof.
  intros [I N]; split.
  - intros x Hx; apply In_drop_op in Hx; apply I; tauto.
  - apply NoDup_map_filter; auto.
Qed.

Lemma dead_of_false todo s f :
  NoDup (map o_inv todo) -> length todo <= f -> search f todo s = false -> dead todo s.
Proof.
  intros N L H f'. destruct (search f' todo s) eqn:E; auto.
  apply search_sound in E; auto. destruct E as (lin & O).
  rewrite (search_complete lin f todo s O L) in H. discriminate.
Qed.

Lemma cached_dead p s c todo :
  cache_ok c -> good todo -> cached st_eqb p (map o_inv todo) s c = true -> dead todo s.
Proof.
  intros C G H. unfold cached in H. apply existsb_exists in H.
  destruct H as ([k' s'] & Hin & H); simpl in H.
  apply andb_true_iff in H; destruct H as [H1 H2].
  apply nats_eqb_eq in H1; apply st_eqb_sound in H2; subst.
  apply (call_find _ _ _ _ C Hin); auto.
Qed.

Definition rec_ok (f : nat) : Prop :=
  forall todo s c, good todo -> length todo <= f -> cache_ok c ->
    cache_ok (snd (msearch st_eqb st_hash f todo s c)) /\
    fst (msearch st_eqb st_hash f todo s c) = search f todo s.

Lemma try_all_spec f todo s :
  rec_ok f -> good todo -> length todo <= S f ->
  forall cands c, incl cands todo -> cache_ok c ->
    cache_ok (snd (try_all (msearch st_eqb st_hash f) todo s cands c)) /\
    fst (try_all (msearch st_eqb st_hash f) todo s cands c) =
    existsb (fun a => minimal todo a &&
                      let (s', r) := sstep Sp s (o_op a) in
                      result_ok a r && search f (drop_op a todo) s') cands.
Proof.
  intros R G L. induction cands as [|a cands IH]; intros c I C; simpl; auto.
  assert (Ha : In a todo) by (apply I; left; auto).
  assert (I' : incl cands todo) by (intros x Hx; apply I; right; auto).
  destruct (sstep Sp s (o_op a)) as [s' r].
  destruct (minimal todo a); simpl; [|apply IH; auto].
  destruct (result_ok a r); simpl; [|apply IH; auto].
  destruct (R (drop_op a todo) s' c) as [C' E]; auto using good_drop.
  { pose proof (drop_op_length a todo Ha); lia. }
  destruct (msearch st_eqb st_hash f (drop_op a todo) s' c) as [b c']; simpl in *. subst b.
  destruct (search f (drop_op a todo) s'); simpl; auto.
Qed.

Lemma msearch_spec : forall f, rec_ok f.
Proof.
  induction f as [|f IH]; intros todo s c G L C; simpl.
  - destruct (forallb is_open todo); simpl; auto.
  - destruct (forallb is_open todo) eqn:Eo; simpl; auto.
    destruct (cached st_eqb (hash_entry st_hash (map o_inv todo) s) (map o_inv todo) s c) eqn:Ec;
      simpl.
    + split; auto.
      pose proof (cached_dead _ _ _ _ C G Ec (S f)) as D.
      simpl in D; rewrite Eo in D; simpl in D; auto.
    + destruct (try_all_spec f todo s IH G L todo c (incl_refl _) C) as [C' E].
      destruct (try_all (msearch st_eqb st_hash f) todo s todo c) as [b c']; simpl in *.
      rewrite <- E. destruct b; simpl; split; auto.
      apply call_add; auto.
      intros todo' G' Ek; simpl in *.
      assert (todo' = todo) by (apply key_inj; auto; [apply G'|apply G]). subst todo'.
      apply dead_of_false with (f := S f); auto; [apply G|].
      simpl; rewrite Eo; simpl; auto.
Qed.

End MemoProofs.

Theorem lincheck_memo_eq {Sp : Spec} (st_eqb : St Sp -> St Sp -> bool)
    (st_hash : St Sp -> positive) (h : history Sp) :
  (forall a b, st_eqb a b = true -> a = b) ->
  lincheck_memo Sp st_eqb st_hash h = lincheck Sp h.
Proof.
  intros Hs. unfold lincheck_memo, lincheck. f_equal.
  destruct (msearch_spec st_eqb st_hash Hs (ops_of h) (ops_from_nodup h 0)
              (length h) (ops_of h) (sinit Sp) CLeaf) as [_ E]; auto.
  - split; [apply incl_refl|apply ops_from_nodup].
  - apply ops_from_length.
  - exact I.
Qed.

(** ** Corollaries for FIFO queues

    In the words of the property: "no item is invented" and "each enqueued item is
    dequeued at most once" (the third clause, "dequeue reports empty only if the queue was
    empty at some instant during the call", is [fifo_empty_was_empty]). *)

Section FifoFacts.
Local Open Scope Z_scope.

(** [v] is the argument of some enqueue invoked in [h]. *)
Definition enqueued (h : history Fifo) (v : Z) : Prop :=
  exists i t, nth_error h i = Some (@HInv Fifo t (Enq v)).

(** the dequeue invoked at position [i] of [h] returned [r] *)
Definition deq_returns (h : history Fifo) (i : nat) (r : option Z) : Prop :=
  exists t j, nth_error h i = Some (@HInv Fifo t Deq) /\ completed h i j (RVal r).

(** all enqueue invocations of [h] carry different values *)
Definition distinct_enqueues (h : history Fifo) : Prop :=
  forall i1 i2 t1 t2 v,
    nth_error h i1 = Some (@HInv Fifo t1 (Enq v)) ->
    nth_error h i2 = Some (@HInv Fifo t2 (Enq v)) -> i1 = i2.

Fixpoint enq_vals (l : list (qop * res)) : list Z :=
  match l with
  | [] => []
  | (Enq v, _) :: l' => v :: enq_vals l'
  | _ :: l' => enq_vals l'
  end.

Fixpoint deq_vals (l : list (qop * res)) : list Z :=
  match l with
  | [] => []
  | (Deq, RVal (Some v)) :: l' => v :: deq_vals l'
  | _ :: l' => deq_vals l'
  end.

(** Sequential FIFO facts: whatever is dequeued was in the queue or enqueued, and if those
    are pairwise distinct nothing is dequeued twice. *)
Lemma fifo_seq : forall l q,
  @legal Fifo q l ->
  (forall v, In v (deq_vals l) -> In v (q ++ enq_vals l)) /\
  (NoDup (q ++ enq_vals l) -> NoDup (deq_vals l)).
Proof.
  induction l as [|[[x|] r] l IH]; intros q Hl; simpl in Hl.
  - simpl; split; [easy|constructor].
  - destruct Hl as [_ Hl]. apply IH in Hl; destruct Hl as [H1 H2].
    rewrite <- app_assoc in H1, H2; simpl in *. auto.
  - destruct q as [|y q]; simpl in Hl; destruct Hl as [<- Hl];
      apply IH in Hl; destruct Hl as [H1 H2]; simpl in *; auto.
    split.
    + intros v [->|Hv]; auto.
    + intros ND; inversion ND as [|? ? Hn ND']; subst. constructor; auto.
Qed.

Notation fseq lin := (map (fun a : lop Fifo => (l_op a, l_res a)) lin).

Lemma in_enq_vals (lin : list (lop Fifo)) v :
  In v (enq_vals (fseq lin)) -> exists a, In a lin /\ l_op a = Enq v.
Proof.
  induction lin as [|a lin IH]; simpl; [easy|].
  destruct (l_op a) as [x|] eqn:E; simpl.
  - intros [<-|H]; [exists a; auto|]. destruct (IH H) as (b & Hb & Eb); exists b; auto.
  - intros H. destruct (IH H) as (b & Hb & Eb); exists b; auto.
Qed.

Lemma in_deq_vals lin (a : lop Fifo) v :
  In a lin -> l_op a = Deq -> l_res a = RVal (Some v) -> In v (deq_vals (fseq lin)).
Proof.
  induction lin as [|b lin IH]; simpl; [easy|].
  intros [->|Ha] Eo Er.
  - rewrite Eo, Er; simpl; auto.
  - specialize (IH Ha Eo Er). destruct (l_op b); auto. destruct (l_res b) as [| |[w|]|]; simpl; auto.
Qed.

Lemma deq_vals_tail (b : lop Fifo) lin :
  NoDup (deq_vals (fseq (b :: lin))) -> NoDup (deq_vals (fseq lin)).
Proof.
  simpl. destruct (l_op b); auto. destruct (l_res b) as [| |[w|]|]; auto.
  intros ND; now inversion ND.
Qed.

Lemma deq_vals_unique lin : forall (a1 a2 : lop Fifo) v,
  In a1 lin -> In a2 lin ->
  l_op a1 = Deq -> l_res a1 = RVal (Some v) ->
  l_op a2 = Deq -> l_res a2 = RVal (Some v) ->
  NoDup (deq_vals (fseq lin)) -> a1 = a2.
Proof.
  induction lin as [|b lin IH]; intros a1 a2 v H1 H2 O1 R1 O2 R2 ND; [easy|].
  destruct H1 as [->|H1], H2 as [->|H2]; auto.
  - exfalso. simpl in ND; rewrite O1, R1 in ND. inversion ND as [|? ? Hn _]; subst.
    apply Hn. eapply in_deq_vals; eauto.
  - exfalso. simpl in ND; rewrite O2, R2 in ND. inversion ND as [|? ? Hn _]; subst.
    apply Hn. eapply in_deq_vals; eauto.
  - apply deq_vals_tail in ND. eapply IH; eauto.
Qed.

Lemma enq_vals_nodup (lin : list (lop Fifo)) :
  (forall a1 a2 v, In a1 lin -> In a2 lin -> l_op a1 = Enq v -> l_op a2 = Enq v ->
                   l_inv a1 = l_inv a2) ->
  NoDup (map l_inv lin) -> NoDup (enq_vals (fseq lin)).
Proof.
  induction lin as [|a lin IH]; simpl; intros D ND; [constructor|].
  inversion ND as [|? ? Hn ND']; subst.
  assert (IH' : NoDup (enq_vals (fseq lin)))
    by (apply IH; [intros a1 a2 v H1 H2; apply D; auto|auto]).
  destruct (l_op a) as [x|] eqn:E; auto.
  constructor; auto.
  intros Hin; apply in_enq_vals in Hin; destruct Hin as (b & Hb & Eb).
  apply Hn. rewrite (D a b x); auto. now apply in_map.
Qed.

(** From a dequeue of [h] to its entry in a linearization. *)
Lemma deq_in_lin h lin i r :
  linearization Fifo h lin -> deq_returns h i r ->
  exists a, In a lin /\ l_inv a = i /\ l_op a = Deq /\ l_res a = RVal r.
Proof.
  intros L (t & j & Hi & C).
  destruct (lin_complete L C) as (a & Ha & Ei & Er).
  exists a; repeat split; auto.
  pose proof (lin_ops L a Ha) as Hn. rewrite Ei, Hi in Hn. congruence.
Qed.

Theorem fifo_no_invention (h : history Fifo) :
  linearizable Fifo h ->
  forall i v, deq_returns h i (Some v) -> enqueued h v.
Proof.
  intros (lin & L) i v D.
  destruct (deq_in_lin _ _ _ _ L D) as (a & Ha & _ & Eo & Er).
  destruct (fifo_seq (fseq lin) [] (lin_legal L)) as [H _].
  specialize (H v (in_deq_vals lin a v Ha Eo Er)); simpl in H.
  apply in_enq_vals in H; destruct H as (b & Hb & Eb).
  exists (l_inv b), (l_tid b). rewrite <- Eb. apply (lin_ops L b Hb).
Qed.

Theorem fifo_at_most_once (h : history Fifo) :
  linearizable Fifo h -> distinct_enqueues h ->
  forall i1 i2 v, deq_returns h i1 (Some v) -> deq_returns h i2 (Some v) -> i1 = i2.
Proof.
  intros (lin & L) Dist i1 i2 v D1 D2.
  destruct (deq_in_lin _ _ _ _ L D1) as (a1 & Ha1 & E1 & Eo1 & Er1).
  destruct (deq_in_lin _ _ _ _ L D2) as (a2 & Ha2 & E2 & Eo2 & Er2).
  destruct (fifo_seq (fseq lin) [] (lin_legal L)) as [_ H]; simpl in H.
  assert (a1 = a2); [|congruence].
  apply (deq_vals_unique lin a1 a2 v); auto.
  apply H, enq_vals_nodup; [|apply (lin_nodup L)].
  intros b1 b2 x Hb1 Hb2 Eb1 Eb2.
  pose proof (lin_ops L b1 Hb1) as N1. pose proof (lin_ops L b2 Hb2) as N2.
  rewrite Eb1 in N1; rewrite Eb2 in N2. eapply Dist; eauto.
Qed.

(** "dequeue reports empty only if the queue was empty at some instant during the call":
    in the linearization the empty dequeue is applied to the empty queue; that instant
    lies within the call because the linearization respects real time. *)
Theorem fifo_empty_was_empty (h : history Fifo) lin i :
  linearization Fifo h lin -> deq_returns h i None ->
  exists l1 a l2, lin = l1 ++ a :: l2 /\ l_inv a = i /\ @final Fifo (sinit Fifo) (fseq l1) = [].
Proof.
  intros L D. destruct (deq_in_lin _ _ _ _ L D) as (a & Ha & Ei & Eo & Er).
  apply in_split in Ha; destruct Ha as (l1 & l2 & ->).
  exists l1, a, l2; repeat split; auto.
  pose proof (lin_legal L) as Hl. rewrite map_app in Hl. apply legal_app in Hl.
  destruct Hl as [_ Hl].
  remember (@final Fifo (sinit Fifo) (fseq l1)) as q eqn:Eq. clear Eq.
  simpl in Hl. rewrite Eo, Er in Hl. destruct Hl as [Hl _].
  destruct q; simpl in Hl; auto; discriminate.
Qed.

End FifoFacts.

(** ** Examples (also the non-vacuity witnesses of the theorems above) *)

Section Examples.
Local Open Scope Z_scope.
Let inv := @HInv Fifo.
Let ret := @HRes Fifo.

(** Sequential enq 1; enq 2; then a dequeue returns 2: not FIFO. *)
Definition h_bad : history Fifo :=
  [inv 0%nat (Enq 1); ret 0%nat (RBool true);
   inv 1%nat (Enq 2); ret 1%nat (RBool true);
   inv 0%nat Deq;     ret 0%nat (RVal (Some 2))].

(** The two enqueues overlap, so either order is possible; the overlapping dequeues see 2 then 1. *)
Definition h_good : history Fifo :=
  [inv 0%nat (Enq 1); inv 1%nat (Enq 2); ret 0%nat (RBool true); ret 1%nat (RBool true);
   inv 0%nat Deq; inv 1%nat Deq; ret 0%nat (RVal (Some 2)); ret 1%nat (RVal (Some 1))].

Example lincheck_bad : lincheck Fifo h_bad = false.
Proof. vm_compute. reflexivity. Qed.

Example lincheck_good : lincheck Fifo h_good = true.
Proof. vm_compute. reflexivity. Qed.

Example h_bad_wf : wf_history h_bad.
Proof. apply wf_historyb_spec. vm_compute. reflexivity. Qed.

(** By completeness, the [false] verdict is a proof of non-linearizability. *)
Example h_bad_not_linearizable : ~ linearizable Fifo h_bad.
Proof.
  intros L. apply (lincheck_complete h_bad h_bad_wf) in L.
  rewrite lincheck_bad in L. discriminate.
Qed.

Example h_good_linearizable : wf_history h_good /\ linearizable Fifo h_good.
Proof. apply lincheck_iff. exact lincheck_good. Qed.

Example h_good_distinct : distinct_enqueues h_good.
Proof.
  intros i1 i2 t1 t2 v H1 H2. unfold h_good, inv, ret in *.
  destruct i1 as [|[|[|[|[|[|[|[|i1]]]]]]]]; simpl in H1; try discriminate;
    try (destruct i1; discriminate);
  destruct i2 as [|[|[|[|[|[|[|[|i2]]]]]]]]; simpl in H2; try discriminate;
    try (destruct i2; discriminate);
  congruence.
Qed.

Example h_good_deq : deq_returns h_good 4 (Some 2).
Proof.
  exists 0%nat, 6%nat. split; [reflexivity|].
  exists 0%nat, Deq. repeat split; auto.
  intros k e Hk Hn. assert (k = 5%nat) by lia; subst k.
  injection Hn as <-. discriminate.
Qed.

(** An annotated trace of the same history: both enqueues and dequeues overlap, the
    linearization points put enq 2 before enq 1. *)
Definition tr_good : list (aev Fifo) :=
  [@AInv Fifo 0%nat (Enq 1); @AInv Fifo 1%nat (Enq 2); @ALin Fifo 1%nat; @ALin Fifo 0%nat;
   @ARes Fifo 0%nat (RBool true); @ARes Fifo 1%nat (RBool true);
   @AInv Fifo 0%nat Deq; @AInv Fifo 1%nat Deq; @ALin Fifo 0%nat; @ARes Fifo 0%nat (RVal (Some 2));
   @ALin Fifo 1%nat; @ARes Fifo 1%nat (RVal (Some 1))].

Example lincheck_memo_agrees :
  lincheck_memo Fifo zlist_eqb zlist_hash h_bad = false /\
  lincheck_memo Fifo zlist_eqb zlist_hash h_good = true.
Proof. split; vm_compute; reflexivity. Qed.

Example tr_good_valid : lp_valid Fifo tr_good /\ erase tr_good = h_good.
Proof. split; [apply lp_validb_spec; vm_compute|]; reflexivity. Qed.

End Examples.

(** ** Axiom audit *)

Print Assumptions lincheck_sound.
Print Assumptions lincheck_complete.
Print Assumptions lincheck_iff.
Print Assumptions lp_valid_linearizable.
Print Assumptions lp_valid_wf.
Print Assumptions wf_historyb_spec.
Print Assumptions search_fuel_enough.
Print Assumptions lincheck_memo_eq.
Print Assumptions fifo_no_invention.
Print Assumptions fifo_at_most_once.
Print Assumptions fifo_empty_was_empty.
Print Assumptions h_bad_not_linearizable.
