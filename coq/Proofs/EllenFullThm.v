(** * EllenFull (fork of EllenLin.v): the theorems for the FULL history, with stopped (out-of-fuel) threads:
      [ellen_full_linearizable], [ellen_full_abstraction], [ellen_full_bst], [ellen_full_descriptor_invariants],
      [ellen_run_case_full_linearizable]; hypothesis [~ bad (trace c)] instead of [~ exhausted (trace c)]. *)
From Coq Require Import ZArith List String Bool Lia PeanoNat.
From LV Require Import Base.Conc Base.Events Base.Lin Spec.Specs Proofs.LinProofs.
From LV Require Proofs.EllenLin.
From LV Require Import Model.Ellen Proofs.EllenProofs Proofs.EllenDelBase Proofs.EllenFullInv Proofs.EllenFullSteps Proofs.EllenFullCas
  Proofs.EllenFullOps Proofs.EllenFullProg.
Import ListNotations.
Local Open Scope Z_scope.

(** ** the pre-filled tree: the decidable check [init_check2] and the annotated trace of the pre-fill are those of EllenLin.v *)
Notation supp := EllenLin.supp.
Notation leaf_of := EllenLin.leaf_of.
Notation S0 := EllenLin.S0.
Notation init_check2 := EllenLin.init_check2.
Notation prefill_atr := EllenLin.prefill_atr.
Notation prefill_upd := EllenLin.prefill_upd.
Notation leaf_of_path := EllenLin.leaf_of_path.
Notation nodupb_NoDup := EllenLin.nodupb_NoDup.
Notation prefill_run := EllenLin.prefill_run.

Lemma prefill_erase keys : erase (prefill_atr keys) = prefill_history keys.
Proof.
  induction keys as [|k r IH]; [reflexivity|]. unfold prefill_atr, prefill_history in *. cbn [flat_map]. rewrite erase_app. cbn [erase app]. now rewrite IH.
Qed.


Opaque nodes_of bst_ok find_leaf.
Section Init.
Variable keys : list nat.
Hypothesis Hchk : init_check2 keys = true.
Definition ig : G := init keys.
Definition iL : list ptr := nodes_of 24 ig root.
Notation g := ig.
Notation L := iL.

Definition aux0 : daux :=
  mkDA (fun x => memb x L) (fun k n => path g k root n) (fun _ => False) (emp g)
       (fun u => mkDV [] (mkC None None [] (if Nat.eqb u 63 then 64%nat else 0%nat) (@Idle SetSpec) (count_inv u (prefill_atr keys), false))) (prefill_atr keys).

Lemma init_parts :
  init_check g = true /\
  (forall x, In x L -> snd (upd g x) = 0%nat /\ (fst (upd g x) <= emp g x)%nat) /\
  (forall x, In x (supp g_empty keys 0) -> In x L) /\ NoDup keys /\ (forall k, In k keys -> (k < 8)%nat) /\
  (forall k, (k < 8)%nat -> (zmem (Z.of_nat k) (S0 keys) = true <-> node_key g (leaf_of g (Z.of_nat k)) = Z.of_nat k) /\ ~ internal g (leaf_of g (Z.of_nat k))).
Proof.
  pose proof Hchk as C. unfold init_check2 in C. cbv zeta in C. change (init keys) with ig in C. change (nodes_of 24 ig root) with iL in C.
  do 5 (apply andb_true_iff in C; destruct C as [C ?]).
  split; [exact C|]. split; [|split; [|split; [|split]]].
  - intros x Hx. rewrite forallb_forall in H3. specialize (H3 x Hx). apply andb_true_iff in H3. destruct H3 as [A B].
    apply Nat.eqb_eq in A. apply Nat.leb_le in B. auto.
  - intros x Hx. rewrite forallb_forall in H2. apply memb_In. now apply H2.
  - now apply nodupb_NoDup.
  - intros k Hk. rewrite forallb_forall in H0. apply Nat.ltb_lt. now apply H0.
  - intros k Hk. rewrite forallb_forall in H. specialize (H k). rewrite in_seq in H. specialize (H ltac:(lia)).
    apply andb_true_iff in H. destruct H as [A B]. apply Bool.eqb_prop in A. apply negb_true_iff in B.
    split; [rewrite A; apply Z.eqb_eq|unfold internal; rewrite B; discriminate].
Qed.

Lemma init_upd_out x : ~ In x L -> upd g x = (0%nat, 0%nat) /\ emp g x = 0%nat.
Proof.
  intros N. destruct init_parts as (_ & _ & Hs & _). unfold ig, init. apply prefill_upd. intros X. apply N. now apply Hs.
Qed.

Lemma init_abs : abs g (S0 keys).
Proof.
  destruct init_parts as (Hc & _ & _ & _ & Hk8 & Hl). pose proof (EllenProofs.init_IS g Hc) as IS0. pose proof (s_T _ _ IS0) as HT.
  intros k. destruct (Z_lt_le_dec k 0) as [Hn|Hn]; [|destruct (Z_lt_le_dec k 8) as [Hlt|Hge]].
  - split; [|intros (X & _); lia]. intros X. exfalso. unfold S0, zmem in X. apply existsb_exists in X. destruct X as (y & Hy & E).
    apply Z.eqb_eq in E. subst y. apply in_rev, in_map_iff in Hy. destruct Hy as (n & E & _). lia.
  - destruct (Hl (Z.to_nat k) ltac:(lia)) as [A B]. rewrite Z2Nat.id in A, B by lia. rewrite A. pose proof (leaf_of_path g k) as P. split.
    + intros E. split; [lia|]. exists (leaf_of g k). split; [eapply path_insub; eauto|auto].
    + intros (_ & l & Hr & Hll & Hkey). assert (Pl : path g k root l) by (eapply T_search; eauto; lia).
      rewrite <- (leaf_unique g k root l (leaf_of g k) Pl P Hll B). exact Hkey.
  - split.
    + intros X. exfalso. unfold S0, zmem in X. apply existsb_exists in X. destruct X as (y & Hy & E).
      apply Z.eqb_eq in E. subst y. apply in_rev, in_map_iff in Hy. destruct Hy as (n & E & Hin). specialize (Hk8 n Hin). lia.
    + intros (Hr & l & _ & Hll & Hkey). exfalso. pose proof (lkey_lt l).
      destruct (Z.eq_dec (inf_of (flags g l)) 0) as [E|E].
      * rewrite node_key_fin in Hkey by exact E. unfold internal in Hll. destruct (is_internal_f (flags g l)); [now apply Hll|]. lia.
      * pose proof (node_key_inf _ _ E). lia.
Qed.

Lemma init_DS : DS g aux0.
Proof.
  destruct init_parts as (Hc & Hu & Hs & Hnd & Hk8 & Hl). pose proof (EllenProofs.init_IS g Hc) as IS0.
  assert (Hpub : forall x, dpub aux0 x = apub (EllenProofs.aux0 g) x) by reflexivity.
  assert (Hout : forall x, dpub aux0 x = false -> ~ In x L).
  { intros x Hx X. cbn [dpub aux0] in Hx. apply memb_In in X. congruence. }
  constructor; cbn [dever ddead dmax aux0].
  - apply (s_T _ _ IS0).
  - apply (s_root _ _ IS0).
  - apply (s_L _ _ IS0).
  - intros n d Hn. rewrite Hpub in Hn. now apply (s_noroot _ _ IS0).
  - intros n d Hn. rewrite Hpub in *. now apply (s_closed _ _ IS0).
  - apply (s_rootpub _ _ IS0).
  - apply (s_null _ _ IS0).
  - intros x Hx. now apply init_upd_out, Hout.
  - intros x. split; [|lia]. intros c E. destruct (in_dec Nat.eq_dec x L) as [Hin|Hin].
    + destruct (Hu x Hin) as [_ A]. rewrite E in A. exact A.
    + destruct (init_upd_out x Hin) as [A _]. rewrite A in E. inversion E. lia.
  - intros k n Hp. rewrite Hpub. eapply EllenProofs.insub_pub; [exact IS0|eapply path_insub; eauto].
  - intros k. constructor.
  - intros k n Hp Hi. now constructor.
  - auto.
  - intros n [].
  - intros t. unfold view. cbn [dviews aux0]. apply lv_ok_parts. cbn [wf wc]. split; [constructor|]. split; [exact Logic.I|]. split; [exact Logic.I|].
    split; [split; [constructor|split; constructor]|]. split.
    + intros n A B C. cbn [cser cleaf cni] in *. destruct (s_views _ _ IS0 t) as (_ & _ & _ & _ & F).
      destruct (F n A B C) as (X & _). split; [exact X|split; [discriminate|intros; discriminate]].
    + intros n A B C x Hx. exfalso. apply Hx. destruct (in_dec Nat.eq_dec x L) as [Hin|Hin]; [apply (Hu x Hin)|destruct (init_upd_out x Hin) as [E _]; now rewrite E].
Qed.

Lemma init_IL : IL keys g aux0 [].
Proof.
  destruct init_parts as (Hc & Hu & Hs & Hnd & Hk8 & Hl). constructor; cbn [datr aux0].
  - destruct (prefill_run keys [] (fun _ => @Idle SetSpec) (fun _ => eq_refl) Hnd (fun _ _ => eq_refl)) as (st' & E & Hi).
    exists (S0 keys), st'. rewrite app_nil_r in E. split; [exact E|]. split; [intros t; rewrite Hi; reflexivity|apply init_abs].
  - apply prefill_erase.
  - intros t. reflexivity.
  - intros t H. discriminate.
Qed.

Lemma init_cfg_ok fuel ths :
  Forall (Forall op_ok) ths -> (List.length ths <= 63)%nat ->
  @Conc.cfg_ok G V ev daux dview view (DInv keys) (init_cfg fuel keys ths).
Proof.
  intros Ho Hlen. exists aux0. split; [right; split; [apply init_DS|apply init_IL]|].
  intros t p Hp. unfold init_cfg in Hp. cbn [Conc.threads] in Hp. rewrite nth_error_map in Hp.
  destruct (nth_error (combine (seq 0 (List.length ths)) ths) t) as [[t' os]|] eqn:E; [|discriminate].
  injection Hp as <-. cbn [fst snd]. apply nth_error_combine in E. destruct E as [E1 E2].
  apply nth_error_seq0 in E1. destruct E1 as [-> Hlt].
  apply T_thread; [lia| | |].
  - apply nth_error_In in E2. rewrite Forall_forall in Ho. now apply Ho.
  - unfold view. cbn [dviews aux0 wc cser]. destruct (Nat.eqb_spec t 63); [lia|reflexivity].
  - reflexivity.
Qed.

End Init.
Transparent nodes_of bst_ok find_leaf.

(** * the theorems *)
(** [bad] needs an "outoffuel" event *)
Definition exhausted (tr : list (nat * ev)) : Prop := exists t, In (t, EvCli "outoffuel"%string []) tr.
Lemma bad_exhausted tr : bad tr -> exhausted tr.
Proof. intros (t & pre & post & e & E & _). exists t. subst tr. apply in_or_app. right. left. reflexivity. Qed.

Theorem ellen_full_invariant fuel keys ths c :
  init_check2 keys = true -> Forall (Forall op_ok) ths -> (List.length ths <= 63)%nat ->
  Conc.reach (init_cfg fuel keys ths) c -> ~ bad (Conc.trace c) ->
  exists a, DS (Conc.shared c) a /\ IL keys (Conc.shared c) a (Conc.trace c).
Proof.
  intros Hi Ho Hlen Hr Hne. destruct (Conc.reach_Inv (init_cfg_ok keys Hi fuel ths Ho Hlen) Hr) as (a & [Hex|[Hs Hl]]); [contradiction|eauto].
Qed.

(** at every reachable state — also in the middle of operations, also when threads have run out of fuel and stopped — the
    tree reachable from m_Root is a leaf-oriented BST *)
Theorem ellen_full_bst fuel keys ths c :
  init_check2 keys = true -> Forall (Forall op_ok) ths -> (List.length ths <= 63)%nat ->
  Conc.reach (init_cfg fuel keys ths) c -> ~ bad (Conc.trace c) ->
  T (Conc.shared c) root (-1) 1002.
Proof. intros Hi Ho Hlen Hr Hne. destruct (ellen_full_invariant fuel keys ths c Hi Ho Hlen Hr Hne) as (a & Hs & _). apply (d_T _ _ Hs). Qed.

Theorem ellen_full_no_duplicate_keys fuel keys ths c x y :
  init_check2 keys = true -> Forall (Forall op_ok) ths -> (List.length ths <= 63)%nat ->
  Conc.reach (init_cfg fuel keys ths) c -> ~ bad (Conc.trace c) ->
  insub (Conc.shared c) root x -> insub (Conc.shared c) root y ->
  ~ internal (Conc.shared c) x -> ~ internal (Conc.shared c) y -> node_key (Conc.shared c) x = node_key (Conc.shared c) y -> x = y.
Proof. intros Hi Ho Hlen Hr Hne. eapply T_leaves_distinct. eapply ellen_full_bst; eauto. Qed.

(** linearizability of the FULL history: contains, insert -> false, erase -> false included *)
Theorem ellen_full_linearizable fuel keys ths c :
  init_check2 keys = true -> Forall (Forall op_ok) ths -> (List.length ths <= 63)%nat ->
  Conc.reach (init_cfg fuel keys ths) c -> ~ bad (Conc.trace c) ->
  linearizable SetSpec (full_hist keys (Conc.trace c)).
Proof.
  intros Hi Ho Hlen Hr Hne. destruct (ellen_full_invariant fuel keys ths c Hi Ho Hlen Hr Hne) as (a & _ & Hil).
  destruct (l_run _ _ _ _ Hil) as (S & st & H1 & _). rewrite <- (l_hist _ _ _ _ Hil). apply lp_valid_linearizable. exists (S, st). exact H1.
Qed.

(** in particular under the restriction of the first development (no "outoffuel" event at all) *)
Corollary ellen_full_linearizable_no_outoffuel fuel keys ths c :
  init_check2 keys = true -> Forall (Forall op_ok) ths -> (List.length ths <= 63)%nat ->
  Conc.reach (init_cfg fuel keys ths) c -> ~ exhausted (Conc.trace c) ->
  linearizable SetSpec (full_hist keys (Conc.trace c)).
Proof. intros Hi Ho Hlen Hr Hne. apply (ellen_full_linearizable fuel keys ths c Hi Ho Hlen Hr). intros B. apply Hne. now apply bad_exhausted. Qed.

(** the abstract set of the LP-annotated trace of the full history is the set of keys of the leaves reachable from m_Root *)
Theorem ellen_full_abstraction fuel keys ths c :
  init_check2 keys = true -> Forall (Forall op_ok) ths -> (List.length ths <= 63)%nat ->
  Conc.reach (init_cfg fuel keys ths) c -> ~ bad (Conc.trace c) ->
  exists atr S st, lp_run lp_init atr = Some (S, st) /\ erase atr = full_hist keys (Conc.trace c) /\
    (forall k, zmem k S = true <-> mem (Conc.shared c) k).
Proof.
  intros Hi Ho Hlen Hr Hne. destruct (ellen_full_invariant fuel keys ths c Hi Ho Hlen Hr Hne) as (a & _ & Hil).
  destruct (l_run _ _ _ _ Hil) as (S & st & H1 & _ & H3). exists (datr a), S, st. split; [exact H1|]. split; [apply (l_hist _ _ _ _ Hil)|exact H3].
Qed.

(** the search-path invariants, also across out-of-fuel *)
Theorem ellen_full_descriptor_invariants fuel keys ths c :
  init_check2 keys = true -> Forall (Forall op_ok) ths -> (List.length ths <= 63)%nat ->
  Conc.reach (init_cfg fuel keys ths) c -> ~ bad (Conc.trace c) ->
  exists (ever : Z -> ptr -> Prop) (dead : ptr -> Prop),
    (forall k, ever k root) /\
    (forall k n, ever k n -> internal (Conc.shared c) n -> ever k (child (Conc.shared c) n (dirk (Conc.shared c) k n))) /\
    (forall k n, ever k n -> internal (Conc.shared c) n -> ~ dead n -> path (Conc.shared c) k root n) /\
    (forall n, dead n -> snd (upd (Conc.shared c) n) = 3%nat /\ ~ insub (Conc.shared c) root n).
Proof.
  intros Hi Ho Hlen Hr Hne. destruct (ellen_full_invariant fuel keys ths c Hi Ho Hlen Hr Hne) as (a & Hs & _).
  exists (dever a), (ddead a). split; [apply (d_evroot _ _ Hs)|]. split; [apply (d_evchild _ _ Hs)|].
  split; [apply (d_evpath _ _ Hs)|]. intros n Dn. destruct (d_dead _ _ Hs n Dn) as (_ & A & B). auto.
Qed.

(** every pre-filled tree of the correspondence runs passes the initial check *)
Lemma init_check2_prefills : forallb (fun m => init_check2 (prefill_keys [Z.of_nat m])) (seq 0 16) = true.
Proof. vm_compute. reflexivity. Qed.

(** ** the runs executed by the step-correspondence check ([Ellen.run_case]) *)
Definition exhaustedb (tr : list (nat * ev)) : bool :=
  existsb (fun e => match snd e with EvCli name [] => String.eqb name "outoffuel"%string | _ => false end) tr.
Lemma exhaustedb_false tr : exhaustedb tr = false -> ~ bad tr.
Proof.
  intros H B. apply bad_exhausted in B. destruct B as (t & Hin). assert (exhaustedb tr = true); [|congruence]. unfold exhaustedb. apply existsb_exists.
  exists (t, EvCli "outoffuel"%string []). split; [exact Hin|reflexivity].
Qed.

(** decidable form of [~ bad]: no event of a thread after its "outoffuel" event *)
Fixpoint badb (tr : list (nat * ev)) : bool :=
  match tr with
  | [] => false
  | (t, e) :: r =>
      (match e with EvCli name [] => String.eqb name "outoffuel"%string | _ => false end && existsb (fun x => Nat.eqb (fst x) t) r) || badb r
  end.
Lemma badb_false : forall tr, badb tr = false -> ~ bad tr.
Proof.
  induction tr as [|[u e0] r IH]; intros H (t & pre & post & e & E & Hin).
  - destruct pre; discriminate.
  - cbn [badb] in H. apply orb_false_iff in H. destruct H as [H1 H2]. destruct pre as [|x pre]; cbn [app] in E.
    + inversion E; subst u e0 r. unfold oof in H1. rewrite String.eqb_refl in H1. cbn [andb] in H1.
      assert (X : existsb (fun x => Nat.eqb (fst x) t) post = true); [|congruence]. apply existsb_exists. exists (t, e). split; [exact Hin|apply Nat.eqb_refl].
    + inversion E; subst x r. apply (IH H2). exists t, pre, post, e. auto.
Qed.

Lemma run_mon_reach fuel : forall i sched c ok, Conc.reach c (fst (fst (run_mon fuel i sched c ok))).
Proof.
  induction fuel as [|fuel IH]; intros i sched c ok; cbn [run_mon]; [constructor|].
  destruct sched as [|e r].
  - destruct (Conc.pick (Conc.threads c) i) as [t|]; [|constructor].
    destruct (Conc.step_cfg c t) as [c'|] eqn:Hs; [|constructor].
    specialize (IH (S i) [] c' (ok && tree_ok (Conc.shared c'))).
    clear -IH Hs. induction IH as [|c1 t1 c2 H1 IH1 H2]; [econstructor 2; [constructor|eassumption]|]. econstructor 2; eassumption.
  - destruct (Conc.pick (Conc.threads c) e) as [t|]; [|constructor].
    destruct (Conc.step_cfg c t) as [c'|] eqn:Hs; [|constructor].
    specialize (IH (S i) r c' (ok && tree_ok (Conc.shared c'))).
    clear -IH Hs. induction IH as [|c1 t1 c2 H1 IH1 H2]; [econstructor 2; [constructor|eassumption]|]. econstructor 2; eassumption.
Qed.

Lemma decode_ops_ok os : Forall op_ok (decode_ops os).
Proof.
  induction os as [|o r IH]; cbn [decode_ops]; [constructor|]. destruct (decode_op o) as [x|] eqn:E; [|exact IH]. constructor; [|exact IH].
  unfold decode_op in E. destruct o as [|c [|k q]]; try discriminate.
  destruct (c =? 1); [inversion E; cbn; lia|]. destruct (c =? 6); [inversion E; cbn; lia|]. destruct (c =? 10); [inversion E; exact Logic.I|discriminate].
Qed.

(** the final configuration of a correspondence run *)
Definition run_cfg (cfg : list Z) (ths : list (list (list Z))) (sched : list nat) (fuel : nat) : Conc.config G V ev :=
  let c0 := init_cfg 60 (prefill_keys cfg) (map decode_ops ths) in
  fst (fst (run_mon fuel 0 sched c0 (tree_ok (Conc.shared c0)))).

Theorem ellen_run_case_full_linearizable cfg ths sched fuel :
  init_check2 (prefill_keys cfg) = true -> (List.length ths <= 63)%nat ->
  badb (Conc.trace (run_cfg cfg ths sched fuel)) = false ->
  T (Conc.shared (run_cfg cfg ths sched fuel)) root (-1) 1002 /\
  linearizable SetSpec (full_hist (prefill_keys cfg) (Conc.trace (run_cfg cfg ths sched fuel))).
Proof.
  intros Hi Hlen Hex. unfold run_cfg in *. cbv zeta in *.
  assert (Ho : Forall (Forall op_ok) (map decode_ops ths)) by (apply Forall_forall; intros os Hin; apply in_map_iff in Hin; destruct Hin as (x & <- & _); apply decode_ops_ok).
  assert (Hl : (List.length (map decode_ops ths) <= 63)%nat) by (now rewrite map_length).
  split; [eapply ellen_full_bst|eapply ellen_full_linearizable]; eauto using run_mon_reach, badb_false.
Qed.
