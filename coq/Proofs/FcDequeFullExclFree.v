(** * kernel::invoke_exclusive with a functor that works on the container (LV.Model.FcDequeFull, Section
      KernelExcl), wakeup inside the combiner lock: publication records are not used after they were freed and no
      request is lost, for EVERY schedule.

    Invariant and per-step lemmas of LV.Proofs.FcKernelFree / FcWakeFree re-used unchanged: that invariant does not
    read the container, so the functor (and the "inv"/"exec"/"ret" events of the exclusive operation) are a ghost
    step for it ([Inv_ghost]); the exchange is [safe_xchg_b]. *)
From Coq Require Import ZArith List String Bool Lia PeanoNat.
From LV Require Import Base.Conc Base.Events Model.FcKernel Model.FcKernelWake Proofs.FcKernelProofs Proofs.FcKernelFree.
From LV Require Proofs.FcWakeFree.
From LV Require Import Model.FcDequeFull.
Import ListNotations.
Local Open Scope string_scope.
Local Open Scope list_scope.

Set Implicit Arguments.

Section ExclFree.
  Variables (C Rs : Type) (rs0 : Rs) (rs_enc : Rs -> list Z).
  Variable capply : C -> nat -> Z -> C * Rs.
  Variable P : Type.
  Variable pinit : P.
  Variable pvisit : P -> C -> nat -> nat -> nat -> Z -> P * C * list (nat * Rs).
  Variable pheldr : P -> list nat.
  Hypothesis pinit_held : pheldr pinit = [].
  Hypothesis pvisit_recs : forall p c r op tid arg p' c' cs, pvisit p c r op tid arg = (p', c', cs) ->
    (forall q, In q (map fst cs) -> q = r \/ In q (pheldr p)) /\ (forall q, In q (pheldr p') -> q = r \/ In q (pheldr p)).
  Variable wk : bool.
  Variable cexcl : nat -> Z -> C -> C * Rs.

  Notation G := (FcKernel.G C Rs).
  Notation V := (FcKernel.V Rs P).
  Notation prog := (Conc.prog G V ev).
  Notation safe := (@Conc.safe G V ev aux sview view (@Inv C Rs)).

  Notation xspin := (@spin_lock_excl C Rs rs_enc P cexcl).
  Notation xexcl := (@invoke_exclusive_op C Rs rs_enc P wk true cexcl).
  Notation xrun_ops := (@run_xops C Rs rs0 rs_enc capply P pinit pvisit wk true cexcl).
  Notation xthread := (@xthread_prog C Rs rs0 rs_enc capply P pinit pvisit wk true cexcl).
  Notation xthreads := (@xthread_progs C Rs rs0 rs_enc capply P pinit pvisit wk true cexcl).
  Notation xinit := (@xinit_cfg C Rs rs0 rs_enc capply P pinit pvisit wk true cexcl).

  Lemma safe_xchg_excl_b R t op arg (k : V -> prog R) l Q :
    safe t (k (VN Rs P 1)) l Q ->
    (forall rs, safe t (k (VR P rs)) (set_hold (clrF l) true) Q) ->
    safe t (Act (@a_xchg_excl C Rs rs_enc P cexcl t op arg) k) l Q.
  Proof.
    intros K1 K0. cbn [Conc.safe]. intros g a tr Hi Hv. unfold a_xchg_excl.
    destruct (g_lock g) eqn:El; cbn [fst snd].
    - pose proof (@safe_xchg_b C Rs P _ t (fun v => Ret v) l (fun v l' => v = VN Rs P 1 -> l' = l)
                    (fun _ => eq_refl) (fun E => ltac:(discriminate E))) as H.
      cbn [Conc.safe] in H. destruct (H g a tr Hi Hv) as (a1 & I1 & F1 & Q1). unfold a_xchg in I1, Q1. cbn [fst snd] in I1, Q1.
      rewrite El in Q1. exists a1. split; [exact I1|]. split; [exact F1|]. rewrite (Q1 eq_refl). exact K1.
    - pose proof (@safe_xchg_b C Rs P _ t (fun v => Ret v) l (fun v l' => v = VN Rs P 0 -> l' = set_hold (clrF l) true)
                    (fun E => ltac:(discriminate E)) (fun _ => eq_refl)) as H.
      cbn [Conc.safe] in H. destruct (H g a tr Hi Hv) as (a1 & I1 & F1 & Q1). unfold a_xchg in I1, Q1. cbn [fst snd] in I1, Q1.
      rewrite El in Q1. specialize (Q1 eq_refl).
      set (c' := fst (cexcl op arg (g_cont g))). set (rs := snd (cexcl op arg (g_cont g))).
      pose proof (@Inv_ghost C Rs (set_lock g true) (set_cont (set_lock g true) c') a1 _ t
                    [EvCli "lock" []; EvCli "inv" [Z.of_nat op; arg];
                     EvCli "exec" ([Z.of_nat t; Z.of_nat op; arg] ++ rs_enc rs); EvCli "ret" (rs_enc rs)]
                    _ (set_hold (clrF l) true) I1 Q1) as I2.
      exists (setv a1 t (set_hold (clrF l) true)). split; [|split].
      + replace (tr ++ Conc.tag t _) with
          ((tr ++ Conc.tag t [EvAcc KXchg obj_lock true]) ++
           Conc.tag t [EvCli "lock" []; EvCli "inv" [Z.of_nat op; arg];
                       EvCli "exec" ([Z.of_nat t; Z.of_nat op; arg] ++ rs_enc rs); EvCli "ret" (rs_enc rs)])
          by (rewrite <- app_assoc; reflexivity).
        apply I2.
        * repeat split.
        * split; [reflexivity|]. intros x. split; reflexivity.
        * repeat constructor.
        * repeat constructor.
        * apply GhostOK_refl.
      + eapply frame_trans; [exact F1|apply frame_setv].
      + rewrite view_setv. apply K0.
  Qed.

  Lemma safe_spin_x t op arg : forall fuel sp l,
    safe t (xspin fuel sp t op arg) l (optQ (fun _ l' => l' = set_hold (clrF l) true)).
  Proof.
    induction fuel as [|fu IH]; intros sp l; cbn [spin_lock_excl]; [exact I|]. destruct sp.
    - eapply safe_nb; [apply FcWakeFree.nb_ldlock|exact I|]. intros v. destruct (Nat.eqb (vn v) 0); apply IH.
    - apply safe_xchg_excl_b; [apply IH|]. intros rs. cbn. reflexivity.
  Qed.

  Lemma safe_excl_x t fuel my op arg l : Idl my l -> safe t (xexcl fuel t op arg) l (optQ (fun _ l' => Idl my l')).
  Proof.
    intros [a1 a2 a3 a4 a5 a6 a7 a8 a9 a10 a11 a12]. unfold invoke_exclusive_op.
    apply safe_emit_g with (l' := l); [apply nolost_name; discriminate|apply GhostOK_refl|].
    apply safe_obind. eapply Conc.safe_weaken; [|apply safe_spin_x].
    intros [u|] l1 Hx; [|exact I]. cbn in Hx. subst l1.
    apply safe_obind. eapply Conc.safe_weaken; [|apply (@FcWakeFree.safe_wakeup_in C Rs rs0 rs_enc); cbn; auto].
    intros [u0|] l2 Hx2; [|exact I]. cbn in Hx2. destruct Hx2 as (c & ->).
    apply safe_unlock_emit_b.
    apply safe_unlock_b; try (cbn; auto; fail). intros v.
    apply safe_emit_g with (l' := set_hold (forget (set_cur (set_hold (clrF l) true) c)) false);
      [apply nolost_name; discriminate|apply GhostOK_refl|].
    cbn. split; cbn; auto.
  Qed.

  (** ** client programs *)
  Definition xop_ge2 (o : xop) : Prop := match o with XReq _ op _ => 2 <= op | _ => True end.
  Definition xop_pass (npass : nat) (o : xop) : Prop := match o with XReq batch _ _ => batch = true \/ 1 <= npass | _ => True end.

  Lemma safe_run_xops t fuel mask npass : forall os my l,
    Forall xop_ge2 os -> Forall (xop_pass npass) os -> (forall r, my = Some r -> 1 <= r) -> Idl my l ->
    safe t (xrun_ops fuel mask npass t my os) l (optQ (fun _ _ => True)).
  Proof.
    induction os as [|o os IH]; intros my l H2 Hp Hmy Hi; cbn [run_xops].
    - eapply Conc.safe_weaken; [|apply (@safe_kexit_b C Rs rs0 rs_enc); exact Hi]. intros [u|] l' Hx; exact I.
    - inversion H2 as [|? ? Ho2 H2']; subst. inversion Hp as [|? ? Hop Hp']; subst. destruct o as [batch op arg| |op arg].
      + apply safe_obind.
        eapply Conc.safe_weaken;
          [|apply (@FcWakeFree.safe_request_w C Rs rs0 rs_enc capply P pinit pvisit pheldr pinit_held pvisit_recs wk); eassumption].
        intros [r|] l' Hx; [|exact I]. cbn in Hx. destruct Hx as [Hr Hi']. apply IH; auto. intros r0 E. inversion E; subst. exact Hr.
      + apply safe_obind. eapply Conc.safe_weaken; [|apply (@safe_kexit_b C Rs rs0 rs_enc); exact Hi].
        intros [u|] l' Hx; [|exact I]. cbn in Hx. apply IH; auto. discriminate.
      + apply safe_obind. eapply Conc.safe_weaken; [|apply safe_excl_x; exact Hi].
        intros [u|] l' Hx; [|exact I]. cbn in Hx. apply IH; auto.
  Qed.

  Lemma safe_xthread t fuel mask npass os l :
    Forall xop_ge2 os -> Forall (xop_pass npass) os -> Idl None l ->
    safe t (xthread fuel mask npass t os) l (@Conc.QTrue sview).
  Proof.
    intros H2 Hp Hi. unfold xthread_prog.
    eapply safe_nb; [apply nb_begin|exact I|]. intros v. apply Conc.safe_bind.
    eapply Conc.safe_weaken; [|apply safe_run_xops; eauto; discriminate].
    intros [u|] l' _; [exact I|]. apply safe_emit_g with (l' := l'); [apply nolost_name; discriminate|apply GhostOK_refl|exact I].
  Qed.

  Lemma nth_error_xthreads fuel mask npass : forall ths t0 i p,
    nth_error (xthreads fuel mask npass t0 ths) i = Some p ->
    exists os, nth_error ths i = Some os /\ p = xthread fuel mask npass (t0 + i) os.
  Proof.
    induction ths as [|os ths IH]; intros t0 i p H; cbn [xthread_progs] in H; [destruct i; discriminate|].
    destruct i as [|i]; cbn in H.
    - inversion H; subst. exists os. split; [reflexivity|]. rewrite Nat.add_0_r. reflexivity.
    - destruct (IH _ _ _ H) as (os' & A & B). exists os'. split; [exact A|]. rewrite B. f_equal. lia.
  Qed.

  Definition xprogs_ok (npass : nat) (ths : list (list xop)) : Prop :=
    Forall (Forall xop_ge2) ths /\ Forall (Forall (xop_pass npass)) ths.

  Lemma init_ok_x fuel mask npass c0 ths : xprogs_ok npass ths ->
    Conc.cfg_ok view (@Inv C Rs) (xinit fuel mask npass c0 ths).
  Proof.
    intros [H2 Hp]. exists aux0. split.
    - split.
      2:{ split; [reflexivity|]. split.
          - split.
            + intros q [E|[]]. subst q. reflexivity.
            + constructor; [intros []|constructor].
            + intros r0 [E|[]]. subst r0. split; [cbn; unfold head; lia|reflexivity].
            + intros r0 [E|[]]. subst r0. reflexivity.
            + intros r0 H. unfold frd in H; cbn in H. discriminate.
          - intros u. cbn. split; cbn; try discriminate; auto. }
      apply Inv_intro0; [reflexivity| |].
      + split.
        * intros _ u. reflexivity.
        * intros u u' H. cbn in H. discriminate.
        * intros u u' r H. cbn in H. discriminate.
        * intros q [E|[]]. subst q. reflexivity.
        * constructor; [intros []|constructor].
        * intros r [].
        * intros r H. unfold stt in H; cbn in H. discriminate.
        * intros r H. unfold stt in H; cbn in H. discriminate.
        * intros r _. unfold stt; cbn. discriminate.
        * split; [unfold stt; cbn; discriminate|cbn; lia].
        * intros r. unfold stt; cbn. lia.
      + intros u. cbn. split; cbn; try discriminate; auto.
    - intros t p Hpn. cbn [xinit_cfg Conc.threads] in Hpn.
      destruct (nth_error_xthreads _ _ _ _ _ _ Hpn) as (os & A & ->).
      cbn [Nat.add]. apply safe_xthread.
      + eapply Forall_forall in H2; [exact H2|]. eapply nth_error_In; exact A.
      + eapply Forall_forall in Hp; [exact Hp|]. eapply nth_error_In; exact A.
      + split; reflexivity.
  Qed.

  Theorem fc_excl_no_uaf fuel mask npass c0 ths c :
    xprogs_ok npass ths -> Conc.reach (xinit fuel mask npass c0 ths) c ->
    has_uaf (Conc.trace c) = false /\ has_lost (Conc.trace c) = false.
  Proof.
    intros Hok Hr. destruct (Conc.reach_Inv (init_ok_x fuel mask c0 Hok) Hr) as (a & (Hl & _) & (Hu & _)). split; assumption.
  Qed.
End ExclFree.
