(** * Bit arithmetic of the split-order keys of LV.Model.SplitList
    ([rev64], [regular_hash], [dummy_hash], [okey], [dkey], [bucket_no], [parent_bucket]).
    Everything is proved from the bit characterisation of [rev64]; no computation over ranges. *)
From Coq Require Import ZArith List Bool Arith PeanoNat Lia.
From LV Require Import Model.SplitList.
Import ListNotations.
Local Open Scope Z_scope.

(** "is the key of an auxiliary (dummy) node" *)
Definition akS (z : Z) : bool := Z.even (z / 256).

(** ** generic: bit inclusion gives [<=] *)
Lemma bits_sub_le a b :
  0 <= a -> 0 <= b ->
  (forall j, 0 <= j -> Z.testbit a j = true -> Z.testbit b j = true) -> a <= b.
Proof.
  intros Ha Hb H.
  assert (E : Z.ldiff a b = 0).
  { apply Z.bits_inj'. intros n Hn. rewrite Z.ldiff_spec, Z.bits_0.
    destruct (Z.testbit a n) eqn:Ea; [ rewrite (H n Hn Ea) | ]; reflexivity. }
  pose proof (Z.sub_nocarry_ldiff b a E) as S.
  assert (0 <= Z.ldiff b a) by (apply Z.ldiff_nonneg; left; exact Hb).
  lia.
Qed.

Lemma bits_sub_lt a b m :
  0 <= a -> 0 <= b ->
  (forall j, 0 <= j -> Z.testbit a j = true -> Z.testbit b j = true) ->
  Z.testbit a m = false -> Z.testbit b m = true -> a < b.
Proof.
  intros Ha Hb H Fa Tb.
  pose proof (bits_sub_le a b Ha Hb H).
  assert (a <> b) by (intros ->; congruence).
  lia.
Qed.

Lemma testbit_1 j : Z.testbit 1 j = (0 =? j).
Proof. change 1 with (2 ^ 0). apply Z.pow2_bits_eqb. lia. Qed.

(** ** bits of [rev64] *)
Definition revF (x : Z) (acc : Z) (i : nat) : Z :=
  if Z.testbit x (Z.of_nat i) then Z.lor acc (Z.shiftl 1 (63 - Z.of_nat i)) else acc.

Lemma rev64_fold x : rev64 x = fold_left (revF x) (seq 0 64) 0.
Proof. reflexivity. Qed.

Lemma revF_fold_nonneg x l : forall acc, 0 <= acc -> 0 <= fold_left (revF x) l acc.
Proof.
  induction l as [|i l IH]; simpl; intros acc Hacc; [ exact Hacc | ].
  apply IH. unfold revF. destruct (Z.testbit x (Z.of_nat i)); [ | exact Hacc ].
  apply Z.lor_nonneg. split; [ exact Hacc | ].
  apply Z.shiftl_nonneg. lia.
Qed.

Lemma revF_fold_bits x l : forall acc j,
  0 <= j -> (forall i, In i l -> (i <= 63)%nat) ->
  Z.testbit (fold_left (revF x) l acc) j =
  Z.testbit acc j || existsb (fun i => Z.testbit x (Z.of_nat i) && (63 - Z.of_nat i =? j)) l.
Proof.
  induction l as [|i l IH]; simpl; intros acc j Hj Hl.
  - rewrite orb_false_r. reflexivity.
  - rewrite IH by (auto; intros; apply Hl; right; assumption).
    assert (Hi : (i <= 63)%nat) by (apply Hl; left; reflexivity).
    unfold revF. destruct (Z.testbit x (Z.of_nat i)); cbn [andb orb].
    + rewrite Z.lor_spec, Z.shiftl_1_l, Z.pow2_bits_eqb by lia.
      rewrite orb_assoc. reflexivity.
    + reflexivity.
Qed.

Lemma rev64_nonneg x : 0 <= rev64 x.
Proof. rewrite rev64_fold. apply revF_fold_nonneg. lia. Qed.

Lemma rev64_bit x j :
  Z.testbit (rev64 x) j = true <-> (0 <= j <= 63 /\ Z.testbit x (63 - j) = true).
Proof.
  destruct (Z.neg_nonneg_cases j) as [Hj|Hj].
  { rewrite Z.testbit_neg_r by exact Hj. split; [ discriminate | lia ]. }
  rewrite rev64_fold, revF_fold_bits; [ | exact Hj | intros i Hi; apply in_seq in Hi; lia ].
  rewrite Z.bits_0. rewrite orb_false_l. rewrite existsb_exists. split.
  - intros (i & Hi & H). apply in_seq in Hi. apply andb_true_iff in H. destruct H as [Hx He].
    apply Z.eqb_eq in He. subst j. split; [ lia | ].
    replace (63 - (63 - Z.of_nat i)) with (Z.of_nat i) by lia. exact Hx.
  - intros [Hr Hx]. exists (Z.to_nat (63 - j)). split.
    + apply in_seq. lia.
    + rewrite Z2Nat.id by lia. rewrite Hx, andb_true_l. apply Z.eqb_eq. lia.
Qed.

Lemma rev64_sub a b :
  (forall i, 0 <= i <= 63 -> Z.testbit a i = true -> Z.testbit b i = true) ->
  forall j, Z.testbit (rev64 a) j = true -> Z.testbit (rev64 b) j = true.
Proof.
  intros H j Hj. apply rev64_bit in Hj. destruct Hj as [Hr Hx].
  apply rev64_bit. split; [ exact Hr | ]. apply H; [ lia | exact Hx ].
Qed.

Lemma rev64_le a b :
  (forall i, 0 <= i <= 63 -> Z.testbit a i = true -> Z.testbit b i = true) ->
  rev64 a <= rev64 b.
Proof.
  intros H. apply bits_sub_le; try apply rev64_nonneg.
  intros j _. apply rev64_sub. exact H.
Qed.

(** ** [dummy_hash], [regular_hash] *)
Lemma dummy_bit b j :
  0 <= j -> Z.testbit (dummy_hash b) j = Z.testbit (rev64 b) j && negb (0 =? j).
Proof.
  intros Hj. unfold dummy_hash. rewrite Z.land_spec, Z.lnot_spec, testbit_1 by exact Hj. reflexivity.
Qed.

Lemma dummy_nonneg b : 0 <= dummy_hash b.
Proof. unfold dummy_hash. apply Z.land_nonneg. left. apply rev64_nonneg. Qed.

Lemma dummy_even b : Z.even (dummy_hash b) = true.
Proof.
  rewrite <- Z.negb_odd, <- Z.bit0_odd, dummy_bit by lia.
  rewrite Z.eqb_refl. cbn [negb]. rewrite andb_false_r. reflexivity.
Qed.

Lemma dummy_le_rev b : dummy_hash b <= rev64 b.
Proof.
  apply bits_sub_le; [ apply dummy_nonneg | apply rev64_nonneg | ].
  intros j Hj. rewrite dummy_bit by exact Hj. intros H. apply andb_true_iff in H. tauto.
Qed.

Lemma regular_nonneg h : 0 <= regular_hash h.
Proof. unfold regular_hash. apply Z.lor_nonneg. split; [ apply rev64_nonneg | lia ]. Qed.

Lemma regular_odd h : Z.odd (regular_hash h) = true.
Proof.
  rewrite <- Z.bit0_odd. unfold regular_hash. rewrite Z.lor_spec, testbit_1.
  rewrite Z.eqb_refl. apply orb_true_r.
Qed.

Lemma rev_le_regular h : rev64 h <= regular_hash h.
Proof.
  apply bits_sub_le; [ apply rev64_nonneg | apply regular_nonneg | ].
  intros j _ H. unfold regular_hash. rewrite Z.lor_spec, H. reflexivity.
Qed.

Lemma dkey_nonneg b : 0 <= dkey b.
Proof. unfold dkey. pose proof (dummy_nonneg (Z.of_nat b)). lia. Qed.

Lemma akS_dkey b : akS (dkey b) = true.
Proof. unfold akS, dkey. rewrite Z.div_mul by lia. apply dummy_even. Qed.

Lemma okey_div h k : 0 <= k < 256 -> okey h k / 256 = regular_hash h.
Proof.
  intros Hk. unfold okey. rewrite Z.div_add_l by lia. rewrite Z.div_small by exact Hk. lia.
Qed.

Lemma akS_okey h k : 0 <= k < 256 -> akS (okey h k) = false.
Proof.
  intros Hk. unfold akS. rewrite okey_div by exact Hk.
  rewrite <- Z.negb_odd, regular_odd. reflexivity.
Qed.

Lemma okey_key h1 k1 h2 k2 : 0 <= k1 < 256 -> 0 <= k2 < 256 -> okey h1 k1 = okey h2 k2 -> k1 = k2.
Proof. unfold okey. intros H1 H2 E. lia. Qed.

Lemma dkey_0 : dkey 0 = 0.
Proof. vm_compute. reflexivity. Qed.

(** ** [bucket_no] *)
Lemma bucket_no_Z h l : Z.of_nat (bucket_no h l) = h mod 2 ^ Z.of_nat l.
Proof.
  unfold bucket_no.
  replace (Z.shiftl 1 (Z.of_nat l) - 1) with (Z.ones (Z.of_nat l)) by (unfold Z.ones; lia).
  rewrite Z.land_ones by lia.
  apply Z2Nat.id. apply Z.mod_pos_bound. apply Z.pow_pos_nonneg; lia.
Qed.

Lemma bucket_no_bits h l j :
  Z.testbit (Z.of_nat (bucket_no h l)) j = true -> Z.testbit h j = true.
Proof.
  rewrite bucket_no_Z, <- Z.land_ones by lia. rewrite Z.land_spec.
  intros H. apply andb_true_iff in H. tauto.
Qed.

Lemma bucket_no_lt h l : Z.of_nat (bucket_no h l) < 2 ^ Z.of_nat l.
Proof. rewrite bucket_no_Z. apply Z.mod_pos_bound. apply Z.pow_pos_nonneg; lia. Qed.

Lemma dummy_bucket_lt_regular h l : dummy_hash (Z.of_nat (bucket_no h l)) < regular_hash h.
Proof.
  set (B := Z.of_nat (bucket_no h l)).
  assert (L : dummy_hash B <= regular_hash h).
  { apply Z.le_trans with (rev64 B); [ apply dummy_le_rev | ].
    apply Z.le_trans with (rev64 h); [ | apply rev_le_regular ].
    apply rev64_le. intros i _. apply bucket_no_bits. }
  assert (N : dummy_hash B <> regular_hash h).
  { intros E. pose proof (dummy_even B) as He. rewrite E, <- Z.negb_odd, regular_odd in He. discriminate. }
  lia.
Qed.

(** for every [h : Z] (also negative or above 2^64) and every [l] *)
Lemma dkey_lt_okey h l k : 0 <= k -> dkey (bucket_no h l) < okey h k.
Proof.
  intros Hk. unfold dkey, okey. pose proof (dummy_bucket_lt_regular h l). lia.
Qed.

(** ** [parent_bucket] *)
Lemma parent_Z b :
  Z.of_nat (parent_bucket b) = Z.land (Z.of_nat b) (Z.lnot (Z.shiftl 1 (Z.log2 (Z.of_nat b)))).
Proof.
  unfold parent_bucket. apply Z2Nat.id. apply Z.land_nonneg. left. lia.
Qed.

Lemma parent_bit b j :
  0 <= j ->
  Z.testbit (Z.of_nat (parent_bucket b)) j =
  Z.testbit (Z.of_nat b) j && negb (Z.log2 (Z.of_nat b) =? j).
Proof.
  intros Hj. rewrite parent_Z, Z.land_spec, Z.lnot_spec, Z.shiftl_1_l by exact Hj.
  rewrite Z.pow2_bits_eqb by apply Z.log2_nonneg. reflexivity.
Qed.

Lemma parent_le b : (parent_bucket b <= b)%nat.
Proof.
  apply Nat2Z.inj_le. apply bits_sub_le; try lia.
  intros j Hj. rewrite parent_bit by exact Hj. intros H. apply andb_true_iff in H. tauto.
Qed.

Lemma parent_dkey_lt b : b <> 0%nat -> Z.of_nat b < 2 ^ 63 -> dkey (parent_bucket b) < dkey b.
Proof.
  intros Hb Hlt. set (B := Z.of_nat b). set (P := Z.of_nat (parent_bucket b)).
  assert (HB : 0 < B) by (unfold B; lia).
  set (m := Z.log2 B).
  assert (Hm0 : 0 <= m) by apply Z.log2_nonneg.
  assert (Hm : m < 63) by (apply Z.log2_lt_pow2; assumption).
  assert (TB : Z.testbit B m = true) by (apply Z.bit_log2; exact HB).
  assert (TP : Z.testbit P m = false).
  { unfold P. rewrite parent_bit by exact Hm0. fold B. fold m. rewrite Z.eqb_refl. apply andb_false_r. }
  assert (S : dummy_hash P < dummy_hash B).
  { apply bits_sub_lt with (m := 63 - m); try apply dummy_nonneg.
    - intros j Hj. rewrite !dummy_bit by exact Hj. intros H. apply andb_true_iff in H. destruct H as [H1 H2].
      rewrite H2, andb_true_r. revert H1. apply rev64_sub.
      intros i Hi. unfold P. rewrite parent_bit by lia. intros H. apply andb_true_iff in H. tauto.
    - rewrite dummy_bit by lia.
      destruct (Z.testbit (rev64 P) (63 - m)) eqn:E; [ | reflexivity ].
      apply rev64_bit in E. destruct E as [_ E].
      replace (63 - (63 - m)) with m in E by lia. congruence.
    - rewrite dummy_bit by lia.
      assert (E : Z.testbit (rev64 B) (63 - m) = true).
      { apply rev64_bit. split; [ lia | ]. replace (63 - (63 - m)) with m by lia. exact TB. }
      rewrite E, andb_true_l. destruct (Z.eqb_spec 0 (63 - m)); [ lia | reflexivity ]. }
  unfold dkey. fold P. fold B. lia.
Qed.
