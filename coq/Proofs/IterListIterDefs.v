(** * The iterator of IterableList<HP> (LV.Model.IterListIter): invariant, ghost values, step relation.

    Proof rule: Proofs/ConcRel.v (invariant with auxiliary state and per-thread views + a step relation over a thread-local
    ghost value).  What the invariant says about the shared state concerns the [next] cells only:
      - the LINKED nodes ([lk] of the auxiliary state: m_Head, m_Tail and every node whose link CAS succeeded) are allocated,
        closed under [next] and reachable from m_Head; nodes are never unlinked;
      - a node between its constructor and its link CAS is PRIVATE to the thread that allocated it ([mine] of the view),
        nobody else writes its [next] cell ([mnext] = what the owner stored there);
      - every thread knows some linked nodes ([known]): those it reached by following [next] from m_Head.
    Consequence ([ext], [path_same], [path_casn]): a path between linked nodes is never destroyed.
    For the completeness theorem one node [N] is fixed (section variable): the view of an iterating thread records where its
    iterator is ([stage]) and the invariant keeps "N is still ahead of the iterator" ([J]) across the steps of all threads.
    The ghost value [W] of a thread (outside the invariant) records what the iteration has seen so far; the step relation
    [TR] lists its transitions together with what was observed in the shared state at that step. *)
From Coq Require Import ZArith List String Bool Lia PeanoNat.
From LV Require Import Base.Conc Base.Events Model.IterList Model.IterListIter Proofs.ConcRel.
Import ListNotations.

Set Implicit Arguments.

(** ** paths along a successor function *)
Inductive path (nx : nat -> nat) : nat -> nat -> Prop :=
| path_refl a : path nx a a
| path_step a b : path nx (nx a) b -> path nx a b.

Lemma path_inv nx a b : path nx a b -> a = b \/ path nx (nx a) b.
Proof. intros H. destruct H; auto. Qed.

Lemma path_trans nx a b c : path nx a b -> path nx b c -> path nx a c.
Proof. intros H. induction H as [a|a b H IH]; auto. intros K. apply path_step. auto. Qed.

Lemma path_self nx a b : nx a = a -> path nx a b -> b = a.
Proof.
  intros E H. induction H as [a|a b H IH]; [reflexivity|]. rewrite E in *. auto.
Qed.

Definition closed (lk : nat -> bool) (nx : nat -> nat) : Prop := forall n, lk n = true -> lk (nx n) = true.

Lemma path_same lk nx nx' : closed lk nx -> (forall m, lk m = true -> nx' m = nx m) ->
  forall c b, path nx c b -> lk c = true -> path nx' c b.
Proof.
  intros Hc He c b H. induction H as [a|a b H IH]; intros Hl; [constructor|].
  apply path_step. rewrite (He a Hl). apply IH. apply Hc. exact Hl.
Qed.

Lemma updf_eq {A} (f : nat -> A) n x : updf f n x n = x.
Proof. unfold updf. rewrite Nat.eqb_refl. reflexivity. Qed.
Lemma updf_neq {A} (f : nat -> A) n x m : m <> n -> updf f n x m = f m.
Proof. intros H. unfold updf. destruct (Nat.eqb_spec m n); [contradiction|reflexivity]. Qed.

(** the link CAS: [p] now points to the new node [n], whose next is what [p] pointed to *)
Lemma path_casn lk nx p n : closed lk nx -> lk p = true -> lk n = false -> nx n = nx p ->
  forall c b, path nx c b -> lk c = true -> path (updf nx p n) c b.
Proof.
  intros Hc Hp Hn En c b H. induction H as [a|a b H IH]; intros Hl; [constructor|].
  assert (Hna : n <> p) by (intros ->; congruence).
  destruct (Nat.eq_dec a p) as [->|Hne].
  - apply path_step. rewrite updf_eq. apply path_step. rewrite updf_neq by exact Hna. rewrite En. apply IH. apply Hc. exact Hp.
  - apply path_step. rewrite updf_neq by exact Hne. apply IH. apply Hc. exact Hl.
Qed.

(** what every step guarantees about paths that start at a linked node *)
Definition ext (lk : nat -> bool) (nx nx' : nat -> nat) : Prop :=
  (forall c b, lk c = true -> path nx c b -> path nx' c b) /\
  (forall c b, lk c = true -> path nx (nx c) b -> path nx' (nx' c) b).

Lemma ext_same lk nx nx' : closed lk nx -> (forall m, lk m = true -> nx' m = nx m) -> ext lk nx nx'.
Proof.
  intros Hc He. split.
  - intros c b Hl H. eapply path_same; eauto.
  - intros c b Hl H. rewrite (He c Hl). eapply path_same; eauto.
Qed.

Lemma ext_casn lk nx p n : closed lk nx -> lk p = true -> lk n = false -> nx n = nx p -> ext lk nx (updf nx p n).
Proof.
  intros Hc Hp Hn En. assert (Hna : n <> p) by (intros ->; congruence). split.
  - intros c b Hl H. eapply path_casn; eauto.
  - intros c b Hl H. destruct (Nat.eq_dec c p) as [->|Hne].
    + rewrite updf_eq. apply path_step. rewrite updf_neq by exact Hna. rewrite En. eapply path_casn; eauto.
    + rewrite updf_neq by exact Hne. eapply path_casn; eauto.
Qed.

Lemma ext_refl lk nx : ext lk nx nx.
Proof. split; auto. Qed.

(** ** views, auxiliary state *)
Inductive Stage := SNone | SPend (c : nat) | SMoved (c : nat).

Record L := mkL {
  mine : nat;             (* the node this thread has allocated and not yet tried to link (0: none) *)
  mnext : nat;            (* what the thread stored into its next cell *)
  known : list nat;       (* linked nodes the thread knows *)
  stage : Stage;          (* SPend c: the iterator is about to examine the data of node c; SMoved c: it has examined it *)
  jd : bool }.            (* nothing left to show for the tracked node *)

Record Aux := mkAux { lk : nat -> bool; vw : nat -> L }.
Definition view (a : Aux) (t : nat) : L := vw a t.

Definition l0 : L := mkL 0 0 [] SNone false.
Definition A0 : Aux := mkAux (fun n => Nat.eqb n HEAD || Nat.eqb n TAIL) (fun _ => l0).

Definition kn (l : L) (n : nat) : Prop := n = HEAD \/ In n (known l).

Definition set_mine (l : L) (n p : nat) : L := mkL n p (known l) (stage l) (jd l).
Definition add_known (n : nat) (l : L) : L := mkL (mine l) (mnext l) (n :: known l) (stage l) (jd l).
Definition set_stage (l : L) (s : Stage) (d : bool) : L := mkL (mine l) (mnext l) (known l) s d.

(** [l'] differs from [l] by more knowledge (and possibly its private node) *)
Definition lext (l l' : L) : Prop := stage l' = stage l /\ jd l' = jd l /\ incl (known l) (known l').

Lemma lext_refl l : lext l l.
Proof. repeat split; auto. apply incl_refl. Qed.
Lemma lext_trans l1 l2 l3 : lext l1 l2 -> lext l2 l3 -> lext l1 l3.
Proof. intros (A1 & A2 & A3) (B1 & B2 & B3). repeat split; try congruence. eapply incl_tran; eauto. Qed.
Lemma lext_kn l l' n : lext l l' -> kn l n -> kn l' n.
Proof. intros (_ & _ & H) [K|K]; [left; exact K|right; apply H; exact K]. Qed.
Lemma lext_set_mine l n p : lext l (set_mine l n p).
Proof. repeat split; auto. apply incl_refl. Qed.
Lemma lext_add_known l n : lext l (add_known n l).
Proof. repeat split; auto. intros x Hx. right. exact Hx. Qed.

Section Inv.
  Variable N : nat.       (* the tracked node *)

  (** the tracked node is still ahead of the iterator of a thread with view [l] *)
  Definition J (nx : nat -> nat) (l : L) : Prop :=
    jd l = true \/
    match stage l with
    | SNone => True
    | SPend c => kn l c /\ path nx c N
    | SMoved c => kn l c /\ N <> c /\ path nx (nx c) N
    end.

  Record InvS (nx : nat -> nat) (na : nat) (a : Aux) : Prop := mkInvS {
    i_head : lk a HEAD = true;
    i_tail : lk a TAIL = true;
    i_cl : forall n, lk a n = true -> 1 <= n <= na /\ lk a (nx n) = true;
    i_mine : forall t, mine (vw a t) <> 0 ->
               lk a (mine (vw a t)) = false /\ mine (vw a t) <= na /\ nx (mine (vw a t)) = mnext (vw a t);
    i_dist : forall t t', t <> t' -> mine (vw a t) <> 0 -> mine (vw a t) <> mine (vw a t');
    i_known : forall t n, In n (known (vw a t)) -> lk a n = true;
    i_reach : forall n, lk a n = true -> path nx HEAD n;
    i_tn : nx TAIL = TAIL;
    i_loop : forall n, lk a n = true -> nx n = n -> n = TAIL;
    i_J : forall t, J nx (vw a t) }.

  (** the tail's next points to the tail, it is the only linked node that points to itself, and it never holds data *)
  Definition Inv (g : G) (a : Aux) (tr : list (nat * ev)) : Prop :=
    InvS (nnext g) (nalloc g) a /\ fst (ndata g TAIL) = 0.

  Lemma path_lk nx na a : InvS nx na a -> forall c n, path nx c n -> lk a c = true -> lk a n = true.
  Proof. intros HI c n H. induction H as [c|c n H IH]; auto. intros Hc. apply IH. apply (i_cl HI c Hc). Qed.

  Lemma Inv_closed nx na a : InvS nx na a -> closed (lk a) nx.
  Proof. intros H n Hn. apply (i_cl H n Hn). Qed.

  Lemma Inv_kn nx na a t n : InvS nx na a -> kn (vw a t) n -> lk a n = true.
  Proof. intros H [->|K]; [apply (i_head H)|eapply i_known; eauto]. Qed.

  Lemma J_ext lka nx nx' l l' : ext lka nx nx' -> (forall n, kn l n -> lka n = true) ->
    stage l' = stage l -> jd l' = jd l -> incl (known l) (known l') -> J nx l -> J nx' l'.
  Proof.
    intros [E1 E2] Hk Hs Hj Hi [H|H]; [left; congruence|]. right. rewrite Hs.
    assert (Hkn : forall c, kn l c -> kn l' c) by (intros c [K|K]; [left; exact K|right; apply Hi; exact K]).
    destruct (stage l) as [|c|c]; auto.
    - destruct H as [K1 K2]. split; [auto|]. apply E1; auto.
    - destruct H as (K1 & K2 & K3). split; [auto|]. split; [exact K2|]. apply E2; auto.
  Qed.

  (** the one preservation lemma: thread [t] steps, the linked set grows to [lk'], its view becomes [l'] *)
  Lemma InvS_step nx na a nx' na' lk' t l' :
    InvS nx na a -> na <= na' ->
    (forall m, lk a m = true -> lk' m = true) ->
    (forall n, lk' n = true -> 1 <= n <= na' /\ lk' (nx' n) = true) ->
    ext (lk a) nx nx' ->
    (forall n, lk' n = true -> lk a n = false -> path nx' HEAD n) ->
    (forall t', t' <> t -> mine (vw a t') <> 0 ->
       lk' (mine (vw a t')) = false /\ nx' (mine (vw a t')) = nx (mine (vw a t'))) ->
    (mine l' <> 0 -> lk' (mine l') = false /\ mine l' <= na' /\ nx' (mine l') = mnext l' /\
                     forall t', t' <> t -> mine (vw a t') <> mine l') ->
    (forall n, In n (known l') -> lk' n = true) ->
    nx' TAIL = TAIL -> (forall n, lk' n = true -> nx' n = n -> n = TAIL) ->
    J nx' l' ->
    InvS nx' na' (mkAux lk' (updf (vw a) t l')).
  Proof.
    intros HI Hna Hlk Hcl Hext Hnew Hoth Hme Hkn Htn Hloop HJ.
    assert (Vt : updf (vw a) t l' t = l') by apply updf_eq.
    assert (Vo : forall u, u <> t -> updf (vw a) t l' u = vw a u) by (intros u Hu; apply updf_neq; exact Hu).
    constructor; cbn [lk vw].
    - apply Hlk. apply (i_head HI).
    - apply Hlk. apply (i_tail HI).
    - exact Hcl.
    - intros u Hu. destruct (Nat.eq_dec u t) as [->|Hne].
      + rewrite Vt in *. destruct (Hme Hu) as (K1 & K2 & K3 & _). auto.
      + rewrite (Vo u Hne) in *. destruct (Hoth u Hne Hu) as [K1 K2]. destruct (i_mine HI u Hu) as (M1 & M2 & M3).
        split; [exact K1|]. split; [lia|]. congruence.
    - intros u u' Huu Hu. destruct (Nat.eq_dec u t) as [->|Hne]; destruct (Nat.eq_dec u' t) as [->|Hne'].
      + congruence.
      + rewrite Vt in *. rewrite (Vo u' Hne'). destruct (Hme Hu) as (_ & _ & _ & K). intros E. apply (K u' Hne'). congruence.
      + rewrite Vt. rewrite (Vo u Hne) in *. intros E. rewrite E in Hu. destruct (Hme Hu) as (_ & _ & _ & K). apply (K u Hne). exact E.
      + rewrite (Vo u Hne) in *. rewrite (Vo u' Hne'). apply (i_dist HI); auto.
    - intros u n Hn. destruct (Nat.eq_dec u t) as [->|Hne].
      + rewrite Vt in Hn. auto.
      + rewrite (Vo u Hne) in Hn. apply Hlk. eapply i_known; eauto.
    - intros n Hn. destruct (lk a n) eqn:E.
      + apply (proj1 Hext); [apply (i_head HI)|]. apply (i_reach HI). exact E.
      + apply Hnew; auto.
    - exact Htn.
    - exact Hloop.
    - intros u. destruct (Nat.eq_dec u t) as [->|Hne].
      + rewrite Vt. exact HJ.
      + rewrite (Vo u Hne). eapply J_ext; eauto; try apply incl_refl; try reflexivity; [|apply (i_J HI)].
        intros n Hn. eapply Inv_kn; eauto.
  Qed.

  (** the stepping thread only changes its view (no write to a next cell, no allocation) *)
  Lemma InvS_view nx na a t l' :
    InvS nx na a -> mine l' = mine (vw a t) -> mnext l' = mnext (vw a t) ->
    (forall n, In n (known l') -> lk a n = true) -> J nx l' ->
    InvS nx na (mkAux (lk a) (updf (vw a) t l')).
  Proof.
    intros HI Hm Hx Hk HJ. apply InvS_step with (na := na) (nx := nx); auto.
    - intros n Hn. apply (i_cl HI n Hn).
    - apply ext_refl.
    - intros n H1 H2. congruence.
    - intros t' Hne Hm'. destruct (i_mine HI t' Hm') as (K1 & _). auto.
    - intros H. rewrite Hm in *. destruct (i_mine HI t H) as (K1 & K2 & K3). rewrite Hx. repeat split; auto.
      intros t' Hne E. apply (i_dist HI (t := t) (t' := t')); auto.
    - apply (i_tn HI).
    - apply (i_loop HI).
  Qed.
End Inv.

(** ** ghost value of a thread, step relation *)
Record W := mkW {
  wph : bool;               (* an iteration is running *)
  wok : bool;               (* the tracked node held the tracked item at the own accesses that looked *)
  wvis : list nat;          (* items visited so far *)
  wfnd : nat * nat;         (* ( node, item ) of the last validating load of protect *)
  wcur : nat * nat;         (* ( node, item ) of the last "visit" *)
  wrem : nat;               (* successful CAS of erase_at since that visit *)
  wgone : bool;             (* the node of [wcur] was seen not to hold the item any more *)
  wfresh : bool;            (* [wfnd] was set since the last "visit" *)
  wfk : Z }.                (* key of the item of [wfnd] when it was found *)

Definition w0 : W := mkW false false [] (0, 0) (0, 0) 0 false false 0%Z.
Definition wstart : W := mkW true true [] (0, 0) (0, 0) 0 false false 0%Z.

Definition is_acc (e : ev) : Prop := exists kd o b, e = EvAcc kd o b.
Definition all_acc (es : list ev) : Prop := forall e, In e es -> is_acc e.
Definition ev_oof : ev := EvCli "outoffuel" [].
Definition is_visit (e : ev) : Prop := exists args, e = EvCli "visit" args.
Definition is_erased (e : ev) : Prop := exists args, e = EvCli "erased" args.
Definition is_inv20 (e : ev) : Prop := exists o, e = ev_inv o /\ nth 0 o 0%Z = 20%Z.

Definition quiet (w : W) (es : list ev) : Prop :=
  forall e, In e es -> is_acc e \/ e = ev_oof \/ (wph w = false /\ ~ is_visit e /\ ~ is_erased e /\ ~ is_inv20 e).

Section Rel.
  Variables (N X : nat).

  (** the tracked node is in the list and holds the tracked item *)
  Definition present (g : G) : Prop := path (nnext g) HEAD N /\ fst (ndata g N) = X.

  Definition set_ok (w : W) (b : bool) : W := mkW (wph w) b (wvis w) (wfnd w) (wcur w) (wrem w) (wgone w) (wfresh w) (wfk w).
  Definition set_fnd (w : W) (b : bool) (f : nat * nat) (k : Z) : W := mkW (wph w) b (wvis w) f (wcur w) (wrem w) (wgone w) true k.

  Inductive TR (g g' : G) (es : list ev) (w w' : W) : Prop :=
  | TR_same : w' = w -> quiet w es -> TR g g' es w w'
  | TR_start o b : es = [ev_inv o] -> nth 0 o 0%Z = 20%Z -> g' = g -> (b = true <-> present g) ->
      w' = set_ok wstart b -> TR g g' es w w'
  | TR_look b : all_acc es -> g' = g -> wph w = true -> (b = true <-> wok w = true /\ present g) ->
      w' = set_ok w b -> TR g g' es w w'
  | TR_found b n : all_acc es -> g' = g -> wph w = true -> (b = true <-> wok w = true /\ present g) ->
      path (nnext g) HEAD n -> fst (ndata g n) <> 0 ->
      w' = set_fnd w b (n, fst (ndata g n)) (ikey g (fst (ndata g n))) -> TR g g' es w w'
  | TR_visit : es = [ev_visit (wfk w) (snd (wfnd w))] -> g' = g -> wph w = true -> snd (wfnd w) <> 0 -> wfresh w = true ->
      w' = mkW true (wok w) (snd (wfnd w) :: wvis w) (wfnd w) (wfnd w) 0 false false (wfk w) -> TR g g' es w w'
  | TR_finish : es = [ev_ret 1 0] -> g' = g -> wph w = true -> (wok w = true -> In X (wvis w)) ->
      w' = mkW false (wok w) (wvis w) (wfnd w) (wcur w) (wrem w) (wgone w) (wfresh w) (wfk w) -> TR g g' es w w'
  | TR_erase : all_acc es -> wph w = true -> snd (wcur w) <> 0 ->
      ndata g (fst (wcur w)) = (snd (wcur w), false) -> ndata g' (fst (wcur w)) = (0, false) ->
      (forall m, m <> fst (wcur w) -> ndata g' m = ndata g m) -> nnext g' = nnext g ->
      w' = mkW true (wok w) (wvis w) (wfnd w) (wcur w) (S (wrem w)) (wgone w) (wfresh w) (wfk w) -> TR g g' es w w'
  | TR_gone : all_acc es -> g' = g -> wph w = true -> snd (wcur w) <> 0 -> fst (ndata g (fst (wcur w))) <> snd (wcur w) ->
      w' = mkW true (wok w) (wvis w) (wfnd w) (wcur w) (wrem w) true (wfresh w) (wfk w) -> TR g g' es w w'
  | TR_erased b : es = [ev_erased b] -> g' = g -> wph w = true -> snd (wcur w) <> 0 ->
      (b = true -> wrem w = 1) -> (b = false -> wrem w = 0 /\ wgone w = true) -> w' = w -> TR g g' es w w'.

  (** nodes are never unlinked: what is reachable from m_Head stays reachable *)
  Definition Rel2 (g g' : G) : Prop := forall n, path (nnext g) HEAD n -> path (nnext g') HEAD n.

  Definition SR (t : nat) (g g' : G) (tr : list (nat * ev)) (es : list ev) (w w' : W) : Prop :=
    Rel2 g g' /\ TR g g' es w w'.

  Lemma SR_nx t g g' tr es w w' : nnext g' = nnext g -> TR g g' es w w' -> SR t g g' tr es w w'.
  Proof. intros E H. split; [|exact H]. intros n Hn. rewrite E. exact Hn. Qed.

  Lemma SR_ext lka t g g' tr es w w' : ext lka (nnext g) (nnext g') -> lka HEAD = true -> TR g g' es w w' -> SR t g g' tr es w w'.
  Proof. intros [E _] Hh H. split; [|exact H]. intros n Hn. apply E; auto. Qed.
End Rel.

Lemma all_acc1 kd o b : all_acc [EvAcc kd o b].
Proof. intros e [<-|[]]. exists kd, o, b. reflexivity. Qed.

Lemma all_acc_quiet w es : all_acc es -> quiet w es.
Proof. intros H e He. left. auto. Qed.
