(** DhpConsStepsB10: copy of LV.Proofs.DhpStepsB10 over the two-directional pointer invariant of LV.Proofs.DhpConsInv (conservation);
    the text differs from the original where the JW part of a goal is proved. *)
(** * DhpStepsB10: help_scan moves the retired pointers of an orphaned record, cell by cell. *)
From Coq Require Import ZArith NArith List String Bool Lia PeanoNat.
From LV Require Import Base.Conc Base.Events Model.DhpLang Model.Dhp Proofs.DhpBase Proofs.DhpSeq Proofs.DhpSeqThm Proofs.DhpHist
  Proofs.DhpLangProofs Proofs.DhpAllocA Proofs.DhpInvB Proofs.DhpConsInv Proofs.DhpConsQuietB Proofs.DhpConsQuietB2 Proofs.DhpConsRulesB Proofs.DhpConsStepsB1 Proofs.DhpConsStepsB3
  Proofs.DhpConsStepsB4 Proofs.DhpConsStepsB6.
Import ListNotations.

Lemma skipn_cons_nth (l : list nat) : forall m, m < List.length l -> skipn m l = nth m l 0 :: skipn (S m) l.
Proof. induction l as [|x l IH]; intros m H; cbn in H; [lia|]. destruct m as [|m]; [reflexivity|]. cbn [skipn nth]. apply IH. lia. Qed.
Lemma nth_firstn_lt (l : list nat) : forall w m, m < w -> nth m (firstn w l) 0 = nth m l 0.
Proof. induction l as [|x l IH]; intros w m H; destruct w, m; cbn; auto; try lia. apply IH. lia. Qed.

Section StepsB10.
  Variable c : cfg.
  Notation RB := (c_RB c).

  Ltac vwt t := let t' := fresh "t'" in intros t'; cbn; unfold fn; destruct (Nat.eqb_spec t' t) as [->|]; cbn; auto.

  (** a change of the move / cursor fields of one view *)
  Lemma JR_setv_mc g a t v :
    vb_own v = vb_own (bvs a t) -> vb_full v = vb_full (bvs a t) -> vb_dead v = vb_dead (bvs a t) ->
    (forall r ob, vb_move (bvs a t) = Some (r, ob) -> moved a r <> 0 -> exists ob', vb_move v = Some (r, ob')) ->
    (forall r ob, vb_move v = Some (r, ob) ->
       In r (vb_own v) /\ forall b, ob = Some b -> vb_cur v = None -> exists j, nth_error (rch a r) j = Some b /\ moved a r = j * RB) ->
    (forall b i n, vb_cur v = Some (b, i, n) ->
       exists r ob j, vb_move v = Some (r, ob) /\ nth_error (rch a r) j = Some b /\ moved a r = j * RB + i /\ i + n <= RB /\
                      j * RB + i + n <= rw a r /\ i + n = (if oeqb (Some b) (r_cb (grec g r)) then r_cc (grec g r) else RB)) ->
    JR c g a -> JR c g (setv a t v).
  Proof.
    intros E1 E2 E3 C1 C2 C3 [R1 R2 R3 R4 R5 R6]. constructor; cbn [setv bvs rbown rch rw moved dead].
    - intros r Hr. destruct (R1 r Hr) as [K|(Q0 & Q2 & Q3 & Q4 & Q5)]; [left; exact K|right]. repeat (split; auto).
      destruct Q5 as [Q5|(t' & Q5)]; [left; exact Q5|right; exists t']. unfold fn. destruct (Nat.eqb_spec t' t) as [->|]; [rewrite E2|]; auto.
    - intros r Hm. destruct (R2 r Hm) as (t' & ob & K). destruct (Nat.eq_dec t' t) as [->|Nt].
      + destruct (C1 r ob K Hm) as (ob' & K'). exists t, ob'. now rewrite fn_same.
      + exists t', ob. now rewrite fn_other.
    - intros t' r ob. unfold fn. destruct (Nat.eqb_spec t' t) as [->|]; [apply C2|apply R3].
    - intros t' b i n. unfold fn. destruct (Nat.eqb_spec t' t) as [->|]; [apply C3|apply R4].
    - split.
      + intros t' r. unfold fn. destruct (Nat.eqb_spec t' t) as [->|]; [rewrite E1, E3|]; apply R5.
      + intros r Hd. destruct (proj2 R5 r Hd) as (t' & K). exists t'. unfold fn. destruct (Nat.eqb_spec t' t) as [->|]; [rewrite E3|]; auto.
    - intros t' r. unfold fn. destruct (Nat.eqb_spec t' t) as [->|]; [rewrite E1, E2|]; apply R6.
  Qed.

  Lemma JW_setv_mc g a ds rt tr t v :
    vb_pend v = vb_pend (bvs a t) -> vb_freed v = vb_freed (bvs a t) -> vb_new v = vb_new (bvs a t) -> vb_own v = vb_own (bvs a t) ->
    vb_arr v = vb_arr (bvs a t) -> vb_mine v = vb_mine (bvs a t) -> vb_s0 v = vb_s0 (bvs a t) ->
    (forall r, vb_move v = Some (r, None) -> vb_cur v = None -> moved a r = rw a r) ->
    JW g a ds rt tr -> JW g (setv a t v) ds rt tr.
  Proof.
    intros E1 E2 E5 E6 E7 E8 E9 Hjm [J1 J2 J3 J4 J5 J6 J7 J8 J9]. constructor; cbn [setv bvs wh].
    - intros r Hr. change (ec g (setv a t v) r) with (ec g a r). apply J1; auto.
    - intros t' p. unfold fn. destruct (Nat.eqb_spec t' t) as [->|]; [rewrite E1, E2|]; apply J2.
    - intros t'. unfold fn. destruct (Nat.eqb_spec t' t) as [->|]; [rewrite E2|]; apply J3.
    - exact J4.
    - exact J5.
    - intros t' r. cbn [setv bvs moved rw]. unfold fn. destruct (Nat.eqb_spec t' t) as [->|]; [apply Hjm|apply J6].
    - intros Hoob. destruct (J7 Hoob) as [C1 C2 C3 C4 C5 C6 C7]. constructor; cbn [setv bvs wh tl rch].
      + exact C1.
      + intros p r H. change (ec g (setv a t v) r) with (ec g a r). now apply C2.
      + intros p t' H. destruct (C3 p t' H) as (X1 & X2). unfold fn. destruct (Nat.eqb_spec t' t) as [->|]; [|auto].
        rewrite E1, E2, E6. auto.
      + exact C4.
      + intros r Hr. destruct (C5 r Hr) as [X|(t' & nx & X)]; [now left|right; exists t', nx].
        unfold fn. destruct (Nat.eqb_spec t' t) as [->|]; [rewrite E5|]; auto.
      + intros t' r nx. unfold fn. destruct (Nat.eqb_spec t' t) as [->|]; [rewrite E5|]; apply C6.
      + intros t' r. unfold fn. destruct (Nat.eqb_spec t' t) as [->|]; [rewrite E7, E6|]; apply C7.
    - exact J8.
    - apply (JH_frame a _ tr tr); auto. intros t'. cbn [bvs setv]. unfold fn. destruct (Nat.eqb_spec t' t) as [->|]; auto; try solve [unfold HV; rewrite E1, E2, E6, E8, E9; repeat split; auto].
  Qed.

  Lemma JB_setv_mc g a tr t v :
    vb_own v = vb_own (bvs a t) -> vb_node v = vb_node (bvs a t) -> vb_new v = vb_new (bvs a t) -> vb_blk v = vb_blk (bvs a t) ->
    vb_limbo v = vb_limbo (bvs a t) -> vb_pend v = vb_pend (bvs a t) -> vb_freed v = vb_freed (bvs a t) ->
    vb_full v = vb_full (bvs a t) -> vb_dead v = vb_dead (bvs a t) -> vb_arr v = vb_arr (bvs a t) ->
    vb_mine v = vb_mine (bvs a t) -> vb_s0 v = vb_s0 (bvs a t) ->
    JB c g a tr -> (JR c g a -> JR c g (setv a t v)) ->
    (forall r, vb_move v = Some (r, None) -> vb_cur v = None -> moved a r = rw a r) -> JB c g (setv a t v) tr.
  Proof.
    intros E1 E2 E3 E4 E5 E6 E7 E8 E9 E10 E11 E12 [O1 K1 R1 W1] H Hjm. constructor; auto.
    - apply JO_setv; auto. - apply JK_setv; auto. - apply JW_setv_mc; auto.
  Qed.

  Lemma rw0_of_nohead g a tr t r : JB c g a tr -> In r (vb_own (bvs a t)) -> vb_dead (bvs a t) <> Some r ->
    r_head (grec g r) = None -> rch a r = [] /\ rw a r = 0.
  Proof.
    intros J Hr Hd Hh. assert (Hch : rch a r = []).
    { destruct (rch a r) as [|x l] eqn:E; auto. exfalso. assert (Hne : rch a r <> []) by congruence.
      destruct (JB_rec2 c g a tr t r J Hr Hne) as (_ & _ & [_ Ich _ _ _ _ _] & _). rewrite E, Hh in Ich. cbn in Ich. destruct Ich as (X & _). discriminate. }
    split; auto. destruct (JB_rec1 c g a tr t r J Hr Hd Hch) as (_ & _ & X & _). exact X.
  Qed.

  Lemma rw0_of_empty g a tr t r : JB c g a tr -> In r (vb_own (bvs a t)) -> vb_dead (bvs a t) <> Some r ->
    rt_empty g r = true -> rw a r = 0.
  Proof.
    intros J Hr Hd He. destruct (rch a r) as [|x l] eqn:E.
    - destruct (JB_rec1 c g a tr t r J Hr Hd E) as (_ & _ & X & _). exact X.
    - assert (Hne : rch a r <> []) by congruence.
      destruct (JB_rec2 c g a tr t r J Hr Hne) as (_ & _ & [_ Ich Ind _ _ _ (j & i & Icb & Ij & Icc & Ew & _)] & _).
      unfold rt_empty in He. rewrite Icb in He. destruct (nth_error (rch a r) j) as [cb|] eqn:Ej; [|apply nth_error_None in Ej; lia].
      apply andb_prop in He. destruct He as (H1 & H2). apply oeqb_eq in H1. apply Nat.eqb_eq in H2.
      rewrite (is_chain_head c g _ _ Ich) in H1. assert (j = 0) by (eapply chain_nth_inj; eauto). subst j. lia.
  Qed.

  (** ghost step: the thread notes that the array of its record r is empty (marker vb_move = Some (r, None)) *)
  Lemma S_mark g a tr t r :
    In r (vb_own (bvs a t)) -> vb_move (bvs a t) = None -> vb_cur (bvs a t) = None -> rw a r = 0 ->
    JB c g a tr -> JB c g (setv a t (set_move (bvs a t) (Some (r, None)))) tr.
  Proof.
    intros Hr Hm Hc Hw J. apply JB_setv_mc; auto.
    - apply JR_setv_mc; auto; cbn [vb_move vb_cur vb_own set_cur set_move].
      + intros r0 ob E. congruence.
      + intros r0 ob E. inversion E; subst r0 ob. split; auto. intros b Eb. discriminate.
      + intros b i n E. congruence.
    - cbn [vb_move vb_cur set_move]. intros r0 E _. inversion E; subst r0. rewrite Hw. eapply JB_unmoved; eauto. intros ob. congruence.
  Qed.

  (** hprec->retired_ is looked at: list_head_ *)
  Lemma S_move_start g a tr t h :
    In h (vb_own (bvs a t)) -> vb_move (bvs a t) = None -> vb_cur (bvs a t) = None -> vb_dead (bvs a t) = None ->
    JB c g a tr -> JB c g (setv a t (set_move (bvs a t) (Some (h, r_head (grec g h))))) tr.
  Proof.
    intros Hh Hm Hc Hd J. apply JB_setv_mc; auto. apply JR_setv_mc; auto; cbn [vb_move vb_cur vb_own set_cur set_move].
    - intros r ob E. congruence.
    - intros r ob E. inversion E; subst r ob. split; auto. intros b Eb _.
      assert (Hne : rch a h <> []).
      { intros Ech. destruct (JB_rec1 c g a tr t h J Hh ltac:(congruence) Ech) as (X & _). congruence. }
      destruct (JB_rec2 c g a tr t h J Hh Hne) as (_ & _ & [_ Ich _ _ _ _ _] & _). exists 0. split.
      + rewrite <- Eb. symmetry. eapply is_chain_head; eauto.
      + cbn. eapply JB_unmoved; eauto. intros ob. congruence.
    - intros b i n E. congruence.
    - cbn [vb_move vb_cur set_move]. intros r0 E _. inversion E as [[E1 E2]]. subst r0.
      destruct (rw0_of_nohead g a tr t h J Hh ltac:(congruence) E2) as (_ & X). rewrite X. eapply JB_unmoved; eauto. intros ob. congruence.
  Qed.

  (** the number of cells of the block to move: cursor of the source if it is its current block *)
  Lemma S_mb1 g a tr t src b lc :
    lc = (if oeqb (Some b) (r_cb (grec g src)) then r_cc (grec g src) else RB) ->
    vb_move (bvs a t) = Some (src, Some b) -> vb_cur (bvs a t) = None -> vb_dead (bvs a t) = None ->
    JB c g a tr ->
    JB c g (setv a t (set_cur (bvs a t) (Some (b, 0, lc)))) tr.
  Proof.
    intros Elc Hm Hc Hd J. apply JB_setv_mc; auto. apply JR_setv_mc; auto; cbn [vb_move vb_cur vb_own set_cur set_move].
    - intros r ob E _. eauto.
    - intros r ob E. destruct J as [_ _ [_ _ R3 _ _ _] _]. destruct (R3 t r ob E) as (X & _). split; auto. intros b' _ H. discriminate.
    - intros b' i n E. inversion E; subst b' i n. clear E.
      pose proof J as [_ _ [_ _ R3 _ _ _] _]. destruct (R3 t src (Some b) Hm) as (Hs & Hj). destruct (Hj b eq_refl Hc) as (j & Ej & Emv).
      assert (Hne : rch a src <> []) by (intros E; rewrite E in Ej; destruct j; discriminate).
      destruct (JB_rec2 c g a tr t src J Hs Hne) as (_ & _ & I & _ & Hmw & _).
      destruct I as [_ Ich Ind _ _ Iw (jc & ic & Icb & Ijc & Icc & Ew & Hnorm)].
      exists src, (Some b), j. split; [exact Hm|]. split; [exact Ej|]. split; [rewrite Emv; lia|]. rewrite Elc.
      destruct (oeqb (Some b) (r_cb (grec g src))) eqn:Eo.
      + apply oeqb_eq in Eo. rewrite <- Eo in Icb. assert (j = jc) by (eapply chain_nth_inj; eauto; congruence). subst jc.
        rewrite Icc. split; [destruct Hnorm as [X|(X & _)]; lia|]. split; [lia|reflexivity].
      + apply oeqb_neq in Eo. split; [lia|]. split; [|reflexivity].
        assert (Hneq : j <> jc) by (intros ->; apply Eo; rewrite Icb; auto).
        assert (Hjl : j < List.length (rch a src)) by (apply nth_error_Some; congruence).
        destruct (Nat.lt_ge_cases j jc) as [L|L]; [nia|]. exfalso. assert (jc < j) by lia.
        destruct Hnorm as [X|(X1 & X2)]; nia.
    - cbn [vb_move vb_cur set_cur]. intros r0 _ E. discriminate.
  Qed.

  (** the next block of the source *)
  Lemma S_mb2 g a tr t src ob b i nx :
    nx = (if oeqb (Some b) (r_cb (grec g src)) then None else rb_next (grb g b)) ->
    vb_move (bvs a t) = Some (src, ob) -> vb_cur (bvs a t) = Some (b, i, 0) -> vb_dead (bvs a t) = None ->
    JB c g a tr ->
    JB c g (setv a t (set_move (set_cur (bvs a t) None) (Some (src, nx)))) tr.
  Proof.
    intros Enx0 Hm Hc Hd J. apply JB_setv_mc; auto. apply JR_setv_mc; auto; cbn [vb_move vb_cur vb_own set_cur set_move].
    - intros r ob' E _. rewrite Hm in E. inversion E; subst. eauto.
    - intros r ob' E. inversion E; subst r ob'. clear E.
      pose proof J as [_ _ [_ _ R3 R4 _ _] _]. destruct (R3 t src ob Hm) as (Hs & _). split; auto. intros b' Eb _.
      destruct (R4 t b i 0 Hc) as (r0 & ob0 & j & E0 & Ej & Emv & Hle & Hw & Hlim). rewrite Hm in E0. inversion E0; subst r0 ob0.
      rewrite Enx0 in Eb. destruct (oeqb (Some b) (r_cb (grec g src))) eqn:Eo; [discriminate|].
      assert (Hne : rch a src <> []) by (intros E; rewrite E in Ej; destruct j; discriminate).
      destruct (JB_rec2 c g a tr t src J Hs Hne) as (_ & _ & [_ Ich _ _ _ _ _] & _).
      destruct (is_chain_nth c g _ _ j b Ich Ej) as (Enx & _). exists (S j). split; [congruence|]. lia.
    - intros b' i' n E. discriminate.
    - cbn [vb_move vb_cur set_cur set_move]. intros r0 E _. inversion E as [[E1 E2]]. subst r0.
      pose proof J as [_ _ [_ _ R3 R4 _ _] _]. destruct (R3 t src ob Hm) as (Hs & _).
      destruct (R4 t b i 0 Hc) as (r0 & ob0 & j & E0 & Ej & Emv & Hle & Hw & Hlim). rewrite Hm in E0. inversion E0; subst r0 ob0.
      assert (Hne : rch a src <> []) by (intros E'; rewrite E' in Ej; destruct j; discriminate).
      destruct (JB_rec2 c g a tr t src J Hs Hne) as (_ & _ & [_ Ich Ind _ _ Iw (jc & ic & Icb & Ijc & Icc & Ew & Hnorm)] & _).
      rewrite Enx0 in E2. destruct (oeqb (Some b) (r_cb (grec g src))) eqn:Eo.
      + apply oeqb_eq in Eo. rewrite <- Eo in Icb. assert (j = jc) by (eapply chain_nth_inj; eauto; congruence). subst jc. lia.
      + destruct (is_chain_nth c g _ _ j b Ich Ej) as (Enx & _). rewrite E2 in Enx. symmetry in Enx. apply nth_error_None in Enx.
        assert (Hjl : j < List.length (rch a src)) by (apply nth_error_Some; congruence). nia.
  Qed.

  (** one cell leaves the source record *)
  Definition aux_take (a : AuxB) (t src b i n p : nat) : AuxB :=
    mkAuxB (fn (bvs a) t (set_pend (set_cur (bvs a t) (Some (b, S i, n))) (Some p))) (rbown a) (fn (wh a) p (LFly t))
           (rch a) (rw a) (fn (moved a) src (S (moved a src))) (dead a) (tl a).

  Lemma G_take g a tr t src ob b i n :
    vb_move (bvs a t) = Some (src, ob) -> vb_cur (bvs a t) = Some (b, i, S n) -> vb_pend (bvs a t) = None -> vb_dead (bvs a t) = None ->
    vb_s0 (bvs a t) = None -> vb_mine (bvs a t) <> Some src ->
    JB c g a tr -> JB c g (aux_take a t src b i n (nth i (rb_cells (grb g b)) 0)) tr.
  Proof.
    intros Hm Hc Hp Hd Hs0 Hmi J. set (p := nth i (rb_cells (grb g b)) 0).
    pose proof J as [O1 K1 R0 W0]. pose proof R0 as [R1 R2 R3 R4 R5 R6]. pose proof W0 as [W1 W2 W3 W4 W5 W6 W7 W8 W9]. pose proof O1 as [_ _ _ _ O5].
    destruct (R3 t src ob Hm) as (Hs & _).
    destruct (R4 t b i (S n) Hc) as (r0 & ob0 & j & E0 & Ej & Emv & Hle & Hw & Hlim). rewrite Hm in E0. inversion E0; subst r0 ob0. clear E0.
    assert (Hne : rch a src <> []) by (intros E; rewrite E in Ej; destruct j; discriminate).
    destruct (JB_rec2 c g a tr t src J Hs Hne) as (Hlt & Hal & I & Hrb & Hmw & _).
    destruct I as [_ Ich Ind _ _ Iw _].
    assert (Elen : List.length (flat g (rch a src)) = List.length (rch a src) * RB) by (eapply flat_length; eauto).
    assert (Ep : nth (moved a src) (flat g (rch a src)) 0 = p) by (rewrite Emv; eapply flat_nth; eauto; lia).
    assert (Eec : ec g a src = p :: skipn (S (moved a src)) (content g (rch a src) (rw a src))).
    { unfold ec, content. rewrite skipn_cons_nth by (rewrite firstn_length_le; lia). rewrite nth_firstn_lt by lia. now rewrite Ep. }
    assert (Hwp : wh a p = LRec src) by (apply (proj2 (W1 src Hlt)); rewrite Eec; now left).
    assert (Hnd : NoDup (ec g a src)) by (apply W1; exact Hlt). rewrite Eec in Hnd. inversion Hnd as [|x l Hnin Hnd']; subst.
    assert (Hexcl : forall t' r1 ob1, t' <> t -> vb_move (bvs a t') = Some (r1, ob1) -> r1 <> src).
    { intros t' r1 ob1 Nt H ->. destruct (R3 t' src ob1 H) as (Z & _). apply Nt. eapply JO_excl; eauto. }
    constructor.
    - eapply JO_frame with (g := g) (a := a); eauto. vwt t.
    - eapply JK_frame with (g := g) (a := a); eauto. vwt t.
    - constructor; cbn [aux_take bvs rbown rch rw moved dead].
      + intros r Hr. destruct (R1 r Hr) as [(Y1 & Y2 & Y3 & Y4)|(Q0 & Q2 & Q3 & Q4 & Q5)].
        * left. assert (N : r <> src) by (intros ->; contradiction). rewrite fn_other by exact N. auto.
        * right. split; auto. split; auto. split; auto. split.
          -- destruct (Nat.eq_dec r src) as [->|N]; [rewrite fn_same; lia|rewrite fn_other by exact N; exact Q4].
          -- destruct Q5 as [Q5|(t' & Q5)]; [left; exact Q5|right; exists t']. revert Q5. unfold fn. destruct (Nat.eqb_spec t' t) as [->|]; cbn; auto.
      + intros r Hmv. destruct (Nat.eq_dec r src) as [->|N]; [exists t, ob; rewrite fn_same; cbn; exact Hm|].
        rewrite fn_other in Hmv by exact N. destruct (R2 r Hmv) as (t' & ob' & K). exists t', ob'. unfold fn. destruct (Nat.eqb_spec t' t) as [->|]; cbn; auto.
      + intros t' r ob'. unfold fn at 1 2 3. destruct (Nat.eqb_spec t' t) as [->|Nt]; cbn.
        * intros E. rewrite Hm in E. inversion E; subst r ob'. split; auto. intros b' _ H. discriminate.
        * intros E. destruct (R3 t' r ob' E) as (Y1 & Y2). split; auto. rewrite fn_other; [exact Y2|]. eapply Hexcl; eauto.
      + intros t' b' i' n'. unfold fn at 1 2. destruct (Nat.eqb_spec t' t) as [->|Nt]; cbn.
        * intros E. inversion E; subst b' i' n'. exists src, ob, j. rewrite fn_same.
          split; [exact Hm|]. split; [exact Ej|]. split; [lia|]. split; [lia|]. split; [lia|]. cbn in Hlim |- *. rewrite <- Hlim. lia.
        * intros E. destruct (R4 t' b' i' n' E) as (r1 & ob1 & j1 & Y0 & Y). exists r1, ob1, j1. split; auto. rewrite fn_other; [exact Y|]. eapply Hexcl; eauto.
      + split.
        * intros t' r. unfold fn. destruct (Nat.eqb_spec t' t) as [->|]; cbn; apply R5.
        * intros r Hdd. destruct (proj2 R5 r Hdd) as (t' & K). exists t'. unfold fn. destruct (Nat.eqb_spec t' t) as [->|]; cbn; auto.
      + intros t' r. unfold fn. destruct (Nat.eqb_spec t' t) as [->|]; cbn; apply R6.
    - constructor; cbn [aux_take bvs wh].
      + intros r Hr. destruct (Nat.eq_dec r src) as [->|N].
        * assert (E : ec g (aux_take a t src b i n p) src = skipn (S (moved a src)) (content g (rch a src) (rw a src))).
          { unfold ec. cbn [aux_take moved rch rw]. now rewrite fn_same. }
          rewrite E. split; auto. intros q Hq. assert (Nq : q <> p) by (intros ->; contradiction). rewrite fn_other by exact Nq.
          apply (proj2 (W1 src Hlt)). rewrite Eec. now right.
        * assert (E : ec g (aux_take a t src b i n p) r = ec g a r) by (apply ec_ext; cbn [aux_take rch rw moved]; auto; rewrite fn_other by exact N; reflexivity).
          rewrite E. split; [apply W1; auto|]. intros q Hq. pose proof (proj2 (W1 r Hr) q Hq) as Y.
          assert (Nq : q <> p) by (intros ->; congruence). rewrite fn_other by exact Nq. exact Y.
      + intros t' q. unfold fn at 1 3. destruct (Nat.eqb_spec t' t) as [->|Nt]; cbn.
        * intros E. inversion E; subst q. rewrite fn_same. split; auto. intros H. rewrite (proj2 (W3 t) p H) in Hwp. discriminate.
        * intros E. destruct (W2 t' q E) as (Y1 & Y2). assert (Nq : q <> p) by (intros ->; congruence). rewrite fn_other by exact Nq. auto.
      + intros t'. assert (E : vb_freed (fn (bvs a) t (set_pend (set_cur (bvs a t) (Some (b, S i, n))) (Some p)) t') = vb_freed (bvs a t'))
          by (unfold fn; destruct (Nat.eqb_spec t' t) as [->|]; auto).
        rewrite E. split; [apply W3|]. intros q Hq. assert (Nq : q <> p) by (intros ->; rewrite (proj2 (W3 t') p Hq) in Hwp; discriminate).
        rewrite fn_other by exact Nq. now apply W3.
      + split; [apply W4|]. intros q Hq. assert (Nq : q <> p) by (intros ->; rewrite (proj2 W4 p Hq) in Hwp; discriminate). rewrite fn_other by exact Nq. now apply W4.
      + intros q. destruct (Nat.eq_dec q p) as [->|Nq]; [intros _; apply W5; congruence|]. rewrite fn_other by exact Nq. apply W5.
      + intros t' r. cbn [aux_take bvs moved rw]. intros Hm' Hc'.
        destruct (Nat.eq_dec t' t) as [->|Nt]; [rewrite fn_same in Hc'; cbn in Hc'; discriminate|]. rewrite fn_other in Hm', Hc' by exact Nt.
        assert (N : r <> src) by (eapply Hexcl; eauto). rewrite fn_other by exact N. apply (W6 t' r); auto.
      + intros Hoob. destruct (W7 Hoob) as [C1 C2 C3 C4 C5 C6 C7]. constructor; cbn [aux_take bvs wh tl rch].
        * intros q Hq. destruct (Nat.eq_dec q p) as [->|Nq]; [rewrite fn_same; discriminate|]. rewrite fn_other by exact Nq. now apply C1.
        * intros q r. destruct (Nat.eq_dec q p) as [->|Nq]; [rewrite fn_same; discriminate|]. rewrite fn_other by exact Nq.
          intros H. destruct (C2 q r H) as (X1 & X2). split; auto. destruct (Nat.eq_dec r src) as [->|N].
          -- assert (E : ec g (aux_take a t src b i n p) src = skipn (S (moved a src)) (content g (rch a src) (rw a src))).
             { unfold ec. cbn [aux_take moved rch rw]. now rewrite fn_same. }
             rewrite E. rewrite Eec in X2. destruct X2 as [X2|X2]; [congruence|exact X2].
          -- assert (E : ec g (aux_take a t src b i n p) r = ec g a r) by (apply ec_ext; cbn [aux_take rch rw moved]; auto; rewrite fn_other by exact N; reflexivity).
             rewrite E. exact X2.
        * intros q t'. destruct (Nat.eq_dec q p) as [->|Nq].
          -- rewrite fn_same. intros E. inversion E; subst t'. rewrite fn_same. cbn. split; auto. intros E0. rewrite E0 in Hs. contradiction.
          -- rewrite fn_other by exact Nq. intros H. destruct (C3 q t' H) as (X1 & X2). unfold fn. destruct (Nat.eqb_spec t' t) as [->|]; cbn; auto.
             split; auto. destruct X1 as [X1|X1]; [congruence|now right].
        * intros q. destruct (Nat.eq_dec q p) as [->|Nq]; [rewrite fn_same; discriminate|]. rewrite fn_other by exact Nq. apply C4.
        * intros r Hr. destruct (C5 r Hr) as [X|(t' & nx & X)]; [now left|right; exists t', nx].
          unfold fn. destruct (Nat.eqb_spec t' t) as [->|]; cbn; auto.
        * intros t' r nx H. apply (C6 t' r nx). revert H. unfold fn. destruct (Nat.eqb_spec t' t) as [->|]; cbn; auto.
        * intros t' r' H. assert (H' : vb_arr (bvs a t') = Some r') by (revert H; unfold fn; destruct (Nat.eqb_spec t' t) as [->|]; cbn; auto).
          destruct (C7 t' r' H') as (X1 & X2). split; [unfold fn; destruct (Nat.eqb_spec t' t) as [->|]; cbn; auto|exact X2].
      + exact W8.
      + destruct W9 as [H1 H2 H3]. constructor; cbn [aux_take bvs wh].
        * intros t' r' E. assert (E' : vb_mine (bvs a t') = Some r') by (revert E; unfold fn; destruct (Nat.eqb_spec t' t) as [->|]; cbn; auto).
          destruct (H1 t' r' E') as (X1 & X2 & X3). split; [unfold fn; destruct (Nat.eqb_spec t' t) as [->|]; cbn; auto|]. split; auto.
          intros q Hq. destruct (Nat.eq_dec q p) as [->|Nq]; [|rewrite fn_other by exact Nq; auto].
          exfalso. destruct (X3 p Hq) as [Y|[Y|Y]]; try congruence. rewrite Hwp in Y. inversion Y; subst r'.
          assert (t = t') by (eapply (JO_excl g a t t' src); eauto). subst t'. contradiction.
        * intros t' r' E. specialize (H2 t' r' E). revert H2. unfold fn. destruct (Nat.eqb_spec t' t) as [->|]; cbn; auto.
        * intros t' r'. unfold fn. destruct (Nat.eqb_spec t' t) as [->|]; cbn; [|apply H3]. intros E. rewrite Hs0 in E. discriminate.
  Qed.

  (** ** ghost steps on [vb_arr]: the thread notes that the record it is attached to has a retired array / forgets it *)
  Lemma JW_setv_arr g a ds rt tr t v :
    vb_pend v = vb_pend (bvs a t) -> vb_freed v = vb_freed (bvs a t) -> vb_new v = vb_new (bvs a t) -> vb_own v = vb_own (bvs a t) ->
    vb_move v = vb_move (bvs a t) -> vb_cur v = vb_cur (bvs a t) ->
    (forall r, vb_arr v = Some r -> vb_arr (bvs a t) = Some r \/ (In r (vb_own v) /\ rch a r <> [])) ->
    vb_mine v = vb_mine (bvs a t) -> vb_s0 v = vb_s0 (bvs a t) ->
    JW g a ds rt tr -> JW g (setv a t v) ds rt tr.
  Proof.
    intros E1 E2 E5 E6 E3 E4 E7 E8 E9 [J1 J2 J3 J4 J5 J6 J7 J8 J9]. constructor; cbn [setv bvs wh].
    - intros r Hr. change (ec g (setv a t v) r) with (ec g a r). apply J1; auto.
    - intros t' p. unfold fn. destruct (Nat.eqb_spec t' t) as [->|]; [rewrite E1, E2|]; apply J2.
    - intros t'. unfold fn. destruct (Nat.eqb_spec t' t) as [->|]; [rewrite E2|]; apply J3.
    - exact J4.
    - exact J5.
    - intros t' r. cbn [setv bvs moved rw]. unfold fn. destruct (Nat.eqb_spec t' t) as [->|]; [rewrite E3, E4|]; apply J6.
    - intros Hoob. destruct (J7 Hoob) as [C1 C2 C3 C4 C5 C6 C7]. constructor; cbn [setv bvs wh tl rch].
      + exact C1.
      + intros p r H. change (ec g (setv a t v) r) with (ec g a r). now apply C2.
      + intros p t' H. destruct (C3 p t' H) as (X1 & X2). unfold fn. destruct (Nat.eqb_spec t' t) as [->|]; [|auto].
        rewrite E1, E2, E6. auto.
      + exact C4.
      + intros r Hr. destruct (C5 r Hr) as [X|(t' & nx & X)]; [now left|right; exists t', nx].
        unfold fn. destruct (Nat.eqb_spec t' t) as [->|]; [rewrite E5|]; auto.
      + intros t' r nx. unfold fn. destruct (Nat.eqb_spec t' t) as [->|]; [rewrite E5|]; apply C6.
      + intros t' r. unfold fn. destruct (Nat.eqb_spec t' t) as [->|]; [|apply C7].
        intros H. destruct (E7 r H) as [H'|H']; [|exact H']. rewrite E6. apply C7. exact H'.
    - exact J8.
    - apply (JH_frame a _ tr tr); auto. intros t'. cbn [bvs setv]. unfold fn. destruct (Nat.eqb_spec t' t) as [->|]; auto; try solve [unfold HV; rewrite E1, E2, E6, E8, E9; repeat split; auto].
  Qed.

  Lemma S_setarr g a tr t x :
    (forall r, x = Some r -> In r (vb_own (bvs a t)) /\ rch a r <> []) ->
    JB c g a tr -> JB c g (setv a t (set_arr (bvs a t) x)) tr.
  Proof.
    intros Hx [O1 K1 R1 W1]. constructor.
    - apply JO_setv; auto.
    - apply JK_setv; auto.
    - apply JR_setv; auto.
    - apply JW_setv_arr; auto.
  Qed.

  (** a record that is owned, not being torn down and has list_head_ != nullptr has an array *)
  Lemma arr_of_head g a tr t r : JB c g a tr -> In r (vb_own (bvs a t)) -> vb_dead (bvs a t) <> Some r ->
    r_head (grec g r) <> None -> rch a r <> [].
  Proof.
    intros J Hr Hd Hh E. destruct (JB_rec1 c g a tr t r J Hr Hd E) as (X & _). contradiction.
  Qed.

  (** ** ghost steps on the history fields [vb_mine], [vb_s0]: an event of thread t together with a change of the two
         fields of its view; the history clause of the result is proved by the caller *)
  Lemma S_evH g a tr t e m s :
    disposed_ev e = [] -> retired_ev e = [] -> freeh (hstep (hist tr) (t, e)) FRt = freeh (hist tr) FRt ->
    JH (setv a t (set_s0 (set_mine (bvs a t) m) s)) (tr ++ Conc.tag t [e]) ->
    JB c g a tr -> JB c g (setv a t (set_s0 (set_mine (bvs a t) m) s)) (tr ++ Conc.tag t [e]).
  Proof.
    intros E1 E2 E3 H [O1 K1 R1 W1]. constructor.
    - apply JO_setv; auto.
    - change (Conc.tag t [e]) with [(t, e)]. rewrite hist_snoc, E3. apply JK_setv; auto.
    - apply JR_setv; auto.
    - rewrite disposed_tr_app. change (disposed_tr (Conc.tag t [e])) with (disposed_ev e ++ []). rewrite E1, app_nil_r.
      rewrite retired_tr_app. change (retired_tr (Conc.tag t [e])) with (retired_ev e ++ []). rewrite E2, !app_nil_r.
      destruct W1 as [J1 J2 J3 J4 J5 J6 J7 J8 J9]. constructor; cbn [setv bvs wh]; auto.
      + intros t' p. unfold fn. destruct (Nat.eqb_spec t' t) as [->|]; cbn; apply J2.
      + intros t'. unfold fn. destruct (Nat.eqb_spec t' t) as [->|]; cbn; apply J3.
      + intros t' r. cbn [setv bvs moved rw]. unfold fn. destruct (Nat.eqb_spec t' t) as [->|]; cbn; apply J6.
      + intros Hoob. destruct (J7 Hoob) as [C1 C2 C3 C4 C5 C6 C7]. constructor; cbn [setv bvs wh tl rch]; auto.
        * intros p t' Hp. destruct (C3 p t' Hp) as (X1 & X2). unfold fn. destruct (Nat.eqb_spec t' t) as [->|]; cbn; auto.
        * intros r Hr. destruct (C5 r Hr) as [X|(t' & nx & X)]; [now left|right; exists t', nx].
          unfold fn. destruct (Nat.eqb_spec t' t) as [->|]; cbn; auto.
        * intros t' r nx. unfold fn. destruct (Nat.eqb_spec t' t) as [->|]; cbn; apply C6.
        * intros t' r. unfold fn. destruct (Nat.eqb_spec t' t) as [->|]; cbn; apply C7.
  Qed.

  (** the "_att r" event: from here on the thread counts what it retires *)
  Lemma S_att g a tr t r :
    In r (vb_own (bvs a t)) -> vb_s0 (bvs a t) = None ->
    JB c g a tr -> JB c g (setv a t (set_s0 (set_mine (bvs a t) (Some r)) None)) (tr ++ Conc.tag t [ev_att r]).
  Proof.
    intros Hr Hs0 J. apply S_evH; auto; try solve [unfold disposed_ev; now rewrite classify_att]; try solve [rewrite hstep_att; reflexivity].
    destruct J as [_ _ _ [_ _ _ _ _ _ _ _ [H1 H2 H3]]]. change (Conc.tag t [ev_att r]) with [(t, ev_att r)].
      constructor; cbn [setv bvs wh].
      + intros t' r'. destruct (Nat.eq_dec t' t) as [->|Nt].
        * rewrite fn_same. cbn. intros E. inversion E; subst r'. rewrite DhpConsSTrace.latt_snoc, DhpConsSTrace.mine_snoc, classify_att.
          split; auto. split; auto. intros p [].
        * rewrite fn_other by exact Nt. rewrite DhpConsSTrace.latt_snoc_other, DhpConsSTrace.mine_snoc_other by auto. apply H1.
      + intros t' r'. destruct (Nat.eq_dec t' t) as [->|Nt]; [rewrite DhpConsSTrace.lsb_snoc, classify_att; discriminate|].
        rewrite DhpConsSTrace.lsb_snoc_other, fn_other by auto. apply H2.
      + intros t' r'. destruct (Nat.eq_dec t' t) as [->|Nt]; [rewrite fn_same; cbn; discriminate|]. rewrite fn_other by auto. apply H3.
  Qed.

  (** the "_scanb r" event *)
  Lemma S_scanb g a tr t r :
    vb_pend (bvs a t) = None -> vb_freed (bvs a t) = [] -> vb_mine (bvs a t) = Some r ->
    JB c g a tr -> JB c g (setv a t (set_s0 (set_mine (bvs a t) (Some r)) (Some r))) (tr ++ Conc.tag t [ev_scanb r]).
  Proof.
    intros Hp Hf Hm J. apply S_evH; auto; try solve [unfold disposed_ev; now rewrite classify_scanb]; try solve [rewrite hstep_scanb; reflexivity].
    destruct J as [_ _ _ [_ _ _ _ _ _ _ _ [H1 H2 H3]]]. change (Conc.tag t [ev_scanb r]) with [(t, ev_scanb r)].
      constructor; cbn [setv bvs wh].
      + intros t' r'. destruct (Nat.eq_dec t' t) as [->|Nt].
        * rewrite fn_same. cbn. intros E. inversion E; subst r'. rewrite DhpConsSTrace.latt_snoc, DhpConsSTrace.mine_snoc, classify_scanb.
          destruct (H1 t r Hm) as (X1 & X2 & X3). split; auto.
        * rewrite fn_other by exact Nt. rewrite DhpConsSTrace.latt_snoc_other, DhpConsSTrace.mine_snoc_other by auto. apply H1.
      + intros t' r'. destruct (Nat.eq_dec t' t) as [->|Nt]; [rewrite DhpConsSTrace.lsb_snoc, classify_scanb, fn_same; cbn; auto|].
        rewrite DhpConsSTrace.lsb_snoc_other, fn_other by auto. apply H2.
      + intros t' r'. destruct (Nat.eq_dec t' t) as [->|Nt]; [rewrite fn_same; cbn; intros E; inversion E; subst; auto|]. rewrite fn_other by auto. apply H3.
  Qed.

  (** the first access after "_scanb r" *)
  Lemma S_s0clr g a tr t e m :
    classify e = HOther -> retired_ev e = [] -> (forall r, m = Some r -> vb_mine (bvs a t) = Some r) ->
    JB c g a tr -> JB c g (setv a t (set_s0 (set_mine (bvs a t) m) None)) (tr ++ Conc.tag t [e]).
  Proof.
    intros Ec Er Hm J. apply S_evH; auto; try solve [unfold disposed_ev; now rewrite Ec]; try solve [rewrite hstep_other by exact Ec; reflexivity].
    destruct J as [_ _ _ [_ _ _ _ _ _ _ _ [H1 H2 H3]]]. change (Conc.tag t [e]) with [(t, e)].
      constructor; cbn [setv bvs wh].
      + intros t' r'. destruct (Nat.eq_dec t' t) as [->|Nt].
        * rewrite fn_same. cbn. intros E. rewrite DhpConsSTrace.latt_snoc, DhpConsSTrace.mine_snoc, Ec, Er. cbn [app]. apply H1. apply Hm. exact E.
        * rewrite fn_other by exact Nt. rewrite DhpConsSTrace.latt_snoc_other, DhpConsSTrace.mine_snoc_other by auto. apply H1.
      + intros t' r'. destruct (Nat.eq_dec t' t) as [->|Nt]; [rewrite DhpConsSTrace.lsb_snoc, Ec; discriminate|].
        rewrite DhpConsSTrace.lsb_snoc_other, fn_other by auto. apply H2.
      + intros t' r'. destruct (Nat.eq_dec t' t) as [->|Nt]; [rewrite fn_same; cbn; discriminate|]. rewrite fn_other by auto. apply H3.
  Qed.

  (** the same without event *)
  Lemma S_setH g a tr t m s :
    JH (setv a t (set_s0 (set_mine (bvs a t) m) s)) tr ->
    JB c g a tr -> JB c g (setv a t (set_s0 (set_mine (bvs a t) m) s)) tr.
  Proof.
    intros H [O1 K1 R1 W1]. constructor.
    - apply JO_setv; auto.
    - apply JK_setv; auto.
    - apply JR_setv; auto.
    - destruct W1 as [J1 J2 J3 J4 J5 J6 J7 J8 J9]. constructor; cbn [setv bvs wh]; auto.
      + intros t' p. unfold fn. destruct (Nat.eqb_spec t' t) as [->|]; cbn; apply J2.
      + intros t'. unfold fn. destruct (Nat.eqb_spec t' t) as [->|]; cbn; apply J3.
      + intros t' r. cbn [setv bvs moved rw]. unfold fn. destruct (Nat.eqb_spec t' t) as [->|]; cbn; apply J6.
      + intros Hoob. destruct (J7 Hoob) as [C1 C2 C3 C4 C5 C6 C7]. constructor; cbn [setv bvs wh tl rch]; auto.
        * intros p t' Hp. destruct (C3 p t' Hp) as (X1 & X2). unfold fn. destruct (Nat.eqb_spec t' t) as [->|]; cbn; auto.
        * intros r Hr. destruct (C5 r Hr) as [X|(t' & nx & X)]; [now left|right; exists t', nx].
          unfold fn. destruct (Nat.eqb_spec t' t) as [->|]; cbn; auto.
        * intros t' r nx. unfold fn. destruct (Nat.eqb_spec t' t) as [->|]; cbn; apply C6.
        * intros t' r. unfold fn. destruct (Nat.eqb_spec t' t) as [->|]; cbn; apply C7.
  Qed.

  (** the thread gives its record up: it stops counting *)
  Lemma S_mineclr g a tr t : vb_s0 (bvs a t) = None ->
    JB c g a tr -> JB c g (setv a t (set_s0 (set_mine (bvs a t) None) None)) tr.
  Proof.
    intros Hs0 J. apply S_setH; auto. destruct J as [_ _ _ [_ _ _ _ _ _ _ _ [H1 H2 H3]]]. constructor; cbn [setv bvs wh].
    - intros t' r'. destruct (Nat.eq_dec t' t) as [->|Nt]; [rewrite fn_same; cbn; discriminate|]. rewrite fn_other by exact Nt. apply H1.
    - intros t' r' E. specialize (H2 t' r' E). destruct (Nat.eq_dec t' t) as [->|Nt]; [congruence|]. now rewrite fn_other.
    - intros t' r'. destruct (Nat.eq_dec t' t) as [->|Nt]; [rewrite fn_same; cbn; discriminate|]. rewrite fn_other by auto. apply H3.
  Qed.
End StepsB10.
