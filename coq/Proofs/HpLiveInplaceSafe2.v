(** * [Inv3] is preserved by the programs of the HP model that contain no scan ([rsafe] proofs; the scans are in
      HpLiveInplaceSafe.v, the assembly in HpLiveInplaceGlue.v). *)
From Coq Require Import ZArith List String Bool Lia PeanoNat.
From LV Require Import Base.Conc Base.Events Model.Hp Proofs.HpTrace Proofs.HpInv Proofs.HpSteps Proofs.HpLocal
  Proofs.HpSafe Proofs.HpProofs Proofs.HpLiveCopyRule Proofs.HpLiveCopyInv Proofs.HpLiveInplaceRule Proofs.HpLiveInplaceInv
  Proofs.HpLiveInplaceSafe.
Import ListNotations.
Local Open Scope string_scope.
Local Open Scope list_scope.

Section Safe3b.
  Variable c : cfgT.
  Notation rs := (rs c).
  Notation rs_bind := (rs_bind c).
  Notation rs_qact := (rs_qact c).
  Notation rs_qemit := (rs_qemit c).
  Notation II_facts := (II_facts c).

  Lemma inv3_upd_na g g' a tr t es sc cp :
    Inv3 c g a tr -> (forall e, In e es -> q2 e = true) ->
    (forall st, sc = Some st -> scan_ok (tr ++ Conc.tag t es) t st) ->
    cp_ok (tr ++ Conc.tag t es) t cp ->
    Inv3 c g' (upd3 a t (mkV3 sc cp None)) (tr ++ Conc.tag t es).
  Proof. intros HI Hq Hs Hc. apply (inv3_upd c g); auto. intros l E. discriminate. Qed.

  Lemma inv3_upd_gen_na g g' a tr t es sc cp :
    Inv3 c g a tr ->
    (forall st, sc = Some st -> scan_ok (tr ++ Conc.tag t es) t st) ->
    cp_ok (tr ++ Conc.tag t es) t cp ->
    (forall k p, nth_error es k = Some (ev_dispose p) ->
       forall s, last_sb (firstn (List.length tr + k) (tr ++ Conc.tag t es)) t = Some s ->
       (cInplace c = true -> retire_once (firstn (List.length tr + k) (tr ++ Conc.tag t es))) -> p <> 0%Z ->
       forall r, ~ chain (firstn (S (List.length tr + k)) (tr ++ Conc.tag t es)) s r p) ->
    (forall k, nth_error es k = Some (EvCli "copied" []) -> copied_ok (firstn (List.length tr + k) (tr ++ Conc.tag t es)) t) ->
    Inv3 c g' (upd3 a t (mkV3 sc cp None)) (tr ++ Conc.tag t es).
  Proof. intros HI Hs Hc Hd Hk. apply (inv3_upd_gen c g); auto. intros l E. discriminate. Qed.

  Ltac qa :=
    let g := fresh "g" in let e := fresh "e" in let He := fresh "He" in
    intros g e He; unfold a_cas_owner, a_cas_head in He; cbn in He;
    repeat match type of He with context [if ?b then _ else _] => destruct b; cbn in He end;
    repeat (destruct He as [He|He]; [subst e; reflexivity|]); contradiction.
  Ltac qe :=
    let e := fresh "e" in let He := fresh "He" in
    intros e He; cbn in He; repeat (destruct He as [He|He]; [subst e; reflexivity|]); contradiction.
  Ltac qact := apply rs_qact; [qa|reflexivity|].
  Ltac qemit := apply rs_qemit; [qe|reflexivity|].

  (** ** the other programs *)
  Lemma rs_push t r p l (Q : option bool -> view3T -> Prop) :
    v3_cp l = CNone -> (forall o, Q o l) -> rs t (push c r p) l Q.
  Proof.
    intros Hcp HQ. unfold push. apply rs_qact; [qa|exact Hcp|]. intros v. cbv zeta.
    destruct (cR c <=? List.length (vL v))%nat.
    - apply rs_qemit; [qe|exact Hcp|]. apply HQ.
    - apply rs_qact; [qa|exact Hcp|]. intros _. apply HQ.
  Qed.





  Lemma rs_clear_loop t r js (Q : unit -> view3T -> Prop) : Q tt W0 -> rs t (clear_loop r js) W0 Q.
  Proof. intros HQ. induction js as [|j js IH]; cbn [clear_loop]; [exact HQ|]. qact. intros _. exact IH. Qed.


  Lemma rs_reuse_loop t l (Q : option nat -> view3T -> Prop) : (forall o, Q o W0) -> rs t (reuse_loop l) W0 Q.
  Proof.
    intros HQ. induction l as [|r l' IH]; cbn [reuse_loop]; [apply HQ|].
    qact. intros v. destruct (vB v); [|exact IH]. qemit. qact. intros _. apply HQ.
  Qed.

  Lemma rs_push_loop t fuel : forall r exp (Q : bool -> view3T -> Prop), (forall b, Q b W0) -> rs t (push_loop fuel r exp) W0 Q.
  Proof.
    induction fuel as [|f IH]; intros r exp Q HQ; cbn [push_loop]; [apply HQ|].
    qact. intros v. destruct (vB v); [|now apply IH]. qemit. apply HQ.
  Qed.

  Lemma rs_alloc t (Q : option nat -> view3T -> Prop) : (forall o, Q o W0) -> rs t (alloc_thread_data c) W0 Q.
  Proof.
    intros HQ. unfold alloc_thread_data. qact. intros v. apply rs_bind. apply rs_reuse_loop. intros [r|]; [apply HQ|].
    qact. intros v1. qact. intros v2. apply rs_bind. apply rs_push_loop. intros b. apply HQ.
  Qed.

  Lemma rs_assign t r j p (Q : unit -> view3T -> Prop) : Q tt W0 -> rs t (assign r j p) W0 Q.
  Proof. intros HQ. unfold assign. qact. intros _. qact. intros _. exact HQ. Qed.
  Lemma rs_clear t r j (Q : unit -> view3T -> Prop) : Q tt W0 -> rs t (clear r j) W0 Q.
  Proof. intros HQ. unfold clear. qact. intros _. exact HQ. Qed.
  Lemma rs_protect_loop t fuel : forall r j k pcur (Q : option Z -> view3T -> Prop),
    (forall o, Q o W0) -> rs t (protect_loop fuel r j k pcur) W0 Q.
  Proof.
    induction fuel as [|f IH]; intros r j k pcur Q HQ; cbn [protect_loop]; [apply HQ|].
    qact. intros _. qact. intros _. qact. intros v. destruct (vZ v =? pcur)%Z; [apply HQ|now apply IH].
  Qed.
  Lemma rs_protect t r j k (Q : option Z -> view3T -> Prop) : (forall o, Q o W0) -> rs t (protect c r j k) W0 Q.
  Proof. intros HQ. unfold protect. qact. intros v. now apply rs_protect_loop. Qed.

  (** ** Guard::copy as a client operation: "copy j i" ... "copied" *)
  Lemma nth_error_snoc_last {A} (l : list A) x : nth_error (l ++ [x]) (List.length l) = Some x.
  Proof. rewrite nth_error_app2 by lia. now rewrite Nat.sub_diag. Qed.
  Lemma nth_error_app_old {A} (l l' : list A) m x : nth_error l m = Some x -> nth_error (l ++ l') m = Some x.
  Proof. intros H. rewrite nth_error_app1; [exact H|]. eapply nth_error_lt_length; eauto. Qed.

  Lemma rs_copy_op {R} t r j i (x0 : R) (Q : R -> view3T -> Prop) :
    Q x0 W0 ->
    rs t (Emit [cli "copy" [zn j; zn i]] (Conc.bind (copy r j i) (fun _ => Emit [cli "copied" []] (Ret x0)))) W0 Q.
  Proof.
    intros HQ. unfold rs. cbn [rsafe]. intros g a tr HI Hv _ _. unfold view3 in Hv.
    exists (upd3 a t (mkV3 None (CStart (List.length tr) j i) None)). split; [|split; [apply frame_upd3|]].
    { apply (inv3_upd_na g); [exact HI|intros e [<-|[]]; reflexivity|intros st E; discriminate|].
      cbn [v3_cp cp_ok Conc.tag map]. split; [apply nth_error_snoc_last|].
      intros m e Hm Hn. apply nth_error_lt_length in Hn. rewrite app_length in Hn. cbn in Hn. lia. }
    unfold view3. rewrite upd3_same. unfold copy. cbn [Conc.bind]. cbn [rsafe].
    intros g1 a1 tr1 HI1 Hv1 Hb1 _. unfold view3 in Hv1. cbn [a_ld_slot fst snd vZ].
    destruct (II_facts g1 tr1 Hb1) as (Fs1 & _).
    pose proof (k_cp _ _ _ _ HI1 t) as Hcp1. rewrite Hv1 in Hcp1. cbn [v3_cp cp_ok] in Hcp1. destruct Hcp1 as (C1 & C2).
    set (c0 := List.length tr) in *. set (x := gslot g1 r i).
    exists (upd3 a1 t (mkV3 None (CLoaded c0 j i r (List.length tr1) x) None)). split; [|split; [apply frame_upd3|]].
    { apply (inv3_upd_na g1); [exact HI1|intros e [<-|[]]; reflexivity|intros st E; discriminate|].
      cbn [v3_cp cp_ok Conc.tag map]. pose proof (nth_error_lt_length _ _ _ C1) as Hc0.
      split; [now apply nth_error_app_old|]. split; [exact Hc0|]. split; [apply nth_error_snoc_last|].
      split; [rewrite firstn_app_le by lia; rewrite firstn_all; unfold x; now rewrite Fs1|].
      intros m e Hm Hn. destruct (Nat.lt_ge_cases m (List.length tr1)) as [Hl|Hl].
      - rewrite nth_error_app1 in Hn by exact Hl. exfalso. eapply C2; eauto.
      - rewrite nth_error_app2 in Hn by exact Hl. destruct (m - List.length tr1) as [|m']; cbn in Hn; [|destruct m'; discriminate].
        inversion Hn; subst e. reflexivity. }
    unfold view3. rewrite upd3_same. unfold assign. cbn [Conc.bind rsafe].
    intros g2 a2 tr2 HI2 Hv2 _ _. unfold view3 in Hv2. cbn [a_st_slot fst snd].
    pose proof (k_cp _ _ _ _ HI2 t) as Hcp2. rewrite Hv2 in Hcp2. cbn [v3_cp cp_ok] in Hcp2.
    destruct Hcp2 as (D1 & D2 & D3 & D4 & D5). set (ld := List.length tr1) in *.
    exists (upd3 a2 t (mkV3 None (CStored c0 j i r ld x (S (List.length tr2))) None)). split; [|split; [apply frame_upd3|]].
    { apply (inv3_upd_na g2); [exact HI2|intros e [<-|[<-|[]]]; reflexivity|intros st E; discriminate|].
      cbn [v3_cp cp_ok Conc.tag map]. pose proof (nth_error_lt_length _ _ _ D3) as Hld.
      split; [now apply nth_error_app_old|]. split; [exact D2|]. split; [lia|]. split; [now apply nth_error_app_old|].
      split; [rewrite firstn_app_le by lia; exact D4|].
      split; [rewrite nth_error_app2 by lia; replace (S (List.length tr2) - List.length tr2) with 1 by lia; reflexivity|].
      intros m e Hm Hn Hmw. destruct (Nat.lt_ge_cases m (List.length tr2)) as [Hl|Hl].
      - rewrite nth_error_app1 in Hn by exact Hl. eapply D5; eauto.
      - rewrite nth_error_app2 in Hn by exact Hl. destruct (m - List.length tr2) as [|m'] eqn:Em; cbn in Hn.
        + inversion Hn; subst e. reflexivity.
        + exfalso. destruct m'; [lia|]. destruct m'; discriminate. }
    unfold view3. rewrite upd3_same. cbn [rsafe].
    intros g3 a3 tr3 HI3 Hv3 _ _. unfold view3 in Hv3. cbn [a_faa_sync fst snd].
    pose proof (k_cp _ _ _ _ HI3 t) as Hcp3. rewrite Hv3 in Hcp3. cbn [v3_cp cp_ok] in Hcp3.
    destruct Hcp3 as (E1 & E2 & E3 & E4 & E5 & E6 & E7). set (w := S (List.length tr2)) in *.
    exists (upd3 a3 t (mkV3 None (CStored c0 j i r ld x w) None)). split; [|split; [apply frame_upd3|]].
    { apply (inv3_upd_na g3); [exact HI3|intros e [<-|[]]; reflexivity|intros st E; discriminate|].
      cbn [v3_cp cp_ok Conc.tag map]. pose proof (nth_error_lt_length _ _ _ E4) as Hld. pose proof (nth_error_lt_length _ _ _ E6) as Hw.
      split; [now apply nth_error_app_old|]. split; [exact E2|]. split; [exact E3|]. split; [now apply nth_error_app_old|].
      split; [rewrite firstn_app_le by lia; exact E5|]. split; [now apply nth_error_app_old|].
      intros m e Hm Hn Hmw. destruct (Nat.lt_ge_cases m (List.length tr3)) as [Hl|Hl].
      - rewrite nth_error_app1 in Hn by exact Hl. eapply E7; eauto.
      - rewrite nth_error_app2 in Hn by exact Hl. destruct (m - List.length tr3) as [|m']; cbn in Hn; [|destruct m'; discriminate].
        inversion Hn; subst e. reflexivity. }
    unfold view3. rewrite upd3_same. cbn [rsafe].
    intros g4 a4 tr4 HI4 Hv4 _ _. unfold view3 in Hv4.
    pose proof (k_cp _ _ _ _ HI4 t) as Hcp4. rewrite Hv4 in Hcp4. cbn [v3_cp] in Hcp4.
    exists (upd3 a4 t W0). split; [|split; [apply frame_upd3|]].
    { apply (inv3_upd_gen_na g4); [exact HI4|intros st E; discriminate|exact I| |].
      - intros k p Hk. exfalso. destruct k as [|[|k]]; cbn in Hk; discriminate.
      - intros k Hk. destruct k as [|k]; [|destruct k; discriminate]. rewrite Nat.add_0_r. rewrite firstn_app_le by lia. rewrite firstn_all.
        exists c0, j, i, r, ld, x, w. exact Hcp4. }
    unfold view3. rewrite upd3_same. cbn [rsafe]. exact HQ.
  Qed.


  (** ** client operations without a scan *)
  Definition op_post3 (x : option local) (l : view3T) : Prop := l = W0.
  Definition leaf_op (o : op) : bool :=
    match o with ODetach | OPublish _ _ | ORetire _ | OScan => false | _ => true end.

  Lemma rs_skip t lo : rs t (Emit [cli "skip" []] (Ret (Some lo))) W0 op_post3.
  Proof. qemit. reflexivity. Qed.

  Lemma rs_run_op_leaf t lo o : leaf_op o = true -> rs t (run_op c lo o) W0 op_post3.
  Proof.
    intros Hleaf. pose proof (rs_skip t lo) as Hskip.
    destruct o; cbn [run_op]; try discriminate.
    - (* attach *) qemit. destruct (l_rec lo) as [r|].
      + qemit. reflexivity.
      + apply rs_bind. apply rs_alloc. intros [r|]; qemit; reflexivity.
    - destruct (l_rec lo) as [r|]; [|exact Hskip]. destruct (negb (op_valid c (OProtect j k))); [exact Hskip|].
      qemit. apply rs_bind. apply rs_protect. intros [p|]; qemit; reflexivity.
    - destruct (l_rec lo) as [r|]; [|exact Hskip]. destruct (negb (op_valid c (OAssign j o))); [exact Hskip|].
      qemit. apply rs_bind. destruct (o =? 0)%Z; [apply rs_clear|apply rs_assign]; qemit; reflexivity.
    - destruct (l_rec lo) as [r|]; [|exact Hskip]. destruct (negb (op_valid c (OClear j))); [exact Hskip|].
      qemit. apply rs_bind. apply rs_clear. qemit. reflexivity.
    - destruct (l_rec lo) as [r|]; [|exact Hskip]. destruct (negb (op_valid c (OTouch j))); [exact Hskip|].
      qemit. reflexivity.
    - destruct (l_rec lo) as [r|]; [|exact Hskip]. destruct (negb (op_valid c (OCopy j i))); [exact Hskip|].
      apply rs_copy_op. reflexivity.
  Qed.
End Safe3b.
