(** * LazyListInv: structural invariant of the LazyList model (LV.Model.LazyList).

    Auxiliary state: [a_pub] (nodes linked at some time), [a_succ c] = the successor saved by the thread that is
    between the two stores of unlink_node on [c] (c is marked, its m_pNext already points back to the head, its
    predecessor still points to it), per thread a view: published nodes it knows with their keys, the node spin
    locks it holds with what it read under the lock, its own unlinked node, the hole it has open.

    The logical chain follows [gnext] (= m_pNext, except for a node with a ghost successor).  Only the holder of a
    node's lock writes its m_pNext / mark ([s_held], [s_excl]); an unlinked node is written by its owner only. *)
From Coq Require Import ZArith List String Bool Lia PeanoNat.
From LV Require Import Base.Conc Base.Events.
From LV Require Import Model.LazyList Proofs.LazyListBase.
Import ListNotations.
Local Open Scope Z_scope.

Inductive fact := FPub (n : nat) (k : Z).

Definition obs := option (nat * bool).

Record lview := mkLV {
  lv_facts : list fact;
  lv_held : list (nat * obs);              (* locks held, with the (next, mark) read or written under the lock *)
  lv_own : option (nat * Z * nat);         (* my unlinked node: id, key, value of its next field *)
  lv_hole : option (nat * nat * nat)       (* (pred, cur, saved next): between the two stores of unlink_node *)
}.

Record aux := mkAux { a_pub : nat -> bool; a_succ : nat -> option nat; a_views : nat -> lview }.
Definition view (a : aux) (t : nat) : lview := a_views a t.

Definition mk_a (a : aux) (t : nat) (pub' : nat -> bool) (succ' : nat -> option nat) (lv' : lview) : aux :=
  mkAux pub' succ' (fun u => if Nat.eqb u t then lv' else a_views a u).

Lemma view_mk_same a t pub' succ' lv' : view (mk_a a t pub' succ' lv') t = lv'.
Proof. unfold view, mk_a; cbn. now rewrite Nat.eqb_refl. Qed.
Lemma view_mk_other a t pub' succ' lv' u : u <> t -> view (mk_a a t pub' succ' lv') u = view a u.
Proof. unfold view, mk_a; cbn. intros H. destruct (Nat.eqb_spec u t); congruence. Qed.
Lemma frame_mk a t pub' succ' lv' : Conc.frame view t a (mk_a a t pub' succ' lv').
Proof. intros u H. now apply view_mk_other. Qed.

Definition gnext (g : G) (succ : nat -> option nat) (n : nat) : nat :=
  match succ n with Some s => s | None => nnext (heap g n) end.

Definition kf (g : G) (n : nat) : ek :=
  if Nat.eqb n HEAD then EMin else if Nat.eqb n TAIL then EMax else EKey (nkey (heap g n)).

Definition pz (pub : nat -> bool) (x : nat) : Prop := x = HEAD \/ x = TAIL \/ pub x = true.

Definition fact_ok (g : G) (pub : nat -> bool) (f : fact) : Prop :=
  match f with FPub n k => pub n = true /\ nkey (heap g n) = k end.

Definition held_ok (g : G) (pub : nat -> bool) (e : nat * obs) : Prop :=
  pz pub (fst e) /\ nlock (heap g (fst e)) = true /\
  match snd e with Some (nx, mk) => nnext (heap g (fst e)) = nx /\ nmark (heap g (fst e)) = mk | None => True end.

Definition own_ok (g : G) (pub : nat -> bool) (o : option (nat * Z * nat)) : Prop :=
  match o with
  | None => True
  | Some (n, k, nx) => (3 <= n <= nalloc g)%nat /\ pub n = false /\ heap g n = mkNode k nx false false
  end.

Definition holds (lv : lview) (n : nat) : Prop := exists o, In (n, o) (lv_held lv).

Record IS (g : G) (a : aux) (L : list nat) : Prop := {
  s_chain : chain_ok HEAD TAIL (gnext g (a_succ a)) (kf g) L;
  s_pubL : forall n, In n L -> a_pub a n = true;
  s_pub : forall n, a_pub a n = true ->
      (3 <= n <= nalloc g)%nat /\ pz (a_pub a) (nnext (heap g n)) /\ (nmark (heap g n) = false -> In n L);
  s_ends : nmark (heap g HEAD) = false /\ nmark (heap g TAIL) = false /\ (2 <= nalloc g)%nat /\ nnext (heap g TAIL) = 0%nat;
  s_succ : forall c s, a_succ a c = Some s ->
      a_pub a c = true /\ nmark (heap g c) = true /\ exists t p, lv_hole (view a t) = Some (p, c, s);
  s_facts : forall t, Forall (fact_ok g (a_pub a)) (lv_facts (view a t));
  s_held : forall t, Forall (held_ok g (a_pub a)) (lv_held (view a t));
  s_excl : forall t t' n, holds (view a t) n -> holds (view a t') n -> t = t';
  s_own : forall t, own_ok g (a_pub a) (lv_own (view a t));
  s_disj : forall t t' n k nx n' k' nx', t <> t' ->
      lv_own (view a t) = Some (n, k, nx) -> lv_own (view a t') = Some (n', k', nx') -> n <> n';
  s_hole : forall t p c s, lv_hole (view a t) = Some (p, c, s) ->
      a_succ a c = Some s /\ In (p, Some (c, false)) (lv_held (view a t)) /\ holds (view a t) c /\ In c L /\ pz (a_pub a) s
}.

Definition Inv (g : G) (a : aux) (tr : list (nat * ev)) : Prop := exists L, IS g a L.

(** ** elementary consequences *)
Lemma pub_range g a L n : IS g a L -> a_pub a n = true -> (3 <= n <= nalloc g)%nat.
Proof. intros H Hn. apply (s_pub _ _ _ H) in Hn. tauto. Qed.

Lemma succ_none_unmarked g a L n : IS g a L -> nmark (heap g n) = false -> a_succ a n = None.
Proof.
  intros H Hm. destruct (a_succ a n) as [s|] eqn:E; auto.
  apply (s_succ _ _ _ H) in E. destruct E as (_ & E & _). congruence.
Qed.

Lemma gnext_unmarked g a L n : IS g a L -> nmark (heap g n) = false -> gnext g (a_succ a) n = nnext (heap g n).
Proof. intros H Hm. unfold gnext. now rewrite (succ_none_unmarked _ _ _ _ H Hm). Qed.

Lemma pz_unmarked_in g a L n : IS g a L -> pz (a_pub a) n -> n <> TAIL -> nmark (heap g n) = false -> In n (HEAD :: L).
Proof.
  intros H [->|[->|Hn]] HT Hm; [left; reflexivity|contradiction|].
  right. apply (s_pub _ _ _ H) in Hn. tauto.
Qed.

Lemma chain_in_pz g a L x : IS g a L -> In x (HEAD :: L ++ [TAIL]) -> pz (a_pub a) x.
Proof.
  intros H [<-|Hx]; [left; reflexivity|]. apply in_app_or in Hx. destruct Hx as [Hx|[<-|[]]].
  - right. right. apply (s_pubL _ _ _ H). exact Hx.
  - right. left. reflexivity.
Qed.

Lemma glinked_next_in nx : forall L n q, glinked nx n L q -> In (nx n) (L ++ [q]).
Proof. intros [|x L] n q; cbn [glinked app]; [intros ->; left; reflexivity|intros [-> _]; left; reflexivity]. Qed.

Lemma glinked_in_next nx : forall L n q x, glinked nx n L q -> In x L -> In (nx x) (L ++ [q]).
Proof.
  induction L as [|y L IH]; intros n q x Hl Hx; [destruct Hx|].
  cbn [glinked] in Hl. destruct Hl as [Hy Hl]. destruct Hx as [->|Hx].
  - right. eapply glinked_next_in; eauto.
  - right. eapply IH; eauto.
Qed.

(** the next pointer of an unmarked node of the chain (or of the head) is a node of the chain or the tail *)
Lemma next_pz g a L n : IS g a L -> pz (a_pub a) n -> pz (a_pub a) (nnext (heap g n)) \/ n = TAIL.
Proof.
  intros H [->|[->|Hn]]; [|right; reflexivity|left; apply (s_pub _ _ _ H) in Hn; tauto].
  left. destruct (s_ends _ _ _ H) as (Hm & _). rewrite <- (gnext_unmarked _ _ _ _ H Hm).
  destruct (s_chain _ _ _ H) as [Hl _]. apply (chain_in_pz _ _ _ _ H). right. eapply glinked_next_in; eauto.
Qed.

Lemma heap_set_next_same g n p m : heap (set_next g n p m) n = mkNode (nkey (heap g n)) p m (nlock (heap g n)).
Proof. unfold set_next, upd_heap; cbn. now rewrite Nat.eqb_refl. Qed.
Lemma heap_set_next_other g n p m x : x <> n -> heap (set_next g n p m) x = heap g x.
Proof. unfold set_next, upd_heap; cbn. intros H. destruct (Nat.eqb_spec x n); congruence. Qed.
Lemma heap_set_lock_same g n b : heap (set_lock g n b) n = mkNode (nkey (heap g n)) (nnext (heap g n)) (nmark (heap g n)) b.
Proof. unfold set_lock, upd_heap; cbn. now rewrite Nat.eqb_refl. Qed.
Lemma heap_set_lock_other g n b x : x <> n -> heap (set_lock g n b) x = heap g x.
Proof. unfold set_lock, upd_heap; cbn. intros H. destruct (Nat.eqb_spec x n); congruence. Qed.

Lemma kf_ext g g' : (forall x, nkey (heap g' x) = nkey (heap g x)) -> forall x, kf g' x = kf g x.
Proof. intros H x. unfold kf. now rewrite H. Qed.

(** ** the generic step lemma: thread [t] changes the shared state, everybody else's knowledge stays true *)
Lemma IS_step g g' a t pub' succ' lv' L L' :
  IS g a L ->
  chain_ok HEAD TAIL (gnext g' succ') (kf g') L' ->
  (forall n, a_pub a n = true -> pub' n = true) ->
  (forall n, In n L' -> pub' n = true) ->
  (forall n, pub' n = true -> (3 <= n <= nalloc g')%nat /\ pz pub' (nnext (heap g' n)) /\ (nmark (heap g' n) = false -> In n L')) ->
  (nmark (heap g' HEAD) = false /\ nmark (heap g' TAIL) = false /\ (2 <= nalloc g')%nat /\ nnext (heap g' TAIL) = 0%nat) ->
  (* ghost successors *)
  (forall c s, succ' c = Some s -> pub' c = true /\ nmark (heap g' c) = true /\
        ((exists p, lv_hole lv' = Some (p, c, s)) \/ (exists u p, u <> t /\ lv_hole (view a u) = Some (p, c, s)))) ->
  (* bystanders *)
  (forall n, a_pub a n = true -> nkey (heap g' n) = nkey (heap g n)) ->
  (nalloc g <= nalloc g')%nat ->
  (forall u n, u <> t -> holds (view a u) n -> heap g' n = heap g n) ->
  (forall u n k nx, u <> t -> lv_own (view a u) = Some (n, k, nx) -> heap g' n = heap g n /\ pub' n = false) ->
  (forall u p c s, u <> t -> lv_hole (view a u) = Some (p, c, s) -> succ' c = Some s /\ In c L') ->
  (* my new view *)
  Forall (fact_ok g' pub') (lv_facts lv') -> Forall (held_ok g' pub') (lv_held lv') ->
  (forall u n, u <> t -> holds lv' n -> holds (view a u) n -> False) ->
  own_ok g' pub' (lv_own lv') ->
  (forall u n k nx n' k' nx', u <> t -> lv_own lv' = Some (n, k, nx) -> lv_own (view a u) = Some (n', k', nx') -> n <> n') ->
  (forall p c s, lv_hole lv' = Some (p, c, s) ->
        succ' c = Some s /\ In (p, Some (c, false)) (lv_held lv') /\ holds lv' c /\ In c L' /\ pz pub' s) ->
  IS g' (mk_a a t pub' succ' lv') L'.
Proof.
  intros H Hc Hmono HL Hcl He Hsu Hkey Hna Hheld Hown Hhole Hf Hh Hex Ho Hd Hmy.
  assert (Hpz : forall x, pz (a_pub a) x -> pz pub' x).
  { intros x [->|[->|Hx]]; [left|right; left|right; right]; auto. }
  constructor; cbn [a_pub a_succ mk_a]; auto.
  - intros c s E. destruct (Hsu c s E) as (K1 & K2 & K3). repeat split; auto.
    destruct K3 as [(p & Hp)|(u & p & Hu & Hp)].
    + exists t, p. rewrite view_mk_same. exact Hp.
    + exists u, p. rewrite view_mk_other by exact Hu. exact Hp.
  - intros u. destruct (Nat.eq_dec u t) as [->|Hu]; [rewrite view_mk_same; exact Hf|].
    rewrite view_mk_other by exact Hu. eapply Forall_impl; [|apply (s_facts _ _ _ H)].
    intros [n k] (K1 & K2). split; auto. rewrite Hkey; auto.
  - intros u. destruct (Nat.eq_dec u t) as [->|Hu]; [rewrite view_mk_same; exact Hh|].
    rewrite view_mk_other by exact Hu. pose proof (s_held _ _ _ H u) as K. rewrite Forall_forall in *.
    intros [n o] Hin. specialize (K _ Hin). unfold held_ok in *. cbn [fst snd] in *.
    rewrite (Hheld u n Hu (ex_intro _ o Hin)). destruct K as (K1 & K2 & K3). auto.
  - intros u u' n Hn Hn'.
    destruct (Nat.eq_dec u t) as [->|Hu]; destruct (Nat.eq_dec u' t) as [->|Hu']; auto.
    + rewrite view_mk_same in Hn. rewrite view_mk_other in Hn' by exact Hu'. exfalso. eapply Hex; eauto.
    + rewrite view_mk_same in Hn'. rewrite view_mk_other in Hn by exact Hu. exfalso. eapply Hex; eauto.
    + rewrite view_mk_other in Hn by exact Hu. rewrite view_mk_other in Hn' by exact Hu'. eapply (s_excl _ _ _ H); eauto.
  - intros u. destruct (Nat.eq_dec u t) as [->|Hu]; [rewrite view_mk_same; exact Ho|].
    rewrite view_mk_other by exact Hu. pose proof (s_own _ _ _ H u) as K.
    destruct (lv_own (view a u)) as [[[n k] nx]|] eqn:E; cbn [own_ok] in *; auto.
    destruct (Hown u n k nx Hu E) as [J1 J2]. destruct K as (K1 & K2 & K3). rewrite J1. repeat split; auto; lia.
  - intros u u' n k nx n' k' nx' Huu E1 E2.
    destruct (Nat.eq_dec u t) as [->|Hu]; destruct (Nat.eq_dec u' t) as [->|Hu']; try congruence.
    + rewrite view_mk_same in E1. rewrite view_mk_other in E2 by exact Hu'. exact (Hd u' n k nx n' k' nx' Hu' E1 E2).
    + rewrite view_mk_same in E2. rewrite view_mk_other in E1 by exact Hu.
      intros En. exact (Hd u n' k' nx' n k nx Hu E2 E1 (eq_sym En)).
    + rewrite view_mk_other in E1 by exact Hu. rewrite view_mk_other in E2 by exact Hu'.
      exact (s_disj _ _ _ H u u' n k nx n' k' nx' Huu E1 E2).
  - intros u p c s E. destruct (Nat.eq_dec u t) as [->|Hu].
    + rewrite view_mk_same in *. apply Hmy. exact E.
    + rewrite view_mk_other in * by exact Hu. destruct (s_hole _ _ _ H u p c s E) as (K1 & K2 & K3 & K4 & K5).
      destruct (Hhole u p c s Hu E) as [J1 J2]. auto 6.
Qed.
