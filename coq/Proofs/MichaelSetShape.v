(** * Syntactic shape of one operation of the Michael-list model (LV.Model.MichaelList.run_op), for every argument list,
      fuel and thread-local state: the program either does nothing (unknown operation code) or emits exactly one
      invocation event [ev_inv o] first, then only accesses and client events other than "inv"/"ret" ([quiet]), and
      either stops without a response (out of fuel, result [None]) or ends with exactly one response event [ev_ret a b]
      immediately followed by its return.  Used by Proofs/MichaelSetHist.v to show that the history of the hash set is
      sequential per thread across buckets.  The action functions are inspected for every shared state. *)
From Coq Require Import ZArith List Bool Arith PeanoNat Lia String.
From LV Require Import Base.Conc Base.Events Model.MichaelList.
Import ListNotations.

(** events the history functions ignore *)
Definition qev (e : ev) : bool :=
  match e with
  | EvCli n _ => negb (String.eqb n "inv") && negb (String.eqb n "ret")
  | EvAcc _ _ _ => true
  end.

Definition qact (f : act) : Prop := forall g, forallb qev (snd (f g)) = true.

Fixpoint quiet {R} (p : prog R) : Prop :=
  match p with
  | Ret _ => True
  | Emit es k => forallb qev es = true /\ quiet k
  | Act f k => qact f /\ forall v, quiet (k v)
  end.

(** the rest of an operation after its invocation event *)
Fixpoint tail (p : prog (out lstate)) : Prop :=
  match p with
  | Ret r => r = None
  | Emit es k => (forallb qev es = true /\ tail k) \/ (exists a b r, es = [ev_ret a b] /\ k = Ret (Some r))
  | Act f k => qact f /\ forall v, tail (k v)
  end.

Definition opshape (o : list Z) (p : prog (out lstate)) : Prop :=
  (exists ls', p = Ret (Some ls')) \/ (exists k, p = Emit [ev_inv o] k /\ tail k).

Lemma quiet_bind {A B} (p : prog A) (q : A -> prog B) : quiet p -> (forall r, quiet (q r)) -> quiet (Conc.bind p q).
Proof.
  intros Hp Hq. induction p as [r|es k IH|f k IH]; cbn [Conc.bind quiet] in *.
  - apply Hq.
  - destruct Hp as [H1 H2]. split; [exact H1|apply IH; exact H2].
  - destruct Hp as [H1 H2]. split; [exact H1|]. intros v. apply IH. apply H2.
Qed.

Lemma tail_bind {A} (p : prog A) (q : A -> prog (out lstate)) : quiet p -> (forall r, tail (q r)) -> tail (Conc.bind p q).
Proof.
  intros Hp Hq. induction p as [r|es k IH|f k IH]; cbn [Conc.bind quiet tail] in *.
  - apply Hq.
  - destruct Hp as [H1 H2]. left. split; [exact H1|apply IH; exact H2].
  - destruct Hp as [H1 H2]. split; [exact H1|]. intros v. apply IH. apply H2.
Qed.

Ltac qa :=
  intros g; unfold a_begin, a_ld, a_cas, a_alloc_st, a_st_next, a_gst, a_gld, a_sync, a_rld, a_rst, a_nop, a_cnt;
  repeat match goal with |- context [match ?x with _ => _ end] => destruct x end; reflexivity.

Lemma qact_begin : qact a_begin. Proof. qa. Qed.
Lemma qact_ld l : qact (a_ld l). Proof. qa. Qed.
Lemma qact_cas l ep np nm : qact (a_cas l ep np nm). Proof. qa. Qed.
Lemma qact_alloc_st k p : qact (a_alloc_st k p). Proof. qa. Qed.
Lemma qact_st_next n p : qact (a_st_next n p). Proof. qa. Qed.
Lemma qact_gst t s : qact (a_gst t s). Proof. qa. Qed.
Lemma qact_gld t s : qact (a_gld t s). Proof. qa. Qed.
Lemma qact_sync t : qact (a_sync t). Proof. qa. Qed.
Lemma qact_rld t : qact (a_rld t). Proof. qa. Qed.
Lemma qact_rst t : qact (a_rst t). Proof. qa. Qed.
Lemma qact_cnt k d : qact (a_cnt k d). Proof. qa. Qed.
Lemma qact_link own k p : qact (match own with None => a_alloc_st k p | Some n => a_st_next n p end).
Proof. destruct own; [apply qact_st_next|apply qact_alloc_st]. Qed.
#[global] Hint Resolve qact_begin qact_ld qact_cas qact_alloc_st qact_st_next qact_gst qact_gld qact_sync qact_rld qact_rst qact_cnt qact_link : quiet.

Ltac qt :=
  repeat first
    [ exact I
    | solve [auto with quiet]
    | match goal with
      | |- quiet (Conc.bind _ _) => apply quiet_bind; [|intros ?]
      | |- quiet (Act _ _) => split; [solve [auto with quiet]|intros ?]
      | |- quiet (Emit _ _) => split; [reflexivity|]
      | |- quiet (if ?c then _ else _) => destruct c
      | |- quiet (match ?x with _ => _ end) => destruct x
      end ].

Lemma protect_quiet : forall fuel t s l, quiet (protect fuel t s l).
Proof. induction fuel as [|f IH]; intros t s l; cbn [protect]; qt. Qed.
Lemma assign_guard_quiet t s : quiet (assign_guard t s). Proof. unfold assign_guard; qt. Qed.
Lemma copy_guard_quiet t d s : quiet (copy_guard t d s). Proof. unfold copy_guard, assign_guard; qt. Qed.
Lemma clear_guard_quiet t s : quiet (clear_guard t s). Proof. unfold clear_guard; qt. Qed.
Lemma retire_quiet t : quiet (retire t). Proof. unfold retire; qt. Qed.
Lemma use_guarded_quiet t s : quiet (use_guarded t s). Proof. unfold use_guarded; qt. Qed.
Lemma free_guards_quiet t : forall gs fr, quiet (free_guards t gs fr).
Proof. induction gs as [|s r IH]; intros fr; cbn [free_guards]; qt. Qed.
Lemma cnt_inc_quiet ic : quiet (cnt_inc ic). Proof. unfold cnt_inc; qt. Qed.
Lemma cnt_dec_quiet ic : quiet (cnt_dec ic). Proof. unfold cnt_dec; qt. Qed.
#[global] Hint Resolve protect_quiet assign_guard_quiet copy_guard_quiet clear_guard_quiet retire_quiet use_guarded_quiet
  free_guards_quiet cnt_inc_quiet cnt_dec_quiet : quiet.

Lemma search_quiet : forall fuel t g0 g1 g2 k st, quiet (search fuel t g0 g1 g2 k st).
Proof. induction fuel as [|f IH]; intros t g0 g1 g2 k st; cbn [search]; qt. Qed.
Lemma link_node_quiet own k p : quiet (link_node own k p). Proof. unfold link_node; qt. Qed.
Lemma unlink_node_quiet t p : quiet (unlink_node t p). Proof. unfold unlink_node; qt. Qed.
#[global] Hint Resolve search_quiet link_node_quiet unlink_node_quiet : quiet.

Lemma insert_loop_quiet sf ic withf t g0 g1 g2 k fr : forall fuel own, quiet (insert_loop fuel sf ic withf t g0 g1 g2 k fr own).
Proof. induction fuel as [|f IH]; intros own; cbn [insert_loop]; qt. Qed.
Lemma update_loop_quiet sf ic allow t g0 g1 g2 k fr : forall fuel own, quiet (update_loop fuel sf ic allow t g0 g1 g2 k fr own).
Proof. induction fuel as [|f IH]; intros own; cbn [update_loop]; qt. Qed.
Lemma erase_loop_quiet sf ic code mine t g0 g1 g2 k : forall fuel, quiet (erase_loop fuel sf ic code mine t g0 g1 g2 k).
Proof. induction fuel as [|f IH]; cbn [erase_loop]; qt. Qed.
#[global] Hint Resolve insert_loop_quiet update_loop_quiet erase_loop_quiet : quiet.

Ltac tt :=
  repeat first
    [ solve [right; do 3 eexists; split; reflexivity]
    | match goal with
      | |- tail give_up => left; split; reflexivity
      | |- tail (Conc.bind _ _) => apply tail_bind; [solve [auto with quiet]|intros ?]
      | |- tail (Emit _ _) => left; split; [reflexivity|]
      | |- tail (if ?c then _ else _) => destruct c
      | |- tail (match ?x with _ => _ end) => destruct x
      end ].

Theorem run_op_shape fuel sf ic t o ls : opshape o (run_op fuel sf ic t o ls).
Proof.
  unfold run_op, opshape. destruct ls as [fr own]. destruct (alloc3 fr) as [[[g0 g1] g2] fr1].
  destruct (Z.leb 1 (nth 0 o 0%Z) && Z.leb (nth 0 o 0%Z) 10); [right|left; eauto].
  eexists. split; [reflexivity|]. tt.
Qed.

(** non-vacuity: the insert of key 5 has the invocation / response shape (it is not the trivial left branch) *)
Example run_op_shape_nonvacuous :
  exists k, run_op 3 3 false 0 [1; 5; 0; 0]%Z init_ls = Emit [ev_inv [1; 5; 0; 0]%Z] k /\ tail k.
Proof.
  destruct (run_op_shape 3 3 false 0 [1; 5; 0; 0]%Z init_ls) as [(ls' & H)|H]; [discriminate H|exact H].
Qed.
