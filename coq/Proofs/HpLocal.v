(** * Local computation of the scans: std::sort, binary_search, lower_bound + mark, compaction. *)
From Coq Require Import ZArith List String Bool Lia PeanoNat.
From LV Require Import Base.Conc Base.Events Model.Hp Proofs.HpTrace.
Import ListNotations.
Local Open Scope list_scope.
Local Open Scope Z_scope.

Lemma memZ_In x l : memZ x l = true <-> In x l.
Proof.
  induction l as [|y l IH]; cbn; [split; [discriminate|tauto]|].
  destruct (Z.eqb_spec x y) as [->|Hne]; [split; auto|].
  rewrite IH. split; [auto|]. intros [H|H]; [congruence|exact H].
Qed.

Lemma countZ_filter_split (f : Z -> bool) p l :
  countZ p l = countZ p (filter (fun x => negb (f x)) l) + countZ p (filter f l).
Proof.
  induction l as [|x l IH]; cbn; [reflexivity|]. destruct (f x); cbn; rewrite IH; lia.
Qed.

Section Classic.
  Variable c : cfgT.

  Lemma classic_split plist l p :
    countZ p l = countZ p (classic_freed plist l) + countZ p (classic_kept plist l).
  Proof. unfold classic_freed, classic_kept. apply (countZ_filter_split (fun x => memZ x plist)). Qed.

  Lemma classic_kept_incl plist l p : In p (classic_kept plist l) -> In p plist.
  Proof. unfold classic_kept. intros H. apply filter_In in H. now apply memZ_In. Qed.

  Lemma classic_freed_notin plist l p : In p (classic_freed plist l) -> ~ In p plist.
  Proof.
    unfold classic_freed. intros H. apply filter_In in H. destruct H as (_ & H).
    apply negb_true_iff in H. intros Hin. apply memZ_In in Hin. congruence.
  Qed.
End Classic.

(** ** std::sort *)
Fixpoint sortedZ (l : list Z) : Prop :=
  match l with
  | [] => True
  | x :: l' => (forall y, In y l' -> x <= y) /\ sortedZ l'
  end.

Lemma insert_sorted_In x l y : In y (insert_sorted x l) <-> y = x \/ In y l.
Proof.
  induction l as [|z l IH]; cbn; [intuition|].
  destruct (x <=? z); cbn; [intuition|]. rewrite IH. intuition.
Qed.

Lemma insert_sorted_sorted x l : sortedZ l -> sortedZ (insert_sorted x l).
Proof.
  induction l as [|z l IH]; cbn; [intros _; split; [intros ? []|exact I]|].
  intros (H1 & H2). destruct (Z.leb_spec x z) as [Hle|Hgt]; cbn.
  - split; [|split; assumption]. intros y [<-|Hy]; [exact Hle|]. specialize (H1 y Hy). lia.
  - split; [|now apply IH]. intros y Hy. apply insert_sorted_In in Hy. destruct Hy as [->|Hy]; [lia|auto].
Qed.

Lemma insert_sorted_count p x l : countZ p (insert_sorted x l) = (if Z.eqb x p then 1 else 0) + countZ p l.
Proof.
  induction l as [|z l IH]; cbn; [reflexivity|]. destruct (x <=? z); cbn; [reflexivity|]. rewrite IH. lia.
Qed.

Lemma sortZ_sorted l : sortedZ (sortZ l).
Proof. induction l as [|x l IH]; cbn; [exact I|]. now apply insert_sorted_sorted. Qed.

Lemma sortZ_count p l : countZ p (sortZ l) = countZ p l.
Proof. induction l as [|x l IH]; cbn; [reflexivity|]. rewrite insert_sorted_count, IH. reflexivity. Qed.

Lemma sortZ_In x l : In x (sortZ l) <-> In x l.
Proof. rewrite <- !countZ_pos_In. now rewrite sortZ_count. Qed.

Lemma count_le1_NoDup l : (forall p, countZ p l <= 1) -> NoDup l.
Proof.
  induction l as [|x l IH]; intros H; [constructor|]. constructor.
  - intros Hin. apply countZ_pos_In in Hin. specialize (H x). cbn in H. rewrite Z.eqb_refl in H. lia.
  - apply IH. intros p. specialize (H p). cbn in H. destruct (Z.eqb x p); lia.
Qed.

Lemma NoDup_count_le1 l p : NoDup l -> countZ p l <= 1.
Proof.
  induction 1 as [|x l Hn Hd IH]; cbn; [lia|]. destruct (Z.eqb_spec x p) as [->|Hne]; [|lia].
  assert (countZ p l = 0); [|lia]. pose proof (countZ_nonneg p l). destruct (Z.eq_dec (countZ p l) 0); [assumption|].
  exfalso. apply Hn. apply countZ_pos_In. lia.
Qed.

(** ** lower_bound + mark on the sorted array of (pointer, mark) cells *)
Lemma mark_first_fst v cells : map fst (mark_first v cells) = map fst cells.
Proof.
  induction cells as [|[x m] tl IH]; cbn; [reflexivity|].
  destruct (Z.eqb_spec x v); cbn; [reflexivity|]. destruct (v <? x); cbn; [reflexivity|]. now rewrite IH.
Qed.

Lemma mark_first_keeps v cells x : In (x, true) cells -> In (x, true) (mark_first v cells).
Proof.
  induction cells as [|[y m] tl IH]; cbn; [tauto|].
  intros [E|Hin].
  - inversion E; subst y m. destruct (Z.eqb_spec x v); cbn; [now left|]. destruct (v <? x); cbn; now left.
  - destruct (Z.eqb_spec y v); cbn; [now right|]. destruct (v <? y); cbn; [now right|]. right. now apply IH.
Qed.

Lemma mark_first_new v cells x : In (x, true) (mark_first v cells) -> In (x, true) cells \/ x = v.
Proof.
  induction cells as [|[y m] tl IH]; cbn; [tauto|].
  destruct (Z.eqb_spec y v) as [->|Hne]; cbn.
  - intros [E|Hin]; [inversion E; now right|left; now right].
  - destruct (v <? y); cbn; [tauto|]. intros [E|Hin]; [left; now left|].
    destruct (IH Hin); [left; now right|now right].
Qed.

Lemma mark_first_hit v cells : sortedZ (map fst cells) -> In v (map fst cells) -> In (v, true) (mark_first v cells).
Proof.
  induction cells as [|[x m] tl IH]; cbn; [tauto|]. intros (H1 & H2) Hin.
  destruct (Z.eqb_spec x v) as [->|Hne]; cbn; [now left|].
  destruct Hin as [E|Hin]; [congruence|].
  destruct (Z.ltb_spec v x) as [Hlt|Hge]; cbn.
  - specialize (H1 v Hin). lia.
  - right. now apply IH.
Qed.

Lemma apply_marks_fst hs cells : map fst (apply_marks hs cells) = map fst cells.
Proof.
  unfold apply_marks. revert cells. induction hs as [|h hs IH]; intros cells; cbn; [reflexivity|].
  rewrite IH. apply mark_first_fst.
Qed.

Lemma apply_marks_keeps hs cells x : In (x, true) cells -> In (x, true) (apply_marks hs cells).
Proof.
  unfold apply_marks. revert cells. induction hs as [|h hs IH]; intros cells H; cbn; [exact H|].
  apply IH. now apply mark_first_keeps.
Qed.

Lemma apply_marks_new hs cells x : In (x, true) (apply_marks hs cells) -> In (x, true) cells \/ In x hs.
Proof.
  unfold apply_marks. revert cells. induction hs as [|h hs IH]; intros cells H; cbn in *; [now left|].
  destruct (IH _ H) as [H1|H1]; [|right; now right].
  destruct (mark_first_new _ _ _ H1) as [H2 | ->]; [now left|right; now left].
Qed.

Lemma apply_marks_hit hs cells v :
  sortedZ (map fst cells) -> In v (map fst cells) -> In v hs -> In (v, true) (apply_marks hs cells).
Proof.
  unfold apply_marks. revert cells. induction hs as [|h hs IH]; intros cells Hs Hin Hv; [destruct Hv|]. cbn.
  destruct Hv as [->|Hv].
  - apply (apply_marks_keeps hs). now apply mark_first_hit.
  - apply IH; [now rewrite mark_first_fst|now rewrite mark_first_fst|exact Hv].
Qed.

Lemma unmarked_fst l : map fst (unmarked l) = l.
Proof. unfold unmarked. rewrite map_map. cbn. apply map_id. Qed.

Lemma unmarked_no_true l x : ~ In (x, true) (unmarked l).
Proof. unfold unmarked. intros H. apply in_map_iff in H. destruct H as (y & E & _). discriminate. Qed.

Lemma inplace_split_cells p (cells : list (Z * bool)) :
  countZ p (map fst cells) = countZ p (inplace_freed cells) + countZ p (inplace_kept cells).
Proof.
  unfold inplace_freed, inplace_kept. induction cells as [|[x m] tl IH]; cbn; [reflexivity|].
  destruct m; cbn; rewrite IH; lia.
Qed.

Lemma inplace_split hs l p :
  let cells := apply_marks hs (unmarked (sortZ l)) in
  countZ p l = countZ p (inplace_freed cells) + countZ p (inplace_kept cells).
Proof.
  intros cells. rewrite <- inplace_split_cells. unfold cells. rewrite apply_marks_fst, unmarked_fst.
  symmetry. apply sortZ_count.
Qed.

Lemma inplace_kept_incl hs l p :
  In p (inplace_kept (apply_marks hs (unmarked (sortZ l)))) -> In p hs.
Proof.
  unfold inplace_kept. intros H. apply in_map_iff in H. destruct H as ([x m] & E & Hin). cbn in E. subst x.
  apply filter_In in Hin. destruct Hin as (Hin & Hm). cbn in Hm. subst m.
  destruct (apply_marks_new _ _ _ Hin) as [H1|H1]; [|exact H1]. exfalso. eapply unmarked_no_true; eauto.
Qed.

Lemma NoDup_fst_unique (cells : list (Z * bool)) x : NoDup (map fst cells) -> In (x, true) cells -> In (x, false) cells -> False.
Proof.
  induction cells as [|[y m] tl IH]; cbn; [tauto|]. intros Hnd H1 H2. inversion Hnd as [|a b Hnin Hnd']; subst.
  destruct H1 as [E1|H1]; destruct H2 as [E2|H2].
  - congruence.
  - inversion E1; subst. apply Hnin. apply in_map_iff. exists (x, false). auto.
  - inversion E2; subst. apply Hnin. apply in_map_iff. exists (x, true). auto.
  - eauto.
Qed.

Lemma inplace_freed_notin hs l p :
  NoDup l -> In p (inplace_freed (apply_marks hs (unmarked (sortZ l)))) -> ~ In p hs.
Proof.
  intros Hnd Hin Hhs. unfold inplace_freed in Hin. apply in_map_iff in Hin. destruct Hin as ([x m] & E & Hin).
  cbn in E. subst x. apply filter_In in Hin. destruct Hin as (Hin & Hm). cbn in Hm. apply negb_true_iff in Hm. subst m.
  set (cells := apply_marks hs (unmarked (sortZ l))) in *.
  assert (Hf : map fst cells = sortZ l) by (unfold cells; now rewrite apply_marks_fst, unmarked_fst).
  assert (Hp : In p (sortZ l)).
  { rewrite <- Hf. apply in_map_iff. exists (p, false). auto. }
  assert (Ht : In (p, true) cells).
  { unfold cells. apply apply_marks_hit; [rewrite unmarked_fst; apply sortZ_sorted|now rewrite unmarked_fst|exact Hhs]. }
  eapply (NoDup_fst_unique cells p); eauto. rewrite Hf.
  apply count_le1_NoDup. intros q. rewrite sortZ_count. now apply NoDup_count_le1.
Qed.

Lemma filter_length_le {A} (f : A -> bool) (l : list A) : (List.length (filter f l) <= List.length l)%nat.
Proof. induction l as [|x l IH]; cbn; [lia|]. destruct (f x); cbn; lia. Qed.
Lemma insert_sorted_length x l : List.length (insert_sorted x l) = S (List.length l).
Proof. induction l as [|y l IH]; cbn; [reflexivity|]. destruct (x <=? y); cbn; [reflexivity|]. now rewrite IH. Qed.
Lemma sortZ_length l : List.length (sortZ l) = List.length l.
Proof. induction l as [|x l IH]; cbn; [reflexivity|]. now rewrite insert_sorted_length, IH. Qed.
Lemma inplace_kept_length hs l :
  (List.length (inplace_kept (apply_marks hs (unmarked (sortZ l)))) <= List.length l)%nat.
Proof.
  unfold inplace_kept. rewrite map_length. eapply Nat.le_trans; [apply filter_length_le|].
  rewrite <- (map_length fst), apply_marks_fst, unmarked_fst. now rewrite sortZ_length.
Qed.
