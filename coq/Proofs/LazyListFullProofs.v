(** * LazyListFullProofs: every operation of the LazyList model is [Conc.safe] for [Inv7]; FULL linearizability
      (reads included, with helping) for every reachable configuration. *)
From Coq Require Import ZArith List String Bool Lia PeanoNat.
From LV Require Import Base.Conc Base.Events Base.Lin Spec.Specs Proofs.LinProofs.
From LV Require Proofs.MichaelListInv Proofs.MichaelListLin Proofs.MichaelListActs Proofs.MichaelListProofs Proofs.MichaelListFullInv.
From LV Require Import Model.LazyList Proofs.LazyListBase Proofs.LazyListInv Proofs.LazyListSteps Proofs.LazyListActs
                       Proofs.LazyListDefs Proofs.LazyListProofs Proofs.LazyListLin Proofs.LazyListLinActs
                       Proofs.LazyListLinProofs Proofs.LazyListFullInv Proofs.LazyListFullActs.
Import ListNotations.
Local Open Scope Z_scope.

Notation st := (status SetSpec).

(** the operation [o] of the thread is open, and only a contains-type operation watches a node *)
Definition opn (o : set_op) (vs : st) (cd : option nat) : Prop := open_read vs o /\ (not_contains o -> cd = None).

Lemma ldpost_opn n ck o held v vs cd vs' cd' : ldpost n ck o held v vs cd vs' cd' -> opn o vs' cd'.
Proof. unfold ldpost. cbv zeta. intros (H1 & _ & _ & _ & _ & _ & _ & H8). split; assumption. Qed.

(** ** plumbing *)
Lemma safe7_nop2 {R} t k1 o1 k2 o2 (p : prog R) l Q :
  safe7 t p l Q -> safe7 t (Act (a_nop k1 o1) (fun _ => Act (a_nop k2 o2) (fun _ => p))) l Q.
Proof. intros H. apply safe7_neutral with (v := v0); [apply neutral3_nop|]. apply safe7_neutral with (v := v0); [apply neutral3_nop|]. exact H. Qed.
Lemma safe7_assign_guard t s l (Q : unit -> lview7 -> Prop) : Q tt l -> safe7 t (assign_guard t s) l Q.
Proof. intros H. unfold assign_guard. apply safe7_nop2. exact H. Qed.
Lemma safe7_copy_guard t d s l (Q : unit -> lview7 -> Prop) : Q tt l -> safe7 t (copy_guard t d s) l Q.
Proof. intros H. unfold copy_guard. apply safe7_neutral with (v := v0); [apply neutral3_nop|]. apply safe7_assign_guard. exact H. Qed.
Lemma safe7_retire t l (Q : unit -> lview7 -> Prop) : Q tt l -> safe7 t (retire t) l Q.
Proof. intros H. unfold retire. apply safe7_nop2. exact H. Qed.
Lemma safe7_use_guarded t s l (Q : unit -> lview7 -> Prop) : Q tt l -> safe7 t (use_guarded t s) l Q.
Proof. intros H. unfold use_guarded. apply safe7_nop2. exact H. Qed.
Lemma safe7_cnt_inc ic l t (Q : unit -> lview7 -> Prop) : Q tt l -> safe7 t (cnt_inc ic) l Q.
Proof. intros H. unfold cnt_inc. destruct ic; [|exact H]. apply safe7_neutral with (v := v0); [apply neutral3_cnt|]. exact H. Qed.
Lemma safe7_cnt_dec ic l t (Q : unit -> lview7 -> Prop) : Q tt l -> safe7 t (cnt_dec ic) l Q.
Proof. intros H. unfold cnt_dec. destruct ic; [|exact H]. apply safe7_neutral with (v := v0); [apply neutral3_cnt|]. exact H. Qed.
Lemma safe7_free_guards t gs : forall fr l (Q : list nat -> lview7 -> Prop),
  (forall fr', Q fr' l) -> safe7 t (free_guards t gs fr) l Q.
Proof.
  induction gs as [|s gs IH]; intros fr l Q H; cbn [free_guards]; [apply H|].
  apply safe7_neutral with (v := v0); [apply neutral3_nop|]. apply IH. exact H.
Qed.

(** ** what a load tells: the part of [ldpost] that does not mention the state before *)
Definition linfo (ck : option Z) (o : set_op) (held : list (nat * obs)) (v : V) (vs' : st) (cd' : option nat) : Prop :=
  let k := op_key o in
  (vmark v = false -> ck = Some k -> after o true vs' /\ cd' = None) /\
  (vmark v = false -> ck_lt ck k -> (vptr v = TAIL \/ (vptr v <> HEAD /\ k < vkey v)) -> after o false vs' /\ cd' = None) /\
  (vmark v = false -> ck_lt ck k -> vptr v <> TAIL -> vptr v <> HEAD -> vkey v = k -> not_contains o ->
       (exists x, In (vptr v, Some (x, false)) held) -> after o true vs' /\ cd' = None) /\
  (vmark v = false -> ck_lt ck k -> vptr v <> TAIL -> vptr v <> HEAD -> vkey v = k -> o = SContains k -> cd' = Some (vptr v)).

Lemma ldpost_linfo n ck o held v vs cd vs' cd' : ldpost n ck o held v vs cd vs' cd' -> linfo ck o held v vs' cd'.
Proof. unfold ldpost, linfo. cbv zeta. intros (_ & H2 & H3 & H4 & H5 & _). auto. Qed.

Lemma linfo_veqb ck o held v v' vs' cd' :
  veqb v v' = true -> (vptr v <> HEAD -> vptr v <> TAIL -> vkey v' = vkey v) ->
  linfo ck o held v' vs' cd' -> linfo ck o held v vs' cd'.
Proof.
  unfold veqb. intros H Hk (H1 & H2 & H3 & H4). apply andb_true_iff in H. destruct H as [E1 E2].
  apply Nat.eqb_eq in E1. apply Bool.eqb_prop in E2. unfold linfo. cbv zeta in *. rewrite E1, E2 in *.
  split; [exact H1|]. split; [|split].
  - intros A B C. apply H2; auto. destruct C as [C|[C1 C2]]; [left; exact C|].
    destruct (Nat.eq_dec (vptr v') TAIL) as [ET|ET]; [left; exact ET|right]. split; [exact C1|]. rewrite Hk; congruence.
  - intros A B C D E. apply H3; auto. rewrite Hk; congruence.
  - intros A B C D E. apply H4; auto. rewrite Hk; congruence.
Qed.

(** ** protect *)
Lemma safe7_protect fuel : forall t s n ck o lv vs cd code (Q : option V -> lview7 -> Prop),
  pk (lv_facts lv) n -> n <> TAIL -> ck7 (lv_facts lv) n ck -> opn o vs cd ->
  (forall F' vs' cd', incl (lv_facts lv) F' -> opn o vs' cd' -> Q None (with_facts lv F', vs', cd', code)) ->
  (forall v F' vs' cd', incl (lv_facts lv) F' -> incl (newfacts n v) F' -> opn o vs' cd' -> linfo ck o (lv_held lv) v vs' cd' ->
        Q (Some v) (with_facts lv F', vs', cd', code)) ->
  safe7 t (protect fuel t s n) (lv, vs, cd, code) Q.
Proof.
  induction fuel as [|f IH]; intros t s n ck o lv vs cd code Q Hp HnT Hck [Hop Hcd] HN HS; cbn [protect].
  - cbn [Conc.safe]. destruct lv. apply (HN lv_facts); [apply incl_refl|split; assumption].
  - eapply safe7_ld with (ck := ck) (o := o); [exact Hp|exact Hck|exact Hop|exact Hcd|]. intros v vs1 cd1 _ Hpost1 _.
    destruct (ldpost_opn _ _ _ _ _ _ _ _ _ Hpost1) as [Hop1 Hcd1].
    apply safe7_neutral with (v := v0); [apply neutral3_nop|]. apply safe7_neutral with (v := v0); [apply neutral3_nop|].
    set (F1 := newfacts n v ++ lv_facts lv).
    assert (Hck1 : ck7 F1 n ck).
    { destruct Hck as [[-> ->]|(kn & Hkn & ->)]; [left; auto|right; exists kn; split; auto; apply in_or_app; right; exact Hkn]. }
    eapply safe7_ld with (ck := ck) (o := o); [eapply pk_incl; [|exact Hp]; apply incl_app_r'|exact Hck1|exact Hop1|exact Hcd1|].
    intros v' vs2 cd2 _ Hpost2 Hkeys. cbn [with_facts lv_facts lv_held lv_own lv_hole] in *.
    set (F2 := newfacts n v' ++ F1).
    assert (I0 : incl (lv_facts lv) F2) by (unfold F2, F1; apply incl_appr; apply incl_app_r').
    destruct (veqb v v') eqn:Ev.
    + cbn [Conc.safe]. apply (HS v F2 vs2 cd2); auto.
      * unfold F2, F1. apply incl_appr. apply incl_appl. apply incl_refl.
      * eapply ldpost_opn; eauto.
      * eapply linfo_veqb; [exact Ev| |eapply ldpost_linfo; exact Hpost2].
        intros A B.
        assert (Hin : In (FPub (vptr v') (vkey v)) F1).
        { unfold F1, newfacts. unfold veqb in Ev. apply andb_true_iff in Ev. destruct Ev as [E1 _]. apply Nat.eqb_eq in E1. rewrite <- E1.
          apply in_or_app. left.
          destruct (Nat.eqb_spec n TAIL) as [ENT|ENT]; [contradiction|].
          destruct (Nat.eqb_spec (vptr v) HEAD); [contradiction|]. destruct (Nat.eqb_spec (vptr v) TAIL); [contradiction|]. left. reflexivity. }
        destruct (Hkeys _ Hin) as (_ & _ & K). exact K.
    + change (safe7 t (protect f t s n) (with_facts lv F2, vs2, cd2, code) Q). apply IH with (ck := ck) (o := o).
      * eapply pk_incl; eauto.
      * exact HnT.
      * destruct Hck as [[-> ->]|(kn & Hkn & ->)]; [left; auto|right; exists kn; split; auto; apply I0; exact Hkn].
      * eapply ldpost_opn; eauto.
      * intros F' vs' cd' HF Hs'. cbn [with_facts lv_facts] in HF. apply (HN F' vs' cd'); auto. eapply incl_tran; eauto.
      * intros w F' vs' cd' HF HF' Hs' Hi. cbn [with_facts lv_facts lv_held] in *. apply (HS w F' vs' cd'); auto. eapply incl_tran; eauto.
Qed.

(** ** search *)
Definition sinfo (k : Z) (o : set_op) (pCur : V) (vs : st) (cd : option nat) : Prop :=
  ((vptr pCur = TAIL \/ (vptr pCur <> HEAD /\ k < vkey pCur)) -> after o false vs /\ cd = None) /\
  (vptr pCur <> TAIL -> vptr pCur <> HEAD -> vkey pCur = k -> o = SContains k -> cd = Some (vptr pCur)).

Definition sinfo' (k : Z) (o : set_op) (pCur : V) (vs : st) (cd : option nat) : Prop :=
  ((vptr pCur = TAIL \/ k < vkey pCur) -> after o false vs /\ cd = None) /\
  (vptr pCur <> TAIL -> vkey pCur = k -> o = SContains k -> cd = Some (vptr pCur)).

Lemma safe7_search fuel : forall t g0 g1 o pPrev pCur lv vs cd code (Q : option (nat * V) -> lview7 -> Prop),
  klt (lv_facts lv) pPrev (op_key o) -> cur_ok (lv_facts lv) pCur -> opn o vs cd ->
  (vptr pCur = HEAD \/ sinfo (op_key o) o pCur vs cd) ->
  (forall F' vs' cd', incl (lv_facts lv) F' -> opn o vs' cd' -> Q None (with_facts lv F', vs', cd', code)) ->
  (forall F' pp pc vs' cd', incl (lv_facts lv) F' -> found_ok F' (op_key o) pp pc -> opn o vs' cd' -> sinfo' (op_key o) o pc vs' cd' ->
        Q (Some (pp, pc)) (with_facts lv F', vs', cd', code)) ->
  safe7 t (search fuel t g0 g1 (op_key o) pPrev pCur) (lv, vs, cd, code) Q.
Proof.
  induction fuel as [|f IH]; intros t g0 g1 o pPrev pCur lv vs cd code Q Hkl Hcur Hopn Hinfo HN HS; cbn [search].
  - cbn [Conc.safe]. destruct lv. apply (HN lv_facts); [apply incl_refl|exact Hopn].
  - set (k := op_key o) in *.
    destruct (Nat.eqb_spec (vptr pCur) TAIL) as [ET|ET].
    { cbn [Conc.safe]. destruct lv as [F H ow h]. apply (HS F pPrev pCur); [apply incl_refl|split; auto|exact Hopn|].
      destruct Hinfo as [E|[Hi1 Hi2]]; [unfold HEAD, TAIL in *; congruence|]. split; [intros _; apply Hi1; left; exact ET|intros A; contradiction]. }
    destruct (negb (Nat.eqb (vptr pCur) HEAD) && Z.leb k (vkey pCur)) eqn:Estop.
    { apply andb_true_iff in Estop. destruct Estop as [E1 E2]. apply negb_true_iff, Nat.eqb_neq in E1. apply Z.leb_le in E2.
      cbn [Conc.safe]. destruct lv as [F H ow h]. apply (HS F pPrev pCur); [apply incl_refl| |exact Hopn|].
      - split; auto. right. destruct Hcur as [Hc|[Hc|Hc]]; try contradiction. auto.
      - destruct Hinfo as [E|[Hi1 Hi2]]; [contradiction|]. split.
        + intros [A|A]; [contradiction|]. apply Hi1. right. auto.
        + intros A B C. apply Hi2; auto. }
    assert (Hcell : exists ck, ck7 (lv_facts lv) (vptr pCur) ck /\ ck_lt ck k /\ klt (lv_facts lv) (vptr pCur) k).
    { apply andb_false_iff in Estop. destruct Hcur as [Hc|[Hc|Hc]]; [|contradiction|].
      - exists None. split; [left; auto|]. split; [left; reflexivity|left; exact Hc].
      - destruct Estop as [E|E].
        + apply negb_false_iff, Nat.eqb_eq in E. exists None. split; [left; auto|]. split; [left; reflexivity|left; exact E].
        + apply Z.leb_gt in E. exists (Some (vkey pCur)). split; [right; eexists; eauto|]. split; [right; eexists; eauto|right; eexists; eauto]. }
    destruct Hcell as (ck & Hck & Hcklt & Hkl').
    apply Conc.safe_bind. apply safe7_copy_guard.
    apply Conc.safe_bind. eapply safe7_protect with (ck := ck) (o := o); [apply cur_pk; exact Hcur|exact ET|exact Hck|exact Hopn|..].
    + intros F' vs' cd' HF Hs'. cbn [Conc.safe]. apply HN; auto.
    + intros nx F1 vs1 cd1 HF1 HN1 Hopn1 Hli. cbn beta iota. destruct (vmark nx) eqn:Emk.
      * change (safe7 t (search f t g0 g1 (op_key o) HEAD (mkV HEAD false 0)) (with_facts lv F1, vs1, cd1, code) Q). apply IH.
        -- left. reflexivity.
        -- left. reflexivity.
        -- exact Hopn1.
        -- left. reflexivity.
        -- intros F' vs' cd' HF Hs'. cbn [with_facts lv_facts] in HF. apply HN; auto. eapply incl_tran; eauto.
        -- intros F' pp pc vs' cd' HF Hf Hs' Hi. cbn [with_facts lv_facts] in HF. apply HS; auto. eapply incl_tran; eauto.
      * change (safe7 t (search f t g0 g1 (op_key o) (vptr pCur) nx) (with_facts lv F1, vs1, cd1, code) Q). apply IH.
        -- eapply klt_incl; [exact HF1|exact Hkl'].
        -- eapply (newfacts_cur (vptr pCur)); [exact ET|exact HN1].
        -- exact Hopn1.
        -- right. destruct Hli as (_ & L2 & _ & L4). fold k in L2, L4. split.
           ++ intros Hc. apply L2; auto.
           ++ intros A B C D. apply L4; auto.
        -- intros F' vs' cd' HF Hs'. cbn [with_facts lv_facts] in HF. apply HN; auto. eapply incl_tran; eauto.
        -- intros F' pp pc vs' cd' HF Hf Hs' Hi. cbn [with_facts lv_facts] in HF. apply HS; auto. eapply incl_tran; eauto.
Qed.

(** ** spin locks *)
Lemma safe7_lock_loops fuel : forall t n lv vs cd code (Q : bool -> lview7 -> Prop),
  pk (lv_facts lv) n ->
  (~ holds lv n -> Q true (with_held lv ((n, None) :: lv_held lv), vs, cd, code)) -> Q false (lv, vs, cd, code) ->
  safe7 t (lock_outer fuel n) (lv, vs, cd, code) Q /\ safe7 t (lock_inner fuel n) (lv, vs, cd, code) Q.
Proof.
  induction fuel as [|f IH]; intros t n lv vs cd code Q Hn HT HF; split; cbn [lock_outer lock_inner]; try (cbn [Conc.safe]; exact HF).
  - apply safe7_xchg; [exact Hn| |].
    + cbn [vmark vok]. apply IH; auto.
    + intros Hfree. cbn [vmark vok Conc.safe]. apply HT. exact Hfree.
  - apply safe7_ldlock. intros b. cbn [vmark vok]. destruct b; apply IH; auto.
Qed.

Lemma safe7_lock_outer fuel t n lv vs cd code (Q : bool -> lview7 -> Prop) :
  pk (lv_facts lv) n ->
  (~ holds lv n -> Q true (with_held lv ((n, None) :: lv_held lv), vs, cd, code)) -> Q false (lv, vs, cd, code) ->
  safe7 t (lock_outer fuel n) (lv, vs, cd, code) Q.
Proof. intros. apply safe7_lock_loops; auto. Qed.

Lemma safe7_unlock' t n lv vs cd code (Q : unit -> lview7 -> Prop) :
  holds lv n -> lv_hole lv = None -> Q tt (with_held lv (release (lv_held lv) n), vs, cd, code) -> safe7 t (unlock n) (lv, vs, cd, code) Q.
Proof. intros H1 H2 H3. unfold unlock. apply safe7_unlock; auto. Qed.

Lemma safe7_unlock_pos t p c lv vs cd code (Q : unit -> lview7 -> Prop) :
  holds lv p -> holds lv c -> p <> c -> lv_hole lv = None ->
  Q tt (with_held lv (release (release (lv_held lv) c) p), vs, cd, code) -> safe7 t (unlock_pos p c) (lv, vs, cd, code) Q.
Proof.
  intros Hp Hc Hpc Hh HQ. unfold unlock_pos. apply Conc.safe_bind. apply safe7_unlock'; auto.
  apply safe7_unlock'; auto. destruct Hp as [o Ho]. exists o. cbn. apply release_in. auto.
Qed.

Lemma safe7_lock_pos fuel t p c lv vs cd code (Q : bool -> lview7 -> Prop) :
  pk (lv_facts lv) p -> pk (lv_facts lv) c ->
  (p <> c -> Q true (with_held lv ((c, None) :: (p, None) :: lv_held lv), vs, cd, code)) ->
  (forall H', Q false (with_held lv H', vs, cd, code)) ->
  safe7 t (lock_pos fuel p c) (lv, vs, cd, code) Q.
Proof.
  intros Hp Hc HT HF. unfold lock_pos. apply Conc.safe_bind. apply safe7_lock_outer; [exact Hp| |].
  - intros _. apply safe7_lock_outer; [exact Hc| |].
    + intros Hfree. cbn [with_held lv_facts lv_held lv_own lv_hole]. apply HT.
      intros ->. apply Hfree. exists None. left. reflexivity.
    + cbn [Conc.safe]. apply (HF ((p, None) :: lv_held lv)).
  - cbn [Conc.safe]. destruct lv as [F H o h]. apply (HF H).
Qed.

(** ** validate: on success the operation has observed whether its key is present (under both locks) *)
Definition vinfo (k : Z) (o : set_op) (pc : V) (vs : st) : Prop :=
  ((vptr pc = TAIL \/ k < vkey pc) -> after o false vs) /\ (vptr pc <> TAIL -> vkey pc = k -> after o true vs).

Lemma safe7_validate t p pc o lv vs code (Q : bool -> lview7 -> Prop) :
  holds lv p -> holds lv (vptr pc) -> found_ok (lv_facts lv) (op_key o) p pc -> open_read vs o -> not_contains o ->
  (forall F' H' vs', incl (lv_facts lv) F' -> incl (lv_held lv) H' -> open_read vs' o -> Q false (mkLV F' H' (lv_own lv) (lv_hole lv), vs', None, code)) ->
  (forall F' H' x vs', incl (lv_facts lv) F' -> incl (lv_held lv) H' -> In (p, Some (vptr pc, false)) H' -> In (vptr pc, Some (x, false)) H' ->
        open_read vs' o -> vinfo (op_key o) o pc vs' -> Q true (mkLV F' H' (lv_own lv) (lv_hole lv), vs', None, code)) ->
  safe7 t (validate p (vptr pc)) (lv, vs, None, code) Q.
Proof.
  intros Hp Hc [Hkl Hpc] Hop Hnc HF HT. unfold validate. set (k := op_key o) in *. set (c := vptr pc) in *.
  assert (Hcell : exists ck, ck7 (lv_facts lv) p ck /\ ck_lt ck k).
  { destruct Hkl as [->|(km & Hkm & Hlt)]; [exists None; split; [left; auto|left; reflexivity]|].
    exists (Some km). split; [right; eexists; eauto|right; eexists; eauto]. }
  destruct Hcell as (ck & Hck & Hcklt).
  eapply safe7_ld_held with (ck := ck) (o := o); [exact Hp|exact Hck|exact Hop|auto|]. intros v1 vs1 cd1 _ Hpost1 _.
  destruct (ldpost_opn _ _ _ _ _ _ _ _ _ Hpost1) as [Hop1 Hcd1]. rewrite (Hcd1 Hnc). destruct (vmark v1).
  { cbn [Conc.safe]. apply HF; [apply incl_app_r'|apply incl_tl; apply incl_refl|exact Hop1]. }
  apply safe7_ld_held_plain; [destruct Hc as [ob Ho]; exists ob; right; exact Ho|]. intros v2 _. cbn [lv_facts lv_held lv_own lv_hole].
  destruct (vmark v2) eqn:E2.
  { cbn [Conc.safe]. apply HF; [apply incl_appr; apply incl_app_r'|do 2 apply incl_tl; apply incl_refl|exact Hop1]. }
  set (F2 := newfacts c v2 ++ newfacts p v1 ++ lv_facts lv).
  set (H2 := (c, Some (vptr v2, vmark v2)) :: (p, Some (vptr v1, false)) :: lv_held lv).
  assert (Hck2 : ck7 F2 p ck).
  { destruct Hck as [[-> ->]|(kn & Hkn & ->)]; [left; auto|right; exists kn; split; auto]. unfold F2. apply in_or_app. right. apply in_or_app. right. exact Hkn. }
  eapply safe7_ld_held with (ck := ck) (o := o); [destruct Hp as [ob Ho]; exists ob; right; right; exact Ho|exact Hck2|exact Hop1|auto|].
  intros v3 vs3 cd3 _ Hpost3 Hkeys. cbn [lv_facts lv_held lv_own lv_hole Conc.safe] in *.
  destruct (ldpost_opn _ _ _ _ _ _ _ _ _ Hpost3) as [Hop3 Hcd3]. rewrite (Hcd3 Hnc).
  destruct (Nat.eqb_spec (vptr v3) c) as [E3|E3]; cbn [andb].
  - destruct (vmark v3) eqn:E4; cbn [negb].
    + apply HF; [do 2 apply incl_appr; apply incl_app_r'|do 3 apply incl_tl; apply incl_refl|exact Hop3].
    + apply (HT _ _ (vptr v2)); [do 2 apply incl_appr; apply incl_app_r'|do 3 apply incl_tl; apply incl_refl| | |exact Hop3|].
      * left. rewrite E3. reflexivity.
      * right. left. reflexivity.
      * (* the observation of the third load *)
        destruct (ldpost_linfo _ _ _ _ _ _ _ _ _ Hpost3) as (_ & L2 & L3 & _). fold k in L2, L3. rewrite E3 in L2, L3. split.
        -- intros [ETl|Hlt].
           ++ apply L2; auto.
           ++ destruct Hpc as [ETl|[Hfc Hle]]; [apply L2; auto|].
              assert (Hin : In (FPub (vptr v3) (vkey pc)) F2).
              { rewrite E3. unfold F2. apply in_or_app. right. apply in_or_app. right. exact Hfc. }
              destruct (Hkeys _ Hin) as (K1 & K2 & K3). apply L2; auto. right. split; [congruence|]. rewrite K3. exact Hlt.
        -- intros HnT Hkk. destruct Hpc as [ETl|[Hfc Hle]]; [contradiction|].
           assert (Hin : In (FPub (vptr v3) (vkey pc)) F2).
           { rewrite E3. unfold F2. apply in_or_app. right. apply in_or_app. right. exact Hfc. }
           destruct (Hkeys _ Hin) as (K1 & K2 & K3).
           apply L3; auto; try congruence. exists (vptr v2). left. reflexivity.
  - apply HF; [do 2 apply incl_appr; apply incl_app_r'|do 3 apply incl_tl; apply incl_refl|exact Hop3].
Qed.

(** ** the critical sections (insert / update / erase: never a contains-type operation) *)
Definition QNone7 {R} (Q : option R -> lview7 -> Prop) : Prop := forall l, Q None l.

Lemma safe7_section {R} t sf pp pc o (body : prog (option R)) (retry : prog (option R)) lv vs code (Q : option R -> lview7 -> Prop) :
  found_ok (lv_facts lv) (op_key o) pp pc -> lv_hole lv = None -> open_read vs o -> not_contains o -> QNone7 Q ->
  (forall F' H' x vs', incl (lv_facts lv) F' -> pp <> vptr pc ->
        In (pp, Some (vptr pc, false)) H' -> In (vptr pc, Some (x, false)) H' -> open_read vs' o -> vinfo (op_key o) o pc vs' ->
        safe7 t body (mkLV F' H' (lv_own lv) None, vs', None, code) Q) ->
  (forall F' H' vs', incl (lv_facts lv) F' -> open_read vs' o -> safe7 t retry (mkLV F' H' (lv_own lv) None, vs', None, code) Q) ->
  safe7 t (lk <- lock_pos sf pp (vptr pc) ;;
          if negb lk then Ret None
          else ok <- validate pp (vptr pc) ;;
               if ok then body else (_ <- unlock_pos pp (vptr pc) ;; retry)) (lv, vs, None, code) Q.
Proof.
  intros Hf Hh Hop Hnc HQ Hbody Hretry. destruct (found_pk _ _ _ _ Hf) as [Hp Hc].
  apply Conc.safe_bind. apply safe7_lock_pos; auto.
  - intros Hpc. cbn [negb]. apply Conc.safe_bind. eapply safe7_validate with (o := o); cbn [with_held lv_facts lv_held lv_own lv_hole]; auto.
    + exists None. right. left. reflexivity.
    + exists None. left. reflexivity.
    + intros F' H' vs' HF HH Hop'. cbn [with_held lv_facts lv_held lv_own lv_hole] in *.
      apply Conc.safe_bind. apply safe7_unlock_pos; cbn [lv_held lv_hole]; auto.
      * exists None. apply HH. right. left. reflexivity.
      * exists None. apply HH. left. reflexivity.
      * cbn [with_held lv_facts lv_held lv_own lv_hole]. rewrite Hh. apply Hretry; auto.
    + intros F' H' x vs' HF HH H1 H2 Hop' Hvi. cbn [with_held lv_facts lv_held lv_own lv_hole] in *. rewrite Hh. eapply Hbody; eauto.
  - intros H'. cbn [negb Conc.safe]. apply HQ.
Qed.

Lemma is_key_true pc k : is_key pc k = true -> vptr pc <> TAIL /\ vkey pc = k.
Proof.
  unfold is_key. intros H. apply andb_true_iff in H. destruct H as [H1 H2]. apply negb_true_iff, Nat.eqb_neq in H1.
  apply Z.eqb_eq in H2. auto.
Qed.
Lemma is_key_false F k pp pc : found_ok F k pp pc -> is_key pc k = false -> vptr pc = TAIL \/ k < vkey pc.
Proof.
  intros [_ [Hc|[Hc Hle]]] Hk; [left; exact Hc|]. unfold is_key in Hk.
  destruct (Nat.eqb_spec (vptr pc) TAIL) as [E|E]; [left; exact E|]. cbn [negb andb] in Hk. apply Z.eqb_neq in Hk. right. lia.
Qed.

Lemma not_contains_ins k : not_contains (SInsert k).
Proof. intros kk. discriminate. Qed.
Lemma not_contains_upd k al : not_contains (SUpdate k al).
Proof. intros kk. discriminate. Qed.
Lemma not_contains_era k : not_contains (SErase k).
Proof. intros kk. discriminate. Qed.

Lemma opn_nc o vs : open_read vs o -> not_contains o -> opn o vs None.
Proof. intros H _. split; auto. Qed.

Lemma sinfo_head k o vs cd : vptr (mkV HEAD false 0) = HEAD \/ sinfo k o (mkV HEAD false 0) vs cd.
Proof. left. reflexivity. Qed.

(** ** the operation loops *)
Lemma safe7_insert_loop fuel : forall sf ic withf t g0 g1 k n nx lv vs code (Q : out bool -> lview7 -> Prop),
  lv_own lv = Some (n, k, nx) -> lv_hole lv = None -> open_read vs (SInsert k) -> QNone7 Q ->
  (forall lv', lv_hole lv' = None -> Q (Some false) (lv', @Linearized SetSpec (SInsert k) (RBool false), None, code)) ->
  (forall lv', lv_hole lv' = None -> Q (Some true) (lv', @Linearized SetSpec (SInsert k) (RBool true), None, code)) ->
  safe7 t (insert_loop fuel sf ic withf t g0 g1 k n) (lv, vs, None, code) Q.
Proof.
  induction fuel as [|f IH]; intros sf ic withf t g0 g1 k n nx lv vs code Q Hown Hh Hop HQN HQF HQT; cbn [insert_loop].
  - cbn [Conc.safe]. apply HQN.
  - apply Conc.safe_bind. unfold search_from_head. change k with (op_key (SInsert k)) at 1.
    apply safe7_search; [left; reflexivity|left; reflexivity|apply opn_nc; [exact Hop|apply not_contains_ins]|apply sinfo_head|..].
    + intros F' vs' cd' _ _. cbn [Conc.safe]. apply HQN.
    + intros F' pp pc vs' cd' HF Hf [Hop' Hcd'] _. cbn beta iota. cbn [op_key] in Hf. rewrite (Hcd' (not_contains_ins k)).
      apply (safe7_section t sf pp pc (SInsert k)); auto; [apply not_contains_ins| |].
      * intros F2 H2 x vs2 HF2 Hpc Hp Hc Hop2 [Hv1 Hv2]. cbn [with_facts lv_facts lv_own op_key] in *. rewrite Hown.
        destruct (is_key pc k) eqn:Ek.
        -- destruct (is_key_true _ _ Ek) as [A B]. rewrite (Hv2 A B (RBool false) eq_refl).
           apply Conc.safe_bind. apply safe7_unlock_pos; [eexists; exact Hp|eexists; exact Hc|exact Hpc|reflexivity|].
           cbn [Conc.safe]. apply HQF. reflexivity.
        -- unfold link_node. apply Conc.safe_bind.
           eapply safe7_st_own; [reflexivity|]. cbn [lv_facts lv_held lv_own lv_hole].
           eapply safe7_st_link with (kk := k) (pc := vptr pc) (o := SInsert k); cbn [lv_facts lv_held lv_own lv_hole]; auto.
           ++ eapply klt_incl; [exact HF2|]. apply Hf.
           ++ eapply kgt_incl; [exact HF2|]. eapply found_kgt; eauto.
           ++ left. reflexivity.
           ++ cbn [Conc.safe ins_res MichaelListActs.ins_res].
              assert (Hu : forall (Q' : unit -> lview7 -> Prop) lvx z, lv_held lvx = set_obs H2 pp (n, false) -> lv_hole lvx = None ->
                           Q' tt (with_held lvx (release (release (lv_held lvx) (vptr pc)) pp), z, None, code) -> safe7 t (unlock_pos pp (vptr pc)) (lvx, z, None, code) Q').
              { intros Q' lvx z E1 E2 HQ'. apply safe7_unlock_pos; auto; unfold holds; rewrite E1; eapply holds_set_obs; eauto. }
              destruct withf.
              ** apply safe7_emit_other; [reflexivity|reflexivity|]. apply Conc.safe_bind. apply Hu; [reflexivity|reflexivity|].
                 apply Conc.safe_bind. apply safe7_cnt_inc. cbn [Conc.safe]. apply HQT. reflexivity.
              ** apply Conc.safe_bind. apply Hu; [reflexivity|reflexivity|].
                 apply Conc.safe_bind. apply safe7_cnt_inc. cbn [Conc.safe]. apply HQT. reflexivity.
      * intros F2 H2 vs2 HF2 Hop2. cbn [with_facts lv_own]. eapply IH; eauto.
Qed.

Lemma safe7_update_loop fuel : forall sf ic allow t g0 g1 k n nx lv vs code (Q : out (bool * bool) -> lview7 -> Prop),
  lv_own lv = Some (n, k, nx) -> lv_hole lv = None -> open_read vs (SUpdate k allow) -> QNone7 Q ->
  (forall lv', lv_hole lv' = None -> Q (Some (true, true)) (lv', @Linearized SetSpec (SUpdate k allow) (RPair true true), None, code)) ->
  (forall lv', lv_hole lv' = None -> Q (Some (true, false)) (lv', @Linearized SetSpec (SUpdate k allow) (RPair true false), None, code)) ->
  (forall lv', lv_hole lv' = None -> allow = false -> Q (Some (false, false)) (lv', @Linearized SetSpec (SUpdate k allow) (RPair false false), None, code)) ->
  safe7 t (update_loop fuel sf ic allow t g0 g1 k n) (lv, vs, None, code) Q.
Proof.
  induction fuel as [|f IH]; intros sf ic allow t g0 g1 k n nx lv vs code Q Hown Hh Hop HQN HQT HQE HQF; cbn [update_loop].
  - cbn [Conc.safe]. apply HQN.
  - apply Conc.safe_bind. unfold search_from_head. change k with (op_key (SUpdate k allow)) at 1.
    apply safe7_search; [left; reflexivity|left; reflexivity|apply opn_nc; [exact Hop|apply not_contains_upd]|apply sinfo_head|..].
    + intros F' vs' cd' _ _. cbn [Conc.safe]. apply HQN.
    + intros F' pp pc vs' cd' HF Hf [Hop' Hcd'] _. cbn beta iota. cbn [op_key] in Hf. rewrite (Hcd' (not_contains_upd k allow)).
      apply (safe7_section t sf pp pc (SUpdate k allow)); auto; [apply not_contains_upd| |].
      * intros F2 H2 x vs2 HF2 Hpc Hp Hc Hop2 [Hv1 Hv2]. cbn [with_facts lv_facts lv_own op_key] in *. rewrite Hown.
        destruct (is_key pc k) eqn:Ek.
        -- destruct (is_key_true _ _ Ek) as [A B].
           assert (E : vs2 = @Linearized SetSpec (SUpdate k allow) (RPair true false)) by (apply (Hv2 A B); destruct allow; reflexivity).
           rewrite E. apply safe7_emit_other; [reflexivity|reflexivity|].
           apply Conc.safe_bind. apply safe7_unlock_pos; [eexists; exact Hp|eexists; exact Hc|exact Hpc|reflexivity|].
           cbn [Conc.safe]. apply HQE. reflexivity.
        -- destruct allow; cbn [negb].
           ++ unfold link_node. apply Conc.safe_bind.
              eapply safe7_st_own; [reflexivity|]. cbn [lv_facts lv_held lv_own lv_hole].
              eapply safe7_st_link with (kk := k) (pc := vptr pc) (o := SUpdate k true); cbn [lv_facts lv_held lv_own lv_hole]; auto.
              ** eapply klt_incl; [exact HF2|]. apply Hf.
              ** eapply kgt_incl; [exact HF2|]. eapply found_kgt; eauto.
              ** right. reflexivity.
              ** cbn [Conc.safe ins_res MichaelListActs.ins_res]. apply safe7_emit_other; [reflexivity|reflexivity|]. apply Conc.safe_bind.
                 apply safe7_unlock_pos; auto; try (unfold holds; cbn [lv_held]; eapply holds_set_obs; eauto).
                 apply Conc.safe_bind. apply safe7_cnt_inc. cbn [Conc.safe]. apply HQT. reflexivity.
           ++ rewrite (Hv1 (is_key_false _ _ _ _ Hf Ek) (RPair false false) eq_refl).
              apply Conc.safe_bind. apply safe7_unlock_pos; [eexists; exact Hp|eexists; exact Hc|exact Hpc|reflexivity|].
              cbn [Conc.safe]. apply HQF; reflexivity.
      * intros F2 H2 vs2 HF2 Hop2. cbn [with_facts lv_own]. eapply IH; eauto.
Qed.

Lemma safe7_erase_loop fuel : forall sf ic code mine t g0 g1 k lv vs cd0 (Q : out bool -> lview7 -> Prop),
  lv_hole lv = None -> open_read vs (SErase k) -> QNone7 Q ->
  (forall lv' vs', lv_hole lv' = None -> open_read vs' (SErase k) ->
        (Z.eqb code 6 = false -> vs' = @Linearized SetSpec (SErase k) (RBool false)) -> Q (Some false) (lv', vs', None, cd0)) ->
  (forall lv', lv_hole lv' = None -> Q (Some true) (lv', @Linearized SetSpec (SErase k) (RBool true), None, cd0)) ->
  safe7 t (erase_loop fuel sf ic code mine t g0 g1 k) (lv, vs, None, cd0) Q.
Proof.
  induction fuel as [|f IH]; intros sf ic code mine t g0 g1 k lv vs cd0 Q Hh Hop HQN HQF HQT; cbn [erase_loop].
  - cbn [Conc.safe]. apply HQN.
  - apply Conc.safe_bind. unfold search_from_head. change k with (op_key (SErase k)) at 1.
    apply safe7_search; [left; reflexivity|left; reflexivity|apply opn_nc; [exact Hop|apply not_contains_era]|apply sinfo_head|..].
    + intros F' vs' cd' _ _. cbn [Conc.safe]. apply HQN.
    + intros F' pp pc vs' cd' HF Hf [Hop' Hcd'] _. cbn beta iota. cbn [op_key] in Hf. rewrite (Hcd' (not_contains_era k)).
      apply (safe7_section t sf pp pc (SErase k)); auto; [apply not_contains_era|].
      * intros F2 H2 x vs2 HF2 Hpc Hp Hc Hop2 [Hv1 Hv2]. cbn [with_facts lv_facts lv_own op_key] in *.
        destruct (is_key pc k && (negb (Z.eqb code 6) || Nat.eqb (vptr pc) mine)) eqn:Ek.
        -- apply andb_true_iff in Ek. destruct Ek as [Ek _].
           pose proof (found_key _ _ _ _ Hf Ek) as Hfk.
           destruct (is_key_true _ _ Ek) as [_ Ekk].
           unfold unlink_node. apply Conc.safe_bind.
           apply safe7_ld_held_plain; [exists (Some (x, false)); exact Hc|]. intros v Hag. cbn [lv_facts lv_held lv_own lv_hole].
           destruct (Hag x false Hc) as [Ev1 Ev2].
           eapply safe7_st_mark with (p := pp) (nx := vptr v) (kc := k); cbn [lv_facts lv_held lv_own lv_hole].
           ++ right. exact Hp.
           ++ left. rewrite Ev2. reflexivity.
           ++ apply in_or_app. right. apply HF2. rewrite <- Ekk. exact Hfk.
           ++ reflexivity.
           ++ exact Hop2.
           ++ eapply safe7_st_bypass; cbn [lv_facts lv_held lv_own lv_hole]; [reflexivity|].
              cbn [Conc.safe].
              set (H3 := set_obs (set_obs ((vptr pc, Some (vptr v, vmark v)) :: H2) (vptr pc) (HEAD, true)) pp (vptr v, false)).
              assert (Hu : forall (Q' : unit -> lview7 -> Prop) lvx z, lv_held lvx = H3 -> lv_hole lvx = None ->
                           Q' tt (with_held lvx (release (release (lv_held lvx) (vptr pc)) pp), z, None, cd0) -> safe7 t (unlock_pos pp (vptr pc)) (lvx, z, None, cd0) Q').
              { intros Q' lvx z E1 E2 HQ'. apply safe7_unlock_pos; auto; unfold holds; rewrite E1; unfold H3.
                - apply set_obs_holds. apply set_obs_holds. exists (Some (vptr pc, false)). right. exact Hp.
                - apply set_obs_holds. apply set_obs_holds. eexists. left. reflexivity. }
              destruct (Z.eqb code 5).
              ** apply safe7_emit_other; [reflexivity|reflexivity|]. apply Conc.safe_bind. apply Hu; [reflexivity|reflexivity|].
                 apply Conc.safe_bind. apply safe7_cnt_dec. apply Conc.safe_bind. apply safe7_retire. cbn [Conc.safe]. apply HQT. reflexivity.
              ** apply Conc.safe_bind. apply Hu; [reflexivity|reflexivity|].
                 apply Conc.safe_bind. apply safe7_cnt_dec. apply Conc.safe_bind. apply safe7_retire. cbn [Conc.safe]. apply HQT. reflexivity.
        -- apply Conc.safe_bind. apply safe7_unlock_pos; [eexists; exact Hp|eexists; exact Hc|exact Hpc|reflexivity|].
           cbn [Conc.safe]. apply HQF; [reflexivity|exact Hop2|].
           intros E6. rewrite E6 in Ek. cbn [negb orb] in Ek. rewrite andb_true_r in Ek.
           apply (Hv1 (is_key_false _ _ _ _ Hf Ek) (RBool false) eq_refl).
Qed.

(** ** one client operation *)
Definition Qop7 (Q : out lstate -> lview7 -> Prop) : Prop :=
  QNone7 Q /\ forall ls' lv' code', lv_hole lv' = None -> Q (Some ls') (lv', @Idle SetSpec, None, code').

Lemma safe7_give_up t l (Q : out lstate -> lview7 -> Prop) : QNone7 Q -> safe7 t give_up l Q.
Proof. intros HQ. destruct l as [[[lv vs] cd] code]. unfold give_up. apply safe7_emit_other; [reflexivity|reflexivity|]. cbn [Conc.safe]. apply HQ. Qed.

Lemma safe7_finish t gs fr (k : list nat -> prog (out lstate)) l (Q : out lstate -> lview7 -> Prop) :
  (forall fr', safe7 t (k fr') l Q) -> safe7 t (fr2 <- free_guards t gs fr ;; k fr2) l Q.
Proof. intros H. apply Conc.safe_bind. apply safe7_free_guards. exact H. Qed.

Lemma after_contains k b vs : after (SContains k) b vs -> vs = @Linearized SetSpec (SContains k) (RBool b).
Proof. intros H. apply H. reflexivity. Qed.

Lemma safe7_run_op fuel sf ic t o ls lv code0 (Q : out lstate -> lview7 -> Prop) :
  lv_hole lv = None -> Qop7 Q -> safe7 t (run_op fuel sf ic t o ls) (lv, @Idle SetSpec, None, code0) Q.
Proof.
  intros Hh [HQN HQ]. unfold run_op.
  set (code := nth 0 o 0). set (k := nth 1 o 0). set (x := nth 2 o 0).
  destruct ls as [fr own]. destruct (alloc2 fr) as [[g0 g1] fr1].
  destruct (Z.leb 1 code && Z.leb code 10); [|cbn [Conc.safe]; apply HQ; exact Hh].
  unfold ev_inv. fold code k x. apply safe7_emit_inv.
  assert (HretL : forall (r : lstate) op res a1 b1 lv', lv_hole lv' = None -> res_of op a1 b1 = res -> Z.eqb code 6 && Z.eqb a1 0 = false ->
                    safe7 t (Emit [ev_ret a1 b1] (Ret (Some r))) (lv', @Linearized SetSpec op res, None, code) Q).
  { intros r op res a1 b1 lv' E E1 E2. unfold ev_ret. apply (safe7_emit_ret t op res a1 b1); auto. cbn [Conc.safe]. apply HQ. exact E. }
  destruct (Z.eqb code 1 || Z.eqb code 2) eqn:E12.
  { assert (Eo : spec_op code k x = SInsert k) by (unfold MichaelListInv.spec_op; rewrite E12; reflexivity). rewrite Eo.
    assert (E6 : Z.eqb code 6 = false) by (rewrite orb_true_iff, !Z.eqb_eq in E12; apply Z.eqb_neq; lia).
    apply safe7_alloc. intros n. cbn [vptr]. apply Conc.safe_bind.
    eapply (safe7_insert_loop fuel sf ic _ t g0 g1 k n 0%nat); [reflexivity|exact Hh|left; reflexivity| | |].
    - intros l. apply safe7_give_up. exact HQN.
    - intros lv' E. apply safe7_finish. intros fr2. apply HretL; auto; rewrite E6; reflexivity.
    - intros lv' E. apply safe7_finish. intros fr2. apply HretL; auto; rewrite E6; reflexivity. }
  destruct (Z.eqb code 3) eqn:E3.
  { assert (Eo : spec_op code k x = SUpdate k (Z.odd x)) by (unfold MichaelListInv.spec_op; rewrite E12, E3; reflexivity). rewrite Eo.
    assert (E6 : Z.eqb code 6 = false) by (apply Z.eqb_eq in E3; apply Z.eqb_neq; lia).
    apply safe7_alloc. intros n. cbn [vptr]. apply Conc.safe_bind.
    eapply (safe7_update_loop fuel sf ic (Z.odd x) t g0 g1 k n 0%nat); [reflexivity|exact Hh|left; reflexivity| | | |].
    - intros l. apply safe7_give_up. exact HQN.
    - intros lv' E. apply safe7_finish. intros fr2. apply HretL; auto; rewrite E6; reflexivity.
    - intros lv' E. apply safe7_finish. intros fr2. apply HretL; auto; rewrite E6; reflexivity.
    - intros lv' E _. apply safe7_finish. intros fr2. apply HretL; auto; rewrite E6; reflexivity. }
  destruct (Z.eqb code 4 || Z.eqb code 5) eqn:E45.
  { assert (Eo : spec_op code k x = SErase k).
    { apply spec_op_erase. apply orb_true_iff in E45. destruct E45 as [E|E]; apply Z.eqb_eq in E; auto. }
    assert (E6 : Z.eqb code 6 = false) by (rewrite orb_true_iff, !Z.eqb_eq in E45; apply Z.eqb_neq; lia).
    rewrite Eo. apply Conc.safe_bind. apply safe7_erase_loop; [exact Hh|left; reflexivity| | |].
    - intros l. apply safe7_give_up. exact HQN.
    - intros lv' vs' E Hop' Hlin. rewrite (Hlin E6). apply safe7_finish. intros fr2. apply HretL; auto; rewrite E6; reflexivity.
    - intros lv' E. apply safe7_finish. intros fr2. apply HretL; auto; rewrite E6; reflexivity. }
  destruct (Z.eqb code 6) eqn:E6.
  { assert (Eo : spec_op code k x = SErase k) by (apply spec_op_erase; apply Z.eqb_eq in E6; auto). rewrite Eo.
    cbv zeta.
    assert (Hbody : forall m lv0, lv_hole lv0 = None ->
       safe7 t (r <- erase_loop fuel sf ic 6 m t g0 g1 k ;;
               match r with
               | None => give_up
               | Some b => fr2 <- free_guards t [g0; g1] fr1 ;;
                   Emit [ev_ret (zb b) (zb (negb (Nat.eqb (own_find k own) 0)))] (Ret (Some (fr2, if b then own_del k own else own)))
               end) (lv0, @Pending SetSpec (SErase k), None, code) Q).
    { intros m lv0 E0. apply Conc.safe_bind. apply safe7_erase_loop; [exact E0|left; reflexivity| | |].
      - intros l. apply safe7_give_up. exact HQN.
      - intros lv' vs' E Hop' _. apply safe7_finish. intros fr2. unfold ev_ret. cbn [zb].
        eapply safe7_emit_ret_drop; [exact Hop'|rewrite E6; reflexivity|]. cbn [Conc.safe]. apply HQ. exact E.
      - intros lv' E. apply safe7_finish. intros fr2. apply HretL; auto. }
    destruct (Nat.eqb (own_find k own) 0).
    - apply safe7_alloc. intros n. cbn [vptr]. apply Hbody. exact Hh.
    - apply Hbody. exact Hh. }
  destruct (Z.eqb code 7) eqn:E7.
  { assert (Eo : spec_op code k x = SErase k) by (apply spec_op_erase; apply Z.eqb_eq in E7; auto). rewrite Eo.
    apply Conc.safe_bind. apply safe7_erase_loop; [exact Hh|left; reflexivity| | |].
    - intros l. apply safe7_give_up. exact HQN.
    - intros lv' vs' E Hop' Hlin. rewrite (Hlin eq_refl). apply safe7_finish. intros fr2. apply HretL; auto; rewrite E6; reflexivity.
    - intros lv' E. apply safe7_finish. intros fr2. apply Conc.safe_bind. apply safe7_use_guarded.
      apply safe7_finish. intros fr3. apply HretL; auto; rewrite E6; reflexivity. }
  (* get, contains, find with functor *)
  rewrite (spec_op_contains code k x E12 E3 E45 E6 E7).
  assert (Hret : forall (r : lstate) b a1 b1 lv', lv_hole lv' = None -> negb (Z.eqb a1 0) = b ->
                   safe7 t (Emit [ev_ret a1 b1] (Ret (Some r))) (lv', @Linearized SetSpec (SContains k) (RBool b), None, code) Q).
  { intros r b a1 b1 lv' E Eb. apply HretL; [exact E|cbn; rewrite Eb; reflexivity|reflexivity]. }
  apply Conc.safe_bind. unfold search_from_head. change k with (op_key (SContains k)) at 1.
  apply safe7_search; [left; reflexivity|left; reflexivity| |apply sinfo_head|..].
  { split; [left; reflexivity|]. intros Hn. exfalso. eapply Hn. reflexivity. }
  - intros F' vs' cd' _ _. apply safe7_give_up; auto.
  - intros F' pp pc vs' cd' HF Hf [Hop' Hcd'] [Hs1 Hs2]. cbn beta iota. cbn [op_key] in *.
    destruct (Nat.eqb_spec (vptr pc) TAIL) as [ET|ET].
    { destruct (Hs1 (or_introl ET)) as [Ha ->]. rewrite (after_contains _ _ _ Ha).
      apply safe7_finish. intros fr2. apply Hret; auto. }
    assert (Hfc : In (FPub (vptr pc) (vkey pc)) F' /\ k <= vkey pc) by (destruct Hf as [_ [A|A]]; [contradiction|exact A]).
    destruct Hfc as [Hfc Hle].
    assert (Hpk : pk F' (vptr pc)) by (apply (found_pk _ _ _ _ Hf)).
    assert (Hck : ck7 F' (vptr pc) (Some (vkey pc))) by (right; eexists; eauto).
    (* what the final load of pCur's next field decides *)
    assert (Hfin : forall v vs2 cd2 held, ldpost (vptr pc) (Some (vkey pc)) (SContains k) held v vs' cd' vs2 cd2 ->
              vs2 = @Linearized SetSpec (SContains k) (RBool (negb (vmark v) && Z.eqb (vkey pc) k)) /\ cd2 = None).
    { intros v vs2 cd2 held (P1 & P2 & P3 & P4 & P5 & P6 & P7 & P8). cbn [op_key] in *.
      destruct (Z.eqb_spec (vkey pc) k) as [Ek|Ek].
      - destruct (vmark v) eqn:Em; cbn [negb andb].
        + destruct (P6 eq_refl (Hs2 ET Ek eq_refl) (f_equal Some Ek) eq_refl) as [A B]. auto.
        + destruct (P2 eq_refl (f_equal Some Ek)) as [A B]. rewrite (after_contains _ _ _ A). auto.
      - rewrite andb_false_r. assert (Hlt : k < vkey pc) by lia.
        destruct (P7 (vkey pc) eq_refl Hlt) as [A B]. destruct (Hs1 (or_intror Hlt)) as [C D].
        rewrite A, B, D. rewrite (after_contains _ _ _ C). auto. }
    destruct (Z.eqb code 10).
    + apply Conc.safe_bind. apply safe7_lock_outer; [exact Hpk| |].
      * intros _. cbn [negb].
        eapply safe7_ld_held with (ck := Some (vkey pc)) (o := SContains k); [exists None; left; reflexivity|exact Hck|exact Hop'|exact Hcd'|].
        intros v vs2 cd2 _ Hpost _. cbn [with_held with_facts lv_facts lv_held lv_own lv_hole].
        destruct (Hfin _ _ _ _ Hpost) as [-> ->].
        assert (Hu : forall (kk : prog (out lstate)) F2 H2 z, (forall H3, safe7 t kk (mkLV F2 H3 (lv_own lv) None, z, None, code) Q) ->
                       safe7 t (_ <- unlock (vptr pc) ;; kk) (mkLV F2 ((vptr pc, Some (vptr v, vmark v)) :: H2) (lv_own lv) None, z, None, code) Q).
        { intros kk F2 H2 z Hkk. apply Conc.safe_bind. apply safe7_unlock'; [eexists; left; reflexivity|reflexivity|]. apply Hkk. }
        rewrite Hh.
        destruct (negb (vmark v) && Z.eqb (vkey pc) k).
        -- apply safe7_emit_other; [reflexivity|reflexivity|]. apply Hu. intros H3. apply safe7_finish. intros fr2. apply Hret; reflexivity.
        -- apply Hu. intros H3. apply safe7_finish. intros fr2. apply Hret; reflexivity.
      * cbn [negb]. apply safe7_give_up; auto.
    + eapply safe7_ld with (ck := Some (vkey pc)) (o := SContains k); [exact Hpk|exact Hck|exact Hop'|exact Hcd'|].
      intros v vs2 cd2 _ Hpost _. cbv zeta. destruct (Hfin _ _ _ _ Hpost) as [-> ->].
      destruct (Z.eqb code 8 && (negb (vmark v) && Z.eqb (vkey pc) k)) eqn:E8.
      * apply andb_true_iff in E8. destruct E8 as [_ E8]. rewrite E8.
        apply safe7_finish. intros fr2. apply Conc.safe_bind. apply safe7_use_guarded.
        apply safe7_finish. intros fr3. apply Hret; [exact Hh|reflexivity].
      * apply safe7_finish. intros fr2. apply Hret; [exact Hh|]. destruct (negb (vmark v) && Z.eqb (vkey pc) k); reflexivity.
Qed.

Lemma safe7_run_ops fuel sf ic t os : forall ls lv code,
  lv_hole lv = None -> safe7 t (run_ops fuel sf ic t os ls) (lv, @Idle SetSpec, None, code) (fun _ _ => True).
Proof.
  induction os as [|o os IH]; intros ls lv code Hh; cbn [run_ops]; [exact I|].
  apply Conc.safe_bind. apply safe7_run_op; [exact Hh|]. split.
  - intros l. exact I.
  - intros ls' lv' code' E. apply IH. exact E.
Qed.

Lemma safe7_thread fuel sf ic t os lv code :
  lv_hole lv = None -> safe7 t (thread_prog fuel sf ic t os) (lv, @Idle SetSpec, None, code) (@Conc.QTrue lview7).
Proof.
  intros Hh. unfold thread_prog. apply safe7_neutral with (v := v0); [apply neutral3_begin|].
  eapply Conc.safe_weaken; [|apply safe7_run_ops; exact Hh]. intros; exact I.
Qed.

(** ** the initial configuration *)
Definition aux70 : aux7 := mkAux7 aux0 [] (fun _ => @Idle SetSpec) (fun _ => None) (fun _ => 0) [].

Lemma init_ok7 fuel sf ic ths : Conc.cfg_ok view7 Inv7 (init_cfg fuel sf ic ths).
Proof.
  exists aux70. split.
  - exists []. split; [exact IS_init|]. constructor; cbn [aux70 h_atr h_vs h_cand h_code h_watch].
    + exists [], (fun _ => @Idle SetSpec). split; [reflexivity|]. split.
      * intros k0. split; [discriminate|]. intros (n & [] & _).
      * intros t. unfold srel. cbn [aux70 h_cand h_vs]. reflexivity.
    + exists []. split; [reflexivity|]. intros t Hn. exfalso. apply Hn. reflexivity.
    + split; [constructor|]. intros t Hn. exfalso. apply Hn. reflexivity.
  - intros t p Hp. cbn [init_cfg Conc.threads] in Hp.
    destruct (thread_progs_nth _ _ _ _ _ _ _ Hp) as [os ->]. cbn [Nat.add].
    unfold view7. cbn [aux70 h_base h_vs h_cand h_code]. apply safe7_thread. reflexivity.
Qed.

(** ** full linearizability, every schedule.
    [full_hist] is the history function of the MichaelList development: every completed operation with its result
    (insert / insert with functor -> SInsert k, update -> SUpdate k bAllowInsert, erase / erase with functor / unlink /
    extract -> SErase k, get / contains / find -> SContains k), except unlink calls that returned false. *)
Theorem lazy_linearizable_lp fuel sf ic ths c :
  Conc.reach (init_cfg fuel sf ic ths) c ->
  exists atr, lp_valid SetSpec atr /\ erase atr = full_hist (Conc.trace c).
Proof.
  intros Hr. destruct (Conc.reach_Inv (init_ok7 fuel sf ic ths) Hr) as (a & L & _ & [(S & st0 & H1 & _) (pend & H2 & _) _]).
  exists (h_atr a). split; [exists (S, st0); exact H1|]. unfold MichaelListProofs.full_hist. rewrite H2. reflexivity.
Qed.

Theorem lazy_linearizable fuel sf ic ths c :
  Conc.reach (init_cfg fuel sf ic ths) c -> linearizable SetSpec (full_hist (Conc.trace c)).
Proof.
  intros Hr. destruct (lazy_linearizable_lp _ _ _ _ _ Hr) as (atr & Hv & <-).
  apply lp_valid_linearizable. exact Hv.
Qed.
