(** * DhpExtendA: specifications of hp_allocator::alloc and thread_hp_storage::{extend, alloc, free}. *)
From Coq Require Import ZArith NArith List String Bool Lia PeanoNat.
From LV Require Import Base.Conc Base.Events Model.DhpLang Model.Dhp Proofs.DhpBase Proofs.DhpHist
  Proofs.DhpLangProofs Proofs.DhpInvA Proofs.DhpStepsA Proofs.DhpQuietA Proofs.DhpSlotA Proofs.DhpScanA Proofs.DhpScanC
  Proofs.DhpScanD Proofs.DhpPresA Proofs.DhpAllocA Proofs.DhpAllocB Proofs.DhpAllocC Proofs.DhpViewA Proofs.DhpLinkA Proofs.DhpRulesA.
Import ListNotations.

Section ExtendA.
  Variable c : cfg.
  Notation dsafeA := (@dsafe G ev AuxA VA viewA (InvA c)).

  (** ** programs made of nodes that keep the invariant without touching any view (quiet nodes and cell stores) *)
  Fixpoint neutP {R} (p : @dprog G ev R) : Prop :=
    match p with
    | DRet _ => True
    | DEmit es k => (forall g a tr t, InvA c g a tr -> InvA c g a (tr ++ Conc.tag t es)) /\ neutP k
    | DLoc f k => (forall g a tr, InvA c g a tr -> InvA c (fst (f g)) a tr) /\ forall x, neutP (k x)
    | DAct f k => (forall g a tr t, InvA c g a tr -> InvA c (fst (fst (f g))) a (tr ++ Conc.tag t (snd (f g)))) /\
                  forall x, neutP (k x)
    end.

  Lemma neutP_dsafe {R} t (p : @dprog G ev R) l (Q : R -> VA -> Prop) : neutP p -> (forall r, Q r l) -> dsafeA t p l Q.
  Proof.
    intros Hp HQ. induction p as [r|es k IH|X f k IH|X f k IH]; cbn [neutP dsafe] in *.
    - apply HQ.
    - destruct Hp as (H1 & H2). intros g a tr Hi Hv. exists a. split; [auto|]. split; [apply frame_refl|]. rewrite Hv. auto.
    - destruct Hp as (H1 & H2). intros g a tr Hi Hv. exists a. split; [auto|]. split; [apply frame_refl|]. rewrite Hv. auto.
    - destruct Hp as (H1 & H2). intros g a tr Hi Hv. exists a. split; [auto|]. split; [apply frame_refl|]. rewrite Hv. auto.
  Qed.

  Lemma quietP_neutP {R} (p : @dprog G ev R) : quietP p -> neutP p.
  Proof.
    induction p as [r|es k IH|X f k IH|X f k IH]; cbn [quietP neutP]; auto.
    - intros (H1 & H2). split; auto. intros g a tr t Hi. eapply InvA_quiet; eauto using quietG_refl.
    - intros (H1 & H2). split; auto. intros g a tr Hi.
      pose proof (InvA_quiet c g (fst (f g)) a tr 0 [] Hi (H1 g) (Forall_nil _)) as K. cbn in K. now rewrite app_nil_r in K.
    - intros (H1 & H2). split; auto. intros g a tr t Hi. destruct (H1 g). eapply InvA_quiet; eauto.
  Qed.

  Lemma neutP_dbind {X Y} (p : @dprog G ev X) (q : X -> @dprog G ev Y) : neutP p -> (forall x, neutP (q x)) -> neutP (dbind p q).
  Proof.
    intros Hp Hq. induction p as [r|es k IH|Z f k IH|Z f k IH]; cbn [neutP dbind] in *; auto.
    - destruct Hp. split; auto. - destruct Hp. split; auto. - destruct Hp. split; auto.
  Qed.
  Lemma neutP_xbind {X Y} (p : P X) (q : X -> P Y) : neutP p -> (forall x, neutP (q x)) -> neutP (xbind p q).
  Proof. intros Hp Hq. unfold xbind. apply neutP_dbind; auto. intros [x|]; [apply Hq|exact I]. Qed.
  Lemma neutP_st_slot s v : neutP (act (a_st_slot s v)).
  Proof. cbn. split; auto. intros g a tr t Hi. now apply InvA_st_slot. Qed.

  Lemma dsafe_neut_seq {X Y} t (p : P X) (q : X -> P Y) l (Q : option Y -> VA -> Prop) :
    neutP p -> Q None l -> (forall x, dsafeA t (q x) l Q) -> dsafeA t (xbind p q) l Q.
  Proof. intros Hp HQ Hq. apply dsafe_xbind. apply neutP_dsafe; auto. intros [x|]; auto. Qed.

  Lemma neut_link_guards b : forall n i, neutP (link_guards b i n).
  Proof.
    induction n as [|n IH]; intros i; cbn [link_guards]; [exact I|].
    apply neutP_xbind; [apply neutP_st_slot|intros _].
    apply neutP_xbind; [|intros _; apply IH]. apply quietP_neutP, quietP_loc. intros g. cbn.
    apply quietG_upd_gb. intros []; auto.
  Qed.

  Lemma neut_clear_slots r : forall n i, neutP (clear_slots r i n).
  Proof.
    induction n as [|n IH]; intros i; cbn [clear_slots]; [exact I|].
    apply neutP_xbind; [apply neutP_st_slot|intros _; apply IH].
  Qed.

  Lemma quietG_snext_set g s v : quietG g (snext_set g s v).
  Proof. destruct s; cbn; [apply quietG_upd_rec|apply quietG_upd_gb]; intros []; auto. Qed.
  Lemma quietG_fhead g r v : quietG g (upd_rec g r (rs_fhead v)).
  Proof. apply quietG_upd_rec. intros []; auto. Qed.

  (** ** hp_allocator::alloc *)
  Lemma spec_hp_alloc t l : va_blk l = None -> va_e l = None ->
    dsafeA t (hp_alloc c) l (fun o l' => match o with Some b => l' = with_blk l (Some b) | None => True end).
  Proof.
    intros Hb He. unfold hp_alloc.
    apply dsafe_xbind. apply quietP_dsafe; [apply q_fl_get|]. intros [o|]; [|exact I].
    apply dsafe_xbind.
    assert (Hx : dsafeA t (match o with
                           | Some b => emit [ev_alloc FHp b] ;;; ret b
                           | None => nb <- loc (new_gblock c) ;; emit [ev_new FHp nb] ;;; act (a_st_flnext FHp nb None) ;;; ret nb
                           end) l (fun ob l' => match ob with Some b => l' = with_blk l (Some b) | None => True end)).
    { destruct o as [b|].
        - (* taken from the free list *)
          unfold xbind, emit. cbn [dbind].
          apply (dsafe_emit_J c t [ev_alloc FHp b] _ l (with_blk l (Some b))); [apply nodisp_one, nd_alloc| |reflexivity].
          intros g a tr Hv. exists (upd_aux a t (with_blk l (Some b)) (fun x => if Nat.eqb x b then BPriv t else bown a x)).
          split; [apply frame_upd_aux|]. split; [unfold viewA; apply upd_aux_same|].
          intros Hfl J. cbn [Conc.tag map] in *. rewrite hist_snoc, hstep_alloc in *.
          destruct (existsb (Nat.eqb b) (freeh (hist tr) FHp)) eqn:Ex; [|cbn in Hfl; discriminate].
          apply JA_alloc; auto. now apply existsb_eqb_in.
        - (* a new block *)
          unfold xbind at 1. unfold loc. cbn [dbind].
          apply dsafe_loc_J. intros g a tr Hv.
          exists (upd_aux a t (with_blk l (Some (List.length (gbs g)))) (fun x => if Nat.eqb x (List.length (gbs g)) then BPriv t else bown a x)).
          split; [apply frame_upd_aux|]. split; [intros _ J; apply JA_newblk; auto|].
          unfold viewA. rewrite upd_aux_same. cbn [new_gblock snd].
          unfold xbind, emit, act, ret. cbn [dbind].
          apply dsafe_emit_quiet; [repeat constructor; apply qev_new|].
          apply dsafe_act_quiet; [apply q_st_flnext|]. intros _. cbn. reflexivity. }
    eapply dsafe_weaken; [|exact Hx].
    intros [b|] l1 K; [|exact I]. subst l1.
    apply dsafe_neut_seq; [apply neut_link_guards|exact I|intros _].
    apply dsafe_neut_seq; [apply quietP_neutP, quietP_loc; intros g; apply quietG_snext_set|exact I|intros _].
    apply dsafe_neut_seq; [apply neutP_st_slot|exact I|intros _]. cbn. reflexivity.
  Qed.
End ExtendA.
