(** * DhpDetB: freeing the limbo blocks one by one, clearing extended_list_, releasing thread_id_. *)
From Coq Require Import ZArith NArith List String Bool Lia PeanoNat.
From LV Require Import Base.Conc Base.Events Model.DhpLang Model.Dhp Proofs.DhpBase Proofs.DhpHist
  Proofs.DhpLangProofs Proofs.DhpInvA Proofs.DhpStepsA Proofs.DhpQuietA Proofs.DhpSlotA Proofs.DhpScanA Proofs.DhpScanC
  Proofs.DhpPresA Proofs.DhpAllocA Proofs.DhpAllocB Proofs.DhpViewA.
Import ListNotations.

Definition with_blk_limbo (l : VA) (b : option nat) (lm : option (option nat * list nat)) : VA :=
  mkVA (va_tls l) (va_unpub l) (va_hold l) (va_help l) (va_node l) b (va_e l) lm (va_scan l).
Definition with_hold_limbo (l : VA) (hd : option nat) (lm : option (option nat * list nat)) : VA :=
  mkVA (va_tls l) (va_unpub l) hd (va_help l) (va_node l) (va_blk l) (va_e l) lm (va_scan l).

Section DetB.
  Variable c : cfg.

  (** first block of the limbo chain taken out (its next_block_ read) *)
  Lemma JA_limbo_pop g a h t l b lb0 :
    JA c g a h -> views a t = l -> va_limbo l = Some (Some b, lb0) -> va_blk l = None ->
    JA c g (upd_aux a t (with_blk_limbo l (Some b) (Some (gb_nextb (ggb g b), tl lb0))) (bown a)) h.
  Proof.
    intros J Hv Hlm Hb. pose proof J as [J1 J2 J3 J4 J5 J6 J7 J8 J9 J10 J11 J12 J15 J16 J17 J18 J13 J14].
    set (a' := upd_aux a t (with_blk_limbo l (Some b) (Some (gb_nextb (ggb g b), tl lb0))) (bown a)).
    rewrite <- Hv in Hlm, Hb. destruct (J10 t _ _ Hlm) as (Gc & Nd & Bp).
    destruct lb0 as [|b' lb]; [cbn in Gc; discriminate|]. cbn in Gc. destruct Gc as (E & Blt & Bsl & Gc). inversion E; subst b'.
    inversion Nd as [|? ? Nb Nd']; subst. cbn [tl] in *.
    assert (V : forall t', t' <> t -> views a' t' = views a t') by (intros t' N; unfold a'; now apply upd_aux_other).
    assert (Vs : views a' t = with_blk_limbo (views a t) (Some b) (Some (gb_nextb (ggb g b), lb))) by (unfold a'; rewrite upd_aux_same; reflexivity).
    assert (B : bown a' = bown a) by reflexivity.
    assert (F : forall t', va_tls (views a' t') = va_tls (views a t') /\ va_unpub (views a' t') = va_unpub (views a t') /\
                           va_hold (views a' t') = va_hold (views a t') /\ va_help (views a' t') = va_help (views a t') /\
                           va_node (views a' t') = va_node (views a t') /\ va_e (views a' t') = va_e (views a t') /\
                           va_scan (views a' t') = va_scan (views a t')).
    { intros t'. destruct (Nat.eq_dec t' t) as [->|N]; [rewrite Vs; cbn; repeat split; reflexivity|rewrite (V t' N); repeat split; reflexivity]. }
    constructor; rewrite ?B; auto.
    - intros r t' k Ha. destruct (F t') as (E1&_). rewrite E1. auto.
    - intros t' r Ht. destruct (F t') as (E1&_). rewrite E1 in Ht. auto.
    - intros t' r bt Ht. destruct (F t') as (_&E2&_). rewrite E2 in Ht. destruct (J5 t' r bt Ht) as (X1&X2&X3&X4&X5&X6). repeat split; auto.
      intros t'' bt' Ht''. destruct (F t'') as (_&E2'&_). rewrite E2' in Ht''. eauto.
    - intros t' r Ht. destruct (F t') as (_&_&E3&_). rewrite E3 in Ht. destruct (J6 t' r Ht) as (X1&X2&X3&X4&X5&X6). repeat split; auto.
      destruct (Nat.eq_dec t' t) as [->|N]; [rewrite Vs; cbn; discriminate|now rewrite (V t' N)].
    - intros t' r Ht. destruct (F t') as (_&_&E3&E4&_). rewrite E4 in Ht. rewrite E3. auto.
    - intros r Hr Ha. destruct (J8 r Hr Ha) as [X|(t' & X1 & X2)]; [now left|right]. exists t'. destruct (F t') as (_&_&E3&_). rewrite E3. split; auto.
      destruct (Nat.eq_dec t' t) as [->|N]; [rewrite Vs; cbn; discriminate|now rewrite (V t' N)].
    - intros t' b' Ht. destruct (Nat.eq_dec t' t) as [->|N].
      + rewrite Vs in Ht |- *. cbn in Ht |- *. inversion Ht; subst b'. split; [apply Bp; now left|]. split; auto. split; auto.
        intros o lb' E1. inversion E1; subst. exact Nb.
      + rewrite (V t' N) in Ht |- *. auto.
    - intros t' o lb' Ht. destruct (Nat.eq_dec t' t) as [->|N].
      + rewrite Vs in Ht. cbn in Ht. inversion Ht; subst. split; auto. split; auto. intros x Hx. apply Bp. now right.
      + rewrite (V t' N) in Ht. auto.
    - intros t' e f Ht. destruct (F t') as (E1&_&_&_&_&E6&_). rewrite E6 in Ht. rewrite E1. destruct (J17 t' e f Ht) as (r & X1 & X2 & X3).
      exists r. split; auto. split; auto. intros Hf. destruct (X3 Hf) as (b' & Y1 & Y2). exists b'. split; auto.
      destruct (Nat.eq_dec t' t) as [->|N]; [congruence|now rewrite (V t' N)].
    - intros t' n Ht. destruct (F t') as (_&_&_&_&E5&_). rewrite E5 in Ht. eauto.
    - intros t'. destruct (F t') as (_&_&_&_&_&_&E7). rewrite E7. apply J14.
  Qed.

  (** "_free FHp b": the private block b goes back to the allocator *)
  Lemma JA_free g a h t l b :
    JA c g a h -> views a t = l -> va_blk l = Some b -> va_e l = None ->
    JA c g (upd_aux a t (with_blk l None) (fun x => if Nat.eqb x b then BFree else bown a x))
         (mkH (S (hlen h)) (slotv h) (lastw h) (att h) (linked h) (scan h) (fupd fl_eqb (freeh h) FHp (b :: freeh h FHp)) (flbad h)).
  Proof.
    intros J Hv Hb He. pose proof J as [J1 J2 J3 J4 J5 J6 J7 J8 J9 J10 J11 J12 J15 J16 J17 J18 J13 J14].
    set (a' := upd_aux a t (with_blk l None) (fun x => if Nat.eqb x b then BFree else bown a x)).
    rewrite <- Hv in Hb, He. destruct (J9 t b Hb) as (Bp & Blt & Bsl & Blim).
    assert (Bo : forall x, x <> b -> bown a' x = bown a x) by (intros x N; cbn; destruct (Nat.eqb_spec x b); congruence).
    assert (Bs : bown a' b = BFree) by (cbn; now rewrite Nat.eqb_refl).
    assert (V : forall t', t' <> t -> views a' t' = views a t') by (intros t' N; unfold a'; now apply upd_aux_other).
    assert (Vs : views a' t = with_blk (views a t) None) by (unfold a'; rewrite upd_aux_same, Hv; reflexivity).
    assert (F : forall t', va_tls (views a' t') = va_tls (views a t') /\ va_unpub (views a' t') = va_unpub (views a t') /\
                           va_hold (views a' t') = va_hold (views a t') /\ va_help (views a' t') = va_help (views a t') /\
                           va_node (views a' t') = va_node (views a t') /\ va_e (views a' t') = va_e (views a t') /\
                           va_limbo (views a' t') = va_limbo (views a t') /\ va_scan (views a' t') = va_scan (views a t')).
    { intros t'. destruct (Nat.eq_dec t' t) as [->|N]; [rewrite Vs; cbn; repeat split; reflexivity|rewrite (V t' N); repeat split; reflexivity]. }
    constructor; cbn [hlen slotv lastw att linked scan freeh flbad]; auto.
    - intros r t' k Ha. destruct (J2 r t' k Ha) as (X1&X2&X3&X4&X5&X6&X7&X8&X9). destruct (F t') as (E&_). rewrite E.
      split; auto. split; auto. split; auto. split; auto. split; auto. split; [lia|]. split; auto. split; auto.
      intros b' kb K. destruct (X9 b' kb K) as (W1&W2&W3). split; [|lia]. rewrite Bo; auto. intros ->. congruence.
    - intros t' r Ht. destruct (F t') as (E&_). rewrite E in Ht. auto.
    - intros t' r bt Ht. destruct (F t') as (_&E&_). rewrite E in Ht. destruct (J5 t' r bt Ht) as (X1&X2&X3&X4&X5&X6). repeat split; auto.
      intros t'' bt' Ht''. destruct (F t'') as (_&E'&_). rewrite E' in Ht''. eauto.
    - intros t' r Ht. destruct (F t') as (_&_&E&_&_&_&E7&_). rewrite E in Ht. rewrite E7. auto.
    - intros t' r Ht. destruct (F t') as (_&_&E3&E4&_). rewrite E4 in Ht. rewrite E3. auto.
    - intros r Hr Ha. destruct (J8 r Hr Ha) as [X|(t' & X1 & X2)]; [now left|right]. exists t'.
      destruct (F t') as (_&_&E3&_&_&_&E7&_). rewrite E3, E7. auto.
    - intros t' b' Ht. destruct (Nat.eq_dec t' t) as [->|N].
      + rewrite Vs in Ht. cbn in Ht. discriminate.
      + destruct (F t') as (_&_&_&_&_&_&E7&_). rewrite E7. rewrite (V t' N) in Ht. destruct (J9 t' b' Ht) as (X1&X2&X3&X4).
        split; auto. rewrite Bo; auto. intros ->. rewrite X1 in Bp. inversion Bp. congruence.
    - intros t' o lb Ht. destruct (F t') as (_&_&_&_&_&_&E7&_). rewrite E7 in Ht. destruct (J10 t' o lb Ht) as (X1&X2&X3).
      repeat split; auto. intros b' Hb'. rewrite Bo; auto. intros ->.
      destruct (Nat.eq_dec t' t) as [->|N]; [eapply Blim; eauto|rewrite (X3 b Hb') in Bp; inversion Bp; congruence].
    - destruct J11 as (F1 & F2). unfold fupd. cbn [fl_eqb]. split.
      + intros b'. cbn [In]. destruct (Nat.eq_dec b' b) as [->|N]; [rewrite Bs; tauto|]. rewrite Bo by exact N. rewrite <- F1. split; [intros [E|K]; [congruence|auto]|auto].
      + constructor; auto. intros K. apply F1 in K. congruence.
    - intros b' Hb'. rewrite Bo; [auto|lia].
    - intros t' e f Ht. destruct (Nat.eq_dec t' t) as [->|N].
      + rewrite Vs in Ht. cbn in Ht. congruence.
      + rewrite (V t' N) in Ht |- *. auto.
    - intros t' n Ht. destruct (F t') as (_&_&_&_&E5&_). rewrite E5 in Ht. eauto.
    - intros t'. destruct (F t') as (_&_&_&_&_&_&_&E8). rewrite E8. specialize (J14 t').
      destruct (va_scan (views a t')) as [ss|]; auto. destruct J14 as (X1 & X2). split; auto.
      apply scan_ok_hfree; auto.
  Qed.
End DetB.
