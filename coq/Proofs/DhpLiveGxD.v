(** * DhpLiveGxD: C02, second sentence for DHP.  Part X-D: an executable check of the allocator discipline [cell_disc]
      (DhpLiveGcA) for a concrete trace, with its soundness proof: [cell_disc_check].  Used for the non-vacuity examples
      (a run in which Guards live in extension blocks satisfies [cell_disc]); it is also the monitor with which the
      discipline can be validated on traces of the extracted model. *)
From Coq Require Import ZArith NArith List String Bool Lia PeanoNat.
From LV Require Import Base.Conc Base.Events Model.DhpLang Model.Dhp Proofs.DhpBase Proofs.DhpHist
  Proofs.DhpLiveA Proofs.DhpLiveB Proofs.DhpLiveGcA Proofs.DhpLiveGcB.
Import ListNotations.
Local Open Scope string_scope.
Local Open Scope list_scope.

Definition blk_in (b : nat) (l : list (nat * nat)) : bool := existsb (fun bk => Nat.eqb (fst bk) b) l.

Definition ownc_b (c : cfg) (nr : nat) (h : H) (u : nat) (s : gref) : bool :=
  match s with
  | GI r i => match att h r with Some (u', _) => Nat.eqb u' u | None => false end && Nat.ltb i (eff_H c)
  | GE b i => existsb (fun r => match att h r with Some (u', _) => Nat.eqb u' u && blk_in b (linked h r) | None => false end) (seq 0 nr)
              && Nat.ltb i (c_GB c)
  end.

Definition held_b (nt : nat) (st : GS) (s : gref) : bool :=
  existsb (fun u' => existsb (fun js => gref_eqb (snd js) s) (gmp st u')) (seq 0 nt).

Definition linked_b (nr : nat) (h : H) (b : nat) : bool :=
  existsb (fun r => match att h r with Some _ => blk_in b (linked h r) | None => false end) (seq 0 nr).

Definition phid_b (c : cfg) (nt nr : nat) (st : GS) (h : H) (u : nat) (e : ev) : bool :=
  match gcls e with
  | GOwn s => ownc_b c nr h u s && negb (held_b nt st s)
  | GSlot (GE b i) x => match gpv st u with
                        | Some b' => negb (Nat.eqb b b') || negb (linked_b nr h b)
                        | None => true
                        end
  | _ => true
  end.

Fixpoint chk (c : cfg) (nt nr : nat) (tr : list (nat * ev)) (st : GS) (h : H) : bool :=
  match tr with
  | [] => true
  | te :: tr' => phid_b c nt nr st h (fst te) (snd te) && chk c nt nr tr' (gstep st te) (hstep h te)
  end.

(** every event is of a thread < nt, every "_att" names a record < nr *)
Definition bnd (nt nr : nat) (tr : list (nat * ev)) : bool :=
  forallb (fun te => Nat.ltb (fst te) nt && match classify (snd te) with HAtt r => Nat.ltb r nr | _ => true end) tr.

Lemma blk_in_sound b l : blk_in b l = true -> exists kb, In (b, kb) l.
Proof.
  unfold blk_in. rewrite existsb_exists. intros ([b' kb] & Hin & E). cbn in E. apply Nat.eqb_eq in E. subst b'. eauto.
Qed.
Lemma blk_in_complete b kb l : In (b, kb) l -> blk_in b l = true.
Proof. intros Hin. unfold blk_in. rewrite existsb_exists. exists (b, kb). split; [exact Hin|apply Nat.eqb_refl]. Qed.

Lemma ownc_b_sound c nr h u s : ownc_b c nr h u s = true -> ownc c h u s.
Proof.
  destruct s as [r i|b i]; cbn; intros Hb; apply andb_true_iff in Hb; destruct Hb as (H1 & H2); apply Nat.ltb_lt in H2.
  - destruct (att h r) as [[u' k]|]; [|discriminate]. apply Nat.eqb_eq in H1. subst u'. split; [eauto|exact H2].
  - rewrite existsb_exists in H1. destruct H1 as (r & _ & H1). destruct (att h r) as [[u' k]|] eqn:Ea; [|discriminate].
    apply andb_true_iff in H1. destruct H1 as (E & Hl). apply Nat.eqb_eq in E. subst u'.
    destruct (blk_in_sound _ _ Hl) as (kb & Hin). split; [exists r, k, kb; auto|exact H2].
Qed.

Lemma gfind_In m j s : gfind m j = Some s -> In (j, s) m.
Proof.
  induction m as [|[i x] m IH]; cbn; [discriminate|]. destruct (Nat.eqb_spec i j) as [->|N].
  - intros E. inversion E. now left.
  - intros E. right. auto.
Qed.
Lemma gref_eqb_refl s : gref_eqb s s = true.
Proof. destruct s; cbn; now rewrite !Nat.eqb_refl. Qed.

Lemma held_b_sound nt st s : held_b nt st s = false -> (forall u, nt <= u -> gmp st u = []) ->
  forall u' j', gfind (gmp st u') j' <> Some s.
Proof.
  intros Hb Hbd u' j' Hf. destruct (Nat.lt_ge_cases u' nt) as [L|L]; [|rewrite (Hbd u' L) in Hf; discriminate].
  assert (held_b nt st s = true); [|congruence]. unfold held_b. rewrite existsb_exists. exists u'. split; [apply in_seq; lia|].
  rewrite existsb_exists. exists (j', s). split; [now apply gfind_In|apply gref_eqb_refl].
Qed.

Lemma linked_b_sound nr h b : linked_b nr h b = false -> (forall r, nr <= r -> att h r = None) ->
  forall r t' k kb, att h r = Some (t', k) -> ~ In (b, kb) (linked h r).
Proof.
  intros Hb Hbd r t' k kb Ha Hin. destruct (Nat.lt_ge_cases r nr) as [L|L]; [|rewrite (Hbd r L) in Ha; discriminate].
  assert (linked_b nr h b = true); [|congruence]. unfold linked_b. rewrite existsb_exists. exists r. split; [apply in_seq; lia|].
  rewrite Ha. eapply blk_in_complete; eauto.
Qed.

Lemma phid_b_sound c nt nr st h u e : phid_b c nt nr st h u e = true ->
  (forall u', nt <= u' -> gmp st u' = []) -> (forall r, nr <= r -> att h r = None) -> PhiD c st h u e.
Proof.
  intros Hb B1 B2. unfold phid_b in Hb. split.
  - intros s Eg. rewrite Eg in Hb. apply andb_true_iff in Hb. destruct Hb as (H1 & H2). split; [eapply ownc_b_sound; eauto|].
    apply (held_b_sound nt); [|exact B1]. now destruct (held_b nt st s).
  - intros b i x Eg Hp. rewrite Eg, Hp, Nat.eqb_refl in Hb. cbn in Hb. apply (linked_b_sound nr); [|exact B2].
    now destruct (linked_b nr h b).
Qed.

Lemma gmp_bound nt nr tr : bnd nt nr tr = true -> forall u, nt <= u -> gmp (gfold tr) u = [].
Proof.
  induction tr as [|[u0 e] tr IH] using rev_ind; intros Hb u Hu; [reflexivity|].
  unfold bnd in Hb. rewrite forallb_app in Hb. apply andb_true_iff in Hb. destruct Hb as (Hb1 & Hb2). cbn in Hb2.
  rewrite andb_true_r in Hb2. apply andb_true_iff in Hb2. destruct Hb2 as (L & _). apply Nat.ltb_lt in L.
  rewrite gfold_snoc. assert (N : u <> u0) by lia.
  rewrite (f_equal w_mp (viewG_gstep_other (gfold tr) u0 e u N) : gmp _ u = gmp (gfold tr) u). now apply IH.
Qed.

Lemma att_bound nt nr tr : bnd nt nr tr = true -> forall r, nr <= r -> att (hist tr) r = None.
Proof.
  induction tr as [|[u0 e] tr IH] using rev_ind; intros Hb r Hr; [reflexivity|].
  unfold bnd in Hb. rewrite forallb_app in Hb. apply andb_true_iff in Hb. destruct Hb as (Hb1 & Hb2). cbn in Hb2.
  rewrite andb_true_r in Hb2. apply andb_true_iff in Hb2. destruct Hb2 as (_ & L).
  rewrite hist_snoc, att_hstep. cbn [fst snd]. specialize (IH Hb1 r Hr).
  destruct (classify e) as [| r' | r' | | | | | | | |]; try exact IH.
  - apply Nat.ltb_lt in L. destruct (Nat.eqb_spec r r'); [lia|exact IH].
  - destruct (Nat.eqb r r'); [reflexivity|exact IH].
Qed.

Lemma bnd_prefix nt nr tr m : bnd nt nr tr = true -> bnd nt nr (firstn m tr) = true.
Proof.
  intros Hb. rewrite <- (firstn_skipn m tr) in Hb. unfold bnd in *. rewrite forallb_app in Hb. apply andb_true_iff in Hb. apply Hb.
Qed.

Lemma chk_sound c nt nr : forall tr2 tr1, chk c nt nr tr2 (gfold tr1) (hist tr1) = true ->
  forall m u e, nth_error tr2 m = Some (u, e) ->
    phid_b c nt nr (gfold (tr1 ++ firstn m tr2)) (hist (tr1 ++ firstn m tr2)) u e = true.
Proof.
  induction tr2 as [|te tr2 IH]; intros tr1 Hc m u e Hn; [destruct m; discriminate|].
  cbn [chk] in Hc. apply andb_true_iff in Hc. destruct Hc as (H1 & H2). destruct m as [|m]; cbn in Hn.
  - inversion Hn; subst te. cbn [firstn]. rewrite app_nil_r. exact H1.
  - cbn [firstn]. replace (tr1 ++ te :: firstn m tr2) with ((tr1 ++ [te]) ++ firstn m tr2) by (now rewrite <- app_assoc).
    apply IH; [|exact Hn]. now rewrite gfold_snoc, hist_snoc.
Qed.

(** the check is sound *)
Theorem cell_disc_check c nt nr tr : bnd nt nr tr = true -> chk c nt nr tr gs0 h0 = true -> cell_disc c tr.
Proof.
  intros Hb Hc m u e Hn. apply (phid_b_sound c nt nr).
  - exact (chk_sound c nt nr tr [] Hc m u e Hn).
  - apply (gmp_bound nt nr). now apply bnd_prefix.
  - apply (att_bound nt nr). now apply bnd_prefix.
Qed.

(** ** helpers for the non-vacuity examples: the positions of a trace at which a decidable property holds *)
Fixpoint idxs {A} (b : A -> bool) (l : list A) (i : nat) : list nat :=
  match l with
  | [] => []
  | x :: r => if b x then i :: idxs b r (Datatypes.S i) else idxs b r (Datatypes.S i)
  end.
Lemma idxs_sound {A} (b : A -> bool) : forall l i o x, nth_error l o = Some x -> b x = true -> In (i + o) (idxs b l i).
Proof.
  induction l as [|y l IH]; intros i o x Hn Hb; [destruct o; discriminate|]. destruct o as [|o]; cbn in *.
  - inversion Hn; subst. rewrite Hb, Nat.add_0_r. now left.
  - replace (i + Datatypes.S o) with (Datatypes.S i + o) by lia. destruct (b y); [right|]; eapply IH; eauto.
Qed.
Lemma idxs_single {A} (b : A -> bool) l i0 : idxs b l 0 = [i0] -> forall o x, nth_error l o = Some x -> b x = true -> o = i0.
Proof. intros E o x Hn Hb. pose proof (idxs_sound b l 0 o x Hn Hb) as Hin. rewrite E in Hin. cbn in Hin. destruct Hin as [<-|[]]. reflexivity. Qed.
