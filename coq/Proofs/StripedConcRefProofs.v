(** * StripedSet with the refinable policy: program specifications and theorems for every schedule. *)
From Coq Require Import ZArith List Bool Lia PeanoNat String.
From LV Require Import Base.Conc Base.Events Base.Lin Spec.Specs Proofs.LinProofs
     Model.StripingPolicy Model.StripedConc Proofs.StripedConcSpec Proofs.StripedConcAbs Proofs.StripedConcRefInv.
Import ListNotations.
Local Open Scope nat_scope.

Section Refinable.
  Variable cf : conf.
  Hypothesis Hpol : c_pol cf = Refinable.
  Hypothesis Hnl : 0 < c_nl cf.
  Notation nl := (c_nl cf).
  Notation hm := (c_hm cf).
  Notation Inv := (StripedConcRefInv.Inv hm).
  Notation safe := (@Conc.safe G V ev Aux tview view Inv).

  Definition optQ {A} (P : A -> tview -> Prop) : option A -> tview -> Prop :=
    fun r v => match r with Some x => P x v | None => True end.

  Lemma safe_bindo {A B} t (p : prog (option A)) (q : A -> prog (option B)) (Q : B -> tview -> Prop) l :
    safe t p l (optQ (fun x l' => safe t (q x) l' (optQ Q))) -> safe t (bindo p q) l (optQ Q).
  Proof.
    intros H. unfold bindo. apply Conc.safe_bind. eapply Conc.safe_weaken; [|exact H].
    intros [x|] l' Hx; cbn in *; auto.
  Qed.
  Lemma safe_thenu {B} t (p : prog unit) (q : prog B) (Q : B -> tview -> Prop) l :
    safe t p l (fun _ l' => safe t q l' Q) -> safe t (thenu p q) l Q.
  Proof. intros H. unfold thenu. apply Conc.safe_bind. exact H. Qed.
  Lemma safe_ret {R} t (r : R) (Q : R -> tview -> Prop) l : Q r l -> safe t (Ret r) l Q.
  Proof. intros H. exact H. Qed.
  Lemma safe_oret {R} t (r : R) (Q : R -> tview -> Prop) l : Q r l -> safe t (oret r) l (optQ Q).
  Proof. intros H. exact H. Qed.

  (** a step that changes nothing the invariant reads *)
  Lemma safe_silent {R} t (f : action) (k : V -> prog R) (Q : R -> tview -> Prop) v :
    (forall g, same_core g (fst (fst (f g))) /\ exists k o ok, snd (f g) = [EvAcc k o ok]) ->
    (forall g a tr, Inv g a tr -> a_view a t = v -> safe t (k (snd (fst (f g)))) v Q) ->
    safe t (Act f k) v Q.
  Proof.
    intros Hf Hk. cbn [Conc.safe]. intros g a tr Hi Hv. unfold view in Hv.
    destruct (Hf g) as (Hc & k0 & o & ok & He). exists a. rewrite He.
    split; [eapply Inv_silent; [exact Hi|exact Hc|apply hist_of_acc]|]. split; [apply frame_refl|].
    unfold view. rewrite Hv. eapply Hk; eauto.
  Qed.

  Ltac silent := intros ?g; split; [repeat split; auto|do 3 eexists; reflexivity].

  (** *** the reentrant lock *)
  Definition knows (g0 : nat) (v : tview) : Prop :=
    (exists sz, v_arr v = Some (g0, sz)) \/ (exists sz j, v_os v = OScan g0 sz j).

  Lemma knows_lt g a tr t g0 : Inv g a tr -> knows g0 (a_view a t) -> g0 < ngen g.
  Proof.
    intros Hi [(sz & H)|(sz & j & H)].
    - apply (i_arr Hi t g0 sz H).
    - destruct (i_scan Hi t g0 sz j H) as (-> & _). apply (i_gen Hi).
  Qed.

  Lemma safe_r_acq t g0 i (Q : tview -> Prop) : forall fuel v,
    v_rs v = RNone -> knows g0 v -> Q (with_rs v (RTaken g0 i)) ->
    safe t (r_acq_outer fuel g0 i) v (optQ (fun _ => Q)) /\ safe t (r_acq_inner fuel g0 i) v (optQ (fun _ => Q)).
  Proof.
    intros fuel v Hrs Hk HQ. induction fuel as [|f IH]; split; cbn [r_acq_outer r_acq_inner]; try exact I.
    - cbn [Conc.safe]. intros g a tr Hi Hv. unfold view in Hv. unfold a_rspin_cas.
      destruct (Nat.eqb_spec (rspin g g0 i) 0) as [E|E]; cbn [fst snd].
      + exists (setv a t (with_rs (a_view a t) (RTaken g0 i))). split; [|split; [apply frame_setv|]].
        * apply Inv_take; auto. { unfold rs. now rewrite Hv. } eapply knows_lt; eauto. now rewrite Hv.
        * unfold view. rewrite setv_same, Hv. cbn [vn vnat Nat.eqb]. apply safe_oret. exact HQ.
      + exists a. split; [eapply Inv_silent; [exact Hi|apply same_core_refl|apply hist_of_acc]|]. split; [apply frame_refl|].
        unfold view. rewrite Hv. cbn [vn vnat Nat.eqb]. apply IH.
    - apply safe_silent; [silent|]. intros g a tr _ _. cbn [a_rspin_ld fst snd vn vnat].
      destruct (Nat.eqb (rspin g g0 i) 0); apply IH.
  Qed.

  (** whoever reads the owner id of a lock it does not hold does not read its own id *)
  Lemma rown_not_me g a tr t g0 i : Inv g a tr -> rs a t = RNone -> rown g g0 i <> S t.
  Proof.
    intros Hi Hrs E. destruct (i_rown Hi g0 i) as [H|(t0 & H1 & H2)]; [lia|].
    assert (t0 = t) by lia. subst t0. rewrite Hrs in H2. destruct H2; discriminate.
  Qed.

  Lemma safe_r_lock t g0 i (Q : tview -> Prop) fuel v :
    v_rs v = RNone -> knows g0 v -> Q (with_rs v (RHeld g0 i)) ->
    safe t (r_lock fuel (S t) g0 i) v (optQ (fun _ => Q)).
  Proof.
    intros Hrs Hk HQ. unfold r_lock. cbn [Conc.safe]. intros g a tr Hi Hv. unfold view in Hv.
    cbn [a_rown_ld fst snd]. exists a.
    split; [eapply Inv_silent; [exact Hi|apply same_core_refl|apply hist_of_acc]|]. split; [apply frame_refl|].
    unfold view. rewrite Hv. cbn [vn vnat].
    destruct (Nat.eqb_spec (rown g g0 i) (S t)) as [E|_].
    { exfalso. eapply rown_not_me; eauto. unfold rs. now rewrite Hv. }
    apply safe_bindo.
    refine (proj1 (safe_r_acq t g0 i _ fuel v Hrs Hk _)).
    (* store of the owner id *)
    cbn [Conc.safe]. clear g a tr Hi Hv. intros g a tr Hi Hv. unfold view in Hv. cbn [a_rown_st fst snd].
    exists (setv a t (with_rs (a_view a t) (RHeld g0 i))). split; [|split; [apply frame_setv|]].
    - apply Inv_own; auto. unfold rs. now rewrite Hv.
    - unfold view. rewrite setv_same, Hv. apply safe_oret. exact HQ.
  Qed.

  Lemma safe_r_try_lock t g0 i (Q : bool -> tview -> Prop) v :
    v_rs v = RNone -> knows g0 v -> Q true (with_rs v (RHeld g0 i)) -> Q false v ->
    safe t (r_try_lock (S t) g0 i) v Q.
  Proof.
    intros Hrs Hk HQ1 HQ2. unfold r_try_lock. cbn [Conc.safe]. intros g a tr Hi Hv. unfold view in Hv.
    cbn [a_rown_ld fst snd]. exists a.
    split; [eapply Inv_silent; [exact Hi|apply same_core_refl|apply hist_of_acc]|]. split; [apply frame_refl|].
    unfold view. rewrite Hv. cbn [vn vnat].
    destruct (Nat.eqb_spec (rown g g0 i) (S t)) as [E|_].
    { exfalso. eapply rown_not_me; eauto. unfold rs. now rewrite Hv. }
    cbn [Conc.safe]. clear g a tr Hi Hv. intros g a tr Hi Hv. unfold view in Hv. unfold a_rspin_cas.
    destruct (Nat.eqb_spec (rspin g g0 i) 0) as [E|E]; cbn [fst snd].
    - exists (setv a t (with_rs (a_view a t) (RTaken g0 i))). split; [|split; [apply frame_setv|]].
      + apply Inv_take; auto. { unfold rs. now rewrite Hv. } eapply knows_lt; eauto. now rewrite Hv.
      + unfold view. rewrite setv_same, Hv. cbn [vn vnat Nat.eqb Conc.safe].
        clear g a tr Hi Hv E. intros g a tr Hi Hv. unfold view in Hv. cbn [a_rown_st fst snd].
        exists (setv a t (with_rs (a_view a t) (RHeld g0 i))). split; [|split; [apply frame_setv|]].
        * apply Inv_own; auto. unfold rs. now rewrite Hv.
        * unfold view. rewrite setv_same, Hv. exact HQ1.
    - exists a. split; [eapply Inv_silent; [exact Hi|apply same_core_refl|apply hist_of_acc]|]. split; [apply frame_refl|].
      unfold view. rewrite Hv. cbn [vn vnat Nat.eqb]. exact HQ2.
  Qed.

  (** unlock of a lock I own; [adv]: I am the resizer scanning exactly this cell *)
  Lemma safe_r_unlock t g0 i (adv : bool) (Q : tview -> Prop) v :
    rowned (v_rs v) g0 i ->
    (adv = true -> exists sz, v_os v = OScan g0 sz i /\ i < sz) ->
    Q (mkTV (v_op v) RNone (if adv then match v_os v with OScan g1 sz j => OScan g1 sz (S j) | o => o end else v_os v) (v_arr v) (v_mask v)) ->
    safe t (r_unlock g0 i) v (fun _ => Q).
  Proof.
    intros Hrs Hadv HQ. unfold r_unlock. cbn [Conc.safe]. intros g a tr Hi Hv. unfold view in Hv.
    cbn [a_rspin_ld fst snd]. exists a.
    split; [eapply Inv_silent; [exact Hi|apply same_core_refl|apply hist_of_acc]|]. split; [apply frame_refl|].
    unfold view. rewrite Hv. cbn [vn vnat].
    assert (Hs : rspin g g0 i = 1).
    { apply (proj2 (i_spin Hi g0 i)). exists t. unfold rs. rewrite Hv. destruct Hrs as [H|H]; rewrite H; unfold rholds; auto. }
    rewrite Hs. cbn [Nat.ltb Nat.leb Conc.safe]. clear g a tr Hi Hv Hs.
    intros g a tr Hi Hv. unfold view in Hv. cbn [a_rown_st fst snd].
    exists (setv a t (with_rs (a_view a t) (RRel g0 i))). split; [|split; [apply frame_setv|]].
    - apply Inv_disown; auto. unfold rs. now rewrite Hv.
    - unfold view. rewrite setv_same, Hv. cbn [Conc.safe]. clear g a tr Hi Hv.
      intros g a tr Hi Hv. unfold view in Hv. cbn [a_rspin_st fst snd].
      eexists. split; [apply (Inv_release hm g a tr t g0 i adv Hi)|split; [apply frame_setv|]].
      + unfold rs. now rewrite Hv.
      + intros E. unfold os. rewrite Hv. cbn. auto.
      + unfold view. rewrite setv_same, Hv. cbn [v_op v_os v_arr v_mask with_rs]. exact HQ.
  Qed.


  (** *** acquire() *)
  Lemma free_or_mine_spec g a tr t : Inv g a tr -> os a t = ONone -> free_or_mine (owner g) (S t) = true -> owner g = 0.
  Proof.
    intros Hi Hos H. destruct (i_word Hi) as [E|(R & E & HR)]; auto. exfalso.
    unfold free_or_mine in H. rewrite E in H. apply orb_true_iff in H. destruct H as [H|H].
    - replace (2 * S R + 1) with (S (2 * S R)) in H by lia. rewrite Nat.even_succ in H.
      rewrite <- Nat.negb_even in H. rewrite Nat.even_mul in H. cbn in H. discriminate.
    - apply Nat.eqb_eq in H. replace (2 * S R + 1) with (S (2 * S R)) in H by lia.
      rewrite Nat.div2_succ_double in H. assert (R = t) by lia. subst R. contradiction.
  Qed.

  Lemma safe_wait_owner t (Q : tview -> Prop) v : Q v -> forall fuel, safe t (wait_owner fuel (S t)) v (optQ (fun _ => Q)).
  Proof.
    intros HQ fuel. induction fuel as [|f IH]; cbn [wait_owner]; [exact I|].
    apply safe_silent; [silent|]. intros g a tr _ _. cbn [a_owner_ld fst snd vn].
    destruct (free_or_mine (owner g) (S t)); [apply safe_oret; exact HQ|apply IH].
  Qed.

  (** m_access: taking it (without swap) copies the current lock array *)
  Lemma safe_access_lock t (Q : nat * nat -> tview -> Prop) : forall fuel v,
    (forall g0 sz, 0 < sz -> Q (g0, sz) (mkTV (v_op v) (v_rs v) (v_os v) (Some (g0, sz)) (v_mask v))) ->
    safe t (sl_lock_outer fuel SAccess None) v (optQ Q) /\ safe t (sl_lock_inner fuel SAccess None) v (optQ Q).
  Proof.
    intros fuel v HQ. induction fuel as [|f IH]; split; cbn [sl_lock_outer sl_lock_inner]; try exact I.
    - cbn [Conc.safe]. intros g a tr Hi Hv. unfold view in Hv. cbn [a_sl_xchg sl_get sl_set fst snd].
      destruct (access g) eqn:E.
      + exists a. split; [eapply Inv_silent; [exact Hi|repeat split; auto|apply hist_of_acc]|]. split; [apply frame_refl|].
        unfold view. rewrite Hv. cbn [b2n vn Nat.eqb]. apply IH.
      + set (v' := mkTV (v_op v) (v_rs v) (v_os v) (Some (cur g, gsize g (cur g))) (v_mask v)).
        exists (setv a t v'). split; [|split; [apply frame_setv|]].
        * eapply Inv_view; [exact Hi|repeat split; auto|..]; try (unfold rs, os; rewrite Hv; reflexivity); try (now rewrite Hv).
          -- intros g0 sz H. cbn in H. inversion H; subst. split; auto. apply (i_gen Hi).
          -- apply hist_of_acc.
        * unfold view. rewrite setv_same. cbn [b2n vn vm vs Nat.eqb]. apply safe_ret. cbn [optQ]. apply HQ.
          apply (i_gen Hi). apply (i_gen Hi).
    - apply safe_silent; [silent|]. intros g a tr _ _. cbn [a_sl_ld fst snd vn vnat].
      destruct (Nat.eqb (b2n (sl_get g SAccess)) 0); apply IH.
  Qed.

  Lemma safe_access_unlock {R} t (p : prog R) (Q : R -> tview -> Prop) v :
    safe t p v Q -> safe t (thenu (sl_unlock SAccess) p) v Q.
  Proof.
    intros H. apply safe_thenu. unfold sl_unlock. apply safe_silent; [silent|]. intros g a tr _ _. exact H.
  Qed.

  Lemma safe_rf_acquire t h (Q : cell -> tview -> Prop) : forall fuel v,
    v_rs v = RNone -> v_os v = ONone ->
    (forall g0 i arr, Q (CRe g0 i) (mkTV (v_op v) (RValid g0 i) ONone arr (v_mask v))) ->
    safe t (rf_acquire fuel (S t) h) v (optQ Q).
  Proof.
    induction fuel as [|f IH]; intros v Hrs Hos HQ; cbn [rf_acquire]; [exact I|].
    apply safe_bindo. apply safe_wait_owner. apply safe_bindo. unfold sl_lock.
    refine (proj1 (safe_access_lock t _ (S f) v _)). intros g0 sz Hsz. cbn [fst snd].
    set (v1 := mkTV (v_op v) (v_rs v) (v_os v) (Some (g0, sz)) (v_mask v)).
    set (i := h mod sz). assert (Hi_lt : i < sz) by (apply Nat.mod_upper_bound; lia).
    apply safe_access_unlock. apply safe_bindo.
    apply safe_r_lock; [exact Hrs|left; exists sz; reflexivity|].
    (* the re-check *)
    cbn [Conc.safe]. intros g a tr Hi Hv. unfold view in Hv. cbn [a_owner_ld fst snd vn vm].
    assert (Hme : rs a t = RHeld g0 i) by (unfold rs; now rewrite Hv).
    assert (Hos1 : os a t = ONone) by (unfold os; rewrite Hv; exact Hos).
    destruct (free_or_mine (owner g) (S t) && Nat.eqb (cur g) g0) eqn:Hc.
    - apply andb_true_iff in Hc. destruct Hc as [Hc1 Hc2]. apply Nat.eqb_eq in Hc2.
      exists (setv a t (with_rs (a_view a t) (RValid g0 i))). split; [|split; [apply frame_setv|]].
      + apply Inv_validate; auto.
        * eapply free_or_mine_spec; eauto.
        * destruct (i_arr Hi t g0 sz) as [_ E]; [now rewrite Hv|]. now rewrite E.
        * apply hist_of_acc.
      + unfold view. rewrite setv_same, Hv. apply safe_oret. unfold v1, with_rs. cbn [v_op v_rs v_os v_arr v_mask]. rewrite Hos. apply HQ.
    - exists a. split; [eapply Inv_silent; [exact Hi|apply same_core_refl|apply hist_of_acc]|]. split; [apply frame_refl|].
      unfold view. rewrite Hv. apply safe_thenu.
      apply (safe_r_unlock t g0 i false); [unfold rowned; cbn; left; reflexivity|discriminate|].
      unfold v1, with_rs. cbn [v_op v_rs v_os v_arr v_mask]. apply IH; cbn; auto.
  Qed.


  (** *** the resizer *)
  Lemma safe_rf_wait_free t g0 sz i (Q : tview -> Prop) : forall fuel v,
    v_rs v = RNone -> v_os v = OScan g0 sz i -> i < sz ->
    Q (mkTV (v_op v) RNone (OScan g0 sz (S i)) (v_arr v) (v_mask v)) ->
    safe t (rf_wait_free fuel (S t) g0 i) v (optQ (fun _ => Q)).
  Proof.
    induction fuel as [|f IH]; intros v Hrs Hos Hlt HQ; cbn [rf_wait_free]; [exact I|].
    apply Conc.safe_bind. apply safe_r_try_lock; [exact Hrs|right; exists sz, i; exact Hos| |apply IH; auto].
    apply safe_thenu. apply (safe_r_unlock t g0 i true).
    - left. reflexivity.
    - intros _. exists sz. cbn. auto.
    - cbn [with_rs v_op v_os v_arr v_mask]. rewrite Hos. apply safe_oret. exact HQ.
  Qed.

  Lemma safe_rf_wait_all t g0 sz fuel (Q : tview -> Prop) : forall n i v, i + n = sz ->
    v_rs v = RNone -> v_os v = OScan g0 sz i ->
    (forall v', v_op v' = v_op v -> v_rs v' = RNone -> v_os v' = OScan g0 sz sz -> v_mask v' = v_mask v -> Q v') ->
    safe t (rf_wait_all fuel (S t) g0 n i) v (optQ (fun _ => Q)).
  Proof.
    induction n as [|n IH]; intros i v Hn Hrs Hos HQ; cbn [rf_wait_all].
    - apply safe_oret. apply HQ; auto. rewrite Hos. f_equal. lia.
    - apply safe_bindo. apply safe_rf_wait_free with (sz := sz); [exact Hrs|exact Hos|lia|].
      apply IH; [lia|reflexivity|reflexivity|]. intros v' H1 H2 H3 H4. apply HQ; auto.
  Qed.

  Lemma safe_rf_acquire_resize t fuel (Q : bool -> tview -> Prop) : forall attempts v,
    v_rs v = RNone -> v_os v = ONone -> Q false v ->
    (forall v' g0 sz, v_op v' = v_op v -> v_rs v' = RNone -> v_os v' = OScan g0 sz sz -> Q true v') ->
    safe t (rf_acquire_resize fuel (S t) attempts) v (optQ Q).
  Proof.
    induction attempts as [|n IH]; intros v Hrs Hos HQ0 HQ1; cbn [rf_acquire_resize]; [apply safe_oret; exact HQ0|].
    cbn [Conc.safe]. intros g a tr Hi Hv. unfold view in Hv. unfold a_owner_cas.
    destruct (Nat.eqb_spec (owner g) 0) as [E|E]; cbn [fst snd].
    - eexists. split; [|split; [apply frame_setv|]].
      + replace (2 * S t + 1) with (2 * S t + 1) by reflexivity.
        apply (Inv_owner_take hm g a tr t Hi E). unfold os. now rewrite Hv.
      + unfold view. rewrite setv_same, Hv. cbn [vn vm vs Nat.eqb].
        apply safe_bindo. apply safe_rf_wait_all with (sz := gsize g (cur g)); auto.
        intros v' H1 H2 H3 H4. apply safe_oret. eapply HQ1; eauto.
    - exists a. split; [eapply Inv_silent; [exact Hi|apply same_core_refl|apply hist_of_acc]|]. split; [apply frame_refl|].
      unfold view. rewrite Hv. cbn [vn vnat Nat.eqb]. apply IH; auto.
  Qed.

  Lemma safe_owner_release t (Q : tview -> Prop) v :
    v_os v <> ONone -> opend (v_os v) = [] ->
    Q (mkTV (v_op v) (v_rs v) ONone (v_arr v) (v_mask v)) ->
    safe t (Act a_owner_st0 (fun _ => Ret tt)) v (fun _ => Q).
  Proof.
    intros Hos Hp HQ. cbn [Conc.safe]. intros g a tr Hi Hv. unfold view in Hv. cbn [a_owner_st0 fst snd].
    eexists. split; [apply (Inv_owner_release hm g a tr t Hi); unfold os; rewrite Hv; auto|]. split; [apply frame_setv|].
    unfold view. rewrite setv_same, Hv. exact HQ.
  Qed.

  (** m_MutexPolicy.resize( n ) by the exclusive owner *)
  Lemma safe_policy_resize t n (Q : tview -> Prop) v g0 sz :
    0 < n -> v_os v = OScan g0 sz sz ->
    (forall v' g1 sz1, v_op v' = v_op v -> v_rs v' = v_rs v -> v_os v' = OScan g1 sz1 sz1 -> v_mask v' = v_mask v -> Q v') ->
    safe t (policy_resize Refinable (c_fuel cf) n) v (optQ (fun _ => Q)).
  Proof.
    intros Hn Hos HQ. cbn [policy_resize Conc.safe]. intros g a tr Hi Hv. unfold view in Hv. cbn [a_pcap_st_alloc fst snd].
    set (v1 := mkTV (v_op v) (v_rs v) (v_os v) (Some (ngen g, n)) (v_mask v)).
    exists (setv a t v1). split; [|split; [apply frame_setv|]].
    - eapply Inv_view; [apply (Inv_alloc_gen hm g a tr t n Hi Hn)|apply same_core_refl|..];
        try (unfold rs, os; rewrite Hv; reflexivity); try (now rewrite Hv); [|reflexivity].
      intros g1 sz1 H. cbn in H. inversion H; subst. cbn [ngen gsize set_gen set_pcap]. split; [lia|]. unfold upd1. now rewrite Nat.eqb_refl.
    - unfold view. rewrite setv_same. cbn [vm]. apply safe_bindo.
      assert (Hloop : forall fuel, safe t (sl_lock_outer fuel SAccess (Some (ngen g))) v1
                 (optQ (fun _ l' => safe t (thenu (sl_unlock SAccess) (oret tt)) l' (optQ (fun _ => Q)))) /\
               safe t (sl_lock_inner fuel SAccess (Some (ngen g))) v1
                 (optQ (fun _ l' => safe t (thenu (sl_unlock SAccess) (oret tt)) l' (optQ (fun _ => Q))))).
      { clear Hi Hv. set (ng := ngen g) in *. 
        induction fuel as [|f IH]; split; cbn [sl_lock_outer sl_lock_inner]; try exact I.
        - cbn [Conc.safe]. intros g' a' tr' Hi' Hv'. unfold view in Hv'. cbn [a_sl_xchg sl_get sl_set fst snd].
          destruct (access g') eqn:E.
          + exists a'. split; [eapply Inv_silent; [exact Hi'|repeat split; auto|apply hist_of_acc]|]. split; [apply frame_refl|].
            unfold view. rewrite Hv'. cbn [b2n vn Nat.eqb]. apply IH.
          + eexists. split; [|split; [apply frame_setv|]].
            * apply (Inv_swap hm g' a' tr' t ng g0 sz _ Hi').
              -- unfold os. rewrite Hv'. exact Hos.
              -- apply (i_arr Hi' t ng n). now rewrite Hv'.
              -- apply hist_of_acc.
            * unfold view. rewrite setv_same, Hv'. cbn [b2n vn Nat.eqb]. apply safe_ret. cbn [optQ].
              apply safe_access_unlock. apply safe_oret. eapply HQ; reflexivity.
        - apply safe_silent; [silent|]. intros g' a' tr' _ _. cbn [a_sl_ld fst snd vn vnat].
          destruct (Nat.eqb (b2n (sl_get g' SAccess)) 0); apply IH. }
      apply Hloop.
  Qed.


  (** *** steps on the table and on the annotated trace *)
  Lemma lp_ext (atr : list (aev ISet)) c e c' :
    lp_run lp_init atr = Some c -> lp_step c e = Some c' -> lp_run lp_init (atr ++ [e]) = Some c'.
  Proof. intros H1 H2. rewrite lp_run_app, H1. cbn. now rewrite H2. Qed.

  Lemma st_setv (st : nat -> status ISet) a t v' x :
    (forall t0, st t0 = v_op (a_view a t0)) -> v_op v' = x ->
    forall t0, Lin.upd st t x t0 = v_op (a_view (setv a t v') t0).
  Proof.
    intros H Hx t0. unfold Lin.upd. destruct (Nat.eqb_spec t0 t) as [->|Hn].
    - now rewrite setv_same.
    - rewrite setv_other by exact Hn. apply H.
  Qed.

  Lemma opend_setv a t v' (P : item -> Prop) :
    (forall x, P x <-> In x (opend (v_os v')) \/ exists t0, t0 <> t /\ In x (opend (os a t0))) ->
    forall x, P x <-> exists t0, In x (opend (os (setv a t v') t0)).
  Proof.
    intros H x. rewrite H. split.
    - intros [K|(t0 & Hn & K)]; [exists t; now rewrite os_same|exists t0; now rewrite os_other].
    - intros (t0 & K). destruct (Nat.eq_dec t0 t) as [->|Hn]; [left; now rewrite os_same in K|right; exists t0; now rewrite os_other in K].
  Qed.

  Definition with_op (v : tview) (o : status ISet) : tview := mkTV o (v_rs v) (v_os v) (v_arr v) (v_mask v).

  (** a client event of thread [t]: only the status of its operation and the annotated trace change *)
  Lemma Inv_cli g a tr t o name args atr' :
    Inv g a tr ->
    (forall s st, lp_run lp_init (a_atr a) = Some (s, st) -> (forall t0, st t0 = v_op (a_view a t0)) ->
        erase (a_atr a) = hist_of tr ->
        lp_run lp_init atr' = Some (s, Lin.upd st t o) /\ erase atr' = hist_of (tr ++ Conc.tag t [EvCli name args])) ->
    Inv g (seta (setv a t (with_op (a_view a t) o)) atr') (tr ++ Conc.tag t [EvCli name args]).
  Proof.
    intros Hi Hatr. eapply Inv_tstep; [exact Hi|reflexivity|reflexivity|reflexivity|intros; reflexivity|intros; reflexivity|intros; reflexivity
                                       |reflexivity|reflexivity|..]; cbn [v_os with_op].
    - fold (os a t). tauto.
    - intros g0 sz j H. apply (i_scan Hi t g0 sz j H).
    - intros t0 gg i H. destruct (i_valid Hi t0 gg i H) as (_ & _ & V4 & V5). split; [intros; eapply V4; eauto|intros p; apply V5].
    - fold (os a t). apply (i_mask Hi).
    - reflexivity.
    - apply (i_tab Hi).
    - destruct (i_abs Hi) as (s & st & H1 & H2 & H3 & H4). destruct (Hatr s st H1 H3 H2) as (K1 & K2).
      exists s, (Lin.upd st t o). split; [exact K1|]. split; [exact K2|]. split; [apply st_setv; auto|].
      eapply absrel_ext; [|exact H4]. apply opend_setv. cbn [v_os with_op]. intros x. split.
      + intros (t0 & K). destruct (Nat.eq_dec t0 t) as [->|Hn]; [left; exact K|right; eauto].
      + intros [K|(t0 & _ & K)]; eauto.
  Qed.

  Lemma hist_inv tr t c k x y o : iop_of c k t y = Some o ->
    hist_of (tr ++ Conc.tag t [EvCli "inv" (zl [c; k; x; y])]) = hist_of tr ++ [@HInv ISet t o].
  Proof. intros H. rewrite hist_of_app. f_equal. cbn. unfold z2n. rewrite !Nat2Z.id, H. reflexivity. Qed.
  Lemma hist_ret tr t c r1 r2 :
    hist_of (tr ++ Conc.tag t [EvCli "ret" (zl [c; r1; r2])]) = hist_of tr ++ [@HRes ISet t (res_of c r1 r2)].
  Proof. rewrite hist_of_app. f_equal. cbn. unfold z2n. now rewrite !Nat2Z.id. Qed.
  Lemma hist_oof tr t : hist_of (tr ++ Conc.tag t [EvCli "outoffuel" []]) = hist_of tr.
  Proof. rewrite hist_of_app. cbn. now rewrite app_nil_r. Qed.

  (** the linearization point: the bucket operation of a thread whose cell lock is validated *)
  Lemma Inv_bucket_op g a tr t bo k g0 i :
    Inv g a tr -> v_op (a_view a t) = Pending (iop_of_bop bo k t : Op ISet) -> rs a t = RValid g0 i ->
    let b := hfun hm k mod S (mask g) in
    let r := bucket_apply bo k t (get_b (buckets g) b) in
    let nb := fst (fst r) in let r1 := snd (fst r) in let r2 := snd r in
    Inv (set_buckets g (set_nth_b (buckets g) b nb))
        (seta (setv a t (with_op (a_view a t) (Linearized (iop_of_bop bo k t : Op ISet) (res_of_bop bo r1 r2 : Res ISet)))) (a_atr a ++ [ALin t]))
        (tr ++ Conc.tag t [EvAcc KLd o_mask true]).
  Proof.
    intros Hi Hop Hrs b r nb r1 r2.
    assert (Hr : bucket_apply bo k t (get_b (buckets g) b) = (nb, r1, r2)) by (subst nb r1 r2 r; now destruct (bucket_apply _ _ _ _) as [[? ?] ?]).
    destruct (i_valid Hi t g0 i Hrs) as (_ & _ & _ & V5).
    assert (Hnp : forall t0, opend (os a t0) = []).
    { intros t0. destruct (os a t0) eqn:E; cbn; auto. exfalso. eapply V5; eauto. }
    destruct (i_abs Hi) as (s & st & H1 & H2 & H3 & H4).
    assert (Ha : absrel s (buckets g) nopend).
    { eapply absrel_ext; [|exact H4]. intros x. split; [|intros []]. intros (t0 & H). rewrite Hnp in H. destruct H. }
    destruct (bucket_apply_abs hm (mask g) (buckets g) s bo k t nb r1 r2 (i_tab Hi) Ha Hr) as (R1 & R2 & R3). fold b in R2, R3.
    eapply Inv_tstep; [exact Hi|reflexivity|reflexivity|reflexivity|intros; reflexivity|intros; reflexivity|intros; reflexivity
                      |reflexivity|reflexivity|..]; cbn [v_os with_op mask buckets set_buckets].
    - fold (os a t). tauto.
    - intros g1 sz j H. apply (i_scan Hi t g1 sz j H).
    - intros t0 gg j H. destruct (i_valid Hi t0 gg j H) as (_ & _ & V4 & V5'). split; [intros; eapply V4; eauto|intros p; apply V5'].
    - fold (os a t). apply (i_mask Hi).
    - reflexivity.
    - exact R2.
    - exists (fst (istep s (iop_of_bop bo k t))), (Lin.upd st t (Linearized (iop_of_bop bo k t : Op ISet) (snd (istep s (iop_of_bop bo k t))))).
      split; [|split; [|split]].
      + eapply lp_ext; [exact H1|]. cbn [lp_step]. rewrite H3, Hop. reflexivity.
      + rewrite erase_app, hist_of_acc. cbn. now rewrite app_nil_r.
      + apply st_setv; auto. cbn. now rewrite R1.
      + eapply absrel_ext; [|exact R3]. apply opend_setv. cbn [v_os with_op]. intros x. split; [intros []|].
        fold (os a t). intros [K|(t0 & _ & K)]; rewrite Hnp in K; destruct K.
  Qed.

  (** the exclusive owner of the table (scan complete, or moving) excludes validated cell locks *)
  Lemma excl_no_valid g a tr t : Inv g a tr -> exclusive (os a t) -> forall t0 gg i, rs a t0 <> RValid gg i.
  Proof.
    intros Hi [(g0 & sz & E)|(p & E)] t0 gg i H; destruct (i_valid Hi t0 gg i H) as (V1 & V2 & V4 & V5).
    - specialize (V4 t g0 sz sz E). destruct (i_scan Hi t g0 sz sz E) as (S1 & S2 & _). subst. lia.
    - eapply V5; eauto.
  Qed.

  Lemma excl_others_none g a tr t : Inv g a tr -> os a t <> ONone -> forall t0, t0 <> t -> os a t0 = ONone.
  Proof.
    intros Hi Hne t0 Hn. destruct (os_none_dec (os a t0)) as [E|E]; auto.
    apply (i_owner Hi) in E. apply (i_owner Hi) in Hne. lia.
  Qed.

  (** generic step of the exclusive owner on the table *)
  Lemma Inv_owner_tstep g g' a tr t o' m' :
    Inv g a tr -> exclusive (os a t) -> exclusive o' ->
    owner g' = owner g -> cur g' = cur g -> ngen g' = ngen g -> (forall x, gsize g' x = gsize g x) ->
    (forall x y, rspin g' x y = rspin g x y) -> (forall x y, rown g' x y = rown g x y) ->
    (forall g0 sz j, o' = OScan g0 sz j -> os a t = OScan g0 sz j) ->
    mask g' = m' -> table_ok hm (mask g') (buckets g') ->
    (forall s, absrel s (buckets g) (fun x => In x (opend (os a t))) -> absrel s (buckets g') (fun x => In x (opend o'))) ->
    forall k ob ok,
    Inv g' (setv a t (mkTV (v_op (a_view a t)) (v_rs (a_view a t)) o' (v_arr (a_view a t)) m')) (tr ++ Conc.tag t [EvAcc k ob ok]).
  Proof.
    intros Hi Hex Hex' C1 C2 C3 C4 C5 C6 Hsc Hm Htab Habs k ob ok.
    assert (Hne : os a t <> ONone) by (destruct Hex as [(? & ? & E)|(? & E)]; rewrite E; discriminate).
    assert (Hne' : o' <> ONone) by (destruct Hex' as [(? & ? & E)|(? & E)]; rewrite E; discriminate).
    pose proof (excl_others_none g a tr t Hi Hne) as Hoth.
    pose proof (excl_no_valid g a tr t Hi Hex) as Hnv.
    change (Inv g' (seta (setv a t (mkTV (v_op (a_view a t)) (v_rs (a_view a t)) o' (v_arr (a_view a t)) m')) (a_atr a)) (tr ++ Conc.tag t [EvAcc k ob ok])).
    eapply Inv_tstep; [exact Hi|exact C1|exact C2|exact C3|exact C4|exact C5|exact C6|reflexivity|reflexivity|..]; cbn [v_os v_mask].
    - tauto.
    - intros g0 sz j H. rewrite (Hsc g0 sz j H) in *. apply (i_scan Hi t g0 sz j). now apply Hsc.
    - intros t0 gg i H. exfalso. eapply Hnv; eauto.
    - intros _. exact Hm.
    - intros E. contradiction.
    - exact Htab.
    - destruct (i_abs Hi) as (s & st & H1 & H2 & H3 & H4). exists s, st. rewrite hist_of_acc.
      split; [exact H1|]. split; [exact H2|]. split.
      + intros t0. rewrite H3. destruct (Nat.eq_dec t0 t) as [->|Hn]; [now rewrite setv_same|now rewrite setv_other].
      + eapply absrel_ext; [|apply Habs; eapply absrel_ext; [|exact H4]].
        * apply opend_setv. cbn [v_os]. intros x. split; [now left|]. intros [K|(t0 & Hn & K)]; auto.
          rewrite (Hoth t0 Hn) in K. destruct K.
        * intros x. split.
          -- intros (t0 & K). destruct (Nat.eq_dec t0 t) as [->|Hn]; [exact K|]. rewrite (Hoth t0 Hn) in K. destruct K.
          -- intros K. eauto.
  Qed.


  (** *** resize *)
  Definition nolock (v : tview) : Prop := v_rs v = RNone /\ v_os v = ONone.

  Lemma safe_move_all t (Q : tview -> Prop) : forall xs v, v_os v = OMove xs ->
    (forall v', v_op v' = v_op v -> v_rs v' = v_rs v -> v_os v' = OMove [] -> Q v') ->
    safe t (move_all hm xs) v (fun _ => Q).
  Proof.
    induction xs as [|x r IH]; intros v Hos HQ; cbn [move_all].
    - apply safe_ret. apply HQ; auto.
    - cbn [Conc.safe]. intros g a tr Hi Hv. unfold view in Hv. cbn [a_move fst snd].
      set (b := hfun hm (key_of x) mod S (mask g)).
      set (new := if bucket_has (key_of x) (get_b (buckets g) b) then get_b (buckets g) b else x :: get_b (buckets g) b).
      assert (Hos' : os a t = OMove (x :: r)) by (unfold os; now rewrite Hv).
      eexists. split; [|split; [apply frame_setv|]].
      + apply (Inv_owner_tstep g (set_buckets g (set_nth_b (buckets g) b new)) a tr t (OMove r) (mask g) Hi);
          try reflexivity; try (intros; reflexivity).
        * right. eauto.
        * right. eauto.
        * intros g0 sz j H. discriminate.
        * apply (move_table_ok hm (mask g) (buckets g) x (i_tab Hi)).
        * intros s Hs. rewrite Hos' in Hs. cbn [opend] in *. apply (proj2 (move_abs hm (mask g) (buckets g) s x r (i_tab Hi) Hs)).
      + unfold view. rewrite setv_same, Hv. apply IH; [reflexivity|]. intros v' H1 H2 H3. apply HQ; auto.
  Qed.

  Lemma safe_resize_tail t N (Q : tview -> Prop) v g0 sz :
    v_rs v = RNone -> v_os v = OScan g0 sz sz ->
    (forall v', v_op v' = v_op v -> nolock v' -> Q v') ->
    safe t (if Nat.eqb (S (v_mask v)) N
            then bindo (internal_resize Refinable (c_fuel cf) hm (2 * N)) (fun _ => thenu (resize_unlock Refinable nl) (oret tt))
            else thenu (resize_unlock Refinable nl) (oret tt)) v (optQ (fun _ => Q)).
  Proof.
    intros Hrs Hos HQ.
    assert (Hun : forall v1, v_op v1 = v_op v -> v_rs v1 = RNone -> v_os v1 <> ONone -> opend (v_os v1) = [] ->
                   safe t (thenu (resize_unlock Refinable nl) (oret tt)) v1 (optQ (fun _ => Q))).
    { intros v1 H1 H2 H3 H4. apply safe_thenu. cbn [resize_unlock]. apply safe_owner_release; auto.
      apply safe_oret. apply HQ; [exact H1|]. split; [exact H2|reflexivity]. }
    destruct (Nat.eqb_spec (S (v_mask v)) N) as [<-|_]; [|apply Hun; auto; rewrite Hos; [discriminate|reflexivity]].
    apply safe_bindo. unfold internal_resize. apply safe_bindo.
    apply (safe_policy_resize t (2 * S (v_mask v)) _ v g0 sz); [lia|exact Hos|].
    intros v1 g1 sz1 H1 H2 H3 H4.
    apply safe_silent; [silent|]. intros g2 a2 tr2 _ _. cbn [a_mask_ld fst snd]. clear g2 a2 tr2. cbn [Conc.safe].
    intros g a tr Hi Hv. unfold view in Hv. cbn [a_mask_st_alloc fst snd vl].
    assert (Hos1 : os a t = OScan g1 sz1 sz1) by (unfold os; now rewrite Hv).
    assert (Hm : mask g = v_mask v).
    { rewrite <- H4, <- Hv. apply (i_mask Hi t). rewrite Hos1. discriminate. }
    set (n := 2 * S (v_mask v)).
    eexists. split; [|split; [apply frame_setv|]].
    - apply (Inv_owner_tstep g (set_buckets (set_mask g (n - 1)) (repeat [] n)) a tr t (OMove (List.concat (buckets g))) (n - 1) Hi);
        try reflexivity; try (intros; reflexivity).
      + left. eauto.
      + right. eauto.
      + intros g3 sz3 j H. discriminate.
      + cbn [mask buckets set_buckets set_mask]. apply alloc_table_ok. unfold n. lia.
      + intros s Hs. cbn [buckets set_buckets opend]. apply alloc_abs.
        eapply absrel_ext; [|exact Hs]. intros x. rewrite Hos1. cbn. tauto.
    - unfold view. rewrite setv_same, Hv. apply safe_thenu.
      apply safe_move_all with (xs := List.concat (buckets g)); [reflexivity|].
      intros v2 K1 K2 K3. apply safe_oret. apply Hun.
      + rewrite K1. cbn. congruence.
      + rewrite K2. cbn. congruence.
      + rewrite K3. discriminate.
      + now rewrite K3.
  Qed.

  Lemma safe_resize t (Q : tview -> Prop) v : nolock v ->
    (forall v', v_op v' = v_op v -> nolock v' -> Q v') ->
    safe t (resize (c_pol cf) (c_fuel cf) nl hm (S t)) v (optQ (fun _ => Q)).
  Proof.
    intros [Hrs Hos] HQ. rewrite Hpol. unfold resize.
    apply safe_silent; [silent|]. intros g0 a0 tr0 _ _. cbn [a_mask_ld fst snd vn vnat].
    generalize (S (mask g0)). intros N. clear g0 a0 tr0.
    apply safe_bindo. cbn [resize_lock].
    apply safe_rf_acquire_resize; [exact Hrs|exact Hos|apply safe_oret; apply HQ; [reflexivity|split; auto]|].
    intros v1 g1 sz1 H1 H2 H3. cbn [Conc.safe].
    intros g a tr Hi Hv. unfold view in Hv. cbn [a_mask_ld fst snd].
    exists a. split; [eapply Inv_silent; [exact Hi|apply same_core_refl|apply hist_of_acc]|]. split; [apply frame_refl|].
    unfold view. rewrite Hv. cbn [vn vnat].
    assert (Hm : mask g = v_mask v1).
    { rewrite <- Hv. apply (i_mask Hi t). unfold os. rewrite Hv, H3. discriminate. }
    rewrite Hm. eapply safe_resize_tail; eauto.
    intros v' H4 H5. apply HQ; auto. congruence.
  Qed.

  (** *** one client operation *)
  Definition QIdle : unit -> tview -> Prop := fun _ v => v_op v = Lin.Idle /\ nolock v.

  Lemma safe_fin t c k b bo r1 r2 v :
    op_of_code c b = Some bo ->
    v_op v = Linearized (iop_of_bop bo k t : Op ISet) (res_of_bop bo r1 r2 : Res ISet) -> nolock v ->
    safe t (op_finish c k r1 r2) v (optQ QIdle).
  Proof.
    intros Hoc Hop Hno. unfold op_finish. cbn [Conc.safe]. intros g a tr Hi Hv. unfold view in Hv.
    rewrite <- (res_of_code c k b bo r1 r2 Hoc) in Hop.
    eexists. split; [apply (Inv_cli g a tr t Lin.Idle "ret" _ (a_atr a ++ [ARes t (res_of c r1 (r2_of_code c k r1 r2) : Res ISet)]) Hi)|].
    - intros s st H1 H3 H2. split.
      + eapply lp_ext; [exact H1|]. cbn [lp_step]. rewrite H3, Hv, Hop.
        assert (E : res_eqb ISet (res_of c r1 (r2_of_code c k r1 r2)) (res_of c r1 (r2_of_code c k r1 r2)) = true) by (apply res_eqb_spec; reflexivity).
        rewrite E. reflexivity.
      + rewrite erase_app, H2, hist_ret. reflexivity.
    - split.
      + intros t' Hne. unfold view. cbn [a_view seta]. now apply setv_other.
      + unfold view. cbn [a_view seta]. rewrite setv_same, Hv. apply safe_oret. split; [reflexivity|exact Hno].
  Qed.

  Lemma safe_unlock_fin t g0 i c k b bo r1 r2 (p : prog (option unit)) v :
    op_of_code c b = Some bo ->
    v_op v = Linearized (iop_of_bop bo k t : Op ISet) (res_of_bop bo r1 r2 : Res ISet) -> v_rs v = RValid g0 i -> v_os v = ONone ->
    (forall v', v_op v' = v_op v -> nolock v' -> safe t p v' (optQ QIdle)) ->
    safe t (thenu (cell_unlock (CRe g0 i)) p) v (optQ QIdle).
  Proof.
    intros Hoc Hop Hrs Hos Hp. apply safe_thenu. cbn [cell_unlock].
    apply (safe_r_unlock t g0 i false); [right; exact Hrs|discriminate|].
    apply Hp; [reflexivity|]. split; [reflexivity|exact Hos].
  Qed.

  Lemma safe_op_tail t g0 i c k b bo r1 r2 bi v :
    op_of_code c b = Some bo ->
    v_op v = Linearized (iop_of_bop bo k t : Op ISet) (res_of_bop bo r1 r2 : Res ISet) -> v_rs v = RValid g0 i -> v_os v = ONone ->
    safe t (op_tail cf (S t) bo (CRe g0 i) c k (mkV r1 r2 bi [])) v (optQ QIdle).
  Proof.
    intros Hoc Hop Hrs Hos.
    assert (Hfin : forall v', v_op v' = v_op v -> nolock v' -> safe t (op_finish c k r1 r2) v' (optQ QIdle)).
    { intros v' H1 H2. eapply safe_fin; eauto. congruence. }
    assert (Hsimple : safe t (thenu (cell_unlock (CRe g0 i)) (op_finish c k r1 r2)) v (optQ QIdle)).
    { eapply safe_unlock_fin; eauto. }
    assert (Hins : safe t (after_insert cf (S t) (CRe g0 i) bi (op_finish c k r1 r2)) v (optQ QIdle)).
    { unfold after_insert. apply safe_silent; [silent|].
      intros g1 a1 tr1 _ _.
      assert (Hafter : forall m, safe t (thenu (cell_unlock (CRe g0 i))
                 (if resize_wanted cf (S (vn (snd (fst (a_count_faa_b bi g1))))) (vs (snd (fst (a_count_faa_b bi g1)))) m
                  then bindo (resize (c_pol cf) (c_fuel cf) nl hm (S t)) (fun _ => op_finish c k r1 r2)
                  else op_finish c k r1 r2)) v (optQ QIdle)).
      { intros m. eapply safe_unlock_fin; eauto. intros v' H1 H2.
        destruct (resize_wanted _ _ _ _); [|apply Hfin; auto].
        apply safe_bindo. apply safe_resize; auto. intros v'' H3 H4. apply Hfin; auto. congruence. }
      destruct (c_rp cf); [apply Hafter|].
      apply safe_silent; [silent|]. intros g2 a2 tr2 _ _. apply Hafter. }
    unfold op_tail. cbn [vn vm vs]. destruct bo as [|allow| | |].
    - destruct (Nat.eqb r1 1); auto.
    - destruct (Nat.eqb r1 1 && Nat.eqb r2 1); auto.
    - eapply safe_unlock_fin; eauto. intros v' H1 H2. destruct (Nat.eqb r1 1); [|apply Hfin; auto].
      apply safe_silent; [silent|]. intros g1 a1 tr1 _ _. apply Hfin; auto.
    - eapply safe_unlock_fin; eauto. intros v' H1 H2. destruct (Nat.eqb r1 1); [|apply Hfin; auto].
      apply safe_silent; [silent|]. intros g1 a1 tr1 _ _. apply Hfin; auto.
    - exact Hsimple.
  Qed.

  Lemma safe_run_op t o v : v_op v = Lin.Idle -> nolock v -> safe t (run_op cf t o) v (optQ QIdle).
  Proof.
    intros Hop [Hrs Hos]. unfold run_op.
    set (c := nth 0 o 0). set (k := nth 1 o 0). set (x := nth 2 o 0). set (y := nth 3 o 0).
    destruct (op_of_code c y) as [bo|] eqn:Hoc; [|apply safe_oret; split; [auto|split; auto]].
    cbn [Conc.safe]. intros g a tr Hi Hv. unfold view in Hv.
    eexists. split; [apply (Inv_cli g a tr t (Pending (iop_of_bop bo k t : Op ISet)) "inv" _ (a_atr a ++ [AInv t (iop_of_bop bo k t : Op ISet)]) Hi)|].
    { intros s st H1 H3 H2. split.
      - eapply lp_ext; [exact H1|]. cbn [lp_step]. rewrite H3, Hv, Hop. reflexivity.
      - rewrite erase_app, H2, (hist_inv tr t c k x y (iop_of_bop bo k t)); [reflexivity|now apply iop_of_code]. }
    split; [intros t' Hne; unfold view; cbn [a_view seta]; now apply setv_other|].
    unfold view. cbn [a_view seta]. rewrite setv_same, Hv. clear g a tr Hi Hv.
    apply safe_bindo. rewrite Hpol. cbn [cell_lock].
    apply safe_rf_acquire; [exact Hrs|exact Hos|]. intros g0 i arr. cbn [with_op v_op v_rs v_os v_arr v_mask Conc.safe].
    (* the linearization point *)
    intros g a tr Hi Hv. unfold view in Hv.
    pose proof (Inv_bucket_op g a tr t bo k g0 i Hi) as HI. rewrite Hv in HI. cbn [v_op] in HI.
    unfold rs in HI. rewrite Hv in HI. cbn [v_rs] in HI. specialize (HI eq_refl eq_refl).
    unfold a_bucket_op. cbv zeta in HI.
    destruct (bucket_apply bo k t (get_b (buckets g) (hfun hm k mod S (mask g)))) as [[nb r1] r2] eqn:E.
    cbn [fst snd] in *.
    eexists. split; [exact HI|]. split; [intros t' Hne; unfold view; cbn [a_view seta]; now apply setv_other|].
    unfold view. cbn [a_view seta]. rewrite setv_same.
    eapply safe_op_tail; eauto.
  Qed.

  Lemma safe_run_ops t os : forall v, v_op v = Lin.Idle -> nolock v -> safe t (run_ops cf t os) v (fun _ _ => True).
  Proof.
    induction os as [|o r IH]; intros v Hop Hno; cbn [run_ops]; [exact I|].
    apply Conc.safe_bind. eapply Conc.safe_weaken; [|apply safe_run_op; auto].
    intros [u|] v' H; cbn in H.
    - destruct H. apply IH; auto.
    - cbn [Conc.safe]. intros g a tr Hi Hv. exists a.
      split; [eapply Inv_silent; [exact Hi|apply same_core_refl|apply hist_oof]|]. split; [apply frame_refl|exact I].
  Qed.

  Lemma safe_thread t os v : v_op v = Lin.Idle -> nolock v ->
    safe t (thread_prog cf t os) v (@Conc.QTrue tview).
  Proof.
    intros Hop Hno. unfold thread_prog. apply safe_silent; [silent|].
    intros g a tr _ _. eapply Conc.safe_weaken; [|apply safe_run_ops; auto]. intros; exact I.
  Qed.

  (** ** the initial configuration *)
  Definition a0 : Aux := mkAux (fun _ => mkTV Lin.Idle RNone ONone None 0) [].

  Lemma nth_error_mapi {A B} (f : nat -> A -> B) : forall l i t, nth_error (mapi f i l) t = option_map (f (i + t)) (nth_error l t).
  Proof.
    induction l as [|x r IH]; intros i [|t]; cbn; auto.
    - now rewrite Nat.add_0_r.
    - rewrite IH. now rewrite Nat.add_succ_r.
  Qed.

  Lemma init_ok ths : Conc.cfg_ok view Inv (init_cfg cf ths).
  Proof.
    exists a0. split.
    - cbn [init_cfg Conc.shared Conc.trace]. constructor; cbn [init owner rspin rown cur ngen gsize mask buckets].
      + now left.
      + intros t H. exfalso. apply H. reflexivity.
      + intros gg i. split; [now left|]. split; [discriminate|]. intros (t & [H|[H|[H|H]]]); discriminate.
      + intros t t' gg i [H|[H|[H|H]]]; discriminate.
      + intros gg i. now left.
      + split; [lia|]. split; [intros; exact Hnl|]. intros t gg i [H|[H|[H|H]]]; discriminate.
      + intros t g0 sz H. discriminate.
      + intros t gg i H. discriminate.
      + intros R g0 sz j H. discriminate.
      + intros t H. exfalso. apply H. reflexivity.
      + apply alloc_table_ok. exact Hnl.
      + exists [], (fun _ => Lin.Idle). cbn. split; [reflexivity|]. split; [reflexivity|]. split; [reflexivity|].
        split; [constructor|]. intros x. split; [intros []|]. intros [(b & H)|(t & [])].
        rewrite get_b_repeat in H. destruct H.
    - intros t p Hp. cbn [init_cfg Conc.threads] in Hp. rewrite nth_error_mapi in Hp.
      destruct (nth_error ths t) as [os|]; inversion Hp; subst. cbn [Nat.add].
      apply safe_thread; [reflexivity|]. split; reflexivity.
  Qed.

  (** ** theorems *)
  Theorem striped_refinable_linearizable ths (c : Conc.config G V ev) :
    Conc.reach (init_cfg cf ths) c -> linearizable ISet (hist_of (Conc.trace c)).
  Proof.
    intros Hr. destruct (Conc.reach_Inv (init_ok ths) Hr) as (a & Hi).
    destruct (i_abs Hi) as (s & st & H1 & H2 & _). rewrite <- H2. apply lp_valid_linearizable. eexists; eauto.
  Qed.

  (** [refinable_owner_excludes]: at every reachable configuration there is an assignment of lock / ownership
      states to the threads, consistent with the owner word and the lock words, such that
      - at most one thread owns the table, and the owner word says who;
      - while the owner is exclusive (its scan of the lock array is complete, or it is moving items) no thread is
        inside a critical section (holds a validated cell lock);
      - a thread inside a critical section holds a lock of the _current_ array which a scanning resizer has not
        passed yet (the resizer will wait for it);
      - the lock word of a cell is set iff exactly one thread has it. *)
  Theorem refinable_owner_excludes_thm ths (c : Conc.config G V ev) :
    Conc.reach (init_cfg cf ths) c ->
    exists a : Aux,
      let g := Conc.shared c in
      (forall t, os a t <> ONone -> owner g = 2 * S t + 1) /\
      (owner g = 0 -> forall t, os a t = ONone) /\
      (forall t t', os a t <> ONone -> os a t' <> ONone -> t = t') /\
      (forall R, exclusive (os a R) -> forall t gg i, rs a t <> RValid gg i) /\
      (forall t gg i, rs a t = RValid gg i ->
          gg = cur g /\ i < gsize g gg /\ rspin g gg i = 1 /\
          forall R g0 sz j, os a R = OScan g0 sz j -> g0 = gg /\ j <= i) /\
      (forall gg i, rspin g gg i = 1 <-> exists t, rholds (rs a t) gg i) /\
      (forall t t' gg i, rholds (rs a t) gg i -> rholds (rs a t') gg i -> t = t').
  Proof.
    intros Hr. destruct (Conc.reach_Inv (init_ok ths) Hr) as (a & Hi). exists a. cbv zeta.
    split; [apply (i_owner Hi)|]. split.
    { intros H0 t. destruct (os_none_dec (os a t)) as [E|E]; auto. apply (i_owner Hi) in E. lia. }
    split.
    { intros t t' H1 H2. apply (i_owner Hi) in H1. apply (i_owner Hi) in H2. lia. }
    split; [intros R HR; eapply excl_no_valid; eauto|].
    split.
    { intros t gg i H. destruct (i_valid Hi t gg i H) as (V1 & V2 & V4 & V5). split; auto. split; auto. split.
      - apply (proj2 (i_spin Hi gg i)). exists t. rewrite H. unfold rholds. auto.
      - intros R g0 sz j HR. split; [|eapply V4; eauto]. destruct (i_scan Hi R g0 sz j HR) as (S1 & _). congruence. }
    split; [intros gg i; apply (i_spin Hi)|apply (i_excl Hi)].
  Qed.

End Refinable.
