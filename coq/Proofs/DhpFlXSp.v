(** * DhpFlXSp: every DHP thread keeps the knowledge invariant [InvX f] of LV.Proofs.DhpFlX (only announced and
      initialised blocks of kind [f] are named by shared pointer fields, held in the free list or known to a
      thread).  Generic nodes through the certificate [PC f] (LV.Proofs.DhpCert, DhpCertProgs); the free-list algorithm itself
      is quiet ([xquiet]); the six special programs (those that allocate / free blocks of kind [f] or read / write
      block pointers) by hand. *)
From Coq Require Import ZArith NArith List String Bool Lia PeanoNat.
From LV Require Import Base.Conc Base.Events Model.FreeList Model.DhpLang Model.Dhp Proofs.DhpBase Proofs.DhpHist
  Proofs.DhpLangProofs Proofs.FreeListBase Proofs.FreeListInv Proofs.FreeListOpen Proofs.FreeListOpenRules Proofs.FreeListOpenDhp Proofs.FreeListOpenDhpRules
  Proofs.FreeListOpenDhpThm Proofs.FreeListOpenDhpBridge Proofs.DhpCertBase Proofs.DhpStepsB9 Proofs.DhpProgB4 Proofs.DhpCert Proofs.DhpCertProgs Proofs.DhpFlX.
Import ListNotations.

Ltac kpx := intros []; cbn; repeat split; apply keepo_refl.

Section XS.
  Variable f : fl.
  Notation dsafeX := (@dsafe Dhp.G ev AuxX XV viewX (InvX f)).

  Lemma dsafeX_xbind {X Y} t (p : P X) (q : X -> P Y) l (Q : option Y -> XV -> Prop) :
    dsafeX t p l (fun o l' => match o with Some x => dsafeX t (q x) l' Q | None => Q None l' end) ->
    dsafeX t (xbind p q) l Q.
  Proof. intros H. unfold xbind. apply dsafe_bind. eapply dsafe_weaken; [|exact H]. intros [x|] l' K; cbn; auto. Qed.

  Lemma qI_acc k o ok : qI f (acc k o ok).
  Proof.
    intros e [<-|[]]. unfold clsf. destruct k; try (left; reflexivity).
    destruct o as [|x [|y [|z [|? ?]]]]; try (left; reflexivity).
    destruct (_ && _)%bool; [right; eexists; reflexivity|left; reflexivity].
  Qed.
  Lemma qI_app es es' : qI f es -> qI f es' -> qI f (es ++ es').
  Proof. intros H1 H2 e He. apply in_app_or in He. destruct He; auto. Qed.

  Lemma xG_trans g1 g2 g3 : xG f g1 g2 -> xG f g2 g3 -> xG f g1 g3.
  Proof. intros [A1 A2] [B1 B2]. split; [lia|auto]. Qed.
  Lemma xG_qS g g' : qS g g' -> xG f g g'.
  Proof. intros H. apply qG_xG. now apply qS_qG. Qed.

  Lemma xG_set_refs f0 g n v : xG f g (fl_set_refs g f0 n v).
  Proof.
    split; [rewrite flen_set_refs; lia|]. apply pS_shp.
    destruct f0; cbn [fl_set_refs]; [apply pS_upd_gb|apply pS_upd_rb]; intros []; apply keepo_refl.
  Qed.
  Lemma xG_set_next f0 g n v : xG f g (fl_set_next g f0 n v).
  Proof.
    split; [rewrite flen_set_next; lia|]. apply pS_shp.
    destruct f0; cbn [fl_set_next]; [apply pS_upd_gb|apply pS_upd_rb]; intros []; apply keepo_refl.
  Qed.
  Lemma xG_set_head f0 g v : xG f g (fl_set_head g f0 v).
  Proof. split; [rewrite flen_set_head; lia|]. apply pS_shp. destruct f0; apply pS_same; reflexivity. Qed.

  (** ** programs all of whose nodes are quiet for [InvX f] *)
  Fixpoint xquiet {R} (p : @dprog Dhp.G ev R) : Prop :=
    match p with
    | DRet _ => True
    | DEmit es k => qI f es /\ xquiet k
    | DLoc fn k => (forall g, xG f g (fst (fn g))) /\ forall x, xquiet (k x)
    | DAct fn k => (forall g, xG f g (fst (fst (fn g))) /\ qI f (snd (fn g))) /\ forall x, xquiet (k x)
    end.

  Theorem xquiet_dsafe {R} t (p : @dprog Dhp.G ev R) l (Q : R -> XV -> Prop) :
    xquiet p -> (forall r, Q r l) -> dsafeX t p l Q.
  Proof.
    intros Hp HQ. induction p as [r|es k IH|X fn k IH|X fn k IH]; cbn [xquiet] in Hp.
    - apply HQ.
    - destruct Hp as [He Hk]. apply dX_emit_q; auto.
    - destruct Hp as [Hg Hk]. apply dX_loc_q; auto.
    - destruct Hp as [Hg Hk]. apply dX_act_q; auto.
  Qed.

  Lemma xq_dbind {A B} (p : @dprog Dhp.G ev A) (q : A -> @dprog Dhp.G ev B) :
    xquiet p -> (forall x, xquiet (q x)) -> xquiet (dbind p q).
  Proof.
    induction p as [r|es k IH|X fn k IH|X fn k IH]; intros Hp Hq; cbn [dbind xquiet] in *; auto.
    - destruct Hp; split; auto.
    - destruct Hp; split; auto.
    - destruct Hp; split; auto.
  Qed.
  Lemma xq_xbind {A B} (p : P A) (q : A -> P B) : xquiet p -> (forall x, xquiet (q x)) -> xquiet (xbind p q).
  Proof. intros Hp Hq. unfold xbind. apply xq_dbind; auto. intros [x|]; [apply Hq|exact I]. Qed.
  Lemma xq_fuel_out {R} : xquiet (@fuel_out R).
  Proof. cbn. split; [|exact I]. intros e [<-|[]]. left. reflexivity. Qed.
  Lemma xq_act {X} (fa : Dhp.A X) : (forall g, xG f g (fst (fst (fa g))) /\ qI f (snd (fa g))) -> xquiet (act fa).
  Proof. intros H. unfold act. cbn [xquiet]. split; auto. Qed.
  Lemma xq_loc {X} (fn : Dhp.G -> Dhp.G * X) : (forall g, xG f g (fst (fn g))) -> xquiet (loc fn).
  Proof. intros H. unfold loc. cbn [xquiet]. split; auto. Qed.

  (** the free-list algorithm of either instance *)
  Section Algo.
    Variable f0 : fl.
    Lemma xa_ld_head g : xG f g (fst (fst (a_ld_head f0 g))) /\ qI f (snd (a_ld_head f0 g)).
    Proof. cbn. split; [apply xG_refl|apply qI_acc]. Qed.
    Lemma xa_cas_head e n g : xG f g (fst (fst (a_cas_head f0 e n g))) /\ qI f (snd (a_cas_head f0 e n g)).
    Proof. unfold a_cas_head. destruct (oeqb _ _); cbn [fst snd]; (split; [first [apply xG_set_head|apply xG_refl]|apply qI_acc]). Qed.
    Lemma xa_ld_refs n g : xG f g (fst (fst (a_ld_refs f0 n g))) /\ qI f (snd (a_ld_refs f0 n g)).
    Proof. cbn. split; [apply xG_refl|apply qI_acc]. Qed.
    Lemma xa_st_refs n v g : xG f g (fst (fst (a_st_refs f0 n v g))) /\ qI f (snd (a_st_refs f0 n v g)).
    Proof. cbn [a_st_refs fst snd]. split; [apply xG_set_refs|apply qI_acc]. Qed.
    Lemma xa_cas_refs n e v g : xG f g (fst (fst (a_cas_refs f0 n e v g))) /\ qI f (snd (a_cas_refs f0 n e v g)).
    Proof. unfold a_cas_refs. destruct (N.eqb _ _); cbn [fst snd]; (split; [first [apply xG_set_refs|apply xG_refl]|apply qI_acc]). Qed.
    Lemma xa_faa_refs n d g : xG f g (fst (fst (a_faa_refs f0 n d g))) /\ qI f (snd (a_faa_refs f0 n d g)).
    Proof. cbn [a_faa_refs fst snd]. split; [apply xG_set_refs|apply qI_acc]. Qed.
    Lemma xa_fas_refs n d g : xG f g (fst (fst (a_fas_refs f0 n d g))) /\ qI f (snd (a_fas_refs f0 n d g)).
    Proof. cbn [a_fas_refs fst snd]. split; [apply xG_set_refs|apply qI_acc]. Qed.
    Lemma xa_ld_flnext n g : xG f g (fst (fst (a_ld_flnext f0 n g))) /\ qI f (snd (a_ld_flnext f0 n g)).
    Proof. cbn. split; [apply xG_refl|apply qI_acc]. Qed.
    Lemma xa_st_flnext n v g : xG f g (fst (fst (a_st_flnext f0 n v g))) /\ qI f (snd (a_st_flnext f0 n v g)).
    Proof. cbn [a_st_flnext fst snd]. split; [apply xG_set_next|apply qI_acc]. Qed.

    Lemma xq_add_knowing sp : forall n head, xquiet (add_knowing sp f0 n head).
    Proof.
      induction sp as [|sp IH]; intros n head; cbn [add_knowing]; [apply xq_fuel_out|].
      apply xq_xbind; [apply xq_act, xa_st_flnext|intros _]. apply xq_xbind; [apply xq_act, xa_st_refs|intros _].
      apply xq_xbind; [apply xq_act, xa_cas_head|intros r]. destruct (fst r); [exact I|].
      apply xq_xbind; [apply xq_act, xa_faa_refs|intros old]. destruct (N.eqb old 1); [apply IH|exact I].
    Qed.
    Lemma xq_fl_add sp n : xquiet (fl_add sp f0 n).
    Proof. unfold fl_add. apply xq_xbind; [apply xq_act, xa_ld_head|intros hd; apply xq_add_knowing]. Qed.
    Lemma xq_fl_put sp n : xquiet (fl_put sp f0 n).
    Proof. unfold fl_put. apply xq_xbind; [apply xq_act, xa_faa_refs|intros old]. destruct (N.eqb old 0); [apply xq_fl_add|exact I]. Qed.
    Lemma xq_fl_get_loop sp : forall head, xquiet (fl_get_loop sp f0 head).
    Proof.
      induction sp as [|sp IH]; intros [h|]; cbn [fl_get_loop]; try exact I; [apply xq_fuel_out|].
      apply xq_xbind; [apply xq_act, xa_ld_refs|intros r]. destruct (N.eqb (N.land r RMASK) 0).
      { apply xq_xbind; [apply xq_act, xa_ld_head|intros hd; apply IH]. }
      apply xq_xbind; [apply xq_act, xa_cas_refs|intros c0]. destruct (negb c0).
      { apply xq_xbind; [apply xq_act, xa_ld_head|intros hd; apply IH]. }
      apply xq_xbind; [apply xq_act, xa_ld_flnext|intros nx]. apply xq_xbind; [apply xq_act, xa_cas_head|intros rr].
      destruct (fst rr).
      - apply xq_xbind; [apply xq_act, xa_fas_refs|intros _; exact I].
      - apply xq_xbind; [apply xq_act, xa_fas_refs|intros old].
        apply xq_xbind; [destruct (N.eqb old (SB + 1)); [apply xq_fl_add|exact I]|intros _; apply IH].
    Qed.
    Lemma xq_fl_get sp : xquiet (fl_get sp f0).
    Proof. unfold fl_get. apply xq_xbind; [apply xq_act, xa_ld_head|intros hd; apply xq_fl_get_loop]. Qed.
  End Algo.

  Lemma xq_link_guards b : forall n i, xquiet (link_guards b i n).
  Proof.
    induction n as [|n IH]; intros i; cbn [link_guards]; [exact I|].
    apply xq_xbind; [apply xq_act; intros g; destruct (qa_st_slot f (GE b i) 0 g) as [A B]; split; [now apply qG_xG|now apply qE_qI]|intros _].
    apply xq_xbind; [apply xq_loc; intros g; apply xG_qS, qS_snext_set|intros _]. apply IH.
  Qed.
  Lemma xq_clear_slots r : forall n i, xquiet (clear_slots r i n).
  Proof.
    induction n as [|n IH]; intros i; cbn [clear_slots]; [exact I|].
    apply xq_xbind; [apply xq_act; intros g; destruct (qa_st_slot f (GI r i) 0 g) as [A B]; split; [now apply qG_xG|now apply qE_qI]|intros _]. apply IH.
  Qed.

  (** ** xbind-level forms of the rules *)
  Lemma dX_xquiet {X Y} t (p : P X) (q : X -> P Y) l (Q : option Y -> XV -> Prop) :
    xquiet p -> (forall l', Q None l') -> (forall x, dsafeX t (q x) l Q) -> dsafeX t (xbind p q) l Q.
  Proof. intros Hp HN Hq. apply dsafeX_xbind. apply xquiet_dsafe; auto. intros [x|]; auto. Qed.
  Lemma dX_xloc_q {X Y} t (fn : Dhp.G -> Dhp.G * X) (q : X -> P Y) l Q :
    (forall g, xG f g (fst (fn g))) -> (forall x, dsafeX t (q x) l Q) -> dsafeX t (xbind (loc fn) q) l Q.
  Proof. intros H Hk. unfold xbind, loc. cbn [dbind]. apply dX_loc_q; auto. Qed.
  Lemma dX_xact_q {X Y} t (fa : Dhp.A X) (q : X -> P Y) l Q :
    (forall g, xG f g (fst (fst (fa g))) /\ qI f (snd (fa g))) -> (forall x, dsafeX t (q x) l Q) -> dsafeX t (xbind (act fa) q) l Q.
  Proof. intros H Hk. unfold xbind, act. cbn [dbind]. apply dX_act_q; auto. Qed.
  Lemma dX_xact_qa {X Y} t (fa : Dhp.A X) (q : X -> P Y) l Q :
    QAc f fa -> (forall x, dsafeX t (q x) l Q) -> dsafeX t (xbind (act fa) q) l Q.
  Proof. intros H. apply dX_xact_q. intros g. destruct (H g) as [A B]. split; [now apply qG_xG|now apply qE_qI]. Qed.
  Lemma dX_xemit_q {Y} t es (q : unit -> P Y) l Q : qI f es -> dsafeX t (q tt) l Q -> dsafeX t (xbind (emit es) q) l Q.
  Proof. intros H Hk. unfold xbind, emit. cbn [dbind]. apply dX_emit_q; auto. Qed.
  Lemma dX_xloc_read {Y} t (fn : Dhp.G -> Dhp.G * option nat) (q : option nat -> P Y) l Q :
    (forall g, xG f g (fst (fn g)) /\ forall b, snd (fn g) = Some b -> shp f g b) ->
    (forall o, dsafeX t (q o) (mkXV (xf l) (olist o ++ xk l)) Q) -> dsafeX t (xbind (loc fn) q) l Q.
  Proof. intros H Hk. unfold xbind, loc. cbn [dbind]. apply dX_loc_read; auto. Qed.
  Lemma dX_xact_read {Y} t (fa : Dhp.A (option nat)) (q : option nat -> P Y) l Q :
    (forall g, fst (fst (fa g)) = g /\ qI f (snd (fa g)) /\ forall b, snd (fst (fa g)) = Some b -> shp f g b) ->
    (forall o, dsafeX t (q o) (mkXV (xf l) (olist o ++ xk l)) Q) -> dsafeX t (xbind (act fa) q) l Q.
  Proof. intros H Hk. unfold xbind, act. cbn [dbind]. apply dX_act_read; auto. Qed.
  Lemma dX_xloc_write {X Y} t (fn : Dhp.G -> Dhp.G * X) (q : X -> P Y) l Q :
    (forall g, flen g f <= flen (fst (fn g)) f /\ forall b, shp f (fst (fn g)) b -> shp f g b \/ In b (xk l)) ->
    (forall x, dsafeX t (q x) l Q) -> dsafeX t (xbind (loc fn) q) l Q.
  Proof. intros H Hk. unfold xbind, loc. cbn [dbind]. apply dX_loc_write; auto. Qed.
  Lemma dX_xact_write {X Y} t (fa : Dhp.A X) (q : X -> P Y) l Q :
    (forall g, flen g f <= flen (fst (fst (fa g))) f /\ qI f (snd (fa g)) /\ forall b, shp f (fst (fst (fa g))) b -> shp f g b \/ In b (xk l)) ->
    (forall x, dsafeX t (q x) l Q) -> dsafeX t (xbind (act fa) q) l Q.
  Proof. intros H Hk. unfold xbind, act. cbn [dbind]. apply dX_act_write; auto. Qed.
  Lemma dX_fuel_out {Y} t l (Q : option Y -> XV -> Prop) : (forall l', Q None l') -> dsafeX t fuel_out l Q.
  Proof. intros HN. unfold fuel_out. apply dX_emit_q; [|apply HN]. intros e [<-|[]]. left. reflexivity. Qed.

  (** ** certified programs *)
  Definition xbusy {Y} (p : P Y) : Prop :=
    forall t ks (Q : option Y -> XV -> Prop), (forall x ks', Q (Some x) (mkXV None ks')) -> (forall l, Q None l) ->
      dsafeX t p (mkXV None ks) Q.

  Lemma xbusy_xbind {X Y} (p : P X) (q : X -> P Y) : xbusy p -> (forall x, xbusy (q x)) -> xbusy (xbind p q).
  Proof. intros Hp Hq t ks Q HQ HN. apply dsafeX_xbind. apply Hp; [intros x ks'; apply Hq; assumption|exact HN]. Qed.

  Theorem xbusy_PC : (forall Y (p : P Y), Sp f p -> xbusy p) -> forall Y (p : P Y), PC f p -> xbusy p.
  Proof.
    intros HSp Y p H. induction H as [Y r|Y es k He Hk IH|Y X fn k Hg Hk IH|Y X fa k Hg Hk IH|X Y p q Hp IHp Hq IHq|Y p Hs].
    - intros t ks Q HQ HN. destruct r; [apply HQ|apply HN].
    - intros t ks Q HQ HN. apply dX_emit_q; [now apply qE_qI|]. apply IH; assumption.
    - intros t ks Q HQ HN. apply dX_loc_q; [intros g; apply qG_xG, Hg|intros x; apply IH; assumption].
    - intros t ks Q HQ HN. apply dX_act_q; [intros g; destruct (Hg g) as [A B]; split; [now apply qG_xG|now apply qE_qI]|intros x; apply IH; assumption].
    - apply xbusy_xbind; auto.
    - apply HSp. exact Hs.
  Qed.

  (** get(); then "_alloc" or creation of a block: the block in hand is known *)
  Lemma x_alloc_match t (newblk : Dhp.G -> Dhp.G * nat) (o : option nat) ks (Q : option nat -> XV -> Prop) :
    (forall g, xG f g (fst (newblk g)) /\ snd (newblk g) = flen g f /\ flen g f < flen (fst (newblk g)) f) ->
    (forall b, Q (Some b) (mkXV None (b :: ks))) -> (forall l, Q None l) ->
    dsafeX t (match o with
              | Some b => emit [ev_alloc f b] ;;; ret b
              | None => nb <- loc newblk ;; emit [ev_new f nb] ;;; act (a_st_flnext f nb None) ;;; ret nb
              end) (mkXV None ks) Q.
  Proof.
    intros Hnew HQ HN. destruct o as [b|]; unfold xbind, emit, loc, act, ret; cbn [dbind].
    - apply dX_emit_alloc. cbn [xf xk]. apply HQ.
    - apply dX_loc_fresh; [exact Hnew|]. intros nb. cbn [xk]. apply dX_emit_new. apply dX_act_init. apply HQ.
  Qed.

  Lemma x_free_put t sp b ks (Q : option unit -> XV -> Prop) :
    In b ks -> Q (Some tt) (mkXV None ks) -> (forall l, Q None l) ->
    dsafeX t (emit [ev_free f b] ;;; fl_put sp f b) (mkXV None ks) Q.
  Proof.
    intros Hin HQ HN. unfold xbind, emit. cbn [dbind]. apply dX_emit_free; [exact Hin|].
    apply xquiet_dsafe; [apply xq_fl_put|]. intros [[]|]; auto.
  Qed.
End XS.

(** ** what the pointer updates do to [shp] *)
Lemma grec_upd_gb g b F r : grec (upd_gb g b F) r = grec g r. Proof. reflexivity. Qed.
Lemma grec_upd_rb g b F r : grec (upd_rb g b F) r = grec g r. Proof. reflexivity. Qed.
Lemma ggb_upd_rec g r F b : ggb (upd_rec g r F) b = ggb g b. Proof. reflexivity. Qed.
Lemma grb_upd_rec g r F b : grb (upd_rec g r F) b = grb g b. Proof. reflexivity. Qed.

Lemma shp_hp_upd_gb g b F x : shp FHp (upd_gb g b F) x -> shp FHp g x \/ gb_nextb (F (ggb g b)) = Some x.
Proof.
  intros [(r & H)|(b' & H)]; [left; left; exists r; exact H|].
  unfold ggb, upd_gb in H. cbn [gbs set_gbs] in H.
  destruct (nth_upd_cases (gbs g) b b' F dflt_gb) as [E|(-> & _ & E)]; rewrite E in H; [left; right; exists b'; exact H|right; exact H].
Qed.
Lemma shp_hp_upd_rec g r F x : shp FHp (upd_rec g r F) x -> shp FHp g x \/ r_ext (F (grec g r)) = Some x.
Proof.
  intros [(r' & H)|(b' & H)]; [|left; right; exists b'; exact H].
  unfold grec, upd_rec in H. cbn [recs set_recs] in H.
  destruct (nth_upd_cases (recs g) r r' F dflt_rec) as [E|(-> & _ & E)]; rewrite E in H; [left; left; exists r'; exact H|right; exact H].
Qed.
Lemma shp_rt_upd_rb g b F x : shp FRt (upd_rb g b F) x -> shp FRt g x \/ rb_next (F (grb g b)) = Some x.
Proof.
  intros [(r & H)|(b' & H)]; [left; left; exists r; exact H|].
  unfold grb, upd_rb in H. cbn [rbs set_rbs] in H.
  destruct (nth_upd_cases (rbs g) b b' F dflt_rb) as [E|(-> & _ & E)]; rewrite E in H; [left; right; exists b'; exact H|right; exact H].
Qed.
Lemma shp_rt_upd_rec g r F x : shp FRt (upd_rec g r F) x -> shp FRt g x \/ r_head (F (grec g r)) = Some x.
Proof.
  intros [(r' & H)|(b' & H)]; [|left; right; exists b'; exact H].
  unfold grec, upd_rec in H. cbn [recs set_recs] in H.
  destruct (nth_upd_cases (recs g) r r' F dflt_rec) as [E|(-> & _ & E)]; rewrite E in H; [left; left; exists r'; exact H|right; exact H].
Qed.

Lemma flen_upd_gb f g b F : flen (upd_gb g b F) f = flen g f.
Proof. destruct f; cbn; unfold upd_gb; cbn; rewrite ?upd_nth_length; reflexivity. Qed.
Lemma flen_upd_rb f g b F : flen (upd_rb g b F) f = flen g f.
Proof. destruct f; cbn; unfold upd_rb; cbn; rewrite ?upd_nth_length; reflexivity. Qed.
Lemma flen_upd_rec f g r F : flen (upd_rec g r F) f = flen g f.
Proof. destruct f; reflexivity. Qed.

(** ** guard blocks *)
Section XHp.
  Notation dsafeH := (@dsafe Dhp.G ev AuxX XV viewX (InvX FHp)).

  Lemma new_gblock_x c g : xG FHp g (fst (new_gblock c g)) /\ snd (new_gblock c g) = flen g FHp /\ flen g FHp < flen (fst (new_gblock c g)) FHp.
  Proof. split; [apply xG_qS, qS_new_gblock|]. cbn. rewrite app_length. cbn. lia. Qed.

  Lemma xb_hp_alloc c t ks (Q : option nat -> XV -> Prop) :
    (forall b, Q (Some b) (mkXV None (b :: ks))) -> (forall l, Q None l) -> dsafeH t (hp_alloc c) (mkXV None ks) Q.
  Proof.
    intros HQ HN. unfold hp_alloc. apply dX_xquiet; [apply xq_fl_get|exact HN|intros o]. apply dsafeX_xbind.
    apply (x_alloc_match FHp t (new_gblock c) o ks); [apply new_gblock_x|intros b|exact HN].
    apply dX_xquiet; [apply xq_link_guards|exact HN|intros _].
    apply dX_xloc_q; [intros g; apply xG_qS, qS_snext_set|intros _].
    apply dX_xact_qa; [apply qa_st_slot|intros _]. apply HQ.
  Qed.

  Lemma xb_hp_free c b t ks (Q : option unit -> XV -> Prop) :
    In b ks -> Q (Some tt) (mkXV None ks) -> (forall l, Q None l) -> dsafeH t (hp_free c b) (mkXV None ks) Q.
  Proof. intros Hin HQ HN. unfold hp_free. apply x_free_put; auto. Qed.

  Lemma xb_hp_extend c r : xbusy FHp (hp_extend c r).
  Proof.
    intros t ks Q HQ HN. unfold hp_extend. apply dsafeX_xbind. apply xb_hp_alloc; [intros b|exact HN].
    apply dX_xact_read.
    { intros g. cbn. split; [reflexivity|]. split; [apply qI_acc|]. intros b0 E. left. exists r. exact E. }
    intros e. cbn [xf xk].
    apply dX_xloc_write.
    { intros g. cbn [fst]. rewrite flen_upd_gb. split; [lia|]. intros x Hx. apply shp_hp_upd_gb in Hx. destruct Hx as [Hx|Hx]; [now left|right].
      cbn in Hx. cbn [xk]. apply in_or_app. left. rewrite Hx. now left. }
    intros _. apply dX_xact_write.
    { intros g. cbn [a_st_ext_g fst snd]. rewrite flen_upd_rec. split; [lia|]. split.
      - apply qI_app; [apply qI_acc|]. apply qE_qI. apply qE_cons; [|apply qE_nil]. unfold clsf. rewrite classify_link. reflexivity.
      - intros x Hx. apply shp_hp_upd_rec in Hx. destruct Hx as [Hx|Hx]; [now left|right]. cbn in Hx. inversion Hx; subst x.
        cbn [xk]. apply in_or_app. right. now left. }
    intros _. unfold loc. apply dX_loc_q; [intros g; apply xG_qS, qS_upd_rec; kpx|intros x; apply HQ].
  Qed.

  Lemma xb_free_gblocks c t (Q : option unit -> XV -> Prop) : (forall ks', Q (Some tt) (mkXV None ks')) -> (forall l, Q None l) ->
    forall fuel p ks, (forall x, p = Some x -> In x ks) -> dsafeH t (free_gblocks c fuel p) (mkXV None ks) Q.
  Proof.
    intros HQ HN. induction fuel as [|fuel IH]; intros [b|] ks Hp; cbn [free_gblocks]; try apply HQ; [apply dX_fuel_out; exact HN|].
    apply dX_xloc_read.
    { intros g. cbn. split; [apply xG_refl|]. intros b0 E. right. exists b. exact E. }
    intros nx. cbn [xf xk]. apply dsafeX_xbind. apply xb_hp_free; [apply in_or_app; right; now apply Hp| |exact HN].
    apply IH. intros x ->. apply in_or_app. left. now left.
  Qed.

  Lemma xb_hp_clear c r det : qE FHp det -> xbusy FHp (hp_clear c r det).
  Proof.
    intros Hd t ks Q HQ HN. unfold hp_clear. apply dX_xquiet; [apply xq_clear_slots|exact HN|intros _].
    apply dX_xact_read.
    { intros g. cbn. split; [reflexivity|]. split; [apply qI_acc|]. intros b0 E. left. exists r. exact E. }
    intros p. cbn [xf xk]. apply dX_xemit_q; [now apply qE_qI|]. apply dsafeX_xbind. apply xb_free_gblocks; [intros ks'|exact HN|].
    - unfold act. apply dX_act_q; [intros g; destruct (qa_st_ext_none FHp r g) as [A B]; split; [now apply qG_xG|now apply qE_qI]|intros []; apply HQ].
    - intros x ->. apply in_or_app. left. now left.
  Qed.
End XHp.

(** ** retired blocks *)
Section XRt.
  Notation dsafeR := (@dsafe Dhp.G ev AuxX XV viewX (InvX FRt)).

  Lemma new_rblock_x c g : xG FRt g (fst (new_rblock c g)) /\ snd (new_rblock c g) = flen g FRt /\ flen g FRt < flen (fst (new_rblock c g)) FRt.
  Proof. split; [apply xG_qS, qS_new_rblock|]. cbn. rewrite app_length. cbn. lia. Qed.

  Lemma xG_rt_clear_next g b : xG FRt g (upd_rb g b (bs_next None)).
  Proof. apply xG_qS. apply qS_upd_rb. intros []; cbn. repeat split. now right. Qed.

  Lemma xb_rt_alloc c t ks (Q : option nat -> XV -> Prop) :
    (forall b, Q (Some b) (mkXV None (b :: ks))) -> (forall l, Q None l) -> dsafeR t (rt_alloc c) (mkXV None ks) Q.
  Proof.
    intros HQ HN. unfold rt_alloc. apply dX_xquiet; [apply xq_fl_get|exact HN|intros o]. apply dsafeX_xbind.
    apply (x_alloc_match FRt t (new_rblock c) o ks); [apply new_rblock_x|intros b|exact HN].
    apply dX_xloc_q; [intros g; apply xG_rt_clear_next|intros _]. apply HQ.
  Qed.

  Lemma xb_rt_free c b t ks (Q : option unit -> XV -> Prop) :
    In b ks -> Q (Some tt) (mkXV None ks) -> (forall l, Q None l) -> dsafeR t (rt_free c b) (mkXV None ks) Q.
  Proof.
    intros Hin HQ HN. unfold rt_free. apply dX_xloc_q; [intros g; apply xG_rt_clear_next|intros _]. apply x_free_put; auto.
  Qed.

  Lemma xb_rt_init c r : xbusy FRt (rt_init c r).
  Proof.
    intros t ks Q HQ HN. unfold rt_init. apply dX_xloc_q; [intros g; apply xG_refl|intros [hd|]]; [apply HQ|].
    apply dsafeX_xbind. apply xb_rt_alloc; [intros b|exact HN]. unfold loc. apply dX_loc_write; [|intros x; apply HQ].
    intros g. cbn [fst]. rewrite flen_upd_rec. split; [lia|]. intros x Hx. apply shp_rt_upd_rec in Hx.
    destruct Hx as [Hx|Hx]; [now left|right]. cbn in Hx. inversion Hx; subst x. now left.
  Qed.

  Lemma xb_free_rblocks c t (Q : option unit -> XV -> Prop) : (forall ks', Q (Some tt) (mkXV None ks')) -> (forall l, Q None l) ->
    forall fuel p ks, (forall x, p = Some x -> In x ks) -> dsafeR t (free_rblocks c fuel p) (mkXV None ks) Q.
  Proof.
    intros HQ HN. induction fuel as [|fuel IH]; intros [b|] ks Hp; cbn [free_rblocks]; try apply HQ; [apply dX_fuel_out; exact HN|].
    apply dX_xloc_read.
    { intros g. cbn. split; [apply xG_refl|]. intros b0 E. right. exists b. exact E. }
    intros nx. cbn [xf xk]. apply dsafeX_xbind. apply xb_rt_free; [apply in_or_app; right; now apply Hp| |exact HN].
    apply IH. intros x ->. apply in_or_app. left. now left.
  Qed.

  Lemma xb_rt_fini c r : xbusy FRt (rt_fini c r).
  Proof.
    intros t ks Q HQ HN. unfold rt_fini. apply dX_xloc_read.
    { intros g. cbn. split; [apply xG_refl|]. intros b0 E. left. exists r. exact E. }
    intros hd. cbn [xf xk]. apply dsafeX_xbind. apply xb_free_rblocks; [intros ks'|exact HN|].
    - unfold loc. apply dX_loc_q; [|intros x; apply HQ]. intros g. cbn [fst]. apply xG_qS. apply qS_upd_rec. intros []; cbn. split; [apply keepo_refl|now right].
    - intros x ->. apply in_or_app. left. now left.
  Qed.

  Lemma shp_rt_do_extend c r b g x : shp FRt (fst (rt_do_extend c r b g)) x -> shp FRt g x \/ x = b.
  Proof.
    unfold rt_do_extend. set (g1 := match r_tail (grec g r) with Some tl => upd_rb g tl (bs_next (Some b)) | None => g end).
    assert (H1 : shp FRt g1 x -> shp FRt g x \/ x = b).
    { unfold g1. destruct (r_tail (grec g r)) as [tl|]; [|now left]. intros Hx. apply shp_rt_upd_rb in Hx. destruct Hx as [Hx|Hx]; [now left|right].
      cbn in Hx. now inversion Hx. }
    assert (H2 : forall cb cc tl bc, shp FRt (upd_rec g1 r (rs_ret cb cc (r_head (grec g r)) tl bc)) x -> shp FRt g x \/ x = b).
    { intros cb cc tl bc Hx. apply shp_rt_upd_rec in Hx. destruct Hx as [Hx|Hx]; [now apply H1|]. cbn in Hx. left. left. exists r. exact Hx. }
    cbv zeta. fold g1. destruct (c_old c || _); cbn [fst]; apply H2.
  Qed.
  Lemma flen_rt_do_extend c r b g : flen (fst (rt_do_extend c r b g)) FRt = flen g FRt.
  Proof.
    unfold rt_do_extend. destruct (c_old c || _); cbn [fst]; rewrite flen_upd_rec; destruct (r_tail (grec g r)); try rewrite flen_upd_rb; reflexivity.
  Qed.

  Lemma xb_rt_extend c r : xbusy FRt (rt_extend c r).
  Proof.
    intros t ks Q HQ HN. unfold rt_extend. apply dsafeX_xbind. apply xb_rt_alloc; [intros b|exact HN].
    unfold loc. apply dX_loc_write; [|intros x; apply HQ].
    intros g. rewrite flen_rt_do_extend. split; [lia|]. intros x Hx. apply shp_rt_do_extend in Hx. destruct Hx as [Hx| ->]; [now left|right; now left].
  Qed.

  Lemma xG_trunc c r g : xG FRt g (fst (trunc_f c r g)).
  Proof. apply qG_xG. apply qS_qG.
    unfold trunc_f. destruct (r_cb (grec g r)) as [cb|]; [|apply qS_refl]. cbv zeta. destruct (rb_next (grb g cb)); cbn [fst]; [|apply qS_refl].
    assert (H1 : qS g (upd_rb g cb (bs_next None))) by (apply qS_upd_rb; intros []; cbn; repeat split; now right).
    destruct (c_oldtail c); [exact H1|]. eapply qS_trans; [exact H1|]. apply qS_upd_rec. kpx.
  Qed.
  Lemma trunc_read c r g b : snd (trunc_f c r g) = Some b -> shp FRt g b.
  Proof.
    unfold trunc_f. destruct (r_cb (grec g r)) as [cb|]; [|discriminate]. cbn [snd]. intros E. right. exists cb. exact E.
  Qed.

  Lemma xb_trunc_go c r t (Q : option unit -> XV -> Prop) : (forall ks', Q (Some tt) (mkXV None ks')) -> (forall l, Q None l) ->
    forall fuel p ks, (forall x, p = Some x -> In x ks) -> dsafeR t (trunc_go c r fuel p) (mkXV None ks) Q.
  Proof.
    intros HQ HN. induction fuel as [|fuel IH]; intros [b|] ks Hp; cbn [trunc_go]; try apply HQ; [apply dX_fuel_out; exact HN|].
    apply dX_xloc_read.
    { intros g. cbn. split; [apply xG_refl|]. intros b0 E. right. exists b. exact E. }
    intros nx. cbn [xf xk]. apply dsafeX_xbind. apply xb_rt_free; [apply in_or_app; right; now apply Hp| |exact HN].
    apply dX_xloc_q; [intros g; apply xG_qS, qS_upd_rec; kpx|intros _].
    apply IH. intros x ->. apply in_or_app. left. now left.
  Qed.

  Lemma xb_trunc_block c r : xbusy FRt (trunc_block c r).
  Proof.
    intros t ks Q HQ HN. unfold trunc_block. apply dX_xloc_read.
    { intros g. split; [apply xG_trunc|apply trunc_read]. }
    intros fb. cbn [xf xk]. apply xb_trunc_go; auto. intros x ->. apply in_or_app. left. now left.
  Qed.
End XRt.

(** ** every certified program, every thread *)
Theorem xbusy_all f Y (p : P Y) : PC f p -> xbusy f p.
Proof.
  apply xbusy_PC. clear Y p. intros Y p H. destruct H as [c r E|c r det E Hd|c r E|c r E|c r E|c r E]; subst f.
  - apply xb_hp_extend. - now apply xb_hp_clear. - apply xb_rt_init. - apply xb_rt_fini. - apply xb_rt_extend. - apply xb_trunc_block.
Qed.

Theorem dsafeX_thread f c t os : @dsafe Dhp.G ev AuxX XV viewX (InvX f) unit t (thread_src c t os) xv0 (fun _ _ => True).
Proof.
  unfold thread_src. apply dX_act_q; [intros g; destruct (qa_begin f g) as [A B]; split; [now apply qG_xG|now apply qE_qI]|intros _].
  unfold to_unit. apply dsafe_bind. apply (xbusy_all f _ _ (pc_run_ops f c t os (mkL None []))); intros; exact I.
Qed.
