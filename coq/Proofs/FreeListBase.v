(** * Generic lemmas for the free-list proofs: function update, counting threads, the encoding of
      m_freeListRefs (flag bit + 31-bit count, arithmetic modulo 2^32), null-terminated chains, the
      ownership-map monitor over traces and the open-operation counter. *)
From Coq Require Import ZArith List String Bool Lia PeanoNat.
From LV Require Import Base.Conc Base.Events Model.FreeList.
Import ListNotations.
Local Open Scope Z_scope.
Local Open Scope string_scope.

(** ** function update *)
Definition upd {A} (f : nat -> A) (x : nat) (v : A) : nat -> A := fun y => if Nat.eqb y x then v else f y.
Lemma upd_same {A} (f : nat -> A) x v : upd f x v x = v.
Proof. unfold upd. now rewrite Nat.eqb_refl. Qed.
Lemma upd_other {A} (f : nat -> A) x v y : y <> x -> upd f x v y = f y.
Proof. unfold upd. intros H. destruct (Nat.eqb_spec y x); congruence. Qed.

(** ** counting the threads below [N] that satisfy a boolean predicate *)
Fixpoint count (N : nat) (f : nat -> bool) : nat :=
  match N with O => O | S k => ((if f k then 1 else 0) + count k f)%nat end.

Definition b2n (b : bool) : nat := if b then 1%nat else 0%nat.

Lemma count_ext N f g : (forall t, (t < N)%nat -> f t = g t) -> count N f = count N g.
Proof.
  induction N as [|k IH]; intros H; cbn; [reflexivity|].
  rewrite (H k) by lia. rewrite IH; [reflexivity|]. intros t Ht. apply H. lia.
Qed.

Lemma count_le N f : (count N f <= N)%nat.
Proof. induction N as [|k IH]; cbn; [lia|]. destruct (f k); lia. Qed.

Lemma count_upd N f f' t0 :
  (t0 < N)%nat -> (forall t, t <> t0 -> f' t = f t) ->
  (count N f' + b2n (f t0) = count N f + b2n (f' t0))%nat.
Proof.
  induction N as [|k IH]; intros Ht H; [lia|]. cbn [count].
  destruct (Nat.eq_dec k t0) as [->|Hne].
  - rewrite (count_ext t0 f' f) by (intros t Hlt; apply H; lia).
    unfold b2n. destruct (f t0), (f' t0); lia.
  - rewrite (H k Hne). assert (t0 < k)%nat by lia. specialize (IH H0 H). lia.
Qed.

Lemma count_zero N f : count N f = O -> forall t, (t < N)%nat -> f t = false.
Proof.
  induction N as [|k IH]; intros H t Ht; [lia|]. cbn in H.
  destruct (f k) eqn:Hk; [lia|]. destruct (Nat.eq_dec t k) as [->|Hne]; [exact Hk|].
  apply IH; [lia|lia].
Qed.

Lemma count_pos N f t : (t < N)%nat -> f t = true -> (1 <= count N f)%nat.
Proof.
  intros Ht Hf. destruct (count N f) eqn:E; [|lia].
  rewrite (count_zero _ _ E t Ht) in Hf. discriminate.
Qed.

Lemma count_all_false N f : (forall t, (t < N)%nat -> f t = false) -> count N f = O.
Proof.
  induction N as [|k IH]; intros H; cbn; [reflexivity|]. rewrite (H k) by lia. apply IH. intros; apply H; lia.
Qed.

(** ** the reference word: flag bit + count *)
Definition enc (f : bool) (c : Z) : Z := (if f then FLAG else 0) + c.

Ltac enc_tac := unfold enc, u32, FLAG in *; repeat match goal with |- context [if ?b then _ else _] => destruct b end;
                rewrite ?Z.mod_small by lia; try lia.

Lemma enc_mod f c : 0 <= c < FLAG -> enc f c mod FLAG = c.
Proof.
  intros H. unfold enc. destruct f.
  - replace (FLAG + c) with (c + 1 * FLAG) by lia. rewrite Z.mod_add by (unfold FLAG; lia). apply Z.mod_small; exact H.
  - apply Z.mod_small. lia.
Qed.
Lemma u32_enc_add1 f c : 0 <= c -> c + 1 < FLAG -> u32 (enc f c + 1) = enc f (c + 1).
Proof. intros. enc_tac. Qed.
Lemma u32_enc_sub1 f c : 1 <= c < FLAG -> u32 (enc f c - 1) = enc f (c - 1).
Proof. intros. enc_tac. Qed.
Lemma u32_enc_sub2 c : 2 <= c < FLAG -> u32 (enc false c - 2) = enc false (c - 2).
Proof. intros. enc_tac. Qed.
Lemma u32_enc_flag c : 0 <= c < FLAG -> u32 (enc false c + FLAG) = enc true c.
Proof. intros. enc_tac. Qed.
Lemma u32_enc_flagm1 c : 1 <= c < FLAG -> u32 (enc false c + (FLAG - 1)) = enc true (c - 1).
Proof. intros. enc_tac. Qed.
Lemma enc_eq_0 f c : 0 <= c < FLAG -> (enc f c = 0 <-> f = false /\ c = 0).
Proof. intros H. unfold enc, FLAG in *. destruct f; split; intros; try lia; destruct H0; try discriminate; lia. Qed.
Lemma enc_eq_1 f c : 0 <= c < FLAG -> (enc f c = 1 <-> f = false /\ c = 1).
Proof. intros H. unfold enc, FLAG in *. destruct f; split; intros; try lia; destruct H0; try discriminate; lia. Qed.
Lemma enc_eq_flag1 f c : 0 <= c < FLAG -> (enc f c = FLAG + 1 <-> f = true /\ c = 1).
Proof. intros H. unfold enc, FLAG in *. destruct f; split; intros; try lia; destruct H0; try discriminate; lia. Qed.

(** ** null-terminated chains through a [next] function *)
Fixpoint chain (nx : nat -> nat) (h : nat) (l : list nat) : Prop :=
  match l with
  | [] => h = O
  | n :: r => h = n /\ n <> O /\ chain nx (nx n) r
  end.

Lemma chain_ext nx nx' h l : (forall n, In n l -> nx' n = nx n) -> chain nx h l -> chain nx' h l.
Proof.
  revert h; induction l as [|n r IH]; intros h H Hc; cbn in *; [exact Hc|].
  destruct Hc as (-> & Hn & Hc). repeat split; auto. rewrite H by auto. apply IH; auto.
Qed.

Lemma chain_upd_notin nx h l n v : ~ In n l -> chain nx h l -> chain (upd nx n v) h l.
Proof.
  intros Hn. apply chain_ext. intros m Hm. apply upd_other. intros ->. contradiction.
Qed.

(** ** the ownership-map monitor (the same one harness/C21/main.cpp runs on the real code):
       [ret_get n] by t: n must have no owner, t becomes the owner; [inv_put n] by t: t must be the owner,
       n gets no owner.  [None] = the monitor has fired. *)
Definition omap := nat -> option nat.

Definition mon_ev (own : omap) (t : nat) (e : ev) : option omap :=
  match e with
  | EvCli name [z] =>
      if String.eqb name "ret_get" then
        (if Z.ltb z 0 then Some own
         else match own (Z.to_nat z) with Some _ => None | None => Some (upd own (Z.to_nat z) (Some t)) end)
      else if String.eqb name "inv_put" then
        match own (Z.to_nat z) with
        | Some t' => if Nat.eqb t t' then Some (upd own (Z.to_nat z) None) else None
        | None => None
        end
      else Some own
  | _ => Some own
  end.

Definition mon_step (o : option omap) (e : nat * ev) : option omap :=
  match o with None => None | Some own => mon_ev own (fst e) (snd e) end.

Definition mon_run (own0 : omap) (tr : list (nat * ev)) : option omap := fold_left mon_step tr (Some own0).

Lemma mon_run_app own0 tr tr' : mon_run own0 (tr ++ tr') = fold_left mon_step tr' (mon_run own0 tr).
Proof. unfold mon_run. apply fold_left_app. Qed.

(** ** open operations of thread [t] in a trace: #inv_get + #inv_put - #ret_get - #ret_put *)
Definition ev_open (e : ev) : Z :=
  match e with
  | EvCli name _ =>
      if (String.eqb name "inv_get" || String.eqb name "inv_put")%bool then 1
      else if (String.eqb name "ret_get" || String.eqb name "ret_put")%bool then -1 else 0
  | _ => 0
  end.

Fixpoint opens (t : nat) (tr : list (nat * ev)) : Z :=
  match tr with
  | [] => 0
  | (t', e) :: r => (if Nat.eqb t' t then ev_open e else 0) + opens t r
  end.

Lemma opens_app t tr tr' : opens t (tr ++ tr') = opens t tr + opens t tr'.
Proof. induction tr as [|[t' e] r IH]; cbn [opens app]; lia. Qed.

(** a configuration is quiescent when no thread is inside an operation *)
Definition quiescent (tr : list (nat * ev)) : Prop := forall t, opens t tr = 0.

(** ** removing the k-th element *)
Lemma remove_nth_In {A} (l : list A) : forall k x, In x (remove_nth k l) -> In x l.
Proof.
  induction l as [|y r IH]; intros [|k] x H; cbn in *; auto. destruct H as [H|H]; auto. right. eapply IH; eauto.
Qed.

Lemma remove_nth_spec {A} (l : list A) : forall k n, nth_error l k = Some n -> NoDup l ->
  NoDup (remove_nth k l) /\ ~ In n (remove_nth k l) /\ (forall x, x <> n -> (In x (remove_nth k l) <-> In x l)).
Proof.
  induction l as [|y r IH]; intros [|k] n H Hnd; cbn in *; try discriminate.
  - inversion H; subst. inversion Hnd; subst. split; [assumption|]. split; [assumption|].
    intros x Hx. split; [intros Hi; right; exact Hi|intros [Hi|Hi]; [congruence|exact Hi]].
  - inversion Hnd; subst. destruct (IH k n H H3) as (A1 & A2 & A3). split; [|split].
    + constructor; auto. intros Hy. apply H2. eapply remove_nth_In; eauto.
    + intros [Hy|Hy]; [|contradiction]. subst. apply H2. eapply nth_error_In; eauto.
    + intros x Hx. split; (intros [Hi|Hi]; [left; exact Hi|right; apply (A3 x Hx); exact Hi]).
Qed.

Lemma NoDup_snoc {A} (l : list A) x : NoDup l -> ~ In x l -> NoDup (l ++ [x]).
Proof.
  induction l as [|y r IH]; intros Hnd Hx; cbn.
  - constructor; [intros []|constructor].
  - inversion Hnd; subst. constructor.
    + rewrite in_app_iff. cbn. intros [H|[H|[]]]; [contradiction|]. apply Hx. left. symmetry; exact H.
    + apply IH; auto. intros H. apply Hx. right. exact H.
Qed.

Lemma NoDup_app_r {A} (l l' : list A) : NoDup (l ++ l') -> NoDup l'.
Proof. induction l as [|x l IH]; cbn; intros H; [exact H|]. inversion H; subst. auto. Qed.

Lemma NoDup_app_l {A} (l l' : list A) : NoDup (l ++ l') -> NoDup l.
Proof.
  induction l as [|x l IH]; cbn; intros H; [constructor|]. inversion H; subst. constructor; auto.
  intros Hx. apply H2. apply in_or_app. left; exact Hx.
Qed.

Lemma NoDup_app_disj {A} (l l' : list A) x : NoDup (l ++ l') -> In x l -> In x l' -> False.
Proof.
  induction l as [|y l IH]; cbn; intros H H1 H2; [contradiction|]. inversion H; subst.
  destruct H1 as [->|H1]; [apply H4; apply in_or_app; right; exact H2|eauto].
Qed.

Lemma count_pos_ex N f : (1 <= count N f)%nat -> exists t, (t < N)%nat /\ f t = true.
Proof.
  induction N as [|k IH]; cbn; intros H; [lia|]. destruct (f k) eqn:E.
  - exists k. split; [lia|exact E].
  - destruct (IH H) as (t & Ht & Hf). exists t. split; [lia|exact Hf].
Qed.
