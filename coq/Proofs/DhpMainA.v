(** * DhpMainA: alloc_thread_data, every client operation, whole threads; the initial configuration. *)
From Coq Require Import ZArith NArith List String Bool Lia PeanoNat.
From LV Require Import Base.Conc Base.Events Model.DhpLang Model.Dhp Proofs.DhpBase Proofs.DhpHist
  Proofs.DhpLangProofs Proofs.DhpInvA Proofs.DhpStepsA Proofs.DhpQuietA Proofs.DhpSlotA Proofs.DhpScanA Proofs.DhpScanC
  Proofs.DhpScanD Proofs.DhpScanE Proofs.DhpPresA Proofs.DhpAllocA Proofs.DhpAllocB Proofs.DhpViewA Proofs.DhpRulesA
  Proofs.DhpExtendA Proofs.DhpExtendB Proofs.DhpDetB Proofs.DhpDetC Proofs.DhpAttA Proofs.DhpAttB Proofs.DhpAttC Proofs.DhpAttD
  Proofs.DhpAttE Proofs.DhpAttF Proofs.DhpHelpA Proofs.DhpDetachA Proofs.DhpAttachA.
Import ListNotations.

Section MainA.
  Variable c : cfg.
  Notation dsafeA := (@dsafe G ev AuxA VA viewA (InvA c)).

  Lemma piA_stext_none g r : r_ext (grec g r) = None -> quietG g (upd_rec g r (rs_ext None)).
  Proof.
    intros He. split.
    - unfold piA. split; [reflexivity|]. split; [unfold upd_rec; cbn; apply upd_nth_length|]. split; [reflexivity|].
      split; [|intros b; split; reflexivity].
      intros r'. rewrite grec_upd_rec_any. destruct (Nat.eqb r' r && Nat.ltb r (List.length (recs g))) eqn:E; [|repeat split; reflexivity].
      apply andb_true_iff in E. destruct E as (E&_). apply Nat.eqb_eq in E. subst r'. cbn. repeat split; auto.
    - intros [r' i|b i]; cbn; [|reflexivity]. rewrite grec_upd_rec_any.
      destruct (Nat.eqb r' r && Nat.ltb r (List.length (recs g))) eqn:E; auto.
      apply andb_true_iff in E. destruct E as (E&_). apply Nat.eqb_eq in E. subst r'. reflexivity.
  Qed.

  Lemma quietG_hp_init g r : quietG g (fst (hp_init c r g)).
  Proof. unfold hp_init. cbn. apply quietG_upd_rec. intros []; auto. Qed.

  (** smr::alloc_thread_data *)
  Lemma spec_alloc_thread_data t nd0 :
    dsafeA t (alloc_thread_data c (S t)) (idle_view nd0)
      (fun o l' => match o with Some r => exists nd, l' = hold_view r nd | None => True end).
  Proof.
    unfold alloc_thread_data.
    unfold xbind at 1. unfold act at 1. cbn [dbind].
    apply (dsafe_load_en c t a_ld_tlist _ (idle_view nd0) (fun _ => None) (fun g => tlist g)).
    - intros g. cbn. split; auto. repeat constructor.
    - intros g a h Hv J. split; [intros e0 fl E; discriminate|].
      intros n0 E. apply after_head; auto. destruct (ja_list _ _ _ _ J) as (L & HL & _). eauto.
    - intros g. cbn [a_ld_tlist fst snd].
      apply dsafe_xbind. eapply dsafe_weaken; [|apply (spec_reuse_recs c t (c_spin c) (tlist g) (tlist g) eq_refl)].
      intros [o|] l1 K; [|exact I].
      apply dsafe_xbind.
      assert (Hx : dsafeA t (match o with
                             | Some r => ret r
                             | None => r <- loc (new_rec c) ;; act (a_st_ext r None) ;;; act (a_st_tid r (S t)) ;;;
                                       old <- act a_ld_tlist ;; push_rec (c_spin c) r old ;;; ret r
                             end) l1 (fun o' l' => match o' with Some r => exists nd, l' = hold_view r nd | None => True end)).
      { destruct o as [r|].
        - subst l1. cbn. exists None. reflexivity.
        - destruct K as (nd & ->).
          unfold xbind at 1. unfold loc at 1. cbn [dbind].
          apply dsafe_loc_J. intros g1 a1 tr1 Hv1.
          exists (upd_aux a1 t (with_unpub_hold (idle_view nd) (Some (List.length (recs g1), (false, None))) None) (bown a1)).
          split; [apply frame_upd_aux|]. split; [intros _ J; eapply (JA_newrec c g1 a1 _ t (idle_view nd)); eauto|].
          unfold viewA. rewrite upd_aux_same. cbn [new_rec snd]. set (r := List.length (recs g1)).
          set (l2 := with_unpub_hold (idle_view nd) (Some (r, (false, None))) None).
          unfold xbind at 1. unfold act at 1. cbn [dbind].
          apply dsafe_act_J; [intros g2; apply nodisp_acc|]. intros g2 a2 tr2 Hv2.
          exists a2. split; [apply frame_refl|]. split.
          + intros _ J. cbn [a_st_ext fst snd Conc.tag map acc]. rewrite hist_snoc, hstep_acc.
            assert (Hx : r_ext (grec g2 r) = None).
            { unfold viewA in Hv2. destruct (ja_unpub _ _ _ _ J t r (false, None)) as (_&_&_&X&_); [rewrite Hv2; reflexivity|exact X]. }
            destruct (piA_stext_none g2 r Hx) as (P1 & P2).
            eapply JA_quiet; [exact P1| | | | |exact J]; [unfold hA; cbn; repeat split; auto|reflexivity|reflexivity|].
            intros s. rewrite P2. apply (ja_slot _ _ _ _ J).
          + rewrite Hv2. cbn [a_st_ext fst snd].
            unfold xbind at 1. unfold act at 1. cbn [dbind].
            apply dsafe_act_J; [intros g3; apply nodisp_acc|]. intros g3 a3 tr3 Hv3.
            exists (upd_aux a3 t (with_unpub_hold l2 (Some (r, (true, None))) (va_hold l2)) (bown a3)).
            split; [apply frame_upd_aux|]. split.
            * intros _ J. cbn [a_st_tid fst snd Conc.tag map acc]. rewrite hist_snoc, hstep_acc.
              eapply (JA_unpub_tid c g3 a3 (hist tr3) t l2 r None); eauto.
            * unfold viewA. rewrite upd_aux_same. cbn [a_st_tid fst snd]. set (l3 := with_unpub_hold l2 (Some (r, (true, None))) (va_hold l2)).
              unfold xbind at 1. unfold act at 1. cbn [dbind].
              apply dsafe_act_quiet; [apply q_ld_tlist|]. intros old.
              apply dsafe_xbind. eapply dsafe_weaken; [|apply (spec_push_rec c t r (c_spin c) old l3 None); reflexivity].
              intros [x|] l4 K4; [|exact I]. subst l4. cbn. exists nd. reflexivity. }
      eapply dsafe_weaken; [|exact Hx]. intros [r|] l2 K2; [|exact I]. destruct K2 as (nd & ->).
      unfold xbind at 1. unfold loc at 1. cbn [dbind].
      apply dsafe_loc_quiet'; [intros g1; apply quietG_hp_init|]. intros g1.
      apply dsafe_neut_seq; [apply quietP_neutP, q_rt_init|exact I|intros _]. cbn. exists nd. reflexivity.
  Qed.
End MainA.
