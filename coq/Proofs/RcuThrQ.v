(** * general_threaded: the two invariant components that carry the grace-period argument across the hand-off to the
      reclamation thread and through Destruct.
      [InvQ]  join / quit: the clients that are "done" have no open read-side section (a fact about the trace), join
              has counted them, m_bQuit is raised only after join.
      [InvM]  the mailbox: the task posted by a caller of synchronize carries, as ghost data, the start marker i of the
              caller's completed grace period: every section opened before i is closed ([closed], a property of the
              trace) and every entry of an epoch <= the posted epoch was retired before i. *)
From Coq Require Import ZArith List String Bool Lia PeanoNat.
From LV Require Import Base.Conc Base.Events Model.RcuGp Model.RcuBuf Model.RcuThreaded Proofs.RcuBits Proofs.RcuGpInv
  Proofs.RcuGpSteps Proofs.RcuGpWriter Proofs.RcuGpExtra Proofs.RcuBufEpoch Proofs.RcuThrInv Proofs.RcuThrGrace.
Import ListNotations.
Local Open Scope string_scope.
Local Open Scope list_scope.
Local Open Scope Z_scope.

(** ** gp side: a thread that is not a lock holder adopts a grace period that is known to be over *)
Lemma step_fin g g' a tr t i k o ok :
  g_list g' = g_list g -> g_nrec g' = g_nrec g -> g_tid g' = g_tid g -> g_acc g' = g_acc g ->
  g_lock g' = g_lock g -> g_ctl g' = g_ctl g ->
  Inv g a tr -> closed tr i -> (i <= List.length tr)%nat -> ~ holder (l_w (a t)) ->
  Inv g' (updA a t (set_w (a t) (WFin i))) (tr ++ [(t, EvAcc k o ok)]).
Proof.
  intros E1 E2 E3 E4 E5 E6 (I1 & I2 & I3 & I4) Hc Hi Hn. inv_split.
  - eapply InvRec_ext; [| | | | |exact I1]; auto. same_fields t.
  - eapply InvLock_ext with (g := g) (a := updA a t (set_w (a t) (WFin i))); auto.
    apply InvLock_nonholder; [exact I2|exact Hn|intros []].
  - rewrite app_len1. apply InvW_writer with (n := List.length tr); [lia|exact I3| |].
    + cbn. intros r (s & Hs & Hl). destruct (T1 _ _ I4 r s Hs) as (A & B). destruct (Hc r s A Hl) as (b & Hb & Hrb). apply (B b Hb Hrb).
    + cbn. intros i0 E; inversion E; lia.
  - eapply Inv_trace_part; [|exact I4]. same_fields t.
Qed.

(** ** join / quit *)
Record AuxQ := mkQ { q_d : nat -> bool; q_i : nat -> bool; q_j : nat -> bool }.
Definition LQ := (bool * bool * bool)%type.
Definition viewQ (a : AuxQ) (t : nat) : LQ := (q_d a t, q_i a t, q_j a t).
Definition alld (N : nat) (a : AuxQ) : Prop := forall t, (t < N)%nat -> q_d a t = true.

Record InvQ (N : nat) (g : G) (a : AuxQ) (tr : trace) : Prop := {
  QJ : g_ndone g = List.length (filter (q_i a) (seq 0 N)) /\ forall t, q_i a t = true -> q_d a t = true;
  QQ : g_quit g = true -> alld N a;
  QM : forall t, q_j a t = true -> alld N a;
  QD1 : forall t, q_d a t = true -> forall s, at_ tr s t is_rlock1 -> exists b, (s < b)%nat /\ at_ tr b t is_runlock0;
  QD2 : forall t s, at_ tr s t is_rlock1 -> (t < N)%nat
}.

Lemma all_closed N g a tr i : InvQ N g a tr -> alld N a -> closed tr i.
Proof. intros HQ Hall r s Hat _. apply (QD1 _ _ _ _ HQ r); [apply Hall; eapply QD2; eauto|exact Hat]. Qed.

(** an event of thread [t]; a "rlock 1" only by a client that is not done *)
Lemma InvQ_ev N g g' a tr t e :
  g_quit g' = g_quit g -> g_ndone g' = g_ndone g ->
  (is_rlock1 e = true -> q_d a t = false /\ (t < N)%nat) ->
  InvQ N g a tr -> InvQ N g' a (tr ++ [(t, e)]).
Proof.
  intros Eq En Hr [HJ HQ HM H1 H2]. constructor.
  - rewrite En. exact HJ.
  - rewrite Eq. exact HQ.
  - exact HM.
  - intros t0 Hd s Hat. destruct (at_snoc_inv _ _ _ _ _ _ Hat) as [Hat'|(_ & -> & X)].
    + destruct (H1 t0 Hd s Hat') as (b & Hb & Hrb). exists b. split; [exact Hb|apply at_app_l; exact Hrb].
    + destruct (Hr X) as (Y & _). congruence.
  - intros t0 s Hat. destruct (at_snoc_inv _ _ _ _ _ _ Hat) as [Hat'|(_ & -> & X)]; [eapply H2; eauto|apply (Hr X)].
Qed.

Lemma InvQ_acc N g g' a tr t k o ok :
  g_quit g' = g_quit g -> g_ndone g' = g_ndone g -> InvQ N g a tr -> InvQ N g' a (tr ++ [(t, EvAcc k o ok)]).
Proof. intros Eq En. apply InvQ_ev; auto. discriminate. Qed.

Definition q_with_d (a : AuxQ) (t : nat) : AuxQ := mkQ (fun x => if Nat.eqb x t then true else q_d a x) (q_i a) (q_j a).
Definition q_with_i (a : AuxQ) (t : nat) : AuxQ := mkQ (q_d a) (fun x => if Nat.eqb x t then true else q_i a x) (q_j a).
Definition q_with_j (a : AuxQ) (t : nat) : AuxQ := mkQ (q_d a) (q_i a) (fun x => if Nat.eqb x t then true else q_j a x).

Lemma alld_with_d N a t : alld N a -> alld N (q_with_d a t).
Proof. intros H t0 Ht0. cbn. destruct (Nat.eqb t0 t); auto. Qed.

(** "done" of a client all of whose sections are closed *)
Lemma InvQ_done N g a tr t e :
  is_rlock1 e = false ->
  (forall s, at_ tr s t is_rlock1 -> exists b, (s < b)%nat /\ at_ tr b t is_runlock0) ->
  InvQ N g a tr -> InvQ N g (q_with_d a t) (tr ++ [(t, e)]).
Proof.
  intros Hne Hcl [HJ HQ HM H1 H2]. constructor; cbn [q_with_d q_d q_i q_j].
  - destruct HJ as (J1 & J2). split; [exact J1|]. intros t0 Hi. destruct (Nat.eqb t0 t); [reflexivity|apply J2; exact Hi].
  - intros X. apply alld_with_d. apply HQ; exact X.
  - intros t0 X. apply alld_with_d. eapply HM; eauto.
  - intros t0 Hd s Hat. destruct (at_snoc_inv _ _ _ _ _ _ Hat) as [Hat'|(_ & _ & X)]; [|congruence].
    destruct (Nat.eq_dec t0 t) as [E|Ne].
    + subst t0. destruct (Hcl s Hat') as (b & Hb & Hrb). exists b. split; [exact Hb|apply at_app_l; exact Hrb].
    + assert (Hd' : q_d a t0 = true) by (destruct (Nat.eqb_spec t0 t); [contradiction|exact Hd]).
      destruct (H1 t0 Hd' s Hat') as (b & Hb & Hrb). exists b. split; [exact Hb|apply at_app_l; exact Hrb].
  - intros t0 s Hat. destruct (at_snoc_inv _ _ _ _ _ _ Hat) as [Hat'|(_ & _ & X)]; [eapply H2; eauto|congruence].
Qed.

Lemma InvQ_inc N g a tr t k o ok :
  (t < N)%nat -> q_d a t = true -> q_i a t = false -> InvQ N g a tr ->
  InvQ N (set_ndone g (S (g_ndone g))) (q_with_i a t) (tr ++ [(t, EvAcc k o ok)]).
Proof.
  intros Ht Hd Hi HI. pose proof (InvQ_acc N g g a tr t k o ok eq_refl eq_refl HI) as [HJ HQ HM H1 H2].
  constructor; cbn [q_with_i q_d q_i q_j set_ndone g_quit g_ndone]; auto.
  destruct HJ as (J1 & J2). split.
  - rewrite J1. symmetry. apply filter_seq_flip_gen; [exact Hi|lia].
  - intros t0. destruct (Nat.eqb_spec t0 t) as [->|Ne]; [intros _; exact Hd|apply J2].
Qed.

Lemma join_alld N g a tr : InvQ N g a tr -> g_ndone g = N -> alld N a.
Proof.
  intros HI Hn. destruct (QJ _ _ _ _ HI) as (J1 & J2). intros t0 Ht0. apply J2. apply (filter_seq_all (q_i a) N); [congruence|exact Ht0].
Qed.

Lemma InvQ_joined N g g' a tr t k o ok :
  g_quit g' = g_quit g -> g_ndone g' = g_ndone g ->
  alld N a -> InvQ N g a tr -> InvQ N g' (q_with_j a t) (tr ++ [(t, EvAcc k o ok)]).
Proof.
  intros Eq En Hall HI. pose proof (InvQ_acc N g g' a tr t k o ok Eq En HI) as [HJ HQ HM H1 H2].
  constructor; cbn [q_with_j q_d q_i q_j]; auto.
Qed.

Lemma InvQ_mail N g a tr t task ready quit k o ok :
  (quit = g_quit g \/ alld N a) -> InvQ N g a tr -> InvQ N (set_mail g task ready quit) a (tr ++ [(t, EvAcc k o ok)]).
Proof.
  intros Hq HI. pose proof (InvQ_acc N g g a tr t k o ok eq_refl eq_refl HI) as [HJ HQ HM H1 H2].
  constructor; cbn [set_mail g_quit g_ndone]; auto.
  intros E. destruct Hq as [Hq|Hq]; [apply HQ; congruence|exact Hq].
Qed.

(** ** epoch side: three more steps of the reclamation thread *)
(** front(): a ghost copy of the head entry goes into its hands *)
Lemma InvE_peek g a tr t p e r x :
  g_buf g = (p, e) :: r -> InvE g a tr ->
  exists k, In (p, e, k) (e_buf a) /\ InvE g (mkE (e_buf a) ((t, (p, Some e, k)) :: e_h a) (e_s a)) (tr ++ x).
Proof.
  intros Hb HE. pose proof HE as [H0 HB HH H2]. rewrite Hb in H0. destruct (e_buf a) as [|[[p0 e0] k] rest] eqn:Eb; [discriminate|].
  cbn in H0. injection H0 as E1 E2 E3. subst p0 e0. exists k. split; [left; reflexivity|].
  constructor; cbn [e_buf e_h e_s].
  - rewrite Hb. cbn. rewrite E3. reflexivity.
  - intros q e1 k1 Hq. eapply entry_ok_mono with (g := g) (a := a); [lia|intros; reflexivity|apply HB; exact Hq].
  - intros t0 q oe k1 [E|Hq].
    + inversion E; subst. eapply entry_ok_mono with (g := g) (a := a); [lia|intros; reflexivity|apply HB; left; reflexivity].
    + eapply entry_ok_mono with (g := g) (a := a); [lia|intros; reflexivity|eapply HH; eauto].
  - intros w i n Hw. destruct (H2 w i n Hw) as (A & B). rewrite app_length. split; [exact A|lia].
Qed.

(** pop_front() *)
Lemma InvE_popfront g a tr x :
  InvE g a tr -> InvE (set_buf g (tl (g_buf g))) (mkE (tl (e_buf a)) (e_h a) (e_s a)) (tr ++ x).
Proof.
  intros [H0 HB HH H2]. constructor; cbn [e_buf e_h e_s set_buf g_buf g_epoch].
  - rewrite <- H0. destruct (e_buf a); reflexivity.
  - intros q e1 k1 Hq. eapply entry_ok_mono with (g := g) (a := a); [cbn; lia|intros; reflexivity|apply HB; destruct (e_buf a); [destruct Hq|right; exact Hq]].
  - intros t0 q oe k1 Hq. eapply entry_ok_mono with (g := g) (a := a); [cbn; lia|intros; reflexivity|eapply HH; eauto].
  - intros w i n Hw. destruct (H2 w i n Hw) as (A & B). rewrite app_length. split; [exact A|lia].
Qed.

(** entries with a loaded epoch *)
Definition ent (a : AuxE) (p e : Z) (k : nat) : Prop := In (p, e, k) (e_buf a) \/ exists t, In (t, (p, Some e, k)) (e_h a).

(** the reclamation thread adopts the posted (epoch, marker) *)
Lemma InvE_adopt g g' a tr t i n x :
  g_buf g' = g_buf g -> g_epoch g' = g_epoch g ->
  n < g_epoch g -> (i <= List.length tr)%nat -> (forall p e k, ent a p e k -> e <= n -> (k < i)%nat) ->
  InvE g a tr -> InvE g' (mkE (e_buf a) (e_h a) (fun w => if Nat.eqb w t then EIn i n else e_s a w)) (tr ++ x).
Proof.
  intros Eb Ee Hn Hi Hent [H0 HB HH H2].
  assert (K : forall p oe k, entry_ok g a tr p oe k -> (forall e, oe = Some e -> ent a p e k) ->
              entry_ok g' (mkE (e_buf a) (e_h a) (fun w => if Nat.eqb w t then EIn i n else e_s a w)) (tr ++ x) p oe k).
  { intros p oe k ((w & Hat) & H) He. split; [exists w; apply at_app_l; exact Hat|].
    destruct oe as [e|]; [|exact I]. destruct H as (H1 & H3). rewrite Ee. split; [exact H1|]. cbn [e_s].
    intros w0 i0 n0. destruct (Nat.eqb w0 t).
    - intros E Hle; inversion E; subst. eapply Hent; eauto.
    - apply H3. }
  constructor; cbn [e_buf e_h e_s].
  - rewrite Eb. exact H0.
  - intros p e k Hin. apply K; [apply HB; exact Hin|]. intros e0 E; inversion E; subst. left; exact Hin.
  - intros t0 p oe k Hin. apply K; [eapply HH; eauto|]. intros e0 E; subst. right. exists t0. exact Hin.
  - intros w i0 n0. destruct (Nat.eqb w t).
    + intros E; inversion E; subst. rewrite Ee, app_length. split; [exact Hn|lia].
    + intros Hw. destruct (H2 w i0 n0 Hw) as (A & B). rewrite Ee, app_length. split; [exact A|lia].
Qed.

(** ** the mailbox *)
Definition Mail := option (Z * nat).

Record InvM (g : G) (a : AuxE) (m : Mail) (tr : trace) : Prop := {
  M0 : forall n, g_task g = Some n -> g_quit g = true \/ exists i, m = Some (n, i);
  M1 : forall n i, m = Some (n, i) ->
         n < g_epoch g /\ (i <= List.length tr)%nat /\ closed tr i /\ forall p e k, ent a p e k -> e <= n -> (k < i)%nat
}.

(** any step that keeps the mailbox fields; the entries with a loaded epoch are old ones or carry the current epoch *)
Lemma InvM_gen g g' a a' m tr x :
  g_task g' = g_task g -> g_quit g' = g_quit g -> g_epoch g <= g_epoch g' ->
  (forall p e k, ent a' p e k -> ent a p e k \/ g_epoch g <= e) ->
  InvM g a m tr -> InvM g' a' m (tr ++ x).
Proof.
  intros Et Eq Ee Hent [H0 H1]. constructor.
  - rewrite Et, Eq. exact H0.
  - intros n i Hm. destruct (H1 n i Hm) as (A & B & C & D). rewrite app_length. split; [lia|]. split; [lia|]. split; [apply closed_app; assumption|].
    intros p e k He Hle. destruct (Hent p e k He) as [X|X]; [eapply D; eauto|lia].
Qed.

Lemma InvM_keep g g' a m tr x :
  g_task g' = g_task g -> g_quit g' = g_quit g -> g_epoch g <= g_epoch g' -> InvM g a m tr -> InvM g' a m (tr ++ x).
Proof. intros. eapply InvM_gen; eauto. Qed.

(** post by a caller whose grace period [i] (epoch [n]) is over *)
Lemma InvM_post g a m tr n i ready x :
  n < g_epoch g -> (i <= List.length tr)%nat -> closed tr i -> (forall p e k, ent a p e k -> e <= n -> (k < i)%nat) ->
  InvM g a m tr -> InvM (set_mail g (Some n) ready (g_quit g)) a (Some (n, i)) (tr ++ x).
Proof.
  intros Hn Hi Hc Hent [H0 H1]. constructor; cbn [set_mail g_task g_quit g_epoch].
  - intros n0 E; inversion E; subst. right. exists i. reflexivity.
  - intros n0 i0 E; inversion E; subst. rewrite app_length. split; [exact Hn|]. split; [lia|]. split; [apply closed_app; assumption|exact Hent].
Qed.

(** the stop task of Destruct *)
Lemma InvM_stop g a m tr n ready x : InvM g a m tr -> InvM (set_mail g (Some n) ready true) a m (tr ++ x).
Proof.
  intros [H0 H1]. constructor; cbn [set_mail g_task g_quit g_epoch].
  - intros n0 _. left; reflexivity.
  - intros n0 i Hm. destruct (H1 n0 i Hm) as (A & B & C & D). rewrite app_length. split; [exact A|]. split; [lia|]. split; [apply closed_app; assumption|exact D].
Qed.

(** take *)
Lemma InvM_take g a m tr ready x : InvM g a m tr -> InvM (set_mail g None ready (g_quit g)) a m (tr ++ x).
Proof.
  intros [H0 H1]. constructor; cbn [set_mail g_task g_quit g_epoch].
  - discriminate.
  - intros n0 i Hm. destruct (H1 n0 i Hm) as (A & B & C & D). rewrite app_length. split; [exact A|]. split; [lia|]. split; [apply closed_app; assumption|exact D].
Qed.

(** facts about [ent] under the ghost updates of the epoch invariant *)
Lemma ent_snoc_none a t p k0 q e k : ent (mkE (e_buf a) (e_h a ++ [(t, (p, None, k0))]) (e_s a)) q e k -> ent a q e k.
Proof.
  intros [H|(t0 & H)]; [left; exact H|]. cbn in H. apply in_app_or in H. destruct H as [H|[E|[]]]; [right; exists t0; exact H|discriminate].
Qed.

Lemma ent_gset a t e0 q e k : ent (mkE (e_buf a) (gset t e0 (e_h a)) (e_s a)) q e k -> ent a q e k \/ e = e0.
Proof.
  intros [H|(t0 & H)]; [left; left; exact H|]. cbn in H. destruct (gset_in _ _ _ _ H) as ([t1 [[q1 oe1] k1]] & Hin & Ef & Es). cbn in Ef, Es. subst t1.
  destruct Es as [Es|(_ & Es)].
  - inversion Es; subst. left. right. exists t0. exact Hin.
  - destruct oe1 as [e1|]; cbn in Es; inversion Es; subst; [left; right; exists t0; exact Hin|right; reflexivity].
Qed.

Lemma ent_push a t p e0 k0 hs q e k :
  gmine t (e_h a) = (p, Some e0, k0) :: hs ->
  ent (mkE (e_buf a ++ [(p, e0, k0)]) (grmf t (e_h a)) (e_s a)) q e k -> ent a q e k.
Proof.
  intros Hm [H|(t0 & H)]; cbn in H.
  - apply in_app_or in H. destruct H as [H|[E|[]]]; [left; exact H|]. inversion E; subst. right. exists t. apply gmine_in. rewrite Hm. left; reflexivity.
  - right. exists t0. eapply grmf_incl; eauto.
Qed.

Lemma ent_drop a t q e k : ent (mkE (e_buf a) (grmf t (e_h a)) (e_s a)) q e k -> ent a q e k.
Proof. intros [H|(t0 & H)]; [left; exact H|right; exists t0; eapply grmf_incl; eauto]. Qed.

Lemma ent_peek a t p e0 k0 q e k :
  In (p, e0, k0) (e_buf a) -> ent (mkE (e_buf a) ((t, (p, Some e0, k0)) :: e_h a) (e_s a)) q e k -> ent a q e k.
Proof.
  intros Hin [H|(t1 & [E|H])]; [left; exact H| |right; exists t1; exact H]. inversion E; subst. left; exact Hin.
Qed.

Lemma ent_popfront a q e k : ent (mkE (tl (e_buf a)) (e_h a) (e_s a)) q e k -> ent a q e k.
Proof. intros [H|H]; [left; cbn in H; destruct (e_buf a); [destruct H|right; exact H]|right; exact H]. Qed.

Lemma ent_es a s q e k : ent (mkE (e_buf a) (e_h a) s) q e k -> ent a q e k.
Proof. intros H; exact H. Qed.
