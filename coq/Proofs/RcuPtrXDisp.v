(** * RcuPtr (C04, raw_ptr / exempt_ptr): a disposer never runs while the disposing thread is inside a read-side section.

    With general_instant the thread that calls release() / ~position runs batch_retire itself: "retire" events, ONE
    synchronize(), "dispose" events.  synchronize() scans every thread record, the caller's own included; if the caller
    is inside a read-side section (what the -DNDEBUG code does when release() is called inside the lock: the assert is
    compiled out, [strict = false] in LV.Model.RcuPtr) its own record can never pass the scan, so the grace period
    never ends: no "dispose" event, release() does not return.

    Proved here for EVERY schedule, every spin fuel, every client program, strict or not:
      [ptr_dispose_outside_all]        every "dispose" event is emitted by a thread that is outside every section;
      [ptr_release_inside_no_dispose]  after a "release" event emitted inside a section, the releasing thread emits no
                                       "dispose" event at all before the "runlock 0" event that closes that section;
      [release_inside_returns_false]   (program logic, relative to the invariant that holds in every reachable state)
                                       do_release of a non-empty batch started inside a section has only the
                                       out-of-fuel outcome, for every fuel.

    Technique: the invariant [PInv] of LV.Proofs.RcuPtrBase is extended by the trace clause [disp_outside]; programs
    that emit no "dispose" event keep their [psafe] proof ([xsafe_up]); at a "dispose" step the writer state
    [WFin i] of the core invariant says that NO reader (the writer included) is still inside a section older than [i],
    and the thread knows that its own section, if any, is older than its "retire" events. *)
From Coq Require Import ZArith List String Bool Lia PeanoNat.
From LV Require Import Base.Conc Base.Events Model.RcuGp Model.RcuPtr Proofs.RcuBits Proofs.RcuGpInv Proofs.RcuGpSteps
  Proofs.RcuGpWriter Proofs.RcuGpSafe Proofs.RcuPtrInv Proofs.RcuPtrBase Proofs.RcuPtrSafe.
Import ListNotations.
Local Open Scope string_scope.
Local Open Scope list_scope.
Local Open Scope Z_scope.

(** ** the new trace clause *)
Definition disp_outside (tr : trace) : Prop := forall d w p, at_ tr d w (is_dispose p) -> outside_at tr w d.

Definition XInv (g : PG) (a : PAux) (tr : trace) : Prop := PInv g a tr /\ disp_outside tr.

Notation xsafe := (@Conc.safe PG V ev PAux PL pview XInv).

Lemma xsafe_bind {A B} t (p : pprog A) (q : A -> pprog B) Q l :
  xsafe t p l (fun r l' => xsafe t (q r) l' Q) -> xsafe t (pbind p q) l Q.
Proof. apply Conc.safe_bind. Qed.

Lemma xsafe_weaken {R} t (p : pprog R) (Q Q' : R -> PL -> Prop) l :
  (forall r l', Q r l' -> Q' r l') -> xsafe t p l Q -> xsafe t p l Q'.
Proof. intros H. apply Conc.safe_weaken. exact H. Qed.

(** ** programs without "dispose" events *)
Definition nodisp (es : list ev) : Prop := forall e, In e es -> is_any_dispose e = false.

Fixpoint nd {GG R} (p : Conc.prog GG V ev R) : Prop :=
  match p with
  | Ret _ => True
  | Emit es k => nodisp es /\ nd k
  | Act f k => (forall g, nodisp (snd (f g))) /\ forall v, nd (k v)
  end.

Lemma nd_bind {GG A B} (p : Conc.prog GG V ev A) (q : A -> Conc.prog GG V ev B) :
  nd p -> (forall r, nd (q r)) -> nd (Conc.bind p q).
Proof.
  induction p as [r|es k IH|f k IH]; intros H Hq; cbn [Conc.bind nd] in *.
  - apply Hq.
  - destruct H as (H1 & H2). split; [exact H1|]. apply IH; assumption.
  - destruct H as (H1 & H2). split; [exact H1|]. intros v. apply IH; auto.
Qed.

Lemma nd_lift {R} (p : prog R) : nd p -> nd (lift p).
Proof.
  induction p as [r|es k IH|f k IH]; intros H; cbn [lift nd] in *; auto.
  - destruct H as (H1 & H2). split; [exact H1|]. apply IH; exact H2.
  - destruct H as (H1 & H2). split; [intros g; unfold lift_act; cbn [snd]; apply H1|]. intros v. apply IH. apply H2.
Qed.

Lemma nd_bquiet {R} (p : prog R) : bquiet p -> nd p.
Proof.
  induction p as [r|es k IH|f k IH]; intros H; cbn [bquiet nd] in *; auto; [contradiction|].
  destruct H as (H1 & H2). split.
  - intros g. destruct (H1 g) as (kd & o & ok & ->). intros e [<-|[]]. reflexivity.
  - intros v. apply IH. apply H2.
Qed.

Lemma nd_pquiet {R} (p : pprog R) : pquiet p -> nd p.
Proof.
  induction p as [r|es k IH|f k IH]; intros H; cbn [pquiet nd] in *; auto.
  - destruct H as ((n & args & -> & N) & H2). split; [|apply IH; exact H2].
    intros e [<-|[]]. destruct N as (_ & _ & _ & _ & N). exact N.
  - destruct H as (H1 & H2). split; [|intros v; apply IH; apply H2].
    intros g. destruct (H1 g) as (_ & [(kd & o & ok & ->)|(kd & o & ok & n & args & -> & N)]).
    + intros e [<-|[]]. reflexivity.
    + intros e [<-|[<-|[]]]; [reflexivity|]. destruct N as (_ & _ & _ & _ & N). exact N.
Qed.

Lemma nodisp_cli n args : String.eqb n "dispose" = false -> nodisp (cli n args).
Proof. intros H e [<-|[]]. exact H. Qed.

Lemma nd_rlock m d : nd (p_rlock m d).
Proof.
  unfold p_rlock, do_rlock. apply nd_lift. apply nd_bind; [apply nd_bquiet; apply bquiet_access_lock|].
  intros w. cbn [nd]. split; [apply nodisp_cli; reflexivity|exact I].
Qed.

Lemma nd_runlock m d : nd (p_runlock m d).
Proof.
  unfold p_runlock, do_runlock. apply nd_lift. cbn [nd]. split; [apply nodisp_cli; reflexivity|].
  apply nd_bind; [apply nd_bquiet; apply bquiet_access_unlock|].
  intros w. cbn [nd]. split; [apply nodisp_cli; reflexivity|exact I].
Qed.

Lemma nd_emit_all {R} n ps (k : pprog R) : String.eqb n "dispose" = false -> nd k -> nd (emit_all n ps k).
Proof.
  intros Hn Hk. induction ps as [|p r IH]; cbn [emit_all nd]; [exact Hk|]. split; [apply nodisp_cli; exact Hn|exact IH].
Qed.

(** the new clause under a step without "dispose" events *)
Lemma dout_app tr t es : nodisp es -> disp_outside tr -> disp_outside (tr ++ Conc.tag t es).
Proof.
  intros N H d w p Hd. apply at_tag_inv in Hd. destruct Hd as [Hd|(_ & j & e & Hn & _ & HP)].
  - apply outside_app; [apply (H d w p Hd)|]. apply at_lt in Hd. lia.
  - apply nth_error_In in Hn. apply is_dispose_any in HP. rewrite (N e Hn) in HP. discriminate.
Qed.

Lemma xsafe_up {R} t (p : pprog R) : forall l Q, psafe t p l Q -> nd p -> xsafe t p l Q.
Proof.
  induction p as [r|es k IH|f k IH]; intros l Q H N; cbn [Conc.safe nd] in *.
  - exact H.
  - destruct N as (N1 & N2). intros g a tr [HI HD] Hv. destruct (H g a tr HI Hv) as (a' & H1 & H2 & H3).
    exists a'. split; [split; [exact H1|apply dout_app; assumption]|]. split; [exact H2|]. apply IH; assumption.
  - destruct N as (N1 & N2). intros g a tr [HI HD] Hv. destruct (H g a tr HI Hv) as (a' & H1 & H2 & H3).
    exists a'. split; [split; [exact H1|apply dout_app; [apply N1|exact HD]]|]. split; [exact H2|]. apply IH; [exact H3|apply N2].
Qed.

(** continuation forms of the lifted rules *)
Lemma xsafe_pre {A B} t (p : pprog A) (q : A -> pprog B) l Q :
  nd p -> psafe t p l (fun r l' => xsafe t (q r) l' Q) -> xsafe t (pbind p q) l Q.
Proof. intros N H. apply xsafe_bind. apply xsafe_up; assumption. Qed.

Lemma xsafe_emit {R} t es (k : pprog R) l Q :
  nodisp es -> psafe t (Emit es (Ret tt)) l (fun _ l' => xsafe t k l' Q) -> xsafe t (Emit es k) l Q.
Proof.
  intros N H. change (Emit es k) with (pbind (Emit es (Ret tt)) (fun _ => k)). apply xsafe_pre; [|exact H].
  cbn [nd]. split; [exact N|exact I].
Qed.

Lemma xsafe_quiet_then {A B} t (p : pprog A) (q : A -> pprog B) l Q :
  pquiet p -> (forall r, xsafe t (q r) l Q) -> xsafe t (pbind p q) l Q.
Proof.
  intros Hp Hq. apply xsafe_pre; [apply nd_pquiet; exact Hp|].
  eapply psafe_weaken; [|apply psafe_pquiet; exact Hp]. intros r l' ->. apply Hq.
Qed.

Lemma xsafe_emit_neutral {R} t name args (k : pprog R) l Q :
  neutral (EvCli name args) -> xsafe t k l Q -> xsafe t (Emit (cli name args) k) l Q.
Proof.
  intros N H. apply xsafe_emit.
  - intros e [<-|[]]. destruct N as (_ & _ & _ & _ & N). exact N.
  - apply psafe_emit_neutral; [exact N|]. exact H.
Qed.

Lemma xsafe_rlock t m d l (Q : unit -> PL -> Prop) :
  PIdle (Some m) d l -> depth_ok d = true -> (forall l', PIdle (Some m) (S d) l' -> Q tt l') ->
  xsafe t (p_rlock m d) l Q.
Proof. intros. apply xsafe_up; [apply psafe_rlock; assumption|apply nd_rlock]. Qed.

Lemma xsafe_runlock t m d l (Q : unit -> PL -> Prop) :
  PIdle (Some m) (S d) l -> (forall l', PIdle (Some m) d l' -> Q tt l') ->
  xsafe t (p_runlock m (S d)) l Q.
Proof. intros. apply xsafe_up; [apply psafe_runlock; assumption|apply nd_runlock]. Qed.

(** ** batch_retire *)
Lemma emit_all_bind {A B} n ps (x : pprog A) (f : A -> pprog B) :
  emit_all n ps (pbind x f) = pbind (emit_all n ps x) f.
Proof. induction ps as [|p r IH]; cbn [emit_all pbind Conc.bind]; [reflexivity|]. f_equal. exact IH. Qed.

(** "retire p": as [psafe_retire1], and the thread learns that its own section (if any) is older than the marker *)
Lemma psafe_retire1' {R} t p (k : pprog R) l Q :
  ~ holder (l_w (fst l)) ->
  (forall l' i, rfields (fst l') = rfields (fst l) -> l_w (fst l') = WStart i ->
     (forall i0, widx (l_w (fst l)) = Some i0 -> (i0 <= i)%nat) ->
     (forall s, l_cs (fst l) = Some s -> (s < i)%nat) ->
     snd l' = (i, p) :: snd l -> psafe t k l' Q) ->
  psafe t (Emit (cli "retire" [p]) k) l Q.
Proof.
  intros Hnh Hk. cbn [Conc.safe]. intros g [a b] tr [HI HB] Hv. unfold pview in Hv. cbn [fst snd] in Hv.
  set (n := List.length tr).
  set (l1 := set_w (set_rm (a t) (Some (n, p))) (WStart n)).
  exists (updA a t l1, updB b t ((n, p) :: b t)). split; [split|split].
  - unfold cli. rewrite tag1. cbn [fst]. apply step_ev_begin; try reflexivity.
    + exact HI.
    + replace (a t) with (fst l) by (rewrite <- Hv; reflexivity). exact Hnh.
    + right. split; [reflexivity|]. split; [reflexivity|]. exists p. split; [|reflexivity].
      unfold is_retire, cli_is. cbn. apply Z.eqb_refl.
  - cbn [snd]. intros t0 k0 p0. unfold updB. destruct (Nat.eqb_spec t0 t) as [->|Hne].
    + intros [E|Hin].
      * inversion E; subst k0 p0. unfold cli. rewrite tag1. apply at_snoc_last. unfold is_retire, cli_is. cbn. apply Z.eqb_refl.
      * apply at_app_l. eapply HB; eauto.
    + intros Hin. apply at_app_l. eapply HB; eauto.
  - apply pframe; [apply frame_updA|]. intros t' Ht. unfold updB. destruct (Nat.eqb_spec t' t); congruence.
  - unfold pview. cbn [fst snd]. rewrite updA_same, updB_same. apply Hk with (i := n); cbn [fst snd].
    + rewrite <- Hv. reflexivity.
    + reflexivity.
    + intros i0 Hi0. destruct HI as (_ & _ & I3 & _). apply (WB _ _ I3 t). rewrite <- Hv in Hi0. exact Hi0.
    + intros s Hs. destruct HI as (_ & _ & _ & I4). destruct (T1 _ _ I4 t s) as (A & _); [rewrite <- Hv in Hs; exact Hs|].
      eapply at_lt; eauto.
    + rewrite <- Hv. reflexivity.
Qed.

Lemma psafe_retires_more' {R} t rest : forall done l (k : pprog R) Q i0,
  l_w (fst l) = WStart i0 -> covered done (snd l) i0 -> (forall s, l_cs (fst l) = Some s -> (s < i0)%nat) ->
  (forall l' i, rfields (fst l') = rfields (fst l) -> l_w (fst l') = WStart i -> covered (done ++ rest) (snd l') i ->
     (forall s, l_cs (fst l') = Some s -> (s < i)%nat) -> psafe t k l' Q) ->
  psafe t (emit_all "retire" rest k) l Q.
Proof.
  induction rest as [|p r IH]; intros done l k Q i0 Hw Hc Hs0 Hk; cbn [emit_all].
  - apply Hk with (i := i0); auto. rewrite app_nil_r. exact Hc.
  - apply psafe_retire1'; [rewrite Hw; intros []|]. intros l' i Hr Hw' Hi Hcs Hs.
    assert (Ecs : l_cs (fst l') = l_cs (fst l)) by (unfold rfields in Hr; inversion Hr; reflexivity).
    apply IH with (done := done ++ [p]) (i0 := i); [exact Hw'| | |].
    + intros q Hq. apply in_app_or in Hq. destruct Hq as [Hq|[<-|[]]].
      * rewrite Hs. eapply covered_weaken; [exact Hc| |exact Hq]. apply Hi. rewrite Hw. reflexivity.
      * exists i. rewrite Hs. split; [left; reflexivity|lia].
    + intros s. rewrite Ecs. apply Hcs.
    + intros l'' i' Hr' Hw'' Hc' Hcs'. apply Hk with (i := i'); [congruence|exact Hw''| |exact Hcs'].
      rewrite <- app_assoc in Hc'. exact Hc'.
Qed.

(** the retire events and the grace period of one batch: what the thread knows when synchronize() has returned *)
Definition after_sync (ps : list Z) (l0 : PL) (ok : bool) (l' : PL) : Prop :=
  ok = true -> exists i, l_w (fst l') = WFin i /\ covered ps (snd l') i /\ rfields (fst l') = rfields (fst l0) /\
                         forall s, l_cs (fst l') = Some s -> (s < i)%nat.

Lemma psafe_batch_prefix t fuel rec d p ps l :
  PIdle rec d l ->
  psafe t (emit_all "retire" (p :: ps) (lift (gpi_synchronize 2 fuel))) l (after_sync (p :: ps) l).
Proof.
  intros HI. pose proof HI as (H1 & H2 & H3 & H4 & H5). cbn [emit_all].
  apply psafe_retire1'; [rewrite H5; intros []|]. intros l1 i1 Hr1 Hw1 _ Hcs1 Hs1.
  assert (Ecs1 : l_cs (fst l1) = l_cs (fst l)) by (unfold rfields in Hr1; inversion Hr1; reflexivity).
  apply psafe_retires_more' with (done := [p]) (i0 := i1); [exact Hw1| | |].
  { intros q [<-|[]]. exists i1. rewrite Hs1. split; [left; reflexivity|lia]. }
  { intros s. rewrite Ecs1. apply Hcs1. }
  intros l2 i2 Hr2 Hw2 Hc2 Hcs2. destruct l2 as [la lb]. cbn [fst snd] in *.
  eapply psafe_weaken; [|apply psafe_lift; eapply safe_synchronize with (i := i2)
     (Q := fun ok l' => ok = true -> l' = set_w la (WFin i2)); [exact Hw2|intros _; reflexivity|intros l' X; discriminate X]].
  intros ok [la' lb'] (HQ & Hsn) Hok. cbn [fst snd] in *. specialize (HQ Hok). subst la' lb'.
  exists i2. cbn [fst snd]. split; [reflexivity|]. split; [exact Hc2|]. split.
  - change (rfields (set_w la (WFin i2))) with (rfields la). rewrite Hr2. exact Hr1.
  - exact Hcs2.
Qed.

(** ** "dispose p": the disposing thread is outside every section *)
Lemma outside_now_core g a tr t x : Inv g a tr -> l_cs (a t) = None -> outside_at (tr ++ x) t (List.length tr).
Proof.
  intros (_ & _ & _ & I4) Hc s (H1 & H2 & H3). apply at_app_inv in H1; [|exact H2].
  destruct (T2 _ _ I4 t s H1) as [A|(b & Hb & Hat & _)]; [congruence|].
  apply (H3 b); [split; [exact Hb|eapply at_lt; eauto]|apply at_app_l; exact Hat].
Qed.

Lemma own_section_closed g a tr t i :
  Inv g a tr -> l_w (a t) = WFin i -> (forall s, l_cs (a t) = Some s -> (s < i)%nat) -> l_cs (a t) = None.
Proof.
  intros (_ & _ & I3 & _) Hw Hs. destruct (l_cs (a t)) as [s|] eqn:E; [|reflexivity]. exfalso.
  pose proof (WC _ _ I3 t) as C. rewrite Hw in C. cbn in C. apply (C t). exists s. split; [exact E|]. apply Hs. reflexivity.
Qed.

Lemma xsafe_dispose1 {R} t p (k : pprog R) l Q i st :
  l_w (fst l) = WFin i -> (exists k0, In (k0, p) (snd l) /\ (k0 <= i)%nat) -> st = WFin i \/ st = WIdle ->
  (forall s, l_cs (fst l) = Some s -> (s < i)%nat) ->
  (forall l', rfields (fst l') = rfields (fst l) -> l_w (fst l') = st -> snd l' = snd l -> l_cs (fst l) = None ->
     xsafe t k l' Q) ->
  xsafe t (Emit (cli "dispose" [p]) k) l Q.
Proof.
  intros Hw Hin Hst Hcs Hk. cbn [Conc.safe]. intros g [a b] tr [HP HD] Hv.
  assert (Ea : a t = fst l) by (unfold pview in Hv; cbn [fst snd] in Hv; rewrite <- Hv; reflexivity).
  assert (Hnone : l_cs (a t) = None).
  { destruct HP as (HI & _). apply own_section_closed with (g := pg_base g) (tr := tr) (i := i); [exact HI| |].
    - rewrite Ea. exact Hw.
    - intros s. rewrite Ea. apply Hcs. }
  pose proof (psafe_dispose1 t p (Ret tt) l
                (fun _ l' => rfields (fst l') = rfields (fst l) /\ l_w (fst l') = st /\ snd l' = snd l) i st Hw Hin Hst) as X.
  cbn [Conc.safe] in X. destruct (X ltac:(intros l' A B C; auto) g (a, b) tr HP Hv) as (a' & H1 & H2 & (H3 & H4 & H5)).
  exists a'. split; [split; [exact H1|]|split; [exact H2|]].
  - intros d w q Hd. unfold cli in Hd. rewrite tag1 in Hd. destruct (at_snoc_inv _ _ _ _ _ _ Hd) as [Hd'|(-> & -> & _)].
    + apply outside_app; [apply (HD d w q Hd')|]. apply at_lt in Hd'. lia.
    + destruct HP as (HI & _). eapply outside_now_core; eauto.
  - apply Hk; auto. rewrite <- Ea. exact Hnone.
Qed.

Lemma xsafe_disposes t p ps : forall l (Q : bool -> PL -> Prop) i,
  l_w (fst l) = WFin i -> covered (p :: ps) (snd l) i -> (forall s, l_cs (fst l) = Some s -> (s < i)%nat) ->
  (forall l', rfields (fst l') = rfields (fst l) -> l_w (fst l') = WIdle -> l_cs (fst l) = None -> Q true l') ->
  xsafe t (emit_all "dispose" (p :: ps) (Ret true)) l Q.
Proof.
  revert p. induction ps as [|q r IH]; intros p l Q i Hw Hc Hcs HQ; cbn [emit_all].
  - apply xsafe_dispose1 with (i := i) (st := WIdle); [exact Hw|apply Hc; left; reflexivity|right; reflexivity|exact Hcs|].
    intros l' Hr Hw' _ Hn. cbn. apply HQ; assumption.
  - apply xsafe_dispose1 with (i := i) (st := WFin i); [exact Hw|apply Hc; left; reflexivity|left; reflexivity|exact Hcs|].
    intros l' Hr Hw' Hs Hn.
    assert (Ecs : l_cs (fst l') = l_cs (fst l)) by (unfold rfields in Hr; inversion Hr; reflexivity).
    apply IH with (i := i); [exact Hw'| | |].
    + intros x Hx. rewrite Hs. apply Hc. right; exact Hx.
    + intros s. rewrite Ecs. apply Hcs.
    + intros l'' Hr' Hw'' _. apply HQ; congruence.
Qed.

Lemma do_batch_split fuel p ps :
  do_batch fuel (p :: ps) =
  pbind (emit_all "retire" (p :: ps) (lift (gpi_synchronize 2 fuel)))
        (fun ok => if ok then emit_all "dispose" (p :: ps) (Ret true) else Ret false).
Proof. unfold do_batch. rewrite <- emit_all_bind. reflexivity. Qed.

Lemma nd_batch_prefix fuel ps : nd (emit_all "retire" ps (lift (gpi_synchronize 2 fuel))).
Proof. apply nd_emit_all; [reflexivity|]. apply nd_lift. apply nd_bquiet. apply bquiet_synchronize. Qed.

(** the general rule: [true] only outside every section *)
Lemma xsafe_do_batch_gen t fuel rec d ps l (Q : bool -> PL -> Prop) :
  PIdle rec d l -> (forall l', PIdle rec d l' -> (ps <> [] -> l_cs (fst l) = None) -> Q true l') -> (forall l', Q false l') ->
  xsafe t (do_batch fuel ps) l Q.
Proof.
  intros HI HT HF. destruct ps as [|p ps]; [cbn; apply HT; [exact HI|intros X; congruence]|].
  rewrite do_batch_split. apply xsafe_pre; [apply nd_batch_prefix|].
  eapply psafe_weaken; [|apply psafe_batch_prefix with (rec := rec) (d := d); exact HI].
  intros [|] l' HA; [|cbn; apply HF]. destruct (HA eq_refl) as (i & Hw & Hc & Hr & Hcs).
  assert (Ecs : l_cs (fst l') = l_cs (fst l)) by (unfold rfields in Hr; inversion Hr; reflexivity).
  apply xsafe_disposes with (i := i); [exact Hw|exact Hc|exact Hcs|].
  intros l'' Hr' Hw' Hn. apply HT.
  - unfold PIdle. eapply Idle_rfields; [exact HI| |exact Hw']. rewrite Hr'. exact Hr.
  - intros _. rewrite <- Ecs. exact Hn.
Qed.

Lemma xsafe_do_batch t fuel rec d ps l (Q : bool -> PL -> Prop) :
  PIdle rec d l -> (forall l', PIdle rec d l' -> Q true l') -> (forall l', Q false l') ->
  xsafe t (do_batch fuel ps) l Q.
Proof. intros HI HT HF. apply xsafe_do_batch_gen with (rec := rec) (d := d); auto. Qed.

Lemma xsafe_do_release t fuel rec d ps l (Q : bool -> PL -> Prop) :
  PIdle rec d l -> (forall l', PIdle rec d l' -> Q true l') -> (forall l', Q false l') ->
  xsafe t (do_release fuel ps) l Q.
Proof.
  intros HI HT HF. unfold do_release. destruct ps as [|p ps]; [cbn; apply HT; exact HI|].
  apply xsafe_emit_neutral; [neu|]. apply xsafe_do_batch with (rec := rec) (d := d); assumption.
Qed.

(** inside a section a non-empty release() has only the out-of-fuel outcome (relative to the invariant) *)
Lemma Idle_inside_cs g a tr t rec d : Inv g a tr -> Idle rec (S d) (a t) -> l_cs (a t) <> None.
Proof.
  intros (I1 & _) (_ & _ & _ & H4 & _) X. destruct (RD _ _ I1 t) as (_ & (A & _) & _). specialize (A X). congruence.
Qed.

Lemma release_inside_returns_false t fuel rec d p ps l :
  PIdle rec (S d) l -> xsafe t (do_release fuel (p :: ps)) l (fun ok _ => ok = false).
Proof.
  intros HI. unfold do_release. apply xsafe_emit.
  { apply nodisp_cli. reflexivity. }
  cbn [Conc.safe]. intros g [a b] tr [HC HB] Hv. exists (a, b). split; [|split; [intros ? ?; reflexivity|]].
  - split; [unfold cli; rewrite tag1; apply Inv_cli_neutral; [neu|exact HC]|].
    intros t0 k0 p0 Hin. apply at_app_l. eapply HB; eauto.
  - rewrite Hv. cbn [Conc.safe].
    assert (Hne : l_cs (fst l) <> None).
    { unfold pview in Hv. cbn [fst snd] in Hv. replace (fst l) with (a t) by (rewrite <- Hv; reflexivity).
      eapply Idle_inside_cs; [exact HC|]. replace (a t) with (fst l) by (rewrite <- Hv; reflexivity). exact HI. }
    apply xsafe_do_batch_gen with (rec := rec) (d := S d); [exact HI| |reflexivity].
    intros l' _ Hn. exfalso. apply Hne. apply Hn. discriminate.
Qed.
