(** * C01 for guards that move UPWARD, BOTH scans: the second invariant [Inv3] of the HP model.

    [Inv3] is [HpLiveCopyInv.Inv2] with two changes:
    - [k_safe] ([jsafeR]): a scan never hands [p] to the disposer if a chain for [p] exists since the scan began --
      for the in-place scan under the hypothesis that no object was retired twice before that disposer call (as
      [HpInv.i_safe]; necessary: inplace_scan marks only the FIRST of two equal cells of the sorted array);
    - [k_arr]: the retired array an in-place scan loaded holds no object more often than it was retired (so, under
      retire-once, it has no duplicate).  This is the fact hidden in [HpInv.Inv] behind the claim of the scanning
      thread; it is obtained at the [current_] load of inplace_scan with the rule of HpLiveInplaceRule.
    Vocabulary ([chain], [scan_ok], [cp_ok], [jcopied] ...) is that of HpLiveCopyInv. *)
From Coq Require Import ZArith List String Bool Lia PeanoNat.
From LV Require Import Base.Conc Base.Events Model.Hp Proofs.HpTrace Proofs.HpInv Proofs.HpSteps Proofs.HpProofs
  Proofs.HpLiveCopyInv.
Import ListNotations.
Local Open Scope string_scope.
Local Open Scope list_scope.

Record view3T := mkV3 { v3_scan : option scan2; v3_cp : cpst; v3_arr : option (list Z) }.
Definition W0 : view3T := mkV3 None CNone None.
Definition Aux3 := nat -> view3T.
Definition view3 (a : Aux3) (t : nat) : view3T := a t.
Definition upd3 (a : Aux3) (t : nat) (v : view3T) : Aux3 := fun x => if Nat.eqb x t then v else a x.
Lemma upd3_same a t v : upd3 a t v t = v.
Proof. unfold upd3. now rewrite Nat.eqb_refl. Qed.
Lemma upd3_other a t v t' : t' <> t -> upd3 a t v t' = a t'.
Proof. unfold upd3. intros H. destruct (Nat.eqb_spec t' t); congruence. Qed.
Lemma frame_upd3 a t v : Conc.frame view3 t a (upd3 a t v).
Proof. intros t' H. unfold view3. now apply upd3_other. Qed.
Lemma frame3_refl a t : Conc.frame view3 t a a.
Proof. intros ? ?; reflexivity. Qed.

Definition arr_ok (tr : trace) (l : list Z) : Prop := forall p, (countZ p l <= cnt "retire" p tr)%Z.

Definition jsafeR (c : cfgT) (tr : trace) : Prop :=
  forall d t p s, nth_error tr d = Some (t, ev_dispose p) -> last_sb (firstn d tr) t = Some s ->
    (cInplace c = true -> retire_once (firstn d tr)) -> p <> 0%Z ->
    forall r, ~ chain (firstn (S d) tr) s r p.

Record Inv3 (c : cfgT) (g : G) (a : Aux3) (tr : trace) : Prop := mkInv3 {
  k_scan : forall t st, v3_scan (a t) = Some st -> scan_ok tr t st;
  k_cp : forall t, cp_ok tr t (v3_cp (a t));
  k_arr : forall t l, v3_arr (a t) = Some l -> arr_ok tr l;
  k_safe : jsafeR c tr;
  k_copied : jcopied tr
}.

Lemma arr_ok_ext tr es l : arr_ok tr l -> arr_ok (tr ++ es) l.
Proof. intros H p. specialize (H p). pose proof (cnt_le_app "retire" p tr es). lia. Qed.

Lemma jsafeR_ext c tr t es :
  jsafeR c tr ->
  (forall k p, nth_error es k = Some (ev_dispose p) ->
     forall s, last_sb (firstn (List.length tr + k) (tr ++ Conc.tag t es)) t = Some s ->
     (cInplace c = true -> retire_once (firstn (List.length tr + k) (tr ++ Conc.tag t es))) -> p <> 0%Z ->
     forall r, ~ chain (firstn (S (List.length tr + k)) (tr ++ Conc.tag t es)) s r p) ->
  jsafeR c (tr ++ Conc.tag t es).
Proof.
  intros Hj Hnew d u p s Hd Hs Hro Hp r. destruct (Nat.lt_ge_cases d (List.length tr)) as [Hl|Hl].
  - rewrite nth_error_app1 in Hd by exact Hl. rewrite firstn_app_le in Hs, Hro by lia. rewrite firstn_app_le by lia.
    eapply Hj; eauto.
  - apply nth_error_app_tag_ge in Hd; [|exact Hl]. destruct Hd as (-> & Hd).
    replace d with (List.length tr + (d - List.length tr)) in * by lia. eapply Hnew; eauto.
    replace (List.length tr + (d - List.length tr) - List.length tr) with (d - List.length tr) in Hd by lia. exact Hd.
Qed.

(** ** the general step: thread [t] appends [es] and takes the view [v'] *)
Lemma inv3_upd_gen c g g' a tr t es v' :
  Inv3 c g a tr ->
  (forall st, v3_scan v' = Some st -> scan_ok (tr ++ Conc.tag t es) t st) ->
  cp_ok (tr ++ Conc.tag t es) t (v3_cp v') ->
  (forall l, v3_arr v' = Some l -> arr_ok (tr ++ Conc.tag t es) l) ->
  (forall k p, nth_error es k = Some (ev_dispose p) ->
     forall s, last_sb (firstn (List.length tr + k) (tr ++ Conc.tag t es)) t = Some s ->
     (cInplace c = true -> retire_once (firstn (List.length tr + k) (tr ++ Conc.tag t es))) -> p <> 0%Z ->
     forall r, ~ chain (firstn (S (List.length tr + k)) (tr ++ Conc.tag t es)) s r p) ->
  (forall k, nth_error es k = Some (EvCli "copied" []) -> copied_ok (firstn (List.length tr + k) (tr ++ Conc.tag t es)) t) ->
  Inv3 c g' (upd3 a t v') (tr ++ Conc.tag t es).
Proof.
  intros [J1 J2 J5 J3 J4] Hs Hc Ha Hd Hk. constructor.
  - intros u st. destruct (Nat.eq_dec u t) as [->|Hne].
    + rewrite upd3_same. apply Hs.
    + rewrite upd3_other by exact Hne. intros H. apply scan_ok_other; [exact Hne|now apply J1].
  - intros u. destruct (Nat.eq_dec u t) as [->|Hne].
    + rewrite upd3_same. exact Hc.
    + rewrite upd3_other by exact Hne. apply cp_ok_other; [exact Hne|apply J2].
  - intros u l. destruct (Nat.eq_dec u t) as [->|Hne].
    + rewrite upd3_same. apply Ha.
    + rewrite upd3_other by exact Hne. intros H. apply arr_ok_ext. now apply (J5 u).
  - apply jsafeR_ext; assumption.
  - apply jcopied_ext; assumption.
Qed.

Lemma inv3_upd c g g' a tr t es v' :
  Inv3 c g a tr -> (forall e, In e es -> q2 e = true) ->
  (forall st, v3_scan v' = Some st -> scan_ok (tr ++ Conc.tag t es) t st) ->
  cp_ok (tr ++ Conc.tag t es) t (v3_cp v') ->
  (forall l, v3_arr v' = Some l -> arr_ok (tr ++ Conc.tag t es) l) ->
  Inv3 c g' (upd3 a t v') (tr ++ Conc.tag t es).
Proof.
  intros HI Hq Hs Hc Ha. eapply inv3_upd_gen; eauto.
  - intros k p Hn. exfalso. eapply q2_no_dispose; eauto.
  - intros k Hn. exfalso. eapply q2_no_copied; eauto.
Qed.

Lemma upd3_id (a : Aux3) t : forall x, upd3 a t (a t) x = a x.
Proof. intros x. unfold upd3. destruct (Nat.eqb_spec x t); congruence. Qed.

(** a step that changes nothing the invariant looks at *)
Lemma inv3_quiet c g g' a tr t es :
  Inv3 c g a tr -> (forall e, In e es -> q3 e = true) -> v3_cp (a t) = CNone ->
  Inv3 c g' a (tr ++ Conc.tag t es).
Proof.
  intros HI Hq Hcp.
  assert (H' : Inv3 c g' (upd3 a t (a t)) (tr ++ Conc.tag t es)).
  { apply (inv3_upd c g g' a tr t es (a t) HI).
    - intros e He. apply q3_q2. now apply Hq.
    - intros st Hst. apply scan_ok_nosb; [intros e He; apply q3_nosb; now apply Hq|]. now apply (k_scan _ _ _ _ HI).
    - rewrite Hcp. exact I.
    - intros l Hl. apply arr_ok_ext. now apply (k_arr _ _ _ _ HI t). }
  destruct H' as [J1 J2 J5 J3 J4]. constructor; auto.
  - intros u st. rewrite <- (upd3_id a t u). apply J1.
  - intros u. rewrite <- (upd3_id a t u). apply J2.
  - intros u l. rewrite <- (upd3_id a t u). apply J5.
Qed.

Lemma inv3_init c : Inv3 c (init c) (fun _ => W0) [].
Proof.
  constructor.
  - intros t st H. discriminate.
  - intros t. exact I.
  - intros t l H. discriminate.
  - intros d t p s H. destruct d; discriminate.
  - intros v u H. destruct v; discriminate.
Qed.

(** ** what [HpInv.Inv] says about the array of a record at the [current_] load of a scan *)
Definition no_claim_on (v : lview) (r : nat) : Prop := forall cl, In cl (v_cl v) -> crec cl <> r.

Lemma arr_bound_fresh c g a tr t r :
  Inv c g a tr -> v_rec (view a t) = Some r -> no_claim_on (view a t) r -> arr_ok tr (r_ret (get_rec g r)).
Proof.
  intros HI Hrec Hno p. assert (Hown : owns (view a t) r) by (left; exact Hrec).
  pose proof (owns_lt _ _ _ _ _ _ HI Hown) as Hlt. pose proof (eff_none _ _ _ _ _ _ HI Hown Hno) as Hnone.
  pose proof (pend_upto_ge p g a _ _ Hlt) as Hge. unfold effc in Hge. rewrite Hnone in Hge.
  pose proof (i_bal _ _ _ _ HI p) as Hb. unfold pend in Hb.
  pose proof (cnt_nonneg "dispose" p tr). pose proof (cnt_nonneg "overflow" p tr). lia.
Qed.

Lemma arr_bound_held c g a tr t r l :
  Inv c g a tr -> In (ClAct r l l) (v_cl (view a t)) -> r_ret (get_rec g r) = l /\ arr_ok tr l.
Proof.
  intros HI Hin. destruct (i_claim _ _ _ _ HI t _ Hin) as (Hown & Hact & Heff). cbn in Hown, Hact, Heff.
  split; [exact Hact|]. intros p. pose proof (owns_lt _ _ _ _ _ _ HI Hown) as Hlt.
  pose proof (pend_upto_ge p g a _ _ Hlt) as Hge. unfold effc in Hge. rewrite Heff in Hge.
  pose proof (i_bal _ _ _ _ HI p) as Hb. unfold pend in Hb.
  pose proof (cnt_nonneg "dispose" p tr). pose proof (cnt_nonneg "overflow" p tr). lia.
Qed.
