(** * Invariant of the concurrent skip list model, for EVERY schedule (Conc.reach): every link of every node at every
      level points to a node with a larger key — strictly larger at level 0 ("no key is ever present twice"),
      larger or equal at the upper levels.  Keys are a function of the pointer, so all the facts a thread learns from its
      loads are pure and stay true whatever the other threads do; no auxiliary state and no per-thread view is needed. *)
From Coq Require Import ZArith List String Bool Lia PeanoNat.
From LV Require Import Base.Conc Base.Events Model.SkipList.
Import ListNotations.
Local Open Scope Z_scope.

(** ** order between pointers *)
Definition isnode (p : ptr) : Prop := (2 <= p)%nat.
(** [ltp l p q]: a link p -> q at level l is in order *)
Definition ltp (l : nat) (p q : ptr) : Prop :=
  isnode q /\ (p = head \/ (isnode p /\ (match l with O => key_of p < key_of q | S _ => key_of p <= key_of q end))).
Definition lnk (l : nat) (p q : ptr) : Prop := q = null \/ ltp l p q.

Definition I (g : G) : Prop := forall p l, lnk l p (fst (nxt g p l)).

Lemma ltp_weaken l p q : ltp 0 p q -> ltp l p q.
Proof. unfold ltp. intros (H1 & H2). split; auto. destruct H2 as [H2|(H2 & H3)]; auto. right. split; auto. destruct l; lia. Qed.

(** strictly-below facts (what the comparisons of a traversal establish) *)
Definition below (key : Z) (p : ptr) : Prop := p = head \/ (isnode p /\ key_of p < key).
Definition nbelow (p q : ptr) : Prop := p = head \/ (isnode p /\ key_of p < key_of q).    (* p strictly before node q *)

Lemma ltp_trans_l l a b c : nbelow a b -> isnode b -> lnk l b c -> lnk l a c.
Proof.
  unfold lnk, ltp, nbelow. intros Hab Hb [->|(Hc & Hbc)]; [now left|right]. split; auto.
  destruct Hab as [->|(Ha & Hab)]; [now left|right]. split; auto.
  destruct Hbc as [->|(_ & Hbc)]; [unfold isnode, head in Hb; lia|]. destruct l; lia.
Qed.

Lemma ltp_nbelow p q : ltp 0 p q -> nbelow p q.
Proof. unfold ltp, nbelow. intros (_ & [->|(H1 & H2)]); auto. Qed.

(** ** the proof rule instantiated: no auxiliary state *)
Definition view (a : unit) (t : nat) : unit := tt.
(** node heights never exceed c_nMaxHeight *)
Definition HB (g : G) : Prop := forall p, (hgt_of g p <= MAXH)%nat.
Definition Inv (g : G) (a : unit) (tr : list (nat * ev)) : Prop := I g /\ HB g.
Definition Qany {R} : R -> unit -> Prop := fun _ _ => True.

Definition SAFE {R} (p : prog R) : Prop := forall t, @Conc.safe G V ev unit unit view Inv R t p tt Qany.

Lemma S_ret {R} (r : R) : SAFE (Ret r).
Proof. intros t. exact Logic.I. Qed.

Lemma S_emit {R} es (k : prog R) : SAFE k -> SAFE (Emit es k).
Proof.
  intros H t. cbn [Conc.safe]. intros g a tr Hi _. exists tt. split; [exact Hi|]. split; [intros ? ?; reflexivity|apply H].
Qed.

(** an access that does not touch the links *)
Lemma S_nx {R} (f : G -> G * V * list ev) (k : V -> prog R) :
  (forall g, nxt (fst (fst (f g))) = nxt g /\ hgt_of (fst (fst (f g))) = hgt_of g) -> (forall v, SAFE (k v)) -> SAFE (Act f k).
Proof.
  intros Hf H t. cbn [Conc.safe]. intros g a tr Hi _. exists tt. split; [|split; [intros ? ?; reflexivity|apply H]].
  unfold Inv, I, HB in *. destruct (Hf g) as [E1 E2]. rewrite E1, E2. exact Hi.
Qed.

Lemma S_ld {R} p l (k : V -> prog R) :
  (forall x, lnk l p (fst x) -> SAFE (k (VP x))) -> SAFE (Act (a_ld_next p l) k).
Proof.
  intros H t. cbn [Conc.safe a_ld_next fst snd]. intros g a tr Hi _. exists tt. split; [exact Hi|].
  split; [intros ? ?; reflexivity|]. apply H. apply (proj1 Hi).
Qed.

Lemma upd2_same {A} (f : ptr -> nat -> A) p l x : upd2 f p l x p l = x.
Proof. unfold upd2. now rewrite !Nat.eqb_refl. Qed.
Lemma upd2_other {A} (f : ptr -> nat -> A) p l x p' l' : (p', l') <> (p, l) -> upd2 f p l x p' l' = f p' l'.
Proof.
  unfold upd2. intros H. destruct (Nat.eqb_spec p' p) as [->|]; [|reflexivity].
  destruct (Nat.eqb_spec l' l) as [->|]; [congruence|reflexivity].
Qed.

Lemma I_upd g p l x : I g -> lnk l p (fst x) ->
  I (mkG (upd2 (nxt g) p l x) (unl g) (hgt_of g) (hgt g) (cnt g)).
Proof.
  intros Hi Hx p' l'. cbn [nxt]. destruct (Nat.eq_dec p' p) as [->|Np].
  - destruct (Nat.eq_dec l' l) as [->|Nl]; [now rewrite upd2_same|]. rewrite upd2_other by congruence. apply Hi.
  - rewrite upd2_other by congruence. apply Hi.
Qed.

Lemma S_st {R} p l x (k : V -> prog R) :
  lnk l p (fst x) -> (forall v, SAFE (k v)) -> SAFE (Act (a_st_next p l x) k).
Proof.
  intros Hx H t. cbn [Conc.safe a_st_next fst snd]. intros g a tr [Hi Hh] _. exists tt.
  split; [split; [now apply I_upd|exact Hh]|]. split; [intros ? ?; reflexivity|apply H].
Qed.

Lemma S_cas {R} p l e d (k : V -> prog R) :
  lnk l p (fst d) -> (forall ok cur, lnk l p (fst cur) -> SAFE (k (VC ok cur))) -> SAFE (Act (a_cas_next p l e d) k).
Proof.
  intros Hd H t. cbn [Conc.safe]. intros g a tr [Hi Hh] _. exists tt. unfold a_cas_next.
  destruct (mp_eqb (nxt g p l) e); cbn [fst snd].
  - split; [split; [now apply I_upd|exact Hh]|]. split; [intros ? ?; reflexivity|]. apply H. apply Hi.
  - split; [split; assumption|]. split; [intros ? ?; reflexivity|]. apply H. apply Hi.
Qed.

(** all the accesses that leave the links alone *)
Ltac nx := apply S_nx; [intros; split; reflexivity|intros ?].

(** the guard store that also reads the height of the guarded node *)
Lemma S_guard_h {R} t slot p (k : V -> prog R) :
  (forall h, (h <= MAXH)%nat -> SAFE (k (VZ (Z.of_nat h)))) -> SAFE (Act (a_guard_st_h t slot p) k).
Proof.
  intros H t'. cbn [Conc.safe a_guard_st_h fst snd]. intros g a tr Hi _. exists tt. split; [exact Hi|].
  split; [intros ? ?; reflexivity|]. apply H. apply (proj2 Hi).
Qed.

(** node constructor / make_tower: m_nUnlink.store( h ), the height becomes h *)
Lemma S_st_unl {R} p n h (k : V -> prog R) :
  (h <= MAXH)%nat -> (forall v, SAFE (k v)) -> SAFE (Act (a_st_unl p n h) k).
Proof.
  intros Hh H t. cbn [Conc.safe a_st_unl fst snd]. intros g a tr [Hi Hb] _. exists tt.
  split; [split; [exact Hi|]|split; [intros ? ?; reflexivity|apply H]].
  intros p'. cbn [hgt_of]. unfold upd1. destruct (Nat.eqb p' p); [exact Hh|apply Hb].
Qed.

Lemma S_assign {R} s slot (k : prog R) : SAFE k -> SAFE (g_assign s slot k).
Proof. intros H. unfold g_assign. nx. nx. exact H. Qed.
Lemma S_clear {R} s slot (k : prog R) : SAFE k -> SAFE (g_clear s slot k).
Proof. intros H. unfold g_clear. nx. exact H. Qed.
Lemma S_copy {R} s a b (k : prog R) : SAFE k -> SAFE (g_copy s a b k).
Proof. intros H. unfold g_copy. nx. nx. nx. exact H. Qed.
Lemma S_retire {R} s (k : prog R) : SAFE k -> SAFE (retire s k).
Proof. intros H. unfold retire. nx. nx. exact H. Qed.

Lemma S_free_all {R} slots : forall s (k : TL -> prog R), (forall s', SAFE (k s')) -> SAFE (g_free_all s slots k).
Proof. induction slots as [|x r IH]; intros s k H; cbn [g_free_all]; [apply H|]. apply S_clear. apply IH. exact H. Qed.

Lemma S_ga_protect {R} fuel : forall s slot p l (k : option mptr -> prog R),
  SAFE (k None) -> (forall x, lnk l p (fst x) -> SAFE (k (Some x))) -> SAFE (ga_protect fuel s slot p l k).
Proof.
  induction fuel as [|f IH]; intros s slot p l k H0 H1; cbn [ga_protect]; [exact H0|].
  apply S_ld. intros x1 L1. nx. nx. apply S_ld. intros x2 L2. cbn [vp].
  destruct (mp_eqb x1 x2); [now apply H1|]. now apply IH.
Qed.

Lemma S_g_protect_again {R} fuel : forall s slot p l cur (k : option mptr -> prog R),
  SAFE (k None) -> (forall x, lnk l p (fst x) -> SAFE (k (Some x))) -> SAFE (g_protect_again fuel s slot p l cur k).
Proof.
  induction fuel as [|f IH]; intros s slot p l cur k H0 H1; cbn [g_protect_again]; [exact H0|].
  nx. nx. apply S_ld. intros x2 L2. cbn [vp]. destruct (mp_eqb cur x2); [now apply H1|]. now apply IH.
Qed.

Lemma S_g_protect {R} fuel : forall s slot p l (k : option mptr -> prog R),
  SAFE (k None) -> (forall x, lnk l p (fst x) -> SAFE (k (Some x))) -> SAFE (g_protect fuel s slot p l k).
Proof.
  destruct fuel as [|f]; intros s slot p l k H0 H1; cbn [g_protect]; [exact H0|].
  apply S_ld. intros x1 L1. nx. nx. apply S_ld. intros x2 L2. cbn [vp].
  destruct (mp_eqb x1 x2); [now apply H1|]. now apply S_g_protect_again.
Qed.

Lemma ltp_trans l a b c : ltp l a b -> lnk l b c -> lnk l a c.
Proof.
  unfold lnk, ltp. intros (Hb & Hab) [->|(Hc & Hbc)]; [now left|right]. split; auto.
  destruct Hab as [->|(Ha & Hab)]; [now left|right]. split; auto.
  destruct Hbc as [->|(_ & Hbc)]; [unfold isnode, head in Hb; lia|]. destruct l; lia.
Qed.

Lemma lnk_ltp l p q : lnk l p q -> q <> null -> ltp l p q.
Proof. intros [->|H] N; [congruence|exact H]. Qed.

Lemma eqb_null p : Nat.eqb p null = false -> p <> null.
Proof. intros H. now apply Nat.eqb_neq. Qed.

(** help_remove( nLevel, pPred, pCur ): pCur was read from pPred->next( nLevel ) *)
Lemma S_help_remove {R} fuel s l pred cur (k : res TL -> prog R) :
  ltp l pred cur -> (forall r, SAFE (k r)) -> SAFE (help_remove fuel s l pred cur k).
Proof.
  intros Hpc Hk. unfold help_remove. nx. destruct (vz v =? Z.of_nat l + 1); [|apply Hk].
  destruct (alloc1 s) as [hp s1]. apply S_g_protect; [apply Hk|]. intros succ Ls.
  destruct (snd succ); [|apply S_clear, Hk].
  apply S_cas; [eapply ltp_trans; eauto|]. intros ok c _. destruct (vok (VC ok c)); [|apply S_clear, Hk].
  nx. destruct (vz v0 =? 1); [apply S_retire, S_clear, Hk|apply S_clear, Hk].
Qed.

Definition curfact (key : Z) (stop : bool) (cur : mptr) (c : Z) (found : bool) : Prop :=
  (found = true -> isnode (fst cur) /\ stop = true) /\
  (fst cur = null \/ (isnode (fst cur) /\ c = cmpk (fst cur) key /\ 0 <= c /\ (stop = true -> found = false -> 0 < c))).

Lemma ltp_isnode l p q : ltp l p q -> isnode q.
Proof. intros H; apply H. Qed.

Lemma S_fp_level {R} fuel : forall s key stop own lvl pred ps ncmp (retry : TL -> prog R) k kf kown,
  below key pred -> (forall s', SAFE (retry s')) -> SAFE kf -> (forall s', SAFE (kown s')) ->
  (forall s' pred' cur c found, below key pred' -> curfact key stop cur c found -> SAFE (k s' pred' cur c found)) ->
  SAFE (fp_level fuel s key stop own lvl pred ps ncmp retry k kf kown).
Proof.
  induction fuel as [|f IH]; intros s key stop own lvl pred ps ncmp retry k kf kown Hb Hr Hf Ho Hk; cbn [fp_level]; [exact Hf|].
  apply S_ga_protect; [exact Hf|]. intros cur Lc. destruct (snd cur); [apply Hr|].
  destruct (Nat.eqb (fst cur) null) eqn:En; [apply Hk; [exact Hb|split; [discriminate|now left; apply Nat.eqb_eq]]|].
  pose proof (lnk_ltp _ _ _ Lc (eqb_null _ En)) as Lt.
  apply S_ld. intros xs Ls. apply S_ld. intros xr Lr. cbn [vp].
  destruct (negb (mp_eqb xr (fst cur, false))); [apply Hr|].
  destruct (snd xs).
  - destruct (negb (Nat.eqb own null) && Nat.eqb (fst cur) own); [apply Ho|].
    apply S_help_remove; [exact Lt|]. intros [s'|]; [apply Hr|exact Hf].
  - set (c := cmpk (fst cur) key). destruct (Z.ltb_spec c 0) as [C|C].
    + apply S_copy. apply IH; auto. right. split; [eapply ltp_isnode; eauto|]. unfold c, cmpk in C. lia.
    + destruct ((c =? 0) && stop) eqn:E.
      * apply Hk; [exact Hb|]. split; [intros _; split; [eapply ltp_isnode; eauto|apply andb_true_iff in E; apply E]|]. right. apply andb_true_iff in E. destruct E as [E1 E2]. apply Z.eqb_eq in E1.
        repeat split; [eapply ltp_isnode; eauto|fold c; lia|lia|intros _ X; discriminate].
      * apply Hk; [exact Hb|]. split; [discriminate|]. right. repeat split; [eapply ltp_isnode; eauto|exact C|].
        intros -> _. rewrite andb_true_r in E. apply Z.eqb_neq in E. lia.
Qed.

Definition succ_ok (key : Z) (stop : bool) (q : ptr) : Prop :=
  q = null \/ (isnode q /\ (if stop then key < key_of q else key <= key_of q)).
Definition pos_above (n : nat) (key : Z) (stop : bool) (ps : pos) : Prop :=
  forall L, (n <= L < MAXH)%nat -> below key (pprev ps L) /\ succ_ok key stop (psucc ps L).
Definition pos_full := pos_above 0.
Definition cur_is (key : Z) (p : ptr) : Prop := p = null \/ (isnode p /\ key_of p = key).

Definition fp_post (key : Z) (stop : bool) (o : fp_out) : Prop :=
  match o with
  | FpFound ps => (stop = true /\ isnode (pcur ps)) \/ (pos_full key stop ps /\ cur_is key (pcur ps))
  | FpNotFound ps => pos_full key stop ps
  | FpOwnRemoved => True
  end.

Lemma set_lvl_same f l x : set_lvl f l x l = x.
Proof. unfold set_lvl. now rewrite Nat.eqb_refl. Qed.
Lemma set_lvl_other f l x l' : l' <> l -> set_lvl f l x l' = f l'.
Proof. unfold set_lvl. intros H. destruct (Nat.eqb_spec l' l); congruence. Qed.

Lemma S_fp_levels {R} fuel : forall n s key stop own pred ps ncmp (retry : TL -> prog R) k kf,
  (n <= MAXH)%nat -> below key pred -> pos_above n key stop ps ->
  ((n < MAXH)%nat -> pcur ps = null \/ (isnode (pcur ps) /\ ncmp = cmpk (pcur ps) key)) ->
  (forall s', SAFE (retry s')) -> SAFE kf ->
  (forall s' o, fp_post key stop o -> SAFE (k s' o)) ->
  SAFE (fp_levels fuel n s key stop own pred ps ncmp retry k kf).
Proof.
  induction n as [|lvl IH]; intros s key stop own pred ps ncmp retry k kf Hn Hb Hp Hc Hr Hf Hk; cbn [fp_levels].
  - assert (Hc' := Hc ltac:(unfold MAXH; lia)).
    destruct (Z.eqb_spec ncmp 0) as [E|E]; apply Hk; cbn [fp_post].
    + right. split; [exact Hp|]. destruct Hc' as [H|(H1 & H2)]; [now left|right]. split; auto. unfold cmpk in H2. lia.
    + exact Hp.
  - apply S_assign. apply S_fp_level; auto.
    + intros s'. apply Hk. exact Logic.I.
    + intros s' pred' cur c found Hb' Hcf. destruct found.
      * apply Hk. cbn [fp_post pcur]. left. destruct Hcf as [Hfd _]. destruct (Hfd eq_refl). split; assumption.
      * apply IH; auto; [lia| | ].
        -- intros L HL. cbn [pprev psucc]. destruct Hcf as [_ Hcf]. destruct (Nat.eq_dec L lvl) as [->|NL].
           ++ rewrite !set_lvl_same. split; [exact Hb'|]. destruct Hcf as [H|(H1 & H2 & H3 & H4)]; [now left|right].
              split; [exact H1|]. unfold cmpk in *. destruct stop; [specialize (H4 eq_refl eq_refl); lia|lia].
           ++ rewrite !set_lvl_other by exact NL. apply Hp. lia.
        -- intros _. cbn [pcur]. destruct Hcf as [_ [H|(H1 & H2 & H3 & H4)]]; [now left|right; auto].
Qed.

Definition fp_post' (own : ptr) (key : Z) (stop : bool) (o : fp_out) : Prop :=
  fp_post key stop o /\ (own = null -> match o with FpFound ps => pcur ps <> null | _ => True end).

Lemma S_find_position {R} fuel : forall s key stop own ps (k : TL -> fp_out -> prog R) kf,
  (forall s' o, fp_post' own key stop o -> SAFE (k s' o)) -> SAFE kf -> SAFE (find_position fuel s key stop own ps k kf).
Proof.
  induction fuel as [|f IH]; intros s key stop own ps k kf Hk Hf; cbn [find_position]; [exact Hf|].
  apply S_fp_levels; auto.
  - now left.
  - intros L HL. lia.
  - intros HL. lia.
  - intros s' [ps'| ps'|] Hp.
    + destruct (Nat.eqb own null && Nat.eqb (pcur ps') null) eqn:E.
      * apply andb_true_iff in E. destruct E as [E1 E2]. apply Nat.eqb_eq in E2. apply Hk. split; [|intros _; exact Logic.I].
        cbn [fp_post] in *. destruct Hp as [(_ & Hn)|(Hp & _)]; [unfold isnode in Hn; rewrite E2 in Hn; unfold null in Hn; lia|exact Hp].
      * apply Hk. split; [exact Hp|]. intros ->. cbn [Nat.eqb andb] in E. now apply Nat.eqb_neq.
    + apply Hk. split; [exact Hp|intros _; exact Logic.I].
    + apply Hk. split; [exact Logic.I|intros _; exact Logic.I].
Qed.

(** *** what try_remove_at needs from a position *)
Definition rem_pre (ps : pos) (del : ptr) : Prop :=
  isnode del /\ forall L, (L < MAXH)%nat -> nbelow (pprev ps L) del.

Lemma nbelow_ltp l p q : nbelow p q -> isnode q -> ltp l p q.
Proof. unfold nbelow, ltp. intros [->|(H1 & H2)] Hq; split; auto. right. split; auto. destruct l; lia. Qed.

Lemma fp_rem_pre key ps : pos_full key false ps -> cur_is key (pcur ps) -> pcur ps <> null -> rem_pre ps (pcur ps).
Proof.
  intros Hp [H|(H1 & H2)] N; [congruence|]. split; [exact H1|]. intros L HL.
  destruct (Hp L ltac:(lia)) as [[->|(B1 & B2)] _]; [now left|right]. split; auto. lia.
Qed.

(** find_min_position *)
Lemma S_fmin_levels {R} fuel : forall n s ps (retry : TL -> prog R) k kf,
  (n <= MAXH)%nat -> (forall L, (n <= L < MAXH)%nat -> pprev ps L = head) ->
  ((n < MAXH)%nat -> pcur ps = null \/ isnode (pcur ps)) ->
  (forall s', SAFE (retry s')) -> SAFE kf ->
  (forall s' ps', (pcur ps' = null \/ rem_pre ps' (pcur ps')) -> SAFE (k s' ps')) ->
  SAFE (fmin_levels fuel n s ps retry k kf).
Proof.
  induction n as [|lvl IH]; intros s ps retry k kf Hn Hp Hc Hr Hf Hk; cbn [fmin_levels].
  - apply Hk. destruct (Hc ltac:(unfold MAXH; lia)) as [H|H]; [now left|right]. split; [exact H|].
    intros L HL. left. apply Hp. lia.
  - apply S_assign. apply S_ga_protect; [exact Hf|]. intros cur Lc.
    assert (Hnext : forall s', SAFE (fmin_levels fuel lvl s'
              (mkPos (set_lvl (pprev ps) lvl head) (set_lvl (psucc ps) lvl (fst cur)) (fst cur) (pg ps)) retry k kf)).
    { intros s'. apply IH; auto; [lia| |].
      - intros L HL. cbn [pprev]. destruct (Nat.eq_dec L lvl) as [->|NL]; [now rewrite set_lvl_same|].
        rewrite set_lvl_other by exact NL. apply Hp. lia.
      - intros _. cbn [pcur]. destruct Lc as [H|H]; [now left|right; eapply ltp_isnode; eauto]. }
    destruct (Nat.eqb (fst cur) null) eqn:En; [apply Hnext|].
    pose proof (lnk_ltp _ _ _ Lc (eqb_null _ En)) as Lt.
    apply S_ld. intros xs Ls. apply S_ld. intros xr Lr. cbn [vp].
    destruct (negb (mp_eqb xr (fst cur, false))); [apply Hr|].
    destruct (snd xs); [|apply Hnext].
    apply S_help_remove; [exact Lt|]. intros [s'|]; [apply Hr|exact Hf].
Qed.

Lemma S_find_min_position {R} fuel : forall s ps (k : TL -> pos -> prog R) kf,
  (forall s' ps', (pcur ps' = null \/ rem_pre ps' (pcur ps')) -> SAFE (k s' ps')) -> SAFE kf ->
  SAFE (find_min_position fuel s ps k kf).
Proof.
  induction fuel as [|f IH]; intros s ps k kf Hk Hf; cbn [find_min_position]; [exact Hf|].
  apply S_fmin_levels; auto; [intros L HL; lia|intros HL; lia].
Qed.

(** find_max_position: the predecessors recorded at the upper levels precede the predecessor at level 0 *)
Definition ple (a b : ptr) : Prop := a = head \/ (isnode a /\ isnode b /\ key_of a <= key_of b).

Lemma ple_trans a b c : ple a b -> ple b c -> ple a c.
Proof.
  unfold ple. intros [->|(A1 & A2 & A3)] H; [now left|]. destruct H as [->|(B1 & B2 & B3)]; [unfold isnode, head in A2; lia|].
  right. repeat split; auto. lia.
Qed.
Lemma ple_ltp l a b : ltp l a b -> ple a b.
Proof. unfold ltp, ple. intros (Hb & [->|(Ha & H)]); [now left|right]. repeat split; auto. destruct l; lia. Qed.
Lemma ple_refl a : a = head \/ isnode a -> ple a a.
Proof. unfold ple. intros [->|H]; [now left|right]. repeat split; auto. lia. Qed.
Lemma ple_nbelow a b c : ple a b -> ltp 0 b c -> nbelow a c.
Proof.
  unfold ple, ltp, nbelow. intros [->|(A1 & A2 & A3)] (Hc & H); [now left|].
  destruct H as [->|(_ & H)]; [unfold isnode, head in A2; lia|]. right. split; auto. lia.
Qed.

Lemma S_fmax_level {R} fuel : forall s lvl pred ps (retry : TL -> prog R) k kf,
  (pred = head \/ isnode pred) -> (forall s', SAFE (retry s')) -> SAFE kf ->
  (forall s' pred' cur, ple pred pred' -> (pred' = head \/ isnode pred') -> lnk lvl pred' (fst cur) -> SAFE (k s' pred' cur)) ->
  SAFE (fmax_level fuel s lvl pred ps retry k kf).
Proof.
  induction fuel as [|f IH]; intros s lvl pred ps retry k kf Hp Hr Hf Hk; cbn [fmax_level]; [exact Hf|].
  apply S_ga_protect; [exact Hf|]. intros cur Lc. destruct (snd cur); [apply Hr|].
  destruct (Nat.eqb (fst cur) null) eqn:En; [apply Hk; auto using ple_refl|].
  pose proof (lnk_ltp _ _ _ Lc (eqb_null _ En)) as Lt.
  apply S_ld. intros xs Ls. apply S_ld. intros xr Lr. cbn [vp].
  destruct (negb (mp_eqb xr (fst cur, false))); [apply Hr|].
  destruct (snd xs).
  - apply S_help_remove; [exact Lt|]. intros [s'|]; [apply Hr|exact Hf].
  - destruct (Nat.eqb (fst xs) null); [apply Hk; auto using ple_refl|].
    apply S_copy. apply IH; auto; [right; eapply ltp_isnode; eauto|].
    intros s' pred' cur' H1 H2 H3. apply Hk; auto. eapply ple_trans; [eapply ple_ltp; eauto|exact H1].
Qed.

Lemma S_fmax_levels {R} fuel : forall n s pred ps (retry : TL -> prog R) k kf,
  (n <= MAXH)%nat -> (pred = head \/ isnode pred) ->
  (forall L, (n <= L < MAXH)%nat -> ple (pprev ps L) pred) ->
  (n = 0%nat -> lnk 0 pred (pcur ps)) ->
  (forall s', SAFE (retry s')) -> SAFE kf ->
  (forall s' ps', (pcur ps' = null \/ rem_pre ps' (pcur ps')) -> SAFE (k s' ps')) ->
  SAFE (fmax_levels fuel n s pred ps retry k kf).
Proof.
  induction n as [|lvl IH]; intros s pred ps retry k kf Hn Hpn Hp Hc Hr Hf Hk; cbn [fmax_levels].
  - destruct (Nat.eqb (pcur ps) null && negb (Nat.eqb pred head)); [apply Hr|]. apply Hk.
    destruct (Hc eq_refl) as [H|H]; [now left|right]. split; [eapply ltp_isnode; eauto|].
    intros L HL. eapply ple_nbelow; [apply Hp; lia|exact H].
  - apply S_assign. apply S_fmax_level; auto. intros s' pred' cur H1 H2 H3.
    apply IH; auto; [lia| |].
    + intros L HL. cbn [pprev]. destruct (Nat.eq_dec L lvl) as [->|NL].
      * rewrite set_lvl_same. now apply ple_refl.
      * rewrite set_lvl_other by exact NL. eapply ple_trans; [apply Hp; lia|exact H1].
    + intros ->. cbn [pcur]. exact H3.
Qed.

Lemma S_find_max_position {R} fuel : forall s ps (k : TL -> pos -> prog R) kf,
  (forall s' ps', (pcur ps' = null \/ rem_pre ps' (pcur ps')) -> SAFE (k s' ps')) -> SAFE kf ->
  SAFE (find_max_position fuel s ps k kf).
Proof.
  induction fuel as [|f IH]; intros s ps k kf Hk Hf; cbn [find_max_position]; [exact Hf|].
  apply S_fmax_levels.
  - lia.
  - now left.
  - intros L HL. lia.
  - intros HL. unfold MAXH in HL. discriminate.
  - intros s'. now apply IH.
  - exact Hf.
  - exact Hk.
Qed.

(** *** try_remove_at *)
Lemma S_tr_mark_one {R} fuel : forall del l cur (k : prog R) kf,
  lnk l del (fst cur) -> SAFE k -> SAFE kf -> SAFE (tr_mark_one fuel del l cur k kf).
Proof.
  induction fuel as [|f IH]; intros del l cur k kf Hc Hk Hf; cbn [tr_mark_one]; [exact Hf|].
  apply S_cas; [exact Hc|]. intros ok c Lc. cbn [vok vp]. destruct ok; [exact Hk|].
  destruct (snd c); [exact Hk|]. now apply IH.
Qed.

Lemma S_tr_mark_upper {R} fuel : forall n del (k : prog R) kf,
  SAFE k -> SAFE kf -> SAFE (tr_mark_upper fuel del n k kf).
Proof.
  induction n as [|n IH]; intros del k kf Hk Hf; cbn [tr_mark_upper]; [exact Hk|].
  apply S_ld. intros x Lx. cbn [vp]. destruct (snd x); [now apply IH|].
  apply S_tr_mark_one; auto.
Qed.

Lemma S_tr_unlink {R} fuel : forall n s key del ps (k : TL -> prog R) kf,
  (n <= MAXH)%nat -> rem_pre ps del -> (forall s', SAFE (k s')) -> SAFE kf ->
  SAFE (tr_unlink fuel s key del n ps k kf).
Proof.
  induction n as [|l IH]; intros s key del ps k kf Hn Hp Hk Hf; cbn [tr_unlink]; [apply S_retire, Hk|].
  apply S_ld. intros xs Ls. cbn [vp]. destruct Hp as [Hd Hp].
  apply S_cas.
  - cbn [fst]. eapply ltp_trans; [|exact Ls]. apply nbelow_ltp; [apply Hp; lia|exact Hd].
  - intros ok c _. cbn [vok]. destruct ok.
    + nx. apply IH; auto; [lia|split; auto].
    + apply S_find_position; [intros; apply Hk|exact Hf].
Qed.

Lemma S_tr_lp {R} fuel : forall s key del h p ps (k : TL -> bool -> prog R) kf,
  (h <= MAXH)%nat -> rem_pre ps del -> lnk 0 del (fst p) -> (forall s' b, SAFE (k s' b)) -> SAFE kf ->
  SAFE (tr_lp fuel s key del h p ps k kf).
Proof.
  induction fuel as [|f IH]; intros s key del h p ps k kf Hh Hp Hl Hk Hf; cbn [tr_lp]; [exact Hf|].
  apply S_cas; [exact Hl|]. intros ok c Lc. cbn [vok vp]. destruct ok.
  - apply S_tr_unlink; auto.
  - destruct (snd c); [apply Hk|]. apply IH; auto.
Qed.

Lemma S_try_remove_at {R} fuel s del h ps (k : TL -> bool -> prog R) kf :
  (h <= MAXH)%nat -> rem_pre ps del -> (forall s' b, SAFE (k s' b)) -> SAFE kf ->
  SAFE (try_remove_at fuel s del h ps k kf).
Proof.
  intros Hh Hp Hk Hf. unfold try_remove_at. apply S_tr_mark_upper; [|exact Hf].
  apply S_ld. intros x Lx. cbn [vp]. apply S_tr_lp; auto.
Qed.

(** *** insert_at_position *)
Definition ins_pre (key : Z) (new : ptr) : Prop := isnode new /\ key_of new = key.

Lemma pos_full_weaken key ps : pos_full key true ps -> pos_full key false ps.
Proof.
  intros H L HL. destruct (H L HL) as [H1 H2]. split; [exact H1|]. destruct H2 as [H2|(H2 & H3)]; [now left|right]. split; auto. lia.
Qed.

Lemma below_new l key new p : ins_pre key new -> below key p -> lnk l p new.
Proof.
  intros (Hn & Hk) Hb. right. split; [exact Hn|]. destruct Hb as [->|(B1 & B2)]; [now left|right]. split; auto. destruct l; lia.
Qed.

Lemma new_succ l key new q : ins_pre key new -> succ_ok key false q -> lnk (S l) new q.
Proof.
  intros (Hn & Hk) [->|(Q1 & Q2)]; [now left|right]. split; auto. right. split; auto. lia.
Qed.
Lemma new_succ0 key new q : ins_pre key new -> succ_ok key true q -> lnk 0 new q.
Proof.
  intros (Hn & Hk) [->|(Q1 & Q2)]; [now left|right]. split; auto. right. split; auto. lia.
Qed.

Lemma S_ia_clear_upper {R} new : forall h l (k : prog R), SAFE k -> SAFE (ia_clear_upper new l h k).
Proof.
  induction h as [|h IH]; intros l k Hk; cbn [ia_clear_upper]; [exact Hk|].
  destruct (Nat.ltb l (l + S h)); [|exact Hk]. apply S_st; [now left|]. intros _. now apply IH.
Qed.

Lemma S_ia_level {R} fuel : forall s key new h l p ps (knext : TL -> pos -> prog R) kdone kf,
  (1 <= l < MAXH)%nat -> ins_pre key new -> pos_full key false ps -> lnk l new (fst p) ->
  (forall s' ps', pos_full key false ps' -> SAFE (knext s' ps')) -> (forall s', SAFE (kdone s')) -> SAFE kf ->
  SAFE (ia_level fuel s key new h l p ps knext kdone kf).
Proof.
  induction fuel as [|f IH]; intros s key new h l p ps knext kdone kf Hl Hn Hp Hpl Hk Hd Hf; cbn [ia_level]; [exact Hf|].
  destruct l as [|l']; [lia|]. destruct (Hp (S l') ltac:(lia)) as [P1 P2].
  apply S_cas; [cbn [fst]; eapply new_succ; eauto|]. intros ok c Lc. cbn [vok]. destruct ok; cbn [negb].
  - apply S_cas; [cbn [fst]; eapply below_new; eauto|]. intros ok2 c2 _. cbn [vok]. destruct ok2; [now apply Hk|].
    apply S_find_position; [|exact Hf]. intros s' o [Ho _]. destruct o as [ps'|ps'|].
    + cbn [fp_post] in Ho. destruct Ho as [(X & _)|(Ho & _)]; [discriminate|].
      apply IH; auto. cbn [fst]. eapply new_succ; eauto.
    + nx. apply S_find_position; [intros; apply Hd|exact Hf].
    + nx. apply S_find_position; [intros; apply Hd|exact Hf].
  - nx. apply S_find_position; [intros; apply Hd|exact Hf].
Qed.

Lemma S_ia_levels {R} fuel : forall n s key new h l ps (kdone : TL -> prog R) kf,
  (1 <= l)%nat -> (l + n <= MAXH)%nat -> ins_pre key new -> pos_full key false ps ->
  (forall s', SAFE (kdone s')) -> SAFE kf -> SAFE (ia_levels fuel n s key new h l ps kdone kf).
Proof.
  induction n as [|n IH]; intros s key new h l ps kdone kf H1 H2 Hn Hp Hd Hf; cbn [ia_levels]; [apply Hd|].
  apply S_ia_level; auto; [lia|now left|]. intros s' ps' Hp'. apply IH; auto; lia.
Qed.

Lemma S_insert_at {R} fuel s key new h ps (k : TL -> bool -> prog R) kf :
  (1 <= h <= MAXH)%nat -> ins_pre key new -> pos_full key true ps ->
  (forall s' b, SAFE (k s' b)) -> SAFE kf -> SAFE (insert_at fuel s key new h ps k kf).
Proof.
  intros Hh Hn Hp Hk Hf. unfold insert_at. apply S_ia_clear_upper.
  destruct (Hp 0%nat ltac:(unfold MAXH; lia)) as [P1 P2].
  apply S_st; [cbn [fst]; eapply new_succ0; eauto|]. intros _.
  apply S_cas; [cbn [fst]; eapply below_new; eauto|]. intros ok c _. cbn [vok]. destruct ok; cbn [negb]; [|apply Hk].
  apply S_ia_levels; auto; [lia|now apply pos_full_weaken].
Qed.

(** *** find_fastpath: loads and guard operations only *)
Lemma S_ff_level {R} fuel : forall s key g0 g1 lvl pred cur (k : ff_out -> ptr -> prog R) kf,
  (forall o p, SAFE (k o p)) -> SAFE kf -> SAFE (ff_level fuel s key g0 g1 lvl pred cur k kf).
Proof.
  induction fuel as [|f IH]; intros s key g0 g1 lvl pred cur k kf Hk Hf; cbn [ff_level]; [exact Hf|].
  destruct (Nat.eqb (fst cur) null && negb (snd cur)); [apply Hk|]. destruct (snd cur); [apply Hk|].
  destruct (cmpk (fst cur) key <? 0).
  - apply S_copy. apply S_ga_protect; [exact Hf|]. intros nx _. now apply IH.
  - destruct (cmpk (fst cur) key =? 0); [|apply Hk]. apply S_ld. intros x _. cbn [vp]. destruct (snd x); apply Hk.
Qed.

Lemma S_ff_levels {R} fuel : forall n s key g0 g1 pred (k : ff_out -> prog R) kf,
  (forall o, SAFE (k o)) -> SAFE kf -> SAFE (ff_levels fuel n s key g0 g1 pred k kf).
Proof.
  induction n as [|lvl IH]; intros s key g0 g1 pred k kf Hk Hf; cbn [ff_levels]; [apply Hk|].
  apply S_ga_protect; [exact Hf|]. intros cur _. apply S_ff_level; [|exact Hf].
  intros o p. destruct o; try apply Hk. now apply IH.
Qed.

Lemma S_find_fastpath {R} fuel : forall s key g0 g1 attempt (k : ff_out -> prog R) kf,
  (forall o, SAFE (k o)) -> SAFE kf -> SAFE (find_fastpath fuel s key g0 g1 attempt k kf).
Proof.
  induction fuel as [|f IH]; intros s key g0 g1 attempt k kf Hk Hf; cbn [find_fastpath]; [exact Hf|].
  nx. apply S_ff_levels; [|exact Hf]. intros o. destruct o; try apply Hk.
  destruct (Nat.ltb (S attempt) 4); [now apply IH|apply Hk].
Qed.

(** *** the operations *)
Definition op_ok (o : op) : Prop :=
  match o with
  | OIns k h => (k < 8)%nat /\ (1 <= h <= MAXH)%nat
  | _ => True
  end.

Lemma mk_node_isnode s k : isnode (mk_node s k).
Proof. unfold isnode, mk_node. lia. Qed.
Lemma mk_node_key s k : (k < 8)%nat -> key_of (mk_node s k) = Z.of_nat k.
Proof.
  intros H. unfold key_of, mk_node. f_equal. replace (2 + 8 * s + k - 2)%nat with (k + s * 8)%nat by lia.
  rewrite Nat.mod_add by lia. now apply Nat.mod_small.
Qed.

Lemma S_finish {R} s a b (k : TL -> prog R) : (forall s', SAFE (k s')) -> SAFE (finish s a b k).
Proof. intros H. unfold finish. apply S_emit, H. Qed.
Lemma S_out_of_fuel {R} s (k : TL -> prog R) : (forall s', SAFE (k s')) -> SAFE (out_of_fuel s k).
Proof. intros H. unfold out_of_fuel. apply S_emit, H. Qed.

Lemma S_insert_loop {R} fuel : forall s key new h tower ps (k : TL -> bool -> prog R) kf,
  (1 <= h <= MAXH)%nat -> ins_pre key new -> (forall s' b, SAFE (k s' b)) -> SAFE kf ->
  SAFE (insert_loop fuel s key new h tower ps k kf).
Proof.
  induction fuel as [|f IH]; intros s key new h tower ps k kf Hh Hn Hk Hf; cbn [insert_loop]; [exact Hf|].
  apply S_find_position; [|exact Hf]. intros s1 o [Ho _]. destruct o as [ps1|ps1|]; try apply Hk.
  cbn [fp_post] in Ho.
  assert (Hins : SAFE (insert_at (S f) s1 key new h ps1
            (fun s2 ok => if ok then Act a_ld_hgt (fun _ => Act a_faa_cnt (fun _ => k s2 true))
                          else insert_loop f s2 key new h true ps1 k kf) kf)).
  { apply S_insert_at; auto. intros s2 b. destruct b; [nx; nx; apply Hk|now apply IH]. }
  destruct tower; [exact Hins|]. destruct (Nat.ltb 1 h); [|exact Hins]. apply S_st_unl; [lia|]. intros _. exact Hins.
Qed.

Lemma S_op_insert {R} fuel s k h (cont : TL -> prog R) :
  (k < 8)%nat -> (1 <= h <= MAXH)%nat -> (forall s', SAFE (cont s')) -> SAFE (op_insert fuel s k h cont).
Proof.
  intros Hk Hh Hc. unfold op_insert. apply S_st_unl; [unfold MAXH; lia|]. intros _.
  destruct (alloc1 _) as [gnew s1]. apply S_assign. destruct (allocn _ s1) as [slots s2].
  apply S_insert_loop; auto.
  - split; [apply mk_node_isnode|unfold node_id; now apply mk_node_key].
  - intros s' b. apply S_free_all. intros s''. apply S_clear. apply S_finish, Hc.
  - apply S_free_all. intros s''. apply S_clear. apply S_out_of_fuel, Hc.
Qed.

Lemma S_op_erase {R} fuel s k (cont : TL -> prog R) : (forall s', SAFE (cont s')) -> SAFE (op_erase fuel s k cont).
Proof.
  intros Hc. unfold op_erase. destruct (allocn _ s) as [slots s1].
  assert (Hf : SAFE (g_free_all s1 slots (fun s' => out_of_fuel s' cont))) by (apply S_free_all; intros; apply S_out_of_fuel, Hc).
  apply S_find_position; [|exact Hf]. intros s2 o [Ho Hn]. destruct o as [ps|ps|].
  - cbn [fp_post] in Ho. destruct Ho as [(X & _)|(Hp & Hcur)]; [discriminate|]. specialize (Hn eq_refl).
    destruct (alloc1 s2) as [gdel s3]. apply S_guard_h. intros h Hh. nx. cbn [vz]. rewrite Nat2Z.id.
    apply S_try_remove_at; auto; [now apply (fp_rem_pre (Z.of_nat k))|].
    intros s4 b. destruct b; [nx|]; apply S_clear, S_free_all; intros; apply S_finish, Hc.
  - apply S_free_all. intros. apply S_finish, Hc.
  - apply S_free_all. intros. apply S_finish, Hc.
Qed.

Lemma S_op_contains {R} fuel s k (cont : TL -> prog R) : (forall s', SAFE (cont s')) -> SAFE (op_contains fuel s k cont).
Proof.
  intros Hc. unfold op_contains. destruct (allocn 2 s) as [gs s1].
  apply S_find_fastpath.
  - intros o. apply S_free_all. intros s2. destruct o; try (apply S_finish, Hc).
    destruct (allocn _ s2) as [slots s3]. apply S_find_position.
    + intros s4 o' _. apply S_free_all. intros s5. destruct o'; apply S_finish, Hc.
    + apply S_free_all. intros. apply S_out_of_fuel, Hc.
  - apply S_free_all. intros. apply S_out_of_fuel, Hc.
Qed.

Lemma S_extract_loop {R} fuel : forall mx s gp ps (k : TL -> option nat -> option ptr -> prog R) kf,
  (forall s' g r, SAFE (k s' g r)) -> (forall s' g, SAFE (kf s' g)) -> SAFE (extract_loop fuel mx s gp ps k kf).
Proof.
  induction fuel as [|f IH]; intros mx s gp ps k kf Hk Hf; cbn [extract_loop]; [apply Hf|].
  assert (Hbody : forall s1 ps1, (pcur ps1 = null \/ rem_pre ps1 (pcur ps1)) ->
     SAFE (if Nat.eqb (pcur ps1) null then k s1 gp None
           else let del := pcur ps1 in
                let (g, s2) := match gp with Some g => (g, s1) | None => alloc1 s1 end in
                Act (a_guard_st_h (tid s2) g del) (fun vh =>
                  try_remove_at (S f) s2 del (Z.to_nat (vz vh)) ps1 (fun s3 ok =>
                    if ok then Act a_fas_cnt (fun _ => k s3 (Some g) (Some del)) else extract_loop f mx s3 (Some g) ps1 k kf)
                    (kf s2 (Some g))))).
  { intros s1 ps1 Hp. destruct (Nat.eqb (pcur ps1) null) eqn:E; [apply Hk|].
    destruct Hp as [Hp|Hp]; [apply Nat.eqb_neq in E; congruence|].
    cbv zeta. destruct (match gp with Some g => (g, s1) | None => alloc1 s1 end) as [g s2].
    apply S_guard_h. intros h Hh. cbn [vz]. rewrite Nat2Z.id. apply S_try_remove_at; auto.
    intros s3 b. destruct b; [nx; apply Hk|now apply IH]. }
  destruct mx; [apply S_find_max_position|apply S_find_min_position]; auto.
Qed.

Lemma S_op_extract {R} fuel mx s (cont : TL -> prog R) : (forall s', SAFE (cont s')) -> SAFE (op_extract fuel mx s cont).
Proof.
  intros Hc. unfold op_extract. destruct (allocn _ s) as [slots s1]. apply S_extract_loop.
  - intros s2 gp r. destruct r as [del|].
    + apply S_free_all. intros s3. destruct gp as [g|]; [nx; nx; apply S_clear|]; apply S_finish, Hc.
    + destruct gp as [g|]; [apply S_clear|]; apply S_free_all; intros; apply S_finish, Hc.
  - intros s2 gp. apply S_free_all. intros s3. destruct gp as [g|]; [apply S_clear|]; apply S_out_of_fuel, Hc.
Qed.

Lemma S_run_ops fuel : forall os s, Forall op_ok os -> SAFE (run_ops fuel s os).
Proof.
  induction os as [|o r IH]; intros s Hok; cbn [run_ops]; [apply S_ret|].
  inversion Hok as [|? ? Ho Hr]; subst. unfold run_op. destruct o as [k h| k | k | |]; apply S_emit.
  - destruct Ho. apply S_op_insert; auto.
  - apply S_op_erase; auto.
  - apply S_op_contains; auto.
  - apply S_op_extract; auto.
  - apply S_op_extract; auto.
Qed.

Lemma S_thread fuel t os : Forall op_ok os -> SAFE (thread_prog fuel t os).
Proof. intros H. unfold thread_prog. nx. now apply S_run_ops. Qed.

(** ** the initial state *)
Fixpoint nodes_ok (nodes : list (nat * nat)) : Prop :=
  match nodes with
  | [] => True
  | (k, h) :: r => (k < 8)%nat /\ (1 <= h <= MAXH)%nat /\ Forall (fun kh => (k < fst kh)%nat) r /\ nodes_ok r
  end.

Lemma pre_node_key k : (k < 8)%nat -> key_of (pre_node k) = Z.of_nat k.
Proof. intros H. unfold pre_node, node_id. now apply mk_node_key. Qed.
Lemma pre_node_inj k k' : pre_node k = pre_node k' -> k = k'.
Proof. unfold pre_node, node_id, mk_node. lia. Qed.
Lemma pre_node_not_head k : pre_node k <> head.
Proof. unfold pre_node, node_id, mk_node, head. lia. Qed.

Lemma next_at_in l r : next_at l r = null \/ exists k h, In (k, h) r /\ next_at l r = pre_node k.
Proof.
  induction r as [|[k h] r IH]; cbn [next_at]; [now left|].
  destruct (Nat.ltb l h); [right; exists k, h; split; [now left|reflexivity]|].
  destruct IH as [IH|(k' & h' & Hin & E)]; [now left|right]. exists k', h'. split; [now right|exact E].
Qed.

Lemma nodes_ok_in nodes k h : nodes_ok nodes -> In (k, h) nodes -> (k < 8)%nat /\ (1 <= h <= MAXH)%nat.
Proof.
  induction nodes as [|[k' h'] r IH]; cbn [nodes_ok In]; [tauto|]. intros (H1 & H2 & H3 & H4) [E|Hin]; [inversion E; subst; auto|auto].
Qed.

Lemma link_all_spec nodes : nodes_ok nodes ->
  let g := link_all nodes g_empty in
  (forall p l, lnk l p (fst (nxt g p l))) /\ HB g /\ (forall l, nxt g head l = (null, false)).
Proof.
  induction nodes as [|[k h] r IH]; cbn [nodes_ok link_all].
  - intros _. repeat split; [intros p l; now left|intros p; cbn; unfold MAXH; lia].
  - intros (Hk & Hh & Hlt & Hr). destruct (IH Hr) as (I1 & I2 & I3). cbv zeta. repeat split.
    + intros p l. cbn [nxt]. destruct (Nat.eqb_spec p (pre_node k)) as [->|Np]; [|apply I1].
      destruct (Nat.ltb l h); [|now left]. cbn [fst].
      destruct (next_at_in l r) as [->|(k' & h' & Hin & ->)]; [now left|right].
      rewrite Forall_forall in Hlt. specialize (Hlt _ Hin). cbn [fst] in Hlt.
      destruct (nodes_ok_in _ _ _ Hr Hin) as [Hk' _].
      split; [apply mk_node_isnode|]. right. split; [apply mk_node_isnode|].
      rewrite !pre_node_key by assumption. destruct l; lia.
    + intros p. cbn [hgt_of]. unfold upd1. destruct (Nat.eqb p (pre_node k)); [lia|apply I2].
    + intros l. cbn [nxt]. destruct (Nat.eqb_spec head (pre_node k)) as [E|_]; [exfalso; eapply pre_node_not_head; eauto|apply I3].
Qed.

Lemma init_ok_state nodes : nodes_ok nodes -> I (init nodes) /\ HB (init nodes).
Proof.
  intros Hn. destruct (link_all_spec nodes Hn) as (I1 & I2 & I3). unfold init. split.
  - intros p l. cbn [nxt]. destruct (Nat.eqb_spec p head) as [->|_]; [|apply I1]. cbn [fst].
    destruct (next_at_in l nodes) as [->|(k' & h' & Hin & ->)]; [now left|right]. split; [apply mk_node_isnode|now left].
  - exact I2.
Qed.

Lemma init_cfg_ok fuel nodes ths :
  nodes_ok nodes -> Forall (Forall op_ok) ths -> Conc.cfg_ok view Inv (init_cfg fuel nodes ths).
Proof.
  intros Hn Ho. exists tt. split; [exact (init_ok_state nodes Hn)|].
  intros t p Hp. unfold init_cfg in Hp. cbn [Conc.threads] in Hp. rewrite nth_error_map in Hp.
  destruct (nth_error (combine (seq 0 (List.length ths)) ths) t) as [[t' os]|] eqn:E; [|discriminate].
  injection Hp as <-. cbn [fst snd]. apply S_thread.
  apply nth_error_In in E. apply in_combine_r in E. rewrite Forall_forall in Ho. now apply Ho.
Qed.

(** ** the theorem: for every schedule, every link is in key order *)
Theorem skip_links_sorted fuel nodes ths c :
  nodes_ok nodes -> Forall (Forall op_ok) ths ->
  Conc.reach (init_cfg fuel nodes ths) c -> I (Conc.shared c).
Proof.
  intros Hn Ho Hr. destruct (Conc.reach_Inv (init_cfg_ok fuel nodes ths Hn Ho) Hr) as (a & Hi & _). exact Hi.
Qed.

(** the nodes reachable from [p] by at most [n] links at level [l] (marks ignored: logically deleted nodes that are
    still linked are included, so the statement below is about more than the abstract set) *)
Fixpoint chain (g : G) (l : nat) (p : ptr) (n : nat) : list ptr :=
  match n with
  | O => []
  | S n' => let q := fst (nxt g p l) in if Nat.eqb q null then [] else q :: chain g l q n'
  end.

Fixpoint strictly_inc (l : list Z) : Prop :=
  match l with
  | [] => True
  | x :: r => Forall (Z.lt x) r /\ strictly_inc r
  end.
Fixpoint weakly_inc (l : list Z) : Prop :=
  match l with
  | [] => True
  | x :: r => Forall (Z.le x) r /\ weakly_inc r
  end.

Lemma chain_sorted0 g : I g -> forall n p, (p = head \/ isnode p) ->
  Forall (fun q => isnode q /\ (p = head \/ key_of p < key_of q)) (chain g 0 p n) /\ strictly_inc (map key_of (chain g 0 p n)).
Proof.
  intros Hi. induction n as [|n IH]; intros p Hp; cbn [chain]; [split; [constructor|exact Logic.I]|].
  cbv zeta. destruct (Nat.eqb (fst (nxt g p 0)) null) eqn:E; [split; [constructor|exact Logic.I]|].
  pose proof (lnk_ltp _ _ _ (Hi p 0%nat) (eqb_null _ E)) as (Hq & Hpq).
  destruct (IH (fst (nxt g p 0)) (or_intror Hq)) as [F S]. cbn [map strictly_inc]. split.
  - constructor; [split; [exact Hq|destruct Hpq as [->|(_ & H)]; auto]|].
    eapply Forall_impl; [|exact F]. intros q (Hq1 & Hq2). split; [exact Hq1|].
    destruct Hpq as [->|(_ & H)]; [now left|right]. destruct Hq2 as [Hq2|Hq2]; [unfold isnode, head in *; lia|lia].
  - split; [|exact S]. rewrite Forall_map. eapply Forall_impl; [|exact F]. intros q (_ & [H|H]); [unfold isnode, head in *; lia|exact H].
Qed.

Lemma chain_sortedL g l : I g -> forall n p, (p = head \/ isnode p) ->
  Forall (fun q => isnode q /\ (p = head \/ key_of p <= key_of q)) (chain g l p n) /\ weakly_inc (map key_of (chain g l p n)).
Proof.
  intros Hi. induction n as [|n IH]; intros p Hp; cbn [chain]; [split; [constructor|exact Logic.I]|].
  cbv zeta. destruct (Nat.eqb (fst (nxt g p l)) null) eqn:E; [split; [constructor|exact Logic.I]|].
  pose proof (lnk_ltp _ _ _ (Hi p l) (eqb_null _ E)) as (Hq & Hpq).
  assert (Hle : p = head \/ key_of p <= key_of (fst (nxt g p l))) by (destruct Hpq as [->|(_ & H)]; [now left|right; destruct l; lia]).
  destruct (IH (fst (nxt g p l)) (or_intror Hq)) as [F S]. cbn [map weakly_inc]. split.
  - constructor; [split; assumption|].
    eapply Forall_impl; [|exact F]. intros q (Hq1 & Hq2). split; [exact Hq1|].
    destruct Hle as [->|H]; [now left|right]. destruct Hq2 as [Hq2|Hq2]; [unfold isnode, head in *; lia|lia].
  - split; [|exact S]. rewrite Forall_map. eapply Forall_impl; [|exact F]. intros q (_ & [H|H]); [unfold isnode, head in *; lia|exact H].
Qed.

(** level 0: strictly increasing keys — no key twice, whatever the schedule *)
Theorem skip_level0_sorted_nodup fuel nodes ths c n :
  nodes_ok nodes -> Forall (Forall op_ok) ths -> Conc.reach (init_cfg fuel nodes ths) c ->
  strictly_inc (map key_of (chain (Conc.shared c) 0 head n)).
Proof.
  intros Hn Ho Hr. apply chain_sorted0; [eapply skip_links_sorted; eauto|now left].
Qed.

Theorem skip_every_level_sorted fuel nodes ths c l n :
  nodes_ok nodes -> Forall (Forall op_ok) ths -> Conc.reach (init_cfg fuel nodes ths) c ->
  weakly_inc (map key_of (chain (Conc.shared c) l head n)).
Proof.
  intros Hn Ho Hr. apply chain_sortedL; [eapply skip_links_sorted; eauto|now left].
Qed.

(** ** the configurations of [run_case] (what the correspondence runs execute) satisfy the hypotheses *)
Lemma nodes_ok_filter f nodes : nodes_ok nodes -> nodes_ok (filter f nodes).
Proof.
  induction nodes as [|[k h] r IH]; cbn [nodes_ok filter]; [auto|]. intros (H1 & H2 & H3 & H4).
  destruct (f (k, h)); [|auto]. cbn [nodes_ok]. split; [exact H1|]. split; [exact H2|]. split; [|apply IH; exact H4].
  rewrite Forall_forall in *. intros x Hx. apply H3. apply filter_In in Hx. tauto.
Qed.

Lemma prefill_nodes_ok cfg : nodes_ok (prefill_nodes cfg).
Proof.
  unfold prefill_nodes. apply nodes_ok_filter. cbn [seq map nodes_ok fst]. unfold MAXH.
  repeat split; try lia; repeat constructor; cbn [fst]; lia.
Qed.

Lemma decode_ops_ok os : Forall op_ok (decode_ops os).
Proof.
  induction os as [|o r IH]; cbn [decode_ops]; [constructor|].
  destruct (decode_op o) as [x|] eqn:E; [|exact IH]. constructor; [|exact IH].
  unfold decode_op in E. destruct o as [|c rest]; [discriminate|].
  destruct (c =? 1).
  - destruct rest as [|k [|h rest']]; try discriminate; injection E as <-; cbn [op_ok]; unfold MAXH; lia.
  - destruct (c =? 6); [destruct rest; [discriminate|injection E as <-; exact Logic.I]|].
    destruct (c =? 10); [destruct rest; [discriminate|injection E as <-; exact Logic.I]|].
    destruct (c =? 13); [injection E as <-; exact Logic.I|].
    destruct (c =? 14); [injection E as <-; exact Logic.I|discriminate].
Qed.

Theorem run_case_level0_sorted cfg ths c n :
  Conc.reach (init_cfg 60 (prefill_nodes cfg) (map decode_ops ths)) c ->
  strictly_inc (map key_of (chain (Conc.shared c) 0 head n)).
Proof.
  intros Hr. apply (skip_level0_sorted_nodup 60 (prefill_nodes cfg) (map decode_ops ths) c n (prefill_nodes_ok cfg)); [|exact Hr].
  apply Forall_forall. intros os Hin. apply in_map_iff in Hin. destruct Hin as (x & <- & _). apply decode_ops_ok.
Qed.

(** ** the client-visible history of a trace, as a [SetSpec] history (extract_min/max -> k presented as erase k,
    as in checks/C15.py and Proofs/SkipSeqEncoding.v); used to STATE linearizability of the model *)
From LV Require Import Base.Lin Spec.Specs.

Definition enc_op (code k a b : Z) : set_op :=
  if code =? 1 then SInsert k
  else if code =? 6 then SErase k
  else if code =? 10 then SContains k
  else if a =? 1 then SErase b
  else if code =? 13 then SExtractMin else SExtractMax.
Definition enc_res (code a : Z) : res :=
  if (code =? 13) || (code =? 14) then (if a =? 1 then RBool true else RVal None) else RBool (a =? 1).

(** the response of thread t's operation invoked at the head of [tr] *)
Fixpoint first_res (t : nat) (tr : list (nat * ev)) : option (Z * Z) :=
  match tr with
  | [] => None
  | (t', EvCli name [a; b]) :: r => if Nat.eqb t' t && String.eqb name "res" then Some (a, b) else first_res t r
  | _ :: r => first_res t r
  end.

Fixpoint history_of (pend : nat -> Z) (tr : list (nat * ev)) : history SetSpec :=
  match tr with
  | [] => []
  | (t, EvCli name [x; y]) :: r =>
      if String.eqb name "inv" then
        match first_res t r with
        | Some (a, b) => @HInv SetSpec t (enc_op x y a b) :: history_of (fun u => if Nat.eqb u t then x else pend u) r
        | None => @HInv SetSpec t (enc_op x y 0 0) :: history_of (fun u => if Nat.eqb u t then x else pend u) r
        end
      else if String.eqb name "res" then @HRes SetSpec t (enc_res (pend t) x) :: history_of pend r
      else history_of pend r
  | _ :: r => history_of pend r
  end.

(** prefilled keys are inserted (by a thread 90) before the run *)
Definition prefill_history (nodes : list (nat * nat)) : history SetSpec :=
  flat_map (fun kh => [@HInv SetSpec 90%nat (SInsert (Z.of_nat (fst kh))); @HRes SetSpec 90%nat (RBool true)]) nodes.

Definition client_history (nodes : list (nat * nat)) (tr : list (nat * ev)) : history SetSpec :=
  prefill_history nodes ++ history_of (fun _ => 0) tr.
