(** * FreeListOpen: the FreeList invariant in an OPEN world.

    README (for users, e.g. the DHP proofs): at the end of LV.Proofs.FreeListOpenDhpThm.

    This file: three extensions of the closed-world state invariant [InvS] of LV.Proofs.FreeListInv that
    are needed when the free list is a component of a larger system:
      - [InvS_Geq]    the invariant only looks at head / refs / next of the instance (pointwise);
      - [transfer2]   a node moves between the custody of a thread (phases PPut n / PRet n) and a pool of
                      nodes that are "out" (owned by the rest of the system): the pool is the held list of
                      an idle place-holder thread;
      - [create]      a node that did not exist comes into existence in the pool (its next pointer may be
                      written by the same step). *)
From Coq Require Import ZArith List String Bool Lia PeanoNat.
From LV Require Import Base.Conc Base.Events Model.FreeList Proofs.FreeListBase Proofs.FreeListInv Proofs.FreeListSteps.
Import ListNotations.
Local Open Scope Z_scope.

Definition Geq (g1 g2 : G) : Prop :=
  head g1 = head g2 /\ (forall n, refs g1 n = refs g2 n) /\ (forall n, next g1 n = next g2 n).

Lemma Geq_refl g : Geq g g.
Proof. repeat split. Qed.
Lemma Geq_sym g1 g2 : Geq g1 g2 -> Geq g2 g1.
Proof. intros (A & B & C). repeat split; auto. Qed.
Lemma Geq_trans g1 g2 g3 : Geq g1 g2 -> Geq g2 g3 -> Geq g1 g3.
Proof. intros (A & B & C) (A' & B' & C'). repeat split; intros; congruence. Qed.

Fixpoint remove1 (n : nat) (l : list nat) : list nat :=
  match l with [] => [] | x :: r => if Nat.eqb x n then r else x :: remove1 n r end.

Lemma remove1_spec n l : NoDup l ->
  NoDup (remove1 n l) /\ ~ In n (remove1 n l) /\ forall m, m <> n -> (In m (remove1 n l) <-> In m l).
Proof.
  induction l as [|x r IH]; intros Hnd; cbn; [repeat split; auto; constructor|].
  inversion Hnd; subst. destruct (Nat.eqb_spec x n) as [->|Hx].
  - split; [assumption|]. split; [assumption|]. intros m Hm. cbn. split; [tauto|]. intros [E|E]; [congruence|exact E].
  - destruct (IH H2) as (A & B & C). split; [|split].
    + constructor; [|exact A]. intros Hin. apply H1. destruct (Nat.eq_dec x n); [congruence|]. apply (C x); assumption.
    + intros [E|E]; [congruence|contradiction].
    + intros m Hm. cbn. rewrite (C m Hm). tauto.
Qed.

Section Open.
  Variable N : nat.
  Variable valid0 : nat -> bool.
  Notation InvS := (InvS N valid0).

  Lemma InvS_Geq g g' a : Geq g g' -> InvS g a -> InvS g' a.
  Proof.
    intros (Eh & Er & En) Hi. constructor.
    - apply (S_valid Hi).
    - intros n. rewrite <- Er. apply (S_refs Hi).
    - apply (S_st Hi).
    - rewrite <- Eh. apply chain_ext with (nx := next g); [intros; symmetry; apply En|apply (S_chain Hi)].
    - apply (S_lnd Hi).
    - apply (S_lin Hi).
    - intros t. pose proof (S_ph Hi t) as Ho. destruct (ph a t); cbn in *; rewrite <- ?En; exact Ho.
    - apply (S_held Hi).
    - apply (S_hnd Hi).
    - apply (S_out Hi).
  Qed.

  (** a node moves between thread [t] (claim PPut n / PRet n) and the pool = held list of the idle thread [t2] *)
  Lemma transfer2 g a t t2 n p' H2' s' :
    InvS g a -> (t < N)%nat -> (t2 < N)%nat -> t <> t2 -> ph a t2 = Idle ->
    (forall m, has_ref p' m = false) -> (forall m, has_ref (ph a t) m = false) ->
    (((ph a t = PPut n \/ ph a t = PRet n) /\ node_of p' = None /\ H2' = n :: hl a t2 /\ s' = Held t2) \/
     (node_of (ph a t) = None /\ (p' = PPut n \/ p' = PRet n) /\ In n (hl a t2) /\ H2' = remove1 n (hl a t2) /\ s' = Held t)) ->
    InvS g (mkA (upd (st a) n s') (lst a) (upd (ph a) t p') (upd (hl a) t2 H2') (own a)).
  Proof.
    intros Hi Ht Ht2 Hne Hp2 Hr' Hr Hcase.
    assert (Hcnt : forall m, cnt N (mkA (upd (st a) n s') (lst a) (upd (ph a) t p') (upd (hl a) t2 H2') (own a)) m = cnt N a m).
    { intros m. unfold cnt. apply count_ext. intros tq _. cbn. unfold upd.
      destruct (Nat.eqb_spec tq t) as [->|_]; [rewrite Hr', Hr|]; reflexivity. }
    assert (Hst : exists tw, st a n = Held tw /\ (tw = t \/ tw = t2) /\ ~ In n (hl a t) /\ (s' = Held t \/ s' = Held t2)).
    { destruct Hcase as [(E1 & _ & _ & E5)|(_ & _ & E3 & _ & E5)].
      - pose proof (S_ph Hi t) as Hx. exists t. destruct E1 as [E1|E1]; rewrite E1 in Hx; cbn in Hx; destruct Hx; tauto.
      - assert (E : st a n = Held t2) by (apply (S_held Hi); exact E3).
        exists t2. repeat split; auto. intros Hin. apply (S_held Hi) in Hin. congruence. }
    destruct Hst as (tw & Hstn & Htw & Hnin & Hs').
    assert (Hfl : flag_of s' = flag_of (st a n) /\ base_of s' = base_of (st a n)).
    { rewrite Hstn. destruct Hs' as [-> | ->]; split; reflexivity. }
    (* facts about the new pool *)
    assert (Hpool : NoDup H2' /\ (forall m, m <> n -> (In m H2' <-> In m (hl a t2))) /\ (In n H2' <-> s' = Held t2)).
    { destruct Hcase as [(E1 & _ & -> & ->)|(_ & _ & E3 & -> & ->)].
      - assert (Hn2 : ~ In n (hl a t2)).
        { intros Hin. apply (S_held Hi) in Hin. pose proof (S_ph Hi t) as Hx.
          destruct E1 as [E1|E1]; rewrite E1 in Hx; cbn in Hx; destruct Hx as [Hx _]; congruence. }
        split; [constructor; [exact Hn2|apply (S_hnd Hi)]|]. split.
        + intros m Hm. cbn. split; [intros [E|E]; [congruence|exact E]|tauto].
        + split; [reflexivity|]. intros _. left; reflexivity.
      - destruct (remove1_spec n (hl a t2) (S_hnd Hi t2)) as (A & B & C). split; [exact A|]. split; [exact C|].
        split; [contradiction|]. intros E. injection E as E. congruence. }
    destruct Hpool as (Hnd2 & Hin2 & Hn2).
    assert (Hclaim' : forall tq, tq <> t -> ph a tq <> PPut n /\ ph a tq <> PRet n \/ tw = tq).
    { intros tq Hq. destruct (Nat.eq_dec tw tq) as [E|E]; [right; exact E|left].
      pose proof (S_ph Hi tq) as Hx. split; intros E'; rewrite E' in Hx; cbn in Hx; destruct Hx as [Hx _]; congruence. }
    constructor; cbn [st lst ph hl].
    - intros m. unfold upd. destruct (Nat.eqb_spec m n) as [->|Hm]; [|apply (S_valid Hi)].
      split; [destruct Hs' as [-> | ->]; discriminate|]. intros Hv. apply (S_valid Hi) in Hv. congruence.
    - intros m. rewrite Hcnt. unfold upd. destruct (Nat.eqb_spec m n) as [->|Hm]; [|apply (S_refs Hi)].
      destruct Hfl as [-> ->]. apply (S_refs Hi).
    - intros m. unfold FreeListInv.st_ok. rewrite Hcnt. cbn [st ph hl].
      pose proof (S_st Hi m) as Ho. unfold FreeListInv.st_ok in Ho.
      unfold upd at 1. destruct (Nat.eqb_spec m n) as [->|Hm].
      + destruct Hcase as [(_ & _ & -> & ->)|(_ & Hp' & _ & _ & ->)].
        * left. rewrite upd_same. left; reflexivity.
        * rewrite upd_same. destruct Hp' as [-> | ->]; tauto.
      + destruct (st a m) as [|tm|tm| | |tm|tm] eqn:Es; auto.
        * destruct (Nat.eq_dec tm t2) as [->|H2].
          -- rewrite upd_same. left. rewrite Hp2 in Ho. destruct Ho as [Ho|[Ho|Ho]]; try discriminate. apply Hin2; assumption.
          -- rewrite (upd_other (hl a) t2 H2' tm H2). destruct (Nat.eq_dec tm t) as [->|H1].
             ++ destruct Ho as [Ho|[Ho|Ho]]; [left; exact Ho| |]; exfalso;
                  (destruct Hcase as [([E1|E1] & _)|(E1 & _)]; rewrite Ho in E1; [congruence|congruence|discriminate]).
             ++ rewrite (upd_other (ph a) t p' tm H1). exact Ho.
        * destruct (Nat.eq_dec tm t) as [->|H1]; [|rewrite (upd_other (ph a) t p' tm H1); exact Ho].
          exfalso. destruct Hcase as [([E1|E1] & _)|(E1 & _)]; rewrite Ho in E1; discriminate.
        * destruct Ho as [Hc Ho]. split; [exact Hc|].
          destruct (Nat.eq_dec tm t) as [->|H1]; [|rewrite (upd_other (ph a) t p' tm H1); exact Ho].
          exfalso. destruct Hcase as [([E1|E1] & _)|(E1 & _)]; destruct Ho as [Ho|[h Ho]]; rewrite Ho in E1; discriminate.
        * destruct (Nat.eq_dec tm t) as [->|H1]; [|rewrite (upd_other (ph a) t p' tm H1); exact Ho].
          exfalso. destruct Hcase as [([E1|E1] & _)|(E1 & _)]; destruct Ho as [[h Ho]|Ho]; rewrite Ho in E1; discriminate.
    - apply (S_chain Hi).
    - apply (S_lnd Hi).
    - intros m. unfold upd. destruct (Nat.eqb_spec m n) as [->|Hm]; [|apply (S_lin Hi)].
      split; [|destruct Hs' as [-> | ->]; discriminate]. intros Hin. apply (S_lin Hi) in Hin. congruence.
    - intros tq. pose proof (S_ph Hi tq) as Ho.
      destruct (Nat.eq_dec tq t) as [->|Hq].
      + rewrite (upd_same (ph a) t p'), (upd_other (hl a) t2 H2' t Hne).
        destruct Hcase as [(_ & Hp' & _)|(_ & Hp' & _ & _ & ->)].
        * destruct p'; cbn in Hp'; try discriminate; exact I.
        * destruct Hp' as [-> | ->]; cbn; rewrite upd_same; (split; [reflexivity|exact Hnin]).
      + rewrite (upd_other (ph a) t p' tq Hq).
        assert (Hcl : forall m X, st a m = X -> st_owner X = Some tq -> tq <> t2 -> upd (st a) n s' m = X).
        { intros m X E1 E2 H2. unfold upd. destruct (Nat.eqb_spec m n) as [->|Hm]; [|exact E1].
          rewrite Hstn in E1. subst X. cbn in E2. injection E2 as <-. destruct Htw; congruence. }
        destruct (Nat.eq_dec tq t2) as [->|H2]; [rewrite Hp2; exact I|].
        rewrite (upd_other (hl a) t2 H2' tq H2).
        destruct (ph a tq) as [| |m|m|m|m x|m|m|m|m h|m h|m] eqn:Ep; cbn in *; try exact Ho.
        * destruct Ho as [Ho1 Ho2]. split; [eapply Hcl; eauto|exact Ho2].
        * destruct Ho as [Ho1 Ho2]. split; [eapply Hcl; eauto|exact Ho2].
        * eapply Hcl; eauto.
        * eapply Hcl; eauto.
        * destruct Ho as [Ho1 Ho2]. split; [eapply Hcl; eauto|exact Ho2].
        * destruct Ho as [Ho1 Ho2]. split; [eapply Hcl; eauto|exact Ho2].
        * eapply Hcl; eauto.
    - intros tq m Hin. unfold upd in Hin. unfold upd. destruct (Nat.eqb_spec tq t2) as [->|H2].
      + destruct (Nat.eqb_spec m n) as [->|Hm]; [apply Hn2; exact Hin|].
        apply (S_held Hi). apply Hin2; assumption.
      + pose proof (S_held Hi tq m Hin) as E. destruct (Nat.eqb_spec m n) as [->|Hm]; [|exact E].
        rewrite Hstn in E. injection E as <-. destruct Htw as [-> | ->]; [contradiction|congruence].
    - intros tq. unfold upd. destruct (Nat.eqb_spec tq t2); [exact Hnd2|apply (S_hnd Hi)].
    - intros tq Hq. assert (H2 : tq <> t2) by lia. assert (H1 : tq <> t) by lia.
      rewrite !upd_other by assumption. apply (S_out Hi); exact Hq.
  Qed.
End Open.

(** a node that did not exist ([st a n = Nil], hence refs n = 0 and nobody holds a reference on it) comes into
    existence in the pool of the idle thread [t2]; the step may write its next pointer *)
Lemma create N valid0 g g' a t2 n :
  InvS N valid0 g a -> (t2 < N)%nat -> ph a t2 = Idle -> st a n = Nil -> n <> O ->
  head g' = head g -> (forall m, refs g' m = refs g m) -> (forall m, m <> n -> next g' m = next g m) ->
  InvS N (fun m => if Nat.eqb m n then true else valid0 m) g'
       (mkA (upd (st a) n (Held t2)) (lst a) (ph a) (upd (hl a) t2 (n :: hl a t2)) (own a)).
Proof.
  intros Hi Ht2 Hp2 Hnil Hnz Eh Er En.
  assert (Hnl : ~ In n (lst a)). { intros Hin. apply (S_lin Hi) in Hin. congruence. }
  assert (Hn2 : forall tq, ~ In n (hl a tq)). { intros tq Hin. apply (S_held Hi) in Hin. congruence. }
  assert (Hc0 : cnt N a n = O). { pose proof (S_st Hi n) as Ho. unfold st_ok in Ho. rewrite Hnil in Ho. exact Ho. }
  constructor; cbn [st lst ph hl].
  - intros m. unfold upd. destruct (Nat.eqb_spec m n) as [->|Hm]; [split; discriminate|apply (S_valid Hi)].
  - intros m. change (cnt N (mkA (upd (st a) n (Held t2)) (lst a) (ph a) (upd (hl a) t2 (n :: hl a t2)) (own a)) m) with (cnt N a m).
    rewrite Er. unfold upd. destruct (Nat.eqb_spec m n) as [->|Hm]; [|apply (S_refs Hi)].
    rewrite (S_refs Hi n), Hnil. reflexivity.
  - intros m. unfold st_ok. change (cnt N (mkA (upd (st a) n (Held t2)) (lst a) (ph a) (upd (hl a) t2 (n :: hl a t2)) (own a)) m) with (cnt N a m).
    cbn [st ph hl]. pose proof (S_st Hi m) as Ho. unfold st_ok in Ho. unfold upd at 1.
    destruct (Nat.eqb_spec m n) as [->|Hm].
    + left. rewrite upd_same. left; reflexivity.
    + destruct (st a m) as [|tm|tm| | |tm|tm] eqn:Es; auto.
      destruct (Nat.eq_dec tm t2) as [->|H2]; [|rewrite upd_other by exact H2; exact Ho].
      rewrite upd_same. rewrite Hp2 in Ho. destruct Ho as [Ho|[Ho|Ho]]; try discriminate. left. right. exact Ho.
  - rewrite Eh. apply chain_ext with (nx := next g); [|apply (S_chain Hi)]. intros m Hm. apply En. intros ->. contradiction.
  - apply (S_lnd Hi).
  - intros m. unfold upd. destruct (Nat.eqb_spec m n) as [->|Hm]; [|apply (S_lin Hi)]. split; [contradiction|discriminate].
  - intros tq. pose proof (S_ph Hi tq) as Ho.
    assert (Hcl : forall m X, st a m = X -> X <> Nil -> upd (st a) n (Held t2) m = X).
    { intros m X E1 E2. unfold upd. destruct (Nat.eqb_spec m n) as [->|Hm]; [congruence|exact E1]. }
    assert (Hnx : forall m, st a m <> Nil -> next g' m = next g m).
    { intros m Hm. apply En. intros ->. contradiction. }
    assert (Hhl : forall m, ~ In m (hl a tq) -> tq <> t2 -> ~ In m (upd (hl a) t2 (n :: hl a t2) tq)).
    { intros m Hm H2. rewrite upd_other by exact H2. exact Hm. }
    destruct (Nat.eq_dec tq t2) as [->|H2]; [rewrite Hp2; exact I|].
    destruct (ph a tq) as [| |m|m|m|m x|m|m|m|m h|m h|m] eqn:Ep; cbn in *; try exact Ho.
    + destruct Ho as [Ho1 Ho2]. split; [apply Hcl; [exact Ho1|discriminate]|apply Hhl; auto].
    + destruct Ho as [Ho1 Ho2]. split; [apply Hcl; [exact Ho1|discriminate]|apply Hhl; auto].
    + (* GNext m x: tq holds a reference on m, so m is not Nil *)
      rewrite Hnx; [exact Ho|]. intros E. pose proof (S_st Hi m) as Hs. unfold st_ok in Hs. rewrite E in Hs.
      assert (Hlt : (tq < N)%nat) by (eapply active_lt; eauto; congruence).
      assert (Hr : has_ref (ph a tq) m = true) by (rewrite Ep; unfold has_ref; cbn; apply Nat.eqb_refl).
      pose proof (count_pos N (fun t => has_ref (ph a t) m) tq Hlt Hr) as Hpos. unfold cnt in Hs. lia.
    + apply Hcl; [exact Ho|discriminate].
    + apply Hcl; [exact Ho|discriminate].
    + destruct Ho as [Ho1 Ho2]. split; [apply Hcl; [exact Ho1|discriminate]|]. rewrite Hnx; [exact Ho2|congruence].
    + destruct Ho as [Ho1 Ho2]. split; [apply Hcl; [exact Ho1|discriminate]|]. rewrite Hnx; [exact Ho2|congruence].
    + apply Hcl; [exact Ho|discriminate].
  - intros tq m Hin. unfold upd in Hin. unfold upd. destruct (Nat.eqb_spec tq t2) as [->|H2].
    + destruct Hin as [<-|Hin]; [now rewrite Nat.eqb_refl|].
      destruct (Nat.eqb_spec m n) as [->|Hm]; [exfalso; eapply Hn2; eauto|apply (S_held Hi); exact Hin].
    + destruct (Nat.eqb_spec m n) as [->|Hm]; [exfalso; eapply Hn2; eauto|apply (S_held Hi); exact Hin].
  - intros tq. unfold upd. destruct (Nat.eqb_spec tq t2) as [->|H2]; [|apply (S_hnd Hi)].
    constructor; [apply Hn2|apply (S_hnd Hi)].
  - intros tq Hq. assert (H2 : tq <> t2) by lia. rewrite upd_other by exact H2. apply (S_out Hi); exact Hq.
Qed.
