(** * cds::sync::pool_monitor (LV.Model.PoolMon): per-node mutual exclusion, no pool lock installed in two
      nodes, a lock goes back to the pool only when nobody holds or awaits it.  Every schedule, any number of
      threads, nodes and pool capacity.

    Auxiliary state: per thread a phase (program point with the local variables cur / pLock) and the list
    of (node, lock) pairs it has entered; globally, for each node, the list [refs n] of threads that hold a
    counted reference on it (the abstract value of m_RefSpin / 2). *)
From Coq Require Import ZArith List String Bool Lia PeanoNat.
From LV Require Import Base.Conc Base.Events Model.PoolMon.
Import ListNotations.
Local Open Scope string_scope.

(** ** trace-level quantities *)
Definition ev_delta (n : nat) (e : ev) : Z :=
  match e with
  | EvCli name [x] =>
      if Z.eqb x (Z.of_nat n) then
        (if String.eqb name "enter" then 1 else if String.eqb name "leave" then -1 else 0)%Z
      else 0%Z
  | _ => 0%Z
  end.
(** [occ n tr] = #"enter n" - #"leave n": number of threads inside the critical section of node n *)
Fixpoint occ (n : nat) (tr : list (nat * ev)) : Z :=
  match tr with
  | [] => 0%Z
  | (_, e) :: r => (ev_delta n e + occ n r)%Z
  end.
Lemma occ_app n tr tr' : occ n (tr ++ tr') = (occ n tr + occ n tr')%Z.
Proof. induction tr as [|[t e] r IH]; cbn [occ app]; lia. Qed.

(** ** auxiliary state *)
Inductive phase :=
| Idle
| LBitS (n c x : nat)                 (* lock(): CAS done (m_RefSpin = c+3), m_pLock = x *)
| LBitA (n c : nat)                   (* lock(): CAS done, m_pLock = null: must allocate *)
| LWait (n x : nat)                   (* lock(): reference counted, spin bit released, acquiring lock x *)
| LGot (n x : nat)                    (* lock() returned, "enter" not emitted yet *)
| ULeft (n x : nat)                   (* "leave" emitted; unlock(): x still locked *)
| URel (n : nat)                      (* unlock(): x released, reference still counted *)
| UBit (n c : nat) (o : option nat)   (* unlock(): CAS done (m_RefSpin = c+1); o = lock taken off the node *)
| UDe (x : nat).                      (* unlock(): reference dropped; x must go back to the pool *)

Definition tv := (phase * list (nat * nat))%type.
Definition Views := nat -> tv.
Definition Aux := (Views * (nat -> list nat))%type.
Definition view (a : Aux) (t : nat) : tv := fst a t.

Definition b2n (b : bool) : nat := if b then 1 else 0.

Definition cntn (s : list (nat * nat)) (n : nat) : nat := count_occ Nat.eq_dec (map fst s) n.
Definition cntx (s : list (nat * nat)) (x : nat) : nat := count_occ Nat.eq_dec (map snd s) x.

Definition refph (p : phase) (n : nat) : nat :=
  match p with
  | LBitS n' _ _ | LBitA n' _ | LWait n' _ | LGot n' _ | ULeft n' _ | URel n' | UBit n' _ _ => b2n (Nat.eqb n' n)
  | _ => 0
  end.
Definition nrefs (v : tv) (n : nat) : nat := cntn (snd v) n + refph (fst v) n.

Definition bitph (p : phase) (n : nat) : bool :=
  match p with
  | LBitS n' _ _ | LBitA n' _ | UBit n' _ _ => Nat.eqb n' n
  | _ => false
  end.

Definition usesph (p : phase) (n x : nat) : bool :=
  match p with
  | LBitS n' _ x' | LWait n' x' | LGot n' x' | ULeft n' x' => Nat.eqb n' n && Nat.eqb x' x
  | _ => false
  end.
Definition uses (v : tv) (n x : nat) : Prop := In (n, x) (snd v) \/ usesph (fst v) n x = true.

Definition hmph (p : phase) (x : nat) : nat :=
  match p with
  | LGot _ x' | ULeft _ x' => b2n (Nat.eqb x' x)
  | _ => 0
  end.
Definition hm (v : tv) (x : nat) : nat := cntx (snd v) x + hmph (fst v) x.

Definition limbo (p : phase) (x : nat) : bool :=
  match p with
  | UBit _ _ (Some x') | UDe x' => Nat.eqb x' x
  | _ => false
  end.

(** *** pure facts *)
Lemma cntn_cons n x s m : cntn ((n, x) :: s) m = b2n (Nat.eqb n m) + cntn s m.
Proof.
  unfold cntn. cbn [map fst count_occ]. destruct (Nat.eq_dec n m); destruct (Nat.eqb_spec n m); cbn [b2n]; try congruence; lia.
Qed.
Lemma cntx_cons n x s y : cntx ((n, x) :: s) y = b2n (Nat.eqb x y) + cntx s y.
Proof.
  unfold cntx. cbn [map snd count_occ]. destruct (Nat.eq_dec x y); destruct (Nat.eqb_spec x y); cbn [b2n]; try congruence; lia.
Qed.

Lemma In_cntn n x s : In (n, x) s -> cntn s n >= 1.
Proof.
  intros H. unfold cntn. apply (count_occ_In Nat.eq_dec). apply in_map_iff. exists (n, x). auto.
Qed.
Lemma In_cntx n x s : In (n, x) s -> cntx s x >= 1.
Proof.
  intros H. unfold cntx. apply (count_occ_In Nat.eq_dec). apply in_map_iff. exists (n, x). auto.
Qed.
Lemma cntx_In s x : cntx s x >= 1 -> exists n, In (n, x) s.
Proof.
  unfold cntx. intros H. apply (count_occ_In Nat.eq_dec) in H. apply in_map_iff in H.
  destruct H as ([n y] & E & H). cbn in E. subst y. eauto.
Qed.
Lemma cntn_In s n : cntn s n >= 1 -> exists x, In (n, x) s.
Proof.
  unfold cntn. intros H. apply (count_occ_In Nat.eq_dec) in H. apply in_map_iff in H.
  destruct H as ([m y] & E & H). cbn in E. subst m. eauto.
Qed.

Lemma uses_nrefs v n x : uses v n x -> nrefs v n >= 1.
Proof.
  unfold uses, nrefs. intros [H|H].
  - apply In_cntn in H. lia.
  - destruct (fst v); cbn in *; try discriminate; apply andb_true_iff in H; destruct H as [H _]; rewrite H; cbn; lia.
Qed.
Lemma hm_uses v x : hm v x >= 1 -> exists n, uses v n x.
Proof.
  unfold hm, uses. intros H. destruct (Nat.eq_dec (cntx (snd v) x) 0) as [E|E].
  - rewrite E in H. destruct (fst v) as [| | | |n y|n y| | |]; cbn in *; try lia;
      destruct (Nat.eqb_spec y x); cbn in H; try lia; subst; exists n; right; now rewrite !Nat.eqb_refl.
  - destruct (cntx_In (snd v) x) as [n Hn]; [lia|]. exists n. now left.
Qed.

(** ** the invariant, in groups *)
Section Groups.
  Variables (g : G) (vs : Views) (rf : nat -> list nat).

  (** reference counter and spin bit *)
  Definition InvR : Prop :=
    (forall t n, count_occ Nat.eq_dec (rf n) t = nrefs (vs t) n) /\
    (forall n, ((exists t, bitph (fst (vs t)) n = true) /\ refspin g n = 2 * List.length (rf n) + 1) \/
               ((forall t, bitph (fst (vs t)) n = false) /\ refspin g n = 2 * List.length (rf n))) /\
    (forall t t' n, bitph (fst (vs t)) n = true -> bitph (fst (vs t')) n = true -> t = t') /\
    (forall t, match fst (vs t) with
               | LBitS n c _ | LBitA n c => refspin g n = c + 3
               | UBit n c o => refspin g n = c + 1 /\ (c <> 2 -> o = None)
               | _ => True
               end).

  (** the node's lock pointer *)
  Definition InvP : Prop :=
    (forall t n x, uses (vs t) n x -> plock g n = Some x) /\
    (forall t n c, fst (vs t) = LBitA n c -> plock g n = None) /\
    (forall n n' x, plock g n = Some x -> plock g n' = Some x -> n = n').

  (** the node locks as mutexes *)
  Definition InvM : Prop :=
    (forall t x, hm (vs t) x >= 1 -> lspin g x = true) /\
    (forall t t' x, hm (vs t) x >= 1 -> hm (vs t') x >= 1 -> t = t') /\
    (forall t x, hm (vs t) x <= 1) /\
    (forall x, lspin g x = true -> exists t, hm (vs t) x >= 1).

  (** where every lock object is: pool, node, or on its way back to the pool *)
  Definition InvL : Prop :=
    (NoDup (pool g) /\ forall x, In x (pool g) -> x < fresh g) /\
    (forall n x, plock g n = Some x -> ~ In x (pool g) /\ x < fresh g) /\
    (forall t x, limbo (fst (vs t)) x = true -> ~ In x (pool g) /\ x < fresh g /\ forall n, plock g n <> Some x) /\
    (forall t t' x, limbo (fst (vs t)) x = true -> limbo (fst (vs t')) x = true -> t = t').

  (** occupancy *)
  Definition InvO (tr : list (nat * ev)) : Prop :=
    forall n, (occ n tr = 0%Z /\ forall t, cntn (snd (vs t)) n = 0) \/
              (occ n tr = 1%Z /\ exists t, cntn (snd (vs t)) n = 1 /\ forall t', t' <> t -> cntn (snd (vs t')) n = 0).
End Groups.

(** ** allocation discipline of the pool locks, read off the trace alone
    [acnt x tr] = #"pool_alloc x" - #"pool_free x";  [disc tr]: every event is legal after the events before it:
    an access to the spin word of lock x only while x is allocated (acnt = 1), "pool_alloc x" only when x is not
    allocated, "pool_free x" only when it is (no double free). *)
Definition is_lacc (x : nat) (e : ev) : bool :=
  match e with
  | EvAcc _ [2%Z; y] _ => Z.eqb y (Z.of_nat x)
  | _ => false
  end.
Definition ad (x : nat) (e : ev) : Z :=
  match e with
  | EvCli name [y] =>
      if Z.eqb y (Z.of_nat x) then
        (if String.eqb name "pool_alloc" then 1 else if String.eqb name "pool_free" then -1 else 0)%Z
      else 0%Z
  | _ => 0%Z
  end.
Fixpoint acnt (x : nat) (tr : list (nat * ev)) : Z :=
  match tr with
  | [] => 0%Z
  | (_, e) :: r => (ad x e + acnt x r)%Z
  end.
Lemma acnt_app x tr tr' : acnt x (tr ++ tr') = (acnt x tr + acnt x tr')%Z.
Proof. induction tr as [|[t e] r IH]; cbn [acnt app]; lia. Qed.

Definition ev_ok (pre : list (nat * ev)) (e : ev) : Prop :=
  forall x, (is_lacc x e = true -> acnt x pre = 1%Z) /\
            (ad x e = 1%Z -> acnt x pre = 0%Z) /\
            (ad x e = (-1)%Z -> acnt x pre = 1%Z).
Fixpoint disc_from (pre tr : list (nat * ev)) : Prop :=
  match tr with
  | [] => True
  | te :: r => ev_ok pre (snd te) /\ disc_from (pre ++ [te]) r
  end.
Definition disc (tr : list (nat * ev)) : Prop := disc_from [] tr.

Lemma disc_from_app pre a b : disc_from pre (a ++ b) <-> disc_from pre a /\ disc_from (pre ++ a) b.
Proof.
  revert pre. induction a as [|te a IH]; intros pre; cbn [disc_from app].
  - rewrite app_nil_r. tauto.
  - rewrite IH, <- app_assoc. cbn [app]. tauto.
Qed.
Lemma disc_app tr es : disc (tr ++ es) <-> disc tr /\ disc_from tr es.
Proof. unfold disc. rewrite disc_from_app. cbn [app]. tauto. Qed.

Definition InvD (g : G) (tr : list (nat * ev)) : Prop :=
  disc tr /\
  forall x, (In x (pool g) \/ fresh g <= x -> acnt x tr = 0%Z) /\
            (~ In x (pool g) -> x < fresh g -> acnt x tr = 1%Z).

Definition Inv (g : G) (a : Aux) (tr : list (nat * ev)) : Prop :=
  InvR g (fst a) (snd a) /\ InvP g (fst a) /\ InvM g (fst a) /\ InvL g (fst a) /\ InvO (fst a) tr /\ InvD g tr.

Definition upd (vs : Views) (t : nat) (v : tv) : Views := fun x => if Nat.eqb x t then v else vs x.
Lemma upd_same vs t v : upd vs t v t = v.
Proof. unfold upd. now rewrite Nat.eqb_refl. Qed.
Lemma upd_other vs t v t' : t' <> t -> upd vs t v t' = vs t'.
Proof. unfold upd. intros H. destruct (Nat.eqb_spec t' t); congruence. Qed.
Lemma frame_upd vs rf rf' t v : Conc.frame view t (vs, rf) (upd vs t v, rf').
Proof. intros t' H. unfold view. cbn. now apply upd_other. Qed.
Lemma frame_refl a t : Conc.frame view t a a.
Proof. intros ? ?; reflexivity. Qed.

Notation safe := (@Conc.safe G V ev Aux tv view Inv).
