(** * Trace predicates for the HP model: what the guard slots held at each step (replay of the ghost
      [g_slot] events), where a thread's current reclamation pass began, event counters. *)
From Coq Require Import ZArith List String Bool Lia PeanoNat.
From LV Require Import Base.Conc Base.Events Model.Hp.
Import ListNotations.
Local Open Scope string_scope.
Local Open Scope list_scope.

Definition trace := list (nat * ev).

(** ** slot contents according to the trace *)
Definition slot_upd (r j : nat) (e : ev) (cur : Z) : Z :=
  match e with
  | EvCli name [a; b; v] =>
      if (String.eqb name "g_slot" && (Z.eqb a (zn r) && Z.eqb b (zn j)))%bool then v else cur
  | _ => cur
  end.

Definition slot_at (tr : trace) (r j : nat) : Z :=
  fold_left (fun acc te => slot_upd r j (snd te) acc) tr 0%Z.

Lemma slot_at_app tr es r j :
  slot_at (tr ++ es) r j = fold_left (fun acc te => slot_upd r j (snd te) acc) es (slot_at tr r j).
Proof. unfold slot_at. apply fold_left_app. Qed.

Lemma slot_at_snoc tr te r j : slot_at (tr ++ [te]) r j = slot_upd r j (snd te) (slot_at tr r j).
Proof. rewrite slot_at_app. reflexivity. Qed.

(** slot (r,j) holds [p] at every step from index [s] to the end of [tr] *)
Definition held (tr : trace) (s r j : nat) (p : Z) : Prop :=
  forall i, s <= i <= List.length tr -> slot_at (firstn i tr) r j = p.

Lemma held_prefix tr es s r j p : s <= List.length tr -> held (tr ++ es) s r j p -> held tr s r j p.
Proof.
  intros Hs Hh i Hi. specialize (Hh i). rewrite app_length in Hh.
  rewrite firstn_app in Hh. replace (i - List.length tr) with 0 in Hh by lia.
  rewrite firstn_O, app_nil_r in Hh. apply Hh. lia.
Qed.

Lemma held_now tr s r j p : s <= List.length tr -> held tr s r j p -> slot_at tr r j = p.
Proof. intros Hs Hh. specialize (Hh (List.length tr)). rewrite firstn_all in Hh. apply Hh. lia. Qed.

Lemma held_weaken tr s s' r j p : s <= s' -> held tr s r j p -> held tr s' r j p.
Proof. intros Hs Hh i Hi. apply Hh. lia. Qed.

(** ** the beginning of a thread's last reclamation pass *)
Definition is_cli_named (name : string) (e : ev) : bool :=
  match e with EvCli n _ => String.eqb n name | _ => false end.

Definition is_sb (t : nat) (te : nat * ev) : bool :=
  (Nat.eqb (fst te) t && is_cli_named "g_scan_begin" (snd te))%bool.

Definition sb_step (t : nat) (st : option nat * nat) (te : nat * ev) : option nat * nat :=
  (if is_sb t te then Some (snd st) else fst st, S (snd st)).

Definition last_sb_from (t : nat) (tr : trace) (st : option nat * nat) : option nat * nat :=
  fold_left (sb_step t) tr st.

(** index of the last [g_scan_begin] event of thread [t] *)
Definition last_sb (tr : trace) (t : nat) : option nat := fst (last_sb_from t tr (None, 0)).

Lemma last_sb_from_snd t tr st : snd (last_sb_from t tr st) = snd st + List.length tr.
Proof.
  revert st; induction tr as [|te tr IH]; intros st; cbn; [lia|].
  unfold last_sb_from in IH. rewrite IH. cbn. lia.
Qed.

Lemma last_sb_snoc tr te t :
  last_sb (tr ++ [te]) t = if is_sb t te then Some (List.length tr) else last_sb tr t.
Proof.
  unfold last_sb, last_sb_from. rewrite fold_left_app. cbn [fold_left].
  pose proof (last_sb_from_snd t tr (None, 0)) as H. unfold last_sb_from in H.
  destruct (fold_left (sb_step t) tr (None, 0)) as [o n] eqn:E. cbn in H. subst n.
  unfold sb_step. cbn. destruct (is_sb t te); reflexivity.
Qed.

Lemma last_sb_lt tr t s : last_sb tr t = Some s -> s < List.length tr.
Proof.
  revert s. induction tr as [|te tr IH] using rev_ind; intros s H.
  - discriminate.
  - rewrite last_sb_snoc in H. rewrite app_length; cbn. destruct (is_sb t te).
    + inversion H; lia.
    + specialize (IH _ H). lia.
Qed.

Lemma last_sb_app_other tr es t :
  (forall te, In te es -> is_sb t te = false) -> last_sb (tr ++ es) t = last_sb tr t.
Proof.
  revert tr. induction es as [|e es IH]; intros tr H.
  - now rewrite app_nil_r.
  - replace (tr ++ e :: es) with ((tr ++ [e]) ++ es) by (rewrite <- app_assoc; reflexivity).
    rewrite IH by (intros; apply H; now right).
    rewrite last_sb_snoc. rewrite H by now left. reflexivity.
Qed.

Lemma is_sb_tag_other t t' es te : t' <> t -> In te (Conc.tag t' es) -> is_sb t te = false.
Proof.
  intros Hne Hin. unfold Conc.tag in Hin. apply in_map_iff in Hin. destruct Hin as (e & <- & _).
  unfold is_sb. cbn. destruct (Nat.eqb_spec t' t); [congruence|reflexivity].
Qed.

(** ** event counters *)
Definition is_ev (name : string) (p : Z) (e : ev) : bool :=
  match e with
  | EvCli n [x] => (String.eqb n name && Z.eqb x p)%bool
  | _ => false
  end.

Definition cnt (name : string) (p : Z) (tr : trace) : Z :=
  Z.of_nat (List.length (filter (fun te => is_ev name p (snd te)) tr)).

Lemma cnt_app name p tr tr' : cnt name p (tr ++ tr') = (cnt name p tr + cnt name p tr')%Z.
Proof. unfold cnt. rewrite filter_app, app_length. lia. Qed.

Lemma cnt_nonneg name p tr : (0 <= cnt name p tr)%Z.
Proof. unfold cnt. lia. Qed.

Lemma cnt_nil name p : cnt name p [] = 0%Z.
Proof. reflexivity. Qed.

(** number of occurrences in a list of cells *)
Fixpoint countZ (p : Z) (l : list Z) : Z :=
  match l with
  | [] => 0
  | x :: l' => (if Z.eqb x p then 1 else 0) + countZ p l'
  end%Z.

Lemma countZ_app p l l' : countZ p (l ++ l') = (countZ p l + countZ p l')%Z.
Proof. induction l as [|x l IH]; cbn; [reflexivity|]. rewrite IH. lia. Qed.

Lemma countZ_nonneg p l : (0 <= countZ p l)%Z.
Proof. induction l as [|x l IH]; cbn; [lia|]. destruct (Z.eqb x p); lia. Qed.

Lemma countZ_pos_In p l : (0 < countZ p l)%Z <-> In p l.
Proof.
  induction l as [|x l IH]; cbn; [split; [lia|tauto]|].
  destruct (Z.eqb_spec x p) as [->|Hne].
  - split; [auto|]. pose proof (countZ_nonneg p l). lia.
  - rewrite Z.add_0_l. rewrite IH. split; [auto|]. intros [H|H]; [congruence|exact H].
Qed.

Lemma cnt_tag_map name p t (f : Z -> ev) l :
  (forall x, is_ev name p (f x) = Z.eqb x p) ->
  cnt name p (Conc.tag t (map f l)) = countZ p l.
Proof.
  intros Hf. unfold cnt, Conc.tag. induction l as [|x l IH]; cbn; [reflexivity|].
  rewrite Hf. destruct (Z.eqb x p); cbn [List.length]; lia.
Qed.

Lemma cnt_tag_none name p t es :
  (forall e, In e es -> is_ev name p e = false) -> cnt name p (Conc.tag t es) = 0%Z.
Proof.
  intros H. unfold cnt, Conc.tag. induction es as [|e es IH]; cbn; [reflexivity|].
  rewrite H by now left. apply IH. intros; apply H; now right.
Qed.

(** ** the last event of a thread *)
Definition last_ev (tr : trace) (t : nat) : option ev :=
  fold_left (fun acc te => if Nat.eqb (fst te) t then Some (snd te) else acc) tr None.

Lemma last_ev_app tr es t :
  last_ev (tr ++ es) t =
  fold_left (fun acc te => if Nat.eqb (fst te) t then Some (snd te) else acc) es (last_ev tr t).
Proof. unfold last_ev. apply fold_left_app. Qed.

Lemma last_ev_tag_other tr t t' es : t' <> t -> last_ev (tr ++ Conc.tag t' es) t = last_ev tr t.
Proof.
  intros Hne. rewrite last_ev_app. generalize (last_ev tr t). unfold Conc.tag.
  induction es as [|e es IH]; intros acc; cbn; [reflexivity|].
  destruct (Nat.eqb_spec t' t); [congruence|]. apply IH.
Qed.

Lemma last_ev_tag_same tr t es e : last_ev (tr ++ Conc.tag t (es ++ [e])) t = Some e.
Proof.
  rewrite last_ev_app. unfold Conc.tag. rewrite map_app, fold_left_app. cbn.
  now rewrite Nat.eqb_refl.
Qed.

(** ** attachment, client sources and the current operation, according to the trace (ghost events of the model) *)
Definition ev_slot (r j : nat) (v : Z) : ev := EvCli "g_slot" [zn r; zn j; v].
Definition ev_att (r : nat) : ev := EvCli "g_att" [zn r].
Definition ev_det (r : nat) : ev := EvCli "g_det" [zn r].

Definition att_upd (e : ev) (acc : option nat) : option nat :=
  match e with
  | EvCli n [r] => if String.eqb n "g_att" then Some (Z.to_nat r) else if String.eqb n "g_det" then None else acc
  | _ => acc
  end.
Definition att_step (t : nat) (acc : option nat) (te : nat * ev) : option nat :=
  if Nat.eqb (fst te) t then att_upd (snd te) acc else acc.
(** the record thread [t] is attached to *)
Definition att_at (tr : trace) (t : nat) : option nat := fold_left (att_step t) tr None.

Definition src_upd (k : nat) (e : ev) (acc : Z) : Z :=
  match e with
  | EvCli n [k'; o; _] => if (String.eqb n "g_src" && Z.eqb k' (zn k))%bool then o else acc
  | _ => acc
  end.
(** content of client source [k] *)
Definition src_at (tr : trace) (k : nat) : Z := fold_left (fun acc te => src_upd k (snd te) acc) tr 0%Z.

Definition opstart_names : list string := ["detach"; "protect"; "assign"; "clear"; "copy"; "publish"].
Definition is_opstart (e : ev) : bool := match e with EvCli n _ => existsb (String.eqb n) opstart_names | _ => false end.
Definition resp_names' : list string :=
  ["attached"; "skip"; "detached"; "protected"; "assigned"; "cleared"; "unlinked"; "retired"; "scanned"; "touch"; "copied";
   "g_src"].   (* the exchange of a publish ends that operation: "unlinked" follows in the same step *)
Definition is_resp' (e : ev) : bool :=
  match e with
  | EvAcc KBegin _ _ => true
  | EvCli n _ => existsb (String.eqb n) resp_names'
  | _ => false
  end.
Definition op_upd (e : ev) (acc : option ev) : option ev :=
  if is_opstart e then Some e else if is_resp' e then None else acc.
Definition op_step (t : nat) (acc : option ev) (te : nat * ev) : option ev :=
  if Nat.eqb (fst te) t then op_upd (snd te) acc else acc.
(** the operation thread [t] is executing: its start event, until the response *)
Definition open_op (tr : trace) (t : nat) : option ev := fold_left (op_step t) tr None.

(** does the start of this operation release guard slot [j] of the thread *)
Definition rel_b (j : nat) (e : ev) : bool :=
  match e with
  | EvCli n [] => String.eqb n "detach"
  | EvCli n (x :: _) => (existsb (String.eqb n) ["protect"; "assign"; "clear"; "copy"] && Z.eqb x (zn j))%bool
  | _ => false
  end.

Lemma att_at_snoc tr te t : att_at (tr ++ [te]) t = att_step t (att_at tr t) te.
Proof. unfold att_at. now rewrite fold_left_app. Qed.
Lemma src_at_snoc tr te k : src_at (tr ++ [te]) k = src_upd k (snd te) (src_at tr k).
Proof. unfold src_at. now rewrite fold_left_app. Qed.
Lemma open_op_snoc tr te t : open_op (tr ++ [te]) t = op_step t (open_op tr t) te.
Proof. unfold open_op. now rewrite fold_left_app. Qed.
Lemma att_at_app tr es t : att_at (tr ++ es) t = fold_left (att_step t) es (att_at tr t).
Proof. unfold att_at. apply fold_left_app. Qed.
Lemma src_at_app tr es k : src_at (tr ++ es) k = fold_left (fun acc te => src_upd k (snd te) acc) es (src_at tr k).
Proof. unfold src_at. apply fold_left_app. Qed.
Lemma open_op_app tr es t : open_op (tr ++ es) t = fold_left (op_step t) es (open_op tr t).
Proof. unfold open_op. apply fold_left_app. Qed.

(** the last slot store of thread [t] was [x] into slot (r,j); since then [t] emitted no slot store and did not
    attach / detach; [ok = Some k]: and it has since loaded [x] from client source [k] *)
Definition pat_ok (e : ev) : bool :=
  negb (is_cli_named "g_slot" e || is_cli_named "g_att" e || is_cli_named "g_det" e).
Definition val_pat (tr : trace) (t r j : nat) (x : Z) (ok : option nat) : Prop :=
  exists g0, nth_error tr g0 = Some (t, ev_slot r j x) /\
    (forall i e, g0 < i -> nth_error tr i = Some (t, e) -> pat_ok e = true) /\
    match ok with None => True | Some k => exists w, g0 < w /\ nth_error tr w = Some (t, EvCli "g_ld" [zn k; x]) end.

Definition last_te (tr : trace) : option (nat * ev) := nth_error tr (List.length tr - 1).

(** what each ghost / client event says about the trace before it *)
Definition ev_ok (pre : trace) (u : nat) (e : ev) : Prop :=
  (forall r j x, e = ev_slot r j x ->
     att_at pre u = Some r /\ exists e0, open_op pre u = Some e0 /\ rel_b j e0 = true) /\
  (forall z, e = EvCli "g_det" [z] -> open_op pre u = Some (EvCli "detach" [])) /\
  (forall r, e = ev_att r -> att_at pre u = None /\ forall t', att_at pre t' <> Some r) /\
  (forall k o old, e = EvCli "g_src" [zn k; o; old] ->
     old = src_at pre k /\ open_op pre u = Some (EvCli "publish" [zn k; o])) /\
  (forall k x, e = EvCli "g_ld" [zn k; x] -> x = src_at pre k) /\
  (forall old, e = EvCli "unlinked" [old] ->
     exists k o, pre <> [] /\ last_te pre = Some (u, EvCli "g_src" [zn k; o; old])) /\
  (forall j p, e = EvCli "protected" [zn j; p] -> exists r k, val_pat pre u r j p (Some k)) /\
  (forall z, e = EvCli "g_att" [z] -> exists r, z = zn r).

Lemma ev_ok_att_wf pre u z : ev_ok pre u (EvCli "g_att" [z]) -> exists r, z = zn r.
Proof. intros H. apply H. reflexivity. Qed.

Definition TrOK (tr : trace) : Prop := forall i u e, nth_error tr i = Some (u, e) -> ev_ok (firstn i tr) u e.

Definition xspecial_names : list string := ["g_slot"; "g_det"; "g_att"; "g_src"; "g_ld"; "unlinked"; "protected"].
Definition xplain (e : ev) : bool :=
  match e with EvAcc _ _ _ => true | EvCli n _ => negb (existsb (String.eqb n) xspecial_names) end.

Lemma xplain_name n args s : xplain (EvCli n args) = true -> In s xspecial_names -> String.eqb n s = false.
Proof.
  unfold xplain. intros H Hs. apply negb_true_iff in H. destruct (String.eqb n s) eqn:E; auto.
  exfalso. rewrite <- not_true_iff_false in H. apply H. apply existsb_exists. exists s; auto.
Qed.

Lemma xplain_ev_ok pre u e : xplain e = true -> ev_ok pre u e.
Proof.
  intros H. destruct e as [k o b|n args]; [repeat split; intros; discriminate|].
  unfold ev_ok, ev_slot, ev_det, ev_att.
  repeat split; intros; match goal with E : EvCli _ _ = _ |- _ => inversion E; subst; cbn in H; discriminate H end.
Qed.
