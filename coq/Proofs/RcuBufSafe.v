(** * general_buffered: all client programs preserve the accounting invariant; exactly-once theorems. *)
From Coq Require Import ZArith List String Bool Lia PeanoNat.
From LV Require Import Base.Conc Base.Events Model.RcuGp Model.RcuBuf Proofs.RcuGpInv Proofs.RcuBufInv.
From LV Require Proofs.RcuGpSafe.
Import ListNotations.
Local Open Scope string_scope.
Local Open Scope list_scope.
Local Open Scope Z_scope.

(** ** programs of the gp core: they leave buffer and accounting events alone *)
Fixpoint core {R} (p : prog R) : Prop :=
  match p with
  | Ret _ => True
  | Emit es k => (exists e, es = [e] /\ plain e /\ is_cli "ddone" e = false) /\ core k
  | Act f k => (forall g, (g_buf (fst (fst (f g))) = g_buf g /\ g_epoch (fst (fst (f g))) = g_epoch g /\
                           g_quit (fst (fst (f g))) = g_quit g /\ g_ndone (fst (fst (f g))) = g_ndone g /\
                           g_task (fst (fst (f g))) = g_task g) /\
                          exists e, snd (f g) = [e] /\ plain e /\ is_cli "ddone" e = false) /\
               forall v, core (k v)
  end.

Lemma core_bind {A B} (p : prog A) (q : A -> prog B) : core p -> (forall r, core (q r)) -> core (bind p q).
Proof.
  unfold bind. induction p as [r|es k IH|f k IH]; intros Hp Hq; cbn [Conc.bind core] in *; auto.
  - destruct Hp as (H1 & H2). split; auto.
  - destruct Hp as (H1 & H2). split; auto.
Qed.

Ltac core_act :=
  let g := fresh "g" in
  intros g; cbv beta delta [a_begin a_proc_faa a_head_ld a_tid_cas a_new_head_ld a_head_cas a_tid_st a_tid_ld a_acc_ld a_acc_st
                            a_ctl_ld a_ctl_fxor a_lock_xchg a_lock_ld a_lock_st a_src_st a_src_ld a_payload_ld acc];
  repeat match goal with |- context [if ?c then _ else _] => destruct c end;
  cbn; (split; [repeat split; reflexivity|eexists; split; [reflexivity|split; [apply plain_acc|reflexivity]]]).

Ltac core_act_w :=
  let g := fresh "g" in
  intros g; cbv beta delta [a_begin acc]; cbn; (split; [reflexivity|eexists; split; [reflexivity|apply plain_acc]]).

Ltac core_emit := split; [eexists; split; [reflexivity|split; [repeat split|reflexivity]]|].

Lemma core_alloc_reuse me l : core (alloc_reuse me l).
Proof. induction l as [|m r IH]; cbn [alloc_reuse core]; auto. split; [core_act|]. intros v. destruct (vz v =? 1); cbn; auto. Qed.

Lemma core_alloc_push fuel : forall m old, core (alloc_push fuel m old).
Proof. induction fuel as [|f IH]; intros m old; cbn [alloc_push core]; auto. split; [core_act|]. intros [z|l|r]; cbn; auto. Qed.

Lemma core_attach fuel t : core (attach fuel t).
Proof.
  unfold attach. cbn [core]. split; [core_act|]. intros _. split; [core_act|]. intros v.
  apply core_bind; [apply core_alloc_reuse|]. intros [m|]; cbn [core]; auto.
  split; [core_act|]. intros v'. destruct (vl v') as [|m old]; cbn; auto. apply core_alloc_push.
Qed.

Lemma core_detach m : core (detach m).
Proof. unfold detach. cbn [core]. split; [core_act|]. intros _. exact I. Qed.

Lemma core_access_lock m : core (access_lock m).
Proof.
  unfold access_lock. cbn [core]. split; [core_act|]. intros v. cbv zeta. destruct (nest (vz v) =? 0); cbn [core].
  - split; [core_act|]. intros g. split; [core_act|]. intros _. exact I.
  - split; [core_act|]. intros _. exact I.
Qed.

Lemma core_access_unlock m : core (access_unlock m).
Proof. unfold access_unlock. cbn [core]. split; [core_act|]. intros v. cbv zeta. cbn [core]. split; [core_act|]. intros _. exact I. Qed.

Lemma core_do_rlock m d : core (do_rlock m d).
Proof. unfold do_rlock. apply core_bind; [apply core_access_lock|]. intros w. cbn [core]. core_emit. exact I. Qed.

Lemma core_do_runlock m d : core (do_runlock m d).
Proof.
  unfold do_runlock. cbn [core]. core_emit. apply core_bind; [apply core_access_unlock|]. intros w. cbn [core]. core_emit. exact I.
Qed.

Lemma core_do_touch : core do_touch.
Proof.
  unfold do_touch. cbn [core]. split; [core_act|]. intros v. destruct (vz v =? 0); cbn [core]; auto.
  split; [core_act|]. intros _. core_emit. exact I.
Qed.

Lemma core_lock_loops fuel : core (lock_outer fuel) /\ core (lock_inner fuel).
Proof.
  induction fuel as [|f (IH1 & IH2)]; split; cbn [lock_outer lock_inner core]; auto.
  - split; [core_act|]. intros v. destruct (vz v =? 0); cbn; auto.
  - split; [core_act|]. intros v. destruct (vz v =? 0); auto.
Qed.

Lemma core_wait_rec fuel m : core (wait_rec fuel m).
Proof.
  induction fuel as [|f IH]; cbn [wait_rec core]; auto.
  split; [core_act|]. intros x. destruct (vz x =? 0); cbn [core]; auto.
  split; [core_act|]. intros v. destruct (nest (vz v) =? 0); cbn [core]; auto.
  split; [core_act|]. intros g. destruct (phase_differs (vz v) (vz g)); cbn; auto.
Qed.

Lemma core_scan fuel l : core (scan fuel l).
Proof.
  induction l as [|m r IH]; cbn [scan core]; auto. apply core_bind; [apply core_wait_rec|]. intros [|]; cbn; auto.
Qed.

Lemma core_flip_and_wait fuel : core (flip_and_wait fuel).
Proof. unfold flip_and_wait. cbn [core]. split; [core_act|]. intros _. split; [core_act|]. intros v. apply core_scan. Qed.

Lemma core_flips n fuel : core (flips_and_wait n fuel).
Proof.
  induction n as [|n IH]; cbn [flips_and_wait core]; auto. apply core_bind; [apply core_flip_and_wait|]. intros [|]; cbn; auto.
Qed.

Lemma core_unlock : core unlock.
Proof. unfold unlock. cbn [core]. split; [core_act|]. intros _. exact I. Qed.

Lemma core_leave_all m d : core (leave_all m d).
Proof. induction d as [|d IH]; cbn [leave_all core]; auto. apply core_bind; [apply core_do_runlock|]. intros _. exact IH. Qed.

Lemma core_finish s : core (finish s).
Proof.
  unfold finish. destruct (my_rec s) as [m|]; cbn [core]; auto.
  apply core_bind; [apply core_leave_all|]. intros _. apply core_bind; [apply core_detach|]. intros _. cbn [core]. core_emit. exact I.
Qed.

(** operations of the core other than sync / retire *)
Definition core_op (o : RcuGp.op) : bool := match o with OSync | ORetire _ => false | _ => true end.

Lemma core_run_op flips fuel t s o : core_op o = true -> core (run_op flips fuel t s o).
Proof.
  destruct o; try discriminate; intros _; cbn [run_op].
  - destruct (my_rec s); cbn [core]; auto. apply core_bind; [apply core_attach|]. intros [m|]; cbn [core]; auto. core_emit. exact I.
  - destruct (my_rec s) as [m|]; cbn [core]; auto. destruct (my_depth s); cbn [core]; auto.
    apply core_bind; [apply core_detach|]. intros _. cbn [core]. core_emit. exact I.
  - destruct (my_rec s) as [m|]; cbn [core]; auto. destruct (depth_ok (my_depth s)); cbn [core]; auto.
    apply core_bind; [apply core_do_rlock|]. intros _. exact I.
  - destruct (my_rec s) as [m|]; cbn [core]; auto. destruct (my_depth s); cbn [core]; auto.
    apply core_bind; [apply core_do_runlock|]. intros _. exact I.
  - cbn [core]. split; [core_act|]. intros _. exact I.
  - cbn [core]. split; [core_act|]. intros _. exact I.
  - destruct (my_depth s); cbn [core]; auto. apply core_bind; [apply core_do_touch|]. intros _. exact I.
Qed.

Ltac core_act' :=
  let g := fresh "g" in
  intros g; cbv beta delta [a_epoch_ld a_epoch_faa a_buf_size acc]; cbn;
  (split; [reflexivity|eexists; split; [reflexivity|apply plain_acc]]).

(** ** safety for the accounting invariant *)
Section Safe.
  Variable N : nat.
  Notation safeB := (@Conc.safe G V ev Aux2 L2 view2 (InvB N)).

  Lemma safe_core {R} t (p : prog R) : core p -> forall l (Q : R -> L2 -> Prop), (forall r, Q r l) -> safeB t p l Q.
  Proof.
    induction p as [r|es k IH|f k IH]; intros Hc l Q HQ; cbn [Conc.safe core] in *.
    - apply HQ.
    - destruct Hc as ((e & -> & Hp & _) & Hk). intros g a tr HI Hv. exists a. split; [rewrite tag1; eapply InvB_plain; eauto|].
      split; [intros ? ?; reflexivity|]. rewrite Hv. apply IH; auto.
    - destruct Hc as (Hf & Hk). intros g a tr HI Hv. destruct (Hf g) as ((Eg & _) & e & Ee & Hp & _). exists a. rewrite Ee.
      split; [rewrite tag1; eapply InvB_plain; eauto|]. split; [intros ? ?; reflexivity|]. rewrite Hv. apply IH; auto.
  Qed.

  Lemma safeB_bind {A B} t (p : prog A) (q : A -> prog B) Q l :
    safeB t p l (fun r l' => safeB t (q r) l' Q) -> safeB t (bind p q) l Q.
  Proof. apply Conc.safe_bind. Qed.

  (** a plain step that leaves the buffer alone *)
  Lemma safeB_act_plain {R} t (f : act) (k : V -> prog R) l Q :
    (forall g, g_buf (fst (fst (f g))) = g_buf g /\ exists e, snd (f g) = [e] /\ plain e) ->
    (forall v, safeB t (k v) l Q) -> safeB t (Act f k) l Q.
  Proof.
    intros Hf Hk. cbn [Conc.safe]. intros g a tr HI Hv. destruct (Hf g) as (Eg & e & Ee & Hp). exists a. rewrite Ee.
    split; [rewrite tag1; eapply InvB_plain; eauto|]. split; [intros ? ?; reflexivity|]. rewrite Hv. apply Hk.
  Qed.

  Lemma safeB_emit_plain {R} t e (k : prog R) l Q : plain e -> safeB t k l Q -> safeB t (Emit [e] k) l Q.
  Proof.
    intros Hp Hk. cbn [Conc.safe]. intros g a tr HI Hv. exists a. split; [rewrite tag1; eapply InvB_plain; eauto|].
    split; [intros ? ?; reflexivity|]. rewrite Hv. exact Hk.
  Qed.

  Variables (flips sfuel : nat) (cap : Z) (cnt : bool) (mb : prog bool).
  Hypothesis Hmb : core mb.
  Variable t : nat.
  Hypothesis Ht : (t < N)%nat.

  Lemma safeB_dispose {R} p hs (k : prog R) Q :
    safeB t k (hs, false) Q -> safeB t (Emit (cli "dispose" [p]) k) (p :: hs, false) Q.
  Proof.
    intros Hk. cbn [Conc.safe cli]. intros g [h d] tr HI Hv. unfold view2 in Hv. cbn [fst snd] in Hv. injection Hv as Hm Hd.
    exists (rm1 t p h, d). split; [unfold cli; rewrite tag1; eapply InvB_dispose; eauto|]. split; [apply frame_hands_rm1|].
    unfold view2. cbn [fst snd]. rewrite (mine_rm1_head _ _ _ _ Hm), Hd. exact Hk.
  Qed.

  Lemma safeB_size_reached {R} (k : bool -> prog R) l Q :
    (forall b, safeB t (k b) l Q) -> safeB t (size_reached cap cnt k) l Q.
  Proof.
    intros H. unfold size_reached. destruct cnt; [|apply H].
    apply safeB_act_plain; [core_act'|]. intros v. apply H.
  Qed.

  Definition PPush (rf : nat) : Prop := forall p e hs (Q : bool -> L2 -> Prop),
    Q true (hs, false) -> (forall l', Q false l') -> safeB t (push_buffer flips sfuel cap cnt mb rf p e) (p :: hs, false) Q.
  Definition PSync (rf : nat) : Prop := forall hs (Q : bool -> L2 -> Prop),
    Q true (hs, false) -> (forall l', Q false l') -> safeB t (synchronize flips sfuel cap cnt mb rf) (hs, false) Q.
  Definition PClear (rf : nat) : Prop := forall n hs (Q : bool -> L2 -> Prop),
    Q true (hs, false) -> (forall l', Q false l') -> safeB t (clear_buffer flips sfuel cap cnt mb rf n) (hs, false) Q.

  Lemma safe_gpb rf : PPush rf /\ PSync rf /\ PClear rf.
  Proof.
    induction rf as [|f (IHp & IHs & IHc)]; unfold PPush, PSync, PClear in *.
    { split; [|split].
      - intros p e hs Q HT HF. cbn [push_buffer Conc.safe]. apply HF.
      - intros hs Q HT HF. cbn [synchronize Conc.safe]. apply HF.
      - intros n hs Q HT HF. cbn [clear_buffer Conc.safe]. apply HF. }
    assert (HS : PSync (S f)).
    { intros hs Q HT HF. cbn [synchronize].
      apply safeB_act_plain; [core_act'|]. intros _.
      apply safeB_bind. apply safe_core; [apply core_lock_loops|]. intros [|]; [|cbn; apply HF].
      cbv beta iota. apply safeB_act_plain; [core_act'|]. intros n.
      apply safeB_bind. apply safe_core; [exact Hmb|]. intros [|]; [|cbn; apply HF].
      cbv beta iota. apply safeB_bind. apply safe_core; [apply core_flips|]. intros [|]; [|cbn; apply HF].
      cbv beta iota. apply safeB_bind. apply safe_core; [exact Hmb|]. intros [|]; [|cbn; apply HF].
      cbv beta iota. apply safeB_bind. apply safe_core; [apply core_unlock|]. intros _.
      apply IHc; auto. }
    assert (HC : PClear (S f)).
    { intros n hs Q HT HF. cbn [clear_buffer Conc.safe]. intros g [h d] tr HI Hv.
      unfold view2 in Hv. cbn [fst snd] in Hv. injection Hv as Hm Hd. unfold a_buf_pop.
      destruct (g_buf g) as [|[p e] r] eqn:Eb; cbn [fst snd vp].
      - exists (h, d). split; [unfold acc; rewrite tag1; eapply InvB_plain; eauto; apply plain_acc|].
        split; [intros ? ?; reflexivity|]. unfold view2. cbn [fst snd]. rewrite Hm, Hd. cbn. exact HT.
      - exists ((t, p) :: h, d). split; [unfold acc; rewrite tag1; eapply InvB_pop; eauto|]. split; [apply frame_hands_cons|].
        unfold view2. cbn [fst snd]. rewrite mine_cons_same, Hm, Hd.
        destruct (e <=? n).
        + apply safeB_dispose. apply IHc; auto.
        + apply IHp; auto. }
    split; [|split; assumption].
    intros p e hs Q HT HF. cbn [push_buffer Conc.safe]. intros g [h d] tr HI Hv.
    unfold view2 in Hv. cbn [fst snd] in Hv. injection Hv as Hm Hd. unfold a_buf_push.
    destruct (Nat.ltb (List.length (g_buf g)) (g_bcap g)); cbn [fst snd vz].
    - exists (rm1 t p h, d). split; [unfold acc; rewrite tag1; eapply InvB_push; eauto|]. split; [apply frame_hands_rm1|].
      unfold view2. cbn [fst snd]. rewrite (mine_rm1_head _ _ _ _ Hm), Hd. cbn [Z.eqb Pos.eqb].
      apply safeB_size_reached. intros [|]; [apply IHs; auto|cbn; exact HT].
    - exists (h, d). split; [unfold acc; rewrite tag1; eapply InvB_plain; eauto; apply plain_acc|].
      split; [intros ? ?; reflexivity|]. unfold view2. cbn [fst snd]. rewrite Hm, Hd. cbn [Z.eqb].
      apply safeB_bind. apply IHs; [|intros l'; cbn; apply HF].
      cbv beta iota. apply safeB_dispose. cbn. exact HT.
  Qed.
End Safe.

Section Safe2.
  Variable N : nat.
  Notation safeB := (@Conc.safe G V ev Aux2 L2 view2 (InvB N)).
  Variables (flips sfuel : nat) (cap : Z) (cnt : bool) (mb : prog bool) (rf : nat).
  Hypothesis Hmb : core mb.
  Variable t : nat.
  Hypothesis Ht : (t < N)%nat.

  Lemma safeB_retire_ev {R} p hs (k : prog R) Q :
    safeB t k (hs ++ [p], false) Q -> safeB t (Emit (cli "retire" [p]) k) (hs, false) Q.
  Proof.
    intros Hk. cbn [Conc.safe]. intros g [h d] tr HI Hv. unfold view2 in Hv. cbn [fst snd] in Hv. injection Hv as Hm Hd.
    exists (h ++ [(t, p)], d). split; [unfold cli; rewrite tag1; eapply InvB_retire; eauto|]. split; [apply frame_hands_snoc|].
    unfold view2. cbn [fst snd]. rewrite mine_app, mine_cons_same, Hm, Hd. exact Hk.
  Qed.

  Lemma safeB_emit_retires {R} ps : forall hs (k : prog R) Q,
    safeB t k (hs ++ ps, false) Q -> safeB t (emit_retires ps k) (hs, false) Q.
  Proof.
    induction ps as [|p r IH]; intros hs k Q Hk; cbn [emit_retires].
    - rewrite app_nil_r in Hk. exact Hk.
    - apply safeB_retire_ev. apply IH. rewrite <- app_assoc. exact Hk.
  Qed.

  Lemma safeB_push_all e ps : forall (Q : bool -> L2 -> Prop),
    Q true ([], false) -> (forall l', Q false l') -> safeB t (push_all flips sfuel cap cnt mb rf e ps) (ps, false) Q.
  Proof.
    induction ps as [|p r IH]; intros Q HT HF; cbn [push_all].
    - exact HT.
    - apply safeB_bind. apply (proj1 (safe_gpb N flips sfuel cap cnt mb Hmb t Ht rf)); [|intros l'; cbn; apply HF].
      cbv beta iota. apply IH; auto.
  Qed.

  Definition Idle2 (l : L2) : Prop := l = ([], false).

  Lemma safeB_gpb_retire ps tail (Q : bool -> L2 -> Prop) :
    (tail = [] \/ exists e, tail = [e] /\ plain e) ->
    Q true ([], false) -> (forall l', Q false l') -> safeB t (gpb_retire flips sfuel cap cnt mb rf ps tail) ([], false) Q.
  Proof.
    intros Htail HT HF. unfold gpb_retire. apply safeB_emit_retires. cbn [app].
    apply safeB_act_plain; [core_act'|]. intros e. apply safeB_bind. apply safeB_push_all; [|intros l'; cbn; apply HF].
    cbv beta iota. destruct Htail as [->|(e0 & -> & Hp)].
    - cbn [Conc.safe]. intros g a tr HI Hv. exists a. cbn. rewrite app_nil_r. split; [exact HI|]. split; [intros ? ?; reflexivity|].
      rewrite Hv. exact HT.
    - apply safeB_emit_plain; [exact Hp|exact HT].
  Qed.

  Lemma safeB_gpb_sync (Q : bool -> L2 -> Prop) :
    Q true ([], false) -> (forall l', Q false l') -> safeB t (gpb_sync flips sfuel cap cnt mb rf) ([], false) Q.
  Proof.
    intros HT HF. unfold gpb_sync, cli. apply safeB_emit_plain; [repeat split|].
    apply safeB_bind. apply (proj1 (proj2 (safe_gpb N flips sfuel cap cnt mb Hmb t Ht rf))); [|intros l'; cbn; apply HF].
    cbv beta iota. apply safeB_emit_plain; [repeat split|exact HT].
  Qed.

  Definition QB : option lst -> L2 -> Prop := fun r l' => match r with Some _ => l' = ([], false) | None => True end.

  Lemma safeB_run_bop s o : safeB t (run_bop flips sfuel cap cnt mb rf t s o) ([], false) QB.
  Proof.
    destruct o as [o|ps]; cbn [run_bop].
    - destruct o; try (apply safe_core; [apply core_run_op; reflexivity|]; intros [s'|]; cbn; auto).
      + destruct (my_depth s); [|reflexivity]. apply safeB_bind. apply safeB_gpb_sync; cbn; auto.
      + destruct (my_depth s); [|reflexivity]. apply safeB_bind. apply safeB_gpb_retire; cbn; auto.
    - destruct (my_depth s); [|reflexivity]. destruct ps as [|p r]; [reflexivity|].
      apply safeB_bind. apply safeB_gpb_retire; cbn; auto. right. eexists. split; [reflexivity|repeat split].
  Qed.

  Lemma safeB_done : safeB t (Emit (cli "done" []) (Ret tt)) ([], false) (@Conc.QTrue L2).
  Proof.
    cbn [Conc.safe]. intros g [h d] tr HI Hv. unfold view2 in Hv. cbn [fst snd] in Hv. injection Hv as Hm Hd.
    exists (h, fun x => if Nat.eqb x t then true else d x). split; [unfold cli; rewrite tag1; apply InvB_done; assumption|].
    split; [|exact I]. intros t' Hne. unfold view2. cbn [fst snd]. destruct (Nat.eqb_spec t' t); [contradiction|reflexivity].
  Qed.

  Lemma safeB_run_bops os : forall s, safeB t (run_bops flips sfuel cap cnt mb rf t s os) ([], false) (@Conc.QTrue L2).
  Proof.
    induction os as [|o r IH]; intros s; cbn [run_bops].
    - apply safeB_bind. apply safe_core; [apply core_finish|]. intros _. apply safeB_done.
    - apply safeB_bind. eapply Conc.safe_weaken; [|apply safeB_run_bop].
      intros [s'|] l' HQ; cbn in HQ.
      + subst l'. apply IH.
      + apply safeB_emit_plain; [repeat split|exact I].
  Qed.

  Lemma safeB_thread os : safeB t (bthread_prog flips sfuel cap cnt mb rf t os) ([], false) (@Conc.QTrue L2).
  Proof.
    unfold bthread_prog. apply safeB_act_plain; [core_act_w|]. intros _. apply safeB_run_bops.
  Qed.
End Safe2.

Lemma number_length {A} (l : list A) : forall n, List.length (number n l) = List.length l.
Proof. induction l as [|x r IH]; intros n; cbn; auto. Qed.

Lemma xinit_ok flips sfuel rf cap cnt mb extra ths :
  core mb -> Forall core extra ->
  Conc.cfg_ok view2 (InvB (List.length ths)) (xinit_cfg flips sfuel rf cap cnt mb extra ths).
Proof.
  intros Hmb Hex. exists ([], fun _ => false). split.
  - cbn [xinit_cfg Conc.shared Conc.trace]. constructor; cbn; try discriminate; auto.
    + intros x [].
    + intros t0 i (e & H & _). destruct i; discriminate.
  - intros t p Hp. cbn [xinit_cfg Conc.threads] in Hp.
    destruct (Nat.lt_ge_cases t (List.length ths)) as [Hlt|Hge].
    + rewrite nth_error_app1 in Hp by (rewrite map_length, number_length; exact Hlt). rewrite nth_error_map in Hp.
      destruct (nth_error (number O ths) t) as [x|] eqn:E; [|discriminate]. inversion Hp; subst p.
      assert (Hf : fst x = t) by (apply RcuGpSafe.nth_error_number in E; cbn in E; exact E).
      rewrite Hf. unfold view2. cbn. apply safeB_thread; assumption.
    + rewrite nth_error_app2 in Hp by (rewrite map_length, number_length; exact Hge).
      apply nth_error_In in Hp. rewrite Forall_forall in Hex. unfold view2. cbn. apply safe_core; [apply Hex; exact Hp|]. intros; exact I.
Qed.

Lemma binit_ok flips sfuel rf cap cnt ths :
  Conc.cfg_ok view2 (InvB (List.length ths)) (binit_cfg flips sfuel rf cap cnt ths).
Proof. apply xinit_ok; [exact I|constructor]. Qed.

(** ** theorems for every schedule *)
Definition all_done (n : nat) (tr : trace) : Prop := forall t, (t < n)%nat -> exists i, at_ tr i t is_done.

(** the trace of a complete execution: the run, then Destruct's clear_buffer( max ) *)
Definition full_trace (n : nat) (c : Conc.config G V ev) : trace :=
  Conc.trace c ++ Conc.tag n (destruct_events (Conc.shared c)).

Lemma hands_empty N g a tr : InvB N g a tr -> all_done N tr -> fst a = [].
Proof.
  intros HI Hd. destruct (fst a) as [|[t p] r] eqn:E; [reflexivity|exfalso].
  assert (Ht : (t < N)%nat) by (apply (B4 _ _ _ _ HI (t, p)); rewrite E; left; reflexivity).
  destruct (Hd t Ht) as (i & Hat). pose proof (B3 _ _ _ _ HI t (B5 _ _ _ _ HI t i Hat)) as X.
  rewrite E, mine_cons_same in X. discriminate.
Qed.

Lemma cnt_destruct_dispose n p buf :
  cnt_ev (is_dispose p) (Conc.tag n (map (fun x : Z * Z => EvCli "dispose" [fst x]) buf)) = cz p (map fst buf).
Proof.
  induction buf as [|[q e] r IH]; [reflexivity|]. cbn [map Conc.tag fst]. unfold Conc.tag in *. cbn [map].
  change ((n, EvCli "dispose" [q]) :: map (pair n) (map (fun x : Z * Z => EvCli "dispose" [fst x]) r))
    with ([(n, EvCli "dispose" [q])] ++ map (pair n) (map (fun x : Z * Z => EvCli "dispose" [fst x]) r)).
  rewrite cnt_ev_app, IH, cz_cons. unfold cnt_ev. cbn [filter snd].
  destruct (Z.eq_dec q p) as [->|Ne]; [rewrite is_dispose_self; reflexivity|rewrite is_dispose_other by congruence; reflexivity].
Qed.

Lemma cnt_destruct_retire n p buf :
  cnt_ev (is_retire p) (Conc.tag n (map (fun x : Z * Z => EvCli "dispose" [fst x]) buf)) = O.
Proof. induction buf as [|[q e] r IH]; [reflexivity|]. unfold cnt_ev, Conc.tag in *. cbn. exact IH. Qed.

Section Thms.
  Variables (flips sfuel rf : nat) (cap : Z) (cnt : bool) (mb : prog bool) (extra : list (Conc.thread G V ev)) (ths : list (list bop)).
  Hypothesis Hmb : core mb.
  Hypothesis Hex : Forall core extra.
  Variable c : Conc.config G V ev.
  Hypothesis Hr : Conc.reach (xinit_cfg flips sfuel rf cap cnt mb extra ths) c.

  Theorem x_dispose_at_most_once : forall p, (ndisp p (Conc.trace c) <= nret p (Conc.trace c))%nat.
  Proof.
    intros p. destruct (Conc.reach_Inv (xinit_ok flips sfuel rf cap cnt mb extra ths Hmb Hex) Hr) as (a & HI). rewrite (B1 _ _ _ _ HI p). lia.
  Qed.

  Theorem x_quiescent_conservation : all_done (List.length ths) (Conc.trace c) ->
    forall p, nret p (Conc.trace c) = (ndisp p (Conc.trace c) + cz p (map fst (g_buf (Conc.shared c))))%nat.
  Proof.
    intros Hd p. destruct (Conc.reach_Inv (xinit_ok flips sfuel rf cap cnt mb extra ths Hmb Hex) Hr) as (a & HI).
    rewrite (B1 _ _ _ _ HI p), (hands_empty _ _ _ _ HI Hd). change (cz p (map snd [])) with O. lia.
  Qed.

  Theorem x_destruct_drains : all_done (List.length ths) (Conc.trace c) ->
    forall n p, ndisp p (full_trace n c) = nret p (full_trace n c).
  Proof.
    intros Hd n p. unfold full_trace, ndisp, nret, destruct_events. rewrite !cnt_ev_app, cnt_destruct_dispose, cnt_destruct_retire.
    pose proof (x_quiescent_conservation Hd p) as X. unfold nret, ndisp in X. lia.
  Qed.
End Thms.

Theorem rcu_dispose_at_most_once_all flips sfuel rf cap cnt ths c :
  Conc.reach (binit_cfg flips sfuel rf cap cnt ths) c ->
  forall p, (ndisp p (Conc.trace c) <= nret p (Conc.trace c))%nat.
Proof. intros Hr. eapply x_dispose_at_most_once; [| |exact Hr]; [exact I|constructor]. Qed.

(** nothing is lost: when every thread has completed its program each retired object has been disposed or sits in
    the buffer - in particular an entry whose push found the buffer full was disposed by the caller (overflow path) *)
Theorem rcu_quiescent_conservation_all flips sfuel rf cap cnt ths c :
  Conc.reach (binit_cfg flips sfuel rf cap cnt ths) c -> all_done (List.length ths) (Conc.trace c) ->
  forall p, nret p (Conc.trace c) = (ndisp p (Conc.trace c) + cz p (map fst (g_buf (Conc.shared c))))%nat.
Proof. intros Hr. eapply x_quiescent_conservation; [| |exact Hr]; [exact I|constructor]. Qed.

(** no later than the destruction of the singleton every retired object has been given to its disposer exactly as
    often as it was retired (once, for a client that retires an object once) *)
Theorem rcu_destruct_drains_all flips sfuel rf cap cnt ths c :
  Conc.reach (binit_cfg flips sfuel rf cap cnt ths) c -> all_done (List.length ths) (Conc.trace c) ->
  forall p, ndisp p (full_trace (List.length ths) c) = nret p (full_trace (List.length ths) c).
Proof. intros Hr Hd p. eapply x_destruct_drains; [| |exact Hr|exact Hd]; [exact I|constructor]. Qed.
