(** * SplitListLinProg: the list-level programs of the split-list model (protect, search from a bucket's local head
      cell, link_node, unlink_node, insert_at / erase_at / find_at) are [Conc.safe] for the invariant [InvS].

    Port of the program-level proofs of LV.Proofs.MichaelListFromProofs to the copy of the Michael-list code inside
    LV.Model.SplitList; the one-access rules are those of LV.Proofs.SplitListLinActs (transferred, not re-proved).
    What is new: the search starts at the LOCAL head cell [LCell t site aux] of the call site, which always holds the
    bucket's dummy node [aux] (key [kh], an anchor key below the searched key): its loads are thread-local steps, the
    dummy is never marked (so the helping CAS on the local cell is dead code), and after the first advance the search is
    the anchored search of MichaelListFromProofs with start cell [LNext aux].

    The programs run on behalf of the virtual thread [d] of the real thread [t] ([d = false]: the client's operation,
    [d = true]: insertion of a dummy node); the thread's view is [setl d L0 (lv, cd)]. *)
From Coq Require Import ZArith List String Bool Lia PeanoNat.
From LV Require Import Base.Conc Base.Events Base.Lin Spec.Specs Proofs.LinProofs.
From LV Require Import Model.MichaelList Proofs.MichaelListBase Proofs.MichaelListInv Proofs.MichaelListSteps
                       Proofs.MichaelListLin Proofs.MichaelListActs Proofs.MichaelListProofs
                       Proofs.MichaelListFullInv Proofs.MichaelListFullActs Proofs.MichaelListFullProofs
                       Proofs.MichaelListFromActs.
From LV Require Model.SplitList.
From LV Require Import Proofs.SplitListLinProj Proofs.SplitListLinSim Proofs.SplitListLinActs.
Import ListNotations.
Local Open Scope Z_scope.

Section Prog.
Variables (hs : list Z) (ak : Z -> bool).
Hypothesis ak_okey : forall h k, 0 <= k < 256 -> ak (SL.okey h k) = false.

Notation safeS := (@Conc.safe SL.G SL.V ev AuxS LS viewS (InvS hs ak)).
Notation "x <- p ;; q" := (Conc.bind p (fun x => q)) (at level 61, p at next level, right associativity).

(** ** the rules in the form used below: the view of the acting virtual thread is [setl d L0 _] *)
Lemma w_ld {R} t d n kl kp o (k : SL.V -> SL.prog R) L0 lv c Q :
  In (FPub n kl) (lv_facts lv) -> known_ptr (lv_facts lv) kp -> open_read (lv_st lv) o ->
  (forall v, (ak kl = true -> SL.vmark v = false) ->
     safeS t (k v) (setl d L0 (mkLV (newfacts n (cv v) ++ lv_facts lv) (lv_own lv)
                                    (obs_st o (obs_rule (Some kl) kp (op_key o) (cv v)) (lv_st lv)), c)) Q) ->
  safeS t (Act (SL.a_ld (SL.LNext n)) k) (setl d L0 (lv, c)) Q.
Proof.
  intros H1 H2 H3 Hk. eapply safeS_ld; [apply getl_setl_same|exact H1|exact H2|exact H3|].
  intros v Hv. rewrite setl_setl. apply Hk. exact Hv.
Qed.

Lemma w_cas_help {R} t d m km c0 nx o (k : SL.V -> SL.prog R) L0 lv cd Q :
  In (FPub m km) (lv_facts lv) -> km < op_key o -> In (FFrozen c0 nx) (lv_facts lv) -> open_read (lv_st lv) o ->
  safeS t (k (SL.vok true)) (setl d L0 (mkLV (lv_facts lv) (lv_own lv) (if Nat.eqb nx 0 then lin_read o false (lv_st lv) else lv_st lv), cd)) Q ->
  safeS t (k (SL.vok false)) (setl d L0 (lv, cd)) Q ->
  safeS t (Act (SL.a_cas (SL.LNext m) c0 nx false) k) (setl d L0 (lv, cd)) Q.
Proof.
  intros H1 H2 H3 H4 Hk1 Hk0. eapply safeS_cas_help; [apply getl_setl_same|exact H1|exact H2|exact H3|exact H4| |exact Hk0].
  rewrite setl_setl. exact Hk1.
Qed.

Lemma w_cas_unlink {R} t d m km c0 nx (k : SL.V -> SL.prog R) L0 lv cd Q :
  In (FPub m km) (lv_facts lv) -> In (FFrozen c0 nx) (lv_facts lv) ->
  safeS t (k (SL.vok true)) (setl d L0 (lv, cd)) Q -> safeS t (k (SL.vok false)) (setl d L0 (lv, cd)) Q ->
  safeS t (Act (SL.a_cas (SL.LNext m) c0 nx false) k) (setl d L0 (lv, cd)) Q.
Proof. intros H1 H2 Hk1 Hk0. eapply safeS_cas_unlink; [apply getl_setl_same|exact H1|exact H2|exact Hk1|exact Hk0]. Qed.

Lemma w_cas_mark {R} t d c0 kc nx (k : SL.V -> SL.prog R) L0 lv cd Q :
  In (FPub c0 kc) (lv_facts lv) -> ak kc = false -> open_read (lv_st lv) (SErase kc) ->
  safeS t (k (SL.vok true)) (setl d L0 (mkLV (FFrozen c0 nx :: lv_facts lv) (lv_own lv) (@Linearized SetSpec (SErase kc) (RBool true)), cd)) Q ->
  safeS t (k (SL.vok false)) (setl d L0 (lv, cd)) Q ->
  safeS t (Act (SL.a_cas (SL.LNext c0) nx nx true) k) (setl d L0 (lv, cd)) Q.
Proof.
  intros H1 H2 H3 Hk1 Hk0. eapply safeS_cas_mark; [apply getl_setl_same|exact H1|exact H2|exact H3| |exact Hk0].
  rewrite setl_setl. exact Hk1.
Qed.

Lemma w_cas_link {R} t d m km pc n kk o (k : SL.V -> SL.prog R) L0 lv cd Q :
  In (FPub m km) (lv_facts lv) -> km < kk ->
  (pc = 0%nat \/ exists kc, In (FPub pc kc) (lv_facts lv) /\ kk < kc) ->
  lv_own lv = Some (n, kk, pc) -> open_read (lv_st lv) o -> ins_op o kk ->
  safeS t (k (SL.vok true)) (setl d L0 (mkLV (FPub n kk :: lv_facts lv) None (@Linearized SetSpec o (ins_res o)), cd)) Q ->
  safeS t (k (SL.vok false)) (setl d L0 (lv, cd)) Q ->
  safeS t (Act (SL.a_cas (SL.LNext m) pc n false) k) (setl d L0 (lv, cd)) Q.
Proof.
  intros H1 H2 H3 H4 H5 H6 Hk1 Hk0.
  eapply safeS_cas_link; [apply getl_setl_same|exact H1|exact H2|exact H3|exact H4|exact H5|exact H6| |exact Hk0].
  rewrite setl_setl. exact Hk1.
Qed.

Lemma w_alloc_st {R} t d kk p (k : SL.V -> SL.prog R) L0 lv cd Q :
  (forall n, n <> 0%nat -> safeS t (k (SL.mkV n false kk 0)) (setl d L0 (mkLV (lv_facts lv) (Some (n, kk, p)) (lv_st lv), cd)) Q) ->
  safeS t (Act (SL.a_alloc_st kk p) k) (setl d L0 (lv, cd)) Q.
Proof. intros Hk. eapply safeS_alloc_st; [apply getl_setl_same|]. intros n Hn. rewrite setl_setl. apply Hk. exact Hn. Qed.

Lemma w_st_next {R} t d n kk nx p (k : SL.V -> SL.prog R) L0 lv cd Q :
  lv_own lv = Some (n, kk, nx) ->
  (forall v, SL.vptr v = n -> safeS t (k v) (setl d L0 (mkLV (lv_facts lv) (Some (n, kk, p)) (lv_st lv), cd)) Q) ->
  safeS t (Act (SL.a_st_next n p) k) (setl d L0 (lv, cd)) Q.
Proof. intros H1 Hk. eapply safeS_st_next; [apply getl_setl_same|exact H1|]. intros v Hv. rewrite setl_setl. apply Hk. exact Hv. Qed.

Lemma w_ld_cell {R} t d t' s aux kh (k : SL.V -> SL.prog R) L0 lv c Q :
  In (FPub aux kh) (lv_facts lv) ->
  safeS t (k (SL.mkV aux false kh 0)) (setl d L0 (lv, c)) Q ->
  safeS t (Act (SL.a_ld (SL.LCell t' s aux)) k) (setl d L0 (lv, c)) Q.
Proof. intros H1 Hk. eapply safeS_ld_cell; [apply getl_setl_same|exact H1|exact Hk]. Qed.

(** ** hazard-pointer plumbing *)
Lemma safeS_gst {R} t t' s (k : SL.V -> SL.prog R) L Q : safeS t (k SL.v0) L Q -> safeS t (Act (SL.a_gst t' s) k) L Q.
Proof. apply safeS_nop. Qed.
Lemma safeS_assign_guard t s L (Q : unit -> LS -> Prop) : Q tt L -> safeS t (SL.assign_guard t s) L Q.
Proof. intros H. unfold SL.assign_guard. apply safeS_nop. apply safeS_nop. exact H. Qed.
Lemma safeS_copy_guard t d0 s L (Q : unit -> LS -> Prop) : Q tt L -> safeS t (SL.copy_guard t d0 s) L Q.
Proof. intros H. unfold SL.copy_guard. apply safeS_nop. apply safeS_assign_guard. exact H. Qed.
Lemma safeS_retire t L (Q : unit -> LS -> Prop) : Q tt L -> safeS t (SL.retire t) L Q.
Proof. intros H. unfold SL.retire. apply safeS_nop. apply safeS_nop. exact H. Qed.
Lemma safeS_free_guards t gs : forall fr L (Q : list nat -> LS -> Prop),
  (forall fr', Q fr' L) -> safeS t (SL.free_guards t gs fr) L Q.
Proof.
  induction gs as [|s gs IH]; intros fr L Q H; cbn [SL.free_guards]; [apply H|].
  apply safeS_nop. apply IH. exact H.
Qed.

(** ** protect *)
Lemma safeS_protect fuel : forall t d s n kl o L0 lv cd (Q : option SL.V -> LS -> Prop),
  In (FPub n kl) (lv_facts lv) -> open_read (lv_st lv) o ->
  (forall F' s', incl (lv_facts lv) F' -> open_read s' o -> Q None (setl d L0 (lvw lv F' s', cd))) ->
  (forall v F' s0, incl (lv_facts lv) F' -> incl (newfacts n (cv v)) F' -> open_read s0 o ->
       (ak kl = true -> SL.vmark v = false) ->
       Q (Some v) (setl d L0 (lvw lv F' (obs_st o (obs_rule (Some kl) None (op_key o) (cv v)) s0), cd))) ->
  safeS t (SL.protect fuel t s (SL.LNext n)) (setl d L0 (lv, cd)) Q.
Proof.
  induction fuel as [|f IH]; intros t d s n kl o L0 lv cd Q Hn Hop HN HS; cbn [SL.protect].
  - cbn [Conc.safe]. destruct lv as [F ow st]. apply (HN F st); [apply incl_refl|exact Hop].
  - eapply w_ld with (kl := kl) (kp := None) (o := o); [exact Hn|exact I|exact Hop|]. intros v Hv0.
    apply safeS_nop. apply safeS_nop.
    set (F1 := newfacts n (cv v) ++ lv_facts lv).
    set (s1 := obs_st o (obs_rule (Some kl) None (op_key o) (cv v)) (lv_st lv)).
    assert (Hop1 : open_read s1 o) by (apply open_read_obs; exact Hop).
    assert (Hn1 : In (FPub n kl) F1) by (apply in_or_app; right; exact Hn).
    eapply w_ld with (kl := kl) (kp := None) (o := o); [exact Hn1|exact I|exact Hop1|]. intros v' Hv0'.
    cbn [lv_facts lv_own lv_st].
    set (F2 := newfacts n (cv v') ++ F1).
    assert (I0 : incl (lv_facts lv) F2) by (unfold F2, F1; apply incl_appr; apply incl_app_r').
    destruct (SL.veqb v v') eqn:Ev.
    + cbn [Conc.safe].
      assert (Ev' : veqb (cv v) (cv v') = true) by exact Ev.
      rewrite (obs_rule_veqb (Some kl) (op_key o) (cv v) (cv v') Ev').
      apply (HS v F2 s1); auto. unfold F2, F1. apply incl_appr. apply incl_appl. apply incl_refl.
    + change (safeS t (SL.protect f t s (SL.LNext n))
               (setl d L0 (lvw lv F2 (obs_st o (obs_rule (Some kl) None (op_key o) (cv v')) s1), cd)) Q).
      apply IH with (kl := kl) (o := o).
      * cbn [lvw lv_facts]. apply I0. exact Hn.
      * cbn [lvw lv_st]. apply open_read_obs; exact Hop1.
      * intros F' s' HF Hs'. apply (HN F' s'); auto. eapply incl_tran; eauto.
      * intros w F' s0 HF HF' Hs0 Hw0. apply (HS w F' s0); auto. eapply incl_tran; eauto.
Qed.

(** protect of the local head cell: two thread-local loads of the same value *)
Lemma safeS_protect_cell fuel t d s t' site aux kh L0 lv cd (Q : option SL.V -> LS -> Prop) :
  In (FPub aux kh) (lv_facts lv) ->
  Q None (setl d L0 (lv, cd)) -> Q (Some (SL.mkV aux false kh 0)) (setl d L0 (lv, cd)) ->
  safeS t (SL.protect fuel t s (SL.LCell t' site aux)) (setl d L0 (lv, cd)) Q.
Proof.
  intros Hf HN HS. destruct fuel as [|f]; cbn [SL.protect]; [exact HN|].
  eapply w_ld_cell; [exact Hf|]. apply safeS_nop. apply safeS_nop. eapply w_ld_cell; [exact Hf|].
  unfold SL.veqb. cbn [SL.vptr SL.vmark]. rewrite Nat.eqb_refl. cbn [andb Bool.eqb Conc.safe]. exact HS.
Qed.

(** ** search *)
Definition spos_ok (F : list fact) (k : Z) (found : bool) (p : SL.pos) : Prop :=
  exists m, SL.pprev p = SL.LNext m /\ (exists km, In (FPub m km) F /\ km < k) /\
    (if found then In (FPub (SL.pcur p) k) F
     else SL.pcur p = 0%nat \/ exists kc, In (FPub (SL.pcur p) kc) F /\ k < kc).

Definition ssearch_inv (F : list fact) (aux : nat) (kh k : Z) (o : set_op) (s : status SetSpec) (st : option (SL.loc * SL.V)) : Prop :=
  open_read s o /\
  match st with
  | None => True
  | Some (SL.LCell _ _ a, pCur) => a = aux /\ pCur = SL.mkV aux false kh 0
  | Some (SL.LNext m, pCur) =>
      (exists km, In (FPub m km) F /\ km < k) /\
      (SL.vptr pCur = 0%nat \/ In (FPub (SL.vptr pCur) (SL.vkey pCur)) F) /\
      (SL.vptr pCur = 0%nat -> st_after o false s)
  end.

Lemma safeS_search fuel : forall t d t' site aux kh g0 g1 g2 o st L0 lv cd (Q : option (bool * SL.pos) -> LS -> Prop),
  aux <> 0%nat -> In (FPub aux kh) (lv_facts lv) -> ak kh = true -> kh < op_key o ->
  ssearch_inv (lv_facts lv) aux kh (op_key o) o (lv_st lv) st ->
  (forall F' s', incl (lv_facts lv) F' -> open_read s' o -> Q None (setl d L0 (lvw lv F' s', cd))) ->
  (forall F' s' found p, incl (lv_facts lv) F' -> spos_ok F' (op_key o) found p -> st_after o found s' ->
        Q (Some (found, p)) (setl d L0 (lvw lv F' s', cd))) ->
  safeS t (SL.search fuel t g0 g1 g2 (SL.LCell t' site aux) (op_key o) st) (setl d L0 (lv, cd)) Q.
Proof.
  induction fuel as [|f IH]; intros t d t' site aux kh g0 g1 g2 o st L0 lv cd Q Haux Hfa Hak Hkh Hinv HN HS; cbn [SL.search].
  - cbn [Conc.safe]. destruct lv as [F ow s]. destruct Hinv as [Hop _]. apply (HN F s); [apply incl_refl|exact Hop].
  - set (k := op_key o) in *. destruct Hinv as (Hop & Hinv).
    (* the recursive call, whatever was learnt *)
    assert (Hrec : forall st' F2 s2, incl (lv_facts lv) F2 -> ssearch_inv F2 aux kh k o s2 st' ->
              safeS t (SL.search f t g0 g1 g2 (SL.LCell t' site aux) (op_key o) st') (setl d L0 (lvw lv F2 s2, cd)) Q).
    { intros st' F2 s2 I02 Hinv2.
      apply IH with (kh := kh); [exact Haux|cbn [lvw lv_facts]; apply I02; exact Hfa|exact Hak|exact Hkh|exact Hinv2| |].
      - intros F' s' HF Hs'. apply HN; auto. eapply incl_tran; eauto.
      - intros F' s' fd p HF Hp Hs'. apply HS; auto. eapply incl_tran; eauto. }
    assert (Hrestart : forall F2 s2, incl (lv_facts lv) F2 -> open_read s2 o ->
              safeS t (SL.search f t g0 g1 g2 (SL.LCell t' site aux) (op_key o) None) (setl d L0 (lvw lv F2 s2, cd)) Q).
    { intros F2 s2 I02 Hop2. apply Hrec; [exact I02|]. split; [exact Hop2|exact I]. }
    destruct st as [[[tc sc a|m] pCur]|].
    + (* at the local head cell: pCur = aux, unmarked, key kh < k *)
      destruct Hinv as [-> ->]. cbn [SL.vptr]. destruct (Nat.eqb_spec aux 0) as [E0|_]; [contradiction|].
      apply Conc.safe_bind. eapply safeS_protect with (kl := kh) (o := o); [exact Hfa|exact Hop|..].
      * intros F' s' HF Hs'. cbn [Conc.safe]. apply HN; auto.
      * intros pNext F1 s0 HF1 HN1 Hs0 Hunm. cbn beta iota.
        set (s1 := obs_st o (obs_rule (Some kh) None k (cv pNext)) s0).
        assert (Hop1 : open_read s1 o) by (apply open_read_obs; exact Hs0).
        eapply w_ld_cell; [cbn [lvw lv_facts]; apply HF1; exact Hfa|].
        cbn [SL.vptr SL.vmark SL.vkey]. rewrite Nat.eqb_refl. cbn [andb negb].
        rewrite (Hunm Hak).
        destruct (Z.leb_spec k kh) as [Hle|_]; [lia|].
        apply Conc.safe_bind. apply safeS_copy_guard. apply Conc.safe_bind. apply safeS_copy_guard.
        apply (Hrec (Some (SL.LNext aux, pNext)) F1 s1 HF1).
        split; [exact Hop1|]. split; [exists kh; split; [apply HF1; exact Hfa|exact Hkh]|].
        split; [exact (newfacts_pub _ _ _ HN1)|].
        intros Hz. unfold s1. rewrite obs_rule_lt; [|exact (Hunm Hak)|right; exists kh; split; [reflexivity|exact Hkh]].
        rewrite absent_null by exact Hz. apply st_after_lin. exact Hs0.
    + (* inside the list: pPrev = the next cell of the published node m *)
      destruct Hinv as ((km & Hkm & Hlt) & Hcur & Hnull).
      destruct (Nat.eqb_spec (SL.vptr pCur) 0) as [E0|E0].
      * cbn [Conc.safe]. destruct lv as [F own s0]. apply (HS F s0 false (SL.mkPos (SL.LNext m) 0 0)); [apply incl_refl| |apply Hnull; exact E0].
        exists m. split; [reflexivity|]. split; [exists km; auto|]. left. reflexivity.
      * destruct Hcur as [Hcur|Hcur]; [contradiction|].
        set (pc := SL.vptr pCur) in *. set (kc := SL.vkey pCur) in *.
        apply Conc.safe_bind. eapply safeS_protect with (kl := kc) (o := o); [exact Hcur|exact Hop|..].
        -- intros F' s' HF Hs'. cbn [Conc.safe]. apply HN; auto.
        -- intros pNext F1 s0 HF1 HN1 Hs0 _. cbn beta iota.
           set (s1 := obs_st o (obs_rule (Some kc) None k (cv pNext)) s0).
           assert (Hop1 : open_read s1 o) by (apply open_read_obs; exact Hs0).
           eapply w_ld with (kl := km) (kp := Some (pc, kc)) (o := o);
             [cbn [lvw lv_facts]; apply HF1; exact Hkm|cbn; apply HF1; exact Hcur|exact Hop1|].
           intros pv _. cbn [lv_facts lv_own lv_st lvw].
           set (F2 := newfacts m (cv pv) ++ F1).
           set (s2 := obs_st o (obs_rule (Some km) (Some (pc, kc)) k (cv pv)) s1).
           assert (Hop2 : open_read s2 o) by (apply open_read_obs; exact Hop1).
           assert (I12 : incl F1 F2) by (unfold F2; apply incl_app_r').
           assert (I02 : incl (lv_facts lv) F2) by (eapply incl_tran; eauto).
           assert (Hck : ck_lt (Some km) k) by (right; exists km; split; [reflexivity|exact Hlt]).
           destruct (Nat.eqb_spec (SL.vptr pv) pc) as [Epv|Epv]; cbn [andb negb].
           2: { apply (Hrestart F2 s2 I02 Hop2). }
           destruct (SL.vmark pv) eqn:Empv; cbn [negb].
           { apply (Hrestart F2 s2 I02 Hop2). }
           destruct (SL.vmark pNext) eqn:Emk.
           ++ (* help to unlink the marked pCur *)
              eapply (w_cas_help t d m km pc (SL.vptr pNext) o) with (lv := lvw lv F2 s2).
              ** cbn [lvw lv_facts]. apply I02. exact Hkm.
              ** exact Hlt.
              ** cbn [lvw lv_facts]. apply I12. exact (newfacts_frozen _ _ _ HN1 Emk).
              ** exact Hop2.
              ** cbn beta iota. cbn [SL.vmark SL.vok]. cbn [lv_facts lv_own lv_st lvw].
                 set (s3 := if Nat.eqb (SL.vptr pNext) 0 then lin_read o false s2 else s2).
                 apply Conc.safe_bind. apply safeS_retire. apply Conc.safe_bind. apply safeS_copy_guard.
                 apply (Hrec (Some (SL.LNext m, pNext)) F2 s3 I02).
                 split.
                 { unfold s3. destruct (Nat.eqb (SL.vptr pNext) 0); [apply open_read_lin|]; exact Hop2. }
                 split; [exists km; split; [apply I02; exact Hkm|exact Hlt]|].
                 split; [destruct (newfacts_pub _ _ _ HN1) as [Hz|Hz]; [left; exact Hz|right; apply I12; exact Hz]|].
                 intros Hz. unfold s3. cbn [cv vptr] in Hz. rewrite Hz. cbn [Nat.eqb]. apply st_after_lin. exact Hop2.
              ** cbn beta iota. cbn [SL.vmark SL.vok]. apply (Hrestart F2 s2 I02 Hop2).
           ++ destruct (Z.leb_spec k kc) as [Hle|Hgt].
              ** (* stop here *)
                 cbn [Conc.safe]. apply (HS F2 s2 (Z.eqb kc k) (SL.mkPos (SL.LNext m) pc (SL.vptr pNext))); [exact I02| |].
                 --- exists m. cbn [SL.pprev SL.pcur]. split; [reflexivity|]. split; [exists km; split; [apply I02; exact Hkm|exact Hlt]|].
                     destruct (Z.eqb_spec kc k) as [Ek|Ek].
                     +++ rewrite <- Ek. apply I02. exact Hcur.
                     +++ right. exists kc. split; [apply I02; exact Hcur|lia].
                 --- destruct (Z.eqb_spec kc k) as [Ek|Ek].
                     +++ assert (E1 : s1 = lin_read o true s0).
                         { unfold s1. rewrite Ek. rewrite obs_rule_present by exact Emk. reflexivity. }
                         assert (E2 : s2 = s1).
                         { unfold s2. rewrite obs_rule_lt by auto. rewrite absent_known_ge; [reflexivity|cbn [cv vptr]; rewrite Epv; exact E0|lia]. }
                         rewrite E2, E1. apply st_after_lin. exact Hs0.
                     +++ assert (E2 : s2 = lin_read o false s1).
                         { unfold s2. rewrite obs_rule_lt by auto. rewrite absent_known; [reflexivity|exact Epv|exact E0|lia]. }
                         rewrite E2. apply st_after_lin. exact Hop1.
              ** (* advance *)
                 apply Conc.safe_bind. apply safeS_copy_guard. apply Conc.safe_bind. apply safeS_copy_guard.
                 apply (Hrec (Some (SL.LNext pc, pNext)) F2 s2 I02).
                 split; [exact Hop2|].
                 split; [exists kc; split; [apply I02; exact Hcur|lia]|].
                 split; [destruct (newfacts_pub _ _ _ HN1) as [Hz|Hz]; [left; exact Hz|right; apply I12; exact Hz]|].
                 intros Hz.
                 assert (E1 : s1 = lin_read o false s0).
                 { unfold s1. rewrite obs_rule_lt; [|exact Emk|right; exists kc; split; [reflexivity|lia]].
                   rewrite absent_null by exact Hz. reflexivity. }
                 assert (E2 : s2 = s1).
                 { unfold s2. rewrite obs_rule_lt by auto. rewrite absent_known_ge; [reflexivity|cbn [cv vptr]; rewrite Epv; exact E0|lia]. }
                 rewrite E2, E1. apply st_after_lin. exact Hs0.
    + (* try_again: load the local head cell *)
      apply Conc.safe_bind. eapply safeS_protect_cell; [exact Hfa| |].
      * cbn [Conc.safe]. destruct lv as [F ow s]. apply (HN F s); [apply incl_refl|exact Hop].
      * cbn beta iota. destruct lv as [F ow s].
        apply (Hrec (Some (SL.LCell t' site aux, SL.mkV aux false kh 0)) F s (incl_refl _)).
        split; [exact Hop|]. split; reflexivity.
Qed.

(** ** link_node, unlink_node *)
Definition own_is (own : option nat) (n : nat) : Prop := match own with Some n0 => n = n0 | None => n <> 0%nat end.

Lemma safeS_link_node t d own kk p L0 lv cd o (Q : bool * nat -> LS -> Prop) :
  spos_ok (lv_facts lv) kk false p ->
  open_read (lv_st lv) o -> ins_op o kk ->
  (own = None \/ exists n nx, own = Some n /\ lv_own lv = Some (n, kk, nx)) ->
  (forall n, own_is own n -> Q (true, n) (setl d L0 (mkLV (FPub n kk :: lv_facts lv) None (@Linearized SetSpec o (ins_res o)), cd))) ->
  (forall n, own_is own n -> Q (false, n) (setl d L0 (mkLV (lv_facts lv) (Some (n, kk, 0%nat)) (lv_st lv), cd))) ->
  safeS t (SL.link_node own kk p) (setl d L0 (lv, cd)) Q.
Proof.
  intros (m & Hm & (km & Hkm & Hlt) & Hcur) Hst Hop Hown HQ1 HQ0. unfold SL.link_node. rewrite Hm.
  assert (Hcas : forall n lv1, own_is own n -> lv_facts lv1 = lv_facts lv -> lv_own lv1 = Some (n, kk, SL.pcur p) -> lv_st lv1 = lv_st lv ->
     safeS t (Act (SL.a_cas (SL.LNext m) (SL.pcur p) n false)
               (fun r => if SL.vmark r then Ret (true, n) else Act (SL.a_st_next n 0) (fun _ => Ret (false, n)))) (setl d L0 (lv1, cd)) Q).
  { intros n lv1 Hn0 E1 E2 E3. eapply w_cas_link with (kk := kk) (o := o) (km := km); rewrite ?E1, ?E3; eauto.
    - cbn [SL.vmark SL.vok Conc.safe]. apply HQ1. exact Hn0.
    - cbn [SL.vmark SL.vok]. eapply w_st_next; [exact E2|]. intros v Hv. cbn [Conc.safe lv_facts lv_st].
      rewrite E1, E3. apply HQ0. exact Hn0. }
  destruct Hown as [->|(n & nx & -> & Hn)].
  - apply w_alloc_st. intros n Hn0. cbn [SL.vptr]. apply Hcas; auto.
  - eapply w_st_next; [exact Hn|]. intros v Hv. rewrite Hv. apply Hcas; auto. reflexivity.
Qed.

Lemma safeS_unlink_node t d p kk L0 lv cd (Q : bool -> LS -> Prop) :
  spos_ok (lv_facts lv) kk true p -> ak kk = false -> open_read (lv_st lv) (SErase kk) ->
  Q true (setl d L0 (mkLV (FFrozen (SL.pcur p) (SL.pnext p) :: lv_facts lv) (lv_own lv) (@Linearized SetSpec (SErase kk) (RBool true)), cd)) ->
  Q false (setl d L0 (lv, cd)) ->
  safeS t (SL.unlink_node t p) (setl d L0 (lv, cd)) Q.
Proof.
  intros (m & Hm & (km & Hkm & Hlt) & Hcur) Hak Hst HQ1 HQ0. unfold SL.unlink_node. rewrite Hm.
  eapply w_cas_mark; [exact Hcur|exact Hak|exact Hst|..].
  - cbn [SL.vmark SL.vok]. eapply w_cas_unlink with (km := km).
    + cbn [lv_facts]. right. exact Hkm.
    + cbn [lv_facts]. left. reflexivity.
    + cbn [SL.vmark SL.vok]. apply Conc.safe_bind. apply safeS_retire. exact HQ1.
    + cbn [SL.vmark SL.vok Conc.safe]. exact HQ1.
  - cbn [SL.vmark SL.vok Conc.safe]. exact HQ0.
Qed.

(** ** insert_at / erase_at / find_at from the local head cell of a bucket *)
Lemma safeS_insert_loop fuel : forall sf t d t' site aux kh g0 g1 g2 kk own L0 lv cd (Q : SL.out bool -> LS -> Prop),
  aux <> 0%nat -> In (FPub aux kh) (lv_facts lv) -> ak kh = true -> kh < kk ->
  open_read (lv_st lv) (SInsert kk) ->
  (own = None \/ exists n nx, own = Some n /\ lv_own lv = Some (n, kk, nx)) ->
  (forall L', Q None L') ->
  (forall F' own', incl (lv_facts lv) F' -> Q (Some false) (setl d L0 (mkLV F' own' (@Linearized SetSpec (SInsert kk) (RBool false)), cd))) ->
  (forall F' n, incl (lv_facts lv) F' -> (forall n0, own = Some n0 -> n = n0) -> In (FPub n kk) F' -> n <> 0%nat \/ own = Some n ->
       Q (Some true) (setl d L0 (mkLV F' None (@Linearized SetSpec (SInsert kk) (RBool true)), cd))) ->
  safeS t (SL.insert_loop fuel sf t g0 g1 g2 (SL.LCell t' site aux) kk own) (setl d L0 (lv, cd)) Q.
Proof.
  induction fuel as [|f IH]; intros sf t d t' site aux kh g0 g1 g2 kk own L0 lv cd Q Haux Hfa Hak Hkh Hst Hown HN HF HT; cbn [SL.insert_loop].
  - cbn [Conc.safe]. apply HN.
  - apply Conc.safe_bind. change kk with (op_key (SInsert kk)) at 1.
    eapply safeS_search with (o := SInsert kk) (kh := kh); auto; [split; [exact Hst|exact I]|..].
    + intros F' s' _ _. cbn [Conc.safe]. apply HN.
    + intros F' s' found p HF' Hp [Hs' Hres]. cbn [op_key] in Hp. destruct found.
      * cbn [Conc.safe]. unfold lvw. rewrite (Hres (RBool false) eq_refl). apply HF. exact HF'.
      * assert (Hown' : own = None \/ exists n nx, own = Some n /\ lv_own (lvw lv F' s') = Some (n, kk, nx)) by exact Hown.
        apply Conc.safe_bind. eapply safeS_link_node with (o := SInsert kk); [exact Hp|exact Hs'|left; reflexivity|exact Hown'|..].
        -- intros n Hn. cbn [fst snd Conc.safe]. apply (HT _ n).
           ++ cbn [lvw lv_facts]. apply incl_tl. exact HF'.
           ++ intros n0 E. rewrite E in Hn. exact Hn.
           ++ left. reflexivity.
           ++ destruct own as [n0|]; cbn [own_is] in Hn; [right; congruence|left; exact Hn].
        -- intros n Hn. cbn [fst snd].
           apply IH with (kh := kh); [exact Haux|cbn [lvw lv_facts]; apply HF'; exact Hfa|exact Hak|exact Hkh|exact Hs'| |exact HN| |].
           ++ right. exists n, 0%nat. split; reflexivity.
           ++ intros F'' own'' HF''. apply HF. eapply incl_tran; eauto.
           ++ intros F'' n' HF'' Hn' Hin Hnz. apply (HT _ n'); auto.
              ** eapply incl_tran; eauto.
              ** intros n0 E0. rewrite E0 in Hn. cbn in Hn. subst n0. apply Hn'. reflexivity.
              ** destruct Hnz as [Hnz|Hnz]; [left; exact Hnz|]. inversion Hnz; subst n'.
                 destruct own as [n0|]; cbn [own_is] in Hn; [right; congruence|left; exact Hn].
Qed.

Lemma safeS_erase_loop fuel : forall sf t d t' site aux kh g0 g1 g2 kk L0 lv cd (Q : SL.out bool -> LS -> Prop),
  aux <> 0%nat -> In (FPub aux kh) (lv_facts lv) -> ak kh = true -> kh < kk -> ak kk = false ->
  open_read (lv_st lv) (SErase kk) ->
  (forall L', Q None L') ->
  (forall F' own', Q (Some false) (setl d L0 (mkLV F' own' (@Linearized SetSpec (SErase kk) (RBool false)), cd))) ->
  (forall F' own', Q (Some true) (setl d L0 (mkLV F' own' (@Linearized SetSpec (SErase kk) (RBool true)), cd))) ->
  safeS t (SL.erase_loop fuel sf t g0 g1 g2 (SL.LCell t' site aux) kk) (setl d L0 (lv, cd)) Q.
Proof.
  induction fuel as [|f IH]; intros sf t d t' site aux kh g0 g1 g2 kk L0 lv cd Q Haux Hfa Hak Hkh Hakk Hst HN HF HT; cbn [SL.erase_loop].
  - cbn [Conc.safe]. apply HN.
  - apply Conc.safe_bind. change kk with (op_key (SErase kk)) at 1.
    eapply safeS_search with (o := SErase kk) (kh := kh); [exact Haux|exact Hfa|exact Hak|exact Hkh|split; [exact Hst|exact I]| |].
    + intros F' s' _ _. cbn [Conc.safe]. apply HN.
    + intros F' s' found p HF' Hp [Hs' Hres]. cbn [op_key] in Hp. destruct found.
      * apply Conc.safe_bind. eapply safeS_unlink_node; [exact Hp|exact Hakk|exact Hs'|..].
        -- cbn [Conc.safe]. apply HT.
        -- apply IH with (kh := kh); [exact Haux|cbn [lvw lv_facts]; apply HF'; exact Hfa|exact Hak|exact Hkh|exact Hakk|exact Hs'|exact HN|exact HF|exact HT].
      * cbn [Conc.safe]. unfold lvw. rewrite (Hres (RBool false) eq_refl). apply HF.
Qed.

Lemma safeS_list_insert fuel t d site aux kh kk own fr L0 lv cd (Q : SL.out (bool * list nat) -> LS -> Prop) :
  aux <> 0%nat -> In (FPub aux kh) (lv_facts lv) -> ak kh = true -> kh < kk ->
  open_read (lv_st lv) (SInsert kk) ->
  (own = None \/ exists n nx, own = Some n /\ lv_own lv = Some (n, kk, nx)) ->
  (forall L', Q None L') ->
  (forall F' own' fr', incl (lv_facts lv) F' -> Q (Some (false, fr')) (setl d L0 (mkLV F' own' (@Linearized SetSpec (SInsert kk) (RBool false)), cd))) ->
  (forall F' n fr', incl (lv_facts lv) F' -> (forall n0, own = Some n0 -> n = n0) -> In (FPub n kk) F' ->
       Q (Some (true, fr')) (setl d L0 (mkLV F' None (@Linearized SetSpec (SInsert kk) (RBool true)), cd))) ->
  safeS t (SL.list_insert fuel t site aux kk own fr) (setl d L0 (lv, cd)) Q.
Proof.
  intros Haux Hfa Hak Hkh Hst Hown HN HF HT. unfold SL.list_insert. destruct (SL.alloc3 fr) as [[[g0 g1] g2] fr1].
  apply Conc.safe_bind. eapply safeS_insert_loop with (kh := kh); [exact Haux|exact Hfa|exact Hak|exact Hkh|exact Hst|exact Hown|..].
  - intros L'. cbn [Conc.safe]. apply HN.
  - intros F' own' HF'. apply Conc.safe_bind. apply safeS_free_guards. intros fr'. cbn [Conc.safe]. apply HF. exact HF'.
  - intros F' n HF' Hn Hin _. apply Conc.safe_bind. apply safeS_free_guards. intros fr'. cbn [Conc.safe]. apply (HT _ n); auto.
Qed.

Lemma safeS_list_erase fuel t d site aux kh kk fr L0 lv cd (Q : SL.out (bool * list nat) -> LS -> Prop) :
  aux <> 0%nat -> In (FPub aux kh) (lv_facts lv) -> ak kh = true -> kh < kk -> ak kk = false ->
  open_read (lv_st lv) (SErase kk) ->
  (forall L', Q None L') ->
  (forall F' own' b fr', Q (Some (b, fr')) (setl d L0 (mkLV F' own' (@Linearized SetSpec (SErase kk) (RBool b)), cd))) ->
  safeS t (SL.list_erase fuel t site aux kk fr) (setl d L0 (lv, cd)) Q.
Proof.
  intros Haux Hfa Hak Hkh Hakk Hst HN HS. unfold SL.list_erase. destruct (SL.alloc3 fr) as [[[g0 g1] g2] fr1].
  apply Conc.safe_bind. eapply safeS_erase_loop with (kh := kh); [exact Haux|exact Hfa|exact Hak|exact Hkh|exact Hakk|exact Hst|..].
  - intros L'. cbn [Conc.safe]. apply HN.
  - intros F' own'. apply Conc.safe_bind. apply safeS_free_guards. intros fr'. cbn [Conc.safe]. apply HS.
  - intros F' own'. apply Conc.safe_bind. apply safeS_free_guards. intros fr'. cbn [Conc.safe]. apply HS.
Qed.

Lemma safeS_list_find fuel t d site aux kh kk fr L0 lv cd (Q : SL.out (bool * list nat) -> LS -> Prop) :
  aux <> 0%nat -> In (FPub aux kh) (lv_facts lv) -> ak kh = true -> kh < kk ->
  open_read (lv_st lv) (SContains kk) ->
  (forall L', Q None L') ->
  (forall F' own' b fr', Q (Some (b, fr')) (setl d L0 (mkLV F' own' (@Linearized SetSpec (SContains kk) (RBool b)), cd))) ->
  safeS t (SL.list_find fuel t site aux kk fr) (setl d L0 (lv, cd)) Q.
Proof.
  intros Haux Hfa Hak Hkh Hst HN HS. unfold SL.list_find. destruct (SL.alloc3 fr) as [[[g0 g1] g2] fr1].
  apply Conc.safe_bind. change kk with (op_key (SContains kk)) at 1.
  eapply safeS_search with (o := SContains kk) (kh := kh); [exact Haux|exact Hfa|exact Hak|exact Hkh|split; [exact Hst|exact I]| |].
  - intros F' s' _ _. cbn [Conc.safe]. apply HN.
  - intros F' s' found p _ _ [Hs' Hres].
    apply Conc.safe_bind. apply safeS_free_guards. intros fr'. cbn [Conc.safe]. unfold lvw.
    rewrite (Hres (RBool found) eq_refl). apply HS.
Qed.

End Prog.
