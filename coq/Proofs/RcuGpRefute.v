(** * RcuGp: the variant of synchronize with ONE flip_and_wait violates [sync_waits] (concrete schedule);
      the same schedule on the real two-flip model is fine and exhibits a writer that waits for an old reader. *)
From Coq Require Import ZArith List String Bool Lia PeanoNat.
From LV Require Import Base.Conc Base.Events Model.RcuGp Proofs.RcuGpInv.
Import ListNotations.
Local Open Scope string_scope.
Local Open Scope list_scope.

Definition at_b (tr : trace) (i t : nat) (P : ev -> bool) : bool :=
  match nth_error tr i with Some (t', e) => Nat.eqb t' t && P e | None => false end.

Lemma at_b_spec tr i t P : at_ tr i t P <-> at_b tr i t P = true.
Proof.
  unfold at_, at_b. split.
  - intros (e & H & HP). rewrite H, Nat.eqb_refl, HP. reflexivity.
  - destruct (nth_error tr i) as [[t' e]|]; [|discriminate]. intros H. apply andb_prop in H. destruct H as (H1 & H2).
    apply Nat.eqb_eq in H1. subst t'. exists e. auto.
Qed.

Lemma none_between tr lo n t P :
  forallb (fun k => negb (at_b tr k t P)) (seq (S lo) n) = true ->
  forall k, (lo < k < S lo + n)%nat -> ~ at_ tr k t P.
Proof.
  intros H k Hk Hat. apply at_b_spec in Hat. rewrite forallb_forall in H.
  specialize (H k). rewrite Hat in H. cbn in H. assert (In k (seq (S lo) n)) by (apply in_seq; lia). specialize (H H0). discriminate.
Qed.

(** reader 0: attach; rlock; touch      writer 1: attach; synchronize; unpublish; synchronize
    the reader loads the global word, is stopped before it stores it into its own word; the writer runs a whole
    synchronize (flip), the reader enters its section with the stale phase, the second synchronize (another
    flip) finds the phases equal and does not wait. *)
Definition cx_threads : list (list op) := [[OAttach; ORLock; OTouch]; [OAttach; OSync; OUnpublish; OSync]].
Definition cx_sched : list nat :=
  [0;0;0;0;0;0;0; 1;1;1;1;1;1;1;1;1;1;1;1;1;1; 0; 1;1;1;1;1;1;1;1;1;1;1;1;1;1;1;1;1;1]%nat.
Definition cx_cfg (flips : nat) : Conc.config G V ev :=
  fst (Conc.run 2000 0 cx_sched (init_cfg flips 3000 cx_threads)).
Notation cx_trace flips := (Conc.trace (cx_cfg flips)).
Lemma cx_reach flips : Conc.reach (init_cfg flips 3000 cx_threads) (cx_cfg flips).
Proof. unfold cx_cfg. apply Conc.run_reach. Qed.

Definition find_idx (tr : trace) (t : nat) (P : ev -> bool) (from : nat) : option nat :=
  let fix go (l : trace) (i : nat) : option nat :=
    match l with
    | [] => None
    | (t', e) :: r => if Nat.leb from i && Nat.eqb t' t && P e then Some i else go r (S i)
    end in go tr O.


Definition cx1 : trace := Eval vm_compute in cx_trace 1.
Definition cx2 : trace := Eval vm_compute in cx_trace 2.
Lemma cx1_eq : cx_trace 1 = cx1. Proof. vm_compute. reflexivity. Qed.
Lemma cx2_eq : cx_trace 2 = cx2. Proof. vm_compute. reflexivity. Qed.

Definition opt_nat (o : option nat) : nat := match o with Some n => n | None => O end.
(** witness positions, computed: the reader's rlock 1, the writer's next sync_begin and sync_end *)
Definition s1 : nat := Eval vm_compute in opt_nat (find_idx cx1 0 is_rlock1 0).
Definition i1 : nat := Eval vm_compute in opt_nat (find_idx cx1 1 is_sync_begin s1).
Definition j1 : nat := Eval vm_compute in opt_nat (find_idx cx1 1 is_sync_end i1).

Theorem single_flip_not_sync_waits : ~ sync_waits (cx_trace 1).
Proof.
  rewrite cx1_eq. intros H. destruct (H 1%nat i1 j1) with (r := O) (s := s1) as (b & Hb & Hat).
  - apply at_b_spec. vm_compute. reflexivity.
  - apply at_b_spec. vm_compute. reflexivity.
  - vm_compute. lia.
  - apply none_between with (n := (j1 - S i1)%nat); vm_compute; reflexivity.
  - split; [apply at_b_spec; vm_compute; reflexivity|]. split; [vm_compute; lia|].
    intros b Hb. apply none_between with (lo := s1) (n := (j1 - S s1)%nat); [vm_compute; reflexivity|].
    revert Hb. unfold s1, i1, j1. lia.
  - revert Hat. apply none_between with (lo := s1) (n := (j1 - S s1)%nat); [vm_compute; reflexivity|].
    revert Hb. unfold s1, i1, j1. lia.
Qed.

(** the same schedule with the two flips of the real code: the hypotheses of [sync_waits] are satisfiable (a
    synchronize interval with a reader that was inside before it began) and the reader does leave in between *)
Definition s2 : nat := Eval vm_compute in opt_nat (find_idx cx2 0 is_rlock1 0).
Definition i2 : nat := Eval vm_compute in opt_nat (find_idx cx2 1 is_sync_begin s2).
Definition j2 : nat := Eval vm_compute in opt_nat (find_idx cx2 1 is_sync_end i2).
Definition b2 : nat := Eval vm_compute in opt_nat (find_idx cx2 0 is_runlock0 i2).

Lemma two_flip_instance :
  at_ (cx_trace 2) i2 1 is_sync_begin /\ at_ (cx_trace 2) j2 1 is_sync_end /\ (i2 < j2)%nat /\
  (forall k, (i2 < k < j2)%nat -> ~ at_ (cx_trace 2) k 1 is_sync_begin) /\
  open_at (cx_trace 2) 0 s2 i2 /\ (i2 < b2 < j2)%nat /\ at_ (cx_trace 2) b2 0 is_runlock0.
Proof.
  rewrite cx2_eq. split; [apply at_b_spec; vm_compute; reflexivity|]. split; [apply at_b_spec; vm_compute; reflexivity|].
  split; [vm_compute; lia|]. split.
  - apply none_between with (n := (j2 - S i2)%nat); vm_compute; reflexivity.
  - split; [|split; [vm_compute; lia|apply at_b_spec; vm_compute; reflexivity]].
    split; [apply at_b_spec; vm_compute; reflexivity|]. split; [vm_compute; lia|].
    intros b Hb. apply none_between with (lo := s2) (n := (i2 - S s2)%nat); [vm_compute; reflexivity|].
    revert Hb. unfold s2, i2. lia.
Qed.

(** packaged for Properties_C04 *)
Lemma cx_refuted : Conc.reach (init_cfg 1 3000 cx_threads) (cx_cfg 1) /\ ~ sync_waits (Conc.trace (cx_cfg 1)).
Proof. split; [apply cx_reach|]. exact single_flip_not_sync_waits. Qed.
