(** DhpConsProgB1: copy of LV.Proofs.DhpProgB1 over the two-directional pointer invariant of LV.Proofs.DhpConsInv (conservation);
    the text differs from the original where the JW part of a goal is proved. *)
(** * DhpProgB1: the retired allocator, init / extend and smr::scan preserve the C03 invariant. *)
From Coq Require Import ZArith NArith List String Bool Lia PeanoNat.
From LV Require Import Base.Conc Base.Events Model.DhpLang Model.Dhp Proofs.DhpBase Proofs.DhpSeq Proofs.DhpSeqThm Proofs.DhpHist
  Proofs.DhpLangProofs Proofs.DhpAllocA Proofs.DhpInvB Proofs.DhpConsInv Proofs.DhpConsQuietB Proofs.DhpConsQuietB2 Proofs.DhpConsRulesB Proofs.DhpConsStepsB1 Proofs.DhpConsStepsB2
  Proofs.DhpConsStepsB3 Proofs.DhpConsStepsB4 Proofs.DhpConsStepsB5 Proofs.DhpConsStepsB6 Proofs.DhpConsStepsB7.
From LV Require Import Proofs.DhpConsStepsB10.
Import ListNotations.

Section ProgB1.
  Variable c : cfg.
  Notation RB := (c_RB c).
  Hypothesis HRB : 4 <= RB.
  Hypothesis Hold : c_old c = false.
  Let HRB1 : 1 <= RB. Proof. lia. Qed.

  Lemma JB_quiet_ev g a tr t es : Forall qevB es -> JB c g a tr -> JB c g a (tr ++ Conc.tag t es).
  Proof. intros H J. eapply JB_quiet; eauto. apply piB_refl. Qed.

  (** retired_allocator::alloc *)
  Lemma rt_alloc_spec t l (Q : option nat -> VB -> Prop) :
    vb_blk l = None -> (forall b, Q (Some b) (set_blk l (Some (b, true)))) -> (forall l', Q None l') ->
    dsafeB c t (rt_alloc c) l Q.
  Proof.
    intros Hb HQ HN. unfold rt_alloc.
    assert (Hrest : forall b, dsafeB c t (xbind (loc (fun g => (upd_rb g b (bs_next None), tt))) (fun _ => ret b)) (set_blk l (Some (b, false))) Q).
    { intros b. apply dsafeB_xloc. intros g a tr Hv. unfold viewB in Hv. exists (setv a t (set_blk (bvs a t) (Some (b, true)))).
      split; [eapply frame_bvs; reflexivity|]. split.
      - intros J. eapply S_clrnext; eauto. rewrite Hv. reflexivity.
      - unfold viewB. cbn [bvs setv]. rewrite fn_same, Hv. exact (HQ b). }
    apply dsafeB_quiet_seq; [apply qB_fl_get|apply HN|]. intros o. apply dsafeB_xbind. destruct o as [b|].
    - apply dsafeB_xemit. intros g a tr Hv. unfold viewB in Hv. exists (aux_blk a t b). split; [eapply frame_bvs; reflexivity|]. split.
      + intros Hfl Hnd J. apply S_alloc; auto. now rewrite Hv.
      + unfold viewB. cbn [bvs aux_blk]. rewrite fn_same, Hv. exact (Hrest b).
    - apply dsafeB_xloc. intros g a tr Hv. unfold viewB in Hv. exists (aux_blk a t (List.length (rbs g))). split; [eapply frame_bvs; reflexivity|]. split.
      + intros J. apply S_newrb; auto. now rewrite Hv.
      + unfold viewB. cbn [bvs aux_blk snd new_rblock]. rewrite fn_same, Hv.
        apply dsafeB_xemit_q; [repeat constructor; apply qevB_new|]. apply dsafeB_xact_q; [apply qB_st_flnext|]. intros _. exact (Hrest _).
  Qed.

  (** retired_array::init *)
  Lemma rt_init_spec t l r (Q : option unit -> VB -> Prop) :
    In r (vb_own l) -> vb_blk l = None -> vb_dead l <> Some r -> vb_move l = None -> vb_cur l = None -> vb_full l = None -> vb_new l = None ->
    Q (Some tt) (set_arr l (Some r)) -> (forall l', Q None l') -> dsafeB c t (rt_init c r) l Q.
  Proof.
    intros Hr Hb Hd Hm Hc Hf Hn HQ HN. unfold rt_init.
    apply dsafeB_xloc. intros g a tr Hv. unfold viewB in Hv.
    exists (match r_head (grec g r) with Some _ => setv a t (set_arr (bvs a t) (Some r)) | None => setv a t (set_move (bvs a t) (Some (r, None))) end).
    split; [destruct (r_head (grec g r)); eapply frame_bvs; reflexivity|]. split.
    { intros J. cbn [fst]. destruct (r_head (grec g r)) eqn:Eh.
      - apply S_setarr; auto. intros r' E'. inversion E'; subst r'. split; [rewrite Hv; exact Hr|].
        apply (arr_of_head c g a tr t r J); [rewrite Hv; exact Hr|rewrite Hv; exact Hd|congruence].
      - apply S_mark; auto; try (rewrite Hv; auto).
        destruct (rw0_of_nohead c g a tr t r J) as (_ & X); auto; rewrite Hv; auto. }
    cbn [fst snd]. destruct (r_head (grec g r)) as [hd|].
    { unfold viewB. cbn [bvs setv]. rewrite fn_same, Hv. exact HQ. }
    unfold viewB. cbn [bvs setv]. rewrite fn_same, Hv. clear g a tr Hv.
    apply dsafeB_xbind. apply rt_alloc_spec; auto. intros b. cbn beta iota.
    apply dsafeB_loc_J. intros g a tr Hv. unfold viewB in Hv.
    exists (setv (aux_init a t r b) t (set_arr (bvs (aux_init a t r b) t) (Some r))). split.
    { intros t' Ht. unfold viewB. cbn. now rewrite !fn_other by exact Ht. }
    split.
    - intros J. apply S_setarr; [|apply S_init; auto; rewrite Hv; auto].
      intros r' E'. inversion E'; subst r'. cbn [bvs aux_init rch]. rewrite !fn_same. split; [rewrite Hv; exact Hr|discriminate].
    - unfold viewB. cbn [bvs setv aux_init fst snd]. rewrite !fn_same, Hv.
      assert (E : set_arr (set_move (set_blk (set_blk (set_move l (Some (r, None))) (Some (b, true))) None) None) (Some r) = set_arr l (Some r)) by (destruct l; cbn in *; subst; reflexivity).
      rewrite E. exact HQ.
  Qed.

  (** retired_array::extend *)
  Lemma rt_extend_spec t l r (Q : option unit -> VB -> Prop) :
    In r (vb_own l) -> vb_blk l = None -> vb_full l = Some r -> (forall ob, vb_move l <> Some (r, ob)) ->
    Q (Some tt) (set_full l None) -> (forall l', Q None l') -> dsafeB c t (rt_extend c r) l Q.
  Proof.
    intros Hr Hb Hf Hm HQ HN. unfold rt_extend. apply dsafeB_xbind. apply rt_alloc_spec; auto. intros b. cbn beta iota.
    apply dsafeB_loc_J. intros g a tr Hv. unfold viewB in Hv. exists (aux_ext a t r b). split; [eapply frame_bvs; reflexivity|]. split.
    - intros J. apply S_extend; auto; try (rewrite Hv; cbn; auto).
      destruct J as [_ _ [_ _ _ _ _ R6] _]. apply (R6 t r). rewrite Hv. exact Hf.
    - unfold viewB. cbn [bvs aux_ext fst snd]. rewrite fn_same, Hv.
      assert (E : set_full (set_blk (set_blk l (Some (b, true))) None) None = set_full l None) by (destruct l; cbn in *; subst; reflexivity).
      rewrite E. destruct (snd (rt_do_extend c r b g)). exact HQ.
  Qed.

  (** smr::scan *)
  Lemma scan_spec t l r (Q : option unit -> VB -> Prop) :
    In r (vb_own l) -> vb_dead l <> Some r -> (forall ob, vb_move l <> Some (r, ob)) -> (vb_full l = None \/ vb_full l = Some r) ->
    vb_freed l = [] -> vb_blk l = None -> vb_pend l = None -> vb_s0 l = None -> vb_mine l = Some r ->
    Q (Some tt) (set_full l None) -> (forall l', Q None l') -> dsafeB c t (Dhp.scan c r) l Q.
  Proof.
    intros Hr Hd Hm Hf Hfr Hb Hpe Hs0 Hmi HQ HN. unfold Dhp.scan.
    apply dsafeB_xact_q; [apply qB_faa_sync|]. intros _.
    (* "_scanb r": the thread notes that this is its last event; the next access forgets it *)
    apply dsafeB_xemit. intros g a tr Hv. unfold viewB in Hv.
    exists (setv a t (set_s0 (set_mine (bvs a t) (Some r)) (Some r))). split; [eapply frame_bvs; reflexivity|]. split.
    { intros _ _ J. apply S_scanb; auto; rewrite Hv; auto. }
    unfold viewB. cbn [bvs setv]. rewrite fn_same, Hv. clear g a tr Hv.
    apply dsafeB_xact. intros g a tr Hv. unfold viewB in Hv.
    exists (setv a t (set_s0 (set_mine (bvs a t) (Some r)) None)). split; [eapply frame_bvs; reflexivity|]. split.
    { intros _ _ J. cbn [fst snd a_ld_tlist]. apply (S_s0clr c g a tr t (EvAcc KLd obj_tlist true) (Some r)); auto.
      intros r' E'. inversion E'; subst r'. rewrite Hv. reflexivity. }
    unfold viewB. cbn [bvs setv fst snd a_ld_tlist]. rewrite fn_same, Hv.
    assert (El : set_s0 (set_mine (set_s0 (set_mine l (Some r)) (Some r)) (Some r)) None = l) by (destruct l; cbn in *; subst; reflexivity).
    rewrite El. generalize (tlist g) as h. clear g a tr Hv El. intros h.
    apply dsafeB_quiet_seq; [apply qB_scan_recs|apply HN|]. intros pl.
    apply dsafeB_xloc. intros g a tr Hv. unfold viewB in Hv.
    exists (aux_st2 a t r (fst (snd (stage2 c r pl g))) (snd (snd (stage2 c r pl g)))). split; [eapply frame_bvs; reflexivity|]. split.
    { intros J. apply S_stage2; auto; rewrite Hv; auto. }
    unfold viewB. cbn [bvs aux_st2 aux_arr]. rewrite fn_same, Hv.
    destruct (stage2 c r pl g) as [g' [freed ext]]. cbn [fst snd]. clear g a tr Hv g'.
    set (v1 := set_full (set_freed l freed) (if ext then Some r else None)).
    apply dsafeB_xemit. intros g a tr Hv. unfold viewB in Hv. exists (aux_disp a t freed). split; [eapply frame_bvs; reflexivity|]. split.
    { intros _ _ J. replace freed with (vb_freed (bvs a t)) by (rewrite Hv; reflexivity). apply S_dispose. exact J. }
    unfold viewB. cbn [bvs aux_disp]. rewrite fn_same, Hv. clear g a tr Hv.
    set (v2 := set_freed v1 []).
    assert (Hend : forall l', l' = set_full l None -> dsafeB c t (emit [ev_scane r]) l' Q).
    { intros l' ->. apply dsafeB_emit_quiet; [repeat constructor; apply qevB_scane|]. exact HQ. }
    apply dsafeB_xbind. destruct ext.
    - apply rt_extend_spec; auto.
      + cbn beta iota. apply Hend. unfold v2, v1. destruct l; cbn in *; subst; reflexivity.
    - apply dsafeB_ret. apply Hend. unfold v2, v1. destruct l; cbn in *; subst; reflexivity.
  Qed.
End ProgB1.
