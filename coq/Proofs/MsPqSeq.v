(** * Single-thread executions of LV.Model.MsPq refine the bounded max-priority queue (Spec.Specs.BPQueue),
      for every sequence of operations, equal priorities included.

    A sequential Hoare logic is embedded in [Conc.safe]: the view of thread 0 is an ASSERTION about an abstract
    heap ([h] cell values, [tg] cell tags, [n] item count, tied to the shared state by [Rep]) and the
    client-visible history so far; the global invariant says that the assertion of thread 0 holds.  Lock bits
    are not mentioned: a failed exchange or a load changes nothing, so no termination / fuel argument is needed
    (a thread that runs out of fuel stops, its history is a prefix of the specification's). *)
From Coq Require Import ZArith List String Bool Lia PeanoNat Permutation.
From LV Require Import Base.Conc Base.Events Base.Lin Spec.Specs Model.MsPq
  Proofs.MsPqBrc Proofs.MsPqInv Proofs.MsPqHeap.
Import ListNotations.
Local Open Scope string_scope.
Local Open Scope list_scope.

(** ** the client-visible history, identities erased: tokens
      [1; p] push p invoked   [2; b] push returned b   [3] pop invoked   [4; 1; p] pop returned priority p   [4; 0; 0] pop returned empty *)
Definition tok (e : ev) : list (list Z) :=
  match e with
  | EvCli n args =>
      if String.eqb n "inv_push" then match args with [p; _] => [[1; p]] | _ => [] end
      else if String.eqb n "ret_push" then match args with [b; _; _] => [[2; b]] | _ => [] end
      else if String.eqb n "inv_pop" then [[3]]
      else if String.eqb n "ret_pop" then match args with [b; p; _] => [[4; b; p]] | _ => [] end
      else []
  | _ => []
  end%Z.
Definition phist (tr : list (nat * ev)) : list (list Z) := flat_map (fun te => tok (snd te)) tr.

Lemma phist_app tr tr' : phist (tr ++ tr') = phist tr ++ phist tr'.
Proof. apply flat_map_app. Qed.
Lemma phist_tag t es : phist (Conc.tag t es) = flat_map tok es.
Proof. unfold phist, Conc.tag. induction es as [|e es IH]; [reflexivity|]. cbn. rewrite IH. reflexivity. Qed.

(** what the specification predicts for a list of operations started in state [s] *)
Definition bz (b : bool) : Z := if b then 1%Z else 0%Z.
Definition push_tok (cap : nat) (s : list Z) : list Z := [2; bz (Nat.ltb (List.length s) cap)]%Z.
Definition pop_tok (s : list Z) : list Z :=
  match snd (pq_pop s) with RVal (Some m) => [4; 1; m] | _ => [4; 0; 0] end%Z.
Fixpoint spec_hist (cap : nat) (s : list Z) (os : list op) : list (list Z) :=
  match os with
  | [] => []
  | OPush x :: r => [1; prio x]%Z :: push_tok cap s :: spec_hist cap (fst (bpq_step cap s (Push (prio x)))) r
  | OPop :: r => [3]%Z :: pop_tok s :: spec_hist cap (fst (pq_pop s)) r
  end.

Definition optQ {R L} (Q : R -> L -> Prop) : option R -> L -> Prop :=
  fun r l => match r with Some x => Q x l | None => True end.

Section Seq.
  Variable cap : nat.
  Hypothesis OK : slots_ok cap = true.
  Hypothesis SH : shape_ok cap = true.
  Variable total : list (list Z).

  (** assertions: abstract heap, tags, count, history so far *)
  Definition asrt := (nat -> option item) -> (nat -> MsPq.tag) -> nat -> list (list Z) -> Prop.
  Definition Aux := nat -> asrt.
  Definition view (a : Aux) (t : nat) : asrt := a t.
  Definition upda (a : Aux) (P : asrt) : Aux := fun u => if Nat.eqb u 0 then P else a u.

  Definition Rep (g : G) (h : nat -> option item) (tg : nat -> MsPq.tag) (n : nat) : Prop :=
    ctr g = st n /\ n <= cap /\ (forall i, cellv g i = h i) /\ (forall i, cellt g i = tg i).
  Definition SInv (g : G) (a : Aux) (tr : list (nat * ev)) : Prop :=
    exists h tg n, Rep g h tg n /\ a 0 h tg n (phist tr).

  Notation safe := (@Conc.safe G V ev Aux asrt view SInv).

  Lemma frame_upda a P : Conc.frame view 0 a (upda a P).
  Proof. intros u Hu. unfold view, upda. destruct (Nat.eqb_spec u 0); congruence. Qed.
  Lemma frame_refl a : Conc.frame view 0 a a.
  Proof. intros u Hu. reflexivity. Qed.
  Lemma view_upda a P : view (upda a P) 0 = P.
  Proof. reflexivity. Qed.

  Lemma Rep_lockbit g h tg n l b : Rep g h tg n -> Rep (set_lockbit g l b) h tg n.
  Proof.
    intros (R1 & R2 & R3 & R4). split; [rewrite ctr_set_lockbit; exact R1|]. split; [exact R2|]. split; intros i.
    - rewrite cellv_set_lockbit. apply R3.
    - rewrite cellt_set_lockbit. apply R4.
  Qed.
  Lemma Rep_set_cell g h tg n i t v : Rep g h tg n -> Rep (set_cell g i t v) (upd h i v) (upd tg i t) n.
  Proof.
    intros (R1 & R2 & R3 & R4). split; [exact R1|]. split; [exact R2|]. split; intros j.
    - rewrite cellv_set_cell. unfold upd. destruct (Nat.eqb j i); [reflexivity|apply R3].
    - rewrite cellt_set_cell. unfold upd. destruct (Nat.eqb j i); [reflexivity|apply R4].
  Qed.

  Lemma SInv_acc g a tr k o ok : SInv g a tr -> SInv g a (tr ++ Conc.tag 0 [EvAcc k o ok]).
  Proof. intros (h & tg & n & HR & HP). exists h, tg, n. rewrite phist_app, phist_tag. cbn. rewrite app_nil_r. auto. Qed.

  (** *** the rules *)
  Lemma hsafe_stop_err {R} c P (Q0 : R -> asrt -> Prop) : safe 0 (@stop_err R c) P (optQ Q0).
  Proof.
    unfold stop_err. destruct c as [|[|c]]; cbn [Conc.safe]; intros g a tr (h & tg & n & HR & HP) Hv; exists a;
      (split; [exists h, tg, n; rewrite phist_app, phist_tag; cbn; rewrite app_nil_r; auto|split; [apply frame_refl|exact I]]).
  Qed.

  Lemma hsafe_checked {R} v (k : prog (option R)) P (Q0 : R -> asrt -> Prop) :
    (verr v = 0 -> safe 0 k P (optQ Q0)) -> safe 0 (checked v k) P (optQ Q0).
  Proof. intros H. unfold checked. destruct (verr v) as [|c] eqn:E; [apply H; reflexivity|apply hsafe_stop_err]. Qed.

  Lemma hsafe_lock {R} lf l bd (k : V -> prog (option R)) (P : asrt) (Q0 : R -> asrt -> Prop) :
    (forall g h tg n cl, Rep g h tg n -> P h tg n cl ->
       exists P' : asrt,
         (exists h' tg' n', Rep (fst (fst (bd g))) h' tg' n' /\ P' h' tg' n' (cl ++ flat_map tok (snd (bd g)))) /\
         (verr (snd (fst (bd g))) = 0 -> safe 0 (k (unbusy (snd (fst (bd g))))) P' (optQ Q0))) ->
    safe 0 (lock_ lf l bd k) P (optQ Q0).
  Proof.
    intros H. unfold lock_, obind. apply Conc.safe_bind.
    set (Qmid := fun (r : option V) (l' : asrt) =>
           safe 0 (match r with Some x => checked x (k x) | None => Ret None end) l' (optQ Q0)).
    change (safe 0 (lock_outer lf l bd) P Qmid).
    assert (Both : safe 0 (lock_outer lf l bd) P Qmid /\ safe 0 (lock_inner lf l bd) P Qmid).
    { induction lf as [|f [IHo IHi]]; [split; exact I|]. split.
      - cbn [lock_outer Conc.safe]. intros g a tr Hi Hv. unfold a_lock. destruct (lockbit g l) eqn:Hl.
        + exists a. cbn [fst snd]. split; [apply SInv_acc; exact Hi|]. split; [apply frame_refl|].
          cbn [vbusy vbusyV]. rewrite Hv. exact IHi.
        + destruct Hi as (h & tg & n & HR & HP). unfold view in Hv. rewrite Hv in HP.
          destruct (H (set_lockbit g l true) h tg n (phist tr) (Rep_lockbit g h tg n l true HR) HP) as (P' & (h' & tg' & n' & HR' & HP') & Hk).
          destruct (bd (set_lockbit g l true)) as [[g' v] es]. cbn [fst snd] in *.
          exists (upda a P'). split; [|split; [apply frame_upda|]].
          * exists h', tg', n'. split; [exact HR'|]. rewrite phist_app, phist_tag. cbn [flat_map tok app]. exact HP'.
          * rewrite view_upda. cbn [vbusy unbusy Conc.safe]. apply hsafe_checked. exact Hk.
      - cbn [lock_inner Conc.safe]. intros g a tr Hi Hv. unfold a_load. cbn [fst snd]. exists a.
        split; [apply SInv_acc; exact Hi|]. split; [apply frame_refl|]. rewrite Hv.
        destruct (lockbit g l); cbn [vbusy vbusyV v0]; assumption. }
    apply Both.
  Qed.

  Lemma hsafe_unlock {R} l bd (k : V -> prog (option R)) (P : asrt) (Q0 : R -> asrt -> Prop) :
    (forall g h tg n cl, Rep g h tg n -> P h tg n cl ->
       exists P' : asrt,
         (exists h' tg' n', Rep (fst (fst (bd g))) h' tg' n' /\ P' h' tg' n' (cl ++ flat_map tok (snd (bd g)))) /\
         (verr (snd (fst (bd g))) = 0 -> safe 0 (k (snd (fst (bd g)))) P' (optQ Q0))) ->
    safe 0 (unlock_ l bd k) P (optQ Q0).
  Proof.
    intros H. unfold unlock_, unlock. cbn [Conc.bind Conc.safe]. intros g a tr (h & tg & n & HR & HP) Hv.
    unfold view in Hv. rewrite Hv in HP.
    destruct (H g h tg n (phist tr) HR HP) as (P' & (h' & tg' & n' & HR' & HP') & Hk). unfold a_unlock.
    destruct (bd g) as [[g' v] es]. cbn [fst snd] in *.
    exists (upda a P'). split; [|split; [apply frame_upda|]].
    - exists h', tg', n'. split; [apply Rep_lockbit; exact HR'|]. rewrite phist_app, phist_tag. cbn [flat_map tok app]. exact HP'.
    - rewrite view_upda. apply hsafe_checked. exact Hk.
  Qed.

  (** lock / unlock with no plain code attached: the assertion stays *)
  Lemma hsafe_lock_none {R} lf l (k : V -> prog (option R)) P (Q0 : R -> asrt -> Prop) :
    safe 0 (k v0) P (optQ Q0) -> safe 0 (lock_ lf l body_none k) P (optQ Q0).
  Proof.
    intros H. apply hsafe_lock. intros g h tg n cl HR HP. exists P. cbn. split; [|intros _; exact H].
    exists h, tg, n. rewrite app_nil_r. auto.
  Qed.
  Lemma hsafe_unlock_none {R} l (k : V -> prog (option R)) P (Q0 : R -> asrt -> Prop) :
    safe 0 (k v0) P (optQ Q0) -> safe 0 (unlock_ l body_none k) P (optQ Q0).
  Proof.
    intros H. apply hsafe_unlock. intros g h tg n cl HR HP. exists P. cbn. split; [|intros _; exact H].
    exists h, tg, n. rewrite app_nil_r. auto.
  Qed.

  Lemma hsafe_emit {R} es (k : prog R) (P : asrt) (Q : R -> asrt -> Prop) :
    (forall h tg n cl, P h tg n cl -> exists P' : asrt, P' h tg n (cl ++ flat_map tok es) /\ safe 0 k P' Q) ->
    safe 0 (Emit es k) P Q.
  Proof.
    intros H. cbn [Conc.safe]. intros g a tr (h & tg & n & HR & HP) Hv. unfold view in Hv. rewrite Hv in HP.
    destruct (H h tg n (phist tr) HP) as (P' & HP' & Hk). exists (upda a P'). split; [|split; [apply frame_upda|exact Hk]].
    exists h, tg, n. split; [exact HR|]. rewrite phist_app, phist_tag. exact HP'.
  Qed.
End Seq.
