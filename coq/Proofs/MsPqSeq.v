(** * Single-thread executions of LV.Model.MsPq refine the bounded max-priority queue (Spec.Specs.BPQueue),
      for every sequence of operations, equal priorities included.

    A sequential Hoare logic is embedded in [Conc.safe]: the view of thread 0 is an ASSERTION about an abstract
    heap ([h] cell values, [tg] cell tags, [n] item count, tied to the shared state by [Rep]) and the
    client-visible history so far; the global invariant says that the assertion of thread 0 holds.  Lock bits
    are not mentioned: a failed exchange or a load changes nothing, so no termination / fuel argument is needed
    (a thread that runs out of fuel stops, its history is a prefix of the specification's). *)
From Coq Require Import ZArith List String Bool Lia PeanoNat Permutation.
From LV Require Import Base.Conc Base.Events Base.Lin Spec.Specs Model.MsPq
  Proofs.MsPqBrc Proofs.MsPqInv Proofs.MsPqHeap.
Import ListNotations.
Local Open Scope string_scope.
Local Open Scope list_scope.

(** ** the client-visible history, identities erased: tokens
      [1; p] push p invoked   [2; b] push returned b   [3] pop invoked   [4; 1; p] pop returned priority p   [4; 0; 0] pop returned empty *)
Definition tok (e : ev) : list (list Z) :=
  match e with
  | EvCli n args =>
      if String.eqb n "inv_push" then match args with [p; _] => [[1; p]] | _ => [] end
      else if String.eqb n "ret_push" then match args with [b; _; _] => [[2; b]] | _ => [] end
      else if String.eqb n "inv_pop" then [[3]]
      else if String.eqb n "ret_pop" then match args with [b; p; _] => [[4; b; p]] | _ => [] end
      else []
  | _ => []
  end%Z.
Definition phist (tr : list (nat * ev)) : list (list Z) := flat_map (fun te => tok (snd te)) tr.

Lemma phist_app tr tr' : phist (tr ++ tr') = phist tr ++ phist tr'.
Proof. apply flat_map_app. Qed.
Lemma phist_tag t es : phist (Conc.tag t es) = flat_map tok es.
Proof. unfold phist, Conc.tag. induction es as [|e es IH]; [reflexivity|]. cbn. rewrite IH. reflexivity. Qed.

(** what the specification predicts for a list of operations started in state [s] *)
Definition bz (b : bool) : Z := if b then 1%Z else 0%Z.
Definition push_tok (cap : nat) (s : list Z) : list Z := [2; bz (Nat.ltb (List.length s) cap)]%Z.
Definition pop_tok (s : list Z) : list Z :=
  match snd (pq_pop s) with RVal (Some m) => [4; 1; m] | _ => [4; 0; 0] end%Z.
Fixpoint spec_hist (cap : nat) (s : list Z) (os : list op) : list (list Z) :=
  match os with
  | [] => []
  | OPush x :: r => [1; prio x]%Z :: push_tok cap s :: spec_hist cap (fst (bpq_step cap s (Push (prio x)))) r
  | OPop :: r => [3]%Z :: pop_tok s :: spec_hist cap (fst (pq_pop s)) r
  end.

Definition optQ {R L} (Q : R -> L -> Prop) : option R -> L -> Prop :=
  fun r l => match r with Some x => Q x l | None => True end.

Section Seq.
  Variable cap : nat.
  Hypothesis OK : slots_ok cap = true.
  Hypothesis SH : shape_ok cap = true.
  Variable bsz : nat.
  Hypothesis Hbsz : cap < bsz.
  Variable total : list (list Z).

  (** assertions: abstract heap, tags, count, history so far *)
  Definition asrt := (nat -> option item) -> (nat -> MsPq.tag) -> nat -> list (list Z) -> Prop.
  Definition Aux := nat -> asrt.
  Definition view (a : Aux) (t : nat) : asrt := a t.
  Definition upda (a : Aux) (P : asrt) : Aux := fun u => if Nat.eqb u 0 then P else a u.

  Definition Rep (g : G) (h : nat -> option item) (tg : nat -> MsPq.tag) (n : nat) : Prop :=
    ctr g = st n /\ n <= cap /\ (forall i, cellv g i = h i) /\ (forall i, cellt g i = tg i).
  Definition SInv (g : G) (a : Aux) (tr : list (nat * ev)) : Prop :=
    (exists h tg n, Rep g h tg n /\ a 0 h tg n (phist tr)) /\ (exists fut, phist tr ++ fut = total).

  Notation safe := (@Conc.safe G V ev Aux asrt view SInv).

  Lemma frame_upda a P : Conc.frame view 0 a (upda a P).
  Proof. intros u Hu. unfold view, upda. destruct (Nat.eqb_spec u 0); congruence. Qed.
  Lemma frame_refl a : Conc.frame view 0 a a.
  Proof. intros u Hu. reflexivity. Qed.
  Lemma view_upda a P : view (upda a P) 0 = P.
  Proof. reflexivity. Qed.

  Lemma Rep_lockbit g h tg n l b : Rep g h tg n -> Rep (set_lockbit g l b) h tg n.
  Proof.
    intros (R1 & R2 & R3 & R4). split; [rewrite ctr_set_lockbit; exact R1|]. split; [exact R2|]. split; intros i.
    - rewrite cellv_set_lockbit. apply R3.
    - rewrite cellt_set_lockbit. apply R4.
  Qed.
  Lemma Rep_set_cell g h tg n i t v : Rep g h tg n -> Rep (set_cell g i t v) (upd h i v) (upd tg i t) n.
  Proof.
    intros (R1 & R2 & R3 & R4). split; [exact R1|]. split; [exact R2|]. split; intros j.
    - rewrite cellv_set_cell. unfold upd. destruct (Nat.eqb j i); [reflexivity|apply R3].
    - rewrite cellt_set_cell. unfold upd. destruct (Nat.eqb j i); [reflexivity|apply R4].
  Qed.
  Lemma Rep_set_ctr g h tg n m : Rep g h tg n -> m <= cap -> Rep (set_ctr g (st m)) h tg m.
  Proof. intros (R1 & R2 & R3 & R4) Hm. split; [reflexivity|]. split; [exact Hm|]. split; assumption. Qed.

  Lemma phist_silent tr t es : flat_map tok es = [] -> phist (tr ++ Conc.tag t es) = phist tr.
  Proof. intros E. rewrite phist_app, phist_tag, E, app_nil_r. reflexivity. Qed.

  Lemma SInv_silent g a tr es : flat_map tok es = [] -> SInv g a tr -> SInv g a (tr ++ Conc.tag 0 es).
  Proof. intros E H. unfold SInv. rewrite (phist_silent tr 0 es E). exact H. Qed.

  (** *** the rules *)
  Lemma hsafe_stop_err {R} c P (Q0 : R -> asrt -> Prop) : safe 0 (@stop_err R c) P (optQ Q0).
  Proof.
    unfold stop_err. destruct c as [|[|c]]; cbn [Conc.safe]; intros g a tr Hi Hv; exists a;
      (split; [apply SInv_silent; [reflexivity|exact Hi]|split; [apply frame_refl|exact I]]).
  Qed.

  Lemma hsafe_checked {R} v (k : prog (option R)) P (Q0 : R -> asrt -> Prop) :
    (verr v = 0 -> safe 0 k P (optQ Q0)) -> safe 0 (checked v k) P (optQ Q0).
  Proof. intros H. unfold checked. destruct (verr v) as [|c] eqn:E; [apply H; reflexivity|apply hsafe_stop_err]. Qed.

  (** lock()/unlock() with the plain code [bd]: the code emits nothing the client sees; it turns assertion [P]
      into some [P'] under which the rest is safe *)
  Lemma hsafe_lock {R} lf l bd (k : V -> prog (option R)) (P : asrt) (Q0 : R -> asrt -> Prop) :
    (forall g h tg n cl, Rep g h tg n -> P h tg n cl ->
       flat_map tok (snd (bd g)) = [] /\
       exists P' : asrt,
         (exists h' tg' n', Rep (fst (fst (bd g))) h' tg' n' /\ P' h' tg' n' cl) /\
         (verr (snd (fst (bd g))) = 0 -> safe 0 (k (unbusy (snd (fst (bd g))))) P' (optQ Q0))) ->
    safe 0 (lock_ lf l bd k) P (optQ Q0).
  Proof.
    intros H. unfold lock_, obind. apply Conc.safe_bind.
    set (Qmid := fun (r : option V) (l' : asrt) =>
           safe 0 (match r with Some x => checked x (k x) | None => Ret None end) l' (optQ Q0)).
    change (safe 0 (lock_outer lf l bd) P Qmid).
    assert (Both : safe 0 (lock_outer lf l bd) P Qmid /\ safe 0 (lock_inner lf l bd) P Qmid).
    { induction lf as [|f [IHo IHi]]; [split; exact I|]. split.
      - cbn [lock_outer Conc.safe]. intros g a tr Hi Hv. unfold a_lock. destruct (lockbit g l) eqn:Hl.
        + exists a. cbn [fst snd]. split; [apply SInv_silent; [reflexivity|exact Hi]|]. split; [apply frame_refl|].
          cbn [vbusy vbusyV]. rewrite Hv. exact IHi.
        + destruct Hi as ((h & tg & n & HR & HP) & Hpre). unfold view in Hv. rewrite Hv in HP.
          destruct (H (set_lockbit g l true) h tg n (phist tr) (Rep_lockbit g h tg n l true HR) HP) as (Hsil & P' & (h' & tg' & n' & HR' & HP') & Hk).
          destruct (bd (set_lockbit g l true)) as [[g' v] es]. cbn [fst snd] in *.
          assert (Hph : phist (tr ++ Conc.tag 0 (EvAcc KXchg (obj_lock l) true :: es)) = phist tr) by (apply phist_silent; exact Hsil).
          exists (upda a P'). split; [|split; [apply frame_upda|]].
          * split; [exists h', tg', n'; rewrite Hph; auto|rewrite Hph; exact Hpre].
          * rewrite view_upda. cbn [vbusy unbusy Conc.safe]. apply hsafe_checked. exact Hk.
      - cbn [lock_inner Conc.safe]. intros g a tr Hi Hv. unfold a_load. cbn [fst snd]. exists a.
        split; [apply SInv_silent; [reflexivity|exact Hi]|]. split; [apply frame_refl|]. rewrite Hv.
        destruct (lockbit g l); cbn [vbusy vbusyV v0]; assumption. }
    apply Both.
  Qed.

  Lemma hsafe_unlock {R} l bd (k : V -> prog (option R)) (P : asrt) (Q0 : R -> asrt -> Prop) :
    (forall g h tg n cl, Rep g h tg n -> P h tg n cl ->
       flat_map tok (snd (bd g)) = [] /\
       exists P' : asrt,
         (exists h' tg' n', Rep (fst (fst (bd g))) h' tg' n' /\ P' h' tg' n' cl) /\
         (verr (snd (fst (bd g))) = 0 -> safe 0 (k (snd (fst (bd g)))) P' (optQ Q0))) ->
    safe 0 (unlock_ l bd k) P (optQ Q0).
  Proof.
    intros H. unfold unlock_, unlock. cbn [Conc.bind Conc.safe]. intros g a tr ((h & tg & n & HR & HP) & Hpre) Hv.
    unfold view in Hv. rewrite Hv in HP.
    destruct (H g h tg n (phist tr) HR HP) as (Hsil & P' & (h' & tg' & n' & HR' & HP') & Hk). unfold a_unlock.
    destruct (bd g) as [[g' v] es]. cbn [fst snd] in *.
    assert (Hph : phist (tr ++ Conc.tag 0 (EvAcc KSt (obj_lock l) true :: es)) = phist tr) by (apply phist_silent; exact Hsil).
    exists (upda a P'). split; [|split; [apply frame_upda|]].
    - split; [exists h', tg', n'; rewrite Hph; split; [apply Rep_lockbit; exact HR'|exact HP']|rewrite Hph; exact Hpre].
    - rewrite view_upda. apply hsafe_checked. exact Hk.
  Qed.

  (** lock / unlock with no plain code attached: the assertion stays *)
  Lemma hsafe_lock_none {R} lf l (k : V -> prog (option R)) P (Q0 : R -> asrt -> Prop) :
    safe 0 (k v0) P (optQ Q0) -> safe 0 (lock_ lf l body_none k) P (optQ Q0).
  Proof.
    intros H. apply hsafe_lock. intros g h tg n cl HR HP. split; [reflexivity|]. exists P. cbn. split; [|intros _; exact H].
    exists h, tg, n. auto.
  Qed.
  Lemma hsafe_unlock_none {R} l (k : V -> prog (option R)) P (Q0 : R -> asrt -> Prop) :
    safe 0 (k v0) P (optQ Q0) -> safe 0 (unlock_ l body_none k) P (optQ Q0).
  Proof.
    intros H. apply hsafe_unlock. intros g h tg n cl HR HP. split; [reflexivity|]. exists P. cbn. split; [|intros _; exact H].
    exists h, tg, n. auto.
  Qed.

  (** client-visible events: the new history must still be a prefix of [total] *)
  Lemma hsafe_emit {R} es (k : prog R) (P : asrt) (Q : R -> asrt -> Prop) :
    (forall h tg n cl, P h tg n cl ->
       (exists fut, (cl ++ flat_map tok es) ++ fut = total) /\
       exists P' : asrt, P' h tg n (cl ++ flat_map tok es) /\ safe 0 k P' Q) ->
    safe 0 (Emit es k) P Q.
  Proof.
    intros H. cbn [Conc.safe]. intros g a tr ((h & tg & n & HR & HP) & Hpre) Hv. unfold view in Hv. rewrite Hv in HP.
    destruct (H h tg n (phist tr) HP) as (Hfut & P' & HP' & Hk). exists (upda a P'). split; [|split; [apply frame_upda|exact Hk]].
    unfold SInv. rewrite phist_app, phist_tag. split; [exists h, tg, n; auto|exact Hfut].
  Qed.

  (** *** assertions *)
  Definition Msp (h : nat -> option item) (s : list Z) (n : nat) : Prop :=
    Permutation (prios cap h) s /\ List.length s = n.
  (** [UpA 0 s fut] is the quiescent assertion: a well-formed heap holding the priorities [s] *)
  Definition UpA (i : nat) (s : list Z) (fut : list (list Z)) : asrt :=
    fun h tg n cl => UpInv i n h tg /\ Msp h s n /\ cl ++ fut = total.
  Definition DownA (p : nat) (s : list Z) (fut : list (list Z)) : asrt :=
    fun h tg n cl => DownInv p n h tg /\ Msp h s n /\ cl ++ fut = total.

  Lemma upd_id {X} (f : nat -> X) i k : upd f i (f i) k = f k.
  Proof. unfold upd. destruct (Nat.eqb_spec k i); [subst; reflexivity|reflexivity]. Qed.

  Lemma Msp_ext h h' s n : (forall k, h' k = h k) -> Msp h s n -> Msp h' s n.
  Proof. intros E [M1 M2]. split; [rewrite (prios_ext cap OK SH h h' E); exact M1|exact M2]. Qed.

  (** *** heapify_after_push *)
  Lemma hsafe_heapify_push lf s fut : forall hf i,
    safe 0 (heapify_push hf lf 0 i) (UpA i s fut) (optQ (fun _ l' => l' = UpA 0 s fut)).
  Proof.
    induction hf as [|hf IH]; intros i; [exact I|]. cbn [heapify_push].
    destruct (Nat.ltb 1 i) eqn:E1.
    - apply Nat.ltb_lt in E1. set (p := Nat.div2 i).
      assert (Hpi : p < i) by (apply div2_lt; lia).
      apply hsafe_lock_none. apply hsafe_lock. intros g h tg n cl HR (HU & HM & HH).
      pose proof HR as (R1 & R2 & R3 & R4). unfold cellv, cellt in R3, R4.
      pose proof HU as (HO & HE & HA & HI & Hord & Hgr).
      destruct (HI ltac:(lia)) as [Hi1 Hi2].
      assert (Hpo : h p <> None) by (apply (parent_occupied cap OK SH n h i R2 HO); [lia|exact Hi1]).
      assert (Hpt : tg p = TAvail) by (apply HA; [exact Hpo|lia]).
      assert (Ri : 1 <= i <= cap) by (apply (Occ_range cap OK SH n h i R2 HO Hi1)).
      assert (Rp : 1 <= p <= cap) by (apply (Occ_range cap OK SH n h p R2 HO Hpo)).
      assert (Hex : exists a b, h i = Some a /\ h p = Some b).
      { destruct (h i) as [a|]; [|congruence]. destruct (h p) as [b|]; [|congruence]. eauto. }
      destruct Hex as (a & b & Ea & Eb).
      unfold body_sift_up. cbv zeta. rewrite !R3, !R4. fold p. rewrite Hpt, Hi2, Ea, Eb. cbn [tag_eqb andb Nat.eqb].
      destruct (Z.gtb (prio a) (prio b)) eqn:Egt; cbn [fst snd flat_map]; (split; [reflexivity|]).
      + exists (UpA p s fut). split.
        * exists (upd (upd h i (Some b)) p (Some a)), (upd (upd tg i TAvail) p (TOwner 0)), n. split.
          -- apply Rep_set_cell. apply Rep_set_cell. exact HR.
          -- split; [|split; [|exact HH]].
             ++ pose proof (UpInv_swap cap OK SH i n h tg a b R2 ltac:(lia) HU Ea Eb ltac:(lia)) as K.
                fold p in K. rewrite Ea, Eb, Hpt, Hi2 in K. exact K.
             ++ destruct HM as [M1 M2]. split; [|exact M2].
                pose proof (prios_swap cap OK SH h i p Ri Rp ltac:(lia)) as K. rewrite Ea, Eb in K. rewrite K. exact M1.
        * intros _. cbn [unbusy vn]. apply hsafe_unlock_none. apply hsafe_unlock_none. apply IH.
      + exists (UpA 0 s fut). split.
        * exists (upd h i (Some a)), (upd tg i TAvail), n. split; [apply Rep_set_cell; exact HR|].
          split; [|split; [|exact HH]].
          -- pose proof (UpInv_stop cap OK SH i n h tg a b ltac:(lia) HU Ea Eb ltac:(lia)) as K. rewrite Ea in K. exact K.
          -- apply (Msp_ext h); [|exact HM]. intros k. rewrite <- Ea. apply upd_id.
        * intros _. cbn [unbusy vn]. apply hsafe_unlock_none. apply hsafe_unlock_none. apply IH.
    - apply Nat.ltb_ge in E1. destruct (Nat.eqb_spec i 1) as [->|N1].
      + apply hsafe_lock. intros g h tg n cl HR (HU & HM & HH).
        pose proof HR as (R1 & R2 & R3 & R4). unfold cellv, cellt in R3, R4.
        pose proof HU as (HO & HE & HA & HI & Hord & Hgr). destruct (HI ltac:(lia)) as [Hi1 Hi2].
        unfold body_push_top. cbv zeta. rewrite !R3, !R4, Hi2. cbn [tag_eqb Nat.eqb fst snd flat_map]. split; [reflexivity|].
        exists (UpA 0 s fut). split.
        * exists (upd h 1 (h 1)), (upd tg 1 TAvail), n. split; [apply Rep_set_cell; exact HR|].
          split; [apply (UpInv_top cap OK SH); exact HU|split; [|exact HH]]. apply (Msp_ext h); [|exact HM]. intros k. apply upd_id.
        * intros _. apply hsafe_unlock_none. reflexivity.
      + assert (i = 0) by lia. subst i. reflexivity.
  Qed.

  (** *** heapify_after_pop *)
  Definition IsMax (h : nat -> option item) (p ch : nat) : Prop :=
    (ch = 2 * p \/ ch = S (2 * p)) /\ h ch <> None /\
    (forall k x m, 2 <= k -> Nat.div2 k = p -> h k = Some x -> h ch = Some m -> (prio x <= prio m)%Z).

  (** the comparison of the chosen child with the parent *)
  Lemma cmp_swap_step g h tg n cl p ch s fut :
    Rep g h tg n -> DownA p s fut h tg n cl -> IsMax h p ch ->
    snd (cmp_swap p ch g) = [] /\ verr (snd (fst (cmp_swap p ch g))) = 0 /\
    if vb (snd (fst (cmp_swap p ch g)))
    then exists h' tg', Rep (fst (fst (cmp_swap p ch g))) h' tg' n /\ DownA ch s fut h' tg' n cl
    else fst (fst (cmp_swap p ch g)) = g /\ UpA 0 s fut h tg n cl.
  Proof.
    intros HR (HD & HM & HH) (Hch & Hcv & Hmax).
    pose proof HR as (R1 & R2 & R3 & R4). unfold cellv, cellt in R3, R4.
    pose proof HD as (HO & HT & Hp & Hpv & Hord & Hgr).
    assert (Hex : exists m v, h ch = Some m /\ h p = Some v).
    { destruct (h ch) as [m|]; [|congruence]. destruct (h p) as [v|]; [|congruence]. eauto. }
    destruct Hex as (m & v & Em & Ev).
    assert (Rp : 1 <= p <= cap) by (apply (Occ_range cap OK SH n h p R2 HO Hpv)).
    assert (Rc : 1 <= ch <= cap) by (apply (Occ_range cap OK SH n h ch R2 HO Hcv)).
    unfold cmp_swap. cbv zeta. rewrite !R3, !R4, Em, Ev.
    destruct (Z.gtb (prio m) (prio v)) eqn:Egt; cbn [fst snd vb verr]; (split; [reflexivity|split; [reflexivity|]]).
    - exists (upd (upd h p (Some m)) ch (Some v)), (upd (upd tg p (tg ch)) ch (tg p)). split.
      + apply Rep_set_cell. apply Rep_set_cell. exact HR.
      + split; [|split; [|exact HH]].
        * pose proof (DownInv_swap cap OK SH p ch n h tg m v R2 HD Hch Em Ev ltac:(lia)) as K. rewrite Em, Ev in K.
          apply K. intros k x Hk Hd Hx. apply (Hmax k x m Hk Hd Hx Em).
        * destruct HM as [M1 M2]. split; [|exact M2].
          pose proof (prios_swap cap OK SH h p ch Rp Rc ltac:(destruct Hch; lia)) as K. rewrite Em, Ev in K. rewrite K. exact M1.
    - split; [reflexivity|]. split; [|split; [exact HM|exact HH]]. apply (Good_UpInv0 cap OK SH).
      apply (DownInv_stop cap OK SH p n h tg HD). intros k x y Hk Hd Hx Hy. rewrite Ev in Hy. inversion Hy; subst y.
      pose proof (Hmax k x m Hk Hd Hx Em). lia.
  Qed.

  Lemma hsafe_heapify_pop lf s fut : forall hf p c, c = 2 * p ->
    safe 0 (heapify_pop hf lf bsz p c) (DownA p s fut) (optQ (fun _ l' => l' = UpA 0 s fut)).
  Proof.
    induction hf as [|hf IH]; intros p c Hc; [exact I|]. cbn [heapify_pop].
    destruct (Nat.ltb c bsz) eqn:Ec.
    - apply Nat.ltb_lt in Ec.
      apply hsafe_lock. intros g h tg n cl HR HD0. pose proof HD0 as (HD & HM & HH).
      pose proof HR as (R1 & R2 & R3 & R4). unfold cellv, cellt in R3, R4.
      pose proof HD as (HO & [HE HA] & Hp & Hpv & Hord & Hgr).
      unfold body_child. cbv zeta. rewrite !R4.
      destruct (h c) as [l|] eqn:El.
      + assert (Htc : tg c = TAvail) by (apply HA; rewrite El; discriminate). rewrite Htc. cbn [tag_eqb].
        destruct (Nat.ltb (S c) bsz) eqn:Er.
        * (* the right sibling exists in the buffer: lock it *)
          cbn [fst snd flat_map]. split; [reflexivity|].
          exists (fun h' tg' n' cl' => DownA p s fut h' tg' n' cl' /\ h' c <> None). split.
          { exists h, tg, n. split; [exact HR|]. split; [exact HD0|]. rewrite El. discriminate. }
          intros _. cbn [unbusy vn].
          apply hsafe_lock. intros g2 h2 tg2 n2 cl2 HR2 (HD2 & Hc2). pose proof HD2 as (HDD & _ & _).
          pose proof HR2 as (S1 & S2 & S3 & S4). unfold cellv, cellt in S3, S4.
          pose proof HDD as (HO2 & [HE2 HA2] & Hp2 & _).
          assert (Hex : exists l2, h2 c = Some l2) by (destruct (h2 c) as [l2|]; [eauto|congruence]). destruct Hex as [l2 El2].
          unfold body_right. cbv zeta. rewrite !S3, !S4, El2.
          assert (Hkids : forall k, 2 <= k -> Nat.div2 k = p -> k = c \/ k = S c).
          { intros k Hk Hd. destruct (div2_children k p Hp2 Hd); [left|right]; lia. }
          destruct (h2 (S c)) as [r|] eqn:Er2.
          -- assert (Htr : tg2 (S c) = TAvail) by (apply HA2; rewrite Er2; discriminate). rewrite Htr. cbn [tag_eqb negb fst snd flat_map].
             split; [reflexivity|].
             set (w := Z.gtb (prio r) (prio l2)).
             exists (fun h' tg' n' cl' => DownA p s fut h' tg' n' cl' /\ IsMax h' p (if w then S c else c)). split.
             { exists h2, tg2, n2. split; [exact HR2|]. split; [exact HD2|]. split; [destruct w; [right|left]; lia|]. split.
               - destruct w; [rewrite Er2|rewrite El2]; discriminate.
               - intros k x m Hk Hd Hx Hm. subst w. destruct (Z.gtb (prio r) (prio l2)) eqn:Egt.
                 + rewrite Er2 in Hm. inversion Hm; subst m. destruct (Hkids k Hk Hd) as [-> | ->].
                   * rewrite El2 in Hx. inversion Hx; subst x. lia.
                   * rewrite Er2 in Hx. inversion Hx; subst x. lia.
                 + rewrite El2 in Hm. inversion Hm; subst m. destruct (Hkids k Hk Hd) as [-> | ->].
                   * rewrite El2 in Hx. inversion Hx; subst x. lia.
                   * rewrite Er2 in Hx. inversion Hx; subst x. lia. }
             intros _. cbn [unbusy vb].
             apply hsafe_unlock. intros g3 h3 tg3 n3 cl3 HR3 (HD3 & HI3).
             destruct (cmp_swap_step g3 h3 tg3 n3 cl3 p _ s fut HR3 HD3 HI3) as (K1 & K2 & K3).
             split; [rewrite K1; reflexivity|].
             destruct (vb (snd (fst (cmp_swap p (if w then S c else c) g3)))).
             ++ destruct K3 as (h' & tg' & HR' & HD'). exists (DownA (if w then S c else c) s fut). split; [eauto|].
                intros _. apply hsafe_unlock_none. apply IH. reflexivity.
             ++ destruct K3 as (Eg & HU). exists (UpA 0 s fut). split; [exists h3, tg3, n3; rewrite Eg; auto|].
                intros _. apply hsafe_unlock_none. apply hsafe_unlock_none. reflexivity.
          -- assert (Htr : tg2 (S c) = TEmpty) by (apply HE2; exact Er2). rewrite Htr. cbn [tag_eqb negb fst snd flat_map].
             split; [reflexivity|].
             exists (fun h' tg' n' cl' => DownA p s fut h' tg' n' cl' /\ IsMax h' p c). split.
             { exists h2, tg2, n2. split; [exact HR2|]. split; [exact HD2|]. split; [left; lia|]. split; [rewrite El2; discriminate|].
               intros k x m Hk Hd Hx Hm. rewrite El2 in Hm. inversion Hm; subst m. destruct (Hkids k Hk Hd) as [-> | ->].
               - rewrite El2 in Hx. inversion Hx; subst x. lia.
               - rewrite Er2 in Hx. discriminate. }
             intros _. cbn [unbusy vb].
             apply hsafe_unlock. intros g3 h3 tg3 n3 cl3 HR3 (HD3 & HI3).
             destruct (cmp_swap_step g3 h3 tg3 n3 cl3 p c s fut HR3 HD3 HI3) as (K1 & K2 & K3).
             split; [rewrite K1; reflexivity|].
             destruct (vb (snd (fst (cmp_swap p c g3)))).
             ++ destruct K3 as (h' & tg' & HR' & HD'). exists (DownA c s fut). split; [eauto|].
                intros _. apply hsafe_unlock_none. apply IH. reflexivity.
             ++ destruct K3 as (Eg & HU). exists (UpA 0 s fut). split; [exists h3, tg3, n3; rewrite Eg; auto|].
                intros _. apply hsafe_unlock_none. apply hsafe_unlock_none. reflexivity.
        * (* no right sibling inside the buffer: compare the left child at once *)
          apply Nat.ltb_ge in Er.
          assert (HI : IsMax h p c).
          { split; [left; exact Hc|]. split; [rewrite El; discriminate|]. intros k x m Hk Hd Hx Hm.
            destruct (div2_children k p Hp Hd) as [-> | ->]; [rewrite <- Hc, El in Hx; rewrite El in Hm; inversion Hx; inversion Hm; subst; lia|].
            exfalso. assert (h (S (2 * p)) <> None) by (rewrite Hx; discriminate).
            pose proof (Occ_range cap OK SH n h _ R2 HO H). lia. }
          destruct (cmp_swap_step g h tg n cl p c s fut HR HD0 HI) as (K1 & K2 & K3).
          destruct (cmp_swap p c g) as [[g' v] es]. cbn [fst snd] in *. subst es. split; [reflexivity|].
          destruct (vb v).
          -- destruct K3 as (h' & tg' & HR' & HD'). exists (DownA c s fut). split; [eauto|].
             intros _. cbn [unbusy vn]. apply hsafe_unlock_none. apply IH. reflexivity.
          -- destruct K3 as (Eg & HU). exists (UpA 0 s fut). split; [exists h, tg, n; rewrite Eg; auto|].
             intros _. cbn [unbusy vn]. apply hsafe_unlock_none. apply hsafe_unlock_none. reflexivity.
      + (* the left child is empty: p is a leaf *)
        assert (Htc : tg c = TEmpty) by (apply HE; exact El). rewrite Htc. cbn [tag_eqb fst snd flat_map]. split; [reflexivity|].
        exists (UpA 0 s fut). split.
        { exists h, tg, n. split; [exact HR|]. split; [|split; [exact HM|exact HH]]. apply (Good_UpInv0 cap OK SH).
          apply (DownInv_leaf cap OK SH p n h tg R2 HD). rewrite <- Hc. exact El. }
        intros _. cbn [unbusy vn]. apply hsafe_unlock_none. apply hsafe_unlock_none. reflexivity.
    - apply Nat.ltb_ge in Ec.
      apply hsafe_unlock. intros g h tg n cl HR (HD & HM & HH). cbn [body_none fst snd flat_map]. split; [reflexivity|].
      pose proof HR as (R1 & R2 & R3 & R4).
      exists (UpA 0 s fut). split.
      { exists h, tg, n. split; [exact HR|]. split; [|split; [exact HM|exact HH]]. apply (Good_UpInv0 cap OK SH).
        apply (DownInv_nochild cap OK SH p n h tg R2 HD). lia. }
      intros _. reflexivity.
  Qed.

  (** *** push *)
  Lemma bc_st_nat n : bc (st n) = Z.of_nat n.
  Proof. apply bc_st. Qed.

  Lemma hsafe_push hf lf x s fut :
    safe 0 (push cap bsz hf lf 0 x) (UpA 0 s (push_tok cap s :: fut))
      (optQ (fun b l' => l' = UpA 0 (fst (bpq_step cap s (Push (prio x)))) (push_tok cap s :: fut) /\
                         push_tok cap s = [2%Z; bz b])).
  Proof.
    unfold push. apply hsafe_lock. intros g h tg n cl HR HU0. pose proof HU0 as (HU & HM & HH).
    pose proof HR as (R1 & R2 & R3 & R4). destruct HM as [M1 M2].
    unfold body_push_size. rewrite R1, bc_st_nat.
    destruct (Z.leb (Z.of_nat cap) (Z.of_nat n)) eqn:Efull.
    - (* full *)
      apply Z.leb_le in Efull. assert (En : n = cap) by lia.
      assert (Hlt : Nat.ltb (List.length s) cap = false) by (apply Nat.ltb_ge; lia).
      cbn [fst snd flat_map tok]. split; [reflexivity|].
      exists (UpA 0 s (push_tok cap s :: fut)). split; [exists h, tg, n; split; [exact HR|exact HU0]|]. intros _. cbn [unbusy vb].
      apply hsafe_unlock_none. cbn [optQ]. split; [|unfold push_tok; rewrite Hlt; reflexivity].
      unfold bpq_step. rewrite Hlt. reflexivity.
    - (* a slot is reserved *)
      apply Z.leb_gt in Efull. assert (Hn : S n <= cap) by lia.
      assert (Hlt : Nat.ltb (List.length s) cap = true) by (apply Nat.ltb_lt; lia).
      assert (Hs' : fst (bpq_step cap s (Push (prio x))) = prio x :: s) by (unfold bpq_step; rewrite Hlt; reflexivity).
      rewrite Hs'.
      destruct (brc_inc (st n)) as [sl c'] eqn:Einc.
      assert (Esl : Z.to_nat sl = slot (S n)) by (rewrite slot_S, Einc; reflexivity).
      assert (Ec' : c' = st (S n)) by (cbn [st]; rewrite Einc; reflexivity).
      set (i := slot (S n)) in *. rewrite Esl.
      assert (Ri : 1 <= i <= cap) by (apply (slot_range cap OK); lia).
      assert (Hin : Nat.ltb i bsz = true) by (apply Nat.ltb_lt; lia). rewrite Hin.
      cbn [fst snd flat_map]. split; [reflexivity|].
      pose proof (UpInv0_Good cap OK SH n h tg R2 HU) as HG.
      destruct (UpInv_store cap OK SH n h tg x Hn HG) as [Hfree HUs]. fold i in Hfree, HUs.
      exists (fun h' tg' n' cl' => n' = S n /\ UpA 0 s (push_tok cap s :: fut) h' tg' n cl'). split.
      { exists h, tg, (S n). split; [|split; [reflexivity|exact HU0]]. subst c'. apply (Rep_set_ctr g h tg n (S n) HR Hn). }
      intros _. cbn [unbusy vb vn]. apply hsafe_lock_none.
      apply hsafe_unlock. intros g2 h2 tg2 n2 cl2 HR2 (En2 & HU2 & [M21 M22] & HH2). subst n2.
      cbn [body_push_store fst snd flat_map]. split; [reflexivity|].
      exists (UpA i (prio x :: s) (push_tok cap s :: fut)). split.
      { exists (upd h2 i (Some x)), (upd tg2 i (TOwner 0)), (S n). split; [apply Rep_set_cell; exact HR2|].
        pose proof (UpInv0_Good cap OK SH n h2 tg2 R2 HU2) as HG2.
        destruct (UpInv_store cap OK SH n h2 tg2 x Hn HG2) as [Hfree2 HUs2]. fold i in Hfree2, HUs2.
        split; [exact HUs2|]. split; [|exact HH2]. split; [|cbn [List.length]; lia].
        rewrite (prios_store cap OK SH h2 i x Ri Hfree2). apply perm_skip. exact M21. }
      intros _. apply hsafe_unlock_none. unfold obind. apply Conc.safe_bind.
      eapply Conc.safe_weaken; [|apply hsafe_heapify_push]. intros [[]|] l' Hl'; cbn in Hl' |- *; [|exact I].
      split; [exact Hl'|unfold push_tok; rewrite Hlt; reflexivity].
  Qed.

  (** *** pop *)
  Lemma popped_max (s : list Z) (z : item) (r : list Z) (m : nat) :
    List.length s = S m -> Permutation s (prio z :: r) -> (forall y, In y r -> (y <= prio z)%Z) ->
    exists s', pq_pop s = (s', RVal (Some (prio z))) /\ Permutation r s' /\ List.length s' = m /\
               pop_tok s = [4; 1; prio z]%Z.
  Proof.
    intros Hl Hp Hmax. destruct (pq_pop_max cap OK SH s (prio z) r Hp Hmax) as (s' & E & Hp').
    exists s'. split; [exact E|]. split; [apply Permutation_sym; exact Hp'|]. split.
    - apply Permutation_length in Hp. apply Permutation_length in Hp'. cbn [List.length] in Hp. lia.
    - unfold pop_tok. rewrite E. reflexivity.
  Qed.

  Lemma hsafe_pop hf lf s fut :
    safe 0 (pop bsz hf lf) (UpA 0 s (pop_tok s :: fut))
      (optQ (fun r l' => l' = UpA 0 (fst (pq_pop s)) (pop_tok s :: fut) /\
                         pop_tok s = match r with Some z => [4; 1; prio z] | None => [4; 0; 0] end%Z)).
  Proof.
    unfold pop. apply hsafe_lock. intros g h tg n cl HR HU0. pose proof HU0 as (HU & [M1 M2] & HH).
    pose proof HR as (R1 & R2 & R3 & R4).
    unfold body_pop_size. rewrite R1, bc_st_nat.
    destruct (Z.eqb (Z.of_nat n) 0) eqn:Eempty.
    - (* empty *)
      apply Z.eqb_eq in Eempty. assert (En : n = 0) by lia.
      destruct s as [|s0 sr]; [|cbn [List.length] in M2; lia].
      cbn [fst snd flat_map]. split; [reflexivity|].
      exists (UpA 0 [] (pop_tok [] :: fut)). split; [exists h, tg, n; split; [exact HR|exact HU0]|]. intros _. cbn [unbusy vb].
      apply hsafe_unlock_none. cbn. split; reflexivity.
    - (* the bottom cell is claimed *)
      apply Z.eqb_neq in Eempty. destruct n as [|m]; [lia|].
      destruct (brc_dec (st (S m))) as [sl c'] eqn:Edec.
      assert (Esl : Z.to_nat sl = slot (S m)) by (rewrite <- (slot_dec m), Edec; reflexivity).
      assert (Ec' : c' = st m) by (pose proof (dec_st cap OK (S m) ltac:(lia)) as K; rewrite Edec in K; exact K).
      set (b := slot (S m)) in *. rewrite Esl.
      assert (Rb : 1 <= b <= cap) by (apply (slot_range cap OK); lia).
      assert (Hin : Nat.ltb b bsz = true) by (apply Nat.ltb_lt; lia). rewrite Hin.
      cbn [fst snd flat_map]. split; [reflexivity|].
      exists (fun h' tg' n' cl' => n' = m /\ UpA 0 s (pop_tok s :: fut) h' tg' (S m) cl'). split.
      { exists h, tg, m. split; [|split; [reflexivity|exact HU0]]. subst c'. apply (Rep_set_ctr g h tg (S m) m HR). lia. }
      intros _. cbn [unbusy vb vn].
      destruct (Nat.eqb_spec b 1) as [Eb|Nb].
      + (* nBottom = 1: the top cell itself is taken *)
        apply hsafe_lock. intros g2 h2 tg2 n2 cl2 HR2 (En2 & HU2 & [M21 M22] & HH2). subst n2.
        pose proof HR2 as (S1 & S2 & S3 & S4).
        pose proof (UpInv0_Good cap OK SH (S m) h2 tg2 ltac:(lia) HU2) as HG2. pose proof HG2 as (HO2 & _ & _).
        assert (Hex : exists z, h2 1 = Some z).
        { pose proof (Occ_slot cap OK SH (S m) h2 (S m) HO2 ltac:(lia)) as K. fold b in K. rewrite Eb in K.
          destruct (h2 1) as [z|]; [eauto|congruence]. }
        destruct Hex as [z Ez].
        cbn [body_take fst snd flat_map]. split; [reflexivity|].
        pose proof (Good_take cap OK SH m h2 tg2 ltac:(lia) HG2) as HGt. fold b in HGt. rewrite Eb in HGt.
        assert (Hp : Permutation s (prio z :: prios cap (upd h2 1 None))).
        { rewrite <- M21. apply (prios_take cap OK SH h2 1 z ltac:(lia) Ez). }
        assert (Hmax : forall y, In y (prios cap (upd h2 1 None)) -> (y <= prio z)%Z).
        { intros y Hy. apply (in_prios cap OK SH) in Hy. destruct Hy as (k & x' & Hk & <-).
          destruct (Nat.eq_dec k 1) as [->|K1]; [rewrite upd_same in Hk; discriminate|]. rewrite upd_other in Hk by exact K1.
          apply (root_max cap OK SH (S m) h2 tg2 ltac:(lia) HG2 k x' z Hk Ez). }
        destruct (popped_max s z _ m M2 Hp Hmax) as (s' & Epop & Hps & Hls & Htok).
        exists (UpA 0 s' (pop_tok s :: fut)). split.
        { exists (upd h2 1 None), (upd tg2 1 TEmpty), m. split; [apply Rep_set_cell; exact HR2|].
          split; [apply (Good_UpInv0 cap OK SH); exact HGt|]. split; [split; assumption|exact HH2]. }
        intros _. cbn [unbusy vi]. change (nval (heap g2 1)) with (cellv g2 1). rewrite S3, Ez.
        apply hsafe_unlock_none. apply hsafe_unlock_none. cbn [optQ Conc.safe]. rewrite Epop. cbn [fst]. split; [reflexivity|exact Htok].
      + apply hsafe_lock_none. apply hsafe_lock_none.
        apply hsafe_unlock. intros g2 h2 tg2 n2 cl2 HR2 (En2 & HU2 & [M21 M22] & HH2). subst n2.
        pose proof HR2 as (S1 & S2 & S3 & S4).
        pose proof (UpInv0_Good cap OK SH (S m) h2 tg2 ltac:(lia) HU2) as HG2. pose proof HG2 as (HO2 & _ & _).
        assert (Hex : exists xb, h2 b = Some xb).
        { pose proof (Occ_slot cap OK SH (S m) h2 (S m) HO2 ltac:(lia)) as K. fold b in K. destruct (h2 b) as [xb|]; [eauto|congruence]. }
        destruct Hex as [xb Exb].
        assert (Hm1 : 1 <= m).
        { destruct m as [|m']; [|lia]. exfalso. apply Nb. unfold b. apply slot_1. }
        cbn [body_take fst snd flat_map]. split; [reflexivity|].
        pose proof (Good_take cap OK SH m h2 tg2 ltac:(lia) HG2) as HGt. fold b in HGt.
        exists (fun h' tg' n' cl' => n' = m /\ Good m h' tg' /\ Permutation (prio xb :: prios cap h') s /\
                                    (forall z, h' 1 = Some z -> (prio xb <= prio z)%Z) /\ cl' ++ (pop_tok s :: fut) = total). split.
        { exists (upd h2 b None), (upd tg2 b TEmpty), m. split; [apply Rep_set_cell; exact HR2|].
          split; [reflexivity|]. split; [exact HGt|]. split; [|split; [|exact HH2]].
          - rewrite <- M21. apply Permutation_sym. apply (prios_take cap OK SH h2 b xb Rb Exb).
          - intros z Hz. rewrite upd_other in Hz by congruence. apply (root_max cap OK SH (S m) h2 tg2 ltac:(lia) HG2 b xb z Exb Hz). }
        intros _. cbn [vi]. change (nval (heap g2 b)) with (cellv g2 b). rewrite S3, Exb.
        apply hsafe_unlock. intros g3 h3 tg3 n3 cl3 HR3 (En3 & HG3 & MP & Hxb & HH3). subst n3.
        pose proof HR3 as (T1 & T2 & T3 & T4). unfold cellv, cellt in T3, T4. pose proof HG3 as (HO3 & [HE3 HA3] & _).
        assert (Hex : exists z, h3 1 = Some z).
        { pose proof (Occ_slot cap OK SH m h3 1 HO3 ltac:(lia)) as K. rewrite slot_1 in K. destruct (h3 1) as [z|]; [eauto|congruence]. }
        destruct Hex as [z Ez].
        assert (Htop : tg3 1 = TAvail) by (apply HA3; rewrite Ez; discriminate).
        unfold body_pop_top. cbv zeta. rewrite T4, T3, Htop, Ez. cbn [tag_eqb fst snd flat_map]. split; [reflexivity|].
        assert (Hp : Permutation s (prio z :: prios cap (upd h3 1 (Some xb)))).
        { rewrite <- MP. apply Permutation_sym. apply (prios_replace cap OK SH h3 1 xb z ltac:(lia) Ez). }
        assert (Hmax : forall y, In y (prios cap (upd h3 1 (Some xb))) -> (y <= prio z)%Z).
        { intros y Hy. apply (in_prios cap OK SH) in Hy. destruct Hy as (k & x' & Hk & <-).
          destruct (Nat.eq_dec k 1) as [->|K1].
          - rewrite upd_same in Hk. inversion Hk; subst x'. apply Hxb. exact Ez.
          - rewrite upd_other in Hk by exact K1. apply (root_max cap OK SH m h3 tg3 T2 HG3 k x' z Hk Ez). }
        destruct (popped_max s z _ m M2 Hp Hmax) as (s' & Epop & Hps & Hls & Htok).
        exists (DownA 1 s' (pop_tok s :: fut)). split.
        { exists (upd h3 1 (Some xb)), (upd tg3 1 TAvail), m. split; [apply Rep_set_cell; exact HR3|].
          split; [apply (DownInv_top cap OK SH m h3 tg3 xb ltac:(lia) HG3)|]. split; [split; assumption|exact HH3]. }
        intros _. cbn [vb vi]. unfold obind. apply Conc.safe_bind.
        eapply Conc.safe_weaken; [|apply hsafe_heapify_pop; reflexivity].
        intros [[]|] l' Hl'; cbn in Hl' |- *; [|exact I]. rewrite Epop. cbn [fst]. split; [exact Hl'|exact Htok].
  Qed.

  (** *** client operations *)
  Lemma snoc_assoc {X} (l : list X) a r : (l ++ [a]) ++ r = l ++ a :: r.
  Proof. rewrite <- app_assoc. reflexivity. Qed.

  Lemma hsafe_emit_silent {R} es (k : prog R) (P : asrt) (Q : R -> asrt -> Prop) :
    flat_map tok es = [] -> safe 0 k P Q -> safe 0 (Emit es k) P Q.
  Proof.
    intros E H. cbn [Conc.safe]. intros g a tr Hi Hv. exists a. split; [apply SInv_silent; assumption|].
    split; [apply frame_refl|]. rewrite Hv. exact H.
  Qed.

  Definition spec_op (o : op) : pop_op := match o with OPush x => Push (prio x) | OPop => Pop end.

  Lemma hsafe_run_op hf lf o s os :
    safe 0 (run_op cap bsz hf lf 0 o) (UpA 0 s (spec_hist cap s (o :: os)))
      (fun ok l' => ok = true -> l' = UpA 0 (fst (bpq_step cap s (spec_op o))) (spec_hist cap (fst (bpq_step cap s (spec_op o))) os)).
  Proof.
    destruct o as [x|]; cbn [run_op spec_hist spec_op].
    - set (s' := fst (bpq_step cap s (Push (prio x)))). set (fut := spec_hist cap s' os).
      apply hsafe_emit. intros h tg n cl (HU & HM & HH). destruct x as [p id].
      assert (Et0 : flat_map tok [EvCli "inv_push" (zitem (p, id))] = [[1%Z; p]]) by reflexivity.
      rewrite Et0. change (prio (p, id)) with p in HH.
      split; [exists (push_tok cap s :: fut); rewrite snoc_assoc; exact HH|].
      exists (UpA 0 s (push_tok cap s :: fut)). split; [split; [exact HU|split; [exact HM|rewrite snoc_assoc; exact HH]]|].
      apply Conc.safe_bind. eapply Conc.safe_weaken; [|apply (hsafe_push hf lf (p, id) s fut)].
      intros [b|] l' Hl'; cbn [optQ] in Hl'.
      + destruct Hl' as [-> Htok]. apply hsafe_emit. intros h2 tg2 n2 cl2 (HU2 & HM2 & HH2).
        assert (Et : flat_map tok [EvCli "ret_push" ((if b then 1%Z else 0%Z) :: zitem (p, id))] = [push_tok cap s]).
        { rewrite Htok. destruct b; reflexivity. }
        rewrite Et. split; [exists fut; rewrite snoc_assoc; exact HH2|].
        exists (UpA 0 s' fut). split; [split; [exact HU2|split; [exact HM2|rewrite snoc_assoc; exact HH2]]|].
        cbn. intros _. reflexivity.
      + apply hsafe_emit_silent; [reflexivity|]. cbn. discriminate.
    - set (s' := fst (pq_pop s)). set (fut := spec_hist cap s' os).
      apply hsafe_emit. intros h tg n cl (HU & HM & HH).
      assert (Et0 : flat_map tok [EvCli "inv_pop" []] = [[3%Z]]) by reflexivity. rewrite Et0.
      split; [exists (pop_tok s :: fut); rewrite snoc_assoc; exact HH|].
      exists (UpA 0 s (pop_tok s :: fut)). split; [split; [exact HU|split; [exact HM|rewrite snoc_assoc; exact HH]]|].
      apply Conc.safe_bind. eapply Conc.safe_weaken; [|apply (hsafe_pop hf lf s fut)].
      intros [[x|]|] l' Hl'; cbn [optQ] in Hl'.
      + destruct Hl' as [-> Htok]. apply hsafe_emit. intros h2 tg2 n2 cl2 (HU2 & HM2 & HH2).
        assert (Et : flat_map tok [EvCli "ret_pop" (1%Z :: zitem x)] = [pop_tok s]) by (rewrite Htok; destruct x; reflexivity).
        rewrite Et. split; [exists fut; rewrite snoc_assoc; exact HH2|].
        exists (UpA 0 s' fut). split; [split; [exact HU2|split; [exact HM2|rewrite snoc_assoc; exact HH2]]|].
        cbn. intros _. reflexivity.
      + destruct Hl' as [-> Htok]. apply hsafe_emit. intros h2 tg2 n2 cl2 (HU2 & HM2 & HH2).
        assert (Et : flat_map tok [EvCli "ret_pop" [0%Z; 0%Z; 0%Z]] = [pop_tok s]) by (rewrite Htok; reflexivity).
        rewrite Et. split; [exists fut; rewrite snoc_assoc; exact HH2|].
        exists (UpA 0 s' fut). split; [split; [exact HU2|split; [exact HM2|rewrite snoc_assoc; exact HH2]]|].
        cbn. intros _. reflexivity.
      + apply hsafe_emit_silent; [reflexivity|]. cbn. discriminate.
  Qed.

  Lemma hsafe_run_ops hf lf : forall os s,
    safe 0 (run_ops cap bsz hf lf 0 os) (UpA 0 s (spec_hist cap s os)) (@Conc.QTrue asrt).
  Proof.
    induction os as [|o r IH]; intros s; cbn [run_ops]; [exact I|].
    apply Conc.safe_bind. eapply Conc.safe_weaken; [|apply hsafe_run_op].
    intros [|] l' Hl'; [rewrite (Hl' eq_refl); apply IH|exact I].
  Qed.

  Lemma hsafe_thread hf lf os :
    safe 0 (thread_prog cap bsz hf lf 0 os) (UpA 0 [] (spec_hist cap [] os)) (@Conc.QTrue asrt).
  Proof.
    unfold thread_prog. cbn [Conc.safe]. intros g a tr Hi Hv. cbn [a_begin fst snd]. exists a.
    split; [apply SInv_silent; [reflexivity|exact Hi]|]. split; [apply frame_refl|]. rewrite Hv. apply hsafe_run_ops.
  Qed.
End Seq.

(** ** the theorem *)
Lemma prios_empty cap : prios cap (fun _ => None) = [].
Proof. unfold prios, items. induction (seq 1 cap) as [|k l IH]; [reflexivity|exact IH]. Qed.

Theorem mspq_sequential_refines cap (OK : slots_ok cap = true) (SH : shape_ok cap = true) bsz (Hbsz : cap < bsz) hf lf os c :
  Conc.reach (init_cfg cap bsz hf lf [os]) c ->
  exists fut, phist (Conc.trace c) ++ fut = spec_hist cap [] os.
Proof.
  intros Hr. set (total := spec_hist cap [] os).
  assert (H0 : Conc.cfg_ok (view) (SInv cap total) (init_cfg cap bsz hf lf [os])).
  { exists (fun _ => UpA cap total 0 [] total). split.
    - split; [|exists total; reflexivity]. exists (fun _ => None), (fun _ => TEmpty), 0. split.
      + split; [reflexivity|]. split; [lia|]. split; intros i; reflexivity.
      + split; [|split; [split; [rewrite prios_empty; constructor|reflexivity]|reflexivity]].
        apply (Good_UpInv0 cap OK SH). split; [|split; [split; [reflexivity|congruence]|]].
        * intros i. split; [congruence|]. intros (j & Hj & _). lia.
        * intros k _ x Hx. discriminate.
    - intros t p Hp. cbn [init_cfg Conc.threads thread_progs] in Hp. destruct t as [|[|t]]; try discriminate.
      inversion Hp. apply (hsafe_thread cap OK SH bsz Hbsz total hf lf os). }
  destruct (Conc.reach_Inv H0 Hr) as (a & _ & Hpre). exact Hpre.
Qed.
